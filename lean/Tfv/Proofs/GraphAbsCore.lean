import Tfv.Model.GraphAbs
import Tfv.Proofs.FlowNested
/-!
# C08 on expanded composite operators, part 1: `addExprA` in normal form

One equation per constructor (any `current`), in terms of the pieces `curG`, `mkInternalG`, `wireG` that the
equations of `addExpr` (Proofs/FlowCore.lean) are written in. The argument case of an abstraction differs from
`wireG` in one step only: the node of the body is not fed by the internal node (`wirePostG` is `wireG` without
that first edge).

`addExprA` passes `none` for `origin` in one recursive call, so `origin` is an argument of the recursion; Lean's
equation generator and smart unfolding do not cope with that here (`unfold addExprA` fails), and the two
application equations are proved by `rfl` with smart unfolding switched off.
-/
namespace Tfv.C08P
open Tfv

/-- the failure of `assert isinstance(expr, Application)` -/
def assertApp : GErr := .internal "add_expr:assert Application"

def AExpr.isLam : AExpr → Bool
  | .lam _ _ _ => true
  | _ => false

/-- the edge from the argument's node to the internal node (a passed operation is fed by it) -/
def feedG (c : GCfg) (g : GState) (xnode : Nat) : Option Nat → GState
  | some i => gAddFrom c g xnode i
  | none => g

/-- everything `add_expr` does for an application after the argument has been added and (for a passed
operation) fed -/
def wirePostG (c : GCfg) (origin : Option Node) (g : GState) (cur fnode xnode : Nat) (currentInternal : Option Nat) : GState :=
  let repeated := (objectsOf g.fd.frm fnode).contains xnode
  let g := gAddFrom c g fnode xnode
  let g := match currentInternal with
    | some i => ((g.internals.filter (fun (p : Nat × Nat) => p.1 == xnode)).map (fun (p : Nat × Nat) => p.2)).foldl (fun g j => gAddFrom c g j i) g
    | none => g
  let g := ((g.internals.filter (fun (p : Nat × Nat) => p.1 == fnode)).map (fun (p : Nat × Nat) => p.2)).foldl
    (fun g j => if some j != currentInternal then gAddFrom c g j xnode else g) g
  let g := match currentInternal with
    | some i =>
      let g := (objectsOf g.fd.frm fnode).eraseDups.foldl (fun g fin => if xnode != fin || repeated then gAddFrom c g i fin else g) g
      match origin with
      | some o => if c.withWorkflowOrigin then g.add (.b i, .tf "origin", o) else g
      | none => g
    | none => g
  match origin with
  | some o => if c.withWorkflowOrigin then g.add (.b cur, .tf "origin", o) else g
  | none => g

theorem wireG_eq (c : GCfg) (origin : Option Node) (g : GState) (cur fnode xnode : Nat) (ci : Option Nat) :
    wireG c origin g cur fnode xnode ci = wirePostG c origin (feedG c g xnode ci) cur fnode xnode ci := by
  cases ci <;> rfl

/-! ## leaves -/

theorem addExprA_src (G : GLang) (c : GCfg) (root : Node) (origin : Option Node) (s : AState) (id : Nat)
    (l : Option String) (ty : Term) (cur : Option Nat) (im : Bool) :
    addExprA G c root origin s (.src id l ty) cur im =
      match addExpr G c root origin s.g (.src id l ty) cur im with
      | .error e => .error e
      | .ok (g, n) => .ok ({ s with g := g }, n) := by
  cases cur <;> rfl

theorem addExprA_op (G : GLang) (c : GCfg) (root : Node) (origin : Option Node) (s : AState) (name : String)
    (ty : Term) (cur : Option Nat) (im : Bool) :
    addExprA G c root origin s (.op name ty) cur im =
      match addExpr G c root origin s.g (.op name ty) cur im with
      | .error e => .error e
      | .ok (g, n) => .ok ({ s with g := g }, n) := by
  cases cur <;> rfl

theorem addExprA_pvar (G : GLang) (c : GCfg) (root : Node) (origin : Option Node) (s : AState) (id : Nat)
    (ty : Term) (cur : Option Nat) (im : Bool) :
    addExprA G c root origin s (.pvar id ty) cur im =
      match s.params.find? (fun p => p.1 == id) with
      | some p => .ok (s, p.2)
      | none => .error assertApp := by
  cases cur <;> rfl

theorem addExprA_lam (G : GLang) (c : GCfg) (root : Node) (origin : Option Node) (s : AState) (ps : List Nat)
    (body : AExpr) (ty : Term) (cur : Option Nat) (im : Bool) :
    addExprA G c root origin s (.lam ps body ty) cur im = .error assertApp := by
  cases cur <;> rfl

/-! ## applications -/

/-- the argument case of anything but an abstraction: the argument is added and, for a passed operation, fed by
the internal node -/
def otherArg (G : GLang) (c : GCfg) (root : Node) (origin : Option Node) (s1 : AState) (fnode : Nat) (x : AExpr) :
    Except GErr (AState × Nat) :=
  match addExprA G c root origin { s1 with g := (mkInternalG s1.g.fresh.1 fnode x.ty.isFunction).1 } x
      (some s1.g.fresh.2) true with
  | .error e => .error e
  | .ok (s2, xnode) =>
    .ok ({ s2 with g := (feedG c s2.g xnode (mkInternalG s1.g.fresh.1 fnode x.ty.isFunction).2) }, xnode)

set_option smartUnfolding false in
theorem addExprA_app_gen (G : GLang) (c : GCfg) (root : Node) (origin : Option Node) (s : AState) (f x : AExpr) (ty : Term)
    (cur : Option Nat) (im : Bool) (hx : AExpr.isLam x = false) :
    addExprA G c root origin s (.app f x ty) cur im =
      match addExprA G c root origin { s with g := (curG s.g cur).1 } f (some (curG s.g cur).2) im with
      | .error e => .error e
      | .ok (s1, fnode) =>
        match otherArg G c root origin s1 fnode x with
        | .error e => .error e
        | .ok (s2, xnode) =>
          .ok ({ s2 with g := (wirePostG c origin s2.g (curG s.g cur).2 fnode xnode
                  (mkInternalG s1.g.fresh.1 fnode x.ty.isFunction).2) }, (curG s.g cur).2) := by
  cases x with
  | lam ps b t => cases hx
  | src id l t => cases cur <;> rfl
  | op name t => cases cur <;> rfl
  | app f' x' t => cases cur <;> rfl
  | pvar id t => cases cur <;> rfl

/-- an argument that is not an abstraction: literally the equation of `addExpr` -/
theorem addExprA_app (G : GLang) (c : GCfg) (root : Node) (origin : Option Node) (s : AState) (f x : AExpr) (ty : Term)
    (cur : Option Nat) (im : Bool) (hx : AExpr.isLam x = false) :
    addExprA G c root origin s (.app f x ty) cur im =
      match addExprA G c root origin { s with g := (curG s.g cur).1 } f (some (curG s.g cur).2) im with
      | .error e => .error e
      | .ok (s1, fnode) =>
        match addExprA G c root origin { s1 with g := (mkInternalG s1.g.fresh.1 fnode x.ty.isFunction).1 } x
            (some s1.g.fresh.2) true with
        | .error e => .error e
        | .ok (s2, xnode) =>
          .ok ({ s2 with g := (wireG c origin s2.g (curG s.g cur).2 fnode xnode
                  (mkInternalG s1.g.fresh.1 fnode x.ty.isFunction).2) }, (curG s.g cur).2) := by
  rw [addExprA_app_gen _ _ _ _ _ _ _ _ _ _ hx]
  cases addExprA G c root origin { s with g := (curG s.g cur).1 } f (some (curG s.g cur).2) im with
  | error e => rfl
  | ok r1 =>
    obtain ⟨s1, fnode⟩ := r1
    simp only [otherArg]
    cases addExprA G c root origin { s1 with g := (mkInternalG s1.g.fresh.1 fnode x.ty.isFunction).1 } x
        (some s1.g.fresh.2) true with
    | error e => rfl
    | ok r2 =>
      obtain ⟨s2, xnode⟩ := r2
      simp only [wireG_eq]

/-- the argument case of an abstraction: the body is added with the parameters registered for the internal node -/
def lamArg (G : GLang) (c : GCfg) (root : Node) (s1 : AState) (fnode : Nat) (ps : List Nat) (body : AExpr) (t : Term) :
    Except GErr (AState × Nat) :=
  match (mkInternalG s1.g.fresh.1 fnode t.isFunction).2 with
  | some i => addExprA G c root none
      { g := (mkInternalG s1.g.fresh.1 fnode t.isFunction).1, params := s1.params ++ ps.map (fun p => (p, i)) }
      body (some s1.g.fresh.2) true
  | none => .error assertApp

set_option smartUnfolding false in
theorem addExprA_app_lam_gen (G : GLang) (c : GCfg) (root : Node) (origin : Option Node) (s : AState) (f : AExpr)
    (ps : List Nat) (body : AExpr) (t ty : Term) (cur : Option Nat) (im : Bool) :
    addExprA G c root origin s (.app f (.lam ps body t) ty) cur im =
      match addExprA G c root origin { s with g := (curG s.g cur).1 } f (some (curG s.g cur).2) im with
      | .error e => .error e
      | .ok (s1, fnode) =>
        match lamArg G c root s1 fnode ps body t with
        | .error e => .error e
        | .ok (s2, bnode) =>
          .ok ({ s2 with g := (wirePostG c origin s2.g (curG s.g cur).2 fnode bnode
                  (mkInternalG s1.g.fresh.1 fnode t.isFunction).2) }, (curG s.g cur).2) := by
  cases cur <;> rfl

/-- an abstraction in argument position, of function type -/
theorem addExprA_app_lam (G : GLang) (c : GCfg) (root : Node) (origin : Option Node) (s : AState) (f : AExpr)
    (ps : List Nat) (body : AExpr) (t ty : Term) (cur : Option Nat) (im : Bool) (ht : t.isFunction = true) :
    addExprA G c root origin s (.app f (.lam ps body t) ty) cur im =
      match addExprA G c root origin { s with g := (curG s.g cur).1 } f (some (curG s.g cur).2) im with
      | .error e => .error e
      | .ok (s1, fnode) =>
        match addExprA G c root none
            { g := (mkInternalG s1.g.fresh.1 fnode true).1,
              params := s1.params ++ ps.map (fun p => (p, s1.g.nextB + 1)) } body (some s1.g.nextB) true with
        | .error e => .error e
        | .ok (s2, bnode) =>
          .ok ({ s2 with g := (wirePostG c origin s2.g (curG s.g cur).2 fnode bnode (some (s1.g.nextB + 1))) },
            (curG s.g cur).2) := by
  rw [addExprA_app_lam_gen]
  simp only [lamArg, ht]
  rfl

/-- an abstraction in argument position whose type is not a function type fails -/
theorem addExprA_app_lam_nofun (G : GLang) (c : GCfg) (root : Node) (origin : Option Node) (s : AState) (f : AExpr)
    (ps : List Nat) (body : AExpr) (t ty : Term) (cur : Option Nat) (im : Bool) (ht : t.isFunction = false) :
    addExprA G c root origin s (.app f (.lam ps body t) ty) cur im =
      match addExprA G c root origin { s with g := (curG s.g cur).1 } f (some (curG s.g cur).2) im with
      | .error e => .error e
      | .ok _ => .error assertApp := by
  rw [addExprA_app_lam_gen]
  simp only [lamArg, ht]
  cases addExprA G c root origin { s with g := (curG s.g cur).1 } f (some (curG s.g cur).2) im <;> rfl

end Tfv.C08P
