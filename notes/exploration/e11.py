import sys, traceback
sys.path.insert(0,'/repo')
from transforge.type import *
from transforge.type import _
from transforge.expr import *
from transforge.lang import *
def tryit(label, fn):
    try:
        r=fn(); print(label,'=>',r)
    except Exception as e:
        print(label,'!!',type(e).__name__, str(e)[:100])
A=TypeOperator('A'); C=TypeOperator('C'); F=TypeOperator('F',params=1); G=TypeOperator('G',params=2)
f=Operator(type=A**A, name='f'); g=Operator(type=lambda x: x**x**x, name='g')
lang=Language(dict(A=A,C=C,F=F,G=G,f=f,g=g))
def show(s,*args):
    def fn():
        e=lang.parse(s,*args); e.fix(); return e.tree()
    tryit(s, fn)
show('f - : C')
show('f (-) : C')
show('f (- : A) : C')
show('g (-: C) (-: G(A, C))')
show('g (-: A) (-: F(A))')
tryit('wild', lambda: (F(_) ** A).apply(_))
