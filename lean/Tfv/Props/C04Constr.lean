import Tfv.Model
import Tfv.Spec.WellTyped
import Tfv.Proofs.ParseInv
import Tfv.Proofs.ParseTypeOk
import Tfv.Proofs.ExprTypedConstr
import Tfv.Proofs.ExprConstrExamples
/-!
# C04 for operator tables whose signatures may carry constraints

`Tfv/Props/C04.lean` proves that every expression the typed parser/builder accepts is well typed at every
application node, for operator declarations WITHOUT constraints (`OpsOk`, store invariant `GoodStore` =
`OkStore ∧ NoConstraints`). Here the same statements are proved for declarations whose schemas may carry
subtype / elimination constraints (`OpsOkC`), over stores with pending constraints (`OkStoreC`,
`Proofs/InferConstrStore.lean`).

Reading guide. `TypedIn L σ e` (`Spec/WellTyped.lean`): the node types of `e` are well-formed terms of `σ` and,
under *every* solution `ρ` of `σ` (`Sat L ρ σ`), every application node `f x : t` of `e` satisfies
`den ρ f.ty = p ** den ρ t` with `den ρ x.ty ≤ p` (or both `f` and the node have type `Top`).
`OkStoreC L σ`: `OkStore L σ`, every registered constraint mentions well-formed terms only, every constraint id held
by a constraint set is allocated. `StepA L σ σ'` is a sound successor store: `σ'` satisfies the invariant, has at
least the variables and the constraints of `σ`, and every solution of `σ'` is a solution of `σ`.
`OpsOkC L ops`: the constraints and the body of every declared schema mention only the schema's variables and
respect arities (`okCAstN`, `okTermN`). As in C03Constr, `Sat` speaks about bindings and bounds; the constraints
act through the bindings / bounds / failures they cause.

All statements are full (no `_partial`): no C04 statement turned out false for constrained signatures.
Statements only; proofs in `Tfv/Proofs/ExprTypedConstr.lean`, runs in `Tfv/Proofs/ExprConstrExamples.lean`
(language `exL`: `A`, `B ≤ A`; operators `h : x ** x [x ≤ A]`, `b : B`).
-/
namespace Tfv.C04
open Tfv Tfv.C03P Tfv.C03C Tfv.C04P Tfv.C04C Tfv.ParseInv

/-! ## 1. the four operations of the typed builder -/

/-- `Source()` on a store with pending constraints keeps the invariant, is a sound step, and the new source
is typed in the new store. -/
theorem C04c_mkSource_typed (L : Lang) (s : XState) (g : OkStoreC L s.store) :
    OkStoreC L (mkSourceT s).1.store ∧ StepA L s.store (mkSourceT s).1.store ∧
    TypedIn L (mkSourceT s).1.store (mkSourceT s).2 := mkSource_typedC s g

/-- non-vacuity: a source made in the state that holds the pending constraint `x0 ≤ A` -/
example : OkStoreC exL sH.store ∧ getCset sH.store (getVar sH.store 0).cset = [0] := ⟨sH_okc, rfl⟩

/-- `Operator.instance()` for declarations WITH constraints: the invariant is kept, the step is sound, the
leaf is typed in the new store. -/
theorem C04c_mkOp_typed (L : Lang) (wf : WF L) (ops : List OperatorDecl) (hops : OpsOkC L ops)
    (s s' : XState) (name : String) (e : TExpr) (g : OkStoreC L s.store)
    (h : mkOpT L ops s name = .ok (s', e)) :
    OkStoreC L s'.store ∧ StepA L s.store s'.store ∧ TypedIn L s'.store e := mkOp_typedC wf hops g h

/-- non-vacuity: `h : x ** x [x ≤ A]`; its instance leaves the constraint pending in the store -/
example : WF exL ∧ OpsOkC exL exOpsC ∧ OkStoreC exL ({} : XState).store ∧
    (∃ d ∈ exOpsC, d.name = "h" ∧ d.schema.constraints = [.sub (.var 0) (.app 5 []) false]) ∧
    mkOpT exL exOpsC {} "h" = .ok (sH, eH) ∧
    getConstr sH.store 0 = .sub (.var 0) (.app 5 []) false false ∧ getCset sH.store (getVar sH.store 0).cset = [0] :=
  ⟨exL_wf, exOpsC_ok, empty_okC _, exOpsC_constrained, exH_op, rfl, rfl⟩

/-- `Application(f, x)` on a store with pending constraints: from typed `f` and `x` the new node is typed in
the new store — under every solution of the new store the function part means `p ** t` with the argument
below `p`. -/
theorem C04c_mkApp_typed (L : Lang) (wf : WF L) (fixFlag : Bool) (s s' : XState) (f x e : TExpr)
    (g : OkStoreC L s.store) (hf : TypedIn L s.store f) (hx : TypedIn L s.store x)
    (h : mkAppT L fixFlag s f x = .ok (s', e)) :
    OkStoreC L s'.store ∧ StepA L s.store s'.store ∧ TypedIn L s'.store e := mkApp_typedC wf g hf hx h

/-- non-vacuity: `h b`; the application re-checks the pending constraint twice and ends with it fulfilled;
`h` applied to something of type `Unit` is rejected by the constraint -/
example : OkStoreC exL sB.store ∧ TypedIn exL sB.store eH ∧ TypedIn exL sB.store eB ∧
    mkAppT exL true sB eH eB = .ok (sHB, eHB) ∧
    getConstr sHB.store 0 = .sub (.var 0) (.app 5 []) false true ∧ Sat exL (valOf [.app 6 []]) sHB.store ∧
    mkAppT exL true sH eH (.src 0 none (.app 0 [])) = .error (.application .constraintViolation) :=
  ⟨σC_okc, eH_typed, eB_typed, exHB_app, rfl, exHB_sat, exH_unit_rejected⟩

/-- `e : T` on a store with pending constraints keeps the invariant and the annotated tree typed. -/
theorem C04c_annotate_typed (L : Lang) (wf : WF L) (s s' : XState) (previous e : TExpr) (t : Term)
    (nfresh : Nat) (prevDash : Bool) (g : OkStoreC L s.store) (hp : TypedIn L s.store previous)
    (ht : okTerm L (allocVars s.store nfresh 0) t = true)
    (h : annotateT L s previous t nfresh prevDash = .ok (s', e)) :
    OkStoreC L s'.store ∧ StepA L s.store s'.store ∧ TypedIn L s'.store e :=
  annotate_typed3C wf g hp ht h

/-- After a successful annotation `e : T` the type of the annotated expression is a subtype of `T`
under every solution of the resulting store and of every later store. -/
theorem C04c_annotation (L : Lang) (wf : WF L) (s s' : XState) (previous e : TExpr) (t : Term)
    (nfresh : Nat) (prevDash : Bool) (g : OkStoreC L s.store) (hp : TypedIn L s.store previous)
    (ht : okTerm L (allocVars s.store nfresh 0) t = true)
    (h : annotateT L s previous t nfresh prevDash = .ok (s', e)) :
    ∀ σ'' ρ, StepA L s'.store σ'' → Sat L ρ σ'' → Sub L (den ρ e.ty) (den ρ t) :=
  annotation_laterC wf g hp ht h

/-- non-vacuity: `b : A` annotated in the state that holds the pending constraint `x0 ≤ A` of `h` -/
example : OkStoreC exL sB.store ∧ TypedIn exL sB.store eB ∧
    okTerm exL (allocVars sB.store 0 0) (.app 5 []) = true ∧
    annotateT exL sB eB (.app 5 []) 0 false = .ok (sB, eB) ∧ getCset sB.store (getVar sB.store 0).cset = [0] :=
  ⟨σC_okc, eB_typed, by decide, exB_annot, rfl⟩

/-- The typed builder satisfies the premises of the generic invariant lemma (`C04_stack_machine`) with the
store invariant `OkStoreC` and the predicate `TypedIn`, for operator tables with constraints. -/
theorem C04c_typedBuilder_inv (P : PLang) (wf : WF P.types) (ha : AliasesOk P) (ops : List OperatorDecl)
    (hops : OpsOkC P.types ops) (fixFlag : Bool) :
    BuilderInv P (typedBuilder P.types ops fixFlag) (fun s => OkStoreC P.types s.store)
      (fun s e => TypedIn P.types s.store e) (XStepA P.types) := typedBuilder_invC wf ha hops fixFlag

example : BuilderInv exPC (typedBuilder exPC.types exOpsC true) (fun s => OkStoreC exPC.types s.store)
    (fun s e => TypedIn exPC.types s.store e) (XStepA exPC.types) :=
  typedBuilder_invC exL_wf exPC_aliases exOpsC_ok true

/-! ## 2. the parser, `Expr.fix()`, `Expr.__call__` -/

/-- The input expressions `Source()` handed to the parser are typed in the state they leave. -/
theorem C04c_mkInputs_typed (L : Lang) (n : Nat) (s s' : XState) (es : List TExpr)
    (g : OkStoreC L s.store) (h : mkInputs n s = (s', es)) :
    OkStoreC L s'.store ∧ StepA L s.store s'.store ∧ ∀ e ∈ es, TypedIn L s'.store e :=
  mkInputs_typedC n s s' es g h

example : OkStoreC exL sH.store ∧
    mkInputs 1 sH = ({ store := (newVar σC true).1, nsrc := 1 }, [.src 0 none (.var 1)]) := ⟨sH_okc, rfl⟩

/-- MAIN. For operator declarations WITH constraints, whatever `parse_expr` returns is typed in the final
store: every application node of the returned tree is well typed under every solution of the final store
(and the inputs stay typed, the store keeps the invariant). -/
theorem C04c_nodes (P : PLang) (wf : WF P.types) (ha : AliasesOk P) (ops : List OperatorDecl)
    (hops : OpsOkC P.types ops) (fixFlag : Bool) (inputs : List TExpr) (s0 s : XState)
    (toks : List String) (e : TExpr) (g : OkStoreC P.types s0.store)
    (hin : ∀ x ∈ inputs, TypedIn P.types s0.store x)
    (h : parseExprToks P (typedBuilder P.types ops fixFlag) inputs s0 toks = .ok (s, e)) :
    OkStoreC P.types s.store ∧ (∀ x ∈ inputs, TypedIn P.types s.store x) ∧ TypedIn P.types s.store e :=
  parse_nodesC wf ha hops g hin h

/-- `h b` with `h : x ** x [x ≤ A]`, `b : B`: the parser succeeds, the final store has the solution `x := B`
and records the constraint as fulfilled, so the statement is not vacuous -/
example : WF exPC.types ∧ AliasesOk exPC ∧ OpsOkC exPC.types exOpsC ∧ OkStoreC exPC.types ({} : XState).store ∧
    parseExprToks exPC (typedBuilder exPC.types exOpsC true) [] {} ["h", "b"] = .ok (sHB, eHB) ∧
    Sat exL (valOf [.app 6 []]) sHB.store ∧ WellTyped exL (valOf [.app 6 []]) eHB :=
  ⟨exL_wf, exPC_aliases, exOpsC_ok, empty_okC _, exHB_parse, exHB_sat,
   (C04c_nodes exPC exL_wf exPC_aliases exOpsC exOpsC_ok true [] {} sHB _ eHB (empty_okC _)
      (fun _ hx => by cases hx) exHB_parse).2.2.wt _ exHB_sat⟩

/-- The fixing pass of `Expr.fix()` (`fixExprCore`) on a store with pending constraints: solutions only
shrink, the tree stays typed in the store after the pass, and the type of the root keeps its meaning. -/
theorem C04c_fixCore_nodes (L : Lang) (wf : WF L) (e e' : TExpr) (σ σ' : Store)
    (g : OkStoreC L σ) (ht : TypedIn L σ e) (h : fixExprCore L σ e = .ok (σ', e')) :
    StepA L σ σ' ∧ TypedIn L σ' e' ∧ ∀ ρ, Sat L ρ σ' → den ρ e'.ty = den ρ e.ty :=
  fixExprCore_typedC wf e σ σ' e' g ht h

example : OkStoreC exL σC2 ∧ fixExprCore exL σC2 eHB = .ok (σC2, eHB) := ⟨σC2_okc, exHB_fixCore⟩

/-- `Expr.fix()` (`fixExpr`: children first, then the node's own type is fixed and normalised against the
store of that moment) on a store with pending constraints: the fixed tree is typed in the store after
fixing, and the type of the root keeps its meaning under every solution of that store. -/
theorem C04c_fix_nodes (L : Lang) (wf : WF L) (e e' : TExpr) (σ σ' : Store)
    (g : OkStoreC L σ) (ht : TypedIn L σ e) (h : fixExpr L σ e = .ok (σ', e')) :
    StepA L σ σ' ∧ TypedIn L σ' e' ∧ ∀ ρ, Sat L ρ σ' → den ρ e'.ty = den ρ e.ty :=
  fixExpr_typedC wf e σ σ' e' g ht h

example : OkStoreC exL sHB.store ∧ fixExpr exL sHB.store eHB = .ok (σC2, eHBfixed) ∧
    Sat exL (valOf [.app 6 []]) σC2 := ⟨sHB_okc, exHB_fix, exHB_sat⟩

/-- `Language.parse(text, *inputs)` with or without `Expr.fix()`, operator table with constraints: the result
is typed in the final store. -/
theorem C04c_parseTyped_nodes (P : PLang) (wf : WF P.types) (ha : AliasesOk P) (ops : List OperatorDecl)
    (hops : OpsOkC P.types ops) (n : Nat) (toks : List String) (doFix : Bool) (s : XState) (e : TExpr)
    (h : parseTyped P ops n toks doFix = .ok (s, e)) :
    OkStoreC P.types s.store ∧ TypedIn P.types s.store e := parseTyped_nodesC wf ha hops h

/-- the run asked for: `parseTyped` succeeds on `h b`, and the result is well typed under the solution
`x := B` of the final store -/
example : parseTyped exPC exOpsC 0 ["h", "b"] true = .ok (sHB, eHBfixed) ∧
    WellTyped exL (valOf [.app 6 []]) eHBfixed :=
  ⟨exHB_parseTyped,
   (C04c_parseTyped_nodes exPC exL_wf exPC_aliases exOpsC exOpsC_ok 0 _ true sHB eHBfixed exHB_parseTyped).2.wt _
     exHB_sat⟩

example : parseTyped exPC exOpsC 0 ["h", "b"] false = .ok (sHB, eHB) := exHB_parseTyped_nofix

/-- Programmatic construction `f(x₁, x₂, …)` (`Expr.__call__`) on a store with pending constraints: from
typed parts the result is typed. -/
theorem C04c_call_nodes (L : Lang) (wf : WF L) (xs : List TExpr) (s s' : XState) (f e : TExpr)
    (g : OkStoreC L s.store) (hf : TypedIn L s.store f) (hxs : ∀ x ∈ xs, TypedIn L s.store x)
    (h : callT L s f xs = .ok (s', e)) :
    OkStoreC L s'.store ∧ StepA L s.store s'.store ∧ TypedIn L s'.store e :=
  callT_typedC wf xs s s' f e g hf hxs h

example : OkStoreC exL sB.store ∧ TypedIn exL sB.store eH ∧ (∀ x ∈ [eB], TypedIn exL sB.store x) ∧
    callT exL sB eH [eB] = .ok (sHB, eHB) :=
  ⟨σC_okc, eH_typed, fun x hx => by rw [List.mem_singleton] at hx; subst hx; exact eB_typed, exHB_call⟩

/-- What the main theorem says at an arbitrary application node `f x : t` of a parsed tree (`SubExpr`), for an
operator table with constraints: under every solution of the final store, the function part has type
`p ** t` with the argument's type a subtype of `p` — or the function part has type `Top` and so has the node. -/
theorem C04c_every_node (P : PLang) (wf : WF P.types) (ha : AliasesOk P) (ops : List OperatorDecl)
    (hops : OpsOkC P.types ops) (n : Nat) (toks : List String) (doFix : Bool) (s : XState) (e f x : TExpr)
    (t : Term) (h : parseTyped P ops n toks doFix = .ok (s, e)) (hs : SubExpr (.app f x t) e)
    (ρ : Val) (hρ : Sat P.types ρ s.store) :
    (∃ p, den ρ f.ty = .app FUN [p, den ρ t] ∧ Sub P.types (den ρ x.ty) p) ∨
    (den ρ f.ty = .app TOP [] ∧ den ρ t = .app TOP []) :=
  every_node (parseTyped_nodesC wf ha hops h).2 hs hρ

/-- the root node of `h b` -/
example : parseTyped exPC exOpsC 0 ["h", "b"] true = .ok (sHB, eHBfixed) ∧
    SubExpr (.app (.op "h" (.app FUN [.app 6 [], .app 6 []])) eB (.app 6 [])) eHBfixed ∧
    Sat exPC.types (valOf [.app 6 []]) sHB.store := ⟨exHB_parseTyped, .refl _, exHB_sat⟩

/-! ## 3. operator leaves -/

/-- An operator leaf made by `Operator.instance()` from a declaration WITH constraints carries an instance of
its declared signature: under every solution `ρ` of the resulting or any later store its type means the
declared schema body under the substitution `v ↦ ρ (v + base)`, `base` the number of variables before
instantiation. -/
theorem C04c_leaf_instance (L : Lang) (wf : WF L) (ops : List OperatorDecl) (hops : OpsOkC L ops)
    (s s' : XState) (name : String) (e : TExpr) (g : OkStoreC L s.store)
    (h : mkOpT L ops s name = .ok (s', e)) :
    ∃ d ∈ ops, d.name = name ∧
      (e = .op name e.ty ∨ e = .src s.nsrc (some name) e.ty) ∧
      ∀ σ'' ρ, StepA L s'.store σ'' → Sat L ρ σ'' →
        den ρ e.ty = den (fun v => ρ (v + s.store.vars.length)) d.schema.body :=
  leaf_instanceC wf hops g h

example : mkOpT exL exOpsC {} "h" = .ok (sH, eH) ∧ mkOpT exL exOpsC sH "b" = .ok (sB, eB) := ⟨exH_op, exB_op⟩

/-! ## 4. relation to the constraint-free statements -/

/-- declarations without constraints (the scope of `Props/C04.lean`) are a special case of `OpsOkC` -/
theorem C04c_opsOk_of_noConstraints (L : Lang) (ops : List OperatorDecl) (h : OpsOk L ops) : OpsOkC L ops :=
  opsOkC_of_opsOk h

example : OpsOkC c4L c4ops := C04c_opsOk_of_noConstraints c4L c4ops c4ops_ok

/-- the executable form of the hypothesis on the operator table -/
theorem C04c_opsOkCB_sound (L : Lang) (ops : List OperatorDecl) (h : opsOkCB L ops = true) : OpsOkC L ops :=
  opsOkCB_sound h

example : opsOkCB exL exOpsC = true := by decide

end Tfv.C04
