import Tfv.Proofs.QueryUnfoldTotal
/-!
# The two modes compared: `Matches` (one node per step) and `MatchesUnfolded` (one node per path)
-/
namespace Tfv

variable {g : List Triple} {wf : Node}

/-- the step a path ends in -/
def lastStep (p : List Nat) : Nat := p.getLast?.getD 0

theorem PathTo.lastStep {t : QTask} {p : List Nat} {k : Nat} (h : PathTo t p k) : Tfv.lastStep p = k := by
  unfold Tfv.lastStep
  rw [h.getLast]
  rfl

/-- an assignment of steps to nodes, read as an assignment of paths to nodes (every copy of a step gets the node of the step) -/
theorem MatchesBy.unfolded {G : GLang} {t : QTask} {f : QFlags} {h : Nat → Node} (hm : MatchesBy G t f g wf h) :
    MatchesUnfoldedBy G t f g wf (fun p => h (lastStep p)) := by
  refine ⟨?_, ?_, ?_, ?_, hm.preOps, hm.preTypes⟩
  · intro p o hp ho
    simp only [hp.lastStep]
    exact hm.output o ho
  · intro hch p k hp
    simp only [hp.lastStep]
    exact hm.step hch k hp.reach
  · intro hch p c b hp hb
    simp only [hp.lastStep, (PathTo.step hp hb).lastStep]
    exact hm.link hch c b hp.reach hb
  · intro hio p i hp hi
    simp only [hp.lastStep]
    exact hm.input hio i hi hp.reach

/-- the assignment of paths gives all copies of a step the same node -/
def Consistent (t : QTask) (h : List Nat → Node) : Prop :=
  ∀ p p' k, PathTo t p k → PathTo t p' k → h p = h p'

/-- some path to step `k` (if there is one) -/
noncomputable def somePath (t : QTask) (k : Nat) : List Nat :=
  open Classical in if hk : ∃ p, PathTo t p k then Classical.choose hk else []

theorem somePath_spec {t : QTask} {k : Nat} {p : List Nat} (hp : PathTo t p k) : PathTo t (somePath t k) k := by
  unfold somePath
  have hk : ∃ p, PathTo t p k := ⟨p, hp⟩
  rw [dif_pos hk]
  exact Classical.choose_spec hk

/-- a consistent assignment of paths to nodes, read as an assignment of steps to nodes -/
theorem MatchesUnfoldedBy.folded {G : GLang} {t : QTask} {f : QFlags} {h : List Nat → Node}
    (hm : MatchesUnfoldedBy G t f g wf h) (hc : Consistent t h) :
    MatchesBy G t f g wf (fun k => h (somePath t k)) := by
  have key : ∀ p k, PathTo t p k → h (somePath t k) = h p := fun p k hp => hc _ _ k (somePath_spec hp) hp
  refine ⟨?_, ?_, ?_, ?_, hm.preOps, hm.preTypes⟩
  · intro o ho
    have hp : PathTo t [o] o := .out ho
    simp only [key _ _ hp]
    exact hm.output _ o hp ho
  · intro hch k hk
    obtain ⟨p, hp⟩ := reach_pathTo hk
    simp only [key _ _ hp]
    exact hm.step hch p k hp
  · intro hch c b hk hb
    obtain ⟨p, hp⟩ := reach_pathTo hk
    simp only [key _ _ hp, key _ _ (PathTo.step hp hb)]
    exact hm.link hch p c b hp hb
  · intro hio i hi hk
    obtain ⟨p, hp⟩ := reach_pathTo hk
    simp only [key _ _ hp]
    exact hm.input hio p i hp hi

theorem matchesUnfolded_of_matches {G : GLang} {t : QTask} {f : QFlags} (h : Matches G t f g wf) :
    MatchesUnfolded G t f g wf := by
  obtain ⟨hh, hm⟩ := h
  exact ⟨_, hm.unfolded⟩

/-- `Matches` is `MatchesUnfolded` by an assignment that treats all copies of a step alike -/
theorem matches_iff_consistent {G : GLang} {t : QTask} {f : QFlags} :
    Matches G t f g wf ↔ ∃ h, MatchesUnfoldedBy G t f g wf h ∧ Consistent t h := by
  constructor
  · rintro ⟨hh, hm⟩
    refine ⟨_, hm.unfolded, ?_⟩
    intro p p' k hp hp'
    simp only [hp.lastStep, hp'.lastStep]
  · rintro ⟨h, hm, hc⟩
    exact ⟨_, hm.folded hc⟩

theorem matches_iff_unfolded_tree {G : GLang} {t : QTask} {f : QFlags} (ht : TreeShaped t) :
    Matches G t f g wf ↔ MatchesUnfolded G t f g wf := by
  refine ⟨matchesUnfolded_of_matches, ?_⟩
  rintro ⟨h, hm⟩
  refine ⟨_, hm.folded ?_⟩
  intro p p' k hp hp'
  rw [ht p p' k hp hp']

/-- `unfold_tree` itself does not occur in `MatchesBy` / `MatchesUnfoldedBy` -/
theorem matchesBy_flag {G : GLang} {t : QTask} {f : QFlags} {h : Nat → Node} (b : Bool) :
    MatchesBy G t { f with unfoldTree := b } g wf h ↔ MatchesBy G t f g wf h :=
  ⟨fun hm => ⟨hm.output, hm.step, hm.link, hm.input, hm.preOps, hm.preTypes⟩,
   fun hm => ⟨hm.output, hm.step, hm.link, hm.input, hm.preOps, hm.preTypes⟩⟩

theorem matchesUnfoldedBy_flag {G : GLang} {t : QTask} {f : QFlags} {h : List Nat → Node} (b : Bool) :
    MatchesUnfoldedBy G t { f with unfoldTree := b } g wf h ↔ MatchesUnfoldedBy G t f g wf h :=
  ⟨fun hm => ⟨hm.output, hm.step, hm.link, hm.input, hm.preOps, hm.preTypes⟩,
   fun hm => ⟨hm.output, hm.step, hm.link, hm.input, hm.preOps, hm.preTypes⟩⟩

theorem matches_flag {G : GLang} {t : QTask} {f : QFlags} (b : Bool) :
    Matches G t { f with unfoldTree := b } g wf ↔ Matches G t f g wf :=
  ⟨fun ⟨h, hm⟩ => ⟨h, (matchesBy_flag b).1 hm⟩, fun ⟨h, hm⟩ => ⟨h, (matchesBy_flag b).2 hm⟩⟩

theorem matchesUnfolded_flag {G : GLang} {t : QTask} {f : QFlags} (b : Bool) :
    MatchesUnfolded G t { f with unfoldTree := b } g wf ↔ MatchesUnfolded G t f g wf :=
  ⟨fun ⟨h, hm⟩ => ⟨h, (matchesUnfoldedBy_flag b).1 hm⟩, fun ⟨h, hm⟩ => ⟨h, (matchesUnfoldedBy_flag b).2 hm⟩⟩

/-- the query of the plain mode accepts ⇒ the query of the unfolded mode accepts -/
theorem eval_unfold_of_eval {G : GLang} {t : QTask} {f : QFlags} {q qU : Query}
    (hq : genQuery G t { f with unfoldTree := false } = .ok q) (hqU : genQuery G t { f with unfoldTree := true } = .ok qU)
    (g : List Triple) (wf : Node) (hbag : f.byTypes = true → BagExact G t g wf)
    (he : evalQuery q g wf = true) : evalQuery qU g wf = true := by
  have h1 := (query_iff (f := { f with unfoldTree := false }) rfl hq g wf hbag).1 he
  have h2 := matchesUnfolded_of_matches ((matches_flag false).1 h1)
  exact (query_iffU (f := { f with unfoldTree := true }) rfl hqU g wf hbag).2 ((matchesUnfolded_flag true).2 h2)

/-- for a tree-shaped task the two queries accept the same workflows -/
theorem eval_unfold_eq_tree {G : GLang} {t : QTask} {f : QFlags} {q qU : Query} (ht : TreeShaped t)
    (hq : genQuery G t { f with unfoldTree := false } = .ok q) (hqU : genQuery G t { f with unfoldTree := true } = .ok qU)
    (g : List Triple) (wf : Node) (hbag : f.byTypes = true → BagExact G t g wf) :
    evalQuery qU g wf = evalQuery q g wf := by
  have h1 := query_iff (f := { f with unfoldTree := false }) rfl hq g wf hbag
  have h2 := query_iffU (f := { f with unfoldTree := true }) rfl hqU g wf hbag
  rw [matches_flag false] at h1
  rw [matchesUnfolded_flag true, ← matches_iff_unfolded_tree ht] at h2
  rw [Bool.eq_iff_iff, h1, h2]

end Tfv
