import Tfv.Proofs.History
/-!
# History independence of the inference engine (C16), part 3: the engine

One side of every unification is a concrete type (as in `Type.apply` on concrete
arguments) and no variable is bound to a variable: then the occurs check and
`directVars` never depend on their fuel, and the run behind a history is the
shifted run.
-/
namespace Tfv.C16P
open Tfv Tfv.C03P

/-! ## 1. fuel-independent facts about concrete types -/

theorem match3_app_var {L : Lang} {σ : Store} (n : Nat) {a b : Term} {o : Nat} {args : List Term} {w : Nat}
    (ea : followT σ a = .app o args) (eb : followT σ b = .var w) :
    match3 L σ n false false a b ≠ some true := by
  cases n with
  | zero => rw [match3]; intro h; cases h
  | succ n =>
    rw [match3, ea, eb]
    simp only [Bool.false_and, Bool.false_eq_true, if_false, Bool.not_false, Bool.true_and]
    repeat' split
    all_goals (intro h; cases h)

theorem occurs_closed_var {L : Lang} {σ : Store} {w : Nat} (hw : (getVar σ w).bound = none) :
    ∀ (n : Nat) (a : Term), a.closed = true → occurs L σ n a (.var w) = false
  | 0, a, _ => by rw [occurs]
  | n+1, a, ha => by
    obtain ⟨o, args, e, hargs⟩ := closed_is_app ha
    subst e
    rw [occurs, followT_app, followT_unbound hw]
    simp only [Bool.or_eq_false_iff, beq_eq_false_iff_ne, ne_eq, List.any_eq_false]
    refine ⟨match3_app_var _ (followT_app σ o args) (followT_unbound hw), fun t ht => ?_⟩
    rw [occurs_closed_var hw n t (closedL_mem hargs t ht)]
    exact Bool.false_ne_true

theorem directVars_closed (σ : Store) : ∀ (n : Nat) (t : Term) (acc : List Nat), t.closed = true →
    directVars σ n t acc = acc
  | 0, t, acc, _ => by rw [directVars]
  | n+1, t, acc, ht => by
    obtain ⟨o, args, e, hargs⟩ := closed_is_app ht
    subst e
    rw [directVars, followT_app]
    simp only []
    have key : ∀ (l : List Term) (acc : List Nat), Term.closedL l = true →
        l.foldl (fun acc t => directVars σ n t acc) acc = acc := by
      intro l
      induction l with
      | nil => intro acc _; rfl
      | cons u us ih =>
        intro acc hl
        rw [closedL_cons, Bool.and_eq_true] at hl
        simp only [List.foldl_cons]
        rw [directVars_closed σ n u acc hl.1]
        exact ih acc hl.2
    exact key args acc hargs

theorem checkConstraints_eq {L : Lang} {σ : Store} (nc : NoConstraints σ) (v : Nat) :
    ∀ n, checkConstraints L n σ v = if n < 2 then .error .outOfFuel else .ok σ
  | 0 => by rw [checkConstraints]; rfl
  | 1 => by rw [checkConstraints, checkList]; rfl
  | n+2 => by
    rw [checkConstraints, nc, checkList]
    simp

/-! ## 2. related results -/

/-- the same error, or stores related by `Sim` -/
def RelR (σ₀ : Store) : R → R → Prop
  | .error e, r' => r' = .error e
  | .ok σ', r' => ∃ τ', r' = .ok τ' ∧ Sim σ₀ σ' τ'

/-- the same error, or related stores and the shifted term -/
def RelP (σ₀ : Store) : Except Err (Store × Term) → Except Err (Store × Term) → Prop
  | .error e, r' => r' = .error e
  | .ok (σ', t), r' => ∃ τ', r' = .ok (τ', t.shift σ₀.vars.length) ∧ Sim σ₀ σ' τ'

theorem RelR.err (σ₀ : Store) (e : Err) : RelR σ₀ (.error e) (.error e) := rfl
theorem RelR.ok {σ₀ σ τ : Store} (s : Sim σ₀ σ τ) : RelR σ₀ (.ok σ) (.ok τ) := ⟨τ, rfl, s⟩

theorem RelR.bind {σ₀ : Store} {r r' : R} {g g' : Store → R} (h : RelR σ₀ r r')
    (hg : ∀ σ1 τ1, Sim σ₀ σ1 τ1 → RelR σ₀ (g σ1) (g' τ1)) :
    RelR σ₀ (match (generalizing := false) r with | .error e => .error e | .ok s => g s)
      (match (generalizing := false) r' with | .error e => .error e | .ok s => g' s) := by
  cases r with
  | error e => simp only [RelR] at h; subst h; exact RelR.err σ₀ e
  | ok σ1 =>
    obtain ⟨τ1, e, s⟩ := h
    subst e
    exact hg σ1 τ1 s

theorem relR_check {σ₀ σ τ : Store} (s : Sim σ₀ σ τ) (L : Lang) (n v v' : Nat) :
    RelR σ₀ (checkConstraints L n σ v) (checkConstraints L n τ v') := by
  rw [checkConstraints_eq s.ncσ, checkConstraints_eq s.ncτ]
  split
  · exact RelR.err _ _
  · exact RelR.ok s

/-! ## 3. `bind` to a compound or base type -/

theorem sim_clearW {σ₀ σ τ : Store} (s : Sim σ₀ σ τ) (v : Nat) :
    Sim σ₀ (setVar σ v (clearW σ v)) (setVar τ (v + σ₀.vars.length) (clearW τ (v + σ₀.vars.length))) := by
  refine s.put v (fun hv => ?_) (fun w => s.nvv v w)
  unfold clearW
  rw [s.get v hv]; rfl

theorem sim_bindBaseStore {σ₀ σ τ : Store} (s : Sim σ₀ σ τ) (v o : Nat) (args : List Term) :
    Sim σ₀ (bindBaseStore σ v (.app o args))
      (bindBaseStore τ (v + σ₀.vars.length) (.app o (Term.shiftL σ₀.vars.length args))) := by
  unfold bindBaseStore
  simp only []
  refine (sim_clearW s v).put v (fun hv => ?_) (fun w h => by cases h)
  unfold clearW
  rw [length_setVar] at hv
  rw [s.get v hv]
  unfold VarInfo.shift
  simp only [Option.map_some, shift_app]

theorem bind_zero (L : Lang) (σ : Store) (v : Nat) (t : Term) : bind L 0 σ v t = .error .outOfFuel := by
  rw [bind]

theorem bind_app_sim_core {σ₀ σ τ : Store} (s : Sim σ₀ σ τ) (L : Lang) (n v o : Nat) (args args' : List Term)
    (hB : Sim σ₀ (bindBaseStore σ v (.app o args)) (bindBaseStore τ (v + σ₀.vars.length) (.app o args')))
    (hA : Sim σ₀ (bindAppStore σ v (.app o args)) (bindAppStore τ (v + σ₀.vars.length) (.app o args'))) :
    RelR σ₀ (bind L n σ v (.app o args)) (bind L n τ (v + σ₀.vars.length) (.app o args')) := by
  cases n with
  | zero => rw [bind_zero, bind_zero]; exact RelR.err _ _
  | succ n =>
    rw [bind_app_eq, bind_app_eq, s.bound v, s.lower v, s.upper v]
    simp only [Option.isSome_map]
    split
    · exact RelR.err _ _
    · split
      · split
        · exact RelR.err _ _
        · split
          · exact RelR.err _ _
          · exact relR_check hB L n _ _
      · split
        · exact RelR.err _ _
        · exact relR_check hA L n _ _

theorem bindAppStore_closed {σ : Store} (nc : NoConstraints σ) (v : Nat) {t : Term} (ht : t.closed = true) :
    bindAppStore σ v t = setCset (bindBaseStore σ v t) (clearW σ v).cset [] := by
  unfold bindAppStore
  simp only [directVars_closed _ _ _ _ ht, List.foldl_nil]
  rw [nc_bindBaseStore nc v t]

/-- `bind v t` for a concrete type `t` -/
theorem bind_closed_sim {σ₀ σ τ : Store} (s : Sim σ₀ σ τ) (L : Lang) (n v : Nat) {t : Term}
    (ht : t.closed = true) : RelR σ₀ (bind L n σ v t) (bind L n τ (v + σ₀.vars.length) t) := by
  obtain ⟨o, args, e, hargs⟩ := closed_is_app ht
  subst e
  have hB := sim_bindBaseStore s v o args
  rw [shiftL_closed _ _ hargs] at hB
  refine bind_app_sim_core s L n v o args args hB ?_
  rw [bindAppStore_closed s.ncσ v ht, bindAppStore_closed s.ncτ _ ht]
  exact hB.cs _ _ rfl rfl

theorem closed_base (o : Nat) : Term.closed (.app o []) = true := by
  rw [closed_app, closedL_nil]

/-! ## 4. `above`, `below` -/

theorem Sim.cset_eq {σ₀ σ τ : Store} (s : Sim σ₀ σ τ) {v : Nat} (hv : v < σ.vars.length) :
    (getVar τ (v + σ₀.vars.length)).cset = (getVar σ v).cset + σ₀.csets.length := by
  rw [s.get v hv]; rfl

theorem Sim.putF {σ₀ σ τ : Store} (s : Sim σ₀ σ τ) (v : Nat) (b : Option Term) (l u : Option Nat) (w : Bool)
    (cσ cτ : Nat) (hc : v < σ.vars.length → cτ = cσ + σ₀.csets.length) (hb : ∀ x, b ≠ some (.var x)) :
    Sim σ₀ (setVar σ v ⟨b, l, u, w, cσ⟩)
      (setVar τ (v + σ₀.vars.length) ⟨b.map (Term.shift σ₀.vars.length), l, u, w, cτ⟩) := by
  refine s.put v (fun hv => ?_) hb
  rw [hc hv]; rfl

theorem above_sim {σ₀ σ τ : Store} (s : Sim σ₀ σ τ) (L : Lang) (n v new : Nat) :
    RelR σ₀ (above L n σ v new) (above L n τ (v + σ₀.vars.length) new) := by
  cases n with
  | zero => rw [above, above]; exact RelR.err _ _
  | succ n =>
    rw [above, above]
    split
    · exact bind_closed_sim s L n v (closed_base _)
    · simp only [s.bound v, s.lower v, s.upper v, Option.isSome_map]
      split
      · exact RelR.err _ _
      · have s1 := s.putF v (getVar σ v).bound (getVar σ v).lower (getVar σ v).upper false
          (getVar σ v).cset (getVar τ (v + σ₀.vars.length)).cset (fun hv => s.cset_eq hv)
          (fun x => s.nvv v x)
        apply RelR.bind
        · split
          · exact RelR.err _ _
          · split
            · exact RelR.err _ _
            · split
              · exact RelR.ok s1
              · split
                · refine relR_check ?_ L n _ _
                  exact s1.putF v (getVar σ v).bound (some new) (getVar σ v).upper false
                    (getVar σ v).cset (getVar τ (v + σ₀.vars.length)).cset
                    (fun hv => s.cset_eq (by rw [length_setVar] at hv; exact hv)) (fun x => s.nvv v x)
                · exact RelR.err _ _
        · intro σ1 τ1 s2
          simp only [s2.bound v, s2.lower v, s2.upper v, Option.isNone_map]
          split
          · split
            · exact bind_closed_sim s2 L n v (closed_base _)
            · exact RelR.ok s2
          · exact RelR.ok s2

theorem below_sim {σ₀ σ τ : Store} (s : Sim σ₀ σ τ) (L : Lang) (n v new : Nat) :
    RelR σ₀ (below L n σ v new) (below L n τ (v + σ₀.vars.length) new) := by
  cases n with
  | zero => rw [below, below]; exact RelR.err _ _
  | succ n =>
    rw [below, below]
    split
    · exact bind_closed_sim s L n v (closed_base _)
    · simp only [s.bound v, s.lower v, s.upper v, Option.isSome_map]
      split
      · exact RelR.err _ _
      · have s1 := s.putF v (getVar σ v).bound (getVar σ v).lower (getVar σ v).upper false
          (getVar σ v).cset (getVar τ (v + σ₀.vars.length)).cset (fun hv => s.cset_eq hv)
          (fun x => s.nvv v x)
        apply RelR.bind
        · split
          · exact RelR.err _ _
          · split
            · exact RelR.err _ _
            · split
              · exact RelR.ok s1
              · split
                · refine relR_check ?_ L n _ _
                  exact s1.putF v (getVar σ v).bound (getVar σ v).lower (some new) false
                    (getVar σ v).cset (getVar τ (v + σ₀.vars.length)).cset
                    (fun hv => s.cset_eq (by rw [length_setVar] at hv; exact hv)) (fun x => s.nvv v x)
                · exact RelR.err _ _
        · intro σ1 τ1 s2
          simp only [s2.bound v, s2.lower v, s2.upper v, Option.isNone_map]
          split
          · split
            · exact bind_closed_sim s2 L n v (closed_base _)
            · exact RelR.ok s2
          · exact RelR.ok s2

/-! ## 5. `unify`, `unifyList` with one concrete side -/

def UnifyE (L : Lang) (σ₀ : Store) (n : Nat) : Prop :=
  ∀ σ τ a b, Sim σ₀ σ τ → (a.closed = true ∨ b.closed = true) →
    RelR σ₀ (unify L n σ a b true false false)
      (unify L n τ (a.shift σ₀.vars.length) (b.shift σ₀.vars.length) true false false)

def UnifyListE (L : Lang) (σ₀ : Store) (n : Nat) : Prop :=
  ∀ σ τ vs xs ys, Sim σ₀ σ τ → (Term.closedL xs = true ∨ Term.closedL ys = true) →
    RelR σ₀ (unifyList L n σ vs xs ys true false false)
      (unifyList L n τ vs (Term.shiftL σ₀.vars.length xs) (Term.shiftL σ₀.vars.length ys) true false false)

theorem closed_followT_var {σ : Store} {t : Term} {v : Nat} (h : t.closed = true)
    (e : followT σ t = .var v) : False := by
  rw [followT_closed σ h] at e
  subst e
  rw [closed_var] at h; cases h

theorem closed_followT_app {σ : Store} {t : Term} {o : Nat} {args : List Term} (h : t.closed = true)
    (e : followT σ t = .app o args) : Term.closedL args = true := by
  rw [followT_closed σ h] at e
  subst e
  rw [closed_app] at h; exact h

theorem unify_stepE {L : Lang} {σ₀ : Store} {n : Nat} (hlist : UnifyListE L σ₀ n) : UnifyE L σ₀ (n+1) := by
  intro σ τ a b s hcl
  rw [unify, unify, followT_sim s a, followT_sim s b]
  cases ea : followT σ a with
  | var av =>
    have hu := followT_var_unbound s.nvv ea
    have hu' : (getVar τ (av + σ₀.vars.length)).bound = none := by rw [s.bound, hu]; rfl
    have hb : b.closed = true := by
      rcases hcl with h | h
      · exact (closed_followT_var h ea).elim
      · exact h
    cases eb : followT σ b with
    | var bv => exact (closed_followT_var hb eb).elim
    | app bo bs =>
      have hbs := closed_followT_app hb eb
      have hcb : Term.closed (.app bo bs) = true := by rw [closed_app]; exact hbs
      simp only [shift_var, shift_app, shiftL_closed _ _ hbs,
        occurs_closed_var hu _ _ hcb, occurs_closed_var hu' _ _ hcb,
        Bool.false_or, Bool.false_and, Bool.false_eq_true, if_false, if_true]
      split
      · exact RelR.ok s
      · split
        · exact below_sim s L n av bo
        · exact bind_closed_sim s L n av hcb
  | app ao as =>
    cases eb : followT σ b with
    | var bv =>
      have hu := followT_var_unbound s.nvv eb
      have hu' : (getVar τ (bv + σ₀.vars.length)).bound = none := by rw [s.bound, hu]; rfl
      have ha : a.closed = true := by
        rcases hcl with h | h
        · exact h
        · exact (closed_followT_var h eb).elim
      have has := closed_followT_app ha ea
      have hca : Term.closed (.app ao as) = true := by rw [closed_app]; exact has
      simp only [shift_var, shift_app, shiftL_closed _ _ has,
        occurs_closed_var hu _ _ hca, occurs_closed_var hu' _ _ hca,
        Bool.false_or, Bool.false_and, Bool.false_eq_true, if_false, if_true]
      split
      · exact RelR.ok s
      · split
        · exact above_sim s L n bv ao
        · exact bind_closed_sim s L n bv hca
    | app bo bs =>
      simp only [shift_app, Bool.true_and, Bool.false_eq_true, if_false, Bool.not_true, Bool.false_and]
      split
      · exact RelR.ok s
      · split
        · split
          · exact RelR.err _ _
          · exact RelR.ok s
        · split
          · refine hlist σ τ _ as bs s ?_
            rcases hcl with h | h
            · exact Or.inl (closed_followT_app h ea)
            · exact Or.inr (closed_followT_app h eb)
          · exact RelR.err _ _

theorem unifyList_zero (L : Lang) (σ : Store) (vs : List Bool) (xs ys : List Term) (st sb sw : Bool) :
    unifyList L 0 σ vs xs ys st sb sw = .error .outOfFuel := by
  rw [unifyList]

theorem unifyList_stepE {L : Lang} {σ₀ : Store} {n : Nat} (hunify : UnifyE L σ₀ n) (hlist : UnifyListE L σ₀ n) :
    UnifyListE L σ₀ (n+1) := by
  intro σ τ vs xs ys s hcl
  have other : ∀ (vs : List Bool) (xs ys : List Term),
      (¬ ∃ v vs' x xs' y ys', vs = v :: vs' ∧ xs = x :: xs' ∧ ys = y :: ys') →
      RelR σ₀ (unifyList L (n+1) σ vs xs ys true false false)
        (unifyList L (n+1) τ vs (Term.shiftL σ₀.vars.length xs) (Term.shiftL σ₀.vars.length ys)
          true false false) := by
    intro vs xs ys hne
    rcases unifyList_cases L n σ vs xs ys true false false with h | e1
    · exact absurd h hne
    · rcases unifyList_cases L n τ vs (Term.shiftL σ₀.vars.length xs) (Term.shiftL σ₀.vars.length ys)
        true false false with ⟨v, vs', x, xs', y, ys', h1, h2, h3⟩ | e2
      · exfalso
        apply hne
        cases xs with
        | nil => rw [shiftL_nil] at h2; cases h2
        | cons x0 xs0 =>
          cases ys with
          | nil => rw [shiftL_nil] at h3; cases h3
          | cons y0 ys0 => exact ⟨v, vs', x0, xs0, y0, ys0, h1, rfl, rfl⟩
      · rw [e1, e2]; exact RelR.ok s
  by_cases hc : ∃ v vs' x xs' y ys', vs = v :: vs' ∧ xs = x :: xs' ∧ ys = y :: ys'
  · obtain ⟨v, vs, x, xs, y, ys, rfl, rfl, rfl⟩ := hc
    simp only [shiftL_cons]
    rw [unifyList_cons, unifyList_cons]
    simp only [closedL_cons, Bool.and_eq_true] at hcl
    apply RelR.bind
    · cases v with
      | true =>
        simp only [if_true]
        exact hunify σ τ x y s (hcl.elim (fun h => Or.inl h.1) (fun h => Or.inr h.1))
      | false =>
        simp only [Bool.false_eq_true, if_false]
        exact hunify σ τ y x s (hcl.elim (fun h => Or.inr h.1) (fun h => Or.inl h.1))
    · intro σ1 τ1 s1
      exact hlist σ1 τ1 vs xs ys s1 (hcl.elim (fun h => Or.inl h.2) (fun h => Or.inr h.2))
  · exact other vs xs ys hc

theorem unify_zero (L : Lang) (σ : Store) (a b : Term) (st sb sw : Bool) :
    unify L 0 σ a b st sb sw = .error .outOfFuel := by
  rw [unify]

theorem all_unifyE (L : Lang) (σ₀ : Store) : ∀ n, UnifyE L σ₀ n ∧ UnifyListE L σ₀ n
  | 0 => by
    refine ⟨?_, ?_⟩
    · intro σ τ a b _ _; rw [unify_zero, unify_zero]; exact RelR.err _ _
    · intro σ τ vs xs ys _ _; rw [unifyList_zero, unifyList_zero]; exact RelR.err _ _
  | n+1 => by
    obtain ⟨h1, h2⟩ := all_unifyE L σ₀ n
    exact ⟨unify_stepE h2, unifyList_stepE h1 h2⟩

end Tfv.C16P
