import Tfv.Proofs.InferConstrCheck
import Tfv.Proofs.Frame
/-!
# The inference engine never fails with an internal assertion (C17, engine part): the store invariant

Every Python `assert` of the engine that the model keeps as `Err.internal site` is guarded by a
`follow()`: the variable handed to `bind`/`above`/`below` and the terms `fulfill` checks to be
normalized are results of `followT`.  `followT` returns an unresolved variable (or a compound term)
exactly when the chain of variable-to-variable bindings ends within the fuel `followT` uses.

`Chains σ`: every chain of bindings ends within `nb σ` steps, where `nb σ` is the number of bound
variables of the store (so `nb σ ≤ σ.vars.length`, and a new binding leaves room for one more step).
`Chains` implies `FuelOk` (`Tfv/Spec/History.lean`), is true of the empty store and of every store
without bindings, and is preserved by every operation of the engine (next file).
-/
namespace Tfv.C17E
open Tfv Tfv.C03P Tfv.C03C Tfv.C16P

/-! ## 1. the invariant -/

/-- number of bound variables of the store -/
def nb (σ : Store) : Nat := σ.vars.countP (fun i => i.bound.isSome)

/-- every chain of variable bindings ends within `nb σ` steps -/
def Chains (σ : Store) : Prop := ∀ w, Final σ (follow σ (nb σ) (.var w))

theorem nb_le (σ : Store) : nb σ ≤ σ.vars.length := List.countP_le_length

theorem final_app (σ : Store) (o : Nat) (args : List Term) : Final σ (.app o args) := trivial

theorem final_var {σ : Store} {v : Nat} : Final σ (.var v) ↔ (getVar σ v).bound = none := Iff.rfl

/-- once `follow` has reached a final term, more fuel changes nothing -/
theorem follow_final_more {σ : Store} : ∀ (m j : Nat) (t : Term), Final σ (follow σ m t) →
    follow σ (m + j) t = follow σ m t
  | m, j, .app o args, _ => by rw [follow_app, follow_app]
  | 0, 0, .var v, _ => rfl
  | 0, j+1, .var v, h => by
    rw [follow_zero] at h
    rw [Nat.zero_add, follow_succ_var, follow_zero]
    have h' : (getVar σ v).bound = none := h
    rw [h']
  | m+1, j, .var v, h => by
    rw [follow_succ_var] at h
    rw [Nat.add_right_comm, follow_succ_var, follow_succ_var]
    cases hb : (getVar σ v).bound with
    | none => rfl
    | some b =>
      rw [hb] at h
      exact follow_final_more m j b h

theorem follow_of_final {σ : Store} {t : Term} (h : Final σ t) (k : Nat) : follow σ k t = t := by
  have := follow_final_more (σ := σ) 0 k t (by rw [follow_zero]; exact h)
  rw [Nat.zero_add, follow_zero] at this
  exact this

theorem Chains.final_ge {σ : Store} (h : Chains σ) {k : Nat} (hk : nb σ ≤ k) (t : Term) :
    Final σ (follow σ k t) := by
  cases t with
  | app o args => rw [follow_app]; trivial
  | var w =>
    obtain ⟨j, rfl⟩ := Nat.exists_eq_add_of_le hk
    rw [follow_final_more _ _ _ (h w)]
    exact h w

/-- the fuel of `followT` suffices -/
theorem Chains.finalT {σ : Store} (h : Chains σ) (t : Term) : Final σ (Tfv.followT σ t) :=
  h.final_ge (Nat.le_succ_of_le (nb_le σ)) t

theorem Chains.fuelOk {σ : Store} (h : Chains σ) : FuelOk σ := fun t => h.finalT t

theorem Chains.unbound {σ : Store} (h : Chains σ) {t : Term} {v : Nat} (e : Tfv.followT σ t = .var v) :
    (getVar σ v).bound = none := by
  have := h.finalT t
  rw [e] at this
  exact this

/-- a store without bindings -/
theorem chains_of_unbound {σ : Store} (h : ∀ w, (getVar σ w).bound = none) : Chains σ := by
  intro w
  rw [follow_of_final (final_var.mpr (h w))]
  exact h w

theorem chains_empty : Chains {} := chains_of_unbound (fun w => by
  unfold getVar; rfl)

/-! ## 2. operations that leave the bindings alone -/

/-- same bindings, at least as many bound variables counted -/
structure BoundEq (σ σ' : Store) : Prop where
  nb : nb σ ≤ nb σ'
  bound : ∀ w, (getVar σ' w).bound = (getVar σ w).bound

theorem BoundEq.refl (σ : Store) : BoundEq σ σ := ⟨Nat.le_refl _, fun _ => rfl⟩

theorem BoundEq.trans {a b c : Store} (h1 : BoundEq a b) (h2 : BoundEq b c) : BoundEq a c :=
  ⟨Nat.le_trans h1.nb h2.nb, fun w => (h2.bound w).trans (h1.bound w)⟩

theorem BoundEq.follow {σ σ' : Store} (h : BoundEq σ σ') : ∀ (k : Nat) (t : Term), follow σ' k t = follow σ k t
  | 0, t => by rw [follow_zero, follow_zero]
  | k+1, .app o args => by rw [follow_app, follow_app]
  | k+1, .var v => by
    rw [follow_succ_var, follow_succ_var, h.bound v]
    cases (getVar σ v).bound with
    | none => rfl
    | some b => exact BoundEq.follow h k b

theorem BoundEq.final {σ σ' : Store} (h : BoundEq σ σ') {t : Term} (ht : Final σ t) : Final σ' t := by
  cases t with
  | app o args => trivial
  | var v => exact (h.bound v).trans ht

theorem BoundEq.chains {σ σ' : Store} (h : BoundEq σ σ') (hc : Chains σ) : Chains σ' := by
  intro w
  rw [h.follow]
  exact h.final (hc.final_ge h.nb _)

theorem setVar_oor {σ : Store} {v : Nat} (i : VarInfo) (h : ¬ v < σ.vars.length) : setVar σ v i = σ := by
  unfold setVar
  rw [List.set_eq_of_length_le (by omega)]

theorem getVar_eq_getElem {σ : Store} {v : Nat} (h : v < σ.vars.length) : getVar σ v = σ.vars[v] := by
  unfold getVar
  rw [List.getD_eq_getElem?_getD, List.getElem?_eq_getElem h]
  rfl

theorem nb_setVar {σ : Store} {v : Nat} (i : VarInfo) (h : v < σ.vars.length) :
    nb (setVar σ v i) = nb σ - (if (getVar σ v).bound.isSome then 1 else 0) + (if i.bound.isSome then 1 else 0) := by
  unfold nb setVar
  simp only []
  rw [List.countP_set h, getVar_eq_getElem h]

theorem boundEq_setVar {σ : Store} {v : Nat} {i : VarInfo} (hb : i.bound = (getVar σ v).bound) :
    BoundEq σ (setVar σ v i) := by
  by_cases h : v < σ.vars.length
  · refine ⟨?_, fun w => ?_⟩
    · rw [nb_setVar i h, hb]
      have : (if (getVar σ v).bound.isSome then 1 else 0) ≤ nb σ := by
        split
        · next hs =>
          unfold nb
          apply List.countP_pos_iff.mpr
          refine ⟨σ.vars[v], List.getElem_mem h, ?_⟩
          rw [← getVar_eq_getElem h]; exact hs
        · exact Nat.zero_le _
      omega
    · rw [getVar_setVar]
      split
      · next e => rw [← e.1]; exact hb
      · rfl
  · rw [setVar_oor i h]; exact BoundEq.refl σ

theorem boundEq_setCset (σ : Store) (k : Nat) (cs : List Nat) : BoundEq σ (setCset σ k cs) :=
  ⟨Nat.le_refl _, fun _ => rfl⟩

theorem boundEq_setConstr (σ : Store) (c : Nat) (x : Constr) : BoundEq σ (setConstr σ c x) :=
  ⟨Nat.le_refl _, fun _ => rfl⟩

theorem boundEq_newVar (σ : Store) (wc : Bool) : BoundEq σ (newVar σ wc).1 := by
  refine ⟨?_, fun w => (getVar_newVar_core σ wc w).1⟩
  unfold nb newVar
  simp only [List.countP_append]
  exact Nat.le_add_right _ _

theorem boundEq_newVars : ∀ (n : Nat) (σ : Store), BoundEq σ (newVars σ n).1
  | 0, σ => by unfold newVars; exact BoundEq.refl σ
  | n+1, σ => by
    unfold newVars
    simp only []
    exact (boundEq_newVar σ false).trans (boundEq_newVars n _)

theorem boundEq_foldl_cset (k : Nat) (vars : List Nat) : ∀ (σ : Store),
    BoundEq σ (vars.foldl (fun σ w => setVar σ w { (getVar σ w) with cset := k }) σ) := by
  induction vars with
  | nil => intro σ; exact BoundEq.refl σ
  | cons w ws ih =>
    intro σ
    simp only [List.foldl_cons]
    exact BoundEq.trans (b := setVar σ w { (getVar σ w) with cset := k }) (boundEq_setVar rfl) (ih _)

theorem boundEq_constrs {σ σ' : Store} (hv : σ'.vars = σ.vars) : BoundEq σ σ' := by
  refine ⟨?_, fun w => ?_⟩
  · unfold nb; rw [hv]; exact Nat.le_refl _
  · unfold getVar; rw [hv]

/-! ## 3. a new binding -/

/-- binding an unresolved variable to a final term other than itself -/
theorem chains_bindSet {σ : Store} {v : Nat} {i : VarInfo} {t : Term} (hc : Chains σ)
    (hv : (getVar σ v).bound = none) (hi : i.bound = some t) (ht : Final σ t) (hne : t ≠ .var v) :
    Chains (setVar σ v i) := by
  by_cases hlt : v < σ.vars.length
  · have hget : ∀ w, getVar (setVar σ v i) w = if v = w then i else getVar σ w := by
      intro w
      rw [getVar_setVar]
      by_cases e : v = w
      · rw [if_pos ⟨e, hlt⟩, if_pos e]
      · rw [if_neg (fun h => e h.1), if_neg e]
    have hnb : nb (setVar σ v i) = nb σ + 1 := by
      rw [nb_setVar i hlt, hv, hi]
      simp
    -- final terms other than `v` stay final
    have hfin : ∀ x, Final σ x → x ≠ .var v → Final (setVar σ v i) x := by
      intro x hx hxne
      cases x with
      | app o args => trivial
      | var u =>
        have hu : v ≠ u := fun e => hxne (by rw [e])
        show (getVar (setVar σ v i) u).bound = none
        rw [hget, if_neg hu]
        exact hx
    have htf : Final (setVar σ v i) t := hfin t ht hne
    have key : ∀ (k w : Nat), Final σ (follow σ k (.var w)) →
        Final (setVar σ v i) (follow (setVar σ v i) (k+1) (.var w)) := by
      intro k
      induction k with
      | zero =>
        intro w hw
        rw [follow_zero] at hw
        rw [follow_succ_var, hget]
        by_cases e : v = w
        · rw [if_pos e, hi]
          simp only [follow_zero]
          exact htf
        · rw [if_neg e]
          have hw' : (getVar σ w).bound = none := hw
          rw [hw']
          simp only []
          show (getVar (setVar σ v i) w).bound = none
          rw [hget, if_neg e]; exact hw'
      | succ k ih =>
        intro w hw
        rw [follow_succ_var] at hw
        rw [follow_succ_var, hget]
        by_cases e : v = w
        · rw [if_pos e, hi]
          simp only []
          rw [follow_of_final htf]
          exact htf
        · rw [if_neg e]
          cases hb : (getVar σ w).bound with
          | none =>
            simp only []
            show (getVar (setVar σ v i) w).bound = none
            rw [hget, if_neg e]; exact hb
          | some b =>
            rw [hb] at hw
            simp only [] at hw ⊢
            cases b with
            | app o args => rw [follow_app]; trivial
            | var u => exact ih u hw
    intro w
    rw [hnb]
    exact key (nb σ) w (hc w)
  · rw [setVar_oor i hlt]; exact hc

/-! ## 4. kinds of constraints -/

def isElim : Constr → Bool
  | .elim _ _ _ => true
  | .sub _ _ _ _ => false

/-- no constraint changes its kind -/
def KindEq (σ σ' : Store) : Prop := ∀ c, isElim (getConstr σ' c) = isElim (getConstr σ c)

theorem KindEq.refl (σ : Store) : KindEq σ σ := fun _ => rfl

theorem KindEq.trans {a b c : Store} (h1 : KindEq a b) (h2 : KindEq b c) : KindEq a c :=
  fun d => (h2 d).trans (h1 d)

theorem kindEq_constrs {σ σ' : Store} (h : σ'.constrs = σ.constrs) : KindEq σ σ' :=
  fun c => by rw [getConstr_congr h]

theorem getConstr_inrange_of_elim {σ : Store} {c : Nat} (h : isElim (getConstr σ c) = true) :
    c < σ.constrs.length := by
  apply Classical.byContradiction
  intro hn
  unfold getConstr at h
  rw [List.getD_eq_getElem?_getD, List.getElem?_eq_none (by omega)] at h
  cases h

theorem setConstr_oor {σ : Store} {c : Nat} (x : Constr) (h : ¬ c < σ.constrs.length) : setConstr σ c x = σ := by
  unfold setConstr
  rw [List.set_eq_of_length_le (by omega)]

theorem kindEq_setConstr {σ : Store} {c : Nat} {x : Constr} (h : isElim x = isElim (getConstr σ c)) :
    KindEq σ (setConstr σ c x) := by
  intro d
  by_cases hc : c < σ.constrs.length
  · by_cases e : c = d
    · subst e; rw [getConstr_setConstr_eq x hc]; exact h
    · rw [getConstr_setConstr_ne x e]
  · rw [setConstr_oor x hc]

/-! ## 5. steps and results -/

/-- what every operation of the engine guarantees about the store it returns -/
structure StepN (σ σ' : Store) : Prop where
  ch : Chains σ'
  kind : KindEq σ σ'

theorem StepN.refl {σ : Store} (h : Chains σ) : StepN σ σ := ⟨h, KindEq.refl σ⟩

theorem StepN.trans {a b c : Store} (h1 : StepN a b) (h2 : StepN b c) : StepN a c :=
  ⟨h2.ch, h1.kind.trans h2.kind⟩

theorem StepN.of_boundEq {σ σ' : Store} (hc : Chains σ) (h : BoundEq σ σ') (hk : σ'.constrs = σ.constrs) :
    StepN σ σ' := ⟨h.chains hc, kindEq_constrs hk⟩

/-- an internal error: a failed assertion of the implementation -/
def isInt : Err → Bool
  | .internal _ => true
  | _ => false

theorem isInt_false_iff {e : Err} : isInt e = false ↔ ∀ s, e ≠ .internal s := by
  constructor
  · intro h s hs; rw [hs] at h; cases h
  · intro h
    cases e with
    | internal s => exact absurd rfl (h s)
    | _ => rfl

/-- a result is good: a sound successor store, or an error that is not internal -/
def GoodR (σ : Store) : R → Prop
  | .ok σ' => StepN σ σ'
  | .error e => isInt e = false

def GoodP {α : Type} (σ : Store) : Except Err (Store × α) → Prop
  | .ok (σ', _) => StepN σ σ'
  | .error e => isInt e = false

theorem goodR_ok {σ σ' : Store} : GoodR σ (.ok σ') ↔ StepN σ σ' := Iff.rfl
theorem goodR_error {σ : Store} {e : Err} : GoodR σ (.error e) ↔ isInt e = false := Iff.rfl
theorem goodP_ok {α : Type} {σ σ' : Store} {x : α} : GoodP σ (.ok (σ', x)) ↔ StepN σ σ' := Iff.rfl
theorem goodP_error {α : Type} {σ : Store} {e : Err} : GoodP (α := α) σ (.error e) ↔ isInt e = false := Iff.rfl

theorem GoodR.refl {σ : Store} (h : Chains σ) : GoodR σ (.ok σ) := StepN.refl h

theorem GoodR.trans {σ σ1 : Store} {r : R} (s : StepN σ σ1) (h : GoodR σ1 r) : GoodR σ r := by
  cases r with
  | error e => exact h
  | ok σ' => exact s.trans h

theorem GoodP.trans {α : Type} {σ σ1 : Store} {r : Except Err (Store × α)} (s : StepN σ σ1) (h : GoodP σ1 r) :
    GoodP σ r := by
  cases r with
  | error e => exact h
  | ok p => exact s.trans h

theorem GoodR.not_internal {σ : Store} {r : R} (h : GoodR σ r) (s : String) : r ≠ .error (.internal s) := by
  intro e; rw [e] at h; cases h

theorem GoodP.not_internal {α : Type} {σ : Store} {r : Except Err (Store × α)} (h : GoodP σ r) (s : String) :
    r ≠ .error (.internal s) := by
  intro e; rw [e] at h; cases h

theorem GoodR.step {σ σ' : Store} {r : R} (h : GoodR σ r) (e : r = .ok σ') : StepN σ σ' := by
  rw [e] at h; exact h

theorem GoodP.step {α : Type} {σ σ' : Store} {x : α} {r : Except Err (Store × α)} (h : GoodP σ r)
    (e : r = .ok (σ', x)) : StepN σ σ' := by
  rw [e] at h; exact h

theorem GoodR.err_of {σ : Store} {r : R} {e : Err} (h : GoodR σ r) (he : r = .error e) : isInt e = false := by
  rw [he] at h; exact h

theorem GoodP.err_of {α : Type} {σ : Store} {r : Except Err (Store × α)} {e : Err} (h : GoodP σ r)
    (he : r = .error e) : isInt e = false := by
  rw [he] at h; exact h

/-- sequencing: the shape `match r with | .error e => .error e | .ok σ1 => k σ1` -/
theorem goodR_seq {σ : Store} {r : R} {k : Store → R} : GoodR σ r →
    (∀ σ1, r = .ok σ1 → StepN σ σ1 → GoodR σ1 (k σ1)) →
    GoodR σ (match r with | .error e => .error e | .ok σ1 => k σ1) := by
  intro h hk
  cases r with
  | error e => exact h
  | ok σ1 => exact GoodR.trans h (hk σ1 rfl h)

/-- the same for a computation that returns a pair -/
theorem goodP_seq {α β : Type} {σ : Store} {r : Except Err (Store × α)} {k : Store → α → Except Err (Store × β)} :
    GoodP σ r → (∀ σ1 x, r = .ok (σ1, x) → StepN σ σ1 → GoodP σ1 (k σ1 x)) →
    GoodP σ (match r with | .error e => .error e | .ok (σ1, x) => k σ1 x) := by
  intro h hk
  cases r with
  | error e => exact h
  | ok p => exact GoodP.trans h (hk p.1 p.2 rfl h)

theorem goodPR_seq {α : Type} {σ : Store} {r : Except Err (Store × α)} {k : Store → α → R} :
    GoodP σ r → (∀ σ1 x, r = .ok (σ1, x) → StepN σ σ1 → GoodR σ1 (k σ1 x)) →
    GoodR σ (match r with | .error e => .error e | .ok (σ1, x) => k σ1 x) := by
  intro h hk
  cases r with
  | error e => exact h
  | ok p => exact GoodR.trans h (hk p.1 p.2 rfl h)

theorem goodRP_seq {β : Type} {σ : Store} {r : R} {k : Store → Except Err (Store × β)} :
    GoodR σ r → (∀ σ1, r = .ok σ1 → StepN σ σ1 → GoodP σ1 (k σ1)) →
    GoodP σ (match r with | .error e => .error e | .ok σ1 => k σ1) := by
  intro h hk
  cases r with
  | error e => exact h
  | ok σ1 => exact GoodP.trans h (hk σ1 rfl h)

end Tfv.C17E
