import Tfv.Proofs.SchedInv
/-!
# C18 — two schedules that agree on every constraint set that can occur give the same engine

`Q` is a property of constraint sets closed under the engine's set operations; if `ord₁` and `ord₂`
agree on every list satisfying `Q`, the two scheduled engines agree on every store all of whose
constraint sets satisfy `Q`, and they keep that invariant.
-/
namespace Tfv.C18P

/-- same result, and a successful result keeps the invariant -/
def GoodR (Q : List Nat → Prop) (r₁ r₂ : R) : Prop := r₁ = r₂ ∧ ∀ σ', r₁ = .ok σ' → CsInv Q σ'

/-- the same for results that carry a store and a value -/
def GoodP {α : Type} (Q : List Nat → Prop) (r₁ r₂ : Except Err (Store × α)) : Prop :=
  r₁ = r₂ ∧ ∀ σ' x, r₁ = .ok (σ', x) → CsInv Q σ'

variable {Q : List Nat → Prop}

theorem goodR_ok {σ : Store} (h : CsInv Q σ) : GoodR Q (.ok σ) (.ok σ) :=
  ⟨rfl, fun σ' e => by injection e with e; subst e; exact h⟩

theorem goodR_error (e : Err) : GoodR Q (.error e) (.error e) :=
  ⟨rfl, fun σ' h => by cases h⟩

theorem goodP_ok {α : Type} {σ : Store} (h : CsInv Q σ) (x : α) : GoodP Q (.ok (σ, x)) (.ok (σ, x)) :=
  ⟨rfl, fun σ' y e => by injection e with e; injection e with e1 e2; subst e1; exact h⟩

theorem goodP_error {α : Type} (e : Err) : GoodP (α := α) Q (.error e) (.error e) :=
  ⟨rfl, fun σ' x h => by cases h⟩

theorem goodR_seqR {r₁ r₂ : R} {k₁ k₂ : Store → R} : GoodR Q r₁ r₂ →
    (∀ σ, CsInv Q σ → GoodR Q (k₁ σ) (k₂ σ)) →
    GoodR Q (match r₁ with | .error e => .error e | .ok σ => k₁ σ)
      (match r₂ with | .error e => .error e | .ok σ => k₂ σ) := by
  intro h hk
  rw [← h.1]
  split
  · exact goodR_error _
  · next σ1 => exact hk _ (h.2 _ rfl)

theorem goodP_seqR {α : Type} {r₁ r₂ : R} {k₁ k₂ : Store → Except Err (Store × α)} : GoodR Q r₁ r₂ →
    (∀ σ, CsInv Q σ → GoodP Q (k₁ σ) (k₂ σ)) →
    GoodP Q (match r₁ with | .error e => .error e | .ok σ => k₁ σ)
      (match r₂ with | .error e => .error e | .ok σ => k₂ σ) := by
  intro h hk
  rw [← h.1]
  split
  · exact goodP_error _
  · next σ1 => exact hk _ (h.2 _ rfl)

/- the matchers generated for a `match` on a pair-valued result mention the value type, so these two
are stated for the types at which they are used -/
theorem goodR_seqP_bool {r₁ r₂ : Except Err (Store × Bool)} {k₁ k₂ : Store → Bool → R} : GoodP Q r₁ r₂ →
    (∀ σ x, CsInv Q σ → GoodR Q (k₁ σ x) (k₂ σ x)) →
    GoodR Q (match r₁ with | .error e => .error e | .ok (σ, x) => k₁ σ x)
      (match r₂ with | .error e => .error e | .ok (σ, x) => k₂ σ x) := by
  intro h hk
  rw [← h.1]
  split
  · exact goodR_error _
  · next σ1 x => exact hk _ _ (h.2 _ _ rfl)

theorem goodP_seqP_term {r₁ r₂ : Except Err (Store × Term)} {k₁ k₂ : Store → Term → Except Err (Store × Term)} :
    GoodP Q r₁ r₂ → (∀ σ x, CsInv Q σ → GoodP Q (k₁ σ x) (k₂ σ x)) →
    GoodP Q (match r₁ with | .error e => .error e | .ok (σ, x) => k₁ σ x)
      (match r₂ with | .error e => .error e | .ok (σ, x) => k₂ σ x) := by
  intro h hk
  rw [← h.1]
  split
  · exact goodP_error _
  · next σ1 x => exact hk _ _ (h.2 _ _ rfl)

/-- the twelve functions at fuel `n` -/
structure BlockAgree (L : Lang) (ord₁ ord₂ : List Nat → List Nat) (Q : List Nat → Prop) (n : Nat) : Prop where
  unify : ∀ σ a b st sb sw, CsInv Q σ →
    GoodR Q (unifyS L ord₁ n σ a b st sb sw) (unifyS L ord₂ n σ a b st sb sw)
  unifyList : ∀ σ vs xs ys st sb sw, CsInv Q σ →
    GoodR Q (unifyListS L ord₁ n σ vs xs ys st sb sw) (unifyListS L ord₂ n σ vs xs ys st sb sw)
  bind : ∀ σ v t, CsInv Q σ → GoodR Q (bindS L ord₁ n σ v t) (bindS L ord₂ n σ v t)
  above : ∀ σ v o, CsInv Q σ → GoodR Q (aboveS L ord₁ n σ v o) (aboveS L ord₂ n σ v o)
  below : ∀ σ v o, CsInv Q σ → GoodR Q (belowS L ord₁ n σ v o) (belowS L ord₂ n σ v o)
  checkConstraints : ∀ σ v, CsInv Q σ →
    GoodR Q (checkConstraintsS L ord₁ n σ v) (checkConstraintsS L ord₂ n σ v)
  checkList : ∀ σ v cs, CsInv Q σ → GoodR Q (checkListS L ord₁ n σ v cs) (checkListS L ord₂ n σ v cs)
  fulfill : ∀ σ c, CsInv Q σ → GoodP Q (fulfillS L ord₁ n σ c) (fulfillS L ord₂ n σ c)
  minimize : ∀ σ c, CsInv Q σ → GoodR Q (minimizeS L ord₁ n σ c) (minimizeS L ord₂ n σ c)
  minLoop : ∀ σ alts acc, CsInv Q σ → GoodP Q (minLoopS L ord₁ n σ alts acc) (minLoopS L ord₂ n σ alts acc)
  fix : ∀ σ t pl, CsInv Q σ → GoodP Q (fixS L ord₁ n σ t pl) (fixS L ord₂ n σ t pl)
  fixList : ∀ σ vs ps pl, CsInv Q σ → GoodR Q (fixListS L ord₁ n σ vs ps pl) (fixListS L ord₂ n σ vs ps pl)

theorem blockAgree_zero (L : Lang) (ord₁ ord₂ : List Nat → List Nat) (Q : List Nat → Prop) :
    BlockAgree L ord₁ ord₂ Q 0 where
  unify := by intros; simp only [unifyS]; exact goodR_error _
  unifyList := by intros; simp only [unifyListS]; exact goodR_error _
  bind := by intros; simp only [bindS]; exact goodR_error _
  above := by intros; simp only [aboveS]; exact goodR_error _
  below := by intros; simp only [belowS]; exact goodR_error _
  checkConstraints := by intros; simp only [checkConstraintsS]; exact goodR_error _
  checkList := by intros; simp only [checkListS]; exact goodR_error _
  fulfill := by intros; simp only [fulfillS]; exact goodP_error _
  minimize := by intros; simp only [minimizeS]; exact goodR_error _
  minLoop := by intros; simp only [minLoopS]; exact goodP_error _
  fix := by intros; simp only [fixS]; exact goodP_error _
  fixList := by intros; simp only [fixListS]; exact goodR_error _

theorem csInv_get {σ : Store} (h : CsInv Q σ) (k : Nat) : Q (getCset σ k) := h k

/-- discharge invariant goals built from the store operations of the engine -/
macro "inv_tac" : tactic => `(tactic| repeat' (first
  | assumption
  | apply csInv_setVar
  | apply csInv_setConstr
  | apply csInv_setCset
  | apply csInv_newVars
  | apply csInv_foldl_setVar
  | apply csInv_get
  | refine CsClosed.union ‹CsClosed _› _ _ ?_ ?_
  | refine CsClosed.filter ‹CsClosed _› _ _ ?_
  | refine q_merged ‹CsClosed _› ?_ _ _ ?_))

theorem goodR_ite {c : Prop} [Decidable c] {a₁ a₂ b₁ b₂ : R} (ha : c → GoodR Q a₁ a₂) (hb : ¬ c → GoodR Q b₁ b₂) :
    GoodR Q (if c then a₁ else b₁) (if c then a₂ else b₂) := by
  by_cases h : c
  · rw [if_pos h, if_pos h]; exact ha h
  · rw [if_neg h, if_neg h]; exact hb h

theorem goodP_ite {α : Type} {c : Prop} [Decidable c] {a₁ a₂ b₁ b₂ : Except Err (Store × α)}
    (ha : c → GoodP Q a₁ a₂) (hb : ¬ c → GoodP Q b₁ b₂) :
    GoodP Q (if c then a₁ else b₁) (if c then a₂ else b₂) := by
  by_cases h : c
  · rw [if_pos h, if_pos h]; exact ha h
  · rw [if_neg h, if_neg h]; exact hb h

/-- walk both copies of a function body in lockstep -/
macro "good_tac" ih:ident : tactic => `(tactic| repeat' (first
  | with_reducible exact goodR_error _
  | with_reducible exact goodP_error _
  | with_reducible exact goodR_ok (by inv_tac)
  | with_reducible exact goodP_ok (by inv_tac) _
  | with_reducible exact BlockAgree.unify $ih _ _ _ _ _ _ (by inv_tac)
  | with_reducible exact BlockAgree.unifyList $ih _ _ _ _ _ _ _ (by inv_tac)
  | with_reducible exact BlockAgree.bind $ih _ _ _ (by inv_tac)
  | with_reducible exact BlockAgree.above $ih _ _ _ (by inv_tac)
  | with_reducible exact BlockAgree.below $ih _ _ _ (by inv_tac)
  | with_reducible exact BlockAgree.checkConstraints $ih _ _ (by inv_tac)
  | with_reducible exact BlockAgree.checkList $ih _ _ _ (by inv_tac)
  | with_reducible exact BlockAgree.minimize $ih _ _ (by inv_tac)
  | with_reducible exact BlockAgree.minLoop $ih _ _ _ (by inv_tac)
  | with_reducible exact BlockAgree.fix $ih _ _ _ (by inv_tac)
  | with_reducible exact BlockAgree.fixList $ih _ _ _ _ (by inv_tac)
  | with_reducible refine goodR_ite (fun _ => ?_) (fun _ => ?_)
  | with_reducible refine goodP_ite (fun _ => ?_) (fun _ => ?_)
  | refine goodR_seqR ?_ (fun _ _ => ?_)
  | refine goodP_seqR ?_ (fun _ _ => ?_)
  | refine goodR_seqP_bool ?_ (fun _ _ _ => ?_)
  | refine goodP_seqP_term ?_ (fun _ _ _ => ?_)
  | split))

section step
variable {L : Lang} {ord₁ ord₂ : List Nat → List Nat} {n : Nat}
  (hQ : CsClosed Q) (hord : ∀ cs, Q cs → ord₁ cs = ord₂ cs) (ih : BlockAgree L ord₁ ord₂ Q n)
include ih

theorem checkConstraints_succ (hord : ∀ cs, Q cs → ord₁ cs = ord₂ cs) (σ : Store) (v : Nat) (hinv : CsInv Q σ) :
    GoodR Q (checkConstraintsS L ord₁ (n+1) σ v) (checkConstraintsS L ord₂ (n+1) σ v) := by
  simp only [checkConstraintsS]
  rw [← hord _ (hinv _)]
  exact ih.checkList _ _ _ hinv

theorem checkList_succ (hQ : CsClosed Q) (σ : Store) (v : Nat) (cs : List Nat) (hinv : CsInv Q σ) :
    GoodR Q (checkListS L ord₁ (n+1) σ v cs) (checkListS L ord₂ (n+1) σ v cs) := by
  cases cs with
  | nil => simp only [checkListS]; exact goodR_ok hinv
  | cons c cs =>
    simp only [checkListS]
    have h := ih.fulfill σ c hinv
    rw [← h.1]
    split
    · exact goodR_error _
    · next σ1 done heq =>
      have h1 := h.2 _ _ heq
      apply ih.checkList
      split
      · exact csInv_setCset h1 _ (hQ.filter _ _ (h1 _))
      · exact h1

theorem unifyList_succ (σ : Store) (vs : List Bool) (xs ys : List Term) (st sb sw : Bool) (hinv : CsInv Q σ) :
    GoodR Q (unifyListS L ord₁ (n+1) σ vs xs ys st sb sw) (unifyListS L ord₂ (n+1) σ vs xs ys st sb sw) := by
  cases vs <;> cases xs <;> cases ys <;> simp only [unifyListS] <;> try exact goodR_ok hinv
  next v vs x xs y ys =>
  have h : GoodR Q (if v = true then unifyS L ord₁ n σ x y st sb sw else unifyS L ord₁ n σ y x st sb sw)
      (if v = true then unifyS L ord₂ n σ x y st sb sw else unifyS L ord₂ n σ y x st sb sw) := by
    split
    · exact ih.unify _ _ _ _ _ _ hinv
    · exact ih.unify _ _ _ _ _ _ hinv
  rw [← h.1]
  split
  · exact goodR_error _
  · next σ1 heq => exact ih.unifyList _ _ _ _ _ _ _ (h.2 _ heq)

theorem fixList_succ (σ : Store) (vs : List Bool) (ps : List Term) (pl : Bool) (hinv : CsInv Q σ) :
    GoodR Q (fixListS L ord₁ (n+1) σ vs ps pl) (fixListS L ord₂ (n+1) σ vs ps pl) := by
  cases vs <;> cases ps <;> simp only [fixListS] <;> try exact goodR_ok hinv
  next v vs p ps =>
  have h := ih.fix σ p (if v = true then pl else !pl) hinv
  rw [← h.1]
  split
  · exact goodR_error _
  · next σ1 t heq => exact ih.fixList _ _ _ _ (h.2 _ _ heq)

theorem minLoop_succ (σ : Store) (alts acc : List Term) (hinv : CsInv Q σ) :
    GoodP Q (minLoopS L ord₁ (n+1) σ alts acc) (minLoopS L ord₂ (n+1) σ alts acc) := by
  cases alts with
  | nil => simp only [minLoopS]; exact goodP_ok hinv _
  | cons obj rest =>
    simp only [minLoopS]
    split
    · have h := ih.fix σ (followT σ obj) true hinv
      rw [← h.1]
      split
      · exact goodP_error _
      · next σ1 t heq => exact ih.minLoop _ _ _ (h.2 _ _ heq)
    · exact ih.minLoop _ _ _ hinv

theorem minimize_succ (σ : Store) (c : Nat) (hinv : CsInv Q σ) :
    GoodR Q (minimizeS L ord₁ (n+1) σ c) (minimizeS L ord₂ (n+1) σ c) := by
  simp only [minimizeS]
  split
  · next ref alts ful hc =>
    have h := ih.minLoop σ alts [] hinv
    rw [← h.1]
    split
    · exact goodR_error _
    · next σ1 m heq =>
      have h1 := h.2 _ _ heq
      split
      · exact goodR_ok (csInv_setConstr h1 _ _)
      · exact goodR_ok h1
  · exact goodR_ok hinv

theorem fix_succ (σ : Store) (t : Term) (pl : Bool) (hinv : CsInv Q σ) :
    GoodP Q (fixS L ord₁ (n+1) σ t pl) (fixS L ord₂ (n+1) σ t pl) := by
  simp only [fixS]
  split
  · next o args hf =>
    have h := ih.fixList σ (varianceOf L o) args pl hinv
    rw [← h.1]
    split
    · exact goodP_error _
    · next σ1 heq => exact goodP_ok (h.2 _ heq) _
  · next v hf =>
    refine goodP_seqR ?_ (fun σ1 h1 => goodP_ok h1 _)
    split
    · split
      · exact ih.bind _ _ _ hinv
      · exact goodR_ok hinv
    · split
      · split
        · exact ih.bind _ _ _ hinv
        · exact goodR_ok hinv
      · exact goodR_ok hinv

theorem fulfill_succ (σ : Store) (c : Nat) (hinv : CsInv Q σ) :
    GoodP Q (fulfillS L ord₁ (n+1) σ c) (fulfillS L ord₂ (n+1) σ c) := by
  simp only [fulfillS]
  good_tac ih

theorem above_succ (σ : Store) (v o : Nat) (hinv : CsInv Q σ) :
    GoodR Q (aboveS L ord₁ (n+1) σ v o) (aboveS L ord₂ (n+1) σ v o) := by
  simp only [aboveS]
  good_tac ih

theorem below_succ (σ : Store) (v o : Nat) (hinv : CsInv Q σ) :
    GoodR Q (belowS L ord₁ (n+1) σ v o) (belowS L ord₂ (n+1) σ v o) := by
  simp only [belowS]
  good_tac ih

theorem bind_succ (hQ : CsClosed Q) (σ : Store) (v : Nat) (t : Term) (hinv : CsInv Q σ) :
    GoodR Q (bindS L ord₁ (n+1) σ v t) (bindS L ord₂ (n+1) σ v t) := by
  simp only [bindS]
  good_tac ih

theorem unify_succ (σ : Store) (a b : Term) (st sb sw : Bool) (hinv : CsInv Q σ) :
    GoodR Q (unifyS L ord₁ (n+1) σ a b st sb sw) (unifyS L ord₂ (n+1) σ a b st sb sw) := by
  simp only [unifyS]
  good_tac ih

end step

theorem blockAgree_succ {L : Lang} {ord₁ ord₂ : List Nat → List Nat} {n : Nat} (hQ : CsClosed Q)
    (hord : ∀ cs, Q cs → ord₁ cs = ord₂ cs) (ih : BlockAgree L ord₁ ord₂ Q n) :
    BlockAgree L ord₁ ord₂ Q (n+1) where
  unify := unify_succ ih
  unifyList := unifyList_succ ih
  bind := bind_succ ih hQ
  above := above_succ ih
  below := below_succ ih
  checkConstraints := checkConstraints_succ ih hord
  checkList := checkList_succ ih hQ
  fulfill := fulfill_succ ih
  minimize := minimize_succ ih
  minLoop := minLoop_succ ih
  fix := fix_succ ih
  fixList := fixList_succ ih

/-- the block theorem: schedules that agree on `Q`-lists give the same engine on `Q`-stores -/
theorem blockAgree {L : Lang} {ord₁ ord₂ : List Nat → List Nat} (hQ : CsClosed Q)
    (hord : ∀ cs, Q cs → ord₁ cs = ord₂ cs) : ∀ n, BlockAgree L ord₁ ord₂ Q n
  | 0 => blockAgree_zero L ord₁ ord₂ Q
  | n+1 => blockAgree_succ hQ hord (blockAgree hQ hord n)

/-! ## outside the block -/

theorem applyTS_agree {L : Lang} {ord₁ ord₂ : List Nat → List Nat} (hQ : CsClosed Q)
    (hord : ∀ cs, Q cs → ord₁ cs = ord₂ cs) (fuel : Nat) (σ : Store) (f x : Term) (fixFlag : Bool)
    (hinv : CsInv Q σ) :
    GoodP Q (applyTS L ord₁ fuel σ f x fixFlag) (applyTS L ord₂ fuel σ f x fixFlag) := by
  have ih := blockAgree (L := L) hQ hord fuel
  simp only [applyTS]
  refine goodP_seqP_term ?_ (fun σ1 f1 h1 => ?_)
  · split
    · refine goodP_seqR (ih.bind _ _ _ (csInv_newVar (csInv_newVar hinv _) _)) (fun σ3 h3 => goodP_ok h3 _)
    · exact goodP_ok hinv _
  · good_tac ih

/-- closure under registering a new constraint (needed by `addConstraintS` only) -/
def CsInsert (Q : List Nat → Prop) : Prop := ∀ a c, Q a → Q (insertSorted c a)

theorem csInv_inform {id : Nat} (hI : ∀ a, Q a → Q (insertSorted id a)) (vars : List Nat) : ∀ (σ : Store), CsInv Q σ →
    CsInv Q (vars.foldl (fun σ v => setCset σ (getVar σ v).cset (insertSorted id (getCset σ (getVar σ v).cset))) σ) := by
  induction vars with
  | nil => intro σ h; exact h
  | cons w ws ihv => intro σ h; exact ihv _ (csInv_setCset h _ (hI _ (h _)))

/-- registering one constraint: only closure under inserting the new constraint's own number is needed -/
theorem addConstraintS_agree {L : Lang} {ord₁ ord₂ : List Nat → List Nat} (hQ : CsClosed Q)
    (hord : ∀ cs, Q cs → ord₁ cs = ord₂ cs) (fuel : Nat) (σ : Store) (c : Constr)
    (hI : ∀ a, Q a → Q (insertSorted σ.constrs.length a)) (hinv : CsInv Q σ) :
    GoodR Q (addConstraintS L ord₁ fuel σ c) (addConstraintS L ord₂ fuel σ c) := by
  have ih := blockAgree (L := L) hQ hord fuel
  simp only [addConstraintS]
  refine goodR_ite (fun _ => goodR_error _) (fun _ => ?_)
  refine goodR_seqP_bool (ih.fulfill _ _ ?_) (fun σ1 _ h1 => goodR_ok h1)
  exact csInv_inform hI _ _ (fun k => hinv k)

theorem addConstraintsS_agree {L : Lang} {ord₁ ord₂ : List Nat → List Nat} (hQ : CsClosed Q) (hI : CsInsert Q)
    (hord : ∀ cs, Q cs → ord₁ cs = ord₂ cs) (fuel base : Nat) : ∀ (cs : List CAst) (σ : Store), CsInv Q σ →
    GoodR Q (addConstraintsS L ord₁ fuel base σ cs) (addConstraintsS L ord₂ fuel base σ cs)
  | [], σ, hinv => by simp only [addConstraintsS]; exact goodR_ok hinv
  | c :: cs, σ, hinv => by
    simp only [addConstraintsS]
    exact goodR_seqR (addConstraintS_agree hQ hord fuel σ _ (fun a => hI a _) hinv)
      (fun σ1 h1 => addConstraintsS_agree hQ hI hord fuel base cs σ1 h1)

theorem instantiateS_agree {L : Lang} {ord₁ ord₂ : List Nat → List Nat} (hQ : CsClosed Q) (hI : CsInsert Q)
    (hord : ∀ cs, Q cs → ord₁ cs = ord₂ cs) (fuel : Nat) (σ : Store) (s : Schema) (hinv : CsInv Q σ) :
    GoodP Q (instantiateS L ord₁ fuel σ s) (instantiateS L ord₂ fuel σ s) := by
  simp only [instantiateS]
  exact goodP_seqR (addConstraintsS_agree hQ hI hord fuel _ _ _ (csInv_allocVars hinv _ _))
    (fun σ1 h1 => (blockAgree hQ hord fuel).fix _ _ _ h1)

end Tfv.C18P
