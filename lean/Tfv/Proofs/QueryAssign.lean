import Tfv.Spec.Matches
/-!
# `assignVars` (not unfolded): one variable `[k]` per reachable step `k`, a link per `from_` edge
-/
namespace Tfv

theorem ReachFrom.tail {t : QTask} {k c b : Nat} (h : ReachFrom t k c) (hb : b ∈ (t.step c).from_) :
    ReachFrom t k b := by
  induction h with
  | refl k => exact .step hb (.refl b)
  | step h1 _ ih => exact .step h1 (ih hb)

theorem reach_iff_from (t : QTask) (j : Nat) : StepReach t j ↔ ∃ o ∈ t.outputs, ReachFrom t o j := by
  constructor
  · intro h
    induction h with
    | out ho => exact ⟨_, ho, .refl _⟩
    | step _ hb ih =>
      obtain ⟨o, ho, hr⟩ := ih
      exact ⟨o, ho, hr.tail hb⟩
  · rintro ⟨o, ho, hr⟩
    have : ∀ k j, ReachFrom t k j → StepReach t k → StepReach t j := by
      intro k j h
      induction h with
      | refl k => exact fun h => h
      | step h1 _ ih => exact fun hk => ih (.step hk h1)
    exact this o j hr (.out ho)

/-- `a'` is `a` plus the variables of the steps in `S`, the links in `L`, and the output/input marks of `S` -/
structure Ext (t : QTask) (S : Nat → Prop) (L : Nat → Nat → Prop) (a a' : QAssign) : Prop where
  vars : ∀ p, p ∈ a'.vars ↔ (p ∈ a.vars ∨ ∃ k, S k ∧ p = ([k], k))
  links : ∀ l, l ∈ a'.links ↔ (l ∈ a.links ∨ ∃ c b, L c b ∧ l = ([c], [b]))
  outs : ∀ v, v ∈ a'.outs ↔ (v ∈ a.outs ∨ ∃ k, S k ∧ k ∈ t.outputs ∧ v = [k])
  ins : ∀ v, v ∈ a'.ins ↔ (v ∈ a.ins ∨ ∃ k, S k ∧ k ∈ t.inputs ∧ v = [k])
  nodup : (∀ p ∈ a.vars, p.1 = [p.2]) → (a.vars.map (·.1)).Nodup → (a'.vars.map (·.1)).Nodup

theorem Ext.refl (t : QTask) (a : QAssign) : Ext t (fun _ => False) (fun _ _ => False) a a :=
  ⟨by simp, by simp, by simp, by simp, fun _ h => h⟩

theorem Ext.congr {t : QTask} {S S' : Nat → Prop} {L L' : Nat → Nat → Prop} {a a' : QAssign}
    (h : Ext t S L a a') (hS : ∀ k, S k ↔ S' k) (hL : ∀ c b, L c b ↔ L' c b) : Ext t S' L' a a' := by
  have e1 : S = S' := funext fun k => propext (hS k)
  have e2 : L = L' := funext fun c => funext fun b => propext (hL c b)
  rw [← e1, ← e2]
  exact h

theorem Ext.shape {t : QTask} {S : Nat → Prop} {L : Nat → Nat → Prop} {a a' : QAssign}
    (h : Ext t S L a a') (hs : ∀ p ∈ a.vars, p.1 = [p.2]) : ∀ p ∈ a'.vars, p.1 = [p.2] := by
  intro p hp
  rcases (h.vars p).1 hp with hp | ⟨k, _, rfl⟩
  · exact hs p hp
  · rfl

theorem Ext.trans {t : QTask} {S1 S2 : Nat → Prop} {L1 L2 : Nat → Nat → Prop} {a a1 a2 : QAssign}
    (h1 : Ext t S1 L1 a a1) (h2 : Ext t S2 L2 a1 a2) :
    Ext t (fun k => S1 k ∨ S2 k) (fun c b => L1 c b ∨ L2 c b) a a2 := by
  refine ⟨?_, ?_, ?_, ?_, ?_⟩
  · intro p
    rw [h2.vars, h1.vars]
    constructor
    · rintro ((h | ⟨k, hk, rfl⟩) | ⟨k, hk, rfl⟩)
      · exact Or.inl h
      · exact Or.inr ⟨k, Or.inl hk, rfl⟩
      · exact Or.inr ⟨k, Or.inr hk, rfl⟩
    · rintro (h | ⟨k, hk | hk, rfl⟩)
      · exact Or.inl (Or.inl h)
      · exact Or.inl (Or.inr ⟨k, hk, rfl⟩)
      · exact Or.inr ⟨k, hk, rfl⟩
  · intro l
    rw [h2.links, h1.links]
    constructor
    · rintro ((h | ⟨c, b, hk, rfl⟩) | ⟨c, b, hk, rfl⟩)
      · exact Or.inl h
      · exact Or.inr ⟨c, b, Or.inl hk, rfl⟩
      · exact Or.inr ⟨c, b, Or.inr hk, rfl⟩
    · rintro (h | ⟨c, b, hk | hk, rfl⟩)
      · exact Or.inl (Or.inl h)
      · exact Or.inl (Or.inr ⟨c, b, hk, rfl⟩)
      · exact Or.inr ⟨c, b, hk, rfl⟩
  · intro v
    rw [h2.outs, h1.outs]
    constructor
    · rintro ((h | ⟨k, hk, ho, rfl⟩) | ⟨k, hk, ho, rfl⟩)
      · exact Or.inl h
      · exact Or.inr ⟨k, Or.inl hk, ho, rfl⟩
      · exact Or.inr ⟨k, Or.inr hk, ho, rfl⟩
    · rintro (h | ⟨k, hk | hk, ho, rfl⟩)
      · exact Or.inl (Or.inl h)
      · exact Or.inl (Or.inr ⟨k, hk, ho, rfl⟩)
      · exact Or.inr ⟨k, hk, ho, rfl⟩
  · intro v
    rw [h2.ins, h1.ins]
    constructor
    · rintro ((h | ⟨k, hk, ho, rfl⟩) | ⟨k, hk, ho, rfl⟩)
      · exact Or.inl h
      · exact Or.inr ⟨k, Or.inl hk, ho, rfl⟩
      · exact Or.inr ⟨k, Or.inr hk, ho, rfl⟩
    · rintro (h | ⟨k, hk | hk, ho, rfl⟩)
      · exact Or.inl (Or.inl h)
      · exact Or.inl (Or.inr ⟨k, hk, ho, rfl⟩)
      · exact Or.inr ⟨k, hk, ho, rfl⟩
  · intro hs hn
    exact h2.nodup (h1.shape hs) (h1.nodup hs hn)

/-- the bookkeeping of one visit: variable, output mark, input mark -/
def visit (t : QTask) (a : QAssign) (k : Nat) : QAssign :=
  let v : QVar := [k]
  let a := if a.vars.any (fun p => p.1 == v) then a else { a with vars := a.vars ++ [(v, k)] }
  let a := if t.outputs.contains k && !a.outs.contains v then { a with outs := a.outs ++ [v] } else a
  if t.inputs.contains k && !a.ins.contains v then { a with ins := a.ins ++ [v] } else a

/-- the body of the fold over the predecessors of `k` -/
def linkStep (t : QTask) (f : QFlags) (n k : Nat) (path : List Nat) (a : QAssign) (b : Nat) : Except QErr QAssign :=
  match assignVars t f n a b (path ++ [k]) with
  | .error e => Except.error e
  | .ok (a', bv) => .ok { a' with links := a'.links ++ [([k], bv)] }

theorem assignVars_succ (t : QTask) (f : QFlags) (hf : f.unfoldTree = false) (n : Nat) (a : QAssign) (k : Nat)
    (path : List Nat) :
    assignVars t f (n + 1) a k path =
      if path.contains k then .error .cyclic else
      match (t.step k).from_.foldlM (linkStep t f n k path) (visit t a k) with
      | .error e => .error e
      | .ok a' => .ok (a', [k]) := by
  rw [assignVars]
  simp only [hf, Bool.false_eq_true, if_false]
  rfl

theorem visit_vars (t : QTask) (a : QAssign) (k : Nat) :
    (visit t a k).vars = if a.vars.any (fun p => p.1 == [k]) then a.vars else a.vars ++ [([k], k)] := by
  unfold visit
  simp only
  split <;> split <;> split <;> rfl

theorem visit_links (t : QTask) (a : QAssign) (k : Nat) : (visit t a k).links = a.links := by
  unfold visit
  simp only
  split <;> split <;> split <;> rfl

theorem visit_outs (t : QTask) (a : QAssign) (k : Nat) :
    (visit t a k).outs = if t.outputs.contains k && !a.outs.contains [k] then a.outs ++ [[k]] else a.outs := by
  unfold visit
  simp only
  split <;> split <;> split <;> simp_all

theorem visit_ins (t : QTask) (a : QAssign) (k : Nat) :
    (visit t a k).ins = if t.inputs.contains k && !a.ins.contains [k] then a.ins ++ [[k]] else a.ins := by
  unfold visit
  simp only
  split <;> split <;> split <;> simp_all

theorem visit_ext (t : QTask) (a : QAssign) (k : Nat) (hs : ∀ p ∈ a.vars, p.1 = [p.2]) :
    Ext t (fun j => j = k) (fun _ _ => False) a (visit t a k) := by
  have hany : (a.vars.any (fun p => p.1 == [k])) = true ↔ ([k], k) ∈ a.vars := by
    simp only [List.any_eq_true, beq_iff_eq]
    constructor
    · rintro ⟨⟨v, j⟩, hp, hv⟩
      have := hs _ hp
      simp only at hv this
      rw [hv] at this
      simp only [List.cons.injEq, and_true] at this
      subst this
      rw [← hv]
      exact hp
    · intro h
      exact ⟨_, h, rfl⟩
  refine ⟨?_, ?_, ?_, ?_, ?_⟩
  · intro p
    rw [visit_vars]
    split
    · rename_i h1
      rw [hany] at h1
      constructor
      · exact Or.inl
      · rintro (h | ⟨j, rfl, rfl⟩)
        · exact h
        · exact h1
    · simp only [List.mem_append, List.mem_singleton]
      constructor
      · rintro (h | rfl)
        · exact Or.inl h
        · exact Or.inr ⟨k, rfl, rfl⟩
      · rintro (h | ⟨j, rfl, rfl⟩)
        · exact Or.inl h
        · exact Or.inr rfl
  · intro l
    rw [visit_links]
    simp
  · intro v
    rw [visit_outs]
    split
    · rename_i h2
      simp only [Bool.and_eq_true, decide_eq_true_eq, Bool.not_eq_true', List.contains_eq_mem,
        decide_eq_false_iff_not] at h2
      simp only [List.mem_append, List.mem_singleton]
      constructor
      · rintro (h | rfl)
        · exact Or.inl h
        · exact Or.inr ⟨k, rfl, h2.1, rfl⟩
      · rintro (h | ⟨j, rfl, _, rfl⟩)
        · exact Or.inl h
        · exact Or.inr rfl
    · rename_i h2
      simp only [Bool.and_eq_true, decide_eq_true_eq, Bool.not_eq_true', List.contains_eq_mem,
        decide_eq_false_iff_not, not_and, Classical.not_not] at h2
      constructor
      · exact Or.inl
      · rintro (h | ⟨j, rfl, ho, rfl⟩)
        · exact h
        · exact h2 ho
  · intro v
    rw [visit_ins]
    split
    · rename_i h2
      simp only [Bool.and_eq_true, decide_eq_true_eq, Bool.not_eq_true', List.contains_eq_mem,
        decide_eq_false_iff_not] at h2
      simp only [List.mem_append, List.mem_singleton]
      constructor
      · rintro (h | rfl)
        · exact Or.inl h
        · exact Or.inr ⟨k, rfl, h2.1, rfl⟩
      · rintro (h | ⟨j, rfl, _, rfl⟩)
        · exact Or.inl h
        · exact Or.inr rfl
    · rename_i h2
      simp only [Bool.and_eq_true, decide_eq_true_eq, Bool.not_eq_true', List.contains_eq_mem,
        decide_eq_false_iff_not, not_and, Classical.not_not] at h2
      constructor
      · exact Or.inl
      · rintro (h | ⟨j, rfl, ho, rfl⟩)
        · exact h
        · exact h2 ho
  · intro _ hn
    rw [visit_vars]
    split
    · exact hn
    · rename_i h1
      simp only [List.map_append, List.map_cons, List.map_nil]
      rw [List.nodup_append]
      refine ⟨hn, by simp, ?_⟩
      intro x hx y hy
      simp only [List.mem_singleton] at hy
      subst hy
      rintro rfl
      apply h1
      simp only [List.mem_map] at hx
      obtain ⟨p, hp, hpx⟩ := hx
      simp only [List.any_eq_true, beq_iff_eq]
      exact ⟨p, hp, hpx⟩

theorem reachFrom_iff (t : QTask) (k j : Nat) :
    ReachFrom t k j ↔ (j = k ∨ ∃ b ∈ (t.step k).from_, ReachFrom t b j) := by
  constructor
  · intro h
    cases h with
    | refl => exact Or.inl rfl
    | step hb hr => exact Or.inr ⟨_, hb, hr⟩
  · rintro (rfl | ⟨b, hb, hr⟩)
    · exact .refl _
    · exact .step hb hr

def Shape (a : QAssign) : Prop := ∀ p ∈ a.vars, p.1 = [p.2]

theorem addLink_ext (t : QTask) (a : QAssign) (k b : Nat) :
    Ext t (fun _ => False) (fun c b' => c = k ∧ b' = b) a { a with links := a.links ++ [([k], [b])] } := by
  refine ⟨by simp, ?_, by simp, by simp, fun _ h => h⟩
  intro l
  simp only [List.mem_append, List.mem_singleton]
  constructor
  · rintro (h | rfl)
    · exact Or.inl h
    · exact Or.inr ⟨k, b, ⟨rfl, rfl⟩, rfl⟩
  · rintro (h | ⟨c, b', ⟨rfl, rfl⟩, rfl⟩)
    · exact Or.inl h
    · exact Or.inr rfl

/-- the specification of one call, as a predicate on the fuel -/
def AssignSpecAt (t : QTask) (f : QFlags) (n : Nat) : Prop :=
  ∀ a k path a' v, Shape a → assignVars t f n a k path = .ok (a', v) →
    v = [k] ∧ Ext t (ReachFrom t k) (fun c b => ReachFrom t k c ∧ b ∈ (t.step c).from_) a a'

theorem linkFold_spec (t : QTask) (f : QFlags) (n : Nat) (ih : AssignSpecAt t f n) (k : Nat) (path : List Nat) :
    ∀ (bs : List Nat) (a a'' : QAssign), Shape a → bs.foldlM (linkStep t f n k path) a = .ok a'' →
      Ext t (fun j => ∃ b ∈ bs, ReachFrom t b j)
        (fun c b' => (∃ b ∈ bs, ReachFrom t b c ∧ b' ∈ (t.step c).from_) ∨ (c = k ∧ b' ∈ bs)) a a'' := by
  intro bs
  induction bs with
  | nil =>
    intro a a'' _ h
    simp only [List.foldlM_nil, pure, Except.pure, Except.ok.injEq] at h
    subst h
    exact (Ext.refl t a).congr (by simp) (by simp)
  | cons b bs ihb =>
    intro a a'' hs h
    simp only [List.foldlM_cons] at h
    cases hx : linkStep t f n k path a b with
    | error e => rw [hx] at h; cases h
    | ok a1 =>
      rw [hx] at h
      unfold linkStep at hx
      cases hy : assignVars t f n a b (path ++ [k]) with
      | error e => rw [hy] at hx; cases hx
      | ok r =>
        obtain ⟨a0, bv⟩ := r
        rw [hy] at hx
        simp only [Except.ok.injEq] at hx
        obtain ⟨hbv, e0⟩ := ih a b _ a0 bv hs hy
        subst hbv
        have e1 := addLink_ext t a0 k b
        rw [hx] at e1
        have hs1 : Shape a1 := e1.shape (e0.shape hs)
        have e2 := ihb a1 a'' hs1 h
        refine ((e0.trans e1).trans e2).congr ?_ ?_
        · intro j
          simp only [List.mem_cons, or_false]
          constructor
          · rintro (h1 | ⟨b', hb', hr⟩)
            · exact ⟨b, Or.inl rfl, h1⟩
            · exact ⟨b', Or.inr hb', hr⟩
          · rintro ⟨b', rfl | hb', hr⟩
            · exact Or.inl hr
            · exact Or.inr ⟨b', hb', hr⟩
        · intro c b'
          simp only [List.mem_cons]
          constructor
          · rintro ((h1 | ⟨rfl, rfl⟩) | (⟨b2, hb2, hr⟩ | ⟨rfl, hb'⟩))
            · exact Or.inl ⟨b, Or.inl rfl, h1⟩
            · exact Or.inr ⟨rfl, Or.inl rfl⟩
            · exact Or.inl ⟨b2, Or.inr hb2, hr⟩
            · exact Or.inr ⟨rfl, Or.inr hb'⟩
          · rintro (⟨b2, rfl | hb2, hr⟩ | ⟨rfl, rfl | hb'⟩)
            · exact Or.inl (Or.inl hr)
            · exact Or.inr (Or.inl ⟨b2, hb2, hr⟩)
            · exact Or.inl (Or.inr ⟨rfl, rfl⟩)
            · exact Or.inr (Or.inr ⟨rfl, hb'⟩)

theorem assignVars_spec (t : QTask) (f : QFlags) (hf : f.unfoldTree = false) : ∀ n, AssignSpecAt t f n := by
  intro n
  induction n with
  | zero =>
    intro a k path a' v _ h
    rw [assignVars] at h
    cases h
  | succ n ih =>
    intro a k path a' v hs h
    rw [assignVars_succ t f hf] at h
    split at h
    · cases h
    · cases hx : (t.step k).from_.foldlM (linkStep t f n k path) (visit t a k) with
      | error e => rw [hx] at h; cases h
      | ok a2 =>
        rw [hx] at h
        simp only [Except.ok.injEq, Prod.mk.injEq] at h
        obtain ⟨rfl, rfl⟩ := h
        refine ⟨rfl, ?_⟩
        have e0 := visit_ext t a k hs
        have e1 := linkFold_spec t f n ih k path _ _ _ (e0.shape hs) hx
        refine (e0.trans e1).congr ?_ ?_
        · intro j
          exact (reachFrom_iff t k j).symm
        · intro c b'
          simp only [false_or]
          constructor
          · rintro (⟨b, hb, hr, hb'⟩ | ⟨rfl, hb'⟩)
            · exact ⟨.step hb hr, hb'⟩
            · exact ⟨.refl _, hb'⟩
          · rintro ⟨hr, hb'⟩
            rcases (reachFrom_iff t k c).1 hr with rfl | ⟨b, hb, hr'⟩
            · exact Or.inr ⟨rfl, hb'⟩
            · exact Or.inl ⟨b, hb, hr', hb'⟩

/-- the fold of `genQuery` over the output steps -/
def assignAll (t : QTask) (f : QFlags) : Except QErr QAssign :=
  t.outputs.foldlM (fun (a : QAssign) o =>
    match assignVars t f (t.steps.length + 2) a o [] with
    | .error e => Except.error e
    | .ok (a', _) => .ok a') {}

theorem outFold_spec (t : QTask) (f : QFlags) (hf : f.unfoldTree = false) (n : Nat) :
    ∀ (os : List Nat) (a a' : QAssign), Shape a →
      os.foldlM (fun (a : QAssign) o =>
        match assignVars t f n a o [] with
        | .error e => Except.error e
        | .ok (a', _) => .ok a') a = .ok a' →
      Ext t (fun j => ∃ o ∈ os, ReachFrom t o j)
        (fun c b => (∃ o ∈ os, ReachFrom t o c) ∧ b ∈ (t.step c).from_) a a' := by
  intro os
  induction os with
  | nil =>
    intro a a' _ h
    simp only [List.foldlM_nil, pure, Except.pure, Except.ok.injEq] at h
    subst h
    exact (Ext.refl t a).congr (by simp) (by simp)
  | cons o os ih =>
    intro a a' hs h
    simp only [List.foldlM_cons] at h
    cases hy : assignVars t f n a o [] with
    | error e => rw [hy] at h; cases h
    | ok r =>
      obtain ⟨a0, bv⟩ := r
      rw [hy] at h
      obtain ⟨_, e0⟩ := assignVars_spec t f hf n a o [] a0 bv hs hy
      have e1 := ih a0 a' (e0.shape hs) h
      refine (e0.trans e1).congr ?_ ?_
      · intro j
        simp only [List.mem_cons]
        constructor
        · rintro (h1 | ⟨o', ho', hr⟩)
          · exact ⟨o, Or.inl rfl, h1⟩
          · exact ⟨o', Or.inr ho', hr⟩
        · rintro ⟨o', rfl | ho', hr⟩
          · exact Or.inl hr
          · exact Or.inr ⟨o', ho', hr⟩
      · intro c b
        simp only [List.mem_cons]
        constructor
        · rintro (⟨h1, hb⟩ | ⟨⟨o', ho', hr⟩, hb⟩)
          · exact ⟨⟨o, Or.inl rfl, h1⟩, hb⟩
          · exact ⟨⟨o', Or.inr ho', hr⟩, hb⟩
        · rintro ⟨⟨o', rfl | ho', hr⟩, hb⟩
          · exact Or.inl ⟨hr, hb⟩
          · exact Or.inr ⟨⟨o', ho', hr⟩, hb⟩

/-- what `genQuery` knows about the variables (C11_assign_reachable) -/
structure AssignOk (t : QTask) (a : QAssign) : Prop where
  shape : ∀ p ∈ a.vars, p.1 = [p.2]
  vars : ∀ k, ([k], k) ∈ a.vars ↔ StepReach t k
  nodup : (a.vars.map (·.1)).Nodup
  links : ∀ l, l ∈ a.links ↔ ∃ c b, StepReach t c ∧ b ∈ (t.step c).from_ ∧ l = ([c], [b])
  outs : ∀ v, v ∈ a.outs ↔ ∃ k, k ∈ t.outputs ∧ v = [k]
  ins : ∀ v, v ∈ a.ins ↔ ∃ k, StepReach t k ∧ k ∈ t.inputs ∧ v = [k]

theorem assignAll_ok (t : QTask) (f : QFlags) (hf : f.unfoldTree = false) (a : QAssign)
    (h : assignAll t f = .ok a) : AssignOk t a := by
  have hs0 : Shape ({} : QAssign) := by intro p hp; cases hp
  have e := outFold_spec t f hf _ t.outputs {} a hs0 h
  have hS : ∀ j, (∃ o ∈ t.outputs, ReachFrom t o j) ↔ StepReach t j := fun j => (reach_iff_from t j).symm
  refine ⟨e.shape hs0, ?_, e.nodup hs0 (by simp), ?_, ?_, ?_⟩
  · intro k
    rw [e.vars]
    constructor
    · rintro (h1 | ⟨j, hj, h1⟩)
      · cases h1
      · simp only [Prod.mk.injEq, List.cons.injEq, and_true] at h1
        rw [h1.1]
        exact (hS j).1 hj
    · intro hk
      exact Or.inr ⟨k, (hS k).2 hk, rfl⟩
  · intro l
    rw [e.links]
    constructor
    · rintro (h1 | ⟨c, b, ⟨hc, hb⟩, rfl⟩)
      · cases h1
      · exact ⟨c, b, (hS c).1 hc, hb, rfl⟩
    · rintro ⟨c, b, hc, hb, rfl⟩
      exact Or.inr ⟨c, b, ⟨(hS c).2 hc, hb⟩, rfl⟩
  · intro v
    rw [e.outs]
    constructor
    · rintro (h1 | ⟨k, _, hk, rfl⟩)
      · cases h1
      · exact ⟨k, hk, rfl⟩
    · rintro ⟨k, hk, rfl⟩
      exact Or.inr ⟨k, (hS k).2 (.out hk), hk, rfl⟩
  · intro v
    rw [e.ins]
    constructor
    · rintro (h1 | ⟨k, hr, hk, rfl⟩)
      · cases h1
      · exact ⟨k, (hS k).1 hr, hk, rfl⟩
    · rintro ⟨k, hr, hk, rfl⟩
      exact Or.inr ⟨k, (hS k).2 hr, hk, rfl⟩

theorem AssignOk.mem_vars {t : QTask} {a : QAssign} (h : AssignOk t a) (p : QVar × Nat) :
    p ∈ a.vars ↔ (p.1 = [p.2] ∧ StepReach t p.2) := by
  constructor
  · intro hp
    have := h.shape p hp
    refine ⟨this, (h.vars p.2).1 ?_⟩
    rw [← this]
    exact hp
  · rintro ⟨h1, h2⟩
    have := (h.vars p.2).2 h2
    rw [← h1] at this
    exact this

theorem AssignOk.stepOf {t : QTask} {a : QAssign} (h : AssignOk t a) {k : Nat} (hk : StepReach t k) :
    stepOf a [k] = k := by
  unfold Tfv.stepOf
  cases hx : a.vars.find? (fun p => p.1 == [k]) with
  | none =>
    have := List.find?_eq_none.1 hx _ ((h.vars k).2 hk)
    simp at this
  | some p =>
    have hm := List.mem_of_find?_eq_some hx
    have hp := List.find?_some hx
    simp only [beq_iff_eq] at hp
    have := h.shape p hm
    rw [hp] at this
    simp only [List.cons.injEq, and_true] at this
    simp [this]

end Tfv
