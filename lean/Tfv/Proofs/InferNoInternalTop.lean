import Tfv.Proofs.InferNoInternalEngine
import Tfv.Proofs.InferConstrApply
/-!
# The inference engine never fails with an internal assertion (C17, engine part): the entry points

`addConstraint` (with the `inform()` assertion), `addConstraints`, `instantiate`, `applyT`,
chains of applications and `useSchema` (instantiate, then apply to the arguments in turn).
-/
namespace Tfv.C17E
open Tfv Tfv.C03P Tfv.C03C Tfv.C16P

/-! ## 1. results of the entry points -/

/-- a store satisfying the invariant, or an error that is not internal -/
def GoodT : R → Prop
  | .ok σ' => Chains σ'
  | .error e => isInt e = false

def GoodTP {α : Type} : Except Err (Store × α) → Prop
  | .ok (σ', _) => Chains σ'
  | .error e => isInt e = false

theorem GoodR.toT {σ : Store} {r : R} (h : GoodR σ r) : GoodT r := by
  cases r with
  | error e => exact h
  | ok σ' => exact h.ch

theorem GoodP.toTP {α : Type} {σ : Store} {r : Except Err (Store × α)} (h : GoodP σ r) : GoodTP r := by
  cases r with
  | error e => exact h
  | ok p => exact h.ch

theorem GoodT.not_internal {r : R} (h : GoodT r) (s : String) : r ≠ .error (.internal s) := by
  intro e; rw [e] at h; cases h

theorem GoodTP.not_internal {α : Type} {r : Except Err (Store × α)} (h : GoodTP r) (s : String) :
    r ≠ .error (.internal s) := by
  intro e; rw [e] at h; cases h

theorem GoodT.chains {r : R} {σ' : Store} (h : GoodT r) (e : r = .ok σ') : Chains σ' := by
  rw [e] at h; exact h

theorem GoodT.err_of {r : R} {e : Err} (h : GoodT r) (he : r = .error e) : isInt e = false := by
  rw [he] at h; exact h

theorem GoodTP.chains {α : Type} {r : Except Err (Store × α)} {σ' : Store} {x : α} (h : GoodTP r)
    (e : r = .ok (σ', x)) : Chains σ' := by
  rw [e] at h; exact h

theorem GoodTP.err_of {α : Type} {r : Except Err (Store × α)} {e : Err} (h : GoodTP r)
    (he : r = .error e) : isInt e = false := by
  rw [he] at h; exact h

/-! ## 2. the variables `inform()` looks at are unresolved -/

/-- all variables of the list are unresolved -/
def Unb (σ : Store) (l : List Nat) : Prop := ∀ v, v ∈ l → (getVar σ v).bound = none

theorem unb_nil (σ : Store) : Unb σ [] := fun _ h => nomatch h

theorem foldl_unb {σ : Store} {α : Type} (f : List Nat → α → List Nat)
    (hf : ∀ acc x, Unb σ acc → Unb σ (f acc x)) : ∀ (xs : List α) (acc : List Nat), Unb σ acc →
    Unb σ (xs.foldl f acc)
  | [], _, h => h
  | x :: xs, acc, h => by
    simp only [List.foldl_cons]
    exact foldl_unb f hf xs _ (hf acc x h)

theorem directVars_unb {σ : Store} (hc : Chains σ) : ∀ (k : Nat) (t : Term) (acc : List Nat),
    Unb σ acc → Unb σ (directVars σ k t acc)
  | 0, t, acc, h => by unfold directVars; exact h
  | k+1, t, acc, h => by
    unfold directVars
    split
    · next v e =>
      split
      · exact h
      · intro w hw
        rcases List.mem_append.mp hw with h1 | h1
        · exact h w h1
        · rw [List.mem_singleton] at h1
          subst h1
          exact hc.unbound e
    · exact foldl_unb _ (fun acc x hacc => directVars_unb hc k x acc hacc) _ acc h

theorem indirectVars_unb {σ : Store} (hc : Chains σ) : ∀ (k : Nat) (work seen : List Nat),
    Unb σ seen → Unb σ (indirectVars σ k work seen)
  | 0, _, seen, h => by unfold indirectVars; exact h
  | k+1, [], seen, h => by unfold indirectVars; exact h
  | k+1, v :: work, seen, h => by
    unfold indirectVars
    simp only []
    apply indirectVars_unb hc k
    apply foldl_unb _ _ _ seen h
    intro acc c hacc
    exact foldl_unb _ (fun acc x hacc' => directVars_unb hc _ x acc hacc') _ acc hacc

theorem varsOfTerms_unb {σ : Store} (hc : Chains σ) (ts : List Term) : Unb σ (varsOfTerms σ ts) := by
  unfold varsOfTerms
  simp only []
  apply indirectVars_unb hc
  exact foldl_unb _ (fun acc x hacc => directVars_unb hc _ x acc hacc) _ [] (unb_nil σ)

/-! ## 3. `addConstraint`, `addConstraints` -/

theorem boundEq_foldl {α : Type} (f : Store → α → Store) (hf : ∀ σ x, BoundEq σ (f σ x)) :
    ∀ (xs : List α) (σ : Store), BoundEq σ (xs.foldl f σ)
  | [], σ => BoundEq.refl σ
  | x :: xs, σ => by
    simp only [List.foldl_cons]
    exact (hf σ x).trans (boundEq_foldl f hf xs _)

theorem boundEq_informStore (id : Nat) (vars : List Nat) (σ : Store) : BoundEq σ (informStore id vars σ) := by
  unfold informStore
  exact boundEq_foldl _ (fun σ v => boundEq_setCset _ _ _) vars σ

theorem boundEq_regStore (σ : Store) (c : Constr) : BoundEq σ (regStore σ c) := boundEq_constrs rfl

theorem addConstraint_good (L : Lang) (fuel : Nat) {σ : Store} (c : Constr) (hc : Chains σ) :
    GoodT (addConstraint L fuel σ c) := by
  rw [addConstraint_eq]
  have hca : Chains (regStore σ (normC σ c)) := (boundEq_regStore σ _).chains hc
  simp only []
  split
  · next hany =>
    exfalso
    obtain ⟨v, hv, hb⟩ := List.any_eq_true.mp hany
    rw [varsOfTerms_unb hca _ v hv] at hb
    cases hb
  · have hci := (boundEq_informStore σ.constrs.length
      (varsOfTerms (regStore σ (normC σ c)) (constrTerms (normC σ c))) _).chains hca
    have hf := (all_noInternal L fuel).2.2.2.2.2.2.2.2.2.1 _ σ.constrs.length hci
    split
    · next e he => exact hf.err_of he
    · next σ1 d he => exact (hf.step he).ch

theorem addConstraints_good (L : Lang) (fuel base : Nat) : ∀ (cs : List CAst) (σ : Store), Chains σ →
    GoodT (addConstraints L fuel base σ cs)
  | [], σ, hc => by unfold addConstraints; exact hc
  | c :: cs, σ, hc => by
    unfold addConstraints
    simp only []
    split
    · next e he => exact (addConstraint_good L fuel _ hc).err_of he
    · next σ1 he =>
      exact addConstraints_good L fuel base cs σ1 ((addConstraint_good L fuel _ hc).chains he)

/-! ## 4. `instantiate` -/

theorem boundEq_allocVars (σ : Store) (nvars nwild : Nat) : BoundEq σ (allocVars σ nvars nwild) := by
  unfold allocVars
  simp only []
  exact (boundEq_foldl _ (fun σ _ => boundEq_newVar σ false) _ σ).trans
    (boundEq_foldl _ (fun σ _ => boundEq_newVar σ true) _ _)

theorem instantiate_good (L : Lang) (fuel : Nat) {σ : Store} (s : Schema) (hc : Chains σ) :
    GoodTP (instantiate L fuel σ s) := by
  unfold instantiate
  simp only []
  have hca := (boundEq_allocVars σ s.nvars s.nwild).chains hc
  have ha := addConstraints_good L fuel σ.vars.length s.constraints _ hca
  split
  · next e he => exact ha.err_of he
  · next σ1 he =>
    exact ((all_noInternal L fuel).2.2.2.2.2.1 σ1 _ true (ha.chains he)).toTP

/-! ## 5. `applyT`, chains of applications, `useSchema` -/

theorem applyPre_good (L : Lang) (fuel : Nat) {σ : Store} {f0 : Term} (hc : Chains σ) (hf : Final σ f0) :
    GoodP σ (applyPre L fuel σ f0) := by
  cases f0 with
  | app o args => exact goodP_ok.mpr (StepN.refl hc)
  | var fv =>
    simp only [applyPre]
    have b2 : BoundEq σ (newVar (newVar σ).1).1 := (boundEq_newVar σ false).trans (boundEq_newVar _ false)
    have s2 : StepN σ (newVar (newVar σ).1).1 := StepN.of_boundEq hc b2 rfl
    have hb := (all_noInternal L fuel).2.2.1 (newVar (newVar σ).1).1 fv
      (.app FUN [.var (newVar σ).2, .var (newVar (newVar σ).1).2]) s2.ch ((b2.bound fv).trans hf) trivial
    split
    · next e he => exact goodP_err (hb.err_of he)
    · next σ3 he => exact goodP_ok.mpr (s2.trans (hb.step he))

theorem applyPost_good (L : Lang) (fuel : Nat) {σ : Store} (x0 f1 : Term) (fixFlag : Bool) (hc : Chains σ) :
    GoodP σ (applyPost L fuel σ x0 f1 fixFlag) := by
  unfold applyPost
  split
  · split
    · refine goodRP_seq ((all_noInternal L fuel).1 σ _ _ _ _ _ hc) ?_
      intro σ1 _ s1
      split
      · exact (all_noInternal L fuel).2.2.2.2.2.1 σ1 _ true s1.ch
      · exact goodP_ok.mpr (StepN.refl s1.ch)
    · split
      · exact goodP_ok.mpr (StepN.refl hc)
      · exact goodP_err rfl
  · split
    · exact goodP_ok.mpr (StepN.refl hc)
    · exact goodP_err rfl
  · exact goodP_err rfl

theorem applyT_good (L : Lang) (fuel : Nat) {σ : Store} (f x : Term) (fixFlag : Bool) (hc : Chains σ) :
    GoodP σ (applyT L fuel σ f x fixFlag) := by
  rw [applyT_eq]
  have hp := applyPre_good L fuel hc (hc.finalT f)
  split
  · next e he => exact goodP_err (hp.err_of he)
  · next σ1 f1 he =>
    have s1 := hp.step he
    exact GoodP.trans s1 (applyPost_good L fuel _ f1 fixFlag s1.ch)

theorem applyAll_good (L : Lang) (fuel : Nat) (fixFlag : Bool) : ∀ (xs : List Term) (σ : Store) (f : Term),
    Chains σ → GoodP σ (applyAll L fuel fixFlag σ f xs)
  | [], σ, f, hc => by unfold applyAll; exact goodP_ok.mpr (StepN.refl hc)
  | x :: xs, σ, f, hc => by
    unfold applyAll
    have ha := applyT_good L fuel f x fixFlag hc
    split
    · next e he => exact goodP_err (ha.err_of he)
    · next σ1 r he =>
      have s1 := ha.step he
      exact GoodP.trans s1 (applyAll_good L fuel fixFlag xs σ1 r s1.ch)

theorem useSchema_good (L : Lang) (fuel : Nat) (fixFlag : Bool) {σ : Store} (s : Schema) (xs : List Term)
    (hc : Chains σ) : GoodTP (useSchema L fuel fixFlag σ s xs) := by
  unfold useSchema
  have hi := instantiate_good L fuel s hc
  split
  · next e he => exact hi.err_of he
  · next σ1 f he => exact (applyAll_good L fuel fixFlag xs σ1 f (hi.chains he)).toTP

/-! ## 6. an executable test for the invariant -/

def chainsB (σ : Store) : Bool :=
  (List.range σ.vars.length).all (fun w => normB σ (follow σ (nb σ) (.var w)))

theorem final_of_normB {σ : Store} {t : Term} (h : normB σ t = true) : Final σ t := by
  cases t with
  | app o args => trivial
  | var v =>
    have h' : (getVar σ v).bound.isNone = true := h
    exact Option.isNone_iff_eq_none.mp h'

theorem chainsB_sound {σ : Store} (h : chainsB σ = true) : Chains σ := by
  intro w
  by_cases hw : w < σ.vars.length
  · exact final_of_normB (List.all_eq_true.mp h w (List.mem_range.mpr hw))
  · have hb : (getVar σ w).bound = none := by rw [getVar_oor hw]
    rw [follow_of_final (final_var.mpr hb)]
    exact hb

theorem fuelOk_of_chainsB {σ : Store} (h : chainsB σ = true) : FuelOk σ := (chainsB_sound h).fuelOk

theorem fuelOk_empty : FuelOk {} := chains_empty.fuelOk

end Tfv.C17E
