import Tfv.Proofs.ExprNoInternal
import Tfv.Proofs.ParseTotal
/-!
# The expression parser over a builder with a state invariant (C17, expression layer)

`parseExprLoop_no_internal` (`ParseTotal.lean`) asks that the builder never fails internally in ANY
state. The typed builder only promises that on states whose store satisfies `FuelOk`; and its internal
errors hide inside `.typing` / `.application`. Here:

* the type parser never returns an error carrying an engine error (`.typing`, `.application`), hence its
  errors are never internal in the wide sense `isIntP`;
* `BuilderGood B Inv`: the builder's operations, started in a state satisfying `Inv`, return a state
  satisfying `Inv` or an error with `isIntP = false`;
* for such a builder `parseExprLoop`, started in a state satisfying `Inv` with enough fuel, ends in a
  state satisfying `Inv` or with an error with `isIntP = false`.
-/
namespace Tfv.C17X
open Tfv Tfv.C17E

/-! ## 1. the type parser returns no engine errors -/

/-- the error carries an engine error -/
def isEng : PErr → Bool
  | .typing _ => true
  | .application _ => true
  | _ => false

theorem isIntP_of_not_eng {e : PErr} (h1 : isEng e = false) (h2 : ∀ s, e ≠ .internal s) : isIntP e = false := by
  cases e with
  | internal s => exact absurd rfl (h2 s)
  | typing e => cases h1
  | application e => cases h1
  | _ => rfl

theorem applyItem_noEng (P : PLang) (it : TItem) (args : List Term) (e : PErr)
    (h : applyItem P it args = .error e) : isEng e = false := by
  unfold applyItem at h
  split at h
  · split at h
    · cases h
    · injection h with h; subst h; rfl
  · split at h
    · split at h
      · cases h
      · injection h with h; subst h; rfl
    · injection h with h; subst h; rfl
  · injection h with h; subst h; rfl

theorem backtrack_noEng (P : PLang) (e : PErr) : ∀ (st : List TItem) (args : List Term),
    backtrack P st args = .error e → isEng e = false
  | [], args, h => by
    simp only [backtrack] at h
    injection h with h; subst h; rfl
  | .mark :: rest, args, h => by
    simp only [backtrack] at h
    split at h
    · cases h
    · injection h with h; subst h; rfl
  | .ty t :: rest, args, h => by
    simp only [backtrack] at h
    exact backtrack_noEng P e rest _ h
  | .op o :: rest, args, h => by
    simp only [backtrack] at h
    split at h
    · next e' he' => injection h with h; subst h; exact applyItem_noEng P _ _ _ he'
    · exact backtrack_noEng P e rest _ h
  | .alias k :: rest, args, h => by
    simp only [backtrack] at h
    split at h
    · next e' he' => injection h with h; subst h; exact applyItem_noEng P _ _ _ he'
    · exact backtrack_noEng P e rest _ h

theorem applyOperator_noEng (P : PLang) (e : PErr) : ∀ (st : List TItem) (args : List Term),
    applyOperator P st args = .error e → isEng e = false
  | [], args, h => by
    simp only [applyOperator] at h
    injection h with h; subst h; rfl
  | .ty t :: rest, args, h => by
    simp only [applyOperator] at h
    exact applyOperator_noEng P e rest _ h
  | .mark :: rest, args, h => by
    simp only [applyOperator, TItem.isOp] at h
    simp at h
    subst h; rfl
  | .op o :: rest, args, h => by
    simp only [applyOperator, TItem.isOp, if_true] at h
    split at h
    · next e' he' => injection h with h; subst h; exact applyItem_noEng P _ _ _ he'
    · cases h
  | .alias k :: rest, args, h => by
    simp only [applyOperator, TItem.isOp, if_true] at h
    split at h
    · next e' he' => injection h with h; subst h; exact applyItem_noEng P _ _ _ he'
    · cases h

theorem resolveTypeToken_noEng (P : PLang) (tok : String) (e : PErr)
    (h : resolveTypeToken P tok = .error e) : isEng e = false := by
  unfold resolveTypeToken at h
  split at h
  · cases h
  split at h
  · cases h
  split at h
  · cases h
  split at h
  · split at h
    · cases h
    · injection h with h; subst h; rfl
  · injection h with h; subst h; rfl

theorem typeStep_noEng (P : PLang) (vb : Nat) (s : TState) (tok : String) (e : PErr)
    (h : typeStep P vb s tok = .error e) : isEng e = false := by
  unfold typeStep at h
  split at h
  · split at h
    · cases h
    · injection h with h; subst h; rfl
  split at h
  · split at h
    · next e' he' => injection h with h; subst h; exact backtrack_noEng P _ _ _ he'
    · split at h
      · split at h
        · split at h
          · next e' he' => injection h with h; subst h; exact applyOperator_noEng P _ _ _ he'
          · cases h
        · cases h
        · cases h
      · cases h
  split at h
  · cases h
  split at h
  · split at h
    · cases h
    · injection h with h; subst h; rfl
    · injection h with h; subst h; rfl
  · split at h
    · next e' he' => injection h with h; subst h; exact resolveTypeToken_noEng P _ _ he'
    · cases h

theorem inlineDone_noEng (s : TState) (e : PErr) (h : inlineDone s = .error e) : isEng e = false := by
  unfold inlineDone at h
  split at h
  · injection h with h; subst h; rfl
  · cases h

theorem typeFinish_noEng (P : PLang) (s : TState) (e : PErr) (h : typeFinish P s = .error e) :
    isEng e = false := by
  unfold typeFinish at h
  split at h
  · next e' he' => injection h with h; subst h; exact backtrack_noEng P _ _ _ he'
  · cases h
  · injection h with h; subst h; rfl

theorem parseTypeLoop_noEng (P : PLang) (ca : Bool) (vb : Nat) (e : PErr) :
    ∀ (toks : List String) (s : TState), parseTypeLoop P ca vb s toks = .error e → isEng e = false
  | [], s, h => by
    rw [parseTypeLoop] at h
    split at h
    · next e' he' => injection h with h; subst h; exact typeFinish_noEng P _ _ he'
    · cases h
  | tok :: rest, s, h => by
    rw [parseTypeLoop] at h
    split at h
    · exact parseTypeLoop_noEng P ca vb e rest _ h
    split at h
    · exact parseTypeLoop_noEng P ca vb e rest _ h
    split at h
    · exact parseTypeLoop_noEng P ca vb e rest _ h
    split at h
    · next e' he' => injection h with h; subst h; exact typeStep_noEng P _ _ _ _ he'
    · split at h
      · exact parseTypeLoop_noEng P ca vb e rest _ h
      · split at h
        · next e' he' => injection h with h; subst h; exact inlineDone_noEng _ _ he'
        · split at h
          · next e' he' => injection h with h; subst h; exact typeFinish_noEng P _ _ he'
          · cases h
        · exact parseTypeLoop_noEng P ca vb e rest _ h

/-- from a state satisfying the type parser's invariant, its errors are not internal in the wide sense -/
theorem parseTypeLoop_isIntP (P : PLang) (ca : Bool) (vb : Nat) (s : TState) (hs : InvT P ca s)
    (toks : List String) (e : PErr) (h : parseTypeLoop P ca vb s toks = .error e) : isIntP e = false :=
  isIntP_of_not_eng (parseTypeLoop_noEng P ca vb e toks s h)
    (fun site he => parseTypeLoop_no_internal P ca vb site toks s hs (he ▸ h))

/-! ## 2. builders with a state invariant -/

/-- a state satisfying the invariant, or an error that is not internal -/
def GoodB {S α : Type} (Inv : S → Prop) : Except PErr (S × α) → Prop
  | .ok (s, _) => Inv s
  | .error e => isIntP e = false

theorem GoodB.keeps {S α : Type} {Inv : S → Prop} {r : Except PErr (S × α)} {s : S} {x : α}
    (h : GoodB Inv r) (e : r = .ok (s, x)) : Inv s := by
  rw [e] at h; exact h

theorem GoodB.err_of {S α : Type} {Inv : S → Prop} {r : Except PErr (S × α)} {e : PErr}
    (h : GoodB Inv r) (he : r = .error e) : isIntP e = false := by
  rw [he] at h; exact h

/-- the builder's operations keep the invariant `Inv` of its state and, from a state satisfying it, fail
only with errors that are not internal -/
structure BuilderGood {S E : Type} (B : Builder S E) (Inv : S → Prop) : Prop where
  mkSource : ∀ s, Inv s → Inv (B.mkSource s).1
  mkOp : ∀ s name, Inv s → GoodB Inv (B.mkOp s name)
  mkApp : ∀ s x y, Inv s → GoodB Inv (B.mkApp s x y)
  annotate : ∀ s e t n b, Inv s → GoodB Inv (B.annotate s e t n b)

/-- the parser's state satisfies the builder's invariant, or the error is not internal -/
def GoodE {S E : Type} (Inv : S → Prop) : Except PErr (EState S E) → Prop
  | .ok s => Inv s.st
  | .error e => isIntP e = false

theorem goodE_err {S E : Type} {Inv : S → Prop} {e : PErr} (h : isIntP e = false) :
    GoodE (S := S) (E := E) Inv (.error e) := h

theorem parseExprLoop_good {S E : Type} (P : PLang) (B : Builder S E) (Inv : S → Prop)
    (hB : BuilderGood B Inv) (inputs : List E) (defaults : Bool) :
    ∀ (n : Nat) (s : EState S E) (toks : List String), toks.length < n → Inv s.st →
      GoodE Inv (parseExprLoop P B inputs defaults n s toks)
  | 0, s, toks, h, _ => by omega
  | n+1, s, [], h, hi => by
    rw [parseExprLoop]
    · exact hi
    · intros; contradiction
  | n+1, s, tok :: rest, h, hi => by
    have hlt : rest.length < n := by simp at h; omega
    have IH := parseExprLoop_good P B Inv hB inputs defaults n
    rw [parseExprLoop]
    split
    · exact IH _ _ hlt hi
    split
    · exact IH _ _ hlt hi
    split
    · exact IH _ _ hlt hi
    split
    · dsimp only
      split
      · rename_i e he
        apply goodE_err
        split at he
        · split at he
          · injection he with he; subst he; rfl
          · cases he
          · split at he
            · injection he with he; subst he; rfl
            · cases he
            · split at he
              · rename_i e' he'
                injection he with he; subst he
                exact (hB.mkApp _ _ _ hi).err_of he'
              · cases he
        · cases he
      · rename_i st' stack' he
        refine IH _ _ hlt ?_
        show Inv st'
        split at he
        · split at he
          · cases he
          · injection he with he; injection he with h1 h2; subst h1; exact hi
          · split at he
            · cases he
            · injection he with he; injection he with h1 h2; subst h1; exact hi
            · split at he
              · cases he
              · rename_i st'' e'' he'
                injection he with he; injection he with h1 h2; subst h1
                exact (hB.mkApp _ _ _ hi).keeps he'
        · injection he with he; injection he with h1 h2; subst h1; exact hi
    split
    · split
      · split
        · rename_i e he
          exact goodE_err (parseTypeLoop_isIntP P false _ {} (InvT_init P false) rest e he)
        · rename_i t nfresh rest' hty
          split
          · rename_i e he
            exact goodE_err ((hB.annotate _ _ _ _ _ hi).err_of he)
          · rename_i st' previous' he
            have := parseTypeLoop_length P false _ rest {} t nfresh rest' hty
            exact IH _ _ (by omega) ((hB.annotate _ _ _ _ _ hi).keeps he)
      · exact goodE_err rfl
      · exact goodE_err rfl
    split
    · exact IH _ _ hlt hi
    · dsimp only
      split
      · rename_i e he
        apply goodE_err
        split at he
        · cases he
        · split at he
          · split at he
            · cases he
            · split at he
              · cases he
              · injection he with he; subst he; rfl
          · exact (hB.mkOp _ _ hi).err_of he
      · rename_i st' current he
        have hi' : Inv st' := by
          split at he
          · injection he with he; rw [show st' = (B.mkSource s.st).1 from by rw [he]]; exact hB.mkSource _ hi
          · split at he
            · split at he
              · injection he with he; injection he with h1 h2; subst h1; exact hi
              · split at he
                · injection he with he; rw [show st' = (B.mkSource s.st).1 from by rw [he]]; exact hB.mkSource _ hi
                · cases he
            · exact (hB.mkOp _ _ hi).keeps he
        split
        · exact goodE_err rfl
        · exact IH _ _ hlt hi'
        · split
          · rename_i e he2
            exact goodE_err ((hB.mkApp _ _ _ hi').err_of he2)
          · rename_i st'' e2 he2
            exact IH _ _ hlt ((hB.mkApp _ _ _ hi').keeps he2)

theorem parseExprToks_good {S E : Type} (P : PLang) (B : Builder S E) (Inv : S → Prop)
    (hB : BuilderGood B Inv) (inputs : List E) (st0 : S) (toks : List String) (h0 : Inv st0) :
    GoodB Inv (parseExprToks P B inputs st0 toks) := by
  unfold parseExprToks
  have hl := parseExprLoop_good P B Inv hB inputs false (toks.length + 1) { st := st0 } toks
    (Nat.lt_succ_self _) h0
  split
  · next e he => rw [he] at hl; exact hl
  · next s he =>
    rw [he] at hl
    split
    · exact hl
    · exact (rfl : isIntP .emptyParse = false)
    · exact (rfl : isIntP .bracketMismatch = false)

/-! ## 3. the typed builder -/

theorem GoodX.toB {α : Type} {r : Except PErr (XState × α)} (h : GoodX r) :
    GoodB (fun s : XState => FuelOk s.store) r := by
  cases r with
  | error e => exact h
  | ok p => exact h

theorem GoodB.toX {α : Type} {r : Except PErr (XState × α)} (h : GoodB (fun s : XState => FuelOk s.store) r) :
    GoodX r := by
  cases r with
  | error e => exact h
  | ok p => exact h

theorem typedBuilder_good (L : Lang) (ops : List OperatorDecl) (fixFlag : Bool) :
    BuilderGood (typedBuilder L ops fixFlag) (fun s => FuelOk s.store) where
  mkSource _ h := mkSourceT_keeps h
  mkOp _ name h := (mkOpT_good L ops name h).toB
  mkApp _ x y h := (mkAppT_good L fixFlag x y h).toB
  annotate _ e t n b h := (annotateT_good L e t n b h).toB

theorem parseTyped_good (P : PLang) (ops : List OperatorDecl) (ninputs : Nat) (toks : List String)
    (doFix : Bool) : GoodX (parseTyped P ops ninputs toks doFix) := by
  unfold parseTyped
  have h0 : FuelOk (mkInputs ninputs {}).1.store := mkInputs_keeps ninputs fuelOk_empty
  have hp := parseExprToks_good P (typedBuilder P.types ops true) _ (typedBuilder_good P.types ops true)
    (mkInputs ninputs {}).2 (mkInputs ninputs {}).1 toks h0
  dsimp only
  split
  · next e he => exact hp.err_of he
  · next s e he =>
    have hs : FuelOk s.store := hp.keeps he
    split
    · have hf := fixExpr_good P.types e hs
      split
      · next err herr => exact (hf.err_of herr : isInt err = false)
      · next σ e' hok => exact hf.keeps hok
    · exact hs

/-- the parse alone, from any state whose store satisfies the invariant and with any input expressions -/
theorem parseTypedToks_good (P : PLang) (L : Lang) (ops : List OperatorDecl) (fixFlag : Bool)
    (inputs : List TExpr) (s0 : XState) (toks : List String) (h0 : FuelOk s0.store) :
    GoodX (parseExprToks P (typedBuilder L ops fixFlag) inputs s0 toks) :=
  (parseExprToks_good P (typedBuilder L ops fixFlag) _ (typedBuilder_good L ops fixFlag) inputs s0 toks h0).toX

/-! ## 4. what `GoodX` / `GoodS` say, spelled out -/

theorem goodX_iff {α : Type} (r : Except PErr (XState × α)) : GoodX r ↔
    (∀ s x, r = .ok (s, x) → FuelOk s.store) ∧
    (∀ e, r = .error e → ∀ site, e ≠ .internal site ∧ e ≠ .typing (.internal site) ∧
      e ≠ .application (.internal site)) := by
  cases r with
  | error e =>
    constructor
    · intro h
      refine ⟨fun _ _ he => (by cases he), fun e' he => ?_⟩
      injection he with he; subst he
      exact isIntP_false_iff.1 h
    · intro h
      exact isIntP_false_iff.2 (h.2 e rfl)
  | ok p =>
    constructor
    · intro h
      refine ⟨fun s x he => ?_, fun _ he => by cases he⟩
      injection he with he; subst he; exact h
    · intro h
      exact h.1 p.1 p.2 rfl

theorem goodS_iff {α : Type} (r : Except Err (Store × α)) : GoodS r ↔
    (∀ σ x, r = .ok (σ, x) → FuelOk σ) ∧ (∀ site, r ≠ .error (.internal site)) := by
  cases r with
  | error e =>
    constructor
    · intro h
      refine ⟨fun _ _ he => (by cases he), fun site he => ?_⟩
      injection he with he; subst he; cases h
    · intro h
      exact isInt_false_iff.2 (fun s hs => h.2 s (by rw [hs]))
  | ok p =>
    constructor
    · intro h
      refine ⟨fun s x he => ?_, fun _ he => by cases he⟩
      injection he with he; subst he; exact h
    · intro h
      exact h.1 p.1 p.2 rfl

/-! ## 5. the parser's own fuel -/

/-- no operation of the typed builder returns `PErr.internal` itself, in any state -/
theorem typedBuilder_total (L : Lang) (ops : List OperatorDecl) (fixFlag : Bool) :
    BuilderTotal (typedBuilder L ops fixFlag) where
  mkOp s name site := by
    show mkOpT L ops s name ≠ _
    unfold mkOpT
    split
    · simp
    · split
      · simp
      · split <;> simp
  mkApp s x y site := by
    show mkAppT L fixFlag s x y ≠ _
    unfold mkAppT
    split <;> simp
  annotate s e t n b site := by
    show annotateT L s e t n b ≠ _
    rw [annotateT_eq]
    split <;> simp

end Tfv.C17X
