import Tfv.Model
import Tfv.Spec.Lambda
import Tfv.Spec.LambdaTyped
import Tfv.Proofs.LambdaTypedExamples
/-!
# C15, type-preservation clause — "the expansion has the same or a more specific type"

`Tfv/Props/C15.lean` proves that `primitiveL` (unfold every composite operator, normalise) is beta reduction
on UNTYPED terms. This file adds the types: a simple type system with subsumption over the same terms
(`Tfv/Spec/LambdaTyped.lean`) and subject reduction for every step `primitiveL` makes.

* Types are the concrete types `Ty` of the library; `A → B` is `fn A B = .app FUN [A, B]` (the builtin
  `Function`, contravariant in `A`); "more specific" is the declared order `Sub L` of C01.
* `HasType L Sg S Γ t T`: `Γ` types the de Bruijn variables, `Sg` gives every operator — primitive or
  composite — its declared type, `S` types the sources; rules var, src, op, app, lam and subsumption
  (`t : T`, `Sub L T T'` ⇒ `t : T'`). So "`t` has the type `T` or a more specific one" is exactly `HasType … t T`.
* `DefsTyped L Sg S defs`: for every definition that can be used, `λ…λ. body` is a closed term of the
  operator's declared type (the body's own type may be more specific than the declared one).
* `Le L s t` is `s = t ∨ Sub L s t` ("the same or more specific"); on well-formed types it is `Sub L s t`.

**Scope: monomorphic instances.** Every operator has one concrete type here; the library's signatures have
type variables (`compose : (b → c) → (a → b) → a → c`). A signature entry of this file is one instance of such a
schema. Polymorphism (instantiation, unification, subtype constraints) is C03–C07 and is out of scope.

What is proved (all for an arbitrary well-formed language `WF L`, no well-formedness of the types needed for
sections 1–3; no hypothesis on the order or acyclicity of the definitions):

1. `C15t_weaken`, `C15t_subst`, `C15t_subst_at`, `C15t_subst_model`: weakening and the substitution lemma, for
   the model's `LTerm.beta` and `LTerm.subst`.
2. `C15t_fn_sub`, `C15t_gen_app`, `C15t_gen_lam`, `C15t_gen_op`: `Function` is contravariant/covariant and nothing
   else is between function types; generation lemmas for the system with subsumption.
3. `C15t_beta`, `C15t_red`, `C15t_reduction`, `C15t_unfold_step`, `C15t_unfold`, `C15t_nf`,
   `C15t_primitive_preserves`: a beta step, any beta reduction sequence, a definition unfolding, `unfoldDefs`,
   `nf` and `primitiveL` keep every type of the term. `C15t_preserves_fails_untyped_def`: not without
   `DefsTyped`. `C15t_no_subject_expansion`: the converse fails — the expansion can be typable when the
   expression is not.
4. Minimal types: `C15t_minimal` (whenever both minimal types exist, the expansion's is the same or more
   specific), `C15t_minimal_unique`; `mintype`, a bottom-up computation with the library's subtype test, IS the
   minimal type on the applicative fragment — terms without anonymous function (`C15t_mintype_sound`,
   `C15t_mintype_least`, `C15t_mintype_decides`) — and goes down along `primitiveL` (`C15t_minimal_computed`).
   Terms with an anonymous function have no minimal type in general: `C15t_lam_no_minimal` (the parameter type
   of `λx. x` is not written in the term). Principal types for them need type variables, i.e. the polymorphic
   system, which is out of scope here.
-/
namespace Tfv.C15
open Tfv Tfv.LamSpec Tfv.LamTyped Tfv.C15P

/-! ## 1. weakening and substitution -/

/-- Weakening: a term typed in `Γ` is typed in any longer context `Γ ++ Δ` (the new variables are the
outermost ones, the term does not change); a closed typed term is typed everywhere. -/
theorem C15t_weaken (L : Lang) (Sg : String → Option Ty) (S : Nat → Option Ty) (Γ Δ : List Ty) (t : LTerm) (T : Ty)
    (h : HasType L Sg S Γ t T) : HasType L Sg S (Γ ++ Δ) t T :=
  weaken_append h Δ

example : HasType tL tSg tS ([] ++ [tNom]) (lamN 1 (.app (.op "r") (.var 0))) (fn tRatio tVal) :=
  C15t_weaken _ _ _ _ _ _ _ conv_typed

/-- Substitution lemma for the model's beta step: if the body `b` has the type `B` when its parameter has
the type `A`, and `x` has the type `A`, then `LTerm.beta b x` (`b` with `x` for the parameter) has the type `B`. -/
theorem C15t_subst (L : Lang) (Sg : String → Option Ty) (S : Nat → Option Ty) (Γ : List Ty) (b x : LTerm) (A B : Ty)
    (hb : HasType L Sg S (A :: Γ) b B) (hx : HasType L Sg S Γ x A) :
    HasType L Sg S Γ (LTerm.beta b x) B :=
  beta_typed hb hx

example : HasType tL tSg tS [tRatio] (.app (.op "r") (.var 0)) tRatio ∧ HasType tL tSg tS [] (.src 0) tRatio ∧
    LTerm.beta (.app (.op "r") (.var 0)) (.src 0) = .app (.op "r") (.src 0) :=
  ⟨HasType.app (A := tOrd) (HasType.op rfl) (HasType.sub (HasType.var rfl) ratio_ord), HasType.src rfl, by decide⟩

/-- The same at any depth: substituting a term of type `U` for the variable number `|Γ₁|` (single-pass
substitution `lsub`, which the model's `LTerm.beta` equals by `C15_beta_is_substitution`). -/
theorem C15t_subst_at (L : Lang) (Sg : String → Option Ty) (S : Nat → Option Ty) (Γ₁ Γ₂ : List Ty) (U T : Ty)
    (t s : LTerm) (ht : HasType L Sg S (Γ₁ ++ U :: Γ₂) t T) (hs : HasType L Sg S (Γ₁ ++ Γ₂) s U) :
    HasType L Sg S (Γ₁ ++ Γ₂) (lsub t s Γ₁.length) T :=
  lsub_typed ht Γ₁ Γ₂ U s rfl hs

example : HasType tL tSg tS ([tNom] ++ tRatio :: []) (.app (.op "r") (.var 1)) tRatio ∧
    HasType tL tSg tS ([tNom] ++ []) (.src 0) tRatio ∧
    lsub (.app (.op "r") (.var 1)) (.src 0) [tNom].length = .app (.op "r") (.src 0) :=
  ⟨HasType.app (A := tOrd) (HasType.op rfl) (HasType.sub (HasType.var rfl) ratio_ord), HasType.src rfl, by decide⟩

/-- The same for the model's `LTerm.subst j s t`, which leaves the index `j` in scope: replacing a variable
by a term of the variable's type keeps the type. -/
theorem C15t_subst_model (L : Lang) (Sg : String → Option Ty) (S : Nat → Option Ty) (Γ : List Ty) (j : Nat) (U T : Ty)
    (t s : LTerm) (ht : HasType L Sg S Γ t T) (hj : Γ[j]? = some U) (hs : HasType L Sg S Γ s U) :
    HasType L Sg S Γ (LTerm.subst j s t) T :=
  subst_typed ht j U s hj hs

example : HasType tL tSg tS [tRatio, tOrd] (.lam (.app (.op "r") (.var 2))) (fn tNom tRatio) ∧
    LTerm.subst 1 (.var 0) (.lam (.app (.op "r") (.var 2))) = .lam (.app (.op "r") (.var 1)) :=
  ⟨HasType.lam (HasType.app (A := tOrd) (HasType.op rfl) (HasType.var rfl)), by decide⟩

/-! ## 2. function types, generation -/

/-- Between function types the declared order is exactly: larger domain, smaller codomain. -/
theorem C15t_fn_sub (L : Lang) (wf : WF L) (A B A' B' : Ty) :
    Sub L (fn A B) (fn A' B') ↔ (Sub L A' A ∧ Sub L B B') :=
  ⟨sub_fn_inv wf, fun h => sub_fn wf h.1 h.2⟩

example : Sub tL (fn tOrd tRatio) (fn tRatio tVal) := (C15t_fn_sub tL tL_wf _ _ _ _).mpr ⟨ratio_ord, ratio_val⟩

/-- Generation for applications: whatever type `f x` has, `f` has a function type whose domain is a type
of `x` and whose codomain is the same as or more specific than the type of `f x`. -/
theorem C15t_gen_app (L : Lang) (wf : WF L) (Sg : String → Option Ty) (S : Nat → Option Ty) (Γ : List Ty)
    (f x : LTerm) (T : Ty) (h : HasType L Sg S Γ (.app f x) T) :
    ∃ A B, HasType L Sg S Γ f (fn A B) ∧ HasType L Sg S Γ x A ∧ Le L B T :=
  inv_app wf h

example : HasType tL tSg tS [] (.app (.lam (.app (.op "r") (.var 0))) (.src 0)) tVal :=
  HasType.app (A := tRatio) conv_typed (HasType.src rfl)

/-- Generation for anonymous functions: whatever type `λ. b` has, it is the same as or above some `A → B` with
`b : B` under the parameter type `A`. -/
theorem C15t_gen_lam (L : Lang) (wf : WF L) (Sg : String → Option Ty) (S : Nat → Option Ty) (Γ : List Ty)
    (b : LTerm) (T : Ty) (h : HasType L Sg S Γ (.lam b) T) :
    ∃ A B, HasType L Sg S (A :: Γ) b B ∧ Le L (fn A B) T :=
  inv_lam wf h

example : HasType tL tSg tS [] (.lam (.app (.op "r") (.var 0))) (fn tRatio tVal) := conv_typed

/-- Generation for operators: an operator has exactly its declared type and the supertypes of it. -/
theorem C15t_gen_op (L : Lang) (wf : WF L) (Sg : String → Option Ty) (S : Nat → Option Ty) (Γ : List Ty)
    (name : String) (T : Ty) :
    HasType L Sg S Γ (.op name) T ↔ ∃ T₀, Sg name = some T₀ ∧ Le L T₀ T :=
  ⟨inv_op wf, fun ⟨_, h0, hle⟩ => (HasType.op h0).le hle⟩

example : HasType tL tSg tS [] (.op "r") (fn tRatio tVal) :=
  (C15t_gen_op tL tL_wf _ _ _ _ _).mpr ⟨_, rfl, Or.inr (sub_fn tL_wf ratio_ord ratio_val)⟩

/-! ## 3. subject reduction -/

/-- One beta step at the root keeps every type: if `(λ. b) x` has the type `T`, so has `LTerm.beta b x`. -/
theorem C15t_beta (L : Lang) (wf : WF L) (Sg : String → Option Ty) (S : Nat → Option Ty) (Γ : List Ty) (b x : LTerm)
    (T : Ty) (h : HasType L Sg S Γ (.app (.lam b) x) T) : HasType L Sg S Γ (LTerm.beta b x) T :=
  beta_preserves wf h

example : HasType tL tSg tS [] (.app (.lam (.app (.op "r") (.var 0))) (.src 0)) tVal :=
  HasType.app (A := tRatio) conv_typed (HasType.src rfl)

/-- One beta step anywhere in the term keeps every type. -/
theorem C15t_red (L : Lang) (wf : WF L) (Sg : String → Option Ty) (S : Nat → Option Ty) (Γ : List Ty) (t t' : LTerm)
    (T : Ty) (hr : Red t t') (h : HasType L Sg S Γ t T) : HasType L Sg S Γ t' T :=
  red_preserves wf hr h

example : Red (.app (.lam (.app (.op "r") (.var 0))) (.src 0)) (.app (.op "r") (.src 0)) ∧
    HasType tL tSg tS [] (.app (.lam (.app (.op "r") (.var 0))) (.src 0)) tVal :=
  ⟨Red.beta _ _, HasType.app (A := tRatio) conv_typed (HasType.src rfl)⟩

/-- Any beta reduction sequence keeps every type. -/
theorem C15t_reduction (L : Lang) (wf : WF L) (Sg : String → Option Ty) (S : Nat → Option Ty) (Γ : List Ty)
    (t t' : LTerm) (T : Ty) (hr : RedStar t t') (h : HasType L Sg S Γ t T) : HasType L Sg S Γ t' T :=
  redStar_preserves wf hr h

example : RedStar tUnfolded tResult ∧ HasType tL tSg tS [] tUnfolded tVal :=
  ⟨nf_sound 8 _ _ tNf, tUnfolded_typed⟩

/-- Replacing one composite operator by the anonymous function built from its definition keeps every type,
provided the definitions are typed at (a subtype of) their declared types. -/
theorem C15t_unfold_step (L : Lang) (wf : WF L) (Sg : String → Option Ty) (S : Nat → Option Ty) (defs : List LDef)
    (hd : DefsTyped L Sg S defs) (Γ : List Ty) (t t' : LTerm) (T : Ty) (hr : Delta defs t t')
    (h : HasType L Sg S Γ t T) : HasType L Sg S Γ t' T :=
  delta_preserves wf hd hr h

example : DefsTyped tL tSg tS tDefs ∧ Delta tDefs (.op "conv") (lamN 1 (.app (.op "r") (.var 0))) ∧
    HasType tL tSg tS [] (.op "conv") (fn tRatio tVal) :=
  ⟨tDefs_typed, Delta.unfold (d := ⟨"conv", 1, .app (.op "r") (.var 0)⟩) (by simp [tDefs]), HasType.op rfl⟩

/-- `unfoldDefs` (replace every composite operator, with any fuel) keeps every type. -/
theorem C15t_unfold (L : Lang) (wf : WF L) (Sg : String → Option Ty) (S : Nat → Option Ty) (defs : List LDef)
    (hd : DefsTyped L Sg S defs) (n : Nat) (Γ : List Ty) (t : LTerm) (T : Ty) (h : HasType L Sg S Γ t T) :
    HasType L Sg S Γ (unfoldDefs defs n t) T :=
  unfold_preserves wf hd n h

example : DefsTyped tL tSg tS tDefs ∧ HasType tL tSg tS [] tTerm tVal ∧
    unfoldDefs tDefs (tDefs.length + 1) tTerm = tUnfolded :=
  ⟨tDefs_typed, tTerm_typed, tUnfold⟩

/-- `DefsTyped` holds as soon as every definition of the list is typed at its declared type. -/
theorem C15t_defsTyped_of_forall (L : Lang) (Sg : String → Option Ty) (S : Nat → Option Ty) (defs : List LDef)
    (h : ∀ d, d ∈ defs → ∃ T, Sg d.name = some T ∧ HasType L Sg S [] (lamN d.arity d.body) T) :
    DefsTyped L Sg S defs :=
  defsTyped_of_forall h

/-- A successful run of the normaliser keeps every type of its input. -/
theorem C15t_nf (L : Lang) (wf : WF L) (Sg : String → Option Ty) (S : Nat → Option Ty) (n : Nat) (Γ : List Ty)
    (t r : LTerm) (T : Ty) (hn : nf n t = some r) (h : HasType L Sg S Γ t T) : HasType L Sg S Γ r T :=
  nf_preserves wf hn h

example : nf 8 tUnfolded = some tResult ∧ HasType tL tSg tS [] tUnfolded tVal := ⟨tNf, tUnfolded_typed⟩

/-- C15, type-preservation clause: if the definitions are typed at (a subtype of) their declared types, the
closed expression `t` has the type `T` and `primitiveL` succeeds on it, then the expansion has the type `T`
as well — that is, under subsumption, the same or a more specific type. -/
theorem C15t_primitive_preserves (L : Lang) (wf : WF L) (Sg : String → Option Ty) (S : Nat → Option Ty)
    (defs : List LDef) (hd : DefsTyped L Sg S defs) (fuel : Nat) (t r : LTerm) (T : Ty)
    (ht : HasType L Sg S [] t T) (h : primitiveL defs fuel t = some r) : HasType L Sg S [] r T :=
  primitive_preserves wf hd h ht

example : WF tL ∧ DefsTyped tL tSg tS tDefs ∧ HasType tL tSg tS [] tTerm tVal ∧
    primitiveL tDefs 8 tTerm = some tResult :=
  ⟨tL_wf, tDefs_typed, tTerm_typed, tPrim⟩
example : HasType tL tSg tS [] tTerm3 tOrd ∧ primitiveL tDefs 8 tTerm3 = some tResult3 :=
  ⟨tTerm3_typed, tPrim3⟩

/-- The same for open terms, in any context. -/
theorem C15t_primitive_preserves_open (L : Lang) (wf : WF L) (Sg : String → Option Ty) (S : Nat → Option Ty)
    (defs : List LDef) (hd : DefsTyped L Sg S defs) (fuel : Nat) (Γ : List Ty) (t r : LTerm) (T : Ty)
    (ht : HasType L Sg S Γ t T) (h : primitiveL defs fuel t = some r) : HasType L Sg S Γ r T :=
  primitive_preserves wf hd h ht

/-- The hypothesis on the definitions cannot be dropped: with `conv := λx. r x` declared `Ratio → Nom` although
`r` returns a `Ratio`, `conv s0` has the type `Nom` and its expansion `r s0` has not. -/
theorem C15t_preserves_fails_untyped_def :
    HasType tL tSgBad tS [] tTermBad tNom ∧ primitiveL tDefsBad 4 tTermBad = some tResultBad ∧
    ¬ HasType tL tSgBad tS [] tResultBad tNom :=
  ⟨tBad_typed, tBad_prim, tBad_result_untyped⟩

/-- Typing is not preserved backwards: with `K0 := λx. s0` declared `Ratio → Ratio`, the expression `K0 s2`
(`s2 : Nom`) has no type at all, its expansion `s0` has the type `Ratio`. -/
theorem C15t_no_subject_expansion :
    DefsTyped tL tSgK tS tDefsK ∧ primitiveL tDefsK 3 tTermK = some (.src 0) ∧
    (¬ ∃ T, HasType tL tSgK tS [] tTermK T) ∧ HasType tL tSgK tS [] (.src 0) tRatio :=
  ⟨tDefsK_typed, tK_prim, tK_untyped, tK_result_typed⟩

/-! ## 4. minimal types -/

/-- Whenever the expression and its expansion both have a minimal type, the expansion's is the same as or
more specific than the expression's. (Any terms, with or without anonymous functions.) -/
theorem C15t_minimal (L : Lang) (wf : WF L) (Sg : String → Option Ty) (S : Nat → Option Ty) (defs : List LDef)
    (hd : DefsTyped L Sg S defs) (fuel : Nat) (Γ : List Ty) (t r : LTerm) (Mt Mr : Ty)
    (h : primitiveL defs fuel t = some r) (ht : IsMinType L Sg S Γ t Mt) (hr : IsMinType L Sg S Γ r Mr) :
    Le L Mr Mt :=
  primitive_minimal wf hd h ht hr

example : primitiveL tDefs 8 tTerm = some tResult ∧ IsMinType tL tSg tS [] tTerm tVal ∧
    IsMinType tL tSg tS [] tResult tRatio :=
  ⟨tPrim, mintype_isMin tL_wf tSg_wf tS_wf nil_wf tTerm_min, mintype_isMin tL_wf tSg_wf tS_wf nil_wf tResult_min⟩

/-- A term has at most one minimal type. -/
theorem C15t_minimal_unique (L : Lang) (wf : WF L) (Sg : String → Option Ty) (S : Nat → Option Ty) (Γ : List Ty)
    (t : LTerm) (M M' : Ty) (h : IsMinType L Sg S Γ t M) (h' : IsMinType L Sg S Γ t M') : M = M' :=
  isMinType_unique wf h h'

/-- On the applicative fragment `mintype` returns a well-formed type of the term … -/
theorem C15t_mintype_sound (L : Lang) (wf : WF L) (Sg : String → Option Ty) (S : Nat → Option Ty) (Γ : List Ty)
    (hSg : WfMap L Sg) (hS : WfMap L S) (hΓ : WfCtx L Γ) (t : LTerm) (M : Ty)
    (h : mintype L Sg S Γ t = some M) : HasType L Sg S Γ t M ∧ wfTy L M = true ∧ lamFree t = true :=
  ⟨mintype_sound wf hSg hS hΓ t h, mintype_wf wf hSg hS hΓ t h, mintype_lamFree t h⟩

/-- … which is its minimal type. -/
theorem C15t_mintype_least (L : Lang) (wf : WF L) (Sg : String → Option Ty) (S : Nat → Option Ty) (Γ : List Ty)
    (hSg : WfMap L Sg) (hS : WfMap L S) (hΓ : WfCtx L Γ) (t : LTerm) (M : Ty)
    (h : mintype L Sg S Γ t = some M) : IsMinType L Sg S Γ t M :=
  mintype_isMin wf hSg hS hΓ h

example : WfMap tL tSg ∧ WfMap tL tS ∧ WfCtx tL [] ∧ mintype tL tSg tS [] tTerm = some tVal :=
  ⟨tSg_wf, tS_wf, nil_wf, tTerm_min⟩

/-- A term without anonymous function is typable exactly when `mintype` succeeds on it. -/
theorem C15t_mintype_decides (L : Lang) (wf : WF L) (Sg : String → Option Ty) (S : Nat → Option Ty) (Γ : List Ty)
    (hSg : WfMap L Sg) (hS : WfMap L S) (hΓ : WfCtx L Γ) (t : LTerm) (hl : lamFree t = true) :
    (∃ T, HasType L Sg S Γ t T) ↔ ∃ M, mintype L Sg S Γ t = some M :=
  mintype_complete wf hSg hS hΓ hl

example : lamFree tTerm = true ∧ lamFree tTermK = true ∧ mintype tL tSgK tS [] tTermK = none :=
  ⟨by decide, by decide, rfl⟩

/-- `mintype r ≤ mintype t`: if `mintype` succeeds on the expression and the expansion contains no anonymous
function, then `mintype` succeeds on the expansion and returns a subtype of the expression's minimal type. -/
theorem C15t_minimal_computed (L : Lang) (wf : WF L) (Sg : String → Option Ty) (S : Nat → Option Ty)
    (hSg : WfMap L Sg) (hS : WfMap L S) (Γ : List Ty) (hΓ : WfCtx L Γ) (defs : List LDef)
    (hd : DefsTyped L Sg S defs) (fuel : Nat) (t r : LTerm) (Mt : Ty)
    (h : primitiveL defs fuel t = some r) (ht : mintype L Sg S Γ t = some Mt) (hl : lamFree r = true) :
    ∃ Mr, mintype L Sg S Γ r = some Mr ∧ Sub L Mr Mt :=
  primitive_mintype wf hSg hS hΓ hd h ht hl

/-- a run where the expansion's minimal type is STRICTLY more specific than the expression's: `conv` is
declared `Ratio → Val`, its body returns a `Ratio`; `conv (compose r g s0) : Val`, `r (r (g s0)) : Ratio` -/
example : primitiveL tDefs 8 tTerm = some tResult ∧ lamFree tResult = true ∧
    mintype tL tSg tS [] tTerm = some tVal ∧ mintype tL tSg tS [] tResult = some tRatio ∧
    Sub tL tRatio tVal ∧ ¬ Le tL tVal tRatio :=
  ⟨tPrim, by decide, tTerm_min, tResult_min, tStrict.1, tStrict.2⟩

/-- the same without a widened declaration — an argument was passed at a supertype: `norm s1 : Val` with
`norm := λx. twice g x`, `twice : (Val → Val) → Val → Val`, `g : Val → Ord`; the expansion `g (g s1) : Ord` -/
example : primitiveL tDefs 8 tTerm2 = some tResult2 ∧
    mintype tL tSg tS [] tTerm2 = some tVal ∧ mintype tL tSg tS [] tResult2 = some tOrd ∧
    Sub tL tOrd tVal ∧ ¬ Le tL tVal tOrd :=
  ⟨tPrim2, tTerm2_min, tResult2_min, tStrict2.1, tStrict2.2⟩

/-- a run where the type stays the same: `flip h s0 s1` and `h s1 s0`, both `Ord` -/
example : primitiveL tDefs 8 tTerm3 = some tResult3 ∧
    mintype tL tSg tS [] tTerm3 = some tOrd ∧ mintype tL tSg tS [] tResult3 = some tOrd :=
  ⟨tPrim3, tTerm3_min, tResult3_min⟩

/-- Anonymous functions have no minimal type in general: as soon as some type `P` is not below some type `Q`,
`λx. x` — which has the types `P → P` and `Q → Q` — has no type that is below all its types. (The parameter
type is not part of the term; principal types need type variables.) -/
theorem C15t_lam_no_minimal (L : Lang) (wf : WF L) (Sg : String → Option Ty) (S : Nat → Option Ty) (Γ : List Ty)
    (P Q : Ty) (hPQ : ¬ Le L P Q) : ¬ ∃ M, IsMinType L Sg S Γ (.lam (.var 0)) M :=
  lamId_no_minimal wf hPQ

example : ¬ Le tL tVal tRatio := tStrict.2

end Tfv.C15
