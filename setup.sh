#!/bin/sh
# MANIFEST.setup_cmd: build the framework from files on disk only (offline).
set -e
HERE="$(cd "$(dirname "$0")" && pwd)"
cd "$HERE"
/venv/bin/python harness/gen_constants.py > /dev/null
cd lean
lake build Tfv tfv-driver tfv-inv
