import Tfv.Proofs.FitsGen3
import Tfv.Proofs.InferConstrMain
import Tfv.Proofs.SchedKernel
import Tfv.Proofs.SchedId
import Tfv.Proofs.GraphMemo
/-!
# C06 beyond linear alternatives, part 4: whole runs (instantiate a signature, apply it to an argument)

`match3` / `occurs` are compiled by well-founded recursion; the runs go through the structurally recursive copy
of the engine (`instantiateP`, `applyTP` over `match3K`, `occursK`, Proofs/SchedKernel.lean) with the identity
schedule, which is the plain engine (`run_eq_runP`), and are evaluated by the kernel.

Language `FitsEx.exL`: `A`(5) `> B`(6), unary `F`(7), binary `G`(8), unrelated base type `C`(9), `**` is operator 4.
-/
namespace Tfv.FitsRun
open Tfv Tfv.FitsEx Tfv.C18P

/-- instantiate the signature `s` in the empty store and apply the instance to `x` -/
def run (L : Lang) (fuel : Nat) (s : Schema) (x : Term) : Except Err (Store × Term) :=
  match instantiate L fuel {} s with
  | .error e => .error e
  | .ok (σ, f) => applyT L fuel σ f x

def runP (L : Lang) (fuel : Nat) (s : Schema) (x : Term) : Except Err (Store × Term) :=
  match instantiateP L (fun cs => cs) (match3K L) (occursK L) fuel {} s with
  | .error e => .error e
  | .ok (σ, f) => applyTP L (fun cs => cs) (match3K L) (occursK L) fuel σ f x true

theorem run_eq_runP (L : Lang) (fuel : Nat) (s : Schema) (x : Term) : run L fuel s x = runP L fuel s x := by
  unfold run runP
  rw [← match3K_funext, ← occursK_funext, instantiateP_eq, instantiateS_id (fun _ => rfl)]
  cases instantiate L fuel {} s with
  | error e => rfl
  | ok p =>
    obtain ⟨σ, f⟩ := p
    simp only []
    rw [applyTP_eq, applyTS_id (fun _ => rfl)]

/-- a successful result satisfying a test -/
def okWith (r : Except Err (Store × Term)) (f : Store → Term → Bool) : Bool :=
  match r with
  | .ok (σ, t) => f σ t
  | .error _ => false

theorem okWith_iff {r : Except Err (Store × Term)} {f : Store → Term → Bool} :
    okWith r f = true ↔ ∃ σ t, r = .ok (σ, t) ∧ f σ t = true := by
  unfold okWith
  split
  · next σ t =>
    constructor
    · intro h; exact ⟨σ, t, rfl, h⟩
    · rintro ⟨σ', t', e, h⟩
      cases e; exact h
  · constructor
    · intro h; cases h
    · rintro ⟨_, _, e, _⟩
      cases e

def errIs (r : Except Err (Store × Term)) (e : Err) : Bool :=
  match r with
  | .ok _ => false
  | .error e' => e' == e

theorem errIs_iff {r : Except Err (Store × Term)} {e : Err} : errIs r e = true ↔ r = .error e := by
  unfold errIs
  split
  · constructor
    · intro h; cases h
    · intro h; cases h
  · next e' =>
    constructor
    · intro h; rw [beq_iff_eq.mp h]
    · intro h; cases h; exact beq_self_eq_true _

/-- the elimination constraint `c` of the store has this reference, these alternatives and this flag -/
def elimIs (σ : Store) (c : Nat) (ref : Term) (alts : List Term) (ful : Bool) : Bool :=
  match getConstr σ c with
  | .elim r a f => Term.beq r ref && Term.beqL a alts && f == ful
  | _ => false

theorem elimIs_iff {σ : Store} {c : Nat} {ref : Term} {alts : List Term} {ful : Bool} :
    elimIs σ c ref alts ful = true ↔ getConstr σ c = .elim ref alts ful := by
  unfold elimIs
  split
  · next r a f he =>
    rw [he, Bool.and_eq_true, Bool.and_eq_true, term_beq_iff, term_beqL_iff, beq_iff_eq]
    constructor
    · rintro ⟨⟨h1, h2⟩, h3⟩
      rw [h1, h2, h3]
    · intro h
      injection h with h1 h2 h3
      exact ⟨⟨h1, h2⟩, h3⟩
  · next hne =>
    constructor
    · intro h; cases h
    · intro h; exact absurd h (hne _ _ _)

/-- the variable is bound to this term -/
def boundIs (σ : Store) (v : Nat) (t : Term) : Bool :=
  match (getVar σ v).bound with
  | some t' => Term.beq t' t
  | none => false

theorem boundIs_iff {σ : Store} {v : Nat} {t : Term} : boundIs σ v t = true ↔ (getVar σ v).bound = some t := by
  unfold boundIs
  split
  · next t' he =>
    rw [he, term_beq_iff]
    constructor
    · intro h; rw [h]
    · intro h; injection h
  · next he =>
    rw [he]
    constructor
    · intro h; cases h
    · intro h; cases h

def A : Term := .app 5 []
def B : Term := .app 6 []
def C : Term := .app 9 []
def F (t : Term) : Term := .app 7 [t]
def G (s t : Term) : Term := .app 8 [s, t]
def fn (s t : Term) : Term := .app 4 [s, t]

/-- the concrete type `A ** C` -/
def tAC : Ty := .app 4 [.app 5 [], .app 9 []]
/-- the concrete type `G(A, C)` -/
def tGAC : Ty := .app 8 [.app 5 [], .app 9 []]

/-! ## 1. accepted although no alternative fits -/

/-- `a ** G(b, c) [a << {b ** b, c ** c}]` (variables `a, b, c` are 0, 1, 2) -/
def sTwoBad : Schema :=
  ⟨3, 0, fn (.var 0) (G (.var 1) (.var 2)), [.elim (.var 0) [fn (.var 1) (.var 1), fn (.var 2) (.var 2)]]⟩

theorem not_fits_bb : ¬ Fits exL tAC (fn (.var 1) (.var 1)) := fun h =>
  absurd (fitsX_of_fits exL_wf _ _ (by decide) (by decide) h) (by decide)

theorem not_fits_cc : ¬ Fits exL tAC (fn (.var 2) (.var 2)) := fun h =>
  absurd (fitsX_of_fits exL_wf _ _ (by decide) (by decide) h) (by decide)

/-- applied to `A ** C` the signature is ACCEPTED: result `G(b, c)` with `b`, `c` unresolved, the constraint
pending with both alternatives, although `A ** C` fits neither of them -/
theorem run_accept_no_fit :
    ∃ σ, run exL 40 sTwoBad tAC.toTerm = .ok (σ, G (.var 1) (.var 2)) ∧
      getConstr σ 0 = .elim tAC.toTerm [fn (.var 1) (.var 1), fn (.var 2) (.var 2)] false ∧
      (getVar σ 1).bound.isNone = true ∧ (getVar σ 2).bound.isNone = true := by
  have h : okWith (run exL 40 sTwoBad tAC.toTerm) (fun σ r =>
      Term.beq r (G (.var 1) (.var 2)) &&
      elimIs σ 0 tAC.toTerm [fn (.var 1) (.var 1), fn (.var 2) (.var 2)] false &&
      (getVar σ 1).bound.isNone && (getVar σ 2).bound.isNone) = true := by
    rw [run_eq_runP]; decide +kernel
  obtain ⟨σ, r, e, hf⟩ := okWith_iff.mp h
  simp only [Bool.and_eq_true, term_beq_iff, elimIs_iff] at hf
  obtain ⟨⟨⟨h1, h2⟩, h3⟩, h4⟩ := hf
  exact ⟨σ, by rw [e, h1], h2, h3, h4⟩

/-- the matcher answers "not enough information" on both alternatives (so the filter keeps them) -/
theorem match3_none_bb :
    match3 exL {vars := [{}, {}, {}]} 76 true true tAC.toTerm (fn (.var 1) (.var 1)) = none ∧
    match3 exL {vars := [{}, {}, {}]} 76 true true tAC.toTerm (fn (.var 2) (.var 2)) = none := by
  rw [match3K_funext]; decide +kernel

/-! ## 2. a non-fitting alternative as the only survivor: rejected, but by `unify`, not by the constraint -/

/-- `a ** b [a << {b ** b, F(b)}]` -/
def sOneBad : Schema := ⟨2, 0, fn (.var 0) (.var 1), [.elim (.var 0) [fn (.var 1) (.var 1), F (.var 1)]]⟩

/-- applied to `A ** C`: `F(b)` is eliminated, `b ** b` is kept although `A ** C` does not fit it; `fulfill` then
unifies `A ** C` with `b ** b`, which fails: the application is rejected with `subtypeMismatch`
(a constraint that eliminates every alternative raises `constraintViolation`) -/
theorem run_sole_survivor_mismatch : run exL 40 sOneBad tAC.toTerm = .error .subtypeMismatch :=
  errIs_iff.mp (by rw [run_eq_runP]; decide +kernel)

/-- for comparison: `A ** B` fits `b ** b` (`B ≤ b ≤ A`); accepted, `b` is fixed to its lower bound `B` -/
theorem run_sole_survivor_ok :
    ∃ σ, run exL 40 sOneBad (fn A B) = .ok (σ, B) ∧ (getVar σ 1).bound = some B ∧
      getConstr σ 0 = .elim (fn A B) [fn (.var 1) (.var 1)] true := by
  have h : okWith (run exL 40 sOneBad (fn A B)) (fun σ r =>
      Term.beq r B && boundIs σ 1 B && elimIs σ 0 (fn A B) [fn (.var 1) (.var 1)] true) = true := by
    rw [run_eq_runP]; decide +kernel
  obtain ⟨σ, r, e, hf⟩ := okWith_iff.mp h
  simp only [Bool.and_eq_true, term_beq_iff, elimIs_iff, boundIs_iff] at hf
  obtain ⟨⟨h1, h2⟩, h3⟩ := hf
  exact ⟨σ, by rw [e, h1], h2, h3⟩

/-! ## 3. exactly one alternative fits, but a non-fitting one survives too: nothing is determined -/

/-- `a ** c [a << {b ** b, c ** C}]` -/
def sUniqBad : Schema := ⟨3, 0, fn (.var 0) (.var 2), [.elim (.var 0) [fn (.var 1) (.var 1), fn (.var 2) C]]⟩
/-- `a ** c [a << {c ** C}]` -/
def sUniqGood : Schema := ⟨3, 0, fn (.var 0) (.var 2), [.elim (.var 0) [fn (.var 2) C]]⟩

theorem fits_cC : Fits exL tAC (fn (.var 2) C) :=
  (fitsX_iff_fits exL_wf _ _ (by decide) (by decide) (by decide)).mp (by decide)

/-- `A ** C` fits exactly one alternative (`c ** C`, with `c ≤ A`), but the constraint stays pending with both
alternatives and `c` gets no bound … -/
theorem run_unique_fit_pending :
    ∃ σ, run exL 40 sUniqBad tAC.toTerm = .ok (σ, .var 2) ∧
      getConstr σ 0 = .elim tAC.toTerm [fn (.var 1) (.var 1), fn (.var 2) C] false ∧
      (getVar σ 2).bound.isNone = true ∧ (getVar σ 2).upper = none := by
  have h : okWith (run exL 40 sUniqBad tAC.toTerm) (fun σ r =>
      Term.beq r (.var 2) && elimIs σ 0 tAC.toTerm [fn (.var 1) (.var 1), fn (.var 2) C] false &&
      (getVar σ 2).bound.isNone && (getVar σ 2).upper == none) = true := by
    rw [run_eq_runP]; decide +kernel
  obtain ⟨σ, r, e, hf⟩ := okWith_iff.mp h
  simp only [Bool.and_eq_true, term_beq_iff, elimIs_iff, beq_iff_eq] at hf
  obtain ⟨⟨⟨h1, h2⟩, h3⟩, h4⟩ := hf
  exact ⟨σ, by rw [e, h1], h2, h3, h4⟩

/-- … whereas without the non-fitting alternative the constraint is narrowed and `c` gets the upper bound `A` -/
theorem run_unique_fit_narrowed :
    ∃ σ, run exL 40 sUniqGood tAC.toTerm = .ok (σ, .var 2) ∧
      getConstr σ 0 = .elim (.var 0) [fn (.var 2) C] true ∧
      (getVar σ 2).bound.isNone = true ∧ (getVar σ 2).upper = some 5 := by
  have h : okWith (run exL 40 sUniqGood tAC.toTerm) (fun σ r =>
      Term.beq r (.var 2) && elimIs σ 0 (.var 0) [fn (.var 2) C] true &&
      (getVar σ 2).bound.isNone && (getVar σ 2).upper == some 5) = true := by
    rw [run_eq_runP]; decide +kernel
  obtain ⟨σ, r, e, hf⟩ := okWith_iff.mp h
  simp only [Bool.and_eq_true, term_beq_iff, elimIs_iff, beq_iff_eq] at hf
  obtain ⟨⟨⟨h1, h2⟩, h3⟩, h4⟩ := hf
  exact ⟨σ, by rw [e, h1], h2, h3, h4⟩

/-! ## 4. nested alternatives, two variables, a repeated variable of one polarity -/

/-- `a ** b [a << {F(G(b, _)), G(b, b), A}]` (`_` is variable 2) -/
def sNested : Schema :=
  ⟨2, 1, fn (.var 0) (.var 1), [.elim (.var 0) [F (G (.var 1) (.var 2)), G (.var 1) (.var 1), A]]⟩

/-- `F(G(B, C))` fits only `F(G(b, _))`: result `B` -/
theorem run_nested :
    ∃ σ, run exL 40 sNested (F (G B C)) = .ok (σ, B) ∧ (getVar σ 1).bound = some B ∧
      getConstr σ 0 = .elim (F (G B C)) [F (G (.var 1) (.var 2))] true := by
  have h : okWith (run exL 40 sNested (F (G B C))) (fun σ r =>
      Term.beq r B && boundIs σ 1 B && elimIs σ 0 (F (G B C)) [F (G (.var 1) (.var 2))] true) = true := by
    rw [run_eq_runP]; decide +kernel
  obtain ⟨σ, r, e, hf⟩ := okWith_iff.mp h
  simp only [Bool.and_eq_true, term_beq_iff, elimIs_iff, boundIs_iff] at hf
  obtain ⟨⟨h1, h2⟩, h3⟩ := hf
  exact ⟨σ, by rw [e, h1], h2, h3⟩

/-- `G(B, A)` fits only `G(b, b)` (both occurrences by `A`): result `A` -/
theorem run_repeated :
    ∃ σ, run exL 40 sNested (G B A) = .ok (σ, A) ∧ (getVar σ 1).bound = some A ∧
      getConstr σ 0 = .elim (G B A) [G (.var 1) (.var 1)] true := by
  have h : okWith (run exL 40 sNested (G B A)) (fun σ r =>
      Term.beq r A && boundIs σ 1 A && elimIs σ 0 (G B A) [G (.var 1) (.var 1)] true) = true := by
    rw [run_eq_runP]; decide +kernel
  obtain ⟨σ, r, e, hf⟩ := okWith_iff.mp h
  simp only [Bool.and_eq_true, term_beq_iff, elimIs_iff, boundIs_iff] at hf
  obtain ⟨⟨h1, h2⟩, h3⟩ := hf
  exact ⟨σ, by rw [e, h1], h2, h3⟩

/-- `C` fits no alternative: `constraintViolation` -/
theorem run_nested_violation : run exL 40 sNested C = .error .constraintViolation :=
  errIs_iff.mp (by rw [run_eq_runP]; decide +kernel)

theorem fits_Gbb_top : Fits exL tGAC (G (.var 1) (.var 1)) :=
  (fitsB_iff_fits_unipolar exL_wf _ _ (by decide) (by decide) (by decide)).mp (by decide)

/-- `G(A, C)` fits `G(b, b)` declaratively (`b := Top`) and the filter keeps that alternative only, but the engine
has no joins: the second lower bound `C` is not comparable with the first (`A`), `unify` raises `subtypeMismatch` -/
theorem run_top_fit_rejected : run exL 40 sNested tGAC.toTerm = .error .subtypeMismatch :=
  errIs_iff.mp (by rw [run_eq_runP]; decide +kernel)

/-- `a ** G(c, b) [a << {G(b, c), F(b)}]` -/
def sTwoVars : Schema :=
  ⟨3, 0, fn (.var 0) (G (.var 2) (.var 1)), [.elim (.var 0) [G (.var 1) (.var 2), F (.var 1)]]⟩

/-- `G(A, C)` fits only `G(b, c)`: `b := A`, `c := C`, the result `G(c, b)` is `G(C, A)` -/
theorem run_two_vars :
    ∃ σ, run exL 40 sTwoVars tGAC.toTerm = .ok (σ, G (.var 2) (.var 1)) ∧
      (getVar σ 1).bound = some A ∧ (getVar σ 2).bound = some C ∧
      getConstr σ 0 = .elim tGAC.toTerm [G (.var 1) (.var 2)] true := by
  have h : okWith (run exL 40 sTwoVars tGAC.toTerm) (fun σ r =>
      Term.beq r (G (.var 2) (.var 1)) && boundIs σ 1 A && boundIs σ 2 C &&
      elimIs σ 0 tGAC.toTerm [G (.var 1) (.var 2)] true) = true := by
    rw [run_eq_runP]; decide +kernel
  obtain ⟨σ, r, e, hf⟩ := okWith_iff.mp h
  simp only [Bool.and_eq_true, term_beq_iff, elimIs_iff, boundIs_iff] at hf
  obtain ⟨⟨⟨h1, h2⟩, h3⟩, h4⟩ := hf
  exact ⟨σ, by rw [e, h1], h2, h3, h4⟩

/-! ## 5. concrete alternatives with subtyping: the result lies between the argument and the alternative -/

/-- `a ** a [a << {A, C}]` -/
def sBetween : Schema := ⟨1, 0, fn (.var 0) (.var 0), [.elim (.var 0) [A, C]]⟩

/-- applied to `B`: only `A` is above `B`; `a` ends with lower bound `B` and upper bound `A` and is fixed to `B` -/
theorem run_between :
    ∃ σ, run exL 40 sBetween B = .ok (σ, B) ∧ (getVar σ 0).bound = some B ∧
      (getVar σ 0).lower = some 6 ∧ (getVar σ 0).upper = some 5 ∧
      getConstr σ 0 = .elim (.var 0) [A] true := by
  have h : okWith (run exL 40 sBetween B) (fun σ r =>
      Term.beq r B && boundIs σ 0 B && (getVar σ 0).lower == some 6 && (getVar σ 0).upper == some 5 &&
      elimIs σ 0 (.var 0) [A] true) = true := by
    rw [run_eq_runP]; decide +kernel
  obtain ⟨σ, r, e, hf⟩ := okWith_iff.mp h
  simp only [Bool.and_eq_true, term_beq_iff, elimIs_iff, boundIs_iff, beq_iff_eq] at hf
  obtain ⟨⟨⟨⟨h1, h2⟩, h3⟩, h4⟩, h5⟩ := hf
  exact ⟨σ, by rw [e, h1], h2, h3, h4, h5⟩

/-- applied to `Unit`, which is below neither alternative: `constraintViolation` -/
theorem run_between_violation : run exL 40 sBetween (.app 0 []) = .error .constraintViolation :=
  errIs_iff.mp (by rw [run_eq_runP]; decide +kernel)

/-! ## 6. single `fulfill` steps (non-vacuity of the uniqueness and between clauses) -/

instance : DecidableEq Term := fun a b => decidable_of_iff _ (term_beq_iff a b)
deriving instance DecidableEq for VarInfo, Constr, Store

def okEq {α : Type} [DecidableEq α] (r : Except Err α) (a : α) : Bool :=
  match r with
  | .ok b => decide (b = a)
  | .error _ => false

theorem okEq_iff {α : Type} [DecidableEq α] {r : Except Err α} {a : α} : okEq r a = true ↔ r = .ok a := by
  unfold okEq
  split
  · next b =>
    rw [decide_eq_true_iff]
    constructor
    · intro h; rw [h]
    · intro h; injection h
  · constructor
    · intro h; cases h
    · intro h; cases h

theorem fulfill_eq_P (L : Lang) (n : Nat) (σ : Store) (c : Nat) :
    fulfill L n σ c = fulfillP L (fun cs => cs) (match3K L) (occursK L) n σ c := by
  rw [← match3K_funext, ← occursK_funext, (blockP L _ n).fulfill, (blockEq (fun _ => rfl) n).fulfill]

theorem minimize_eq_P (L : Lang) (n : Nat) (σ : Store) (c : Nat) :
    minimize L n σ c = minimizeP L (fun cs => cs) (match3K L) (occursK L) n σ c := by
  rw [← match3K_funext, ← occursK_funext, (blockP L _ n).minimize, (blockEq (fun _ => rfl) n).minimize]

/-- `a` is bound to `G(A, C)`; pending `a << {G(b, c), F(b)}` -/
def σU : Store :=
  { vars := [{ bound := some (G A C) }, {}, {}], csets := [[0], [0], [0]],
    constrs := [.elim (.var 0) [G (.var 1) (.var 2), F (.var 1)] false] }
/-- after `minimize`: the reference followed -/
def σU1 : Store :=
  { vars := [{ bound := some (G A C) }, {}, {}], csets := [[0], [0], [0]],
    constrs := [.elim (G A C) [G (.var 1) (.var 2), F (.var 1)] false] }
/-- after `fulfill`: narrowed to `G(b, c)`, `A ≤ b`, `C ≤ c` -/
def σU' : Store :=
  { vars := [{ bound := some (G A C) }, { lower := some 5 }, { lower := some 9 }], csets := [[], [0], [0]],
    constrs := [.elim (G A C) [G (.var 1) (.var 2)] true] }

theorem exU_minimize : minimize exL 40 σU 0 = .ok σU1 :=
  okEq_iff.mp (by rw [minimize_eq_P]; decide +kernel)

theorem exU_fulfill : fulfill exL 41 σU 0 = .ok (σU', true) :=
  okEq_iff.mp (by rw [fulfill_eq_P]; decide +kernel)

theorem σU_okc : C03C.OkStoreC exL σU := C03C.okStoreCB_sound (by decide)
theorem σU'_okc : C03C.OkStoreC exL σU' := C03C.okStoreCB_sound (by decide)

theorem σU'_sat : Sat exL (C03P.valOf [tGAC, .app 5 [], .app 9 []]) σU' :=
  C03P.satB_sound exL_wf σU'_okc.ok (by decide)

/-- `a` has the lower bound `B`; pending `a << {A, C}` -/
def σB : Store := { vars := [{ lower := some 6 }], csets := [[0]], constrs := [.elim (.var 0) [A, C] false] }
/-- after `fulfill`: narrowed to `A`, `B ≤ a ≤ A` -/
def σB' : Store :=
  { vars := [{ lower := some 6, upper := some 5 }], csets := [[]], constrs := [.elim (.var 0) [A] true] }

theorem exB_minimize : minimize exL 40 σB 0 = .ok σB :=
  okEq_iff.mp (by rw [minimize_eq_P]; decide +kernel)

theorem exB_filter :
    [A, C].filter (fun t => match3 exL σB (matchFuel σB) true true (.var 0) t != some false) =
      [(Ty.app 5 []).toTerm] := by
  rw [match3K_funext]; decide +kernel

theorem exB_fulfill : fulfill exL 41 σB 0 = .ok (σB', true) :=
  okEq_iff.mp (by rw [fulfill_eq_P]; decide +kernel)

theorem σB_okc : C03C.OkStoreC exL σB := C03C.okStoreCB_sound (by decide)
theorem σB'_okc : C03C.OkStoreC exL σB' := C03C.okStoreCB_sound (by decide)

theorem σB'_sat : Sat exL (C03P.valOf [.app 6 []]) σB' :=
  C03P.satB_sound exL_wf σB'_okc.ok (by decide)

end Tfv.FitsRun
