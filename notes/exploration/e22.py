import sys, random, itertools
sys.path.insert(0,'/repo')
from transforge.type import *
from transforge.lang import *
rng=random.Random(int(sys.argv[1]))
def mklang(include):
    n=rng.randint(2,7); bases=[]
    for i in range(n):
        parent=rng.choice(bases) if bases and rng.random()<0.7 else None
        bases.append(TypeOperator(f'B{i}', supertype=parent))
    comps=[]
    for j in range(rng.randint(1,2)):
        ar=rng.randint(1,2)
        comps.append(TypeOperator(f'K{j}', params=[rng.choice([Variance.CO,Variance.CONTRA]) for _ in range(ar)]))
    def rt(d):
        if d==0 or rng.random()<0.5: return rng.choice(bases)()
        k=rng.choice(comps); return k(*[rt(d-1) for _ in range(k.arity)])
    canon=set(rng.choice(bases) for _ in range(rng.randint(1,2)))
    canon|=set(rt(2) for _ in range(rng.randint(1,2)))
    canon|=set(include)
    scope={b.name if False else f'B{i}':b for i,b in enumerate(bases)}
    scope.update({f'K{j}':k for j,k in enumerate(comps)})
    return Language(scope, canon=canon), bases, comps
def check(lang):
    canon=list(lang.canon)
    direct={t:set(lang.subtypes(t)) for t in canon}
    sup={t:set(lang.supertypes(t)) for t in canon}
    bad=0; global uncovered
    def hasTB(x): return 'Top' in str(x) or 'Bottom' in str(x)
    for t in canon:
        seen=set(); st=[t]
        while st:
            c=st.pop()
            for s in direct[c]:
                if s not in seen: seen.add(s); st.append(s)
        for s in canon:
            if bool(s.is_subtype(t,strict=True))!=(s in seen):
                bad+=1
                if not (hasTB(s) or hasTB(t)): uncovered.append((str(s),str(t),s in seen))
    mirror=sum(1 for t in canon for s in direct[t] if t not in sup[s])+sum(1 for s in canon for t in sup[s] if s not in direct[t]); uncovered+=[(str(s),str(t),'mirror') for t in canon for s in direct[t] if t not in sup[s] and not(hasTB(s) or hasTB(t))]+[(str(s),str(t),'mirror2') for s in canon for t in sup[s] if s not in direct[t] and not(hasTB(s) or hasTB(t))]
    # down-closure: every subtype of a canonical type built by one step is canonical
    return bad, mirror, len(canon)
res={}; uncovered=[]
for inc,label in (((),'none'),((Top,),'top'),((Bottom,),'bottom'),((Top,Bottom),'both')):
    tot=[0,0,0,0]
    for it in range(120):
        try:
            lang,_,_=mklang(inc)
            if len(lang.canon)>400: continue
            b,m,n=check(lang)
        except RecursionError: tot[3]+=1; continue
        tot[0]+=1; tot[1]+= (b>0); tot[2]+=(m>0)
    res[label]=tot
print(res); print('uncovered', len(uncovered), uncovered[:8])
