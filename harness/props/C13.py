"""C13 - all surface notations denote the same expression as programmatic construction."""
from __future__ import annotations
import langgen as G
import parsegen as PG

RULE = ("expression trees (depth<=4, 0-3 numbered inputs, anonymous sources, operators) rendered in random mixes of "
        "f(x, y) / f x y / (f x) y, redundant parentheses, blanks, newlines, # comments and in-line annotations `e : T`; "
        "each rendering is parsed by the implementation (structure: unify=False over wildcard-typed operators) and by the model; "
        "oracle: the parsed tree equals the tree that was rendered; typed half: see props/exprgen.typed_cases; "
        "non-trivial = at least two applications; distinct by text")
ASSUMPTIONS = ["operators of the structural language have the wildcard type, so no application fails to type"]
TRUSTED = ["harness/parsegen.py: renderer of trees to text and tree dump of the implementation's Expr objects"]


def napps(e):
    return 0 if e[0] != "app" else 1 + napps(e[1]) + napps(e[2])


def run(ctx):
    rng = ctx.rng
    nlang = 4 if ctx.tier == "quick" else 20
    ntree = 250 if ctx.tier == "quick" else 1200
    for li in range(nlang):
        spec = G.gen_lang(rng, max_base=4, max_ops=2, max_arity=2)
        ops = spec.build()
        lang, aliases = PG.plain_language(spec, ops)
        for l in PG.setup_lines(spec, aliases):
            ctx.setup(l, "ok")
        for k in range(ntree):
            ninputs = rng.randint(0, 3)
            tree = PG.gen_tree(rng, rng.randint(1, 4 if ctx.tier == "quick" else 5), ninputs)
            want = "ok " + PG.tree_expected(tree, [0])
            for rep in range(3):
                text = PG.render_spine(rng, tree, spec)
                if rng.random() < 0.3:
                    text = PG.ws(rng) + text + PG.ws(rng)
                obs, ex = PG.obs_parse_expr(lang, text, ninputs, ops)
                if obs == "E:TypeAnnotationError":
                    ctx.count("skipped_conflicting_annotation")
                    continue
                ctx.case(f"(pexpr {ninputs} {G.str_sexp(text)})", obs, {"lang": spec.to_json(), "text": text, "inputs": ninputs},
                    nontrivial=napps(tree) >= 2, key=text)
                ctx.count("apps_%d" % min(napps(tree), 6))
                got = obs.split(" |")[0]
                if got != want:
                    ctx.fail(f"{text!r} parsed to {got}, rendered from {want}", {"check": "notation"},
                        {"lang": spec.to_json(), "text": text, "inputs": ninputs, "want": want})
    try:
        from props import exprgen
    except Exception:
        return
    exprgen.typed_notation_cases(ctx)


def replay(ctx, payload):
    inp = payload["input"]
    if "text" not in inp or "opdecls" in inp:
        from props import exprgen
        return exprgen.replay_typed(ctx, inp)
    spec = G.LangSpec([(n, v, p) for n, v, p in inp["lang"]])
    ops = spec.build()
    lang, aliases = PG.plain_language(spec, ops)
    obs, ex = PG.obs_parse_expr(lang, inp["text"], inp["inputs"], ops)
    print(repr(inp["text"]), "->", obs, "expected", inp.get("want"))
    return obs.split(" |")[0] == inp.get("want")
