import Tfv.Proofs.FitsApply1
/-!
# C06 end to end, part 2: `fulfill` on concrete alternatives, `instantiate` and `applyT` for `x ** r(x) [x << alts]`
-/
namespace Tfv.C06A
open Tfv Tfv.C03P Tfv.C03C Tfv.C16P Tfv.C17E Tfv.C03R

theorem map_followT_toTermL (σ : Store) : ∀ ts : List Ty, (Ty.toTermL ts).map (followT σ) = Ty.toTermL ts
  | [] => by rw [Ty.toTermL]; rfl
  | t :: ts => by rw [Tfv.toTermL_cons, List.map_cons, followT_toTerm, map_followT_toTermL σ ts]

theorem followT_setConstr (σ : Store) (c : Nat) (x : Constr) (t : Term) : followT (setConstr σ c x) t = followT σ t :=
  fe_setConstr σ c x t

theorem minimize_toTerm (L : Lang) (σ : Store) (n c : Nat) (ref : Term) (ts : List Ty) (ful : Bool)
    (hg : getConstr σ c = .elim ref (Ty.toTermL ts) ful)
    (hd : ∀ t ∈ ts, Ty.depth t < 64) (hn : ts.length + 2 * Ty.sizeL ts + 1 ≤ n) :
    minimize L (n+1) σ c = .ok (setConstr σ c (.elim (followT σ ref) (Ty.toTermL (minz L ts [])) ful)) := by
  rw [minimize, hg]
  simp only []
  have := minLoop_toTerm L σ n ts [] hd (fun _ h => nomatch h) hn
  rw [Ty.toTermL] at this
  rw [this]
  simp only [hg, map_followT_toTermL]

theorem all_app_toTermL (p : Term → Bool) (hp : ∀ o args, p (.app o args) = true) : ∀ ts : List Ty, (Ty.toTermL ts).all p = true
  | [] => by rw [Ty.toTermL]; rfl
  | .app o as :: ts => by rw [Tfv.toTermL_cons, List.all_cons, Tfv.toTerm_app, hp, all_app_toTermL p hp ts]; rfl

theorem matchFuel_setConstr (σ : Store) (c : Nat) (x : Constr) : matchFuel (setConstr σ c x) = matchFuel σ := rfl
theorem getVar_setConstr (σ : Store) (c : Nat) (x : Constr) (v : Nat) : getVar (setConstr σ c x) v = getVar σ v := rfl

theorem fulfill_closed_core (L : Lang) (σ : Store) (n c : Nat) (ref ref' : Term) (ts : List Ty)
    (hg : getConstr σ c = .elim ref (Ty.toTermL ts) false) (hc : c < σ.constrs.length)
    (ha : antichain L ts = true)
    (hd : ∀ t ∈ ts, Ty.depth t < 64) (hn : ts.length + 2 * Ty.sizeL ts + 1 ≤ n)
    (hr : followT σ ref = ref')
    (hnorm : ∀ v, ref' = .var v → (getVar σ v).bound = none) :
    fulfill L (n+2) σ c =
      (match (Ty.toTermL ts).filter (fun t => match3 L (setConstr σ c (.elim ref' (Ty.toTermL ts) false))
          (matchFuel σ) true true ref' t != some false) with
      | [] => .error .constraintViolation
      | [only] =>
        (match unify L (n+1) (setConstr (setConstr σ c (.elim ref' (Ty.toTermL ts) false)) c
            (.elim ref' ((Ty.toTermL ts).filter (fun t => match3 L (setConstr σ c (.elim ref' (Ty.toTermL ts) false))
          (matchFuel σ) true true ref' t != some false)) true)) ref' only true false false with
         | .error e => .error e
         | .ok σ3 => .ok (σ3, true))
      | _ => .ok (setConstr (setConstr σ c (.elim ref' (Ty.toTermL ts) false)) c
            (.elim ref' ((Ty.toTermL ts).filter (fun t => match3 L (setConstr σ c (.elim ref' (Ty.toTermL ts) false))
          (matchFuel σ) true true ref' t != some false)) false), false)) := by
  rw [fulfill, hg]
  simp only []
  rw [minimize_toTerm L σ n c ref ts false hg hd hn, minz_antichain_nil L ts ha, hr]
  simp only [getConstr_setConstr σ c c _ hc, if_true]
  have h2 : ∀ (p : Term → Bool), (∀ o args, p (.app o args) = true) → (Ty.toTermL ts).all p = true :=
    fun p hp => all_app_toTermL p hp ts
  cases ref' with
  | var v =>
    have hv : (getVar (setConstr σ c (Constr.elim (Term.var v) (Ty.toTermL ts) false)) v).bound.isNone = true := by
      rw [getVar_setConstr, hnorm v rfl]; rfl
    refine Eq.trans (if_neg ?_) rfl
    simp only []
    rw [h2 _ (fun _ _ => rfl), hv]
    decide
  | app o args =>
    refine Eq.trans (if_neg ?_) rfl
    simp only []
    rw [h2 _ (fun _ _ => rfl)]
    decide

/-! ## terms over inert stores: `spineFollow` and `fix` do nothing -/

mutual
def tsz : Term → Nat
  | .var _ => 1
  | .app _ args => 1 + tszL args
def tszL : List Term → Nat
  | [] => 0
  | t :: ts => tsz t + tszL ts
end

theorem tsz_pos (t : Term) : 1 ≤ tsz t := by
  cases t <;> rw [tsz] <;> omega

/-- every variable of the store is free (no binding, no bounds) or bound to the concrete type `a` -/
def Inert (σ : Store) (a : Ty) : Prop :=
  ∀ v, ((getVar σ v).bound = none ∧ (getVar σ v).lower = none ∧ (getVar σ v).upper = none) ∨
    (getVar σ v).bound = some a.toTerm

theorem followT_bound_toTerm {σ : Store} {v : Nat} {a : Ty} (h : (getVar σ v).bound = some a.toTerm) :
    followT σ (.var v) = a.toTerm := by
  cases a with
  | app o as =>
    rw [Tfv.toTerm_app] at h ⊢
    unfold followT
    rw [follow]
    simp only [h]
    cases σ.vars.length <;> rw [follow] <;> intros <;> contradiction

theorem fix_fixList_inert (L : Lang) (σ : Store) (a : Ty) (hi : Inert σ a) : ∀ (n : Nat),
    (∀ (t : Term) pl, 2 * (tsz t * Ty.size a) ≤ n →
      fix L n σ t pl = .ok (σ, match t with | .var v => followT σ (.var v) | t => t)) ∧
    (∀ vs (ts : List Term) pl, 2 * (tszL ts * Ty.size a) + 1 ≤ n → fixList L n σ vs ts pl = .ok σ)
  | 0 => by
    refine ⟨?_, ?_⟩
    · intro t pl h
      have h1 := tsz_pos t
      have h2 := size_pos a
      have : 1 ≤ tsz t * Ty.size a := Nat.mul_le_mul h1 h2
      omega
    · intro vs ts pl h; omega
  | n+1 => by
    obtain ⟨ih1, ih2⟩ := fix_fixList_inert L σ a hi n
    have hS := size_pos a
    refine ⟨?_, ?_⟩
    · intro t pl h
      cases t with
      | var v =>
        rw [tsz, Nat.one_mul] at h
        rcases hi v with ⟨hb, hl, hu⟩ | hb
        · unfold fix
          rw [C16P.followT_unbound hb]
          simp only [hl, hu, Option.isSome_none, Bool.and_false, Bool.false_eq_true, if_false]
        · unfold fix
          rw [followT_bound_toTerm hb]
          cases a with
          | app ao as =>
            rw [Ty.size] at h
            rw [Tfv.toTerm_app]
            simp only []
            rw [(fix_fixList_toTerm L n).2 σ _ as pl (by omega), followT_bound_toTerm hb, Tfv.toTerm_app]
      | app o args =>
        rw [tsz, Nat.add_mul, Nat.one_mul] at h
        unfold fix
        rw [Tfv.followT_app]
        simp only []
        rw [ih2 _ args pl (by omega)]
    · intro vs ts pl h
      match vs, ts with
      | [], ts => exact fixList_nil_left L n σ _ pl
      | _ :: _, [] => exact fixList_nil_right L n σ _ pl
      | v :: vs, t :: ts =>
        rw [tszL, Nat.add_mul] at h
        have h1 := tsz_pos t
        have : 1 ≤ tsz t * Ty.size a := Nat.mul_le_mul h1 hS
        rw [fixList_cons, ih1 t _ (by omega)]
        simp only []
        exact ih2 vs ts pl (by omega)

/-! ## instantiating `x ** r(x) [x << alts]` -/

/-- the signature `x ** r(x) [x << {t₁, …, tₙ}]` with concrete alternatives -/
def elimSchema (r : Term) (ts : List Ty) : Schema :=
  { nvars := 1, nwild := 0, body := .app FUN [.var 0, r], constraints := [.elim (.var 0) (Ty.toTermL ts)] }

/-- the store after instantiating `elimSchema` -/
def σ0 (alts : List Term) : Store :=
  { vars := [{ cset := 0 }], csets := [[0]], constrs := [.elim (.var 0) alts false] }

theorem foldl_directVars_closed (σ : Store) (n : Nat) : ∀ (l : List Term) (acc : List Nat), Term.closedL l = true →
    l.foldl (fun acc t => directVars σ n t acc) acc = acc
  | [], _, _ => rfl
  | u :: us, acc, hl => by
    rw [closedL_cons, Bool.and_eq_true] at hl
    rw [List.foldl_cons, directVars_closed σ n u acc hl.1]
    exact foldl_directVars_closed σ n us acc hl.2

theorem varsOfTerms_σ0 (alts : List Term) (x : Constr) (hc : Term.closedL alts = true) :
    varsOfTerms { vars := [{ cset := 0 }], csets := [[]], constrs := [x] } (.var 0 :: alts) = [0] := by
  unfold varsOfTerms
  simp only [List.foldl_cons]
  have e : directVars { vars := [{ cset := 0 }], csets := [[]], constrs := [x] }
      (termFuel { vars := [{ cset := 0 }], csets := [[]], constrs := [x] }) (.var 0) [] = [0] := by
    unfold termFuel
    rw [directVars, C16P.followT_unbound rfl]
    rfl
  rw [e, foldl_directVars_closed _ _ alts [0] hc]
  simp [indirectVars, getCset, getVar]

theorem filter_var_free (L : Lang) (σ : Store) (n v : Nat) (h : VarFree σ v) : ∀ ts : List Ty,
    (Ty.toTermL ts).filter (fun t => match3 L σ (n+1) true true (.var v) t != some false) = Ty.toTermL ts
  | [] => by rw [Ty.toTermL]; rfl
  | .app o as :: ts => by
    rw [Tfv.toTermL_cons, List.filter_cons, filter_var_free L σ n v h ts, Tfv.toTerm_app]
    have := match3_var_app_free L σ n o (Ty.toTermL as) v h
    simp [this]

theorem fulfill_σ0 (L : Lang) (n : Nat) (ts : List Ty) (ha : antichain L ts = true) (h2 : 2 ≤ ts.length)
    (hd : ∀ t ∈ ts, Ty.depth t < 64) (hn : ts.length + 2 * Ty.sizeL ts + 1 ≤ n) :
    fulfill L (n+2) (σ0 (Ty.toTermL ts)) 0 = .ok (σ0 (Ty.toTermL ts), false) := by
  rw [fulfill_closed_core L (σ0 (Ty.toTermL ts)) n 0 (.var 0) (.var 0) ts rfl (Nat.zero_lt_one) ha hd hn
    (C16P.followT_unbound rfl) (fun v e => by cases e; rfl)]
  have hfree : VarFree (setConstr (σ0 (Ty.toTermL ts)) 0 (Constr.elim (Term.var 0) (Ty.toTermL ts) false)) 0 :=
    ⟨rfl, rfl, rfl⟩
  have hf := filter_var_free L _ (matchFuel (σ0 (Ty.toTermL ts)) - 1) 0 hfree ts
  have e : matchFuel (σ0 (Ty.toTermL ts)) - 1 + 1 = matchFuel (σ0 (Ty.toTermL ts)) := rfl
  rw [e] at hf
  rw [hf]
  match ts, h2 with
  | t1 :: t2 :: rest, _ =>
    simp only [Tfv.toTermL_cons]
    rfl

theorem spineFollow_free (σ : Store) (hf : ∀ v, (getVar σ v).bound = none) (t : Term) : spineFollow σ t = t := by
  fun_induction spineFollow σ t with
  | case1 o l r ho ih =>
    rw [ih]
    cases l with
    | var v => simp only [C16P.followT_unbound (hf v)]
    | app _ _ => rfl
  | case2 => rfl
  | case3 v => exact C16P.followT_unbound (hf v)
  | case4 => rfl

theorem σ0_free (alts : List Term) (v : Nat) :
    (getVar (σ0 alts) v).bound = none ∧ (getVar (σ0 alts) v).lower = none ∧ (getVar (σ0 alts) v).upper = none := by
  cases v with
  | zero => exact ⟨rfl, rfl, rfl⟩
  | succ v => exact ⟨rfl, rfl, rfl⟩

theorem instantiate_elimSchema (L : Lang) (n : Nat) (r : Term) (ts : List Ty) (ha : antichain L ts = true)
    (h2 : 2 ≤ ts.length) (hd : ∀ t ∈ ts, Ty.depth t < 64)
    (hn : ts.length + 2 * Ty.sizeL ts + 2 * tsz r + 5 ≤ n) :
    instantiate L (n+2) {} (elimSchema r ts) = .ok (σ0 (Ty.toTermL ts), .app FUN [.var 0, r]) := by
  have hal : allocVars {} 1 0 = { vars := [{ cset := 0 }], csets := [[]], constrs := [] } := rfl
  unfold instantiate
  simp only [elimSchema, hal, addConstraints, List.length_nil, shift_zero, shiftL_zero]
  rw [C16P.followT_unbound rfl]
  unfold addConstraint
  simp only [map_followT_toTermL, constrTerms, List.nil_append, List.length_nil]
  rw [varsOfTerms_σ0 _ _ (closedL_toTermL ts)]
  have e0 : (List.foldl
      (fun σ v => setCset σ (getVar σ v).cset (insertSorted 0 (getCset σ (getVar σ v).cset)))
      { vars := [{ cset := 0 }], csets := [[]], constrs := [Constr.elim (Term.var 0) (Ty.toTermL ts) false] } [0]) =
      σ0 (Ty.toTermL ts) := rfl
  have e1 : (fulfill L (n+2) (σ0 (Ty.toTermL ts)) 0) = .ok (σ0 (Ty.toTermL ts), false) :=
    fulfill_σ0 L n ts ha h2 hd (by omega)
  rw [e0, e1]
  rw [if_neg (by simp [getVar])]
  simp only []
  rw [spineFollow_free _ (fun v => (σ0_free _ v).1)]
  have hin : Inert (σ0 (Ty.toTermL ts)) (.app 0 []) := fun v => Or.inl (σ0_free _ v)
  have hsz : Ty.size (.app 0 []) = 1 := by rw [Ty.size, Ty.sizeL]
  rw [(fix_fixList_inert L _ _ hin (n+2)).1 _ true (by
    rw [hsz, tsz, tszL, tszL, tszL, tsz]; omega)]

end Tfv.C06A
