import Tfv.Model.InferSched
import Tfv.Proofs.InferConstrApply
/-!
# C18 (soundness under every schedule): unfolding equations of the scheduled engine

The scheduled engine (`Tfv/Model/InferSched.lean`) is the mutual block of `Infer.lean` with the extra
parameter `ord`. This file states the unfolding equations the soundness / no-internal-error proofs
use (the counterparts of `bind_var_eq`, `unifyList_cons`, `applyT_eq`, `addConstraint_eq` …) and
defines the scheduled chain of applications and the scheduled use of a schema.
-/
namespace Tfv.C18S
open Tfv Tfv.C03P Tfv.C03C

/-- a schedule only reorders or drops the pending constraints it is given -/
def OrdSub (ord : List Nat → List Nat) : Prop := ∀ l x, x ∈ ord l → x ∈ l

variable {ord : List Nat → List Nat}

theorem bindS_var_eq (L : Lang) (ord : List Nat → List Nat) (n : Nat) (σ : Store) (v tv : Nat) :
    bindS L ord (n+1) σ v (.var tv) =
      if (getVar σ v).bound.isSome then .error (.internal "bind:variable cannot be unified twice")
      else if tv == v then .ok (setVar σ v (clearW σ v))
      else
        match (match (getVar σ v).lower with
               | some l => unifyS L ord n (bindVarStore σ v tv) (.app l []) (.var tv) true false false
               | none => .ok (bindVarStore σ v tv)) with
        | .error e => .error e
        | .ok σ1 =>
          match (match (getVar σ v).upper with
                 | some u => unifyS L ord n σ1 (.var tv) (.app u []) true false false
                 | none => .ok σ1) with
          | .error e => .error e
          | .ok σ2 => checkConstraintsS L ord n σ2 v := by
  rw [bindS]
  rfl

theorem bindS_app_eq (L : Lang) (ord : List Nat → List Nat) (n : Nat) (σ : Store) (v o : Nat)
    (args : List Term) :
    bindS L ord (n+1) σ v (.app o args) =
      if (getVar σ v).bound.isSome then .error (.internal "bind:variable cannot be unified twice")
      else if arityOf L o == 0 then
        if (getVar σ v).lower.any (fun l => opSub L o l true) then .error .subtypeMismatch
        else if (getVar σ v).upper.any (fun u => opSub L u o true) then .error .subtypeMismatch
        else checkConstraintsS L ord n (bindBaseStore σ v (.app o args)) v
      else
        if (getVar σ v).lower.isSome || (getVar σ v).upper.isSome then .error .subtypeMismatch
        else checkConstraintsS L ord n (bindAppStore σ v (.app o args)) v := by
  rw [bindS]
  rfl

theorem unifyListS_cons (L : Lang) (ord : List Nat → List Nat) (n : Nat) (σ : Store) (v : Bool)
    (vs : List Bool) (x y : Term) (xs ys : List Term) (st sb sw : Bool) :
    unifyListS L ord (n+1) σ (v :: vs) (x :: xs) (y :: ys) st sb sw =
      match (if v then unifyS L ord n σ x y st sb sw else unifyS L ord n σ y x st sb sw) with
      | .error e => .error e
      | .ok σ1 => unifyListS L ord n σ1 vs xs ys st sb sw := by
  rw [unifyListS]; rfl

theorem unifyListS_nil (L : Lang) (ord : List Nat → List Nat) (n : Nat) (σ : Store) (st sb sw : Bool) :
    unifyListS L ord (n+1) σ [] [] [] st sb sw = .ok σ := by
  rw [unifyListS]
  intro _ _ _ _ _ _ h; cases h

theorem fixListS_cons (L : Lang) (ord : List Nat → List Nat) (n : Nat) (σ : Store) (v : Bool)
    (vs : List Bool) (p : Term) (ps : List Term) (pl : Bool) :
    fixListS L ord (n+1) σ (v :: vs) (p :: ps) pl =
      match fixS L ord n σ p (if v then pl else !pl) with
      | .error e => .error e
      | .ok (σ1, _) => fixListS L ord n σ1 vs ps pl := by
  rw [fixListS]; rfl

theorem fixListS_nil_left (L : Lang) (ord : List Nat → List Nat) (n : Nat) (σ : Store) (ps : List Term)
    (pl : Bool) : fixListS L ord (n+1) σ [] ps pl = .ok σ := by
  rw [fixListS]
  intro _ _ _ _ h; cases h

theorem fixListS_nil_right (L : Lang) (ord : List Nat → List Nat) (n : Nat) (σ : Store) (vs : List Bool)
    (pl : Bool) : fixListS L ord (n+1) σ vs [] pl = .ok σ := by
  cases vs <;> rw [fixListS] <;> intro _ _ _ _ _ h <;> cases h

/-! ## `applyTS` in two stages -/

/-- first stage of `applyTS`: an unresolved function variable becomes `a ** b` with fresh `a`, `b` -/
def applyPreS (L : Lang) (ord : List Nat → List Nat) (fuel : Nat) (σ : Store) (f0 : Term) :
    Except Err (Store × Term) :=
  match f0 with
  | .var fv =>
    let (σ1, a) := newVar σ
    let (σ2, b) := newVar σ1
    match bindS L ord fuel σ2 fv (.app FUN [.var a, .var b]) with
    | .error e => .error e
    | .ok σ3 => .ok (σ3, followT σ3 (.var fv))
  | t => .ok (σ, t)

/-- second stage of `applyTS` -/
def applyPostS (L : Lang) (ord : List Nat → List Nat) (fuel : Nat) (σ : Store) (x0 f1 : Term)
    (fixFlag : Bool) : Except Err (Store × Term) :=
  match f1 with
  | .app o [l, r] =>
    if o == FUN then
      match unifyS L ord fuel σ x0 l true false false with
      | .error e => .error e
      | .ok σ1 =>
        if fixFlag && !isFunT r then fixS L ord fuel σ1 r true else .ok (σ1, r)
    else if o == TOP then .ok (σ, .app TOP []) else .error .functionApplication
  | .app o _ => if o == TOP then .ok (σ, .app TOP []) else .error .functionApplication
  | .var _ => .error .functionApplication

theorem applyTS_eq (L : Lang) (ord : List Nat → List Nat) (fuel : Nat) (σ : Store) (f x : Term)
    (fixFlag : Bool) :
    applyTS L ord fuel σ f x fixFlag =
      match applyPreS L ord fuel σ (followT σ f) with
      | .error e => .error e
      | .ok (σ1, f1) => applyPostS L ord fuel σ1 (followT σ x) f1 fixFlag := rfl

theorem addConstraintS_eq (L : Lang) (ord : List Nat → List Nat) (fuel : Nat) (σ : Store) (c : Constr) :
    addConstraintS L ord fuel σ c =
      let σa := regStore σ (normC σ c)
      let vars := varsOfTerms σa (constrTerms (normC σ c))
      if vars.any (fun v => (getVar σa v).bound.isSome) then .error (.internal "inform:assert not v.bound")
      else
        match fulfillS L ord fuel (informStore σ.constrs.length vars σa) σ.constrs.length with
        | .error e => .error e
        | .ok (σ1, _) => .ok σ1 := by
  cases c <;> rfl

/-! ## chains of applications, the use of a schema -/

/-- `f.apply(x₁).apply(x₂)…` under the schedule `ord` -/
def applyAllS (L : Lang) (ord : List Nat → List Nat) (fuel : Nat) (fixFlag : Bool) :
    Store → Term → List Term → Except Err (Store × Term)
  | σ, f, [] => .ok (σ, f)
  | σ, f, x :: xs =>
    match applyTS L ord fuel σ f x fixFlag with
    | .error e => .error e
    | .ok (σ1, r) => applyAllS L ord fuel fixFlag σ1 r xs

/-- one *use* of a definition under the schedule `ord`: instantiate the schema, apply it to the arguments in turn -/
def useSchemaS (L : Lang) (ord : List Nat → List Nat) (fuel : Nat) (fixFlag : Bool) (σ : Store) (s : Schema)
    (xs : List Term) : Except Err (Store × Term) :=
  match instantiateS L ord fuel σ s with
  | .error e => .error e
  | .ok (σ1, f) => applyAllS L ord fuel fixFlag σ1 f xs

end Tfv.C18S
