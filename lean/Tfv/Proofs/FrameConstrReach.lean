import Tfv.Proofs.FrameConstrMain
/-!
# Frame lemmas for the inference engine WITH pending constraints (C16), part 4: reachability

On a store satisfying `OkStoreC` the region reachable from a set of root terms — through bindings and through the
constraints attached to reachable variables — is closed; hence the frame theorems in terms of `ReachC`,
`ReachCset`, `ReachConstr`, and: an expression whose region was not touched means what it meant before.
-/
namespace Tfv.C16C
open Tfv Tfv.C03P Tfv.C16P Tfv.C03C

mutual
theorem varIn_okTerm {L : Lang} {σ : Store} {v : Nat} : ∀ t, okTerm L σ t = true → VarIn v t → v < σ.vars.length
  | .var w, h, hv => by
    cases hv
    exact okTerm_var.mp h
  | .app o args, h, hv => by
    cases hv with
    | app hu hv => exact varIn_okTermL args (okTerm_app.mp h).2.2 _ hu hv
theorem varIn_okTermL {L : Lang} {σ : Store} {v : Nat} : ∀ ts, okTermL L σ ts = true → ∀ u, u ∈ ts →
    VarIn v u → v < σ.vars.length
  | [], _, u, hu, _ => nomatch hu
  | t :: ts, h, u, hu, hv => by
    obtain ⟨h1, h2⟩ := okTermL_cons.mp h
    rcases List.mem_cons.mp hu with e | e
    · rw [e] at hv; exact varIn_okTerm t h1 hv
    · exact varIn_okTermL ts h2 u e hv
end

/-! ## 1. the region reachable from a set of roots -/

def rootsRegion (σ : Store) (roots : Term → Prop) : Region :=
  reachRegion σ (fun v => ∃ t, roots t ∧ ReachC σ t v) (fun k => ∃ t, roots t ∧ ReachCset σ t k)
    (fun c => ∃ t, roots t ∧ ReachConstr σ t c)

theorem closedC_roots {L : Lang} {σ : Store} (okc : OkStoreC L σ) (roots : Term → Prop) :
    ClosedC σ (rootsRegion σ roots) where
  bnd := fun w b hw hb v hv => by
    rcases hw with ⟨t, ht, hr⟩ | hw
    · exact ⟨Or.inl ⟨t, ht, ReachC.bound hr hb hv⟩, varIn_okTerm b (okc.ok.bound w b hb) hv⟩
    · rw [getVar_oor (by omega)] at hb; cases hb
  cs := fun w hw hS => by
    rcases hS with ⟨t, ht, hr⟩ | hS
    · exact Or.inl ⟨t, ht, w, hw, hr, rfl⟩
    · omega
  mem := fun k c hk hm => by
    rcases hk with ⟨t, ht, hk⟩ | hk
    · exact ⟨Or.inl ⟨t, ht, k, hk, hm⟩, okc.crange.get hm⟩
    · rw [getCset_oor hk] at hm; cases hm
  ctm := fun c u hlt hC hu v hv => by
    rcases hC with ⟨t, ht, k, ⟨w, _, hr, e⟩, hm⟩ | hC
    · subst e
      exact ⟨Or.inl ⟨t, ht, ReachC.constr hr hm hu hv⟩, varIn_okTermL _ (okc.cget hlt) u hu hv⟩
    · omega
  sfr := fun _ h => Or.inr h
  kfr := fun _ h => Or.inr h
  cfr := fun _ h => Or.inr h

theorem termInR_root {L : Lang} {σ : Store} {roots : Term → Prop} {t : Term} (hr : roots t)
    (ht : okTerm L σ t = true) : TermInR σ (rootsRegion σ roots).S t :=
  fun _ hv => ⟨Or.inl ⟨t, hr, ReachC.here hv⟩, varIn_okTerm t ht hv⟩

/-- what a frame over the region of two roots says, unpacked -/
theorem frC_unpack2 {σ σ' : Store} {a b : Term} (f : FrC (rootsRegion σ (fun t => t = a ∨ t = b)) σ σ') :
    σ.vars.length ≤ σ'.vars.length ∧
    (∀ v, v < σ.vars.length → ¬ ReachC σ a v → ¬ ReachC σ b v → getVar σ' v = getVar σ v) ∧
    (∀ k, k < σ.csets.length → ¬ ReachCset σ a k → ¬ ReachCset σ b k → getCset σ' k = getCset σ k) ∧
    (∀ c, c < σ.constrs.length → ¬ ReachConstr σ a c → ¬ ReachConstr σ b c →
      getConstr σ' c = getConstr σ c) := by
  refine ⟨f.len, fun v hv h1 h2 => f.vfr v ?_, fun k hk h1 h2 => f.kfr k ?_, fun c hc h1 h2 => f.cfr c ?_⟩
  · rintro (⟨t, rfl | rfl, h⟩ | h)
    · exact h1 h
    · exact h2 h
    · omega
  · rintro (⟨t, rfl | rfl, h⟩ | h)
    · exact h1 h
    · exact h2 h
    · omega
  · rintro (⟨t, rfl | rfl, h⟩ | h)
    · exact h1 h
    · exact h2 h
    · omega

theorem frC_unpack1 {σ σ' : Store} {a : Term} (f : FrC (rootsRegion σ (fun t => t = a)) σ σ') :
    σ.vars.length ≤ σ'.vars.length ∧
    (∀ v, v < σ.vars.length → ¬ ReachC σ a v → getVar σ' v = getVar σ v) ∧
    (∀ k, k < σ.csets.length → ¬ ReachCset σ a k → getCset σ' k = getCset σ k) ∧
    (∀ c, c < σ.constrs.length → ¬ ReachConstr σ a c → getConstr σ' c = getConstr σ c) := by
  refine ⟨f.len, fun v hv h1 => f.vfr v ?_, fun k hk h1 => f.kfr k ?_, fun c hc h1 => f.cfr c ?_⟩
  · rintro (⟨t, rfl, h⟩ | h)
    · exact h1 h
    · omega
  · rintro (⟨t, rfl, h⟩ | h)
    · exact h1 h
    · omega
  · rintro (⟨t, rfl, h⟩ | h)
    · exact h1 h
    · omega

/-! ## 2. the frame theorems in terms of reachability -/

theorem unify_frameC {L : Lang} {n : Nat} {σ σ' : Store} {a b : Term} {st sb sw : Bool}
    (okc : OkStoreC L σ) (ha : okTerm L σ a = true) (hb : okTerm L σ b = true)
    (h : unify L n σ a b st sb sw = .ok σ') :
    σ.vars.length ≤ σ'.vars.length ∧
    (∀ v, v < σ.vars.length → ¬ ReachC σ a v → ¬ ReachC σ b v → getVar σ' v = getVar σ v) ∧
    (∀ k, k < σ.csets.length → ¬ ReachCset σ a k → ¬ ReachCset σ b k → getCset σ' k = getCset σ k) ∧
    (∀ c, c < σ.constrs.length → ¬ ReachConstr σ a c → ¬ ReachConstr σ b c →
      getConstr σ' c = getConstr σ c) :=
  frC_unpack2 ((all_frameC L n).1 _ σ a b st sb sw σ' (closedC_roots okc _)
    (termInR_root (Or.inl rfl) ha) (termInR_root (Or.inr rfl) hb) h)

theorem fix_frameC {L : Lang} {n : Nat} {σ σ' : Store} {t t' : Term} {pl : Bool}
    (okc : OkStoreC L σ) (ht : okTerm L σ t = true) (h : fix L n σ t pl = .ok (σ', t')) :
    (σ.vars.length ≤ σ'.vars.length ∧
     (∀ v, v < σ.vars.length → ¬ ReachC σ t v → getVar σ' v = getVar σ v) ∧
     (∀ k, k < σ.csets.length → ¬ ReachCset σ t k → getCset σ' k = getCset σ k) ∧
     (∀ c, c < σ.constrs.length → ¬ ReachConstr σ t c → getConstr σ' c = getConstr σ c)) ∧
    ∀ v, VarIn v t' → ReachC σ t v ∨ (σ.vars.length ≤ v ∧ v < σ'.vars.length) := by
  obtain ⟨f, ht'⟩ := (all_frameC L n).2.2.2.2.2.1 _ σ t pl σ' t' (closedC_roots okc (fun u => u = t))
    (termInR_root rfl ht) h
  refine ⟨frC_unpack1 f, fun v hv => ?_⟩
  rcases (ht' v hv).1 with ⟨u, rfl, hr⟩ | hge
  · exact Or.inl hr
  · exact Or.inr ⟨hge, (ht' v hv).2⟩

theorem apply_frameC {L : Lang} {n : Nat} {σ σ' : Store} {f x r : Term} {fixFlag : Bool}
    (okc : OkStoreC L σ) (hf : okTerm L σ f = true) (hx : okTerm L σ x = true)
    (h : applyT L n σ f x fixFlag = .ok (σ', r)) :
    (σ.vars.length ≤ σ'.vars.length ∧
     (∀ v, v < σ.vars.length → ¬ ReachC σ f v → ¬ ReachC σ x v → getVar σ' v = getVar σ v) ∧
     (∀ k, k < σ.csets.length → ¬ ReachCset σ f k → ¬ ReachCset σ x k → getCset σ' k = getCset σ k) ∧
     (∀ c, c < σ.constrs.length → ¬ ReachConstr σ f c → ¬ ReachConstr σ x c →
       getConstr σ' c = getConstr σ c)) ∧
    ∀ v, VarIn v r → (ReachC σ f v ∨ ReachC σ x v) ∨ (σ.vars.length ≤ v ∧ v < σ'.vars.length) := by
  obtain ⟨fr, hr⟩ := applyT_frC (closedC_roots okc (fun u => u = f ∨ u = x))
    (termInR_root (Or.inl rfl) hf) (termInR_root (Or.inr rfl) hx) h
  refine ⟨frC_unpack2 fr, fun v hv => ?_⟩
  rcases (hr v hv).1 with ⟨u, rfl | rfl, hu⟩ | hge
  · exact Or.inl (Or.inl hu)
  · exact Or.inl (Or.inr hu)
  · exact Or.inr ⟨hge, (hr v hv).2⟩

/-! ## 3. an expression whose region was not touched means what it meant before -/

theorem closed_reachC (σ : Store) (e : Term) : Closed σ (ReachC σ e) :=
  fun _ _ hw hb _ hv => ReachC.bound hw hb hv

theorem reachC_congr {σ σ' : Store} {e : Term} (hs : ∀ v, ReachC σ e v → v < σ.vars.length)
    (hg : ∀ v, ReachC σ e v → getVar σ' v = getVar σ v)
    (hk : ∀ k, ReachCset σ e k → getCset σ' k = getCset σ k)
    (hcn : ∀ c, ReachConstr σ e c → getConstr σ' c = getConstr σ c) :
    ∀ v, ReachC σ' e v ↔ ReachC σ e v := by
  intro v
  constructor
  · intro h
    induction h with
    | here hv => exact ReachC.here hv
    | bound _ hb hv ih => rw [hg _ ih] at hb; exact ReachC.bound ih hb hv
    | @constr w c u v _ hm hu hv ih =>
      have hK : ReachCset σ e (getVar σ w).cset := ⟨w, hs w ih, ih, rfl⟩
      rw [hg _ ih, hk _ hK] at hm
      rw [hcn c ⟨_, hK, hm⟩] at hu
      exact ReachC.constr ih hm hu hv
  · intro h
    induction h with
    | here hv => exact ReachC.here hv
    | bound hw hb hv ih => rw [← hg _ hw] at hb; exact ReachC.bound ih hb hv
    | @constr w c u v hw hm hu hv ih =>
      have hK : ReachCset σ e (getVar σ w).cset := ⟨w, hs w hw, hw, rfl⟩
      have hC : ReachConstr σ e c := ⟨_, hK, hm⟩
      rw [← hcn c hC] at hu
      rw [← hk _ hK, ← hg _ hw] at hm
      exact ReachC.constr ih hm hu hv

/-- if the variables, constraint sets and constraints of the region of `e` are as before, then `e` means what it
meant: the same variables are reachable from it, following it gives the same type -/
theorem untouchedC {σ σ' : Store} {e : Term} (hs : ∀ v, ReachC σ e v → v < σ.vars.length)
    (hg : ∀ v, ReachC σ e v → getVar σ' v = getVar σ v)
    (hk : ∀ k, ReachCset σ e k → getCset σ' k = getCset σ k)
    (hcn : ∀ c, ReachConstr σ e c → getConstr σ' c = getConstr σ c) :
    (∀ v, ReachC σ' e v ↔ ReachC σ e v) ∧ ∀ m, follow σ' m e = follow σ m e :=
  ⟨reachC_congr hs hg hk hcn,
   fun m => follow_congr (closed_reachC σ e) hg m e (fun _ hv => ReachC.here hv)⟩

/-- on a store satisfying the invariant, everything reachable from a well-formed term is allocated -/
theorem reachC_lt {L : Lang} {σ : Store} (okc : OkStoreC L σ) {e : Term} (he : okTerm L σ e = true) :
    ∀ v, ReachC σ e v → v < σ.vars.length := by
  intro v h
  induction h with
  | here hv => exact varIn_okTerm e he hv
  | bound _ hb hv _ => exact varIn_okTerm _ (okc.ok.bound _ _ hb) hv
  | constr _ hm hu hv _ => exact varIn_okTermL _ (okc.cget (okc.crange.get hm)) _ hu hv

/-- without constraints in the store, `ReachC` is `Reach` -/
theorem reachC_iff_reach {σ : Store} (nc : NoConstraints σ) (t : Term) (v : Nat) : ReachC σ t v ↔ Reach σ t v := by
  constructor
  · intro h
    induction h with
    | here hv => exact Reach.here hv
    | bound _ hb hv ih => exact Reach.step ih hb hv
    | constr _ hm _ _ _ => rw [nc] at hm; cases hm
  · intro h
    induction h with
    | here hv => exact ReachC.here hv
    | step _ hb hv ih => exact ReachC.bound ih hb hv

end Tfv.C16C
