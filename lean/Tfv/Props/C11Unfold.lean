import Tfv.Props.C11
import Tfv.Spec.MatchesUnfold
import Tfv.Proofs.QueryUnfoldSim
/-!
# C11 with `unfold_tree = True` — the generated query means `MatchesUnfolded`
Statements only; the proofs are in `Tfv/Proofs/QueryUnfold*.lean`, the specification in `Tfv/Spec/MatchesUnfold.lean`.
With `unfold_tree` the generator gives every PATH of steps from an output its own variable, so a step that is shared
by two branches may be matched by two different nodes of the workflow.
-/
namespace Tfv.C11
open Tfv

/-! ## 1. what `assign_variables` does when it unfolds -/

/-- What `assign_variables` computes with `unfold_tree` (if it succeeds): one variable `p` per path `p` of steps from an
output (standing for the last step of the path), each once; a link `(p, p ++ [b])` for exactly the paths `p` to a step
`c` and the predecessors `b` of `c`; as output variables the paths that end in an output step (also those that pass
through another output first); as input variables the paths that end in an input step. -/
theorem C11u_assign_paths (t : QTask) (f : QFlags) (hf : f.unfoldTree = true) (a : QAssign)
    (h : assignAll t f = .ok a) : AssignOkU t a :=
  assignAll_okU t f hf a h

/-- Whether `assign_variables` succeeds does not depend on the flags: it succeeds exactly when no step reachable
from an output lies on a cycle of `from_` links (this replaces `C11_assign_iff`, for every `f`). -/
theorem C11u_assign_iff (t : QTask) (f : QFlags) : (∃ a, assignAll t f = .ok a) ↔ NoCycle t :=
  assignAll_ok_iff_any t f

/-- Paths from an output and reachable steps: the paths end exactly in the reachable steps. -/
theorem C11u_paths_reach (t : QTask) (k : Nat) : (∃ p, PathTo t p k) ↔ StepReach t k :=
  ⟨fun ⟨_, hp⟩ => hp.reach, reach_pathTo⟩

/-! ## 2. the meaning of the generated query -/

/-- **C11, unfolded.** For a task whose query can be generated with `unfold_tree`: the query accepts workflow `wf` of
graph `g` iff the unfolded task matches it (`MatchesUnfolded`, see `Tfv/Spec/MatchesUnfold.lean`: an assignment of
paths to nodes). The hypotheses on the pre-filter on types are those of `C11_query`. -/
theorem C11u_query (G : GLang) (t : QTask) (f : QFlags) (q : Query)
    (hf : f.unfoldTree = true) (hq : genQuery G t f = .ok q)
    (g : List Triple) (wf : Node) (D : Ty → Prop) (po : C20.POrder (leTyB G.types) D)
    (hD : ∀ k, StepReach t k → ∀ T ∈ (t.step k).types, D T)
    (hup : C20.UpClosed (leTyB G.types) D (HasType G g wf)) :
    evalQuery q g wf = true ↔ MatchesUnfolded G t f g wf := by
  refine query_iffU hf hq g wf (fun _ reqs hreqs => ?_)
  refine satBag_bagOf (leTyB G.types) D po.refl po.trans po.antisymm (HasType G g wf) hup reqs ?_
  intro r hr x hx
  obtain ⟨k, hk, rfl⟩ := hreqs r hr
  exact hD k hk x hx

/-- Without the pre-filter on types no order hypothesis is needed. -/
theorem C11u_query_noTypes (G : GLang) (t : QTask) (f : QFlags) (q : Query)
    (hf : f.unfoldTree = true) (hty : f.byTypes = false)
    (hq : genQuery G t f = .ok q) (g : List Triple) (wf : Node) :
    evalQuery q g wf = true ↔ MatchesUnfolded G t f g wf :=
  query_iffU hf hq g wf (fun h => by rw [hty] at h; cases h)

/-- A query is generated (also with `unfold_tree`) for every task without a reachable cycle whose reachable types have URIs … -/
theorem C11u_generates (G : GLang) (t : QTask) (f : QFlags) (hf : f.unfoldTree = true) (hnc : NoCycle t)
    (hU : ∀ k, StepReach t k → ∀ T ∈ (t.step k).types, HasUri G T) : ∃ q, genQuery G t f = .ok q :=
  genQuery_totalU hf hnc hU

/-- … and, whatever the flags, only for tasks without a reachable cycle. -/
theorem C11u_generates_only (G : GLang) (t : QTask) (f : QFlags) (q : Query)
    (h : genQuery G t f = .ok q) : NoCycle t :=
  genQuery_ok_nocycle_any h

/-- **C11, unfolded**, in one statement: an acyclic task with URIs has an unfolded query, and that query accepts exactly
the workflows that the unfolded task matches. -/
theorem C11u_query_acyclic (G : GLang) (t : QTask) (f : QFlags) (hf : f.unfoldTree = true) (hnc : NoCycle t)
    (D : Ty → Prop) (po : C20.POrder (leTyB G.types) D)
    (hD : ∀ k, StepReach t k → ∀ T ∈ (t.step k).types, D T ∧ HasUri G T) :
    ∃ q, genQuery G t f = .ok q ∧ ∀ (g : List Triple) (wf : Node),
      C20.UpClosed (leTyB G.types) D (HasType G g wf) → (evalQuery q g wf = true ↔ MatchesUnfolded G t f g wf) := by
  obtain ⟨q, hq⟩ := C11u_generates G t f hf hnc (fun k hk T hT => (hD k hk T hT).2)
  exact ⟨q, hq, fun g wf hup => C11u_query G t f q hf hq g wf D po (fun k hk T hT => (hD k hk T hT).1) hup⟩

/-- Also for an unfolded query the unrestricted equivalence holds: it is accepted iff pre-filter and body are
satisfiable by any assignment (every path variable is linked through its prefixes to an output variable). -/
theorem C11u_generated_eval_iff (G : GLang) (t : QTask) (f : QFlags) (q : Query)
    (hf : f.unfoldTree = true) (hq : genQuery G t f = .ok q) (g : List Triple) (wf : Node) :
    evalQuery q g wf = true ↔ Satisfiable g wf q.prefilter ∧ Satisfiable g wf q.body :=
  generated_eval_iffU hf hq g wf

/-- The unfolded reading is the plain reading of the UNFOLDED TASK `unfoldTask t`: the task with one step per path of
`t` from an output (numbered in creation order), the copy `p` of step `k` having the types and operators of `k` and as
predecessors the copies `p ++ [b]` of the predecessors `b` of `k`. -/
theorem C11u_unfoldTask (G : GLang) (t : QTask) (f : QFlags) (g : List Triple) (wf : Node) (hnc : NoCycle t) :
    MatchesUnfolded G t f g wf ↔ Matches G (unfoldTask t) f g wf :=
  matchesUnfolded_iff_unfoldTask hnc

/-- In the unfolded task nothing is shared: a reachable step is a predecessor of one reachable step only. -/
theorem C11u_unfoldTask_unshared (t : QTask) (hnc : NoCycle t) (c c' i : Nat)
    (hc : StepReach (unfoldTask t) c) (hc' : StepReach (unfoldTask t) c')
    (hi : i ∈ ((unfoldTask t).step c).from_) (hi' : i ∈ ((unfoldTask t).step c').from_) : c = c' :=
  unfoldTask_unshared hnc hc hc' hi hi'

/-- Generating with `unfold_tree` for `t` and generating plainly for `unfoldTask t` give queries that accept the same
workflows. -/
theorem C11u_query_unfoldTask (G : GLang) (t : QTask) (f : QFlags) (q' qU : Query)
    (hqU : genQuery G t { f with unfoldTree := true } = .ok qU)
    (hq' : genQuery G (unfoldTask t) { f with unfoldTree := false } = .ok q')
    (g : List Triple) (wf : Node) (D : Ty → Prop) (po : C20.POrder (leTyB G.types) D)
    (hD : ∀ k, StepReach t k → ∀ T ∈ (t.step k).types, D T)
    (hup : C20.UpClosed (leTyB G.types) D (HasType G g wf)) :
    evalQuery qU g wf = evalQuery q' g wf := by
  have hnc : NoCycle t := genQuery_ok_nocycle_any hqU
  refine eval_unfold_eq_unfoldTask hqU hq' g wf (fun _ reqs hreqs => ?_) (fun _ reqs hreqs => ?_)
  · refine satBag_bagOf (leTyB G.types) D po.refl po.trans po.antisymm (HasType G g wf) hup reqs ?_
    intro r hr x hx
    obtain ⟨k, hk, rfl⟩ := hreqs r hr
    exact hD k hk x hx
  · refine satBag_bagOf (leTyB G.types) D po.refl po.trans po.antisymm (HasType G g wf) hup reqs ?_
    intro r hr x hx
    obtain ⟨i, hi, rfl⟩ := hreqs r hr
    obtain ⟨k, hk, he⟩ := unfoldTask_types hnc hi
    rw [he] at hx
    exact hD k hk x hx

/-! ## 3. the two modes -/

/-- A match of the task (shared steps matched by ONE node) is a match of the unfolded task: give every copy of a
step the node of the step. -/
theorem C11u_of_matches (G : GLang) (t : QTask) (f : QFlags) (g : List Triple) (wf : Node)
    (h : Matches G t f g wf) : MatchesUnfolded G t f g wf :=
  matchesUnfolded_of_matches h

/-- Exactly: the task matches iff the unfolded task is matched by an assignment that gives all copies of a step
(all paths that end in it) the same node. -/
theorem C11u_matches_iff_consistent (G : GLang) (t : QTask) (f : QFlags) (g : List Triple) (wf : Node) :
    Matches G t f g wf ↔ ∃ h, MatchesUnfoldedBy G t f g wf h ∧ Consistent t h :=
  matches_iff_consistent

/-- Hence whatever the plain query accepts, the unfolded query accepts (same task, same other flags). -/
theorem C11u_query_mono (G : GLang) (t : QTask) (f : QFlags) (q qU : Query)
    (hq : genQuery G t { f with unfoldTree := false } = .ok q)
    (hqU : genQuery G t { f with unfoldTree := true } = .ok qU)
    (g : List Triple) (wf : Node) (D : Ty → Prop) (po : C20.POrder (leTyB G.types) D)
    (hD : ∀ k, StepReach t k → ∀ T ∈ (t.step k).types, D T)
    (hup : C20.UpClosed (leTyB G.types) D (HasType G g wf))
    (he : evalQuery q g wf = true) : evalQuery qU g wf = true := by
  refine eval_unfold_of_eval hq hqU g wf (fun _ reqs hreqs => ?_) he
  refine satBag_bagOf (leTyB G.types) D po.refl po.trans po.antisymm (HasType G g wf) hup reqs ?_
  intro r hr x hx
  obtain ⟨k, hk, rfl⟩ := hreqs r hr
  exact hD k hk x hx

/-! ## 4. tree-shaped tasks -/

/-- For a tree-shaped task (no step is reached along two different paths) the two readings coincide … -/
theorem C11u_tree_matches (G : GLang) (t : QTask) (f : QFlags) (g : List Triple) (wf : Node) (ht : TreeShaped t) :
    Matches G t f g wf ↔ MatchesUnfolded G t f g wf :=
  matches_iff_unfolded_tree ht

/-- … and the two generated queries accept the same workflows. -/
theorem C11u_tree_query (G : GLang) (t : QTask) (f : QFlags) (q qU : Query) (ht : TreeShaped t)
    (hq : genQuery G t { f with unfoldTree := false } = .ok q)
    (hqU : genQuery G t { f with unfoldTree := true } = .ok qU)
    (g : List Triple) (wf : Node) (D : Ty → Prop) (po : C20.POrder (leTyB G.types) D)
    (hD : ∀ k, StepReach t k → ∀ T ∈ (t.step k).types, D T)
    (hup : C20.UpClosed (leTyB G.types) D (HasType G g wf)) :
    evalQuery qU g wf = evalQuery q g wf := by
  refine eval_unfold_eq_tree ht hq hqU g wf (fun _ reqs hreqs => ?_)
  refine satBag_bagOf (leTyB G.types) D po.refl po.trans po.antisymm (HasType G g wf) hup reqs ?_
  intro r hr x hx
  obtain ⟨k, hk, rfl⟩ := hreqs r hr
  exact hD k hk x hx

/-- For a tree-shaped task the two modes generate THE SAME QUERY up to the names of the variables: if the unfolded
query is generated, so is the plain one, and it is the unfolded one with every path variable `p` renamed to
`[last step of p]` (clause by clause, in the same order). -/
theorem C11u_tree_rename (G : GLang) (t : QTask) (f : QFlags) (qU : Query) (ht : TreeShaped t)
    (hqU : genQuery G t { f with unfoldTree := true } = .ok qU) :
    genQuery G t { f with unfoldTree := false } = .ok (qU.ren lastVar) :=
  genQuery_tree_ren ht hqU

/-- Behind it: clause generation commutes with every renaming of the variables of an assignment that is injective on
the variables that occur in it (`P`). -/
theorem C11u_genFrom_rename (G : GLang) (t : QTask) (f : QFlags) (a : QAssign) (ρ : QVar → QVar) (P : QVar → Prop)
    (hinj : ∀ v w, P v → P w → ρ v = ρ w → v = w) (hv : ValidP P a) :
    genFrom G t f (a.ren ρ) = exMap (Query.ren ρ) (genFrom G t f a) :=
  genFrom_ren hinj hv

/-! ## the converse of (3) fails: a diamond-shaped task over a workflow with the two branches through different nodes -/

/-- output step 0 (via `out`) from steps 1 (via `f`) and 2 (via `g`), both from the shared input step 3 (an `A` via `h`) -/
def dTask : QTask :=
  { steps := [{ ops := ["out"], from_ := [1, 2] }, { ops := ["f"], from_ := [3] }, { ops := ["g"], from_ := [3] },
              { types := [tA], ops := ["h"] }],
    outputs := [0], inputs := [3] }

/-- `b 0` depends on `b 1` (via `f`) and `b 2` (via `g`); these depend on two DIFFERENT inputs `b 3` and `b 4` (both `A` via `h`) -/
def dGraph : List Triple := [
  (w, .tf "output", b 0), (b 0, .tf "via", .ns "out"), (b 0, .tf "depends", b 1), (b 0, .tf "depends", b 2),
  (b 1, .tf "via", .ns "f"), (b 2, .tf "via", .ns "g"), (b 1, .tf "depends", b 3), (b 2, .tf "depends", b 4),
  (b 3, .tf "via", .ns "h"), (b 4, .tf "via", .ns "h"), (b 3, .tf "subtypeOf", .ns "A"), (b 4, .tf "subtypeOf", .ns "A"),
  (w, .tf "input", b 3), (w, .tf "input", b 4),
  (w, .tf "containsOperation", .ns "out"), (w, .tf "containsOperation", .ns "f"), (w, .tf "containsOperation", .ns "g"),
  (w, .tf "containsOperation", .ns "h"), (w, .tf "containsType", .ns "A")]

def okOr (x : Except QErr Query) : Query := match x with
  | .ok q => q
  | .error _ => {}

theorem okOr_ok (x : Except QErr Query) (h : (match x with | .ok _ => true | .error _ => false) = true) :
    x = .ok (okOr x) := by
  cases x with
  | ok q => rfl
  | error e => cases h

def dQuery : Query := okOr (genQuery exG dTask {})
def dQueryU : Query := okOr (genQuery exG dTask { unfoldTree := true })

theorem dQuery_ok : genQuery exG dTask {} = .ok dQuery := okOr_ok _ (by decide +kernel)
theorem dQueryU_ok : genQuery exG dTask { unfoldTree := true } = .ok dQueryU := okOr_ok _ (by decide +kernel)

/-- the unfolded query accepts the workflow, the plain query rejects it (checked by evaluation) -/
theorem dEval : evalQuery dQueryU dGraph w = true ∧ evalQuery dQuery dGraph w = false :=
  ⟨by decide +kernel, by decide +kernel⟩

def dD (T : Ty) : Prop := wfTy exL T = true ∧ T = tA

theorem dTask_types : ∀ k, ∀ T ∈ (dTask.step k).types, dD T := by
  intro k T hT
  rcases k with _ | _ | _ | _ | k <;> simp [dTask, QTask.step] at hT
  subst hT
  exact ⟨by decide, rfl⟩

theorem dUp : C20.UpClosed (leTyB exG.types) dD (HasType exG dGraph w) := by
  intro x y _ hy _ _
  rw [hy.2]
  exact ⟨.ns "A", rfl, by decide⟩

/-- **The converse of `C11u_of_matches` fails**: the unfolded diamond matches the workflow (the shared step 3 is
matched by `b 3` on one branch and by `b 4` on the other), the diamond itself does not. -/
theorem C11u_converse_counterexample :
    MatchesUnfolded exG dTask {} dGraph w ∧ ¬ Matches exG dTask {} dGraph w := by
  have po := C11_porder exL (C01.C01_wfLang exL (by decide)) (fun T => T = tA)
  constructor
  · have := (C11u_query exG dTask { unfoldTree := true } dQueryU rfl dQueryU_ok dGraph w dD po
      (fun k _ => dTask_types k) dUp).1 dEval.1
    exact (matchesUnfolded_flag true).1 this
  · intro hm
    have := (C11_query exG dTask {} dQuery rfl dQuery_ok dGraph w dD po (fun k _ => dTask_types k) dUp).2 hm
    rw [dEval.2] at this
    cases this

/-- the diamond is not tree-shaped: step 3 is reached along `[0, 1, 3]` and along `[0, 2, 3]` -/
theorem dTask_not_tree : ¬ TreeShaped dTask := by
  intro h
  have p1 : PathTo dTask [0, 1, 3] 3 :=
    .step (p := [0, 1]) (.step (p := [0]) (.out (by simp [dTask])) (by simp [dTask, QTask.step])) (by simp [dTask, QTask.step])
  have p2 : PathTo dTask [0, 2, 3] 3 :=
    .step (p := [0, 2]) (.step (p := [0]) (.out (by simp [dTask])) (by simp [dTask, QTask.step])) (by simp [dTask, QTask.step])
  have := h _ _ _ p1 p2
  simp at this

/-- what `assignAll` computes for the diamond with `unfold_tree`: five path variables, two of them for step 3 -/
example : assignAll dTask { unfoldTree := true } =
    .ok ⟨[([0], 0), ([0, 1], 1), ([0, 1, 3], 3), ([0, 2], 2), ([0, 2, 3], 3)],
         [([0, 1], [0, 1, 3]), ([0], [0, 1]), ([0, 2], [0, 2, 3]), ([0], [0, 2])], [[0]], [[0, 1, 3], [0, 2, 3]]⟩ := by rfl

/-- … and `C11u_assign_paths` applies to it -/
example : AssignOkU dTask ⟨[([0], 0), ([0, 1], 1), ([0, 1, 3], 3), ([0, 2], 2), ([0, 2, 3], 3)],
    [([0, 1], [0, 1, 3]), ([0], [0, 1]), ([0, 2], [0, 2, 3]), ([0], [0, 2])], [[0]], [[0, 1, 3], [0, 2, 3]]⟩ :=
  C11u_assign_paths dTask { unfoldTree := true } rfl _ rfl

example : NoCycle dTask := (C11u_assign_iff dTask { unfoldTree := true }).1 ⟨_, rfl⟩
example : NoCycle dTask := C11u_generates_only exG dTask { unfoldTree := true } dQueryU dQueryU_ok
example : ∃ p, PathTo dTask p 3 := (C11u_paths_reach dTask 3).2
  (.step (c := 1) (.step (c := 0) (.out (by simp [dTask])) (by simp [dTask, QTask.step])) (by simp [dTask, QTask.step]))

/-- the hypotheses of `C11u_query` / `C11u_query_acyclic` / `C11u_query_mono` hold of the diamond (used above); the
query of `C11u_generates` exists -/
example : ∃ q, genQuery exG dTask { unfoldTree := true } = .ok q :=
  C11u_generates exG dTask { unfoldTree := true } rfl
    (C11u_generates_only exG dTask {} dQuery dQuery_ok)
    (fun k _ T hT => by rw [(dTask_types k T hT).2]; exact ⟨.ns "A", rfl⟩)

example : Satisfiable dGraph w dQueryU.prefilter ∧ Satisfiable dGraph w dQueryU.body :=
  (C11u_generated_eval_iff exG dTask { unfoldTree := true } dQueryU rfl dQueryU_ok dGraph w).1 dEval.1

/-- the unfolded diamond: five steps, step 3 twice (as steps 2 and 4); its plain query accepts the workflow -/
example : unfoldTask dTask =
    { steps := [{ ops := ["out"], from_ := [1, 3] }, { ops := ["f"], from_ := [2] }, { types := [tA], ops := ["h"] },
                { ops := ["g"], from_ := [4] }, { types := [tA], ops := ["h"] }],
      outputs := [0], inputs := [2, 4] } := by rfl

def dQuery' : Query := okOr (genQuery exG (unfoldTask dTask) {})
theorem dQuery'_ok : genQuery exG (unfoldTask dTask) {} = .ok dQuery' := okOr_ok _ (by decide +kernel)

example : evalQuery dQuery' dGraph w = true := by decide +kernel
example : evalQuery dQueryU dGraph w = evalQuery dQuery' dGraph w :=
  C11u_query_unfoldTask exG dTask {} dQuery' dQueryU dQueryU_ok dQuery'_ok dGraph w dD
    (C11_porder exL (C01.C01_wfLang exL (by decide)) (fun T => T = tA)) (fun k _ => dTask_types k) dUp
example : Matches exG (unfoldTask dTask) {} dGraph w :=
  (C11u_unfoldTask exG dTask {} dGraph w (C11u_generates_only exG dTask {} dQuery dQuery_ok)).1
    C11u_converse_counterexample.1

/-- a cyclic task is refused with `unfold_tree` as without -/
example : (match genQuery exG { exTask with steps := [{ from_ := [0] }] } { unfoldTree := true } with
    | .error .cyclic => true
    | _ => false) = true := by decide +kernel

/-! ## non-vacuity on a tree-shaped task: the chain `exTask` of `Props/C11.lean` over `exGraph` -/

def exQueryU : Query := okOr (genQuery exG exTask { unfoldTree := true })
theorem exQueryU_ok : genQuery exG exTask { unfoldTree := true } = .ok exQueryU := okOr_ok _ (by decide +kernel)

theorem exPaths : ∀ p k, PathTo exTask p k → (p = [0] ∧ k = 0) ∨ (p = [0, 1] ∧ k = 1) ∨ (p = [0, 1, 2] ∧ k = 2) := by
  intro p k hp
  induction hp with
  | out ho => simp [exTask] at ho; exact Or.inl ⟨by rw [ho], ho⟩
  | step _ hb ih =>
    rcases ih with ⟨rfl, rfl⟩ | ⟨rfl, rfl⟩ | ⟨rfl, rfl⟩ <;> simp [exTask, QTask.step] at hb
    · exact Or.inr (Or.inl ⟨by rw [hb]; rfl, hb⟩)
    · exact Or.inr (Or.inr ⟨by rw [hb]; rfl, hb⟩)

theorem exTree : TreeShaped exTask := by
  intro p p' k hp hp'
  rcases exPaths p k hp with ⟨rfl, rfl⟩ | ⟨rfl, rfl⟩ | ⟨rfl, rfl⟩ <;>
    rcases exPaths p' _ hp' with ⟨rfl, h⟩ | ⟨rfl, h⟩ | ⟨rfl, h⟩ <;> first | rfl | cases h

/-- the unfolded query accepts the example workflow, so `C11u_query` is not vacuous on the accepting side … -/
example : evalQuery exQueryU exGraph w = true := by decide +kernel

theorem exMatchesU : MatchesUnfolded exG exTask { unfoldTree := true } exGraph w :=
  (C11u_query exG exTask { unfoldTree := true } exQueryU rfl exQueryU_ok exGraph w exD
    (C11_porder exL (C01.C01_wfLang exL (by decide)) _) (fun k _ => exTask_types k) exUp).1 (by decide +kernel)

/-- … the plain match of `Props/C11.lean` gives the unfolded match, and back since the chain is a tree -/
example : MatchesUnfolded exG exTask {} exGraph w := C11u_of_matches exG exTask {} exGraph w exMatches
example : Matches exG exTask {} exGraph w :=
  (C11u_tree_matches exG exTask {} exGraph w exTree).2 ((matchesUnfolded_flag true).1 exMatchesU)
example : ∃ h, MatchesUnfoldedBy exG exTask {} exGraph w h ∧ Consistent exTask h :=
  (C11u_matches_iff_consistent exG exTask {} exGraph w).1 exMatches

/-- the two queries of the chain agree on the example workflow (`C11u_tree_query`, `C11u_query_mono`) -/
example : evalQuery exQueryU exGraph w = evalQuery exQuery exGraph w :=
  C11u_tree_query exG exTask {} exQuery exQueryU exTree exQuery_ok exQueryU_ok exGraph w exD
    (C11_porder exL (C01.C01_wfLang exL (by decide)) _) (fun k _ => exTask_types k) exUp
example : evalQuery exQueryU exGraph w = true :=
  C11u_query_mono exG exTask {} exQuery exQueryU exQuery_ok exQueryU_ok exGraph w exD
    (C11_porder exL (C01.C01_wfLang exL (by decide)) _) (fun k _ => exTask_types k) exUp (by decide +kernel)

/-- the plain query of the chain IS the unfolded query renamed (`C11u_tree_rename`); for the diamond it is not
(the unfolded query has more clauses) -/
example : exQuery = exQueryU.ren lastVar := by
  have h := C11u_tree_rename exG exTask {} exQueryU exTree exQueryU_ok
  have h' : genQuery exG exTask {} = .ok exQuery := exQuery_ok
  rw [h'] at h
  exact Except.ok.inj h
example : (dQueryU.ren lastVar).body.length = 16 ∧ dQuery.body.length = 12 := by decide +kernel

/-- what `assignAll` computes for the chain with `unfold_tree` -/
example : assignAll exTask { unfoldTree := true } =
    .ok ⟨[([0], 0), ([0, 1], 1), ([0, 1, 2], 2)], [([0, 1], [0, 1, 2]), ([0], [0, 1])], [[0]], [[0, 1, 2]]⟩ := by rfl

end Tfv.C11
