import Tfv.Proofs.HistoryUse
import Tfv.Proofs.InferExamples
/-!
# History independence (C16): where the general statement fails, and concrete runs

1. The occurs check and `directVars` recurse with fuel `σ.vars.length + 64`, `followT` with
   fuel `σ.vars.length + 1`: a store behind a history has *more* fuel. For a term nested
   deeper than the fuel the occurs check misses the variable in the short store and finds
   it behind a history, so unification of arbitrary terms is *not* history independent
   (`unify_history_counterexample`). For a store with a cycle of variable-to-variable
   bindings `followT` itself depends on the fuel (`followT_history_counterexample`).
2. Concrete runs for the non-vacuity examples.
-/
namespace Tfv.C16P
open Tfv Tfv.C03P

/-! ## 1. the occurs check runs out of fuel on a deep term -/

/-- `o(o(… o(t) …))`, `j` levels -/
def nest (o : Nat) : Nat → Term → Term
  | 0, t => t
  | j+1, t => .app o [nest o j t]

theorem nest_succ (o j : Nat) (t : Term) : nest o (j+1) t = .app o [nest o j t] := rfl

theorem shift_nest (k o : Nat) : ∀ (j : Nat) (t : Term), (nest o j t).shift k = nest o j (t.shift k)
  | 0, _ => rfl
  | j+1, t => by rw [nest_succ, shift_app, shiftL_cons, shiftL_nil, shift_nest k o j t, nest_succ]

theorem occurs_app_var {L : Lang} {σ : Store} {w : Nat} (hw : (getVar σ w).bound = none) (m o : Nat)
    (args : List Term) :
    occurs L σ (m+1) (.app o args) (.var w) = args.any (fun t => occurs L σ m t (.var w)) := by
  rw [occurs, followT_app, followT_unbound hw]
  simp only []
  have := match3_app_var (L := L) (matchFuel σ) (followT_app σ o args) (followT_unbound hw)
  cases h : match3 L σ (matchFuel σ) false false (.app o args) (.var w) with
  | none => rfl
  | some b =>
    cases b with
    | true => exact absurd h this
    | false => rfl

theorem occurs_var_var {L : Lang} {σ : Store} {u w : Nat} (hu : (getVar σ u).bound = none)
    (hw : (getVar σ w).bound = none) (m : Nat) :
    occurs L σ (m+1) (.var u) (.var w) = (u == w) := by
  rw [occurs, followT_unbound hu, followT_unbound hw]

/-- with fuel `j` the occurs check does not get to the bottom of `j` levels -/
theorem occurs_nest_short {L : Lang} {σ : Store} {w : Nat} (hw : (getVar σ w).bound = none) (o : Nat)
    (t : Term) : ∀ j, occurs L σ j (nest o j t) (.var w) = false
  | 0 => by rw [occurs]
  | j+1 => by
    rw [nest_succ, occurs_app_var hw]
    simp only [List.any_cons, List.any_nil, Bool.or_false]
    exact occurs_nest_short hw o t j

/-- with fuel `m + j` it does -/
theorem occurs_nest_long {L : Lang} {σ : Store} {w : Nat} (hw : (getVar σ w).bound = none) (o m : Nat)
    (t : Term) : ∀ j, occurs L σ (m + j) (nest o j t) (.var w) = occurs L σ m t (.var w)
  | 0 => rfl
  | j+1 => by
    rw [nest_succ, ← Nat.add_assoc, occurs_app_var hw]
    simp only [List.any_cons, List.any_nil, Bool.or_false]
    exact occurs_nest_long hw o m t j

/-- one unresolved variable -/
def σ1 : Store := { vars := [{}], csets := [[]] }

theorem σ1_nc : NoConstraints σ1 := noConstraintsB_sound (by decide)
theorem σ1_nvv : NoVarVar σ1 := by
  intro v w h
  cases v with
  | zero => cases h
  | succ v => rw [getVar_oor (by simp [σ1])] at h; cases h

/-- `F(F(… F(x0) …))`, 65 levels -/
def deep : Term := nest 7 65 (.var 0)

theorem deep_eq : deep = .app 7 [nest 7 64 (.var 0)] := rfl

theorem unify_app_unbound {L : Lang} {σ : Store} {w : Nat} (hw : (getVar σ w).bound = none) (n ao : Nat)
    (as : List Term) :
    unify L (n+1) σ (.app ao as) (.var w) true false false =
      if ao == BOT then .ok σ
      else if occurs L σ (termFuel σ) (.app ao as) (.var w) then .error .recursiveType
      else if arityOf L ao == 0 then above L n σ w ao else bind L n σ w (.app ao as) := by
  rw [unify, followT_app, followT_unbound hw]
  simp only [Bool.false_or, Bool.false_and, Bool.false_eq_true, if_false, if_true]

/-- in the short store the occurs check runs out of fuel: `x0 := F⁶⁵(x0)` is accepted -/
theorem deep_run_short : ∃ σ', unify exL 10 σ1 deep (.var 0) true false false = .ok σ' := by
  have hu : (getVar σ1 0).bound = none := rfl
  have ho : occurs exL σ1 (termFuel σ1) (.app 7 [nest 7 64 (.var 0)]) (.var 0) = false :=
    occurs_nest_short hu 7 (.var 0) 65
  refine ⟨bindAppStore σ1 0 deep, ?_⟩
  have hbot : (7 == BOT) = false := by decide
  have har : (arityOf exL 7 == 0) = false := by decide
  rw [deep_eq, unify_app_unbound hu, bind_app_eq]
  have h1 : (getVar σ1 0).bound.isSome = false := rfl
  have h2 : ((getVar σ1 0).lower.isSome || (getVar σ1 0).upper.isSome) = false := rfl
  simp only [ho, hbot, h1, h2, har, Bool.false_eq_true, if_false]
  rw [checkConstraints_eq (nc_bindAppStore σ1_nc 0 _)]
  rfl

/-- behind a history of one variable the same check has one more unit of fuel and finds `x0` -/
theorem deep_run_long :
    unify exL 10 (σ1.append σ1) (deep.shift 1) ((Term.var 0).shift 1) true false false =
      .error .recursiveType := by
  have hu : (getVar (σ1.append σ1) 1).bound = none := rfl
  have ho : occurs exL (σ1.append σ1) (termFuel (σ1.append σ1)) (.app 7 [nest 7 64 (.var 1)]) (.var 1) = true := by
    have e : termFuel (σ1.append σ1) = 1 + 65 := rfl
    have e2 : Term.app 7 [nest 7 64 (.var 1)] = nest 7 65 (.var 1) := rfl
    rw [e, e2, occurs_nest_long hu 7 1 (.var 1) 65, occurs_var_var hu hu]
    rfl
  have e1 : deep.shift 1 = .app 7 [nest 7 64 (.var 1)] := by
    unfold deep; rw [shift_nest, shift_var]; rfl
  have hbot : (7 == BOT) = false := by decide
  rw [e1, shift_var, unify_app_unbound hu]
  simp only [ho, hbot, Bool.false_eq_true, if_false, if_true]

/-- unification of arbitrary terms is not history independent in the model -/
theorem deep_ok : okTerm exL σ1 deep = true := by decide
theorem σ1_ok : OkStore exL σ1 := okStoreB_sound (by decide)

theorem unify_history_counterexample :
    ¬ (∀ (L : Lang) (n : Nat) (σ₀ σ : Store) (a b : Term), WF L → NoConstraints σ₀ → NoConstraints σ →
        NoVarVar σ → OkStore L σ → okTerm L σ a = true → okTerm L σ b = true →
        unify L n (σ₀.append σ) (a.shift σ₀.vars.length) (b.shift σ₀.vars.length) true false false =
          (unify L n σ a b true false false).map (σ₀.append ·)) := by
  intro h
  have := h exL 10 σ1 σ1 deep (.var 0) exL_wf σ1_nc σ1_nc σ1_nvv σ1_ok deep_ok (by decide)
  obtain ⟨σ', e⟩ := deep_run_short
  have e3 : σ1.vars.length = 1 := rfl
  rw [e3, deep_run_long, e] at this
  cases this

/-! ## 2. `followT` on a cycle of variable bindings -/

/-- `x0 := x1`, `x1 := x0` (never produced by the engine) -/
def σcyc : Store := { vars := [{ bound := some (.var 1) }, { bound := some (.var 0), cset := 1 }], csets := [[], []] }

theorem followT_history_counterexample :
    followT (σ1.append σcyc) ((Term.var 0).shift σ1.vars.length) ≠
      (followT σcyc (.var 0)).shift σ1.vars.length := by
  have e1 : followT (σ1.append σcyc) ((Term.var 0).shift σ1.vars.length) = .var 1 := by
    with_unfolding_all rfl
  have e2 : (followT σcyc (.var 0)).shift σ1.vars.length = .var 2 := by
    with_unfolding_all rfl
  rw [e1, e2]
  intro h
  injection h with h
  exact absurd h (by decide)

theorem σcyc_not_fuelOk : ¬ FuelOk σcyc := by
  intro h
  have := h (.var 0)
  have e : followT σcyc (.var 0) = .var 1 := by with_unfolding_all rfl
  rw [e] at this
  have : (getVar σcyc 1).bound = none := this
  cases this

/-! ## 3. concrete runs -/

/-- the schema `x => x ** F(x)` -/
def exSch : Schema :=
  { nvars := 1, nwild := 0, body := .app FUN [.var 0, .app 7 [.var 0]], constraints := [] }

/-- a history: three unrelated variables, `y1 := A`, `y2 ≥ B` -/
def hist3 : Store :=
  { vars := [{}, { bound := some (.app 5 []), cset := 1 }, { lower := some 6, cset := 2 }],
    csets := [[], [], []] }

theorem hist3_nc : NoConstraints hist3 := noConstraintsB_sound (by decide)

theorem exSch_run0 :
    instantiate exL 10 {} exSch = .ok ({ vars := [{}], csets := [[]] }, .app FUN [.var 0, .app 7 [.var 0]]) := by
  with_unfolding_all rfl

theorem exSch_run3 :
    instantiate exL 10 hist3 exSch =
      .ok (hist3.append { vars := [{}], csets := [[]] }, .app FUN [.var 3, .app 7 [.var 3]]) := by
  with_unfolding_all rfl

/-- by evaluation: instantiating after the history gives the shifted result of instantiating in `{}` -/
theorem exSch_history : instantiate exL 10 hist3 exSch = afterHistory hist3 (instantiate exL 10 {} exSch) := by
  rw [exSch_run0, exSch_run3]
  with_unfolding_all rfl

/-- `x0 ≥ B` is resolved to `B` -/
def σS1fix : Store := { vars := [{ bound := some (.app 6 []), lower := some 6 }], csets := [[]] }

theorem exFix_run : fix exL 10 σS1 (.var 0) true = .ok (σS1fix, .app 6 []) := by
  with_unfolding_all rfl

theorem σS1_nc : NoConstraints σS1 := noConstraintsB_sound (by decide)

/-! ## 4. small stores: hypotheses of the theorems by evaluation -/

theorem unbound_of_all {σ : Store} (h : σ.vars.all (fun i => i.bound.isNone) = true) :
    ∀ v, (getVar σ v).bound = none := by
  intro v
  by_cases hv : v < σ.vars.length
  · rw [getVar_eq_getElem hv]
    have := List.all_eq_true.mp h _ (List.getElem_mem hv)
    simpa using this
  · rw [getVar_oor hv]

theorem nvv_of_unbound {σ : Store} (h : ∀ v, (getVar σ v).bound = none) : NoVarVar σ := by
  intro v w e; rw [h v] at e; cases e

theorem scoped_of_unbound {σ : Store} (h : ∀ v, (getVar σ v).bound = none) : Scoped σ := by
  intro w b v e _; rw [h w] at e; cases e

theorem fuelOk_of_unbound {σ : Store} (h : ∀ v, (getVar σ v).bound = none) : FuelOk σ := by
  intro t
  cases t with
  | app o args => rw [followT_app]; trivial
  | var v => rw [followT_unbound (h v)]; exact h v

theorem σ1_unbound : ∀ v, (getVar σ1 v).bound = none := unbound_of_all (by decide)
theorem σ1_scoped : Scoped σ1 := scoped_of_unbound σ1_unbound
theorem σ1_fuelOk : FuelOk σ1 := fuelOk_of_unbound σ1_unbound
theorem σS_nvv : NoVarVar σS := nvv_of_unbound (unbound_of_all (by decide))
theorem σS_scoped : Scoped σS := scoped_of_unbound (unbound_of_all (by decide))
theorem σS1_nvv : NoVarVar σS1 := nvv_of_unbound (unbound_of_all (by decide))

theorem exF_scoped : ∀ v, VarIn v exF → v < σS.vars.length :=
  fun _ hv => varIn_okTermN (L := exL) (m := 1) exF (by decide) hv

/-- `x0 ≥ B`, `x1 ≤ A`, and an earlier unrelated expression `x2 := F(A)` -/
def σ3 : Store :=
  { vars := [{ lower := some 6 }, { upper := some 5, cset := 1 },
      { bound := some (.app 7 [.app 5 []]), cset := 2 }], csets := [[], [], []] }
def σ3' : Store :=
  { vars := [{ bound := some (.var 1), lower := some 6, cset := 1 }, { lower := some 6, upper := some 5, cset := 1 },
      { bound := some (.app 7 [.app 5 []]), cset := 2 }], csets := [[], [], []] }

theorem σ3_nc : NoConstraints σ3 := noConstraintsB_sound (by decide)

/-- `bind` hands the lower bound of `x0` to `x1` through `unify`; its occurs check (`match3`,
well-founded recursion) does not evaluate by `rfl` and is rewritten away -/
theorem ex3_bind : bind exL 9 σ3 0 (.var 1) = .ok σ3' := by
  rw [bind_var_eq]
  have e1 : (getVar σ3 0).lower = some 6 := rfl
  have e2 : (getVar σ3 0).upper = none := rfl
  simp only [e1, e2]
  rw [unify_base_unbound (by with_unfolding_all rfl)]
  with_unfolding_all rfl

theorem ex3_run : unify exL 10 σ3 (.var 0) (.var 1) true false false = .ok σ3' := by
  rw [← ex3_bind]
  with_unfolding_all rfl

theorem reach_in_closed {σ : Store} {S : Nat → Prop} (hc : Closed σ S) {t : Term} (ht : TermIn S t) :
    ∀ v, Reach σ t v → S v := by
  intro v h
  induction h with
  | here hv => exact ht _ hv
  | step _ hb hv ih => exact hc _ _ ih hb _ hv

theorem ex3_disjoint : ∀ v, Reach σ3 (.var 2) v → ¬ Reach σ3 (.var 0) v ∧ ¬ Reach σ3 (.var 1) v := by
  have c2 : Closed σ3 (fun v => v = 2) := by
    intro w b hw hb
    have hw' : w = 2 := hw
    subst hw'
    have e : b = .app 7 [.app 5 []] := by
      have : (getVar σ3 2).bound = some (.app 7 [.app 5 []]) := rfl
      rw [this] at hb; injection hb with hb; exact hb.symm
    subst e
    exact termIn_closed (by decide)
  have c0 : Closed σ3 (fun v => v = 0) := by
    intro w b hw hb
    have hw' : w = 0 := hw
    subst hw'
    cases hb
  have c1 : Closed σ3 (fun v => v = 1) := by
    intro w b hw hb
    have hw' : w = 1 := hw
    subst hw'
    cases hb
  intro v h2
  have e2 : v = 2 := reach_in_closed c2 (termIn_var.mpr rfl) v h2
  refine ⟨fun h0 => ?_, fun h1 => ?_⟩
  · have e0 : v = 0 := reach_in_closed c0 (termIn_var.mpr rfl) v h0
    omega
  · have e1 : v = 1 := reach_in_closed c1 (termIn_var.mpr rfl) v h1
    omega

/-! ## 5. one whole use, evaluated -/

/-- the use `(x ** F(x))` applied to `B`, from the empty store: `x := B`, result `F(x)` -/
theorem exUse_run0 : useSchema exL 10 true {} exSch [.app 6 []] = .ok (σS1fix, .app 7 [.var 0]) := by
  have s1 : unify exL 10 σS (.app 6 []) (.var 0) true false false = .ok σS1 := by
    rw [unify_base_unbound rfl]; with_unfolding_all rfl
  have s2 : fix exL 10 σS1 (.app 7 [.var 0]) true = .ok (σS1fix, .app 7 [.var 0]) := by
    with_unfolding_all rfl
  unfold useSchema
  rw [exSch_run0]
  simp only []
  rw [applyAll, applyT_fun, followT_app]
  have e : ({ vars := [{}], csets := [[]] } : Store) = σS := rfl
  rw [e, s1]
  have hf : isFunT (.app 7 [.var 0]) = false := by decide
  simp only [hf, Bool.not_false, Bool.and_self, if_true, s2]
  rfl

theorem exUse_run3 : useSchema exL 10 true hist3 exSch [.app 6 []] =
    .ok (hist3.append σS1fix, .app 7 [.var 3]) := by
  rw [useSchema_history_empty hist3_nc rfl (by decide) (by decide), exUse_run0]
  rfl

/-- another history of the same size with different content -/
def hist3' : Store :=
  { vars := [{ bound := some (.app 7 [.var 1]) }, { upper := some 6, cset := 1 }, { wildcard := true, cset := 2 }],
    csets := [[], [], []] }

theorem hist3'_nc : NoConstraints hist3' := noConstraintsB_sound (by decide)

theorem σ3_reach0 : ∀ v, Reach σ3 (.var 0) v → v = 0 := by
  have c0 : Closed σ3 (fun v => v = 0) := by
    intro w b hw hb
    have hw' : w = 0 := hw
    subst hw'
    cases hb
  exact reach_in_closed c0 (termIn_var.mpr rfl)

theorem σ3_reach1 : ∀ v, Reach σ3 (.var 1) v → v = 1 := by
  have c1 : Closed σ3 (fun v => v = 1) := by
    intro w b hw hb
    have hw' : w = 1 := hw
    subst hw'
    cases hb
  exact reach_in_closed c1 (termIn_var.mpr rfl)

/-- `σ3` with a different unrelated third variable -/
def σ3alt : Store :=
  { vars := [{ lower := some 6 }, { upper := some 5, cset := 1 }, { lower := some 5, cset := 2 }],
    csets := [[], [], []] }

theorem σ3alt_nc : NoConstraints σ3alt := noConstraintsB_sound (by decide)

theorem σ3alt_same : SameOn (fun v => Reach σ3 (.var 0) v ∨ Reach σ3 (.var 1) v) σ3 σ3alt := by
  refine ⟨rfl, rfl, fun v hv => ?_⟩
  rcases hv with h | h
  · rw [σ3_reach0 v h]; rfl
  · rw [σ3_reach1 v h]; rfl

theorem σ3alt_same0 : SameOn (Reach σ3 (.var 0)) σ3 σ3alt :=
  ⟨rfl, rfl, fun v h => by rw [σ3_reach0 v h]; rfl⟩

/-- `x0` fresh, and an earlier unrelated expression `x1 := F(A)` -/
def σ4 : Store := { vars := [{}, { bound := some (.app 7 [.app 5 []]), cset := 1 }], csets := [[], []] }
def σ4a : Store :=
  { vars := [{ lower := some 6 }, { bound := some (.app 7 [.app 5 []]), cset := 1 }], csets := [[], []] }
def σ4b : Store :=
  { vars := [{ bound := some (.app 6 []), lower := some 6 }, { bound := some (.app 7 [.app 5 []]), cset := 1 }],
    csets := [[], []] }

theorem σ4_nc : NoConstraints σ4 := noConstraintsB_sound (by decide)

/-- `(x0 ** x0)` applied to `B`: `x0 := B`, result `B` -/
theorem ex4_run : applyT exL 10 σ4 (.app FUN [.var 0, .var 0]) (.app 6 []) true = .ok (σ4b, .app 6 []) := by
  have t1 : unify exL 10 σ4 (.app 6 []) (.var 0) true false false = .ok σ4a := by
    rw [unify_base_unbound rfl]; with_unfolding_all rfl
  rw [applyT_fun, followT_app, t1]
  with_unfolding_all rfl

theorem ex4_disjoint : ∀ v, Reach σ4 (.var 1) v →
    v < σ4.vars.length ∧ ¬ Reach σ4 (.app FUN [.var 0, .var 0]) v ∧ ¬ Reach σ4 (.app 6 []) v := by
  have c1 : Closed σ4 (fun v => v = 1) := by
    intro w b hw hb
    have hw' : w = 1 := hw
    subst hw'
    have e : b = .app 7 [.app 5 []] := by
      have : (getVar σ4 1).bound = some (.app 7 [.app 5 []]) := rfl
      rw [this] at hb; injection hb with hb; exact hb.symm
    subst e
    exact termIn_closed (by decide)
  have c0 : Closed σ4 (fun v => v = 0) := by
    intro w b hw hb
    have hw' : w = 0 := hw
    subst hw'
    cases hb
  have cF : Closed σ4 (fun _ => False) := fun _ _ hw _ => hw.elim
  intro v h1
  have e1 : v = 1 := reach_in_closed c1 (termIn_var.mpr rfl) v h1
  subst e1
  refine ⟨by decide, fun h => ?_, fun h => ?_⟩
  · have hf : TermIn (fun v => v = 0) (.app FUN [.var 0, .var 0]) :=
      termIn_app.mpr (termsIn_cons.mpr ⟨termIn_var.mpr rfl, termsIn_cons.mpr ⟨termIn_var.mpr rfl, termsIn_nil⟩⟩)
    have := reach_in_closed c0 hf 1 h
    exact absurd this (by decide)
  · exact reach_in_closed cF (termIn_closed (by decide)) 1 h

end Tfv.C16P
