import Tfv.Proofs.AgreeConstrEngine
import Tfv.Proofs.FrameConstrReach
/-!
# The engine WITH pending constraints reads only its region (C16), part 3

`applyT`, chains of applications, `addConstraint(s)`, `instantiate` and whole uses of a schema in lockstep on two
stores that agree on a closed region; the final statements in terms of `SameOnC` / `SameResultC` / `SameOutcomeC`.
-/
namespace Tfv.C16C
open Tfv Tfv.C03P Tfv.C16P Tfv.C03C Tfv.C18P

/-! ## 1. `applyT` -/

theorem applyPre_agree {L : Lang} {n : Nat} {R : Region} {τ τ' : Store} {f0 : Term}
    (a : AgreeC R τ τ') (hf : TermInR τ R.S f0) : RelP R (applyPre L n τ f0) (applyPre L n τ' f0) := by
  cases f0 with
  | app o args =>
    simp only [applyPre]
    exact RelP.ok a _
  | var fv =>
    simp only [applyPre, snd_newVar, length_newVar, a.same.vlen]
    have aAB := (a.newVar false).newVar false
    have fA := frC_newVar a.closed false
    have fB := frC_newVar fA.closed false
    have fAB := fA.trans fB
    have hterm : TermInR (newVar (newVar τ).1).1 R.S (.app FUN [.var τ.vars.length, .var (τ.vars.length + 1)]) := by
      refine termInR_app.mpr (termsInR_cons.mpr ⟨termInR_var.mpr ⟨a.closed.sfr _ ?_, ?_⟩,
        termsInR_cons.mpr ⟨termInR_var.mpr ⟨a.closed.sfr _ ?_, ?_⟩, termsInR_nil⟩⟩)
      · exact Nat.le_refl _
      · simp only [length_newVar]; omega
      · omega
      · simp only [length_newVar]; omega
    have hfv := fAB.ins (termInR_var.mp hf)
    rcases RelS.cases ((all_agreeC L n).2.2.1 R _ _ fv _ aAB hfv hterm) with ⟨e, h1, h2⟩ | ⟨τ3, τ3', e1, e2, a3⟩
    · rw [h1, h2]; exact RelX.err _ _
    rw [e1, e2]
    simp only []
    have f3 := (all_frameC L n).2.2.1 R _ fv _ τ3 fB.closed hfv hterm e1
    rw [a3.followT ((fAB.trans f3).tin hf)]
    exact RelP.ok a3 _

theorem applyPost_agree {L : Lang} {n : Nat} {R : Region} {τ τ' : Store} {x0 f1 : Term} {fixFlag : Bool}
    (a : AgreeC R τ τ') (hf : TermInR τ R.S f1) (hx : TermInR τ R.S x0) :
    RelP R (applyPost L n τ x0 f1 fixFlag) (applyPost L n τ' x0 f1 fixFlag) := by
  unfold applyPost
  split
  · next o l r0 =>
    have hargs := termInR_app.mp hf
    obtain ⟨hl, hr0⟩ := termsInR_cons.mp hargs
    obtain ⟨hr0, _⟩ := termsInR_cons.mp hr0
    split
    · rcases RelS.cases ((all_agreeC L n).1 R τ τ' x0 l true false false a hx hl) with
        ⟨e, h1, h2⟩ | ⟨τ1, τ1', e1, e2, a1⟩
      · rw [h1, h2]; exact RelX.err _ _
      rw [e1, e2]
      simp only []
      have f1 := (all_frameC L n).1 R τ x0 l true false false τ1 a.closed hx hl e1
      split
      · exact (all_agreeC L n).2.2.2.2.2.1 R τ1 τ1' r0 true a1 (f1.tin hr0)
      · exact RelP.ok a1 _
    · split
      · exact RelP.ok a _
      · exact RelX.err _ _
  · split
    · exact RelP.ok a _
    · exact RelX.err _ _
  · exact RelX.err _ _

theorem applyT_agree {L : Lang} {n : Nat} {R : Region} {τ τ' : Store} {f x : Term} {fixFlag : Bool}
    (a : AgreeC R τ τ') (hf : TermInR τ R.S f) (hx : TermInR τ R.S x) :
    RelP R (applyT L n τ f x fixFlag) (applyT L n τ' f x fixFlag) := by
  rw [applyT_eq, applyT_eq, a.followT hf, a.followT hx]
  rcases RelP.cases (applyPre_agree (L := L) (n := n) a (followT_inR a.closed hf)) with
    ⟨e, h1, h2⟩ | ⟨τ1, τ1', f1, e1, e2, a1⟩
  · rw [h1, h2]; exact RelX.err _ _
  rw [e1, e2]
  simp only []
  obtain ⟨fr1, hf1⟩ := applyPre_frC a.closed (followT_inR a.closed hf) e1
  exact applyPost_agree a1 hf1 (fr1.tin (followT_inR a.closed hx))

theorem applyAll_agree {L : Lang} (n : Nat) (fixFlag : Bool) {R : Region} :
    ∀ (xs : List Term) (τ τ' : Store) (f : Term), AgreeC R τ τ' → TermInR τ R.S f → TermsInR τ R.S xs →
    RelP R (applyAll L n fixFlag τ f xs) (applyAll L n fixFlag τ' f xs)
  | [], τ, τ', f, a, _, _ => by
    unfold applyAll
    exact RelP.ok a f
  | x :: xs, τ, τ', f, a, hf, hxs => by
    obtain ⟨hx, hxs'⟩ := termsInR_cons.mp hxs
    rw [applyAll, applyAll]
    rcases RelP.cases (applyT_agree (L := L) (n := n) (fixFlag := fixFlag) a hf hx) with
      ⟨e, h1, h2⟩ | ⟨τ1, τ1', r1, e1, e2, a1⟩
    · rw [h1, h2]; exact RelX.err _ _
    rw [e1, e2]
    simp only []
    obtain ⟨f1, hr1⟩ := applyT_frC a.closed hf hx e1
    exact applyAll_agree n fixFlag xs τ1 τ1' r1 a1 hr1 (f1.tins hxs')

/-! ## 2. registering a constraint -/

theorem foldl_directVars_congr {R : Region} {τ τ' : Store} (a : AgreeC R τ τ') (m : Nat) :
    ∀ (ts : List Term) (acc : List Nat), TermsInR τ R.S ts →
      ts.foldl (fun acc t => directVars τ' m t acc) acc = ts.foldl (fun acc t => directVars τ m t acc) acc :=
  fun ts acc hts => foldl_congr ts acc (fun acc t ht => a.directVars m acc (hts t ht))

theorem foldl_constrVars_congr {R : Region} {τ τ' : Store} (a : AgreeC R τ τ') (m : Nat) (cs : List Nat)
    (acc : List Nat) (hcs : ∀ c, c ∈ cs → R.C c ∧ c < τ.constrs.length) :
    cs.foldl (fun acc c => (constrTerms (getConstr τ' c)).foldl (fun acc t => directVars τ' m t acc) acc) acc =
      cs.foldl (fun acc c => (constrTerms (getConstr τ c)).foldl (fun acc t => directVars τ m t acc) acc) acc :=
  foldl_congr cs acc (fun acc c hc => by
    rw [a.same.csame c (hcs c hc).1]
    exact foldl_directVars_congr a m _ acc (fun u hu => a.closed.ctm c u (hcs c hc).2 (hcs c hc).1 hu))

theorem indirectVars_congr {R : Region} {τ τ' : Store} (a : AgreeC R τ τ') :
    ∀ (n : Nat) (work seen : List Nat), (∀ x, x ∈ work → InStore τ R.S x) →
      (∀ x, x ∈ seen → InStore τ R.S x) → indirectVars τ' n work seen = indirectVars τ n work seen
  | 0, _, _, _, _ => by unfold indirectVars; rfl
  | n+1, [], _, _, _ => by unfold indirectVars; rfl
  | n+1, v :: work, seen, hwork, hseen => by
    have hv := hwork v List.mem_cons_self
    have hk := a.closed.cs v hv.2 hv.1
    have hmem : ∀ c, c ∈ getCset τ (getVar τ v).cset → R.C c ∧ c < τ.constrs.length :=
      fun c hm => a.closed.mem _ c hk hm
    have hfound := foldl_constrVars_in a.closed (termFuel τ) (getCset τ (getVar τ v).cset) seen hmem hseen
    unfold indirectVars
    simp only []
    rw [a.csetOf hv, a.termFuel, foldl_constrVars_congr a (termFuel τ) _ seen hmem]
    refine indirectVars_congr a n _ _ (fun x hx => ?_) hfound
    rcases List.mem_append.mp hx with h1 | h1
    · exact hwork x (List.mem_cons_of_mem _ h1)
    · exact hfound x (List.mem_filter.mp h1).1

theorem varsOfTerms_congr {R : Region} {τ τ' : Store} (a : AgreeC R τ τ') {ts : List Term}
    (hts : TermsInR τ R.S ts) : varsOfTerms τ' ts = varsOfTerms τ ts := by
  unfold varsOfTerms
  simp only []
  have hd := foldl_directVars_in a.closed (termFuel τ) ts [] hts (fun x hx => nomatch hx)
  rw [a.termFuel, foldl_directVars_congr a (termFuel τ) ts [] hts, a.same.vlen, a.same.clen]
  exact indirectVars_congr a _ _ _ hd hd

theorem getConstr_regStore (σ : Store) (x : Constr) (c : Nat) :
    getConstr (regStore σ x) c =
      if c < σ.constrs.length then getConstr σ c else if c = σ.constrs.length then x
      else .sub (.var 0) (.var 0) false true := by
  split
  · next h => exact getConstr_regStore_lt h
  · split
    · next h => subst h; exact getConstr_regStore_eq σ x
    · unfold getConstr regStore
      rw [List.getD_eq_getElem?_getD, List.getElem?_eq_none (by simp; omega)]
      rfl

theorem agreeC_regStore {R : Region} {τ τ' : Store} (a : AgreeC R τ τ') {x : Constr}
    (hx : TermsInR τ R.S (constrTerms x)) : AgreeC R (regStore τ x) (regStore τ' x) := by
  obtain ⟨f, hl⟩ := frC_regStore a.closed hx
  have hl' : (regStore τ' x).constrs.length = τ'.constrs.length + 1 := by unfold regStore; simp
  refine ⟨⟨a.same.vlen, a.same.klen, by rw [hl, hl', a.same.clen], a.same.vsame, a.same.ksame,
    fun c hc => ?_⟩, f.closed⟩
  rw [getConstr_regStore, getConstr_regStore, a.same.clen, a.same.csame c hc]

theorem agreeC_informStore {R : Region} (id : Nat) (hid : R.C id) : ∀ (vars : List Nat) (τ τ' : Store),
    AgreeC R τ τ' → id < τ.constrs.length → (∀ x, x ∈ vars → InStore τ R.S x) →
    AgreeC R (informStore id vars τ) (informStore id vars τ')
  | [], _, _, a, _, _ => a
  | v :: vars, τ, τ', a, hlt, hvars => by
    have hv := hvars v List.mem_cons_self
    have hk := a.closed.cs v hv.2 hv.1
    unfold informStore
    simp only [List.foldl_cons]
    rw [a.vs v hv, a.same.ksame _ hk]
    have a1 := a.set_cs hk (cs := insertSorted id (getCset τ (getVar τ v).cset)) (fun c hm => by
      rcases mem_insertSorted hm with h1 | h1
      · rw [h1]; exact ⟨hid, hlt⟩
      · exact a.closed.mem _ c hk h1)
    exact agreeC_informStore id hid vars _ _ a1 hlt (fun x hx => hvars x (List.mem_cons_of_mem _ hx))

theorem normC_congr {R : Region} {τ τ' : Store} (a : AgreeC R τ τ') {c : Constr}
    (h : TermsInR τ R.S (constrTerms c)) : normC τ' c = normC τ c := by
  cases c with
  | sub r t s f =>
    rw [constrTerms_sub] at h
    obtain ⟨h1, h2⟩ := termsInR_cons.mp h
    obtain ⟨h2, _⟩ := termsInR_cons.mp h2
    show Constr.sub (followT τ' r) (followT τ' t) s f = Constr.sub (followT τ r) (followT τ t) s f
    rw [a.followT h1, a.followT h2]
  | elim r alts f =>
    rw [constrTerms_elim] at h
    obtain ⟨_, h2⟩ := termsInR_cons.mp h
    show Constr.elim r (alts.map (followT τ')) f = Constr.elim r (alts.map (followT τ)) f
    rw [map_congr' alts (fun t ht => a.followT (h2 t ht))]

theorem addConstraint_agree {L : Lang} {n : Nat} {R : Region} {τ τ' : Store} {c : Constr}
    (a : AgreeC R τ τ') (hterms : TermsInR τ R.S (constrTerms c)) :
    RelS R (addConstraint L n τ c) (addConstraint L n τ' c) := by
  have hid : R.C τ.constrs.length := a.closed.cfr _ (Nat.le_refl _)
  have hn := termsInR_normC a.closed hterms
  obtain ⟨f1, hl1⟩ := frC_regStore a.closed hn
  have aR := agreeC_regStore a hn
  have hlt : τ.constrs.length < (regStore τ (normC τ c)).constrs.length := by rw [hl1]; omega
  have hvars := varsOfTerms_in f1.closed (f1.tins hn)
  rw [addConstraint_eq, addConstraint_eq]
  simp only [normC_congr a hterms, a.same.clen, varsOfTerms_congr aR (f1.tins hn)]
  have hany : (varsOfTerms (regStore τ (normC τ c)) (constrTerms (normC τ c))).any
        (fun v => (getVar (regStore τ' (normC τ c)) v).bound.isSome) =
      (varsOfTerms (regStore τ (normC τ c)) (constrTerms (normC τ c))).any
        (fun v => (getVar (regStore τ (normC τ c)) v).bound.isSome) :=
    any_congr _ (fun v hv => by rw [aR.vs v (hvars v hv)])
  rw [hany]
  split
  · exact RelX.err _ _
  · obtain ⟨f2, hl2⟩ := frC_informStore τ.constrs.length hid _ _ f1.closed hlt hvars
    have aI := agreeC_informStore τ.constrs.length hid _ _ _ aR hlt hvars
    rcases RelP.cases ((all_agreeC L n).2.2.2.2.2.2.2.2.2.1 R _ _ τ.constrs.length aI hid
        (by rw [hl2]; exact hlt)) with ⟨e, h1, h2⟩ | ⟨τ1, τ1', d, e1, e2, a1⟩
    · rw [h1, h2]; exact RelX.err _ _
    · rw [e1, e2]; exact RelX.ok a1

theorem addConstraints_agree {L : Lang} (n : Nat) (base k : Nat) {R : Region} (hS : ∀ v, base ≤ v → R.S v) :
    ∀ (cs : List CAst) (τ τ' : Store), AgreeC R τ τ' → base + k ≤ τ.vars.length →
    (∀ c, c ∈ cs → okCAstN L k c = true) →
    RelS R (addConstraints L n base τ cs) (addConstraints L n base τ' cs)
  | [], τ, τ', a, _, _ => by
    unfold addConstraints
    exact RelX.ok a
  | c :: cs, τ, τ', a, hb, hcs => by
    have hcc := hcs c List.mem_cons_self
    have tail : ∀ c', TermsInR τ R.S (constrTerms c') →
        RelS R (match addConstraint L n τ c' with
          | .error e => .error e
          | .ok σ1 => addConstraints L n base σ1 cs)
          (match addConstraint L n τ' c' with
          | .error e => .error e
          | .ok σ1 => addConstraints L n base σ1 cs) := fun c' hterms => by
      rcases RelS.cases (addConstraint_agree (L := L) (n := n) a hterms) with ⟨e, h1, h2⟩ | ⟨τ1, τ1', e1, e2, a1⟩
      · rw [h1, h2]; exact RelX.err _ _
      rw [e1, e2]
      simp only []
      have f1 := addConstraint_frC a.closed hterms e1
      exact addConstraints_agree n base k hS cs τ1 τ1' a1 (Nat.le_trans hb f1.len)
        (fun c'' hc' => hcs c'' (List.mem_cons_of_mem _ hc'))
    cases c with
    | sub r t s =>
      unfold okCAstN at hcc
      rw [Bool.and_eq_true] at hcc
      unfold addConstraints
      exact tail _ (termsInR_sub s false (termInR_shift hS hb hcc.1) (termInR_shift hS hb hcc.2))
    | elim r alts =>
      unfold okCAstN at hcc
      rw [Bool.and_eq_true] at hcc
      unfold addConstraints
      simp only []
      rw [a.followT (termInR_shift hS hb hcc.1)]
      exact tail _ (termsInR_elim false (followT_inR a.closed (termInR_shift hS hb hcc.1))
        (termsInR_shiftL hS hb hcc.2))

/-! ## 3. `instantiate` -/

theorem agreeC_foldl_newVar {R : Region} {α : Type} (wc : Bool) : ∀ (l : List α) (τ τ' : Store), AgreeC R τ τ' →
    AgreeC R (l.foldl (fun σ _ => (newVar σ wc).1) τ) (l.foldl (fun σ _ => (newVar σ wc).1) τ')
  | [], _, _, a => a
  | _ :: l, _, _, a => by
    simp only [List.foldl_cons]
    exact agreeC_foldl_newVar wc l _ _ (a.newVar wc)

theorem agreeC_allocVars {R : Region} {τ τ' : Store} (a : AgreeC R τ τ') (nvars nwild : Nat) :
    AgreeC R (allocVars τ nvars nwild) (allocVars τ' nvars nwild) := by
  unfold allocVars
  simp only []
  exact agreeC_foldl_newVar true _ _ _ (agreeC_foldl_newVar false _ _ _ a)

theorem spineFollow_congr {R : Region} {τ τ' : Store} (a : AgreeC R τ τ') (t : Term)
    (ht : TermInR τ R.S t) : spineFollow τ' t = spineFollow τ t := by
  fun_induction spineFollow τ t with
  | case1 o l r ho ih =>
    obtain ⟨hl, h4⟩ := termsInR_cons.mp (termInR_app.mp ht)
    obtain ⟨hr, _⟩ := termsInR_cons.mp h4
    conv => lhs; rw [spineFollow.eq_def]
    simp only [ho, ↓reduceIte]
    rw [ih hr]
    cases l with
    | var v => simp only []; rw [a.followT hl]
    | app p args => rfl
  | case2 o l r ho =>
    conv => lhs; rw [spineFollow.eq_def]
    simp only [ho]
    rfl
  | case3 v =>
    conv => lhs; rw [spineFollow.eq_def]
    exact a.followT ht
  | case4 t h1 h2 =>
    conv => lhs; rw [spineFollow.eq_def]
    split
    · next o l r => exact absurd rfl (h1 o l r)
    · next v => exact absurd rfl (h2 v)
    · rfl

theorem instantiate_agree {L : Lang} {n : Nat} {R : Region} {τ τ' : Store} {s : Schema}
    (a : AgreeC R τ τ')
    (hcs : ∀ c, c ∈ s.constraints → okCAstN L (s.nvars + s.nwild) c = true)
    (hbody : okTermN L (s.nvars + s.nwild) s.body = true) :
    RelP R (instantiate L n τ s) (instantiate L n τ' s) := by
  unfold instantiate
  simp only [a.same.vlen]
  obtain ⟨f0, hlen⟩ := frC_allocVars (R := R) a.closed s.nvars s.nwild
  have a0 := agreeC_allocVars a s.nvars s.nwild
  have hb : τ.vars.length + (s.nvars + s.nwild) ≤ (allocVars τ s.nvars s.nwild).vars.length := by
    rw [hlen]; omega
  rcases RelS.cases (addConstraints_agree (L := L) n τ.vars.length (s.nvars + s.nwild) a.closed.sfr
      s.constraints _ _ a0 hb hcs) with ⟨e, h1, h2⟩ | ⟨τ1, τ1', e1, e2, a1⟩
  · rw [h1, h2]; exact RelX.err _ _
  rw [e1, e2]
  simp only []
  have f1 := addConstraints_frC n τ.vars.length (s.nvars + s.nwild) a.closed.sfr s.constraints _ τ1 f0.closed hb hcs e1
  have hbody1 : TermInR τ1 R.S (s.body.shift τ.vars.length) :=
    termInR_shift a.closed.sfr (Nat.le_trans hb f1.len) hbody
  rw [spineFollow_congr a1 _ hbody1]
  exact (all_agreeC L n).2.2.2.2.2.1 R τ1 τ1' _ true a1 (spineFollow_inR f1.closed _ hbody1)

theorem useSchema_agree {L : Lang} {n : Nat} {fixFlag : Bool} {R : Region} {τ τ' : Store} {s : Schema}
    {xs : List Term} (a : AgreeC R τ τ')
    (hcs : ∀ c, c ∈ s.constraints → okCAstN L (s.nvars + s.nwild) c = true)
    (hbody : okTermN L (s.nvars + s.nwild) s.body = true) (hxs : TermsInR τ R.S xs) :
    RelP R (useSchema L n fixFlag τ s xs) (useSchema L n fixFlag τ' s xs) := by
  unfold useSchema
  rcases RelP.cases (instantiate_agree (L := L) (n := n) a hcs hbody) with ⟨e, h1, h2⟩ | ⟨τ1, τ1', f, e1, e2, a1⟩
  · rw [h1, h2]; exact RelX.err _ _
  rw [e1, e2]
  simp only []
  obtain ⟨f1, hf, _⟩ := instantiate_frC a.closed hcs hbody e1
  exact applyAll_agree n fixFlag xs τ1 τ1' f a1 hf (f1.tins hxs)

/-! ## 4. the statements in terms of `SameOnC` -/

theorem sameResultC_of_relS {R : Region} {r r' : Except Err Store} (h : RelS R r r') : SameResultC R r r' := by
  cases r with
  | error e => exact h
  | ok τ1 =>
    obtain ⟨τ1', e, a⟩ := h
    exact ⟨τ1', e, a.same⟩

theorem sameOutcomeC_of_relP {α : Type} {R : Region} {r r' : Except Err (Store × α)} (h : RelP R r r') :
    SameOutcomeC R r r' := by
  rcases RelP.cases h with ⟨e, h1, h2⟩ | ⟨τ1, τ1', x, e1, e2, a1⟩
  · rw [h1, h2]; rfl
  · rw [e1, e2]; exact ⟨τ1', rfl, a1.same⟩

theorem getConstr_oor {σ : Store} {c : Nat} (h : σ.constrs.length ≤ c) :
    getConstr σ c = .sub (.var 0) (.var 0) false true := by
  unfold getConstr
  rw [List.getD_eq_getElem?_getD, List.getElem?_eq_none h]
  rfl

/-- two stores with the same numbers of variables, constraint sets and constraints agree on everything that is not
yet allocated, whatever they contain -/
theorem agreeC_fresh {τ τ' : Store} (hv : τ'.vars.length = τ.vars.length) (hk : τ'.csets.length = τ.csets.length)
    (hc : τ'.constrs.length = τ.constrs.length) : AgreeC (freshRegion τ) τ τ' := by
  refine ⟨⟨hv, hk, hc, fun v hS => ?_, fun k hK => ?_, fun c hC => ?_⟩, closedC_fresh τ⟩
  · have hS : τ.vars.length ≤ v := hS
    rw [getVar_oor (by omega), getVar_oor (by omega)]
  · have hK : τ.csets.length ≤ k := hK
    rw [getCset_oor hK, getCset_oor (by omega)]
  · have hC : τ.constrs.length ≤ c := hC
    rw [getConstr_oor hC, getConstr_oor (by omega)]

theorem termsInR_closed {σ : Store} {S : Nat → Prop} {xs : List Term} (h : Term.closedL xs = true) :
    TermsInR σ S xs := by
  intro t ht v hv
  exfalso
  have key : ∀ (t : Term), VarIn v t → t.closed = false := by
    intro t hv
    induction hv with
    | var => rfl
    | @app o args u hm _ ih =>
      rw [Term.closed]
      induction args with
      | nil => cases hm
      | cons x xs ihx =>
        rw [Term.closedL]
        rcases List.mem_cons.mp hm with e | e
        · subst e; rw [ih]; rfl
        · rw [ihx e]; simp
  have : ∀ (xs : List Term), Term.closedL xs = true → ∀ t, t ∈ xs → t.closed = true := by
    intro xs
    induction xs with
    | nil => intro _ t ht; cases ht
    | cons x xs ih =>
      intro h t ht
      rw [Term.closedL, Bool.and_eq_true] at h
      rcases List.mem_cons.mp ht with e | e
      · rw [e]; exact h.1
      · exact ih h.2 t e
  have h1 := this xs h t ht
  rw [key t hv] at h1
  cases h1

end Tfv.C16C
