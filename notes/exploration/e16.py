import sys, random, itertools, warnings, re
warnings.filterwarnings('ignore')
REPO=sys.argv[1]; sys.path.insert(0,REPO)
from transforge.type import *
from transforge.type import _
from transforge.expr import *
from transforge.lang import *
from transforge.graph import *
from transforge.query import *
from rdflib import Dataset, RDF, BNode, Graph
A=TypeOperator('A'); B=TypeOperator('B',supertype=A); C=TypeOperator('C',supertype=B); D=TypeOperator('D')
F=TypeOperator('F',params=1)
ops=dict(
 ab=Operator(type=A**B,name='ab'), bc=Operator(type=B**C,name='bc'), ad=Operator(type=A**D,name='ad'),
 g=Operator(type=lambda x: x**x,name='g'), h=Operator(type=lambda x: x**x**x,name='h'),
 w=Operator(type=lambda x: x**F(x),name='w'), u=Operator(type=lambda x: F(x)**x,name='u'),
 dd=Operator(type=D**A**D,name='dd'), m=Operator(type=(A**A)**A**A, name='m'),
)
lang=Language(dict(A=A,B=B,C=C,D=D,F=F,**ops), namespace=TEST, canon={A,D,F(A),F(F(A))})
rng=random.Random(int(sys.argv[2]))
def gen(d):
    r=rng.random()
    if d==0 or r<0.2: return Source(rng.choice([A,B,C,D,F(A),F(C)]))
    o=rng.choice(list(ops))
    try:
        if o in('ab','bc','ad','g','w','u'): return ops[o](gen(d-1))
        if o in('h','dd'): return ops[o](gen(d-1),gen(d-1))
        if o=='m': return ops[o](ops[rng.choice(['ab','g'])].instance(), gen(d-1))
    except Exception: return gen(d)
def plain(sparql):
    # make the prefilter part of the main pattern
    s=sparql.replace("{SELECT DISTINCT ?workflow WHERE {\n","").replace("} GROUP BY ?workflow}\n","")
    return s
stats={'self_ok':0,'self_fail':0,'self_fail_plain':0}
for it in range(150):
    e=gen(3); e.fix()
    g=TransformationGraph(lang); root=TEST.wf
    out=g.add_expr(e, root); g.add((root,RDF.type,TF.Transformation)); g.add((root,TF.output,out))
    ds=Dataset(); gg=ds.add_graph(root); gg+=g
    # task = the workflow's own graph: all concept nodes with type & via, from edges
    t=TransformationGraph(lang); troot=BNode(); t.add((troot,RDF.type,TF.Task))
    for s_,p,o in g:
        if p in (TF['from'],TF.via): t.add((s_,p,o))
        if p==TF.type and isinstance(o,URIRef): t.add((s_,p,o))
    t.add((troot,TF.output,out))
    try:
        q=TransformationQuery(lang,t,root=troot)
        sp=q.sparql()
    except Exception as ex:
        stats.setdefault('qerr:'+type(ex).__name__,0); stats['qerr:'+type(ex).__name__]+=1; continue
    r1=bool(list(ds.query(sp)))
    r2=bool(list(ds.query(plain(sp))))
    if r1: stats['self_ok']+=1
    else:
        stats['self_fail']+=1
        if stats['self_fail']<3: print('SELF-FAIL', e); 
    if not r2:
        stats['self_fail_plain']+=1
        if stats['self_fail_plain']<3:
            print('PLAIN-FAIL', e)
print(REPO, stats)
