import Tfv.Proofs.FuelStable
/-!
# Fuel stability lifted through the engine: a run whose fuelled helper calls are all safe is independent of the offsets

`safe L n` mirrors the twelve functions of the engine block at fuel `n` (run at offset `0`) and checks, at every call of a
fuelled helper, the hypotheses of `Tfv/Proofs/FuelStable.lean`: the binding chains of the current store end (`chainsB`)
and the terms walked are resolved-shallow (`rdepthB σ 63`, below every store-size fuel). It is a decidable property of
the FRESH run. Theorem: a safe run gives the same result for every fuel offset.
-/
namespace Tfv.C16D
open Tfv Tfv.C03P Tfv.C16P Tfv.C03C Tfv.C16C Tfv.C18P Tfv.C16H Tfv.C17E

/-- the guard: chains end, and the listed terms are resolved-shallow -/
def okAt (σ : Store) (ts : List Term) : Bool := chainsB σ && ts.all (rdepthB σ 63)

theorem okAt_fuelOk {σ : Store} {ts : List Term} (h : okAt σ ts = true) : FuelOk σ := by
  simp only [okAt, Bool.and_eq_true] at h
  exact fuelOk_of_chainsB h.1

theorem okAt_rdepth {σ : Store} {ts : List Term} (h : okAt σ ts = true) {t : Term} (ht : t ∈ ts) : RDepth σ 63 t := by
  simp only [okAt, Bool.and_eq_true, List.all_eq_true] at h
  exact rdepthB_sound 63 t (h.2 t ht)

structure SafeFam where
  unify : Store → Term → Term → Bool → Bool → Bool → Bool
  unifyList : Store → List Bool → List Term → List Term → Bool → Bool → Bool → Bool
  bind : Store → Nat → Term → Bool
  above : Store → Nat → Nat → Bool
  below : Store → Nat → Nat → Bool
  checkConstraints : Store → Nat → Bool
  checkList : Store → Nat → List Nat → Bool
  fulfill : Store → Nat → Bool
  minimize : Store → Nat → Bool
  minLoop : Store → List Term → List Term → Bool
  fix : Store → Term → Bool → Bool
  fixList : Store → List Bool → List Term → Bool → Bool

/-- then: the continuation's check on a successful result -/
def thenOk {α : Type} (r : Except Err α) (k : α → Bool) : Bool :=
  match r with
  | .error _ => true
  | .ok x => k x

def safeZero : SafeFam :=
  ⟨fun _ _ _ _ _ _ => true, fun _ _ _ _ _ _ _ => true, fun _ _ _ => true, fun _ _ _ => true, fun _ _ _ => true,
   fun _ _ => true, fun _ _ _ => true, fun _ _ => true, fun _ _ => true, fun _ _ _ => true, fun _ _ _ => true,
   fun _ _ _ _ => true⟩

def safeSucc (L : Lang) (n : Nat) (ih : SafeFam) : SafeFam where
  unify := fun σ a b st sb sw =>
    okAt σ [a, b] &&
    match followT σ a, followT σ b with
    | .var av, .var bv =>
      if !sw || !((getVar σ av).wildcard && (getVar σ bv).wildcard) then ih.bind σ av (.var bv) else true
    | .app ao as, .app bo bs =>
      if ao == BOT || bo == TOP then true
      else if arityOf L ao == 0 then true
      else if ao == bo then ih.unifyList σ (varianceOf L ao) as bs st sb sw
      else true
    | .var av, .app bo bs =>
      if bo == TOP then true
      else if occursE L 0 σ (termFuelE 0 σ) (.app bo bs) (.var av) then true
      else if arityOf L bo == 0 then
        if sb || (sw && (getVar σ av).wildcard) then true
        else if st then ih.below σ av bo
        else ih.bind σ av (.app bo bs)
      else
        if sw || sb then
          ih.bind (newVars σ bs.length).1 av (.app bo (newVars σ bs.length).2) &&
          thenOk (bindE L 0 n (newVars σ bs.length).1 av (.app bo (newVars σ bs.length).2))
            (fun σ2 => ih.unify σ2 (.var av) (.app bo bs) st sb sw)
        else ih.bind σ av (.app bo bs)
    | .app ao as, .var bv =>
      if ao == BOT then true
      else if occursE L 0 σ (termFuelE 0 σ) (.app ao as) (.var bv) then true
      else if arityOf L ao == 0 then
        if sb || (sw && (getVar σ bv).wildcard) then true
        else if st then ih.above σ bv ao
        else ih.bind σ bv (.app ao as)
      else
        if sw || sb then
          ih.bind (newVars σ as.length).1 bv (.app ao (newVars σ as.length).2) &&
          thenOk (bindE L 0 n (newVars σ as.length).1 bv (.app ao (newVars σ as.length).2))
            (fun σ2 => ih.unify σ2 (.var bv) (.var bv) st sb sw)
        else ih.bind σ bv (.app ao as)
  unifyList := fun σ vs xs ys st sb sw =>
    match vs, xs, ys with
    | v :: vs, x :: xs, y :: ys =>
      (if v then ih.unify σ x y st sb sw else ih.unify σ y x st sb sw) &&
      thenOk (if v then unifyE L 0 n σ x y st sb sw else unifyE L 0 n σ y x st sb sw)
        (fun σ1 => ih.unifyList σ1 vs xs ys st sb sw)
    | _, _, _ => true
  bind := fun σ v t =>
    let i := getVar σ v
    if i.bound.isSome then true
    else
      let i := { i with wildcard := false }
      let σ := setVar σ v i
      match t with
      | .var tv =>
        if tv == v then true
        else
          let σ := setVar σ v { i with bound := some t }
          let ti := getVar σ tv
          let σ := setCset σ ti.cset (unionSorted (getCset σ ti.cset) (getCset σ i.cset))
          let σ := setVar σ v { (getVar σ v) with cset := ti.cset }
          let σ := setVar σ tv { (getVar σ tv) with wildcard := false }
          (match i.lower with | some l => ih.unify σ (.app l []) (.var tv) true false false | none => true) &&
          thenOk (match i.lower with | some l => unifyE L 0 n σ (.app l []) (.var tv) true false false | none => .ok σ)
            (fun σ =>
              (match i.upper with | some u => ih.unify σ (.var tv) (.app u []) true false false | none => true) &&
              thenOk (match i.upper with | some u => unifyE L 0 n σ (.var tv) (.app u []) true false false | none => .ok σ)
                (fun σ => ih.checkConstraints σ v))
      | .app o args =>
        let σ := setVar σ v { i with bound := some t }
        if arityOf L o == 0 then
          if i.lower.any (fun l => opSub L o l true) then true
          else if i.upper.any (fun u => opSub L u o true) then true
          else ih.checkConstraints σ v
        else
          if i.lower.isSome || i.upper.isSome then true
          else
            okAt σ [.app o args] &&
            (let vars := directVars σ (termFuel σ) (.app o args) []
             let merged := vars.foldl (fun acc w => unionSorted acc (getCset σ (getVar σ w).cset)) (getCset σ i.cset)
             let σ := setCset σ i.cset merged
             let σ := vars.foldl (fun σ w => setVar σ w { (getVar σ w) with cset := i.cset }) σ
             ih.checkConstraints σ v)
  above := fun σ v new =>
    if new == TOP then ih.bind σ v (.app TOP [])
    else
      let i := { (getVar σ v) with wildcard := false }
      let σ := setVar σ v i
      if i.bound.isSome then true
      else
        let r : R :=
          if i.upper.any (fun u => opSub L u new true) then .error .subtypeMismatch
          else if i.upper.any (fun u => !opSub L new u) then .error .subtypeMismatch
          else if i.lower.any (fun l => opSub L new l true) then .ok σ
          else if i.lower.all (fun l => opSub L l new) then
            checkConstraintsE L 0 n (setVar σ v { i with lower := some new }) v
          else .error .subtypeMismatch
        (if i.upper.any (fun u => opSub L u new true) then true
          else if i.upper.any (fun u => !opSub L new u) then true
          else if i.lower.any (fun l => opSub L new l true) then true
          else if i.lower.all (fun l => opSub L l new) then
            ih.checkConstraints (setVar σ v { i with lower := some new }) v
          else true) &&
        thenOk r (fun σ =>
          let i := getVar σ v
          if i.bound.isNone && i.lower.isSome && i.lower == i.upper then
            match i.lower with
            | some l => ih.bind σ v (.app l [])
            | none => true
          else true)
  below := fun σ v new =>
    if new == BOT then ih.bind σ v (.app BOT [])
    else
      let i := { (getVar σ v) with wildcard := false }
      let σ := setVar σ v i
      if i.bound.isSome then true
      else
        let r : R :=
          if i.lower.any (fun l => opSub L new l true) then .error .subtypeMismatch
          else if i.lower.any (fun l => !opSub L l new) then .error .subtypeMismatch
          else if i.upper.any (fun u => opSub L u new true) then .ok σ
          else if i.upper.all (fun u => opSub L new u) then
            checkConstraintsE L 0 n (setVar σ v { i with upper := some new }) v
          else .error .subtypeMismatch
        (if i.lower.any (fun l => opSub L new l true) then true
          else if i.lower.any (fun l => !opSub L l new) then true
          else if i.upper.any (fun u => opSub L u new true) then true
          else if i.upper.all (fun u => opSub L new u) then
            ih.checkConstraints (setVar σ v { i with upper := some new }) v
          else true) &&
        thenOk r (fun σ =>
          let i := getVar σ v
          if i.bound.isNone && i.upper.isSome && i.upper == i.lower then
            match i.upper with
            | some u => ih.bind σ v (.app u [])
            | none => true
          else true)
  checkConstraints := fun σ v => ih.checkList σ v (getCset σ (getVar σ v).cset)
  checkList := fun σ v cs =>
    match cs with
    | [] => true
    | c :: cs =>
      ih.fulfill σ c &&
      thenOk (fulfillE L 0 n σ c) (fun p =>
        let σ2 := if p.2 then
            let k := (getVar p.1 v).cset
            setCset p.1 k ((getCset p.1 k).filter (· != c))
          else p.1
        ih.checkList σ2 v cs)
  fulfill := fun σ c =>
    match getConstr σ c with
    | .sub ref tgt _ _ =>
      ih.unify σ ref tgt true true false &&
      thenOk (unifyE L 0 n σ ref tgt true true false) (fun σ1 => okAt σ1 [ref])
    | .elim _ _ true => true
    | .elim _ _ false =>
      ih.minimize σ c &&
      thenOk (minimizeE L 0 n σ c) (fun σ1 =>
        match getConstr σ1 c with
        | .elim ref alts _ =>
          okAt σ1 [ref] &&
          (match alts.filter (fun t => match3E L 0 σ1 (matchFuelE 0 σ1) true true ref t != some false) with
           | [only] =>
             ih.unify (setConstr σ1 c (.elim ref [only] true)) ref only true false false
           | _ => true)
        | _ => true)
  minimize := fun σ c =>
    match getConstr σ c with
    | .elim _ alts _ =>
      ih.minLoop σ alts [] && thenOk (minLoopE L 0 n σ alts []) (fun p => okAt p.1 [])
    | _ => true
  minLoop := fun σ alts minimized =>
    match alts with
    | [] => true
    | obj :: rest =>
      okAt σ [obj] &&
      (let step (acc : List Term × Bool) (m : Term) : List Term × Bool :=
        let m' := if match3E L 0 σ (matchFuelE 0 σ) true false m obj == some true then followT σ obj else m
        let add' := if match3E L 0 σ (matchFuelE 0 σ) true false obj m' == some true then false else acc.2
        (acc.1 ++ [m'], add')
       let p := minimized.foldl step ([], true)
       if p.2 then
         ih.fix σ (followT σ obj) true &&
         thenOk (fixE L 0 n σ (followT σ obj) true) (fun q => ih.minLoop q.1 rest (p.1 ++ [q.2]))
       else ih.minLoop σ rest p.1)
  fix := fun σ t pl =>
    okAt σ [] &&
    match followT σ t with
    | .app o args => ih.fixList σ (varianceOf L o) args pl
    | .var v =>
      let i := getVar σ v
      if pl && i.lower.isSome then
        match i.lower with
        | some l => ih.bind σ v (.app l []) && thenOk (bindE L 0 n σ v (.app l [])) (fun σ1 => okAt σ1 [])
        | none => true
      else if !pl && i.upper.isSome then
        match i.upper with
        | some u => ih.bind σ v (.app u []) && thenOk (bindE L 0 n σ v (.app u [])) (fun σ1 => okAt σ1 [])
        | none => true
      else true
  fixList := fun σ vs ps pl =>
    match vs, ps with
    | v :: vs, p :: ps =>
      ih.fix σ p (if v then pl else !pl) &&
      thenOk (fixE L 0 n σ p (if v then pl else !pl)) (fun q => ih.fixList q.1 vs ps pl)
    | _, _ => true

/-- the safety check of the engine block at fuel `n` -/
def safe (L : Lang) : Nat → SafeFam
  | 0 => safeZero
  | n+1 => safeSucc L n (safe L n)

/-- all twelve functions of the block, at fuel `n`: a safe call is independent of the offset -/
structure BlockSt (L : Lang) (kv : Nat) (n : Nat) : Prop where
  unify : ∀ σ a b st sb sw, (safe L n).unify σ a b st sb sw = true →
    unifyE L kv n σ a b st sb sw = unifyE L 0 n σ a b st sb sw
  unifyList : ∀ σ vs xs ys st sb sw, (safe L n).unifyList σ vs xs ys st sb sw = true →
    unifyListE L kv n σ vs xs ys st sb sw = unifyListE L 0 n σ vs xs ys st sb sw
  bind : ∀ σ v t, (safe L n).bind σ v t = true → bindE L kv n σ v t = bindE L 0 n σ v t
  above : ∀ σ v o, (safe L n).above σ v o = true → aboveE L kv n σ v o = aboveE L 0 n σ v o
  below : ∀ σ v o, (safe L n).below σ v o = true → belowE L kv n σ v o = belowE L 0 n σ v o
  checkConstraints : ∀ σ v, (safe L n).checkConstraints σ v = true →
    checkConstraintsE L kv n σ v = checkConstraintsE L 0 n σ v
  checkList : ∀ σ v cs, (safe L n).checkList σ v cs = true → checkListE L kv n σ v cs = checkListE L 0 n σ v cs
  fulfill : ∀ σ c, (safe L n).fulfill σ c = true → fulfillE L kv n σ c = fulfillE L 0 n σ c
  minimize : ∀ σ c, (safe L n).minimize σ c = true → minimizeE L kv n σ c = minimizeE L 0 n σ c
  minLoop : ∀ σ alts acc, (safe L n).minLoop σ alts acc = true →
    minLoopE L kv n σ alts acc = minLoopE L 0 n σ alts acc
  fix : ∀ σ t pl, (safe L n).fix σ t pl = true → fixE L kv n σ t pl = fixE L 0 n σ t pl
  fixList : ∀ σ vs ps pl, (safe L n).fixList σ vs ps pl = true →
    fixListE L kv n σ vs ps pl = fixListE L 0 n σ vs ps pl

theorem blockSt_zero (L : Lang) (kv : Nat) : BlockSt L kv 0 where
  unify := by intros; simp only [unifyE]
  unifyList := by intros; simp only [unifyListE]
  bind := by intros; simp only [bindE]
  above := by intros; simp only [aboveE]
  below := by intros; simp only [belowE]
  checkConstraints := by intros; simp only [checkConstraintsE]
  checkList := by intros; simp only [checkListE]
  fulfill := by intros; simp only [fulfillE]
  minimize := by intros; simp only [minimizeE]
  minLoop := by intros; simp only [minLoopE]
  fix := by intros; simp only [fixE]
  fixList := by intros; simp only [fixListE]

theorem thenOk_ok {α : Type} {r : Except Err α} {k : α → Bool} {x : α} (h : thenOk r k = true) (e : r = .ok x) :
    k x = true := by
  rw [e] at h; exact h

set_option hygiene false in
macro "leaf_ih" : tactic => `(tactic| first
  | exact ih.unify _ _ _ _ _ _ hs
  | exact ih.unifyList _ _ _ _ _ _ _ hs
  | exact ih.bind _ _ _ hs
  | exact ih.above _ _ _ hs
  | exact ih.below _ _ _ hs
  | exact ih.checkConstraints _ _ hs
  | exact ih.checkList _ _ _ hs
  | exact ih.fulfill _ _ hs
  | exact ih.minimize _ _ hs
  | exact ih.minLoop _ _ _ hs
  | exact ih.fix _ _ _ hs
  | exact ih.fixList _ _ _ _ hs)

set_option hygiene false in
macro "rw_ih" : tactic => `(tactic| first
  | rw [ih.unify _ _ _ _ _ _ h1]
  | rw [ih.unifyList _ _ _ _ _ _ _ h1]
  | rw [ih.bind _ _ _ h1]
  | rw [ih.above _ _ _ h1]
  | rw [ih.below _ _ _ h1]
  | rw [ih.checkConstraints _ _ h1]
  | rw [ih.checkList _ _ _ h1]
  | rw [ih.fulfill _ _ h1]
  | rw [ih.minimize _ _ h1]
  | rw [ih.minLoop _ _ _ h1]
  | rw [ih.fix _ _ _ h1]
  | rw [ih.fixList _ _ _ _ h1])

syntax "walk" : tactic
set_option hygiene false in
macro_rules | `(tactic| walk) => `(tactic| first
  | (intro _; with_reducible rfl)
  | (intro _; trivial)
  | (intro hs; leaf_ih)
  | (intro h1; rw_ih; done)
  | (intro hs; obtain ⟨h1, h2⟩ := and_split hs; rw_ih;
     split; with_reducible rfl; rename_i heq; have h3 := thenOk_ok h2 heq; (try dsimp only at h3); revert h3; walk)
  | (intro hs; obtain ⟨hg, hs⟩ := and_split hs;
     simp only [directVarsE_fuel_stable (okAt_fuelOk hg) _ _ _ (okAt_rdepth hg List.mem_cons_self) (lt_termFuel _)];
     leaf_ih)
  | (split <;> (try simp only [*]) <;> walk))

theorem lt_termFuel (σ : Store) : 63 < termFuel σ := by unfold termFuel; omega
theorem lt_matchFuel (σ : Store) : 63 < matchFuel σ := by unfold matchFuel; omega
theorem followTE_fun_eq {σ : Store} (hf : FuelOk σ) (kv : Nat) : followTE kv σ = followT σ :=
  funext (followTE_eq hf kv)

theorem and_split {a b : Bool} (h : (a && b) = true) : a = true ∧ b = true := by
  cases a <;> cases b <;> simp_all

theorem thenOk_okc {α : Type} (x : α) (k : α → Bool) : thenOk (.ok x : Except Err α) k = k x := rfl
theorem thenOk_err {α : Type} (e : Err) (k : α → Bool) : thenOk (.error e : Except Err α) k = true := rfl

theorem unify_succ {L : Lang} {kv n : Nat} (ih : BlockSt L kv n) (σ : Store) (a b : Term) (st sb sw : Bool)
    (hs : (safe L (n+1)).unify σ a b st sb sw = true) :
    unifyE L kv (n+1) σ a b st sb sw = unifyE L 0 (n+1) σ a b st sb sw := by
  simp only [safe, safeSucc, Bool.and_eq_true] at hs
  obtain ⟨hg, hs⟩ := hs
  have hf := okAt_fuelOk hg
  have ha : RDepth σ 63 (followT σ a) := (okAt_rdepth hg (by simp)).followed hf
  have hb : RDepth σ 63 (followT σ b) := (okAt_rdepth hg (by simp)).followed hf
  have h63 : 63 < termFuel σ := by unfold termFuel; omega
  rw [unifyE, unifyE]
  simp only [followTE_eq hf]
  cases hfa : followT σ a <;> cases hfb : followT σ b <;> simp only [hfa, hfb] at hs ha hb ⊢
  · revert hs; walk
  · simp only [occursE_fuel_stable L hf _ _ _ hb h63] at hs ⊢
    revert hs; walk
  · simp only [occursE_fuel_stable L hf _ _ _ ha h63] at hs ⊢
    revert hs; walk
  · revert hs; walk

theorem unifyList_succ {L : Lang} {kv n : Nat} (ih : BlockSt L kv n) (σ : Store) (vs : List Bool) (xs ys : List Term)
    (st sb sw : Bool) (hs : (safe L (n+1)).unifyList σ vs xs ys st sb sw = true) :
    unifyListE L kv (n+1) σ vs xs ys st sb sw = unifyListE L 0 (n+1) σ vs xs ys st sb sw := by
  cases vs with
  | nil => simp only [unifyListE]
  | cons v vs =>
    cases xs with
    | nil => simp only [unifyListE]
    | cons x xs =>
      cases ys with
      | nil => simp only [unifyListE]
      | cons y ys =>
        simp only [safe, safeSucc] at hs
        rw [unifyListE, unifyListE]
        cases v <;> simp only [if_true, if_false, Bool.false_eq_true] at hs ⊢ <;> (revert hs; walk)

theorem above_succ {L : Lang} {kv n : Nat} (ih : BlockSt L kv n) (σ : Store) (v o : Nat)
    (hs : (safe L (n+1)).above σ v o = true) : aboveE L kv (n+1) σ v o = aboveE L 0 (n+1) σ v o := by
  simp only [safe, safeSucc] at hs
  rw [aboveE, aboveE]
  simp only []
  revert hs
  generalize Option.any (fun u => opSub L u o true) (getVar σ v).upper = c1
  generalize Option.any (fun u => !opSub L o u) (getVar σ v).upper = c2
  generalize Option.any (fun l => opSub L o l true) (getVar σ v).lower = c3
  generalize Option.all (fun l => opSub L l o) (getVar σ v).lower = c4
  cases c1 <;> cases c2 <;> cases c3 <;> cases c4 <;>
    simp only [thenOk_okc, thenOk_err, Bool.true_and, Bool.false_eq_true, ↓reduceIte] <;> walk

theorem below_succ {L : Lang} {kv n : Nat} (ih : BlockSt L kv n) (σ : Store) (v o : Nat)
    (hs : (safe L (n+1)).below σ v o = true) : belowE L kv (n+1) σ v o = belowE L 0 (n+1) σ v o := by
  simp only [safe, safeSucc] at hs
  rw [belowE, belowE]
  simp only []
  revert hs
  generalize Option.any (fun l => opSub L o l true) (getVar σ v).lower = c1
  generalize Option.any (fun l => !opSub L l o) (getVar σ v).lower = c2
  generalize Option.any (fun u => opSub L u o true) (getVar σ v).upper = c3
  generalize Option.all (fun u => opSub L o u) (getVar σ v).upper = c4
  cases c1 <;> cases c2 <;> cases c3 <;> cases c4 <;>
    simp only [thenOk_okc, thenOk_err, Bool.true_and, Bool.false_eq_true, ↓reduceIte] <;> walk

theorem checkConstraints_succ {L : Lang} {kv n : Nat} (ih : BlockSt L kv n) (σ : Store) (v : Nat)
    (hs : (safe L (n+1)).checkConstraints σ v = true) :
    checkConstraintsE L kv (n+1) σ v = checkConstraintsE L 0 (n+1) σ v := by
  simp only [safe, safeSucc] at hs
  rw [checkConstraintsE, checkConstraintsE]
  exact ih.checkList _ _ _ hs

theorem checkList_succ {L : Lang} {kv n : Nat} (ih : BlockSt L kv n) (σ : Store) (v : Nat) (cs : List Nat)
    (hs : (safe L (n+1)).checkList σ v cs = true) :
    checkListE L kv (n+1) σ v cs = checkListE L 0 (n+1) σ v cs := by
  cases cs with
  | nil => simp only [checkListE]
  | cons c cs =>
    simp only [safe, safeSucc] at hs
    rw [checkListE, checkListE]
    revert hs; walk

theorem fixList_succ {L : Lang} {kv n : Nat} (ih : BlockSt L kv n) (σ : Store) (vs : List Bool) (ps : List Term)
    (pl : Bool) (hs : (safe L (n+1)).fixList σ vs ps pl = true) :
    fixListE L kv (n+1) σ vs ps pl = fixListE L 0 (n+1) σ vs ps pl := by
  cases vs with
  | nil => simp only [fixListE]
  | cons v vs =>
    cases ps with
    | nil => simp only [fixListE]
    | cons p ps =>
      simp only [safe, safeSucc] at hs
      rw [fixListE, fixListE]
      revert hs; walk

theorem fix_succ {L : Lang} {kv n : Nat} (ih : BlockSt L kv n) (σ : Store) (t : Term) (pl : Bool)
    (hs : (safe L (n+1)).fix σ t pl = true) : fixE L kv (n+1) σ t pl = fixE L 0 (n+1) σ t pl := by
  simp only [safe, safeSucc] at hs
  obtain ⟨hg, hs⟩ := and_split hs
  have hf := okAt_fuelOk hg
  rw [fixE, fixE]
  simp only [followTE_eq hf]
  cases hft : followT σ t with
  | app o args =>
    simp only [hft] at hs ⊢
    rw [ih.fixList _ _ _ _ hs]
  | var v =>
    simp only [hft] at hs ⊢
    cases hl : (getVar σ v).lower <;> cases hu : (getVar σ v).upper <;> cases pl <;>
      simp only [hl, hu, Option.isSome_some, Option.isSome_none, Bool.and_true, Bool.and_false, Bool.not_true,
        Bool.not_false, Bool.false_eq_true, ↓reduceIte, followTE_eq hf] at hs ⊢
    all_goals
      obtain ⟨h1, h2⟩ := and_split hs
      rw [ih.bind _ _ _ h1]
      split
      · rfl
      · rename_i heq
        have h3 := thenOk_ok h2 heq
        simp only [followTE_eq (okAt_fuelOk h3)]

theorem minimize_succ {L : Lang} {kv n : Nat} (ih : BlockSt L kv n) (σ : Store) (c : Nat)
    (hs : (safe L (n+1)).minimize σ c = true) : minimizeE L kv (n+1) σ c = minimizeE L 0 (n+1) σ c := by
  simp only [safe, safeSucc] at hs
  rw [minimizeE, minimizeE]
  cases hc : getConstr σ c with
  | sub r t s f => rfl
  | elim ref alts f =>
    simp only [hc] at hs ⊢
    obtain ⟨h1, h2⟩ := and_split hs
    rw [ih.minLoop _ _ _ h1]
    split
    · rfl
    · rename_i heq
      have h3 := thenOk_ok h2 heq
      have hf1 := okAt_fuelOk h3
      simp only [followTE_eq hf1, followTE_fun_eq hf1]

theorem minLoop_succ {L : Lang} {kv n : Nat} (ih : BlockSt L kv n) (σ : Store) (alts acc : List Term)
    (hs : (safe L (n+1)).minLoop σ alts acc = true) :
    minLoopE L kv (n+1) σ alts acc = minLoopE L 0 (n+1) σ alts acc := by
  cases alts with
  | nil => simp only [minLoopE]
  | cons obj rest =>
    simp only [safe, safeSucc] at hs
    obtain ⟨hg, hs⟩ := and_split hs
    have hf := okAt_fuelOk hg
    have hobj : RDepth σ 63 obj := okAt_rdepth hg List.mem_cons_self
    have e1 : ∀ k m, match3E L k σ (matchFuelE k σ) true false m obj = match3 L σ (matchFuel σ) true false m obj :=
      fun k m => match3E_fuel_stable L hf k true false m obj (.inr hobj) (lt_matchFuel σ)
    have e2 : ∀ k m, match3E L k σ (matchFuelE k σ) true false obj m = match3 L σ (matchFuel σ) true false obj m :=
      fun k m => match3E_fuel_stable L hf k true false obj m (.inl hobj) (lt_matchFuel σ)
    rw [minLoopE, minLoopE]
    simp only [e1, e2, followTE_eq hf]
    simp only [e1, e2] at hs
    revert hs; walk

theorem fulfill_succ {L : Lang} {kv n : Nat} (ih : BlockSt L kv n) (σ : Store) (c : Nat)
    (hs : (safe L (n+1)).fulfill σ c = true) : fulfillE L kv (n+1) σ c = fulfillE L 0 (n+1) σ c := by
  simp only [safe, safeSucc] at hs
  rw [fulfillE, fulfillE]
  cases hc : getConstr σ c with
  | sub ref tgt s f =>
    simp only [hc] at hs ⊢
    obtain ⟨h1, h2⟩ := and_split hs
    rw [ih.unify _ _ _ _ _ _ h1]
    split
    · rfl
    · rename_i heq
      have h3 := thenOk_ok h2 heq
      have hf1 := okAt_fuelOk h3
      have hr : RDepth _ 63 ref := okAt_rdepth h3 List.mem_cons_self
      simp only [match3E_fuel_stable L hf1 _ true false ref tgt (.inl hr) (lt_matchFuel _)]
  | elim ref alts f =>
    cases f with
    | true => rfl
    | false =>
      simp only [hc] at hs ⊢
      obtain ⟨h1, h2⟩ := and_split hs
      rw [ih.minimize _ _ h1]
      split
      · rfl
      · rename_i heq
        have h3 := thenOk_ok h2 heq
        try dsimp only at h3
        revert h3
        cases hc1 : getConstr _ c with
        | sub r1 t1 s1 f1 => intro _; rfl
        | elim ref1 alts1 f1 =>
          intro h3
          try dsimp only at h3
          obtain ⟨hg1, h4⟩ := and_split h3
          have hf1 := okAt_fuelOk hg1
          have hr : RDepth _ 63 ref1 := okAt_rdepth hg1 List.mem_cons_self
          have e : ∀ k t, match3E L k _ (matchFuelE k _) true true ref1 t = match3 L _ (matchFuel _) true true ref1 t :=
            fun k t => match3E_fuel_stable L hf1 k true true ref1 t (.inl hr) (lt_matchFuel _)
          simp only [e]
          simp only [e] at h4
          revert h4
          generalize List.filter _ alts1 = fl
          cases fl with
          | nil => intro _; rfl
          | cons only tl =>
            cases tl with
            | nil => dsimp only; walk
            | cons _ _ => intro _; rfl

theorem bind_var_tail {L : Lang} {kv n : Nat} (ih : BlockSt L kv n) (σ : Store) (lo up : Option Nat) (tv v : Nat)
    (hs : ((match lo with | some l => (safe L n).unify σ (.app l []) (.var tv) true false false | none => true) &&
      thenOk (match lo with | some l => unifyE L 0 n σ (.app l []) (.var tv) true false false | none => .ok σ)
        (fun σ =>
          (match up with | some u => (safe L n).unify σ (.var tv) (.app u []) true false false | none => true) &&
          thenOk (match up with | some u => unifyE L 0 n σ (.var tv) (.app u []) true false false | none => .ok σ)
            (fun σ => (safe L n).checkConstraints σ v))) = true) :
    (match (match lo with | some l => unifyE L kv n σ (.app l []) (.var tv) true false false | none => .ok σ) with
      | .error e => (Except.error e : R)
      | .ok σ =>
        match (match up with | some u => unifyE L kv n σ (.var tv) (.app u []) true false false | none => .ok σ) with
        | .error e => (Except.error e : R)
        | .ok σ => checkConstraintsE L kv n σ v) =
    (match (match lo with | some l => unifyE L 0 n σ (.app l []) (.var tv) true false false | none => .ok σ) with
      | .error e => (Except.error e : R)
      | .ok σ =>
        match (match up with | some u => unifyE L 0 n σ (.var tv) (.app u []) true false false | none => .ok σ) with
        | .error e => (Except.error e : R)
        | .ok σ => checkConstraintsE L 0 n σ v) := by
  revert hs
  cases lo <;> cases up <;> simp only [thenOk_okc, Bool.true_and] <;> walk

theorem bind_succ {L : Lang} {kv n : Nat} (ih : BlockSt L kv n) (σ : Store) (v : Nat) (t : Term)
    (hs : (safe L (n+1)).bind σ v t = true) : bindE L kv (n+1) σ v t = bindE L 0 (n+1) σ v t := by
  simp only [safe, safeSucc] at hs
  rw [bindE, bindE]
  simp only []
  revert hs
  split
  · intro _; rfl
  · cases t with
    | var tv =>
      simp only []
      split
      · intro _; rfl
      · intro hs
        exact bind_var_tail ih _ _ _ _ _ hs
    | app o args =>
      simp only []
      walk

end Tfv.C16D
