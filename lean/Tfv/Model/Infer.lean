import Tfv.Model.Basic
/-!
# M2 — the inference engine (type.py): store, match, unify, bind, bounds,
constraints, fix, instantiate, apply

Mutation through shared Python objects becomes an explicit store:
* variables are numbers; `VarInfo` holds `bound`, `lower`, `upper`,
  `wildcard` and the id of the *constraint-set object* the variable points to
  (`self._constraints` is a `set` object that the code aliases between
  variables and merges in place);
* constraints are numbers (creation order); a constraint set is a sorted list
  of constraint ids; `check_constraints` iterates the set in creation order
  (the hook `TRANSFORGE_VERIF` makes the implementation do the same);
* general recursion through the store takes a fuel argument; running out of
  fuel is reported as `Err.outOfFuel`, every `assert` of the code is a branch
  returning `Err.internal site`.
The code modelled is the repaired tree (fix: commits D1, D3 and D9).
-/
namespace Tfv

inductive Term where
  | var (v : Nat)
  | app (o : Nat) (args : List Term)
  deriving Repr, Inhabited

structure VarInfo where
  bound : Option Term := none
  lower : Option Nat := none
  upper : Option Nat := none
  wildcard : Bool := false
  cset : Nat := 0
  deriving Repr, Inhabited

inductive Constr where
  | sub (ref tgt : Term) (strict : Bool) (fulfilled : Bool)
  | elim (ref : Term) (alts : List Term) (fulfilled : Bool)
  deriving Repr, Inhabited

structure Store where
  vars : List VarInfo := []
  csets : List (List Nat) := []
  constrs : List Constr := []
  deriving Repr, Inhabited

inductive Err where
  | typeMismatch | subtypeMismatch | functionApplication | recursiveType
  | constraintViolation
  | internal (site : String)
  | outOfFuel
  deriving Repr, DecidableEq, Inhabited

def getVar (σ : Store) (v : Nat) : VarInfo := σ.vars.getD v {}
def setVar (σ : Store) (v : Nat) (i : VarInfo) : Store := { σ with vars := σ.vars.set v i }
def getCset (σ : Store) (k : Nat) : List Nat := σ.csets.getD k []
def setCset (σ : Store) (k : Nat) (cs : List Nat) : Store := { σ with csets := σ.csets.set k cs }
def getConstr (σ : Store) (c : Nat) : Constr := σ.constrs.getD c (.sub (.var 0) (.var 0) false true)
def setConstr (σ : Store) (c : Nat) (x : Constr) : Store := { σ with constrs := σ.constrs.set c x }

/-- sorted insertion without duplicates (a Python `set` of constraints, iterated in creation order) -/
def insertSorted (c : Nat) : List Nat → List Nat
  | [] => [c]
  | x :: xs => if c < x then c :: x :: xs else if c == x then x :: xs else x :: insertSorted c xs

def unionSorted (a b : List Nat) : List Nat := b.foldl (fun acc c => insertSorted c acc) a

/-- `TypeVariable(wildcard)`: a fresh variable with its own empty constraint set -/
def newVar (σ : Store) (wildcard : Bool := false) : Store × Nat :=
  let v := σ.vars.length
  let k := σ.csets.length
  ({ σ with vars := σ.vars ++ [{ wildcard := wildcard, cset := k }], csets := σ.csets ++ [[]] }, v)

def newVars (σ : Store) : Nat → Store × List Term
  | 0 => (σ, [])
  | n+1 =>
    let (σ1, v) := newVar σ
    let (σ2, vs) := newVars σ1 n
    (σ2, .var v :: vs)

/-- `follow()` -/
def follow (σ : Store) : Nat → Term → Term
  | 0, t => t
  | n+1, .var v => match (getVar σ v).bound with
      | some t => follow σ n t
      | none => .var v
  | _, t => t

def followT (σ : Store) (t : Term) : Term := follow σ (σ.vars.length + 1) t

/-- three-valued `match(self=a, other=b, subtype=st, accept_wildcard=aw)` (type.py:496-554) -/
def match3 (L : Lang) (σ : Store) : Nat → Bool → Bool → Term → Term → Option Bool
  | 0, _, _, _, _ => none
  | n+1, st, aw, a, b =>
    match followT σ a, followT σ b with
    | .app ao as, .app bo bs =>
      if st && (ao == BOT || bo == TOP) then some true
      else if arityOf L ao == 0 then some (ao == bo || (st && opSub L ao bo))
      else if ao != bo then some false
      else
        let rec loop : List Bool → List Term → List Term → Option Bool → Option Bool
          | v :: vs, s :: ss, t :: ts, acc =>
            match (if v then match3 L σ n st aw s t else match3 L σ n st aw t s) with
            | some false => some false
            | none => loop vs ss ts none
            | some true => loop vs ss ts acc
          | _, _, _, acc => acc
        loop (varianceOf L ao) as bs (some true)
    | .app ao _, .var bv =>
      let bi := getVar σ bv
      if st && ao == BOT then some true
      else if (bi.upper.isSome || bi.lower.isSome) && arityOf L ao != 0 then some false
      else if bi.upper.any (fun u => !opSub L ao u) then some false
      else if !st && bi.lower.any (fun l => !opSub L l ao) then some false
      else if aw && bi.wildcard then some true
      else none
    | .var av, .app bo _ =>
      let ai := getVar σ av
      if st && bo == TOP then some true
      else if (ai.upper.isSome || ai.lower.isSome) && arityOf L bo != 0 then some false
      else if ai.lower.any (fun l => !opSub L l bo) then some false
      else if !st && ai.upper.any (fun u => !opSub L u bo) then some false
      else if aw && ai.wildcard then some true
      else none
    | .var av, .var bv =>
      let ai := getVar σ av
      let bi := getVar σ bv
      if av == bv || (ai.wildcard && bi.wildcard) then some true
      else if aw && (ai.wildcard || bi.wildcard) then some true
      else match ai.lower, bi.upper with
        | some l, some u => if opSub L u l true then some false else none
        | _, _ => none

def matchFuel (σ : Store) : Nat := 4 * σ.vars.length + 64

/-- `value in self` (`__contains__`, type.py:445-456, as repaired): `self=a`, `value=b` -/
def occurs (L : Lang) (σ : Store) : Nat → Term → Term → Bool
  | 0, _, _ => false
  | n+1, a, b =>
    let a' := followT σ a
    let b' := followT σ b
    match a', b' with
    -- fix: two distinct wildcards match each other, but neither occurs in the other
    | .var av, .var bv => av == bv
    | _, _ =>
      match3 L σ (matchFuel σ) false false a' b' == some true ||
        (match a' with
         | .app _ args => args.any (fun t => occurs L σ n t b')
         | .var _ => false)

/-- all distinct unbound variables of a term after following (`variables(indirect=False)`) -/
def directVars (σ : Store) : Nat → Term → List Nat → List Nat
  | 0, _, acc => acc
  | n+1, t, acc =>
    match followT σ t with
    | .var v => if acc.contains v then acc else acc ++ [v]
    | .app _ args => args.foldl (fun acc t => directVars σ n t acc) acc

def constrTerms : Constr → List Term
  | .sub r t _ _ => [r, t]
  | .elim r alts _ => r :: alts

def termFuel (σ : Store) : Nat := σ.vars.length + 64

/-- variables directly in the terms, plus those related through constraints
(`variables(indirect=True)`): a closure computed by a worklist -/
def indirectVars (σ : Store) : Nat → List Nat → List Nat → List Nat
  | 0, _, seen => seen
  | _, [], seen => seen
  | n+1, v :: work, seen =>
    let cs := getCset σ (getVar σ v).cset
    let found := cs.foldl (fun acc c =>
      (constrTerms (getConstr σ c)).foldl (fun acc t => directVars σ (termFuel σ) t acc) acc) seen
    let new := found.filter (fun x => !seen.contains x)
    indirectVars σ n (work ++ new) found

def varsOfTerms (σ : Store) (ts : List Term) : List Nat :=
  let direct := ts.foldl (fun acc t => directVars σ (termFuel σ) t acc) []
  indirectVars σ (σ.vars.length * (σ.constrs.length + 1) + 8) direct direct

abbrev R := Except Err Store

mutual
/-- `unify(self=a, other=b, subtype=st, skip_basic=sb, skip_wildcard=sw)` (type.py:556-630) -/
def unify (L : Lang) : Nat → Store → Term → Term → Bool → Bool → Bool → R
  | 0, _, _, _, _, _, _ => .error .outOfFuel
  | n+1, σ, a, b, st, sb, sw =>
    match followT σ a, followT σ b with
    | .var av, .var bv =>
      if !sw || !((getVar σ av).wildcard && (getVar σ bv).wildcard) then bind L n σ av (.var bv)
      else .ok σ
    | .app ao as, .app bo bs =>
      if ao == BOT || bo == TOP then .ok σ
      else if arityOf L ao == 0 then
        if sb then .ok σ
        else if st && !opSub L ao bo then .error .subtypeMismatch
        else if !st && ao != bo then .error .typeMismatch
        else .ok σ
      else if ao == bo then unifyList L n σ (varianceOf L ao) as bs st sb sw
      else .error .typeMismatch
    | .var av, .app bo bs =>
      if bo == TOP then .ok σ
      else if occurs L σ (termFuel σ) (.app bo bs) (.var av) then .error .recursiveType
      else if arityOf L bo == 0 then
        if sb || (sw && (getVar σ av).wildcard) then .ok σ
        else if st then below L n σ av bo
        else bind L n σ av (.app bo bs)
      else
        if sw || sb then
          let (σ1, fresh) := newVars σ bs.length
          match bind L n σ1 av (.app bo fresh) with
          | .error e => .error e
          | .ok σ2 => unify L n σ2 (.var av) (.app bo bs) st sb sw
        else bind L n σ av (.app bo bs)
    | .app ao as, .var bv =>
      if ao == BOT then .ok σ
      else if occurs L σ (termFuel σ) (.app ao as) (.var bv) then .error .recursiveType
      else if arityOf L ao == 0 then
        if sb || (sw && (getVar σ bv).wildcard) then .ok σ
        else if st then above L n σ bv ao
        else bind L n σ bv (.app ao as)
      else
        if sw || sb then
          let (σ1, fresh) := newVars σ as.length
          match bind L n σ1 bv (.app ao fresh) with
          | .error e => .error e
          -- `b.unify(b, …)` in the source (type.py:627): unifies the new skeleton with itself
          | .ok σ2 => unify L n σ2 (.var bv) (.var bv) st sb sw
        else bind L n σ bv (.app ao as)

def unifyList (L : Lang) : Nat → Store → List Bool → List Term → List Term → Bool → Bool → Bool → R
  | 0, _, _, _, _, _, _, _ => .error .outOfFuel
  | n+1, σ, v :: vs, x :: xs, y :: ys, st, sb, sw =>
    match (if v then unify L n σ x y st sb sw else unify L n σ y x st sb sw) with
    | .error e => .error e
    | .ok σ1 => unifyList L n σ1 vs xs ys st sb sw
  | _+1, σ, _, _, _, _, _, _ => .ok σ

/-- `TypeVariable.bind(self=v, t)` (type.py:797-830) -/
def bind (L : Lang) : Nat → Store → Nat → Term → R
  | 0, _, _, _ => .error .outOfFuel
  | n+1, σ, v, t =>
    let i := getVar σ v
    if i.bound.isSome then .error (.internal "bind:variable cannot be unified twice")
    else
      let i := { i with wildcard := false }
      let σ := setVar σ v i
      match t with
      | .var tv =>
        if tv == v then .ok σ
        else
          let σ := setVar σ v { i with bound := some t }
          let ti := getVar σ tv
          let σ := setCset σ ti.cset (unionSorted (getCset σ ti.cset) (getCset σ i.cset))
          let σ := setVar σ v { (getVar σ v) with cset := ti.cset }
          let σ := setVar σ tv { (getVar σ tv) with wildcard := false }
          -- fix: the bounds are handed over through `unify`, which follows `t` (a constraint re-check
          -- triggered by the first bound may already have resolved it)
          match (match i.lower with | some l => unify L n σ (.app l []) (.var tv) true false false | none => .ok σ) with
          | .error e => .error e
          | .ok σ =>
            match (match i.upper with | some u => unify L n σ (.var tv) (.app u []) true false false | none => .ok σ) with
            | .error e => .error e
            | .ok σ => checkConstraints L n σ v
      | .app o args =>
        let σ := setVar σ v { i with bound := some t }
        if arityOf L o == 0 then
          if i.lower.any (fun l => opSub L o l true) then .error .subtypeMismatch
          else if i.upper.any (fun u => opSub L u o true) then .error .subtypeMismatch
          else checkConstraints L n σ v
        else
          if i.lower.isSome || i.upper.isSome then .error .subtypeMismatch
          else
            let vars := directVars σ (termFuel σ) (.app o args) []
            let merged := vars.foldl (fun acc w => unionSorted acc (getCset σ (getVar σ w).cset)) (getCset σ i.cset)
            let σ := setCset σ i.cset merged
            let σ := vars.foldl (fun σ w => setVar σ w { (getVar σ w) with cset := i.cset }) σ
            checkConstraints L n σ v

/-- `above(self=v, new)` (type.py:832-861) -/
def above (L : Lang) : Nat → Store → Nat → Nat → R
  | 0, _, _, _ => .error .outOfFuel
  | n+1, σ, v, new =>
    if new == TOP then bind L n σ v (.app TOP [])
    else
      let i := { (getVar σ v) with wildcard := false }
      let σ := setVar σ v i
      if i.bound.isSome then .error (.internal "above:assert not self.bound")
      else
        let r : R :=
          if i.upper.any (fun u => opSub L u new true) then .error .subtypeMismatch
          else if i.upper.any (fun u => !opSub L new u) then .error .subtypeMismatch
          else if i.lower.any (fun l => opSub L new l true) then .ok σ
          else if i.lower.all (fun l => opSub L l new) then
            checkConstraints L n (setVar σ v { i with lower := some new }) v
          else .error .subtypeMismatch
        match r with
        | .error e => .error e
        | .ok σ =>
          let i := getVar σ v
          if i.bound.isNone && i.lower.isSome && i.lower == i.upper then
            match i.lower with
            | some l => bind L n σ v (.app l [])
            | none => .ok σ
          else .ok σ

/-- `below(self=v, new)` (type.py:863-887) -/
def below (L : Lang) : Nat → Store → Nat → Nat → R
  | 0, _, _, _ => .error .outOfFuel
  | n+1, σ, v, new =>
    if new == BOT then bind L n σ v (.app BOT [])
    else
      let i := { (getVar σ v) with wildcard := false }
      let σ := setVar σ v i
      if i.bound.isSome then .error (.internal "below:assert not self.bound")
      else
        let r : R :=
          if i.lower.any (fun l => opSub L new l true) then .error .subtypeMismatch
          else if i.lower.any (fun l => !opSub L l new) then .error .subtypeMismatch
          else if i.upper.any (fun u => opSub L u new true) then .ok σ
          else if i.upper.all (fun u => opSub L new u) then
            checkConstraints L n (setVar σ v { i with upper := some new }) v
          else .error .subtypeMismatch
        match r with
        | .error e => .error e
        | .ok σ =>
          let i := getVar σ v
          if i.bound.isNone && i.upper.isSome && i.upper == i.lower then
            match i.upper with
            | some u => bind L n σ v (.app u [])
            | none => .ok σ
          else .ok σ

/-- `check_constraints(self=v)`: snapshot of the set, creation order -/
def checkConstraints (L : Lang) : Nat → Store → Nat → R
  | 0, _, _ => .error .outOfFuel
  | n+1, σ, v => checkList L n σ v (getCset σ (getVar σ v).cset)

def checkList (L : Lang) : Nat → Store → Nat → List Nat → R
  | 0, _, _, _ => .error .outOfFuel
  | _+1, σ, _, [] => .ok σ
  | n+1, σ, v, c :: cs =>
    match fulfill L n σ c with
    | .error e => .error e
    | .ok (σ1, done) =>
      let σ2 := if done then
          let k := (getVar σ1 v).cset
          setCset σ1 k ((getCset σ1 k).filter (· != c))
        else σ1
      checkList L n σ2 v cs

/-- `Constraint.fulfill()` for both kinds (type.py:997-1004, 1051-1086) -/
def fulfill (L : Lang) : Nat → Store → Nat → Except Err (Store × Bool)
  | 0, _, _ => .error .outOfFuel
  | n+1, σ, c =>
    match getConstr σ c with
    | .sub ref tgt _ _ =>
      match unify L n σ ref tgt true true false with
      | .error e => .error e
      | .ok σ1 =>
        match match3 L σ1 (matchFuel σ1) true false ref tgt with
        | some true =>
          (match getConstr σ1 c with
           | .sub r t s _ => .ok (setConstr σ1 c (.sub r t s true), true)
           | _ => .ok (σ1, true))
        | some false => .error .constraintViolation
        | none =>
          (match getConstr σ1 c with
           | .sub _ _ _ f => .ok (σ1, f)
           | _ => .ok (σ1, false))
    | .elim _ _ true => .ok (σ, true)
    | .elim _ _ false =>
      match minimize L n σ c with
      | .error e => .error e
      | .ok σ1 =>
        match getConstr σ1 c with
        | .elim ref alts ful =>
          let normalized (t : Term) : Bool := match t with
            | .var v => (getVar σ1 v).bound.isNone
            | _ => true
          if !(normalized ref && alts.all normalized) then
            .error (.internal "fulfill:assert normalized")
          else
            let alts' := alts.filter (fun t => match3 L σ1 (matchFuel σ1) true true ref t != some false)
            match alts' with
            | [] => .error .constraintViolation
            | [only] =>
              let σ2 := setConstr σ1 c (.elim ref alts' true)
              (match unify L n σ2 ref only true false false with
               | .error e => .error e
               | .ok σ3 => .ok (σ3, true))
            | _ => .ok (setConstr σ1 c (.elim ref alts' ful), ful)
        | _ => .error (.internal "fulfill:constraint changed kind")

/-- `EliminationConstraint.minimize()` (type.py:1031-1049); the kept alternatives are followed once more at the end: fixing a
later alternative may have bound a variable that is an earlier alternative -/
def minimize (L : Lang) : Nat → Store → Nat → R
  | 0, _, _ => .error .outOfFuel
  | n+1, σ, c =>
    match getConstr σ c with
    | .elim ref alts _ =>
      match minLoop L n σ alts [] with
      | .error e => .error e
      | .ok (σ1, minimized) =>
        (match getConstr σ1 c with
         | .elim _ _ ful => .ok (setConstr σ1 c (.elim (followT σ1 ref) (minimized.map (followT σ1)) ful))
         | _ => .ok σ1)
    | _ => .ok σ

def minLoop (L : Lang) : Nat → Store → List Term → List Term → Except Err (Store × List Term)
  | 0, _, _, _ => .error .outOfFuel
  | _+1, σ, [], minimized => .ok (σ, minimized)
  | n+1, σ, obj :: rest, minimized =>
    -- for i in range(len(minimized)): …
    let step (acc : List Term × Bool) (m : Term) : List Term × Bool :=
      let m' := if match3 L σ (matchFuel σ) true false m obj == some true then followT σ obj else m
      let add' := if match3 L σ (matchFuel σ) true false obj m' == some true then false else acc.2
      (acc.1 ++ [m'], add')
    let (minimized', add) := minimized.foldl step ([], true)
    if add then
      match fix L n σ (followT σ obj) true with
      | .error e => .error e
      | .ok (σ1, t) => minLoop L n σ1 rest (minimized' ++ [t])
    else minLoop L n σ rest minimized'

/-- `fix(self=t, prefer_lower)` (type.py:394-409) -/
def fix (L : Lang) : Nat → Store → Term → Bool → Except Err (Store × Term)
  | 0, _, _, _ => .error .outOfFuel
  | n+1, σ, t, pl =>
    match followT σ t with
    | .app o args =>
      match fixList L n σ (varianceOf L o) args pl with
      | .error e => .error e
      | .ok σ1 => .ok (σ1, .app o args)
    | .var v =>
      let i := getVar σ v
      let r : R :=
        if pl && i.lower.isSome then
          match i.lower with
          | some l => bind L n σ v (.app l [])
          | none => .ok σ
        else if !pl && i.upper.isSome then
          match i.upper with
          | some u => bind L n σ v (.app u [])
          | none => .ok σ
        else .ok σ
      match r with
      | .error e => .error e
      | .ok σ1 => .ok (σ1, followT σ1 (.var v))

def fixList (L : Lang) : Nat → Store → List Bool → List Term → Bool → R
  | 0, _, _, _, _ => .error .outOfFuel
  | n+1, σ, v :: vs, p :: ps, pl =>
    -- prefer_lower ^ (v == Variance.CONTRA)
    match fix L n σ p (if v then pl else !pl) with
    | .error e => .error e
    | .ok (σ1, _) => fixList L n σ1 vs ps pl
  | _+1, σ, _, _, _ => .ok σ
end

/-! ### Schemas, constraint creation, application -/

inductive CAst where
  | sub (ref tgt : Term) (strict : Bool)
  | elim (ref : Term) (alts : List Term)
  deriving Repr, Inhabited

/-- a type schema as data: variables `0 … nvars-1` are schematic, variables
`nvars … nvars+nwild-1` are wildcards (`_`), each occurring once -/
structure Schema where
  nvars : Nat
  nwild : Nat
  body : Term
  constraints : List CAst
  deriving Repr, Inhabited

mutual
def Term.shift (k : Nat) : Term → Term
  | .var v => .var (v + k)
  | .app o args => .app o (Term.shiftL k args)
def Term.shiftL (k : Nat) : List Term → List Term
  | [] => []
  | t :: ts => Term.shift k t :: Term.shiftL k ts
end

def allocVars (σ : Store) (nvars nwild : Nat) : Store :=
  let σ1 := (List.range nvars).foldl (fun σ _ => (newVar σ false).1) σ
  (List.range nwild).foldl (fun σ _ => (newVar σ true).1) σ1

/-- `Constraint.__init__`: register, `inform()`, first `fulfill()` -/
def addConstraint (L : Lang) (fuel : Nat) (σ : Store) (c : Constr) : R :=
  let id := σ.constrs.length
  -- `reference.instance()` / `target.instance()` follow their argument
  let c := match c with
    | .sub r t s f => Constr.sub (followT σ r) (followT σ t) s f
    | .elim r alts f => Constr.elim r (alts.map (followT σ)) f
  let σ := { σ with constrs := σ.constrs ++ [c] }
  let vars := varsOfTerms σ (constrTerms c)
  if vars.any (fun v => (getVar σ v).bound.isSome) then .error (.internal "inform:assert not v.bound")
  else
    let σ := vars.foldl (fun σ v =>
      let k := (getVar σ v).cset
      setCset σ k (insertSorted id (getCset σ k))) σ
    match fulfill L fuel σ id with
    | .error e => .error e
    | .ok (σ1, _) => .ok σ1

def addConstraints (L : Lang) (fuel : Nat) (base : Nat) : Store → List CAst → R
  | σ, [] => .ok σ
  | σ, c :: cs =>
    let c' := match c with
      | .sub r t s => Constr.sub (r.shift base) (t.shift base) s false
      | .elim r alts => Constr.elim (followT σ (r.shift base)) (Term.shiftL base alts) false
    match addConstraint L fuel σ c' with
    | .error e => .error e
    | .ok σ1 => addConstraints L fuel base σ1 cs

/-- Python builds the body of a schema `a ** b ** r [cs]` AFTER its constraints (the subscript binds tighter than `**`, and
`**` is right-associative): `r [cs]` is `r.instance()`, i.e. `r` followed, and every `Function(p, q)` stores `p.instance()`.
So the variables on the top-level spine are stored followed through whatever the constraints bound them to; compound
components (`F(x)`, `(a ** b)`) were built before the constraints ran and keep their raw variables. Only unfollowed reads
(the "is the output a function" test of `apply`) can tell the difference. -/
def spineFollow (σ : Store) : Term → Term
  | .app o [l, r] =>
    if o == FUN then
      .app o [(match l with | .var v => followT σ (.var v) | t => t), spineFollow σ r]
    else .app o [l, r]
  | .var v => followT σ (.var v)
  | t => t

/-- `TypeSchema.instance()`: fresh variables, constraints in source order, `fix(prefer_lower=True)` -/
def instantiate (L : Lang) (fuel : Nat) (σ : Store) (s : Schema) : Except Err (Store × Term) :=
  let base := σ.vars.length
  let σ := allocVars σ s.nvars s.nwild
  match addConstraints L fuel base σ s.constraints with
  | .error e => .error e
  | .ok σ1 => fix L fuel σ1 (spineFollow σ1 (s.body.shift base)) true

/-- `Type.apply(self=f, arg=x, fix)` (type.py:134-157) -/
def applyT (L : Lang) (fuel : Nat) (σ : Store) (f x : Term) (fixFlag : Bool := true) : Except Err (Store × Term) :=
  let f0 := followT σ f
  let x0 := followT σ x
  let pre : Except Err (Store × Term) :=
    match f0 with
    | .var fv =>
      let (σ1, a) := newVar σ
      let (σ2, b) := newVar σ1
      match bind L fuel σ2 fv (.app FUN [.var a, .var b]) with
      | .error e => .error e
      | .ok σ3 => .ok (σ3, followT σ3 (.var fv))
    | t => .ok (σ, t)
  match pre with
  | .error e => .error e
  | .ok (σ, f1) =>
    match f1 with
    | .app o [l, r] =>
      if o == FUN then
        match unify L fuel σ x0 l true false false with
        | .error e => .error e
        | .ok σ1 =>
          let isFun := match r with
            | .app o' _ => o' == FUN
            | _ => false
          if fixFlag && !isFun then fix L fuel σ1 r true else .ok (σ1, r)
      else if o == TOP then .ok (σ, .app TOP []) else .error .functionApplication
    | .app o _ => if o == TOP then .ok (σ, .app TOP []) else .error .functionApplication
    | .var _ => .error .functionApplication

end Tfv
