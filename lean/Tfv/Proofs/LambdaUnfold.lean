import Tfv.Spec.Lambda
/-!
# unfolding of composite operators: completeness, identity on unfolded terms, delta steps
-/
namespace Tfv.C15P
open Tfv Tfv.LamSpec

theorem noDefined_lamN (defs : List LDef) (k : Nat) (t : LTerm) :
    noDefined defs (lamN k t) = noDefined defs t := by
  induction k with
  | zero => rfl
  | succ k ih => simp only [lamN, noDefined, ih]

theorem any_eq_rank (defs : List LDef) (name : String) :
    defs.any (fun d => d.name == name) = decide (rank defs name < defs.length) := by
  unfold rank
  by_cases h : defs.any (fun d => d.name == name) = true
  · rw [h]; symm; rw [decide_eq_true_iff]; exact List.findIdx_lt_length_of_exists (List.any_eq_true.mp h)
  · have h' : defs.any (fun d => d.name == name) = false := by simpa using h
    rw [h']; symm; rw [decide_eq_false_iff_not]
    intro hlt
    have := List.findIdx_getElem (w := hlt)
    exact h (List.any_eq_true.mpr ⟨_, List.getElem_mem _, this⟩)

theorem opsBelow_zero {defs : List LDef} {t : LTerm} (h : opsBelow defs 0 t = true) :
    noDefined defs t = true := by
  unfold opsBelow at h
  induction t with
  | op name =>
    simp only [allOps, Nat.not_lt_zero, decide_false, Bool.false_or, beq_iff_eq] at h
    simp only [noDefined, any_eq_rank, h, Nat.lt_irrefl, decide_false, Bool.not_false]
  | src k => rfl
  | var i => rfl
  | lam b ih => exact ih h
  | app f x ihf ihx =>
    simp only [allOps, Bool.and_eq_true] at h
    simp only [noDefined, Bool.and_eq_true]
    exact ⟨ihf h.1, ihx h.2⟩

theorem opsBelow_mono {defs : List LDef} {k k' : Nat} (hk : k ≤ k') {t : LTerm}
    (h : opsBelow defs k t = true) : opsBelow defs k' t = true := by
  unfold opsBelow at h ⊢
  induction t with
  | op name =>
    simp only [allOps, Bool.or_eq_true, decide_eq_true_eq, beq_iff_eq] at h ⊢
    omega
  | src k => rfl
  | var i => rfl
  | lam b ih => exact ih h
  | app f x ihf ihx =>
    simp only [allOps, Bool.and_eq_true] at h ⊢
    exact ⟨ihf h.1, ihx h.2⟩

theorem depOrderedFrom_get {all : List LDef} : ∀ {rest : List LDef} {i : Nat},
    depOrderedFrom all i rest = true → ∀ j (hj : j < rest.length), opsBelow all (i + j) rest[j].body = true
  | [], _, _, j, hj => absurd hj (Nat.not_lt_zero _)
  | d :: rest, i, h, j, hj => by
    simp only [depOrderedFrom, Bool.and_eq_true] at h
    cases j with
    | zero => exact h.1
    | succ j =>
      have := depOrderedFrom_get h.2 j (by simpa using hj)
      simpa [Nat.add_assoc, Nat.add_comm 1 j] using this

theorem depOrdered_get {defs : List LDef} (h : depOrdered defs = true) (j : Nat) (hj : j < defs.length) :
    opsBelow defs j defs[j].body = true := by
  have := depOrderedFrom_get h j hj
  simpa using this

/-- the definition `find?` returns is the one at position `rank` -/
theorem find_rank {defs : List LDef} {name : String} {d : LDef}
    (h : defs.find? (fun d => d.name == name) = some d) :
    ∃ hlt : rank defs name < defs.length, defs[rank defs name] = d := by
  rw [List.find?_eq_some_iff_getElem] at h
  obtain ⟨hp, i, hi, hd, hbefore⟩ := h
  have : rank defs name = i := by
    unfold rank
    rw [List.findIdx_eq hi]
    refine ⟨by rw [hd]; exact hp, ?_⟩
    intro j hj
    have := hbefore j hj
    simpa using this
  exact ⟨this ▸ hi, by subst this; exact hd⟩

theorem find_none_rank {defs : List LDef} {name : String}
    (h : defs.find? (fun d => d.name == name) = none) :
    defs.any (fun d => d.name == name) = false := by
  rw [List.find?_eq_none] at h
  rw [List.any_eq_false]
  exact h

/-- key lemma: if every operator of `t` is undefined or defined among the first `k` definitions of a
dependency-ordered list, then fuel `n ≥ k` unfolds everything -/
theorem unfold_complete_aux {defs : List LDef} (hd : depOrdered defs = true) :
    ∀ (n k : Nat) (t : LTerm), k ≤ n → opsBelow defs k t = true →
      noDefined defs (unfoldDefs defs n t) = true
  | 0, k, t, hk, h => by
    have hk0 : k = 0 := Nat.le_zero.mp hk
    subst hk0
    have : unfoldDefs defs 0 t = t := by unfold unfoldDefs; rfl
    rw [this]; exact opsBelow_zero h
  | n+1, k, .op name, hk, h => by
    unfold unfoldDefs
    split
    · rename_i d hfind
      obtain ⟨hlt, hget⟩ := find_rank hfind
      rw [noDefined_lamN]
      have hbody := depOrdered_get hd _ hlt
      rw [hget] at hbody
      refine unfold_complete_aux hd n (rank defs name) d.body ?_ hbody
      simp only [opsBelow, allOps, Bool.or_eq_true, decide_eq_true_eq, beq_iff_eq] at h
      omega
    · rename_i hfind
      simp only [noDefined, find_none_rank hfind, Bool.not_false]
  | n+1, k, .lam b, hk, h => by
    unfold unfoldDefs
    simp only [noDefined]
    exact unfold_complete_aux hd (n+1) k b hk h
  | n+1, k, .app f x, hk, h => by
    unfold unfoldDefs
    simp only [opsBelow, allOps, Bool.and_eq_true] at h
    simp only [noDefined, Bool.and_eq_true]
    exact ⟨unfold_complete_aux hd (n+1) k f hk h.1, unfold_complete_aux hd (n+1) k x hk h.2⟩
  | n+1, k, .src _, hk, h => by unfold unfoldDefs; rfl
  | n+1, k, .var _, hk, h => by unfold unfoldDefs; rfl

theorem opsBelow_length (defs : List LDef) (t : LTerm) : opsBelow defs defs.length t = true := by
  unfold opsBelow
  induction t with
  | op name =>
    simp only [allOps, Bool.or_eq_true, decide_eq_true_eq, beq_iff_eq]
    have : rank defs name ≤ defs.length := List.findIdx_le_length
    omega
  | src k => rfl
  | var i => rfl
  | lam b ih => exact ih
  | app f x ihf ihx => simp only [allOps, Bool.and_eq_true]; exact ⟨ihf, ihx⟩

/-- with dependency-ordered definitions, fuel `defs.length` (a fortiori `defs.length + 1`, what
`primitiveL` uses) removes every defined operator from every term -/
theorem unfold_complete {defs : List LDef} (hd : depOrdered defs = true) (n : Nat) (hn : defs.length ≤ n)
    (t : LTerm) : noDefined defs (unfoldDefs defs n t) = true :=
  unfold_complete_aux hd n defs.length t hn (opsBelow_length defs t)

/-! ### generalisation: any acyclic definition list (a strictly decreasing measure bounded by the length) -/

/-- `ρ` stratifies `defs`: every defined name has level below `defs.length`, and the body of the definition
that `find?` returns for a name mentions only undefined operators or operators of strictly smaller level.
(Equivalent to: the dependency graph of the effective definitions is acyclic.) -/
def Stratified (defs : List LDef) (ρ : String → Nat) : Prop :=
  ∀ name d, defs.find? (fun d => d.name == name) = some d →
    ρ name < defs.length ∧
    allOps (fun n' => !(defs.any (fun d => d.name == n')) || decide (ρ n' < ρ name)) d.body = true

theorem unfold_complete_strat_aux {defs : List LDef} {ρ : String → Nat} (hd : Stratified defs ρ) :
    ∀ (n k : Nat) (t : LTerm), k ≤ n →
      allOps (fun n' => !(defs.any (fun d => d.name == n')) || decide (ρ n' < k)) t = true →
      noDefined defs (unfoldDefs defs n t) = true
  | 0, k, t, hk, h => by
    have hk0 : k = 0 := Nat.le_zero.mp hk
    subst hk0
    have : unfoldDefs defs 0 t = t := by unfold unfoldDefs; rfl
    rw [this]
    clear this
    induction t with
    | op name => simpa [allOps, noDefined] using h
    | src k => rfl
    | var i => rfl
    | lam b ih => exact ih h
    | app f x ihf ihx =>
      simp only [allOps, Bool.and_eq_true] at h
      simp only [noDefined, Bool.and_eq_true]
      exact ⟨ihf h.1, ihx h.2⟩
  | n+1, k, .op name, hk, h => by
    unfold unfoldDefs
    split
    · rename_i d hfind
      obtain ⟨_, hbody⟩ := hd name d hfind
      rw [noDefined_lamN]
      refine unfold_complete_strat_aux hd n (ρ name) d.body ?_ hbody
      have hp : (d.name == name) = true := by have := List.find?_some hfind; exact this
      have hany : defs.any (fun d => d.name == name) = true :=
        List.any_eq_true.mpr ⟨d, List.mem_of_find?_eq_some hfind, hp⟩
      simp only [allOps, hany, Bool.not_true, Bool.false_or, decide_eq_true_eq] at h
      omega
    · rename_i hfind
      simp only [noDefined, find_none_rank hfind, Bool.not_false]
  | n+1, k, .lam b, hk, h => by
    unfold unfoldDefs
    simp only [noDefined]
    exact unfold_complete_strat_aux hd (n+1) k b hk h
  | n+1, k, .app f x, hk, h => by
    unfold unfoldDefs
    simp only [allOps, Bool.and_eq_true] at h
    simp only [noDefined, Bool.and_eq_true]
    exact ⟨unfold_complete_strat_aux hd (n+1) k f hk h.1, unfold_complete_strat_aux hd (n+1) k x hk h.2⟩
  | n+1, k, .src _, hk, h => by unfold unfoldDefs; rfl
  | n+1, k, .var _, hk, h => by unfold unfoldDefs; rfl

theorem unfold_complete_strat {defs : List LDef} {ρ : String → Nat} (hd : Stratified defs ρ) (n : Nat)
    (hn : defs.length ≤ n) (t : LTerm) : noDefined defs (unfoldDefs defs n t) = true := by
  refine unfold_complete_strat_aux hd n defs.length t hn ?_
  induction t with
  | op name =>
    simp only [allOps, Bool.or_eq_true, Bool.not_eq_true', decide_eq_true_eq]
    cases hfind : defs.find? (fun d => d.name == name) with
    | none => exact .inl (find_none_rank hfind)
    | some d => exact .inr (hd name d hfind).1
  | src k => rfl
  | var i => rfl
  | lam b ih => exact ih
  | app f x ihf ihx => simp only [allOps, Bool.and_eq_true]; exact ⟨ihf, ihx⟩

/-- a dependency-ordered list is stratified by position -/
theorem depOrdered_stratified {defs : List LDef} (hd : depOrdered defs = true) :
    Stratified defs (rank defs) := by
  intro name d hfind
  obtain ⟨hlt, hget⟩ := find_rank hfind
  refine ⟨hlt, ?_⟩
  have hbody := depOrdered_get hd _ hlt
  rw [hget] at hbody
  unfold opsBelow at hbody
  generalize d.body = t at hbody
  induction t with
  | op n' =>
    simp only [allOps, Bool.or_eq_true, decide_eq_true_eq, beq_iff_eq, Bool.not_eq_true'] at hbody ⊢
    rcases hbody with h | h
    · exact .inr h
    · left; rw [any_eq_rank, h]; simp
  | src k => rfl
  | var i => rfl
  | lam b ih => exact ih hbody
  | app f x ihf ihx =>
    simp only [allOps, Bool.and_eq_true] at hbody ⊢
    exact ⟨ihf hbody.1, ihx hbody.2⟩

/-- `unfoldDefs` is the identity on terms without defined operators, for every fuel -/
theorem unfold_id {defs : List LDef} : ∀ (n : Nat) (t : LTerm), noDefined defs t = true →
    unfoldDefs defs n t = t
  | 0, t, _ => by unfold unfoldDefs; rfl
  | n+1, .op name, h => by
    unfold unfoldDefs
    split
    · rename_i d hfind
      simp only [noDefined, Bool.not_eq_true', List.any_eq_false] at h
      have := List.find?_some hfind
      have hm := List.mem_of_find?_eq_some hfind
      exact absurd this (h d hm)
    · rfl
  | n+1, .lam b, h => by
    unfold unfoldDefs
    simp only [noDefined] at h
    rw [unfold_id (n+1) b h]
  | n+1, .app f x, h => by
    unfold unfoldDefs
    simp only [noDefined, Bool.and_eq_true] at h
    rw [unfold_id (n+1) f h.1, unfold_id (n+1) x h.2]
  | n+1, .src _, _ => by unfold unfoldDefs; rfl
  | n+1, .var _, _ => by unfold unfoldDefs; rfl

/-! ## closure lemmas for `Star` -/

theorem Star.trans {R : LTerm → LTerm → Prop} {a b c : LTerm} (h₁ : Star R a b) (h₂ : Star R b c) :
    Star R a c := by
  induction h₁ with
  | refl => exact h₂
  | step hab _ ih => exact .step hab (ih h₂)

theorem Star.single {R : LTerm → LTerm → Prop} {a b : LTerm} (h : R a b) : Star R a b :=
  .step h (.refl _)

theorem Star.map {R : LTerm → LTerm → Prop} (F : LTerm → LTerm)
    (hF : ∀ a b, R a b → R (F a) (F b)) {a b : LTerm} (h : Star R a b) : Star R (F a) (F b) := by
  induction h with
  | refl => exact .refl _
  | step hab _ ih => exact .step (hF _ _ hab) ih

theorem DeltaStar.lam {defs : List LDef} {b b' : LTerm} (h : DeltaStar defs b b') :
    DeltaStar defs (.lam b) (.lam b') := Star.map (R := Delta defs) LTerm.lam (fun _ _ => Delta.lam) h

theorem DeltaStar.app {defs : List LDef} {f f' x x' : LTerm} (hf : DeltaStar defs f f')
    (hx : DeltaStar defs x x') : DeltaStar defs (.app f x) (.app f' x') :=
  Star.trans (Star.map (R := Delta defs) (fun f => LTerm.app f x) (fun _ _ => Delta.appL x) hf)
    (Star.map (R := Delta defs) (fun x => LTerm.app f' x) (fun _ _ => Delta.appR f') hx)

theorem DeltaStar.lamN {defs : List LDef} {b b' : LTerm} (h : DeltaStar defs b b') :
    ∀ k, DeltaStar defs (lamN k b) (lamN k b')
  | 0 => h
  | k+1 => DeltaStar.lam (DeltaStar.lamN h k)

/-- `unfoldDefs` performs delta steps only -/
theorem unfold_delta (defs : List LDef) : ∀ (n : Nat) (t : LTerm), DeltaStar defs t (unfoldDefs defs n t)
  | 0, t => by unfold unfoldDefs; exact .refl _
  | n+1, .op name => by
    unfold unfoldDefs
    split
    · rename_i d hfind
      exact .step (Delta.unfold hfind) (DeltaStar.lamN (unfold_delta defs n d.body) d.arity)
    · exact .refl _
  | n+1, .lam b => by unfold unfoldDefs; exact DeltaStar.lam (unfold_delta defs (n+1) b)
  | n+1, .app f x => by
    unfold unfoldDefs; exact DeltaStar.app (unfold_delta defs (n+1) f) (unfold_delta defs (n+1) x)
  | n+1, .src _ => by unfold unfoldDefs; exact .refl _
  | n+1, .var _ => by unfold unfoldDefs; exact .refl _

end Tfv.C15P
