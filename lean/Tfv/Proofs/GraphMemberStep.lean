import Tfv.Proofs.GraphMemberLog
/-!
# Steps of `addExpr` that leave the memo tables (`srcNodes`, `sharedNodes`) alone

`NStep c P g g'`: a sequence of type steps (adding triples that satisfy `P`), `gAddFrom`s and registrations of internal
nodes. The wiring code of `addExpr` (`curOrFresh`, `appPre`, `appWire`, `addOrigin`) consists of such steps with
`P = Wiring` (predicate `origin` or `internal`), which are not tracked.
-/
namespace Tfv

inductive NStep (c : GCfg) (P : Triple → Prop) : GState → GState → Prop
  | refl (g : GState) : NStep c P g g
  | trans {g1 g2 g3 : GState} : NStep c P g1 g2 → NStep c P g2 g3 → NStep c P g1 g3
  | ty {g1 g2 : GState} : TStep P AnyQ g1 g2 → NStep c P g1 g2
  | addFrom (g : GState) (a b : Nat) (r : Bool) : NStep c P g (gAddFrom c g a b r)
  | pushInternal (g : GState) (x : Nat × Nat) : NStep c P g { g with internals := g.internals ++ [x] }

theorem NStep.toGStep {c : GCfg} {P : Triple → Prop} {g g' : GState} (h : NStep c P g g') : GStep c P AnyQ g g' := by
  induction h with
  | refl g => exact .refl g
  | trans _ _ ih1 ih2 => exact .trans ih1 ih2
  | ty h => exact .ty h
  | addFrom g a b r => exact .addFrom g a b r
  | pushInternal g x => exact .pushInternal g x

theorem NStep.mono {c : GCfg} {P P' : Triple → Prop} (hP : ∀ t, P t → P' t) {g g' : GState} (h : NStep c P g g') :
    NStep c P' g g' := by
  induction h with
  | refl g => exact .refl g
  | trans _ _ ih1 ih2 => exact .trans ih1 ih2
  | ty h => exact .ty (h.mono hP (fun _ h => h))
  | addFrom g a b r => exact .addFrom g a b r
  | pushInternal g x => exact .pushInternal g x

theorem NStep.srcNodes_eq {c : GCfg} {P : Triple → Prop} {g g' : GState} (h : NStep c P g g') :
    g'.srcNodes = g.srcNodes := by
  induction h with
  | refl g => rfl
  | trans _ _ ih1 ih2 => rw [ih2, ih1]
  | ty h => exact h.srcNodes_eq
  | addFrom g a b r => unfold gAddFrom; split <;> rfl
  | pushInternal g x => rfl

theorem NStep.sharedNodes_eq {c : GCfg} {P : Triple → Prop} {g g' : GState} (h : NStep c P g g') :
    g'.sharedNodes = g.sharedNodes := by
  induction h with
  | refl g => rfl
  | trans _ _ ih1 ih2 => rw [ih2, ih1]
  | ty h => exact h.sharedNodes_eq
  | addFrom g a b r => unfold gAddFrom; split <;> rfl
  | pushInternal g x => rfl

theorem NStep.add {c : GCfg} {P : Triple → Prop} (g : GState) (t : Triple) (h : P t) : NStep c P g (g.add t) :=
  .ty (.add g t h)

theorem NStep.fresh {c : GCfg} {P : Triple → Prop} (g : GState) : NStep c P g g.fresh.1 := .ty (.fresh g)

theorem NStep.iteAdd {c : GCfg} {P : Triple → Prop} (b : Bool) (g : GState) (t : Triple) (h : P t) :
    NStep c P g (if b = true then g.add t else g) := .ty (.iteAdd b g t h)

theorem NStep.foldl {c : GCfg} {P : Triple → Prop} {α : Type} (f : GState → α → GState) (l : List α)
    (hf : ∀ g s, NStep c P g (f g s)) (g : GState) : NStep c P g (l.foldl f g) :=
  foldl_rel (R := NStep c P) .refl (fun _ _ _ => .trans) f l (fun g s _ => hf g s) g

/-- the triples of the wiring code -/
def Wiring (t : Triple) : Prop := t.2.1 = Node.tf "origin" ∨ t.2.1 = Node.tf "internal"

theorem not_tracked_of_wiring {t : Triple} (h : Wiring t) : ¬ Tracked t := by
  intro ht
  rcases h with h | h <;> rcases ht with h' | h' | h' | h' | h' <;> rw [h] at h' <;> revert h' <;> decide

theorem notFD_of_wiring {t : Triple} (h : Wiring t) : NotFD t := by
  rcases h with h | h <;> rw [NotFD, h] <;> decide

theorem NStep.originAdd {c : GCfg} (origin : Option Node) (g : GState) (k : Nat) :
    NStep c Wiring g (addOrigin c origin g k) := by
  unfold addOrigin
  cases origin with
  | none => exact .refl g
  | some o => exact .iteAdd _ _ _ (.inl rfl)

theorem NStep.curFresh {c : GCfg} {P : Triple → Prop} (current : Option Nat) (g : GState) :
    NStep c P g (curOrFresh g current).1 := by
  cases current with
  | none => exact .fresh g
  | some k => exact .refl g

theorem appPre_nstep (c : GCfg) (g : GState) (fnode : Nat) (isFun : Bool) :
    NStep c Wiring g (appPre g fnode isFun).1 := by
  unfold appPre
  cases isFun with
  | false => exact .refl g
  | true =>
    simp only [if_true]
    exact .trans (.fresh g) (.trans (.pushInternal _ (fnode, g.nextB)) (.add _ _ (.inr rfl)))

theorem appWire_nstep (c : GCfg) (origin : Option Node) (g : GState) (fnode xnode : Nat) (ci : Option Nat)
    (cur : Nat) : NStep c Wiring g (appWire c origin g fnode xnode ci cur) := by
  have w1 : ∀ g, NStep c Wiring g (wire1 c g xnode ci) := by
    intro g; unfold wire1
    cases ci with
    | none => exact .refl g
    | some i => exact .addFrom g xnode i false
  have w3 : ∀ g, NStep c Wiring g (wire3 c g xnode ci) := by
    intro g; unfold wire3
    cases ci with
    | none => exact .refl g
    | some i => exact NStep.foldl _ _ (fun g j => .addFrom g j i false) g
  have w4 : ∀ g, NStep c Wiring g (wire4 c g fnode xnode ci) := by
    intro g; unfold wire4
    refine NStep.foldl _ _ (fun g j => ?_) g
    split
    · exact .addFrom g j xnode false
    · exact .refl g
  have w5 : ∀ g rep, NStep c Wiring g (wire5 c origin g fnode xnode ci rep) := by
    intro g rep; unfold wire5
    cases ci with
    | none => exact .refl g
    | some i =>
      simp only []
      refine .trans (NStep.foldl _ _ (fun g fin => ?_) g) (NStep.originAdd origin _ i)
      split
      · exact .addFrom g i fin false
      · exact .refl g
  unfold appWire
  exact .trans (w1 g) (.trans (.addFrom _ fnode xnode false) (.trans (w3 _) (.trans (w4 _) (.trans (w5 _ _)
    (.originAdd origin _ cur)))))

/-- a wiring step is logged by the empty log -/
theorem NStep.logged {G : GLang} {c : GCfg} {root : Node} {g g' : GState} (h : NStep c Wiring g g') :
    LoggedBy G c root [] g g' :=
  .ofNeutral (h.toGStep.mono (fun _ h => not_tracked_of_wiring h) (fun _ h => h))

/-! ## the operator triples -/

theorem mem_opTriplesM {c : GCfg} {root : Node} {g : GState} {cur : Nat} {name : String} {t : Triple} :
    t ∈ (opTriples c root g cur name).triples ↔ (t ∈ g.triples ∨ (c.withOperators = true ∧
      (t = (Node.b cur, Node.tf "via", Node.ns name) ∨
        (c.withMembership = true ∧ t = (root, Node.tf "containsOperation", Node.ns name))))) := by
  unfold opTriples
  cases c.withOperators <;> cases c.withMembership <;> simp [mem_add, or_assoc]

theorem opTriples_nstep (c : GCfg) (root : Node) (g : GState) (cur : Nat) (name : String) :
    NStep c (fun _ => True) g (opTriples c root g cur name) := by
  unfold opTriples
  split
  · exact .trans (.add _ _ trivial) (.iteAdd _ _ _ trivial)
  · exact .refl g

theorem opTriples_logged (G : GLang) (c : GCfg) (root : Node) (g : GState) (cur : Nat) (name : String) :
    LoggedBy G c root [.op cur name] g (opTriples c root g cur name) := by
  have st := (opTriples_nstep c root g cur name).toGStep
  obtain ⟨l, hl, _⟩ := st.typeNodes_ext
  refine ⟨⟨l, hl⟩, ?_, st.triples_mono, ?_⟩
  · intro ev hev
    rw [List.mem_singleton] at hev
    subst hev
    trivial
  intro M _ t _
  rw [mem_opTriplesM]
  simp only [List.mem_singleton, exists_eq_left, EvTriple]

end Tfv
