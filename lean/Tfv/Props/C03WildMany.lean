import Tfv.Model
import Tfv.Proofs.WildManyPairs
import Tfv.Proofs.WildManyUnif
import Tfv.Proofs.WildManyUnify
import Tfv.Proofs.WildManyLock
import Tfv.Props.C03WildReach
/-!
# C03 with ANY number of wildcards: the marking case of `fulfill` reduced to a local, STABLE criterion

Settled here (proofs in `Tfv/Proofs/WildMany*.lean`, namespace `Tfv.C03X`):
* skeleton variables are NEVER wildcards (`C03y_skeleton_not_wild`): `newVars` allocates with `wildcard := false`, and flags
  are only ever cleared afterwards;
* the engine's test in `fulfill` (`match3 … st=true aw=false`) IS the strict test whenever the lockstep walk of the two terms
  meets no two DISTINCT wildcards (`PairsOK`, `C03y_engine_test_is_strict`); `WildLe1` is the special case
  (`C03y_pairsOK_of_wildLe1`);
* hence `C03y_fulfill_mark_strict_partial`: a `fulfill` that marks, marks rightly, on any store with any number of wildcards,
  provided `PairsOK` holds after its `unify`;
* `PairsOK` itself is not kept by later bindings; `Unif` is the stable predicate behind it (two variables facing each other
  are the same variable, a variable faces only `Top`/`Bot`/a basic type): `C03y_unif_refl`, `C03y_unif_pairsOK`,
  `C03y_unif_stable`.
* THE LOCKSTEP INDUCTION over `unify`/`unifyList` (`Tfv/Proofs/WildManyLock.lean`): on an `OkStoreC`/`Chains` store with any
  number of wildcards a successful `unify … st=true sb=true sw=false` leaves `Unif` for its two arguments in EVERY branch
  (var/var binds: `C03y_unify_var_var_unif`; var/app builds the skeleton and recurses on it; basic types and `Top`/`Bot` are
  skipped on both sides by `match3`; app/app goes through `unifyList` and `C03y_unif_stable`) except ONE:
  `(.app ao as, .var bv)` with `arityOf ao ≠ 0`, where the model unifies the new skeleton with ITSELF (type.py:627). That
  branch is the explicit hypothesis `SkelR`: `C03y_unify_leaves_unif_partial`, and with it
  `C03y_fulfill_mark_strict_skel_partial` (the `fulfill` statement of the task, any number of wildcards).
OPEN: `SkelR` (there `Unif` for `(as_i, fresh_i)` has to come from the nested `fulfill` of the same record inside `bind bv`
through the attachment invariant, then `C03y_unif_stable`), and the replacement of `WildLe1` in the `TX` induction
(`C03y_reach_marks_hold`), which needs `OkStoreC`/`Chains` threaded through that induction. Not done here (time limit).
-/
namespace Tfv.C03
open Tfv Tfv.C03P Tfv.C03C Tfv.C03R Tfv.C03X Tfv.C17E

/-- The variables of a skeleton (`newVars σ n`, used by `unify` for `F(…)` against a variable when basic types are skipped)
are fresh variables of the resulting store and NOT wildcards. FULL. -/
theorem C03y_skeleton_not_wild (n : Nat) (σ : Store) (t : Term) (h : t ∈ (newVars σ n).2) :
    ∃ v, t = .var v ∧ σ.vars.length ≤ v ∧ (getVar (newVars σ n).1 v).wildcard = false :=
  newVars_fresh n σ t h

/-- non-vacuity: a skeleton of two variables over the store `σW` whose two variables ARE wildcards -/
example : (newVars σW 2).2 = [.var 2, .var 3] ∧ (getVar σW 0).wildcard = true ∧ (getVar σW 1).wildcard = true :=
  ⟨rfl, rfl, rfl⟩

/-- At most one wildcard in the store implies the local criterion for all terms. FULL. -/
theorem C03y_pairsOK_of_wildLe1 (L : Lang) (σ : Store) (hw : WildLe1 σ) (n : Nat) (a b : Term) : PairsOK L σ n a b :=
  pairsOK_of_wildLe1 L hw n a b

/-- The test `fulfill` makes (`match3` in subtype mode, wildcards not accepted) is the strict test (`match3` on the store
with every flag cleared) for two terms whose lockstep walk meets no two distinct wildcards at corresponding positions
(`PairsOK`), whatever the number of wildcards in the store. FULL. -/
theorem C03y_engine_test_is_strict (L : Lang) (σ : Store) (n : Nat) (a b : Term) (hp : PairsOK L σ n a b)
    (h : match3 L σ n true false a b = some true) : match3 L (dewild σ) n true false a b = some true :=
  match3_engine_imp_strict_of_pairs L σ n a b hp h

/-- non-vacuity: in `σW` (two wildcards `x0`, `x1`) the pair `(x0, x0)` passes the criterion and both tests; and the
hypothesis cannot be dropped: on `(x0, x1)` the engine's test answers `some true`, the strict test does not. -/
example : PairsOK exL σW 68 (.var 0) (.var 0) ∧ match3 exL σW 68 true false (.var 0) (.var 0) = some true :=
  ⟨unif_pairsOK exL σW 68 _ _ (unif_refl exL σW 68 _), by
    rw [match3_var_var exL σW 67 true false _ _ 0 0 rfl rfl]; simp⟩

theorem C03y_engine_test_not_strict :
    match3 exL σW 68 true false (.var 0) (.var 1) = some true ∧
    match3 exL (dewild σW) 68 true false (.var 0) (.var 1) ≠ some true := by
  refine ⟨(C03w_match3_distinct_true_iff exL σW 67 true (.var 0) (.var 1) 0 1 rfl rfl (by decide)).mpr ⟨rfl, rfl⟩, ?_⟩
  intro h
  have := (C03w_match3_distinct_true_iff exL (dewild σW) 67 true (.var 0) (.var 1) 0 1 rfl rfl (by decide)).mp h
  rw [getVar_dewild] at this
  exact Bool.noConfusion this.1

/-- One `fulfill` call on a subtype record, ANY number of wildcards, any store: if it succeeds, then either the strict
matcher answers `some true` on the resulting store and the call reports "fulfilled", or the call did nothing beyond its
`unify` (the engine's test was undecided). PARTIAL: the hypothesis `hp` (the criterion after the `unify` of this call)
is what the lockstep induction over `unify` has to deliver; see the header for the one branch that is open. -/
theorem C03y_fulfill_mark_strict_partial (L : Lang) (k : Nat) (σ σ' : Store) (c : Nat) (d : Bool) (ref tgt : Term)
    (s f : Bool) (hg : getConstr σ c = .sub ref tgt s f) (h : fulfill L (k+1) σ c = .ok (σ', d))
    (hp : ∀ σ1, unify L k σ ref tgt true true false = .ok σ1 → PairsOK L σ1 (matchFuel σ1) ref tgt) :
    (match3 L (dewild σ') (matchFuel σ') true false ref tgt = some true ∧ d = true) ∨
    (∃ σ1, unify L k σ ref tgt true true false = .ok σ1 ∧ σ' = σ1 ∧
      match3 L σ1 (matchFuel σ1) true false ref tgt = none) :=
  fulfill_mark_strict_of_pairs hg h hp

/-- non-vacuity: the pending record `x0 ≤ x1` of `σWs` (both wildcards) -/
example : getConstr σWs 0 = .sub (.var 0) (.var 1) false false := rfl

/-- `Unif` holds of every term against itself. FULL. -/
theorem C03y_unif_refl (L : Lang) (σ : Store) (n : Nat) (t : Term) : Unif L σ n t t := unif_refl L σ n t

/-- `Unif` implies the criterion `PairsOK`. FULL. -/
theorem C03y_unif_pairsOK (L : Lang) (σ : Store) (n : Nat) (a b : Term) (h : Unif L σ n a b) : PairsOK L σ n a b :=
  unif_pairsOK L σ n a b h

/-- `Unif` is kept in every later store (`Ext`: bindings are kept; `Chains`: the fuel of `followT` suffices), any number of
wildcards. FULL. -/
theorem C03y_unif_stable (L : Lang) (σ σ' : Store) (e : Ext σ σ') (hc' : Chains σ') (n : Nat) (a b : Term)
    (h : Unif L σ n a b) : Unif L σ' n a b :=
  unif_stable L e hc' n a b h

/-- non-vacuity: `F(x0)` against itself in `σW`, seen from `σW` itself -/
example : Unif exL σW 5 (.app 8 [.var 0]) (.app 8 [.var 0]) :=
  C03y_unif_stable exL σW σW (Ext.refl _) (chains_of_unbound (fun w => by
    unfold getVar σW
    rcases w with _ | _ | w <;> rfl)) 5 _ _ (C03y_unif_refl exL σW 5 _)

/-- `Unif` after the `unify` of a `fulfill` call yields the right mark in every later store: the strict matcher answers
`some true` on the store right after the test, and by `C03x_strict_stable_partial` in every later one. FULL (the depth
proviso enters only through `C03x_strict_stable_partial`). -/
theorem C03y_mark_strict_of_unif (L : Lang) (σ1 : Store) (ref tgt : Term) (hu : Unif L σ1 (matchFuel σ1) ref tgt)
    (hm : match3 L σ1 (matchFuel σ1) true false ref tgt = some true) :
    match3 L (dewild σ1) (matchFuel σ1) true false ref tgt = some true :=
  match3_engine_imp_strict_of_pairs L σ1 _ ref tgt (unif_pairsOK L σ1 _ ref tgt hu) hm

example : match3 exL (dewild σW) (matchFuel σW) true false (.var 0) (.var 0) = some true :=
  C03y_mark_strict_of_unif exL σW _ _ (unif_refl exL σW _ _) (by
    show match3 exL σW (71+1) true false (.var 0) (.var 0) = some true
    rw [match3_var_var exL σW 71 true false _ _ 0 0 rfl rfl]; simp)

/-- The variable/variable case of `unify` without `skip_wildcard` (what `fulfill` uses), any store with `Chains`: afterwards
both sides follow to the same term, so `Unif` holds with every fuel. FULL. -/
theorem C03y_unify_var_var_unif (L : Lang) (n : Nat) (σ σ1 : Store) (a b : Term) (av bv : Nat) (st sb : Bool)
    (hc : Chains σ) (hav : av < σ.vars.length) (ea : followT σ a = .var av) (eb : followT σ b = .var bv)
    (h : unify L n σ a b st sb false = .ok σ1) (m : Nat) : Unif L σ1 m a b :=
  unify_var_var_unif hc hav ea eb h m

/-- non-vacuity: the two wildcards of `σW` -/
example : Chains σW ∧ (0 : Nat) < σW.vars.length ∧ followT σW (.var 0) = .var 0 ∧ followT σW (.var 1) = .var 1 ∧
    boundToB (unify exL 6 σW (.var 0) (.var 1) true true false) 0 1 = true := by
  refine ⟨chains_of_unbound (unboundB_sound (by decide)), by decide, rfl, rfl, ?_⟩
  rw [unify_eq_K]; decide +kernel

/-- The lockstep induction: on a well-formed store (`OkStoreC`, `Chains`) with ANY number of wildcards, a successful
`unify` as `fulfill` calls it (subtype mode, `skip_basic`, no `skip_wildcard`) leaves `Unif` for its two arguments.
PARTIAL: the branch `F(as)` against an unbound variable, where the model unifies the fresh skeleton with itself, is the
hypothesis `SkelR` (for the fuels below `n`); every other branch is proved. `I` is any store invariant kept by this `unify`
(`KeptU`) and by binding a variable to a fresh skeleton (`KeptB`): `SkelR I` is asked only of stores satisfying `I`. It is
meant to be instantiated with the ATTACHMENT invariant (the record being fulfilled is in the constraint set of every
variable of its terms): without it (`I := fun _ => True`) `SkelR` cannot hold with enough fuel — on a store without
records nothing ever unifies `as_i` with `fresh_i`. -/
theorem C03y_unify_leaves_unif_partial (I : Store → Prop) (L : Lang) (wf : WF L) (kU : KeptU I L) (kB : KeptB I L)
    (n : Nat) (hs : ∀ k, k < n → SkelR I L k)
    (σ σ1 : Store) (a b : Term) (okc : OkStoreC L σ) (hc : Chains σ) (hI : I σ) (ha : okTerm L σ a = true)
    (hb : okTerm L σ b = true) (h : unify L n σ a b true true false = .ok σ1) (m : Nat) : Unif L σ1 m a b :=
  (all_lock_lt wf kU kB n hs).1 σ a b σ1 okc hc hI ha hb h m

/-- non-vacuity of the hypotheses (fuel 1: `SkelR` below fuel 1 is about `bind` with fuel 0, which fails) -/
example : WF exL ∧ KeptU (fun _ => True) exL ∧ KeptB (fun _ => True) exL ∧
    (∀ k, k < 1 → SkelR (fun _ => True) exL k) ∧ OkStoreC exL σWs ∧ Chains σWs ∧
    okTerm exL σWs (.var 0) = true ∧ okTerm exL σWs (.var 1) = true := by
  refine ⟨exL_wf, fun _ _ _ _ _ _ _ => trivial, fun _ _ _ _ _ _ _ _ => trivial, ?_, okStoreCB_sound (by decide),
    chains_of_unbound (unboundB_sound (by decide)), by decide, by decide⟩
  intro k hk σ ao as bv σ2 σ1 _ _ _ _ _ _ _ hb
  have : k = 0 := by omega
  subst this
  unfold bind at hb; cases hb

/-- `C03y_fulfill_mark_strict`: one `fulfill` call on a subtype record of a well-formed store with ANY number of wildcards. If
it succeeds, either the STRICT matcher answers `some true` on the resulting store and the call reports "fulfilled" (a mark
is set rightly), or the call did nothing beyond its `unify`. PARTIAL: modulo `SkelR` (see above); the depth proviso of
C03WildReach does not enter here (same store, same fuel), only when the mark is carried to later stores. -/
theorem C03y_fulfill_mark_strict_skel_partial (I : Store → Prop) (L : Lang) (wf : WF L) (kU : KeptU I L)
    (kB : KeptB I L) (k : Nat) (σ σ' : Store) (c : Nat) (d : Bool)
    (ref tgt : Term) (s f : Bool) (okc : OkStoreC L σ) (hc : Chains σ) (hI : I σ)
    (hr : okTerm L σ ref = true) (ht : okTerm L σ tgt = true) (hs : ∀ j, j < k → SkelR I L j)
    (hg : getConstr σ c = .sub ref tgt s f) (h : fulfill L (k+1) σ c = .ok (σ', d)) :
    (match3 L (dewild σ') (matchFuel σ') true false ref tgt = some true ∧ d = true) ∨
    (∃ σ1, unify L k σ ref tgt true true false = .ok σ1 ∧ σ' = σ1 ∧
      match3 L σ1 (matchFuel σ1) true false ref tgt = none) :=
  fulfill_mark_strict_lock wf kU kB okc hc hI hr ht hs hg h

/-- non-vacuity: the record `x0 ≤ x1` of `σWs`, both variables wildcards; `fulfill` with fuel 8 succeeds and marks -/
example : OkStoreC exL σWs ∧ Chains σWs ∧ getConstr σWs 0 = .sub (.var 0) (.var 1) false false ∧
    (getVar σWs 0).wildcard = true ∧ (getVar σWs 1).wildcard = true ∧ markedB (fulfill exL 8 σWs 0) 1 = true := by
  refine ⟨okStoreCB_sound (by decide), chains_of_unbound (unboundB_sound (by decide)), rfl, rfl, rfl, ?_⟩
  rw [fulfill_eq_K]; decide +kernel

end Tfv.C03
