import Tfv.Model
import Tfv.Spec.SatChain
open Tfv

def L0 : Lang := builtinDecls ++ [⟨"A", [], none⟩, ⟨"B", [], some 5⟩, ⟨"F", [true], none⟩, ⟨"C", [], none⟩, ⟨"D", [], some 6⟩]

mutual
def resT (σ : Store) : Nat → Term → Option Ty
  | 0, _ => none
  | n+1, t => match followT σ t with
    | .var _ => none
    | .app o args => (resTL σ n args).map (Ty.app o)
def resTL (σ : Store) : Nat → List Term → Option (List Ty)
  | 0, _ => none
  | _+1, [] => some []
  | n+1, t :: ts => match resT σ n t, resTL σ n ts with
    | some a, some as => some (a :: as)
    | _, _ => none
end

def checkFinal (L : Lang) (σ : Store) : List String :=
  (List.range σ.constrs.length).filterMap fun c =>
    match getConstr σ c with
    | .sub r t s f =>
      match resT σ 50 r, resT σ 50 t with
      | some a, some b => if sub L a b then none else some s!"SUB {c} violated ful={f} {repr a} {repr b}"
      | _, _ => none
    | .elim r alts f =>
      match resT σ 50 r, resTL σ 50 alts with
      | some a, some bs => if bs.any (fun b => sub L a b) then none else some s!"ELIM {c} violated ful={f} {repr a} {repr bs}"
      | _, _ => none

def run (L : Lang) (s : Schema) (xs : List Term) : Except Err (Store × Term) :=
  match instantiate L 200 {} s with
  | .error e => .error e
  | .ok (σ, f) => applyAll L 200 true σ f xs

def A : Term := .app 5 []
def B : Term := .app 6 []
def C : Term := .app 8 []
def D : Term := .app 9 []
def F (t : Term) : Term := .app 7 [t]
def fn (a b : Term) : Term := .app FUN [a, b]



def checkInv (σ : Store) : List String :=
  (List.range σ.constrs.length).filterMap fun c =>
    match getConstr σ c with
    | .sub r t _ false =>
      let vs := directVars σ 64 r (directVars σ 64 t [])
      if vs.isEmpty then some s!"UNFUL-RESOLVED {c}"
      else if vs.all (fun u => (getCset σ (getVar σ u).cset).contains c) then none
      else some s!"DETACHED {c}"
    | .elim r alts false =>
      let vs := (r :: alts).foldl (fun acc t => directVars σ 64 t acc) []
      if vs.isEmpty then none
      else if vs.all (fun u => (getCset σ (getVar σ u).cset).contains c) then none
      else some s!"DETACHED-ELIM {c}"
    | _ => none
