"""C18 - inference is independent of the order pending constraints are re-examined."""
from __future__ import annotations
import itertools, random
import langgen as G
import infer as I
from props import C03

RULE = ("constrained schemas as in C03 with 2-4 constraints (subtype and elimination, sharing variables) applied to argument sequences; through the "
        "TRANSFORGE_VERIF hook every *global priority order* of the constraints (all permutations for <= 4 constraints) is imposed at every re-check point, "
        "plus sampled schedules that pick a fresh random order at each re-check point; canonical outcomes (success or failure kind, result type, residual "
        "bounds, residual constraints as a set) are compared across schedules; every priority schedule is also compared with the scheduled model; a hand-over family (variables with base-type bounds identified with each other while constraints that mention them are pending); "
        "non-trivial = at least two constraints were pending at some re-check point; distinct by (language, schema, arguments)")
ASSUMPTIONS = ["a schedule is a choice of iteration order at each re-check point (what a Python set could produce)",
               "divergence only between TypingError subclasses when every schedule fails is known finding D14"]
INVARIANTS = True   # runner.run_invariants: hypotheses of the engine theorems evaluated on the model's runs of this check's infer lines
TRUSTED = ["harness/infer.py (hook installation, canonical rendering)"]
OWN_CORPUS = True


class Sched:
    """iteration orders imposed on check_constraints; records how many constraints were pending at most"""
    def __init__(self, mode, perm=None, seed=0):
        self.mode, self.perm, self.rng = mode, perm, random.Random(seed)
        self.max_pending = 0
        self.points = 0

    def __call__(self, cs):
        self.points += 1
        self.max_pending = max(self.max_pending, len(cs))
        base = sorted(cs, key=lambda c: getattr(c, "_verif_id", 0))
        if self.mode == "creation":
            return base
        if self.mode == "priority":
            rank = {cid: i for i, cid in enumerate(self.perm)}
            ids = sorted({getattr(c, "_verif_id", 0) for c in base})
            # ids are global creation numbers; rank by position among this case's constraints
            return sorted(base, key=lambda c: rank.get(self.local(c), len(rank)))
        out = list(base)
        self.rng.shuffle(out)
        return out

    def local(self, c):
        return getattr(c, "_verif_id", 0) - self.base_id


def run_with(s, args, spec, ops, sched):
    I.install_order_hook()
    sched.base_id = I.peek_id()     # the first constraint created in this case gets this global id
    I.set_order(sched)
    try:
        return I.run_chain(s, args, spec, ops)
    finally:
        I.set_order(None)


def outcome(obs):
    """canonical outcome: all intermediate and the final observation (constraints are already sets)"""
    return obs


def fail_kind(obs):
    last = obs.split(" | ")[-1]
    return last if last.startswith("E@") else None


def run(ctx):
    rng = ctx.rng
    corpus_files(ctx)
    nlang = 5 if ctx.tier == "quick" else 30
    ncase = 60 if ctx.tier == "quick" else 300
    for li in range(nlang):
        spec = G.gen_lang(rng, max_base=6, max_ops=3, max_arity=2)
        ops = spec.build()
        ctx.setup(spec.sexp(), "ok T")
        for k in range(ncase):
            s = gen_schema_many(rng, spec)
            args = I.gen_args(rng, spec, s, p_valid=0.85)
            one_case(ctx, li, spec, ops, s, args)
    handover_family(ctx)
    barevar_family(ctx)
    corpus(ctx)


def handover_family(ctx):
    """variables that carry a base-type bound and are then identified with each other while constraints that mention them are pending:
    k << [b1], j << [b2], R(v, k) << [R(P1, j), R(P2, k)], R(w, b3) << [R(P1, k), R(P2, b4)] over a three-level chain and unrelated types,
    applied to P1 / P2 - every re-check order of the four constraints"""
    rng = ctx.rng
    decls = list(G.BUILTIN_DECLS) + [("V", [], None), ("Q", [], 5), ("O", [], 6), ("X", [], None), ("Y", [], None), ("R", [True, True], None)]
    spec = G.LangSpec(decls)
    ops = spec.build()
    ctx.setup(spec.sexp(), "ok T")
    chain = [(5, ()), (6, ()), (7, ())]
    P = [(8, ()), (9, ())]
    k, j, v, w = ('v', 0), ('v', 1), ('v', 2), ('v', 3)

    def R(a, b):
        return (10, (a, b))
    for n in range(24 if ctx.tier == "quick" else 150):
        b1, b2, b3, b4 = (rng.choice(chain) for _ in range(4))
        if rng.random() < 0.6:
            # the second variable's bound strictly tighter than the first one's; the output constraint anchored at the first bound
            i1 = rng.randrange(0, 2); b1 = chain[i1]; b2 = chain[rng.randrange(i1 + 1, 3)]; b3 = b1; b4 = chain[rng.randrange(0, i1 + 1)]
        p1, p2 = rng.sample(P, 2)
        second = [j, k, rng.choice(chain)]
        key_alts = [R(p1, rng.choice([j, j, j, k])), R(p2, rng.choice([k, k, k, j]))]
        out_alts = [R(p1, rng.choice([k, k, k, j])), R(p2, rng.choice([b4, b4, b4, j]))]
        if n < 2:
            # (the shape with which a seeded change was first missed: Val > Qlt > Ord, k << Qlt, j << Ord)
            b1, b2, b3, b4 = chain[1], chain[2], chain[1], chain[0]
            key_alts = [R(p1, j), R(p2, k)]; out_alts = [R(p1, k), R(p2, b4)]
        elif rng.random() < 0.3:
            key_alts.append(R(rng.choice(P), rng.choice(second)))
        if n >= 2:
            rng.shuffle(key_alts); rng.shuffle(out_alts)
        bound = lambda x, b: ('elim', x, [b]) if n < 2 or rng.random() < 0.7 else ('sub', x, b, False)
        cs = [bound(k, b1), bound(j, b2), ('elim', R(v, k), key_alts), ('elim', R(w, b3), out_alts)]
        if n >= 2 and rng.random() < 0.3:
            rng.shuffle(cs)
        body = (G.FUN, (v, w)) if n < 2 or rng.random() < 0.7 else (G.FUN, (v, (G.FUN, (k, w))))
        s = {"nvars": 4, "nwild": 0, "body": body, "constraints": cs}
        args = [(0, p1 if n < 2 else rng.choice(P))]
        if body[1][1] != w and rng.random() < 0.7:
            args.append((0, rng.choice(chain)))
        ctx.count("handover_cases")
        one_case(ctx, "handover", spec, ops, s, args)


def barevar_family(ctx):
    """elimination constraints whose alternatives are bare signature variables next to base types (`y << [x, Z(b), x]`, `y << [b', x]`), over a
    tree of base types with siblings: what `minimize` keeps depends on whether a variable is still unresolved when it is compared"""
    rng = ctx.rng
    decls = list(G.BUILTIN_DECLS) + [("A", [], None), ("A1", [], 5), ("A11", [], 6), ("A2", [], 5), ("B", [], None), ("Z", [True], None)]
    spec = G.LangSpec(decls)
    ops = spec.build()
    ctx.setup(spec.sexp(), "ok T")
    bases = [(5, ()), (6, ()), (7, ()), (8, ()), (9, ())]
    x, y, z = ('v', 0), ('v', 1), ('v', 2)

    def alt(pool):
        r = rng.random()
        if r < 0.45:
            return rng.choice(pool)
        if r < 0.8:
            return rng.choice(bases)
        return (10, (rng.choice(bases + pool),))
    for n in range(30 if ctx.tier == "quick" else 200):
        cs = []
        if rng.random() < 0.7:
            cs.append(('sub', rng.choice([x, z]), rng.choice(bases), False))
        cs.append(('elim', y, [alt([x]) for _ in range(rng.randint(2, 3))]))
        cs.append(('elim', rng.choice([y, y, x]), [alt([x, z]) for _ in range(rng.randint(2, 3))]))
        if n < 3:
            # (the shape with which a seeded change was first reported without a failing input)
            cs = [('sub', z, (7, ()), False), ('elim', y, [x, (10, ((7, ()),)), x]), ('elim', y, [(8, ()), x])]
        rng.shuffle(cs) if n >= 3 else None
        body = (G.FUN, (x, (G.FUN, (y, z))))
        s = {"nvars": 3, "nwild": 0, "body": body, "constraints": cs}
        args = [(0, (8, ()) if n < 3 else rng.choice(bases))]
        if rng.random() < 0.4 and n >= 3:
            args.append((0, rng.choice(bases)))
        ctx.count("barevar_cases")
        one_case(ctx, "barevar", spec, ops, s, args)


def gen_schema_many(rng, spec):
    """2-4 constraints, biased to share variables"""
    for _ in range(20):
        s = I.gen_schema(rng, spec, max_vars=3, p_constraints=1.0)
        extra = I.gen_schema(rng, spec, max_vars=s["nvars"], p_constraints=1.0)
        if extra["nvars"] <= s["nvars"] and extra["nwild"] == 0:
            cs = s["constraints"] + extra["constraints"]
            if 2 <= len(cs) <= 4:
                return {"nvars": s["nvars"], "nwild": s["nwild"], "body": s["body"], "constraints": cs}
        if len(s["constraints"]) >= 2:
            return s
    return s


def one_case(ctx, li, spec, ops, s, args):
    n = len(s["constraints"])
    base = Sched("creation")
    obs0, res0, err0 = run_with(s, args, spec, ops, base)
    ctx.case(I.infer_line(s, args), obs0, {"lang": spec.to_json(), "schema": I.schema_src(s, spec), "args": [I.term_sexp(a[1]) for a in args]},
        nontrivial=base.max_pending >= 2, key=(li, I.schema_sexp(s), tuple(I.arg_sexp(a) for a in args)))
    ctx.count(f"pending_max_{min(base.max_pending, 4)}")
    if base.max_pending < 2:
        return
    scheds = []
    perms = list(itertools.permutations(range(n)))
    if len(perms) > 24:
        perms = ctx.rng.sample(perms, 24)
    for p in perms:
        scheds.append(("priority " + str(p), Sched("priority", perm=p)))
    for k in range(4 if ctx.tier == "quick" else 12):
        scheds.append((f"random {k}", Sched("random", seed=ctx.seed * 1000 + k)))
    outs = {"creation": obs0}
    model_lines = [I.infer_line(s, args)]
    for name, sc in scheds:
        obs, res, err = run_with(s, args, spec, ops, sc)
        outs[name] = obs
        if sc.mode == "priority":
            # the same schedule on the model (the engine with the re-check order as a parameter)
            model_lines.append("(infersched (" + " ".join(str(x) for x in sc.perm) + ") " + I.schema_sexp(s) + "".join(" " + I.arg_sexp(a) for a in args) + ")")
            ctx.case(model_lines[-1], obs,
                {"lang": spec.to_json(), "schema": I.schema_src(s, spec), "args": [I.term_sexp(a[1]) for a in args], "priority": list(sc.perm)},
                nontrivial=True, key=(li, I.schema_sexp(s), tuple(I.arg_sexp(a) for a in args), sc.perm))
        else:
            ctx.evaluations += 1
    distinct = set(outs.values())
    ctx.count("schedules", len(outs))
    for name, o in outs.items():
        last = o.split(" | ")[-1]
        if "Internal(" in last or ":X:" in last:
            ctx.fail(f"{I.schema_src(s, spec)} applied to {[I.term_sexp(a[1]) for a in args]}: under re-check order `{name}` inference fails with {last}",
                {"check": "internal-error-under-schedule", "error": last.split(":", 1)[1]},
                {"lang": spec.to_json(), "schema": s, "args": args, "outcomes": {k: v.split(" | ")[-1] for k, v in outs.items()}})
            break
    if len(distinct) > 1:
        kinds = {fail_kind(o) for o in distinct}
        allfail = all(k is not None for k in kinds)
        anyfail = any(k is not None for k in kinds)
        steps = {o.count(" | ") for o in distinct}
        if allfail:
            div = "error-kind" if len(steps) == 1 else "error-step"
        elif anyfail:
            div = "success-failure"
        else:
            div = "result"
        ctx.count("divergence_" + div)
        ctx.fail(f"{I.schema_src(s, spec)} applied to {[I.term_sexp(a[1]) for a in args]}: outcome depends on the re-check order ({div}): "
                 + "; ".join(sorted(f"{k}: {v.split(' | ')[-1]}" for k, v in list(outs.items())[:6])),
            {"check": "schedule-divergence", "divergence": div, "alts_mention_variables": alts_mention_vars(s), "selfref_alt": selfref_alt(s)},
            {"lang": spec.to_json(), "schema": s, "args": args, "outcomes": {k: v.split(" | ")[-1] for k, v in outs.items()}}, lines=model_lines)


def alts_mention_vars(s):
    """some elimination alternative mentions a schematic (non-wildcard) variable"""
    def has(t):
        if I.is_var(t):
            return t[1] < s["nvars"]
        return any(has(a) for a in t[1])
    return any(c[0] == 'elim' and any(has(a) for a in c[2]) for c in s["constraints"])


def selfref_alt(s):
    """some elimination constraint has an alternative that mentions a variable of its own reference (x << [F(x, _), ...])"""
    def vars_of(t, acc):
        if I.is_var(t):
            if t[1] < s["nvars"]:
                acc.add(t[1])
        else:
            for a in t[1]:
                vars_of(a, acc)
        return acc
    for c in s["constraints"]:
        if c[0] == 'elim':
            ref = vars_of(c[1], set())
            if any(vars_of(a, set()) & ref for a in c[2]):
                return True
    return False


def corpus_files(ctx):
    """minimised past failures (fixed defects D22, D23, ...) run first: a regression is reported as a violation"""
    import glob, json, os
    from props.C03 import fix_schema, tt
    d = os.path.join(os.path.dirname(os.path.dirname(os.path.dirname(os.path.abspath(__file__)))), "corpus", "C18")
    for f in sorted(glob.glob(os.path.join(d, "*.json"))):
        inp = json.load(open(f))["input"]
        spec = G.LangSpec([(n, v, p) for n, v, p in inp["lang"]])
        ops = spec.build()
        ctx.setup(spec.sexp(), "ok T")
        one_case(ctx, -2, spec, ops, fix_schema(inp["schema"]), [(a[0], tt(a[1])) for a in inp["args"]])
        ctx.count("corpus_cases")


def corpus(ctx):
    """D14: x**y**G(x,y) [x << [A, F(y)], y << [B, F(x)], x <= A] applied to B"""
    decls = list(G.BUILTIN_DECLS) + [("A", [], None), ("B", [], None), ("F", [True], None), ("G", [True, True], None)]
    spec = G.LangSpec(decls)
    ops = spec.build()
    ctx.setup(spec.sexp(), "ok T")
    x, y = ('v', 0), ('v', 1)
    s = {"nvars": 2, "nwild": 0, "body": (G.FUN, (x, (G.FUN, (y, (8, (x, y)))))),
         "constraints": [('elim', x, [(5, ()), (7, (y,))]), ('elim', y, [(6, ()), (7, (x,))]), ('sub', x, (5, ()), False)]}
    one_case(ctx, -1, spec, ops, s, [(0, (6, ()))])


def replay(ctx, payload):
    from props.C03 import fix_schema, tt
    inp = payload["input"]
    spec = G.LangSpec([(n, v, p) for n, v, p in inp["lang"]])
    ops = spec.build()
    s = fix_schema(inp["schema"])
    args = [(a[0], tt(a[1])) for a in inp["args"]]
    n = len(s["constraints"])
    outs = {}
    for p in itertools.permutations(range(n)):
        obs, res, err = run_with(s, args, spec, ops, Sched("priority", perm=p))
        outs[p] = obs.split(" | ")[-1]
    for k in range(8):
        obs, res, err = run_with(s, args, spec, ops, Sched("random", seed=k))
        outs[f"random{k}"] = obs.split(" | ")[-1]
    for k, v in outs.items():
        print(k, "->", v)
    return len(set(outs.values())) == 1
