import sys
sys.path.insert(0,'/repo')
from transforge.type import *
from transforge.type import _
from transforge.expr import *
from transforge.lang import *
from transforge.graph import *
from transforge.query import *
from rdflib import BNode, Dataset, RDF
def tryit(label, fn):
    try:
        r=fn(); print(label,'=>',r)
    except Exception as e:
        print(label,'!!',type(e).__name__, e)

A=TypeOperator('A')
f=Operator(type=(A**A)**A**A, name='f'); g=Operator(type=A**A, name='g'); h=Operator(type=A**A**A,name='h')
lang=Language(dict(A=A,f=f,g=g,h=h), namespace=TEST)
def closure_check(expr):
    G=TransformationGraph(lang, minimal=True, with_operators=True, with_dependencies=True)
    root=BNode(); G.add_expr(expr, root)
    fr=set((s,o) for s,o in G.subject_objects(TF['from']))
    dep=set((s,o) for s,o in G.subject_objects(TF.depends))
    # closure
    cl=set(fr)
    ch=True
    while ch:
        ch=False
        for (a,b) in list(cl):
            for (c,d) in fr:
                if b==c and (a,d) not in cl: cl.add((a,d)); ch=True
    return len(fr), len(dep), len(cl), len(cl-dep), len(dep-cl)
a=Source(A)
print('C09 first-order', closure_check(g(g(g(a)))))
print('C09 h', closure_check(h(g(a), g(g(a)))))
print('C09 higher', closure_check(f(g, a)))
print('C09 higher2', closure_check(f(g, g(a))))
