import Tfv.Proofs.FitsApplyBaseRep3
/-!
# C06 end to end, alternatives with their own variables, part 7: NULLARY arguments (`A`, `Top`, `Bottom`) for
`x ** r(x) [x << {F(b), G(c, d)}]`, and acceptance ⇔ fit for every well-formed concrete argument
-/
namespace Tfv.C06B
open Tfv Tfv.C03P Tfv.C03C Tfv.C16P Tfv.C17E Tfv.C03R Tfv.C06A Tfv.C05P

/-! ## `fix` of a pattern whose variables are free -/

theorem fix_fixList_free (L : Lang) (σ : Store) : ∀ (n : Nat),
    (∀ (t : Term) pl, (∀ v ∈ t.vars, VarFree σ v) → 2 * tsz t ≤ n → fix L n σ t pl = .ok (σ, t)) ∧
    (∀ vs (ts : List Term) pl, (∀ v ∈ Term.varsL ts, VarFree σ v) → 2 * tszL ts + 1 ≤ n →
      fixList L n σ vs ts pl = .ok σ)
  | 0 => by
    refine ⟨?_, ?_⟩
    · intro t pl _ h; have := tsz_pos t; omega
    · intro vs ts pl _ h; omega
  | n+1 => by
    obtain ⟨ih1, ih2⟩ := fix_fixList_free L σ n
    refine ⟨?_, ?_⟩
    · intro t pl hv h
      cases t with
      | var v =>
        obtain ⟨hb, hl, hu⟩ := hv v (by rw [Term.vars]; exact List.mem_singleton.mpr rfl)
        unfold fix
        rw [C16P.followT_unbound hb]
        simp only [hl, hu, Option.isSome_none, Bool.and_false, Bool.false_eq_true, if_false]
        rw [C16P.followT_unbound hb]
      | app o args =>
        rw [tsz] at h
        rw [Term.vars] at hv
        unfold fix
        rw [Tfv.followT_app]
        simp only []
        rw [ih2 _ args pl hv (by omega)]
    · intro vs ts pl hv h
      match vs, ts with
      | [], ts => exact fixList_nil_left L n σ _ pl
      | _ :: _, [] => exact fixList_nil_right L n σ _ pl
      | v :: vs, t :: ts =>
        rw [tszL] at h
        rw [Term.varsL] at hv
        have h1 := tsz_pos t
        rw [fixList_cons, ih1 t _ (fun v hv' => hv v (List.mem_append_left _ hv')) (by omega)]
        simp only []
        exact ih2 vs ts pl (fun v hv' => hv v (List.mem_append_right _ hv')) (by omega)

/-- `minimize` leaves two compound patterns with different heads and free variables alone, in ANY store -/
theorem minimize_two_free (L : Lang) (wf : WF L) (σ : Store) (h1 h2 : Nat) (as1 as2 : List Term)
    (k1 : arityOf L h1 ≠ 0) (k2 : arityOf L h2 ≠ 0) (hne : h1 ≠ h2)
    (s1 : tsz (.app h1 as1) ≤ 3) (s2 : tsz (.app h2 as2) ≤ 3)
    (p1 : ∀ v ∈ (Term.app h1 as1).vars, VarFree σ v) (p2 : ∀ v ∈ (Term.app h2 as2).vars, VarFree σ v)
    (n : Nat) (hn : 6 ≤ n) (ref : Term) (ful : Bool)
    (hg : getConstr σ 0 = .elim ref [.app h1 as1, .app h2 as2] ful) :
    minimize L (n+4) σ 0 = .ok (setConstr σ 0 (.elim (followT σ ref) [.app h1 as1, .app h2 as2] ful)) := by
  have f1 : ∀ k, 6 ≤ k → fix L k σ (.app h1 as1) true = .ok (σ, .app h1 as1) := fun k hk =>
    (fix_fixList_free L σ k).1 _ true p1 (by omega)
  have f2 : ∀ k, 6 ≤ k → fix L k σ (.app h2 as2) true = .ok (σ, .app h2 as2) := fun k hk =>
    (fix_fixList_free L σ k).1 _ true p2 (by omega)
  have e : matchFuel σ = (4 * σ.vars.length + 63) + 1 := rfl
  have m12 : match3 L σ (matchFuel σ) true false (.app h1 as1) (.app h2 as2) = some false := by
    rw [e]; exact match3_heads_ne L σ _ false h1 h2 _ _ k1 hne (compound_not_bot wf k1) (compound_not_top wf k2)
  have m21 : match3 L σ (matchFuel σ) true false (.app h2 as2) (.app h1 as1) = some false := by
    rw [e]; exact match3_heads_ne L σ _ false h2 h1 _ _ k2 (Ne.symm hne) (compound_not_bot wf k2) (compound_not_top wf k1)
  have hml : minLoop L (n+3) σ [.app h1 as1, .app h2 as2] [] = .ok (σ, [.app h1 as1, .app h2 as2]) := by
    rw [minLoop]
    simp only [List.foldl_nil, if_true]
    rw [Tfv.followT_app, f1 _ (by omega)]
    simp only [List.nil_append]
    rw [minLoop]
    simp only [List.foldl_cons, List.foldl_nil, m12, List.nil_append]
    simp only [show ((some false : Option Bool) == some true) = false from rfl, Bool.false_eq_true, if_false]
    rw [Tfv.followT_app, f2 _ (by omega)]
    simp only [List.cons_append, List.nil_append]
    rw [minLoop, m21]
    rfl
  rw [minimize, hg]
  simp only []
  rw [hml]
  simp only [hg, List.map_cons, List.map_nil, Tfv.followT_app]

/-! ## a base type `A` (not `Top`, `Bottom`) -/

/-- `x` with the lower bound `A` -/
def σIL (A o1 o2 : Nat) : Store :=
  { vars := [{ lower := some A, cset := 0 }, { cset := 1 }, { cset := 2 }, { cset := 3 }], csets := [[0], [0], [0], [0]],
    constrs := [.elim (.var 0) [P1 o1, P2 o2] false] }

theorem σIL_free (A o1 o2 v : Nat) (hv : 1 ≤ v) : VarFree (σIL A o1 o2) v := by
  match v, hv with
  | 1, _ | 2, _ | 3, _ => exact ⟨rfl, rfl, rfl⟩
  | v+4, _ => exact ⟨rfl, rfl, rfl⟩

theorem match3_var_lower_compound (L : Lang) (σ : Store) (n v A bo : Nat) (bs : List Term)
    (hbd : (getVar σ v).bound = none) (hl : (getVar σ v).lower = some A) (h0 : arityOf L bo ≠ 0) (ht : bo ≠ TOP) :
    match3 L σ (n+1) true true (.var v) (.app bo bs) = some false := by
  rw [match3]
  simp [Tfv.followT_app, C16P.followT_unbound hbd, hl, h0, ht]

theorem fulfill_σIL (L : Lang) (wf : WF L) (o1 o2 : Nat) (ops : OwnOps L o1 o2) (A n : Nat) (hn : 6 ≤ n) :
    fulfill L (n+5) (σIL A o1 o2) 0 = .error .constraintViolation := by
  have h1 : arityOf L o1 ≠ 0 := by rw [ops.a1]; decide
  have h2 : arityOf L o2 ≠ 0 := by rw [ops.a2]; decide
  have hg : getConstr (σIL A o1 o2) 0 = .elim (.var 0) [P1 o1, P2 o2] false := rfl
  rw [fulfill, hg]
  simp only []
  rw [show P1 o1 = .app o1 [.var 1] from rfl, show P2 o2 = .app o2 [.var 2, .var 3] from rfl] at hg
  rw [minimize_two_free L wf _ o1 o2 _ _ h1 h2 ops.ne (by simp [tsz, tszL]) (by simp [tsz, tszL])
    (fun v hv => σIL_free A o1 o2 v (by simp [Term.vars, Term.varsL] at hv; omega))
    (fun v hv => σIL_free A o1 o2 v (by simp [Term.vars, Term.varsL] at hv; omega)) n hn _ _ hg,
    C16P.followT_unbound rfl]
  have e1 : setConstr (σIL A o1 o2) 0 (.elim (.var 0) [.app o1 [.var 1], .app o2 [.var 2, .var 3]] false) =
      σIL A o1 o2 := rfl
  rw [e1]
  simp only [hg]
  have e2 : matchFuel (σIL A o1 o2) = 79 + 1 := rfl
  rw [e2]
  have k1 := match3_var_lower_compound L (σIL A o1 o2) 79 0 A o1 [.var 1] rfl rfl h1 (compound_not_top wf h1)
  have k2 := match3_var_lower_compound L (σIL A o1 o2) 79 0 A o2 [.var 2, .var 3] rfl rfl h2 (compound_not_top wf h2)
  simp only [List.filter_cons, List.filter_nil, k1, k2]
  rfl

theorem above_σI (L : Lang) (wf : WF L) (o1 o2 : Nat) (ops : OwnOps L o1 o2) (A n : Nat) (hn : 6 ≤ n) (ht : A ≠ TOP) :
    above L (n+8) (σI o1 o2) 0 A = .error .constraintViolation := by
  have ht' : (A == TOP) = false := by simpa using ht
  rw [above]
  have e0 : getVar (σI o1 o2) 0 = { cset := 0 } := rfl
  simp only [ht', Bool.false_eq_true, if_false, e0, Option.isSome_none, Option.any_none, Option.all_none, if_true]
  have e1 : setVar (setVar (σI o1 o2) 0 { cset := 0 }) 0 { lower := some A, cset := 0 } = σIL A o1 o2 := rfl
  rw [e1, checkConstraints]
  have e2 : getCset (σIL A o1 o2) (getVar (σIL A o1 o2) 0).cset = [0] := rfl
  rw [e2, checkList, fulfill_σIL L wf o1 o2 ops A n hn]


/-- a base type (not `Bottom`) fits no compound pattern -/
theorem fitsB_nullary_compound {L : Lang} (wf : WF L) (A o : Nat) (ps : List Term) (hA : arityOf L A = 0) (hb : A ≠ BOT)
    (ho : arityOf L o ≠ 0) : fitsB L true (.app A []) (.app o ps) = false := by
  have hb' : (A == BOT) = false := by simpa using hb
  have ht : o ≠ TOP := compound_not_top wf ho
  have ht' : (o == TOP) = false := by simpa using ht
  have hne : (A == o) = false := by
    have : A ≠ o := fun e => ho (e ▸ hA)
    simpa using this
  have hs : opSub L A o = false := by
    cases h : opSub L A o with
    | false => rfl
    | true => exact absurd (nullary_of_opSub wf h hb ht hA) ho
  rw [fitsB_app]
  simp [hb', ht', hA, hne, hs]

theorem check_top_own (L : Lang) (wf : WF L) (o1 o2 : Nat) (ops : OwnOps L o1 o2) (x : Nat) (hx : 6 ≤ x) :
    checkConstraints L (x+7) (σIB (.app TOP []) o1 o2) 0 = .error .constraintViolation := by
  have h1 : arityOf L o1 ≠ 0 := by rw [ops.a1]; decide
  have h2 : arityOf L o2 ≠ 0 := by rw [ops.a2]; decide
  rw [checkConstraints]
  have e1 : getCset (σIB (.app TOP []) o1 o2) (getVar (σIB (.app TOP []) o1 o2) 0).cset = [0] := rfl
  rw [e1, checkList, fulfill]
  have hg : getConstr (σIB (.app TOP []) o1 o2) 0 = .elim (.var 0) [P1 o1, P2 o2] false := rfl
  simp only [hg]
  rw [minimize_own L wf _ (.app TOP []) o1 o2 ops (σIB_inert _ o1 o2) x (by rw [size_base]; omega) _ _ hg,
    followT_bound_toTerm rfl]
  have e2 : setConstr (σIB (.app TOP []) o1 o2) 0 (.elim (Ty.app TOP []).toTerm [P1 o1, P2 o2] false) =
      σIB' (.app TOP []) o1 o2 := rfl
  rw [e2]
  have hg' : getConstr (σIB' (.app TOP []) o1 o2) 0 = .elim (Ty.app TOP []).toTerm [P1 o1, P2 o2] false := rfl
  simp only [hg']
  have e3 : matchFuel (σIB' (.app TOP []) o1 o2) = 80 := rfl
  have k1 := match3_keep_iff L (σIB' (.app TOP []) o1 o2) 80 (.app TOP []) (P1 o1)
    (patFree_σIB' _ o1 o2 _ (by simp [P1, Term.vars, Term.varsL])) (by decide)
  have k2 := match3_keep_iff L (σIB' (.app TOP []) o1 o2) 80 (.app TOP []) (P2 o2)
    (patFree_σIB' _ o1 o2 _ (by simp [P2, Term.vars, Term.varsL])) (by decide)
  rw [P1, fitsB_nullary_compound wf TOP o1 _ (arity_top wf) (by decide) h1, ← P1] at k1
  rw [P2, fitsB_nullary_compound wf TOP o2 _ (arity_top wf) (by decide) h2, ← P2] at k2
  rw [e3]
  simp only [List.filter_cons, List.filter_nil, k1, k2, Bool.false_eq_true, if_false]
  generalize hc : List.all [P1 o1, P2 o2] _ = cnd
  have hcnd : cnd = true := by rw [← hc]; rfl
  subst hcnd
  rw [Tfv.toTerm_app]
  rfl

theorem above_top_own (L : Lang) (wf : WF L) (o1 o2 : Nat) (ops : OwnOps L o1 o2) (x : Nat) (hx : 6 ≤ x) :
    above L (x+9) (σI o1 o2) 0 TOP = .error .constraintViolation := by
  rw [above]
  simp only [beq_self_eq_true, if_true]
  rw [← check_top_own L wf o1 o2 ops x hx, bind]
  have h0 := arity_top wf
  simp [σI, getVar, h0, setVar, σIB, Tfv.toTerm_app, Ty.toTermL]

theorem applyT_own_err (L : Lang) (N : Nat) (σ : Store) (r : Term) (a : Ty) (fixFlag : Bool) (e : Err)
    (h : unify L N σ a.toTerm (.var 0) true false false = .error e) :
    applyT L N σ (.app FUN [.var 0, r]) a.toTerm fixFlag = .error e := by
  unfold applyT
  rw [Tfv.followT_app, followT_toTerm]
  simp only [beq_self_eq_true, if_true]
  rw [h]

/-- a base type or `Top` as argument: `constraintViolation` -/
theorem runAll_own_nullary (L : Lang) (wf : WF L) (o1 o2 : Nat) (ops : OwnOps L o1 o2) (N : Nat) (r : Term) (A : Nat)
    (fixFlag : Bool) (h0 : arityOf L A = 0) (hb : A ≠ BOT) (hN : ownFuel r (.app A []) ≤ N) :
    runAll L N fixFlag (ownSchema r o1 o2) [(Ty.app A []).toTerm] = .error .constraintViolation := by
  unfold ownFuel at hN
  rw [size_base, Nat.mul_one] at hN
  obtain ⟨x, rfl⟩ : ∃ x, N = x + 10 := ⟨N - 10, by omega⟩
  unfold runAll
  rw [show x + 10 = (x + 5) + 5 from rfl, instantiate_ownSchema L wf o1 o2 ops r (x+5) (by omega)]
  simp only []
  rw [applyAll, show x + 5 + 5 = x + 10 from rfl]
  have hu : unify L (x+10) (σI o1 o2) (Ty.app A []).toTerm (.var 0) true false false = .error .constraintViolation := by
    rw [unify_base_gen L _ _ 0 A rfl h0 hb]
    by_cases ht : A = TOP
    · subst ht; exact above_top_own L wf o1 o2 ops x (by omega)
    · exact above_σI L wf o1 o2 ops A (x+1) (by omega) ht
  rw [applyT_own_err L _ _ r _ fixFlag _ hu]

/-- `Bottom` as argument: accepted, nothing recorded -/
theorem runAll_own_bottom (L : Lang) (wf : WF L) (o1 o2 : Nat) (ops : OwnOps L o1 o2) (N : Nat) (r : Term)
    (fixFlag : Bool) (hN : ownFuel r (.app BOT []) ≤ N) :
    runAll L N fixFlag (ownSchema r o1 o2) [(Ty.app BOT []).toTerm] = .ok (σI o1 o2, r) := by
  unfold ownFuel at hN
  rw [size_base, Nat.mul_one] at hN
  obtain ⟨x, rfl⟩ : ∃ x, N = x + 5 := ⟨N - 5, by omega⟩
  unfold runAll
  rw [instantiate_ownSchema L wf o1 o2 ops r x (by omega)]
  simp only []
  rw [applyAll]
  have happ : applyT L (x+5) (σI o1 o2) (.app FUN [.var 0, r]) (Ty.app BOT []).toTerm fixFlag = .ok (σI o1 o2, r) := by
    unfold applyT
    rw [Tfv.followT_app, followT_toTerm, Tfv.toTerm_app]
    simp only [beq_self_eq_true, if_true]
    rw [unify, Tfv.followT_app, C16P.followT_unbound rfl]
    simp only [beq_self_eq_true, if_true]
    have hres : resTerm (σI o1 o2) r = r := by
      cases r with
      | var v => exact C16P.followT_unbound (σI_free o1 o2 v).1
      | app o args => rfl
    have hf : fix L (x+5) (σI o1 o2) r true = .ok (σI o1 o2, r) := by
      rw [fix_inert (σI_inert o1 o2) (x+5) r true (by rw [size_base]; omega), hres]
    cases r with
    | var v => simp only [Bool.not_false, Bool.and_true]; cases fixFlag <;> simp [hf]
    | app o args => simp only []; split <;> first | exact hf | rfl
  rw [happ]
  simp only []
  rw [applyAll]


theorem fits_bottom_P1 {L : Lang} (wf : WF L) {o1 o2 : Nat} (ops : OwnOps L o1 o2) (hw : wfTy L (.app BOT []) = true) :
    Fits L (.app BOT []) (P1 o1) := by
  rw [← fits_iff wf _ _ hw (wfTm_P1 ops.a1) (linear_P1 o1), P1, fitsB_app]
  simp

theorem no_fit_nullary {L : Lang} (wf : WF L) {o1 o2 : Nat} (ops : OwnOps L o1 o2) {A : Nat} (h0 : arityOf L A = 0)
    (hb : A ≠ BOT) (hw : wfTy L (.app A []) = true) : ∀ p ∈ [P1 o1, P2 o2], ¬ Fits L (.app A []) p := by
  have h1 : arityOf L o1 ≠ 0 := by rw [ops.a1]; decide
  have h2 : arityOf L o2 ≠ 0 := by rw [ops.a2]; decide
  intro p hp hf
  simp only [List.mem_cons, List.mem_nil_iff, or_false] at hp
  rcases hp with rfl | rfl
  · rw [← fits_iff wf _ _ hw (wfTm_P1 ops.a1) (linear_P1 o1), P1, fitsB_nullary_compound wf A o1 _ h0 hb h1] at hf
    cases hf
  · rw [← fits_iff wf _ _ hw (wfTm_P2 ops.a2) (linear_P2 o2), P2, fitsB_nullary_compound wf A o2 _ h0 hb h2] at hf
    cases hf

/-- **acceptance ⇔ fit for EVERY well-formed concrete argument** (compound, base type, `Top`, `Bottom`) -/
theorem own_accept_iff_fit_all {L : Lang} (wf : WF L) (o1 o2 : Nat) (ops : OwnOps L o1 o2) (N : Nat) (r : Term) (a : Ty)
    (fixFlag : Bool) (hw : wfTy L a = true) (hda : Ty.depth a < 64) (hr : ∀ v ∈ r.vars, v = 0)
    (hN : ownFuel r a ≤ N) :
    (∃ σ' res, runAll L N fixFlag (ownSchema r o1 o2) [a.toTerm] = .ok (σ', res)) ↔
      ∃ p ∈ [P1 o1, P2 o2], Fits L a p := by
  cases a with
  | app ao as =>
    by_cases h0 : arityOf L ao = 0
    · have has := wfTy_nullary hw h0
      subst has
      by_cases hb : ao = BOT
      · subst hb
        rw [runAll_own_bottom L wf o1 o2 ops N r fixFlag hN]
        exact ⟨fun _ => ⟨P1 o1, List.mem_cons_self, fits_bottom_P1 wf ops hw⟩, fun _ => ⟨_, _, rfl⟩⟩
      · rw [runAll_own_nullary L wf o1 o2 ops N r ao fixFlag h0 hb hN]
        constructor
        · rintro ⟨_, _, h⟩; cases h
        · rintro ⟨p, hp, hf⟩; exact absurd hf (no_fit_nullary wf ops h0 hb hw p hp)
    · exact own_accept_iff_fit wf o1 o2 ops N r ao as fixFlag h0 hw hda hr hN

/-- … and for every well-formed concrete argument that fits no alternative the error is the declared `constraintViolation` -/
theorem own_reject_all {L : Lang} (wf : WF L) (o1 o2 : Nat) (ops : OwnOps L o1 o2) (N : Nat) (r : Term) (a : Ty)
    (fixFlag : Bool) (hw : wfTy L a = true) (hda : Ty.depth a < 64) (hr : ∀ v ∈ r.vars, v = 0)
    (hN : ownFuel r a ≤ N) (hno : ∀ p ∈ [P1 o1, P2 o2], ¬ Fits L a p) :
    runAll L N fixFlag (ownSchema r o1 o2) [a.toTerm] = .error .constraintViolation := by
  cases a with
  | app ao as =>
    by_cases h0 : arityOf L ao = 0
    · have has := wfTy_nullary hw h0
      subst has
      by_cases hb : ao = BOT
      · subst hb
        exact absurd (fits_bottom_P1 wf ops hw) (hno (P1 o1) List.mem_cons_self)
      · exact runAll_own_nullary L wf o1 o2 ops N r ao fixFlag h0 hb hN
    · exact own_reject wf o1 o2 ops N r ao as fixFlag h0 hw hda hr hN hno

end Tfv.C06B
