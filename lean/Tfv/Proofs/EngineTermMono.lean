import Tfv.Model.Infer
/-!
# Fuel monotonicity of the inference engine (C17, termination part)

`Le r r'`: the run `r` either ran out of fuel or is the run `r'`. Every function of the mutual block
is monotone in the fuel for this order.
-/
namespace Tfv.C17T
open Tfv

/-- `r` ran out of fuel, or it is `r'` -/
def Le {α : Type} (r r' : Except Err α) : Prop := r = .error .outOfFuel ∨ r = r'

theorem Le.rfl' {α : Type} (r : Except Err α) : Le r r := Or.inr rfl

/-- all twelve functions are monotone from fuel `n` to fuel `n+1` -/
structure MonoAt (L : Lang) (n : Nat) : Prop where
  unify : ∀ σ a b st sb sw, Le (unify L n σ a b st sb sw) (unify L (n+1) σ a b st sb sw)
  unifyList : ∀ σ vs xs ys st sb sw, Le (unifyList L n σ vs xs ys st sb sw) (unifyList L (n+1) σ vs xs ys st sb sw)
  bind : ∀ σ v t, Le (bind L n σ v t) (bind L (n+1) σ v t)
  above : ∀ σ v new, Le (above L n σ v new) (above L (n+1) σ v new)
  below : ∀ σ v new, Le (below L n σ v new) (below L (n+1) σ v new)
  checkConstraints : ∀ σ v, Le (checkConstraints L n σ v) (checkConstraints L (n+1) σ v)
  checkList : ∀ σ v cs, Le (checkList L n σ v cs) (checkList L (n+1) σ v cs)
  fulfill : ∀ σ c, Le (fulfill L n σ c) (fulfill L (n+1) σ c)
  minimize : ∀ σ c, Le (minimize L n σ c) (minimize L (n+1) σ c)
  minLoop : ∀ σ alts m, Le (minLoop L n σ alts m) (minLoop L (n+1) σ alts m)
  fix : ∀ σ t pl, Le (fix L n σ t pl) (fix L (n+1) σ t pl)
  fixList : ∀ σ vs ps pl, Le (fixList L n σ vs ps pl) (fixList L (n+1) σ vs ps pl)

theorem checkConstraints_step {L : Lang} {n : Nat} (ih : MonoAt L n) (σ : Store) (v : Nat) :
    Le (checkConstraints L (n+1) σ v) (checkConstraints L (n+2) σ v) := by
  rw [checkConstraints, checkConstraints]
  exact ih.checkList _ _ _

theorem checkList_step {L : Lang} {n : Nat} (ih : MonoAt L n) (σ : Store) (v : Nat) (cs : List Nat) :
    Le (checkList L (n+1) σ v cs) (checkList L (n+2) σ v cs) := by
  cases cs with
  | nil => rw [checkList, checkList]; exact Le.rfl' _
  | cons c cs =>
    rw [checkList, checkList]
    have h1 := ih.fulfill σ c
    have h2 := ih.checkList
    unfold Le at *
    grind



theorem unifyList_step {L : Lang} {n : Nat} (ih : MonoAt L n) (σ : Store) (vs : List Bool) (xs ys : List Term)
    (st sb sw : Bool) :
    Le (unifyList L (n+1) σ vs xs ys st sb sw) (unifyList L (n+2) σ vs xs ys st sb sw) := by
  have h1 := ih.unify
  have h2 := ih.unifyList
  unfold Le at *
  unfold unifyList
  grind

theorem fixList_step {L : Lang} {n : Nat} (ih : MonoAt L n) (σ : Store) (vs : List Bool) (ps : List Term) (pl : Bool) :
    Le (fixList L (n+1) σ vs ps pl) (fixList L (n+2) σ vs ps pl) := by
  have h1 := ih.fix
  have h2 := ih.fixList
  unfold Le at *
  unfold fixList
  grind

theorem minLoop_step {L : Lang} {n : Nat} (ih : MonoAt L n) (σ : Store) (alts m : List Term) :
    Le (minLoop L (n+1) σ alts m) (minLoop L (n+2) σ alts m) := by
  have h1 := ih.fix
  have h2 := ih.minLoop
  unfold Le at *
  unfold minLoop
  grind

theorem minimize_step {L : Lang} {n : Nat} (ih : MonoAt L n) (σ : Store) (c : Nat) :
    Le (minimize L (n+1) σ c) (minimize L (n+2) σ c) := by
  have h1 := ih.minLoop
  unfold Le at *
  unfold minimize
  grind

theorem unify_step {L : Lang} {n : Nat} (ih : MonoAt L n) (σ : Store) (a b : Term) (st sb sw : Bool) :
    Le (unify L (n+1) σ a b st sb sw) (unify L (n+2) σ a b st sb sw) := by
  have h1 := ih.unify
  have h2 := ih.unifyList
  have h3 := ih.bind
  have h4 := ih.above
  have h5 := ih.below
  unfold Le at *
  unfold unify
  grind



end Tfv.C17T
