import Tfv.Model.Lambda
/-!
# Declarative reduction relations for the lambda model (M5b)

Independent of the fuelled evaluators `whnf`/`nf`/`unfoldDefs`: one-step beta reduction closed under
all contexts, one-step delta (definition unfolding) closed under all contexts, their reflexive-transitive
closures, and the syntactic predicates "no beta redex" and "no defined operator".
-/
namespace Tfv.LamSpec
open Tfv

/-- one beta step anywhere in the term -/
inductive Red : LTerm → LTerm → Prop where
  | beta (b x : LTerm) : Red (.app (.lam b) x) (LTerm.beta b x)
  | appL {f f' : LTerm} (x : LTerm) : Red f f' → Red (.app f x) (.app f' x)
  | appR (f : LTerm) {x x' : LTerm} : Red x x' → Red (.app f x) (.app f x')
  | lam {b b' : LTerm} : Red b b' → Red (.lam b) (.lam b')

/-- reflexive-transitive closure of a relation on terms -/
inductive Star (R : LTerm → LTerm → Prop) : LTerm → LTerm → Prop where
  | refl (t : LTerm) : Star R t t
  | step {a b c : LTerm} : R a b → Star R b c → Star R a c

/-- many-step beta reduction -/
abbrev RedStar : LTerm → LTerm → Prop := Star Red

/-- one delta step anywhere in the term: a defined operator is replaced by the anonymous function
built from the FIRST definition with that name (the one `List.find?` returns) -/
inductive Delta (defs : List LDef) : LTerm → LTerm → Prop where
  | unfold {name : String} {d : LDef} :
      defs.find? (fun d => d.name == name) = some d → Delta defs (.op name) (lamN d.arity d.body)
  | appL {f f' : LTerm} (x : LTerm) : Delta defs f f' → Delta defs (.app f x) (.app f' x)
  | appR (f : LTerm) {x x' : LTerm} : Delta defs x x' → Delta defs (.app f x) (.app f x')
  | lam {b b' : LTerm} : Delta defs b b' → Delta defs (.lam b) (.lam b')

abbrev DeltaStar (defs : List LDef) : LTerm → LTerm → Prop := Star (Delta defs)

/-- no application whose function part is an anonymous function -/
def noRedex : LTerm → Bool
  | .lam b => noRedex b
  | .app f x => !f.isLam && noRedex f && noRedex x
  | _ => true

/-- no operator that has a definition in `defs` -/
def noDefined (defs : List LDef) : LTerm → Bool
  | .op name => !(defs.any (fun d => d.name == name))
  | .lam b => noDefined defs b
  | .app f x => noDefined defs f && noDefined defs x
  | _ => true

/-- every operator name in the term satisfies `p` -/
def allOps (p : String → Bool) : LTerm → Bool
  | .op name => p name
  | .lam b => allOps p b
  | .app f x => allOps p f && allOps p x
  | _ => true

/-- position of the definition used for `name` (`defs.length` when there is none) -/
def rank (defs : List LDef) (name : String) : Nat := defs.findIdx (fun d => d.name == name)

/-- every operator of the term is either undefined or defined by one of the first `k` definitions -/
def opsBelow (defs : List LDef) (k : Nat) (t : LTerm) : Bool :=
  allOps (fun name => decide (rank defs name < k) || rank defs name == defs.length) t

def depOrderedFrom (all : List LDef) : Nat → List LDef → Bool
  | _, [] => true
  | i, d :: rest => opsBelow all i d.body && depOrderedFrom all (i + 1) rest

/-- `defs` is in dependency order: the body of the `i`-th definition mentions only operators that are
undefined or whose (first) definition stands strictly earlier in the list. Rules out recursion. -/
def depOrdered (defs : List LDef) : Bool := depOrderedFrom defs 0 defs

/-- names of the definitions are pairwise distinct -/
def namesDistinct : List LDef → Bool
  | [] => true
  | d :: rest => !(rest.any (fun e => e.name == d.name)) && namesDistinct rest

/-- well-formed definition list: distinct names, dependency order -/
def wfDefs (defs : List LDef) : Bool := namesDistinct defs && depOrdered defs

/-- a term that cannot make a beta step -/
def Normal (t : LTerm) : Prop := ∀ t', ¬ Red t t'

/-- height of the syntax tree (fuel needed to re-normalise a normal form is `height + 1`) -/
def height : LTerm → Nat
  | .lam b => height b + 1
  | .app f x => max (height f) (height x) + 1
  | _ => 0

end Tfv.LamSpec
