import Tfv.Proofs.LambdaTypedMin
/-!
# concrete values for the non-vacuity examples of the typed C15 statements

A language with the base types `Val ⊒ Ord ⊒ Ratio` and an unrelated `Nom`; primitive operators `r`, `g`, `h`;
composite operators `compose`, `twice`, `flip`, `conv` (declared with a SUPERTYPE of its body's type) and
`norm` (uses an earlier definition), each at one concrete instance of its schema.
-/
namespace Tfv.C15P
open Tfv Tfv.LamSpec Tfv.LamTyped

def tL : Lang :=
  builtinDecls ++ [⟨"Val", [], none⟩, ⟨"Ord", [], some 5⟩, ⟨"Ratio", [], some 6⟩, ⟨"Nom", [], none⟩]
def tVal : Ty := base 5
def tOrd : Ty := base 6
def tRatio : Ty := base 7
def tNom : Ty := base 8

theorem tL_wfB : wfLangB tL = true := by decide
theorem tL_wf : WF tL := wf_of_wfLangB tL tL_wfB

/-- `r : Ord → Ratio`, `g : Val → Ord`, `h : Val → Ratio → Ord` are primitive; the others are composite -/
def tSg (name : String) : Option Ty :=
  if name = "r" then some (fn tOrd tRatio)
  else if name = "g" then some (fn tVal tOrd)
  else if name = "h" then some (fn tVal (fn tRatio tOrd))
  else if name = "compose" then some (fn (fn tOrd tRatio) (fn (fn tRatio tOrd) (fn tRatio tRatio)))
  else if name = "twice" then some (fn (fn tVal tVal) (fn tVal tVal))
  else if name = "flip" then some (fn (fn tVal (fn tRatio tOrd)) (fn tRatio (fn tVal tOrd)))
  else if name = "conv" then some (fn tRatio tVal)
  else if name = "norm" then some (fn tVal tVal)
  else none

/-- `s0 : Ratio`, `s1 : Val`, `s2 : Nom` -/
def tS (k : Nat) : Option Ty :=
  if k = 0 then some tRatio else if k = 1 then some tVal else if k = 2 then some tNom else none

/-- `compose := λf g x. f (g x)`, `twice := λf x. f (f x)`, `flip := λf b a. f a b`,
`conv := λx. r x` (body `Ord → Ratio`, declared `Ratio → Val`), `norm := λx. twice g x` -/
def tDefs : List LDef :=
  [ ⟨"compose", 3, .app (.var 2) (.app (.var 1) (.var 0))⟩,
    ⟨"twice", 2, .app (.var 1) (.app (.var 1) (.var 0))⟩,
    ⟨"flip", 3, .app (.app (.var 2) (.var 0)) (.var 1)⟩,
    ⟨"conv", 1, .app (.op "r") (.var 0)⟩,
    ⟨"norm", 1, .app (.app (.op "twice") (.op "g")) (.var 0)⟩ ]

theorem tSg_wf : WfMap tL tSg := by
  intro name T h
  unfold tSg at h
  repeat' split at h
  all_goals first
    | (injection h with h; subst h; decide)
    | cases h

theorem tS_wf : WfMap tL tS := by
  intro k T h
  unfold tS at h
  repeat' split at h
  all_goals first
    | (injection h with h; subst h; decide)
    | cases h

theorem nil_wf : WfCtx tL [] := by intro T h; cases h

/-- a `Sub` fact of the example language from the library's Boolean test -/
theorem tsub {s t : Ty} (hs : wfTy tL s = true) (ht : wfTy tL t = true) (h : sub tL s t = true) :
    Sub tL s t := (sub_true_iff tL_wf hs ht).mp h

theorem ratio_ord : Sub tL tRatio tOrd := tsub (by decide) (by decide) (by decide)
theorem ratio_val : Sub tL tRatio tVal := tsub (by decide) (by decide) (by decide)
theorem ord_val : Sub tL tOrd tVal := tsub (by decide) (by decide) (by decide)

/-! ## the definitions are typed -/

theorem compose_typed : HasType tL tSg tS [] (lamN 3 (.app (.var 2) (.app (.var 1) (.var 0))))
    (fn (fn tOrd tRatio) (fn (fn tRatio tOrd) (fn tRatio tRatio))) :=
  HasType.lam (HasType.lam (HasType.lam
    (HasType.app (A := tOrd) (HasType.var rfl) (HasType.app (A := tRatio) (HasType.var rfl) (HasType.var rfl)))))

theorem twice_typed : HasType tL tSg tS [] (lamN 2 (.app (.var 1) (.app (.var 1) (.var 0))))
    (fn (fn tVal tVal) (fn tVal tVal)) :=
  HasType.lam (HasType.lam
    (HasType.app (A := tVal) (HasType.var rfl) (HasType.app (A := tVal) (HasType.var rfl) (HasType.var rfl))))

theorem flip_typed : HasType tL tSg tS [] (lamN 3 (.app (.app (.var 2) (.var 0)) (.var 1)))
    (fn (fn tVal (fn tRatio tOrd)) (fn tRatio (fn tVal tOrd))) :=
  HasType.lam (HasType.lam (HasType.lam
    (HasType.app (A := tRatio) (HasType.app (A := tVal) (HasType.var rfl) (HasType.var rfl)) (HasType.var rfl))))

/-- the body of `conv` at its own type `Ord → Ratio` -/
theorem conv_body_typed : HasType tL tSg tS [] (lamN 1 (.app (.op "r") (.var 0))) (fn tOrd tRatio) :=
  HasType.lam (HasType.app (A := tOrd) (HasType.op rfl) (HasType.var rfl))

/-- … and at the declared type `Ratio → Val`, a strict supertype -/
theorem conv_typed : HasType tL tSg tS [] (lamN 1 (.app (.op "r") (.var 0))) (fn tRatio tVal) :=
  HasType.sub conv_body_typed (sub_fn tL_wf ratio_ord ratio_val)

theorem norm_typed : HasType tL tSg tS [] (lamN 1 (.app (.app (.op "twice") (.op "g")) (.var 0)))
    (fn tVal tVal) :=
  HasType.lam (HasType.app (A := tVal)
    (HasType.app (A := fn tVal tVal) (HasType.op rfl)
      (HasType.sub (T := fn tVal tOrd) (HasType.op rfl) (tsub (by decide) (by decide) (by decide))))
    (HasType.var rfl))

theorem tDefs_typed : DefsTyped tL tSg tS tDefs := by
  apply defsTyped_of_forall
  intro d hd
  simp only [tDefs, List.mem_cons, List.not_mem_nil, or_false] at hd
  rcases hd with rfl | rfl | rfl | rfl | rfl
  · exact ⟨_, rfl, compose_typed⟩
  · exact ⟨_, rfl, twice_typed⟩
  · exact ⟨_, rfl, flip_typed⟩
  · exact ⟨_, rfl, conv_typed⟩
  · exact ⟨_, rfl, norm_typed⟩

/-! ## runs -/

/-- `conv (compose r g s0)` -/
def tTerm : LTerm := .app (.op "conv") (.app (.app (.app (.op "compose") (.op "r")) (.op "g")) (.src 0))
/-- `r (r (g s0))` -/
def tResult : LTerm := .app (.op "r") (.app (.op "r") (.app (.op "g") (.src 0)))
/-- `norm s1` -/
def tTerm2 : LTerm := .app (.op "norm") (.src 1)
/-- `g (g s1)` -/
def tResult2 : LTerm := .app (.op "g") (.app (.op "g") (.src 1))
/-- `flip h s0 s1` -/
def tTerm3 : LTerm := .app (.app (.app (.op "flip") (.op "h")) (.src 0)) (.src 1)
/-- `h s1 s0` -/
def tResult3 : LTerm := .app (.app (.op "h") (.src 1)) (.src 0)

def tUnfolded : LTerm :=
  .app (.lam (.app (.op "r") (.var 0)))
    (.app (.app (.app (.lam (.lam (.lam (.app (.var 2) (.app (.var 1) (.var 0)))))) (.op "r")) (.op "g")) (.src 0))
def tUnfolded2 : LTerm :=
  .app (.lam (.app (.app (.lam (.lam (.app (.var 1) (.app (.var 1) (.var 0))))) (.op "g")) (.var 0))) (.src 1)
def tUnfolded3 : LTerm :=
  .app (.app (.app (.lam (.lam (.lam (.app (.app (.var 2) (.var 0)) (.var 1))))) (.op "h")) (.src 0)) (.src 1)

theorem tUnfold : unfoldDefs tDefs (tDefs.length + 1) tTerm = tUnfolded := by
  simp [unfoldDefs, tDefs, tTerm, tUnfolded, lamN]
theorem tUnfold2 : unfoldDefs tDefs (tDefs.length + 1) tTerm2 = tUnfolded2 := by
  simp [unfoldDefs, tDefs, tTerm2, tUnfolded2, lamN]
theorem tUnfold3 : unfoldDefs tDefs (tDefs.length + 1) tTerm3 = tUnfolded3 := by
  simp [unfoldDefs, tDefs, tTerm3, tUnfolded3, lamN]

theorem tPrim : primitiveL tDefs 8 tTerm = some tResult := by
  unfold primitiveL; rw [tUnfold]; decide
theorem tPrim2 : primitiveL tDefs 8 tTerm2 = some tResult2 := by
  unfold primitiveL; rw [tUnfold2]; decide
theorem tPrim3 : primitiveL tDefs 8 tTerm3 = some tResult3 := by
  unfold primitiveL; rw [tUnfold3]; decide

theorem tTerm_min : mintype tL tSg tS [] tTerm = some tVal := rfl
theorem tResult_min : mintype tL tSg tS [] tResult = some tRatio := rfl
theorem tTerm2_min : mintype tL tSg tS [] tTerm2 = some tVal := rfl
theorem tResult2_min : mintype tL tSg tS [] tResult2 = some tOrd := rfl
theorem tTerm3_min : mintype tL tSg tS [] tTerm3 = some tOrd := rfl
theorem tResult3_min : mintype tL tSg tS [] tResult3 = some tOrd := rfl

theorem tTerm_typed : HasType tL tSg tS [] tTerm tVal :=
  mintype_sound tL_wf tSg_wf tS_wf nil_wf _ tTerm_min
theorem tTerm2_typed : HasType tL tSg tS [] tTerm2 tVal :=
  mintype_sound tL_wf tSg_wf tS_wf nil_wf _ tTerm2_min
theorem tTerm3_typed : HasType tL tSg tS [] tTerm3 tOrd :=
  mintype_sound tL_wf tSg_wf tS_wf nil_wf _ tTerm3_min

theorem tNf : nf 8 tUnfolded = some tResult := by decide
theorem tUnfolded_typed : HasType tL tSg tS [] tUnfolded tVal :=
  tUnfold ▸ unfold_preserves tL_wf tDefs_typed _ tTerm_typed

theorem ty_ne_of_not_sub {s t : Ty} (hs : wfTy tL s = true) (ht : wfTy tL t = true)
    (h : sub tL s t = false) : ¬ Le tL s t := by
  intro hle
  have := (sub_true_iff tL_wf hs ht).mpr (Le.sub hs hle)
  rw [h] at this; cases this

/-- the expansion's minimal type is strictly more specific: `Ratio ≤ Val`, not `Val ≤ Ratio` -/
theorem tStrict : Sub tL tRatio tVal ∧ ¬ Le tL tVal tRatio :=
  ⟨ratio_val, ty_ne_of_not_sub (by decide) (by decide) (by decide)⟩
theorem tStrict2 : Sub tL tOrd tVal ∧ ¬ Le tL tVal tOrd :=
  ⟨ord_val, ty_ne_of_not_sub (by decide) (by decide) (by decide)⟩

/-! ## anonymous functions have no minimal type -/

/-- `λx. x` has the types `P → P` and `Q → Q`; a type below both would be `A → B` with `P ≤ A ≤ B ≤ Q` -/
theorem lamId_no_minimal {L : Lang} {Sg : String → Option Ty} {S : Nat → Option Ty} (wf : WF L) {Γ : List Ty}
    {P Q : Ty} (hPQ : ¬ Le L P Q) : ¬ ∃ M, IsMinType L Sg S Γ (.lam (.var 0)) M := by
  rintro ⟨M, hM, hmin⟩
  obtain ⟨A, B, hb, hle⟩ := inv_lam wf hM
  obtain ⟨T₀, h0, hAB⟩ := inv_var wf hb
  rw [List.getElem?_cons_zero] at h0
  injection h0 with h0; subst h0
  have hP : HasType L Sg S Γ (.lam (.var 0)) (fn P P) := HasType.lam (HasType.var rfl)
  have hQ : HasType L Sg S Γ (.lam (.var 0)) (fn Q Q) := HasType.lam (HasType.var rfl)
  have h1 := (le_fn_inv wf (Le.trans wf hle (hmin _ hP))).1
  have h2 := (le_fn_inv wf (Le.trans wf hle (hmin _ hQ))).2
  exact hPQ (Le.trans wf h1 (Le.trans wf hAB h2))

theorem tLamId_no_minimal : ¬ ∃ M, IsMinType tL tSg tS [] (.lam (.var 0)) M :=
  lamId_no_minimal tL_wf tStrict.2

/-! ## the hypothesis on the definitions cannot be dropped; typing is not preserved backwards -/

/-- `conv` declared `Ratio → Nom` although its body returns a `Ratio` -/
def tSgBad (name : String) : Option Ty :=
  if name = "r" then some (fn tOrd tRatio)
  else if name = "conv" then some (fn tRatio tNom)
  else none

def tDefsBad : List LDef := [⟨"conv", 1, .app (.op "r") (.var 0)⟩]
/-- `conv s0` -/
def tTermBad : LTerm := .app (.op "conv") (.src 0)
/-- `r s0` -/
def tResultBad : LTerm := .app (.op "r") (.src 0)

theorem tSgBad_wf : WfMap tL tSgBad := by
  intro name T h
  unfold tSgBad at h
  repeat' split at h
  all_goals first
    | (injection h with h; subst h; decide)
    | cases h

theorem tBad_prim : primitiveL tDefsBad 4 tTermBad = some tResultBad := by
  have : unfoldDefs tDefsBad (tDefsBad.length + 1) tTermBad =
      .app (.lam (.app (.op "r") (.var 0))) (.src 0) := by
    simp [unfoldDefs, tDefsBad, tTermBad, lamN]
  unfold primitiveL; rw [this]; decide

theorem tBad_typed : HasType tL tSgBad tS [] tTermBad tNom :=
  HasType.app (A := tRatio) (HasType.op rfl) (HasType.src rfl)

theorem tBad_result_untyped : ¬ HasType tL tSgBad tS [] tResultBad tNom := by
  intro h
  have hmin : mintype tL tSgBad tS [] tResultBad = some tRatio := rfl
  have := (mintype_isMin tL_wf tSgBad_wf tS_wf nil_wf hmin).2 _ h
  exact ty_ne_of_not_sub (by decide) (by decide) (by decide) this

/-- `K0 := λx. s0` declared `Ratio → Ratio`: `K0 s2` is ill-typed (`s2 : Nom`), its expansion `s0` is not -/
def tSgK (name : String) : Option Ty := if name = "K0" then some (fn tRatio tRatio) else none
def tDefsK : List LDef := [⟨"K0", 1, .src 0⟩]
def tTermK : LTerm := .app (.op "K0") (.src 2)

theorem tSgK_wf : WfMap tL tSgK := by
  intro name T h
  unfold tSgK at h
  split at h
  · injection h with h; subst h; decide
  · cases h

theorem tDefsK_typed : DefsTyped tL tSgK tS tDefsK := by
  apply defsTyped_of_forall
  intro d hd
  simp only [tDefsK, List.mem_cons, List.not_mem_nil, or_false] at hd
  subst hd
  exact ⟨_, rfl, HasType.lam (HasType.src rfl)⟩

theorem tK_prim : primitiveL tDefsK 3 tTermK = some (.src 0) := by
  have : unfoldDefs tDefsK (tDefsK.length + 1) tTermK = .app (.lam (.src 0)) (.src 2) := by
    simp [unfoldDefs, tDefsK, tTermK, lamN]
  unfold primitiveL; rw [this]; decide

theorem tK_untyped : ¬ ∃ T, HasType tL tSgK tS [] tTermK T := by
  intro h
  obtain ⟨M, hM⟩ := (mintype_complete tL_wf tSgK_wf tS_wf nil_wf (t := tTermK) (by decide)).mp h
  have : mintype tL tSgK tS [] tTermK = none := by decide
  rw [this] at hM; cases hM

theorem tK_result_typed : HasType tL tSgK tS [] (.src 0) tRatio := HasType.src rfl

end Tfv.C15P
