import Tfv.Proofs.FitsApplyBase3
/-!
# C06 end to end, nullary argument, part 4: the whole run for a base-type argument
-/
namespace Tfv.C06B
open Tfv Tfv.C03P Tfv.C03C Tfv.C16P Tfv.C17E Tfv.C03R Tfv.C06A Tfv.C05P

/-- the upper bound `x` gets from the alternative with head `bo` (none from `Top`) -/
def upOf (bo : Nat) : Option Nat := if bo == TOP then none else some bo
/-- `x` is bound right after the application iff the alternative IS the argument (the bounds meet) -/
def st0 (ao bo : Nat) : Option Nat := if bo == ao then some ao else none

theorem infoB_eq {ao : Nat} (ht : ao ≠ TOP) (bo : Nat) : infoB ao bo = recS ao (upOf bo) (st0 ao bo) := by
  unfold infoB upOf st0 recS
  by_cases h1 : bo = TOP
  · subst h1
    have : (TOP == ao) = false := by
      cases h : (TOP == ao) with
      | false => rfl
      | true => exact absurd (eq_of_beq h).symm ht
    simp [this]
  · have h1' : (bo == TOP) = false := by simpa using h1
    by_cases h2 : bo = ao
    · subst h2; simp [h1']
    · have h2' : (bo == ao) = false := by simpa using h2
      simp [h1', h2']

theorem okb_of_above {L : Lang} (wf : WF L) {ao : Nat} (h0 : arityOf L ao = 0) (hb : ao ≠ BOT) (ht : ao ≠ TOP) {t : Ty}
    (hk : aboveB L ao t = true) : OKB L ao (upOf (hd t)) := by
  have key : ∀ bo, upOf (hd t) = some bo →
      bo = hd t ∧ hd t ≠ TOP ∧ arityOf L (hd t) = 0 ∧ opSub L ao (hd t) = true := by
    intro bo hbo
    unfold upOf at hbo
    split at hbo
    · cases hbo
    · next h1 =>
      have h1' : (hd t == TOP) = false := by simpa using h1
      have hne : hd t ≠ TOP := by simpa using h1
      simp only [aboveB, h1', Bool.false_or, Bool.and_eq_true, beq_iff_eq] at hk
      cases hbo
      exact ⟨rfl, hne, hk.1, hk.2⟩
  refine ⟨h0, opSub_strict_irrefl wf hb ht, ?_, ?_, ?_⟩ <;> intro bo hbo <;> obtain ⟨e, hne, k1, k2⟩ := key bo hbo <;>
    subst e
  · exact k1
  · exact opSub_strict_antisymm wf k2 hb hne
  · refine opSub_strict_irrefl wf (fun e => ?_) hne
    rw [e, not_opSub_bot wf hb] at k2; exact absurd k2 (by decide)

/-! ## at most one alternative of an antichain is above a base type -/

theorem sub_of_head_top (L : Lang) (u t : Ty) (h : hd t = TOP) : sub L u t = true := by
  cases u with
  | app a as =>
  cases t with
  | app b bs =>
    simp only [hd] at h
    subst h
    unfold sub
    rw [matchC]
    simp

theorem sub_of_head_opSub (L : Lang) (u t : Ty) (h0 : arityOf L (hd u) = 0) (h : opSub L (hd u) (hd t) = true) :
    sub L u t = true := by
  cases u with
  | app a as =>
  cases t with
  | app b bs =>
    simp only [hd] at h h0
    unfold sub
    rw [matchC]
    simp only [if_true, Bool.true_and, h0, beq_self_eq_true, h, Bool.or_true]
    split <;> rfl

theorem above_comparable {L : Lang} (wf : WF L) {ao : Nat} (hb : ao ≠ BOT) {t u : Ty}
    (h1 : aboveB L ao t = true) (h2 : aboveB L ao u = true) : sub L t u = true ∨ sub L u t = true := by
  by_cases e1 : hd t = TOP
  · exact Or.inr (sub_of_head_top L u t e1)
  by_cases e2 : hd u = TOP
  · exact Or.inl (sub_of_head_top L t u e2)
  have e1' : (hd t == TOP) = false := by simpa using e1
  have e2' : (hd u == TOP) = false := by simpa using e2
  simp only [aboveB, e1', e2', Bool.false_or, Bool.and_eq_true, beq_iff_eq] at h1 h2
  rcases opSub_comparable wf hb h1.2 h2.2 with h | h
  · exact Or.inl (sub_of_head_opSub L t u h1.1 h)
  · exact Or.inr (sub_of_head_opSub L u t h2.1 h)

theorem antichain_filter (L : Lang) (p : Ty → Bool) : ∀ ts : List Ty, antichain L ts = true → antichain L (ts.filter p) = true
  | [], _ => rfl
  | t :: ts, h => by
    rw [antichain, Bool.and_eq_true, List.all_eq_true] at h
    rw [List.filter_cons]
    split
    · rw [antichain, Bool.and_eq_true, List.all_eq_true]
      exact ⟨fun u hu => h.1 u (List.mem_filter.mp hu).1, antichain_filter L p ts h.2⟩
    · exact antichain_filter L p ts h.2

theorem above_le_one {L : Lang} (wf : WF L) {ao : Nat} (hb : ao ≠ BOT) {ts : List Ty} (ha : antichain L ts = true)
    {t1 t2 : Ty} {rest : List Ty} (hk : ts.filter (aboveB L ao) = t1 :: t2 :: rest) : False := by
  have h := antichain_filter L (aboveB L ao) ts ha
  rw [hk, antichain, Bool.and_eq_true, List.all_eq_true] at h
  have h12 := h.1 t2 List.mem_cons_self
  have m1 : t1 ∈ ts.filter (aboveB L ao) := by rw [hk]; exact List.mem_cons_self
  have m2 : t2 ∈ ts.filter (aboveB L ao) := by rw [hk]; exact List.mem_cons_of_mem _ List.mem_cons_self
  rcases above_comparable wf hb (List.mem_filter.mp m1).2 (List.mem_filter.mp m2).2 with e | e <;> simp [e] at h12

/-! ## `applyT` and the run -/

theorem unify_base (L : Lang) (m ao : Nat) (alts : List Term) (h0 : arityOf L ao = 0) (hb : ao ≠ BOT) :
    unify L (m+1) (σ0 alts) (Ty.app ao []).toTerm (.var 0) true false false = above L m (σ0 alts) 0 ao := by
  have hocc := occurs_closed_var (L := L) (σ := σ0 alts) (w := 0) rfl (termFuel (σ0 alts)) _
    (closed_toTerm (.app ao []))
  rw [Tfv.toTerm_app] at hocc ⊢
  rw [unify, Tfv.followT_app, C16P.followT_unbound rfl]
  simp [hb, hocc, h0]

theorem applyT_base (L : Lang) (wf : WF L) (m : Nat) (r : Term) (ts : List Ty) (ao : Nat) (fixFlag : Bool)
    (h0 : arityOf L ao = 0) (hb : ao ≠ BOT) (ht : ao ≠ TOP) (ha : antichain L ts = true)
    (hd : ∀ t ∈ ts, Ty.depth t < 64) (hn : ts.length + 2 * Ty.sizeL ts + 1 ≤ m + 4) :
    applyT L (m+10) (σ0 (Ty.toTermL ts)) (.app FUN [.var 0, r]) (Ty.app ao []).toTerm fixFlag =
      (match afterB ao (ts.filter (aboveB L ao)) with
       | .error e => .error e
       | .ok σ1 => if fixFlag && !C06A.isFunT r then fix L (m+10) σ1 r true else .ok (σ1, r)) := by
  unfold applyT
  rw [Tfv.followT_app, followT_toTerm]
  simp only [beq_self_eq_true, if_true]
  rw [unify_base L _ ao _ h0 hb, above_lower L wf m ao ts hb ht ha hd hn]
  cases afterB ao (ts.filter (aboveB L ao)) with
  | error e => rfl
  | ok σ1 =>
    simp only []
    cases r <;> rfl

/-- the state of `x` at the end of the run -/
def finS (L : Lang) (ao bo : Nat) (r : Term) (doFix : Bool) : Option Nat :=
  if doFix then fixS L ao (upOf bo) true r (st0 ao bo) else st0 ao bo

/-- the final store of an accepted run on the base type `ao` with the unique fitting alternative `t` -/
def σFin (L : Lang) (ao : Nat) (t : Ty) (r : Term) (doFix : Bool) : Store :=
  σX (recS ao (upOf (hd t)) (finS L ao (hd t) r doFix)) [] (.elim (.var 0) [t.toTerm] true)

theorem filter_above_eq_sub {L : Lang} (wf : WF L) {ao : Nat} (h0 : arityOf L ao = 0) (hb : ao ≠ BOT) (ts : List Ty) :
    ts.filter (aboveB L ao) = ts.filter (fun t => sub L (.app ao []) t) := by
  congr 1
  funext t
  exact aboveB_eq_sub wf h0 hb t

theorem size_base (ao : Nat) : Ty.size (.app ao []) = 1 := by rw [Ty.size, Ty.sizeL]

theorem runAll_base_core (L : Lang) (wf : WF L) (N : Nat) (r : Term) (ts : List Ty) (ao : Nat) (fixFlag : Bool)
    (h0 : arityOf L ao = 0) (hb : ao ≠ BOT) (ht : ao ≠ TOP) (ha : antichain L ts = true) (h2 : 2 ≤ ts.length)
    (hd : ∀ t ∈ ts, Ty.depth t < 64) (hN : fuelFor r ts (.app ao []) ≤ N) :
    runAll L N fixFlag (elimSchema r ts) [(Ty.app ao []).toTerm] =
      (match afterB ao (ts.filter (aboveB L ao)) with
       | .error e => .error e
       | .ok σ1 => if fixFlag && !C06A.isFunT r then fix L N σ1 r true else .ok (σ1, r)) := by
  unfold fuelFor at hN
  rw [size_base, Nat.mul_one] at hN
  obtain ⟨m, rfl⟩ : ∃ m, N = m + 10 := ⟨N - 10, by omega⟩
  unfold runAll
  rw [show m + 10 = (m + 8) + 2 from rfl, instantiate_elimSchema L (m+8) r ts ha h2 hd (by omega)]
  simp only []
  rw [applyAll]
  rw [show m + 8 + 2 = m + 10 from rfl, applyT_base L wf m r ts ao fixFlag h0 hb ht ha hd (by omega)]
  cases afterB ao (ts.filter (aboveB L ao)) with
  | error e => rfl
  | ok σ1 =>
    simp only []
    cases (fixFlag && !C06A.isFunT r)
    · simp only [Bool.false_eq_true, if_false]
      rw [applyAll]
    · simp only [if_true]
      cases fix L (m+10) σ1 r true with
      | error e => rfl
      | ok p => cases p; simp only []; rw [applyAll]

/-- no alternative is above the base type: the declared `constraintViolation` -/
theorem runAll_base_none (L : Lang) (wf : WF L) (N : Nat) (r : Term) (ts : List Ty) (ao : Nat) (fixFlag : Bool)
    (h0 : arityOf L ao = 0) (hb : ao ≠ BOT) (ht : ao ≠ TOP) (ha : antichain L ts = true) (h2 : 2 ≤ ts.length)
    (hd : ∀ t ∈ ts, Ty.depth t < 64) (hN : fuelFor r ts (.app ao []) ≤ N)
    (hk : ts.filter (fun t => sub L (.app ao []) t) = []) :
    runAll L N fixFlag (elimSchema r ts) [(Ty.app ao []).toTerm] = .error .constraintViolation := by
  rw [runAll_base_core L wf N r ts ao fixFlag h0 hb ht ha h2 hd hN, filter_above_eq_sub wf h0 hb, hk]
  rfl

/-- exactly one alternative `t` is above the base type -/
theorem runAll_base_one (L : Lang) (wf : WF L) (N : Nat) (r : Term) (ts : List Ty) (ao : Nat) (fixFlag : Bool) (t : Ty)
    (h0 : arityOf L ao = 0) (hb : ao ≠ BOT) (ht : ao ≠ TOP) (ha : antichain L ts = true) (h2 : 2 ≤ ts.length)
    (hd : ∀ t ∈ ts, Ty.depth t < 64) (hN : fuelFor r ts (.app ao []) ≤ N)
    (hk : ts.filter (fun t => sub L (.app ao []) t) = [t]) :
    runAll L N fixFlag (elimSchema r ts) [(Ty.app ao []).toTerm] =
      .ok (σFin L ao t r (fixFlag && !C06A.isFunT r),
        if fixFlag && !C06A.isFunT r then resTerm (σFin L ao t r (fixFlag && !C06A.isFunT r)) r else r) := by
  have hkt : aboveB L ao t = true := by
    rw [aboveB_eq_sub wf h0 hb]
    exact (List.mem_filter.mp (by rw [hk]; exact List.mem_cons_self : t ∈ ts.filter (fun t => sub L (.app ao []) t))).2
  rw [runAll_base_core L wf N r ts ao fixFlag h0 hb ht ha h2 hd hN, filter_above_eq_sub wf h0 hb, hk]
  simp only [afterB]
  unfold σFin finS
  rw [infoB_eq ht]
  cases (fixFlag && !C06A.isFunT r)
  · rfl
  · simp only [if_true]
    unfold fuelFor at hN
    rw [size_base, Nat.mul_one] at hN
    rw [fix_S (okb_of_above wf h0 hb ht hkt) _ N r true _ (by omega)]

/-- the case analysis: under an antichain the filter keeps no or one alternative -/
theorem filter_cases {L : Lang} (wf : WF L) {ao : Nat} (h0 : arityOf L ao = 0) (hb : ao ≠ BOT) {ts : List Ty}
    (ha : antichain L ts = true) :
    ts.filter (fun t => sub L (.app ao []) t) = [] ∨ ∃ t, ts.filter (fun t => sub L (.app ao []) t) = [t] := by
  rw [← filter_above_eq_sub wf h0 hb]
  cases hk : ts.filter (aboveB L ao) with
  | nil => exact Or.inl rfl
  | cons t rest =>
    cases rest with
    | nil => exact Or.inr ⟨t, rfl⟩
    | cons t2 rest => exact absurd hk (fun h => above_le_one wf hb ha h)

end Tfv.C06B
