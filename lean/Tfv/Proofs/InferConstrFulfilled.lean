import Tfv.Proofs.InferConstrApply
/-!
# Fulfilled constraints hold (C03 with constraints, stretch goal)

* `SubsHold L σ`: every subtype constraint marked fulfilled holds under every solution of the store.
  It is preserved by every step of the engine proper on wildcard-free stores (`StepC.subful`, proved in the
  simultaneous induction: the only place where a subtype constraint is marked is `fulfill`, after
  `match3 … = some true`, which is sound without wildcards: `match3_true_sound`).
* `fulfill_elim_single`: when `fulfill` narrows an elimination constraint to a single alternative, the
  reference is a subtype of that alternative under every solution of the resulting store.
-/
namespace Tfv.C03C
open Tfv Tfv.C03P

/-- every subtype constraint marked fulfilled holds under every solution -/
def SubsHold (L : Lang) (σ : Store) : Prop :=
  ∀ c r t s, c < σ.constrs.length → getConstr σ c = .sub r t s true →
    ∀ ρ, Sat L ρ σ → Sub L (den ρ r) (den ρ t)

theorem StepC.subsHold {L : Lang} {σ σ' : Store} (s : StepC L σ σ') (nw : NoWild σ) (h : SubsHold L σ) :
    SubsHold L σ' := by
  intro c r t s' hc hg ρ hρ
  rcases s.subful nw c r t s' hc hg with ⟨h1, h2⟩ | good
  · exact h c r t s' h1 h2 ρ (s.sat ρ hρ)
  · exact good ρ hρ

theorem constrs_allocVars (σ : Store) (nvars nwild : Nat) : (allocVars σ nvars nwild).constrs = σ.constrs := by
  have key : ∀ (wc : Bool) (l : List Nat) (σ : Store),
      (l.foldl (fun σ _ => (newVar σ wc).1) σ).constrs = σ.constrs := by
    intro wc l
    induction l with
    | nil => intro σ; rfl
    | cons _ l ih => intro σ; simp only [List.foldl_cons]; rw [ih]; rfl
  unfold allocVars
  simp only []
  rw [key, key]

theorem unify_subsHold {L : Lang} (wf : WF L) {n : Nat} {σ σ' : Store} {a b : Term} {sb sw : Bool}
    (okc : OkStoreC L σ) (nw : NoWild σ) (hs : SubsHold L σ)
    (ha : okTerm L σ a = true) (hb : okTerm L σ b = true)
    (h : unify L n σ a b true sb sw = .ok σ') : NoWild σ' ∧ SubsHold L σ' := by
  obtain ⟨s, _⟩ := (all_soundC wf n).1 σ a b sb sw σ' okc ha hb h
  exact ⟨s.wild.noWild nw, s.subsHold nw hs⟩

theorem applyAll_subsHold {L : Lang} (wf : WF L) {n : Nat} {fixFlag : Bool} {σ σ' : Store} {f r : Term}
    {xs : List Term} (okc : OkStoreC L σ) (nw : NoWild σ) (hs : SubsHold L σ)
    (hf : okTerm L σ f = true) (hxs : okTermL L σ xs = true)
    (h : applyAll L n fixFlag σ f xs = .ok (σ', r)) : NoWild σ' ∧ SubsHold L σ' := by
  obtain ⟨s, _, _⟩ := applyAll_soundC wf n fixFlag xs σ σ' f r okc hf hxs h
  exact ⟨s.wild.noWild nw, s.subsHold nw hs⟩

theorem instantiate_subsHold {L : Lang} (wf : WF L) {n : Nat} {σ σ' : Store} {s : Schema} {f : Term}
    (okc : OkStoreC L σ) (nw : NoWild σ) (hs : SubsHold L σ) (hw : s.nwild = 0)
    (hcs : ∀ c, c ∈ s.constraints → okCAstN L (s.nvars + s.nwild) c = true)
    (hbody : okTermN L (s.nvars + s.nwild) s.body = true)
    (h : instantiate L n σ s = .ok (σ', f)) : NoWild σ' ∧ SubsHold L σ' := by
  obtain ⟨s0, s1, _, _, _⟩ := instantiate_steps wf okc hcs hbody h
  have nw0 : NoWild (allocVars σ s.nvars s.nwild) := by rw [hw]; exact noWild_allocVars nw s.nvars
  have hs0 : SubsHold L (allocVars σ s.nvars s.nwild) := by
    intro c r t s' hc hg ρ hρ
    rw [constrs_allocVars] at hc
    rw [getConstr_congr (constrs_allocVars σ s.nvars s.nwild)] at hg
    exact hs c r t s' hc hg ρ (s0.sat ρ hρ)
  exact ⟨s1.wild.noWild nw0, s1.subsHold nw0 hs0⟩

/-- the empty store -/
theorem subsHold_empty (L : Lang) : SubsHold L {} := by
  intro c r t s hc
  cases hc

/-- executable sufficient condition: no subtype constraint is marked fulfilled (yet) -/
def noFulfilledSubB (σ : Store) : Bool :=
  σ.constrs.all (fun x => match x with
    | .sub _ _ _ true => false
    | _ => true)

theorem noFulfilledSubB_sound {L : Lang} {σ : Store} (h : noFulfilledSubB σ = true) : SubsHold L σ := by
  intro c r t s hc hg
  have := List.all_eq_true.mp h _ (getConstr_mem hc)
  rw [hg] at this
  cases this

def noWildB (σ : Store) : Bool := σ.vars.all (fun i => !i.wildcard)

theorem noWildB_sound {σ : Store} (h : noWildB σ = true) : NoWild σ := by
  intro v
  rcases getVar_mem_or_default σ v with ⟨_, hm⟩ | ⟨_, hd⟩
  · have := List.all_eq_true.mp h _ hm
    simpa using this
  · rw [hd]

/-- When `fulfill` narrows an unfulfilled elimination constraint to a single alternative `only` (after
`minimize`, all other alternatives being refuted by `match3`), it succeeds with `true` and, under every solution of
the resulting store, the reference is a subtype of `only`. -/
theorem fulfill_elim_single {L : Lang} (wf : WF L) {n : Nat} {σ σ1 σ' : Store} {c : Nat} {d ful : Bool}
    {r0 ref only : Term} {a0 alts : List Term}
    (okc : OkStoreC L σ) (hc : c < σ.constrs.length)
    (h0 : getConstr σ c = .elim r0 a0 false)
    (hm : minimize L n σ c = .ok σ1)
    (h1 : getConstr σ1 c = .elim ref alts ful)
    (hf : alts.filter (fun t => match3 L σ1 (matchFuel σ1) true true ref t != some false) = [only])
    (h : fulfill L (n+1) σ c = .ok (σ', d)) :
    d = true ∧ ∀ ρ, Sat L ρ σ' → Sat L ρ σ ∧ Sub L (den ρ ref) (den ρ only) := by
  have s1 := (all_soundC wf n).2.2.2.2.2.2.2.2.2.2.1 σ c σ1 okc hc hm
  have hc1 : c < σ1.constrs.length := Nat.lt_of_lt_of_le hc s1.clen
  have hx := s1.ok.cget hc1
  rw [h1, constrTerms_elim] at hx
  obtain ⟨hr, halts⟩ := okTermL_cons.mp hx
  have honly : okTerm L σ1 only = true := by
    have hmem : only ∈ [only] := List.mem_cons_self
    rw [← hf] at hmem
    exact okTermL_iff.mp halts only (List.mem_filter.mp hmem).1
  unfold fulfill at h
  rw [h0] at h
  simp only [] at h
  rw [hm] at h
  simp only [] at h
  rw [h1] at h
  simp only [] at h
  have h := ite_error_inv h
  rw [hf] at h
  simp only [] at h
  have s2 : StepC L σ1 (setConstr σ1 c (.elim ref [only] true)) :=
    stepC_setConstr s1.ok hc1 (by
      rw [constrTerms_elim]
      exact okTermL_cons.mpr ⟨hr, okTermL_single honly⟩)
      (fun r' t' s' f' h' => by rw [h1] at h'; cases h') (fun _ r' t' s' h' => by cases h')
  split at h
  · cases h
  · next σ3 h3 =>
    injection h with h
    injection h with h4 h5
    subst h4
    obtain ⟨s3, hs3⟩ := (all_soundC wf n).1 _ ref only false false σ3 s2.ok (s2.okTerm hr) (s2.okTerm honly) h3
    exact ⟨h5.symm, fun ρ hρ => ⟨s1.sat ρ (s2.sat ρ (s3.sat ρ hρ)), hs3 rfl rfl ρ hρ⟩⟩

end Tfv.C03C
