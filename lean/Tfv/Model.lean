import Tfv.Model.Basic
import Tfv.Model.Sub
import Tfv.Model.Sexp
import Tfv.Model.Bag
import Tfv.Model.Apply
import Tfv.Model.Closure
import Tfv.Model.Uri
