"""Transformation graphs: switch combinations, building with the implementation, canonical text form
shared with the Lean driver (`showTriples`), and isomorphism comparison."""
from __future__ import annotations
import re

SWITCHES = ["with_operators", "with_types", "with_supertypes", "with_intermediate_types", "with_membership",
    "with_membership_supertypes", "with_type_parameters", "with_classes", "with_canonical_types",
    "with_noncanonical_types", "with_supertype_classes", "with_workflow_origin", "with_dependencies"]
DEFAULT_BITS = "TTTTTTTTFTFTT"


def gen_bits(rng, annotations_on=True):
    """switch combination; `annotations_on` keeps the switches C07 is about enabled more often"""
    bits = []
    for i, name in enumerate(SWITCHES):
        default = DEFAULT_BITS[i] == "T"
        p_flip = 0.12 if annotations_on else 0.3
        if name == "with_supertype_classes":
            p_flip = 0.05
        v = (not default) if rng.random() < p_flip else default
        bits.append("T" if v else "F")
    return "".join(bits)


def make_graph(lang, bits, **kw):
    from transforge.graph import TransformationGraph
    args = {name: (b == "T") for name, b in zip(SWITCHES, bits)}
    args.update(kw)
    return TransformationGraph(lang, with_labels=False, **args)


def node_str(n, lang_ns, bmap):
    from rdflib import BNode, URIRef, RDF, RDFS, Literal
    from transforge.namespace import TF
    if isinstance(n, BNode):
        if n not in bmap:
            bmap[n] = len(bmap)
        return f"_:{bmap[n]}"
    s = str(n)
    for prefix, ns in (("tf:", str(TF)), ("wf:", "https://example.com/wf#"), ("ns:", lang_ns), ("rdf:", str(RDF)), ("rdfs:", str(RDFS))):
        if s.startswith(ns):
            return prefix + s[len(ns):]
    if isinstance(n, Literal):
        return "lit:" + re.sub(r"\s+", "_", s)
    return "uri:" + s


def graph_text(g, lang, root, out, extra=()):
    """canonical text of an implementation graph: `ok root _:r out _:o (s p o) …` (blank nodes numbered by first appearance in sorted order)"""
    ns = str(lang.namespace)
    bmap = {}
    r = node_str(root, ns, bmap)
    o = node_str(out, ns, bmap) if out is not None else "-"
    triples = sorted("(" + " ".join(node_str(x, ns, bmap) for x in t) + ")" for t in g)
    return f"ok root {r} out {o} " + " ".join(triples)


def parse_text(text):
    """text form -> (root, out, set of triples)"""
    m = re.match(r"ok root (\S+) out (\S+) ?(.*)$", text)
    if not m:
        return None
    triples = re.findall(r"\((\S+) (\S+) (\S+)\)", m.group(3))
    return m.group(1), m.group(2), set(triples)


def to_rdflib(root, out, triples):
    from rdflib import Graph, BNode, URIRef
    g = Graph()
    bn = {}

    def node(s):
        if s.startswith("_:"):
            return bn.setdefault(s, BNode())
        return URIRef("x:" + s)
    for s, p, o in triples:
        g.add((node(s), node(p), node(o)))
    g.add((node(root), URIRef("x:marker-root"), URIRef("x:marker")))
    if out != "-":
        g.add((node(out), URIRef("x:marker-out"), URIRef("x:marker")))
    return g


def iso(a_text, b_text):
    """graph isomorphism of two text forms (error strings compare literally)"""
    if a_text == b_text:
        return True
    pa, pb = parse_text(a_text), parse_text(b_text)
    if pa is None or pb is None:
        return False
    if len(pa[2]) != len(pb[2]):
        return False
    if sorted(p for _, p, _ in pa[2]) != sorted(p for _, p, _ in pb[2]):
        return False
    from iso import isomorphic      # exact; rdflib.compare.isomorphic has false negatives (see iso.py)
    return isomorphic(to_rdflib(*pa), to_rdflib(*pb))


def diff_summary(a_text, b_text):
    pa, pb = parse_text(a_text), parse_text(b_text)
    if pa is None or pb is None:
        return f"{a_text[:200]} vs {b_text[:200]}"
    from collections import Counter
    ca = Counter((p, o if not o.startswith("_:") else "_") for _, p, o in pa[2])
    cb = Counter((p, o if not o.startswith("_:") else "_") for _, p, o in pb[2])
    return f"only in first: {dict(ca - cb)}; only in second: {dict(cb - ca)}"
