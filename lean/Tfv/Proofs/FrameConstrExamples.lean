import Tfv.Proofs.FrameConstrReach
import Tfv.Proofs.InferConstrExamples
/-!
# Concrete runs for the frame theorems of the constrained engine (non-vacuity of the C16c theorems)

`σC`: one variable `x0` with the pending constraint `x0 ≤ A` (an instance of `h : x ** x [x ≤ A]`).
`σCC`: a second instance of the same schema made behind it: `x1` with its own pending constraint `x1 ≤ A`.
Unifying `B ≤ x0` in `σCC` re-checks the constraint of `x0` and leaves `x1`, its constraint set and its
constraint exactly as they were.
-/
namespace Tfv.C16C
open Tfv Tfv.C03P Tfv.C16P Tfv.C03C

/-- two instances of `x ≤ A => x ** x` -/
def σCC : Store :=
  { vars := [{}, { cset := 1 }], csets := [[0], [1]],
    constrs := [.sub (.var 0) (.app 5 []) false false, .sub (.var 1) (.app 5 []) false false] }

/-- after allocation of the second instance's variable -/
def σCa : Store :=
  { vars := [{}, { cset := 1 }], csets := [[0], []], constrs := [.sub (.var 0) (.app 5 []) false false] }

theorem exCC_fulfill (n : Nat) : fulfill exL (n+2) σCC 1 = .ok (σCC, false) := by
  rw [fulfill_sub_eq exL (n+1) σCC 1 (ref := .var 1) (tgt := .app 5 []) (s := false) (f := false) rfl]
  rw [unify_unbound_base_skip rfl rfl]
  simp only []
  have e : matchFuel σCC = 71 + 1 := rfl
  rw [e, match3_var_app (av := 1) (bo := 5) (bs := []) rfl rfl]
  rfl

theorem exCC_add : addConstraint exL 11 σCa (.sub (.var 1) (.app 5 []) false false) = .ok σCC := by
  rw [addConstraint_eq]
  show ((match fulfill exL 11 σCC 1 with | .error e => .error e | .ok (σ1, _) => .ok σ1) : R) = _
  rw [show fulfill exL 11 σCC 1 = _ from exCC_fulfill 9]

/-- the second instantiation, behind the first -/
theorem exCC_inst : instantiate exL 11 σC exSC = .ok (σCC, .app FUN [.var 1, .var 1]) := by
  have h : addConstraints exL 11 1 σCa exSC.constraints = .ok σCC := by
    show ((match addConstraint exL 11 σCa (.sub (.var 1) (.app 5 []) false false) with
      | .error e => .error e | .ok σ1 => addConstraints exL 11 1 σ1 []) : R) = _
    rw [exCC_add]
    rfl
  show ((match addConstraints exL 11 1 σCa exSC.constraints with
    | .error e => .error e
    | .ok σ1 => fix exL 11 σ1 (spineFollow σ1 (exSC.body.shift 1)) true) : Except Err (Store × Term)) = _
  rw [h]
  with_unfolding_all rfl

/-- `x0 ≥ B`; `x1` and both constraints as before -/
def σCC1 : Store :=
  { vars := [{ lower := some 6 }, { cset := 1 }], csets := [[0], [1]],
    constrs := [.sub (.var 0) (.app 5 []) false false, .sub (.var 1) (.app 5 []) false false] }

theorem exCC_fulfill0 (n : Nat) : fulfill exL (n+2) σCC1 0 = .ok (σCC1, false) := by
  rw [fulfill_sub_eq exL (n+1) σCC1 0 (ref := .var 0) (tgt := .app 5 []) (s := false) (f := false) rfl]
  rw [unify_unbound_base_skip rfl rfl]
  simp only []
  have e : matchFuel σCC1 = 71 + 1 := rfl
  rw [e, match3_var_app (av := 0) (bo := 5) (bs := []) rfl rfl]
  rfl

theorem exCC_check (n : Nat) : checkConstraints exL (n+4) σCC1 0 = .ok σCC1 := by
  rw [checkConstraints, show getCset σCC1 (getVar σCC1 0).cset = [0] from rfl, checkList_cons, exCC_fulfill0]
  simp only [checkList_nil]
  rfl

theorem exCC_above (n : Nat) : above exL (n+5) σCC 0 6 = .ok σCC1 := by
  have e : above exL (n+5) σCC 0 6 = ((match checkConstraints exL (n+4) σCC1 0 with
    | .error e => .error e
    | .ok σ => aboveTail exL (n+4) σ 0) : R) := by rw [above]; rfl
  rw [e, exCC_check n]
  rfl

theorem exCC_unify : unify exL 11 σCC (.app 6 []) (.var 0) true false false = .ok σCC1 := by
  rw [unify_base_unbound rfl, ← exCC_above 5]
  rfl

theorem σCC_okc : OkStoreC exL σCC := okStoreCB_sound (by decide)

/-! ## reachability in `σCC` -/

theorem reachC_σCC_var0 : ∀ v, ReachC σCC (.var 0) v → v = 0 := by
  intro v h
  induction h with
  | here hv => cases hv; rfl
  | @bound w b v _ hb _ ih => subst ih; cases hb
  | @constr w c u v _ hm hu hv ih =>
    subst ih
    have hc : c = 0 := by simpa [σCC, getCset, getVar] using hm
    subst hc
    have hu' : u = .var 0 ∨ u = .app 5 [] := by simpa [σCC, getConstr, constrTerms] using hu
    rcases hu' with rfl | rfl
    · cases hv; rfl
    · cases hv with
      | app hm' _ => cases hm'

theorem reachC_closed {σ : Store} {t : Term} (ht : t.closed = true) : ∀ v, ¬ ReachC σ t v := by
  have key : ∀ v, ¬ VarIn v t := by
    intro v hv
    have : ∀ t, VarIn v t → t.closed = false := by
      intro t hv
      induction hv with
      | var => rfl
      | @app o args u hm _ ih =>
        rw [Term.closed]
        induction args with
        | nil => cases hm
        | cons x xs ihx =>
          rw [Term.closedL]
          rcases List.mem_cons.mp hm with e | e
          · subst e; rw [ih]; rfl
          · rw [ihx e]; simp
    rw [this t hv] at ht; cases ht
  intro v h
  induction h with
  | here hv => exact key _ hv
  | bound _ _ _ ih => exact ih
  | constr _ _ _ _ ih => exact ih

/-- `x1`, its constraint set `1` and its constraint `1` are outside what `B ≤ x0` can reach -/
theorem exCC_disjoint :
    (¬ ReachC σCC (.app 6 []) 1 ∧ ¬ ReachC σCC (.var 0) 1) ∧
    (¬ ReachCset σCC (.app 6 []) 1 ∧ ¬ ReachCset σCC (.var 0) 1) ∧
    (¬ ReachConstr σCC (.app 6 []) 1 ∧ ¬ ReachConstr σCC (.var 0) 1) := by
  have hB : ∀ v, ¬ ReachC σCC (.app 6 []) v := reachC_closed (by decide)
  have h0 := reachC_σCC_var0
  have hK0 : ∀ k, ReachCset σCC (.var 0) k → k = 0 := by
    rintro k ⟨w, _, hr, e⟩
    have := h0 w hr
    subst this
    exact e.symm
  refine ⟨⟨hB 1, fun h => by have := h0 1 h; cases this⟩,
    ⟨fun ⟨w, _, hr, _⟩ => hB w hr, fun h => by have := hK0 1 h; cases this⟩,
    ⟨fun ⟨k, ⟨w, _, hr, _⟩, _⟩ => hB w hr, ?_⟩⟩
  rintro ⟨k, hk, hm⟩
  have := hK0 k hk
  subst this
  simp [σCC, getCset] at hm

/-- the region of the earlier expression `x1` in `σCC` -/
theorem reachC_σCC_var1 : ∀ v, ReachC σCC (.var 1) v → v = 1 := by
  intro v h
  induction h with
  | here hv => cases hv; rfl
  | @bound w b v _ hb _ ih => subst ih; cases hb
  | @constr w c u v _ hm hu hv ih =>
    subst ih
    have hc : c = 1 := by simpa [σCC, getCset, getVar] using hm
    subst hc
    have hu' : u = .var 1 ∨ u = .app 5 [] := by simpa [σCC, getConstr, constrTerms] using hu
    rcases hu' with rfl | rfl
    · cases hv; rfl
    · cases hv with
      | app hm' _ => cases hm'

/-! ## a dangling constraint-set pointer: the next allocation aliases it

`τD`: the variable `x0` points to the constraint-set object number 1, which is not allocated (the engine never
builds such a store: `TypeVariable()` creates the variable together with its set; `OkStoreC` does not exclude it).
The next variable allocated gets the constraint-set object 1: the two variables share it, and the constraint of the
new instance becomes a constraint of `x0`. -/

def τD : Store := { vars := [{ cset := 1 }], csets := [[]] }
def τDa : Store := { vars := [{ cset := 1 }, { cset := 1 }], csets := [[], []] }
def τD' : Store :=
  { vars := [{ cset := 1 }, { cset := 1 }], csets := [[], [0]], constrs := [.sub (.var 1) (.app 5 []) false false] }

theorem exD_fulfill (n : Nat) : fulfill exL (n+2) τD' 0 = .ok (τD', false) := by
  rw [fulfill_sub_eq exL (n+1) τD' 0 (ref := .var 1) (tgt := .app 5 []) (s := false) (f := false) rfl]
  rw [unify_unbound_base_skip rfl rfl]
  simp only []
  have e : matchFuel τD' = 71 + 1 := rfl
  rw [e, match3_var_app (av := 1) (bo := 5) (bs := []) rfl rfl]
  rfl

theorem exD_add : addConstraint exL 11 τDa (.sub (.var 1) (.app 5 []) false false) = .ok τD' := by
  rw [addConstraint_eq]
  show ((match fulfill exL 11 τD' 0 with | .error e => .error e | .ok (σ1, _) => .ok σ1) : R) = _
  rw [show fulfill exL 11 τD' 0 = _ from exD_fulfill 9]

theorem exD_inst : instantiate exL 11 τD exSC = .ok (τD', .app FUN [.var 1, .var 1]) := by
  have h : addConstraints exL 11 1 τDa exSC.constraints = .ok τD' := by
    show ((match addConstraint exL 11 τDa (.sub (.var 1) (.app 5 []) false false) with
      | .error e => .error e | .ok σ1 => addConstraints exL 11 1 σ1 []) : R) = _
    rw [exD_add]
    rfl
  show ((match addConstraints exL 11 1 τDa exSC.constraints with
    | .error e => .error e
    | .ok σ1 => fix exL 11 σ1 (spineFollow σ1 (exSC.body.shift 1)) true) : Except Err (Store × Term)) = _
  rw [h]
  with_unfolding_all rfl

theorem τD_okc : OkStoreC exL τD := okStoreCB_sound (by decide)

theorem reachC_τD_var0 : ∀ v, ReachC τD (.var 0) v → v = 0 := by
  intro v h
  induction h with
  | here hv => cases hv; rfl
  | @bound w b v _ hb _ ih => subst ih; cases hb
  | @constr w c u v _ hm _ _ ih =>
    subst ih
    simp [τD, getCset, getVar] at hm

theorem reachC_τD'_var0 : ReachC τD' (.var 0) 1 :=
  ReachC.constr (c := 0) (u := .var 1) (ReachC.here VarIn.var) (by decide)
    (show Term.var 1 ∈ [Term.var 1, Term.app 5 []] from List.mem_cons_self) VarIn.var

end Tfv.C16C
