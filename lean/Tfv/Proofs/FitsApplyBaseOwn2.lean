import Tfv.Proofs.FitsApplyBaseOwn1
/-!
# C06 end to end, alternatives with their own variables, part 2: `x ** r(x) [x << {F(b), G(c, d)}]`: `minimize`, `instantiate`
-/
namespace Tfv.C06B
open Tfv Tfv.C03P Tfv.C03C Tfv.C16P Tfv.C17E Tfv.C03R Tfv.C06A Tfv.C05P

/-- the alternative `F(b)` -/
def P1 (o1 : Nat) : Term := .app o1 [.var 1]
/-- the alternative `G(c, d)` -/
def P2 (o2 : Nat) : Term := .app o2 [.var 2, .var 3]

/-- the signature `x ** r(x) [x << {F(b), G(c, d)}]`: variables `x = 0`, `b = 1`, `c = 2`, `d = 3` -/
def ownSchema (r : Term) (o1 o2 : Nat) : Schema :=
  { nvars := 4, nwild := 0, body := .app FUN [.var 0, r], constraints := [.elim (.var 0) [P1 o1, P2 o2]] }

/-- `F` is unary, `G` binary, different operators -/
structure OwnOps (L : Lang) (o1 o2 : Nat) : Prop where
  a1 : arityOf L o1 = 1
  a2 : arityOf L o2 = 2
  ne : o1 ≠ o2

theorem compound_not_bot {L : Lang} (wf : WF L) {o : Nat} (h : arityOf L o ≠ 0) : o ≠ BOT :=
  fun e => h (by rw [e]; exact arity_bot wf)
theorem compound_not_top {L : Lang} (wf : WF L) {o : Nat} (h : arityOf L o ≠ 0) : o ≠ TOP :=
  fun e => h (by rw [e]; exact arity_top wf)

theorem match3_heads_ne (L : Lang) (σ : Store) (n : Nat) (aw : Bool) (a b : Nat) (as bs : List Term)
    (h0 : arityOf L a ≠ 0) (hne : a ≠ b) (hb : a ≠ BOT) (ht : b ≠ TOP) :
    match3 L σ (n+1) true aw (.app a as) (.app b bs) = some false := by
  rw [match3]
  simp [Tfv.followT_app, h0, hne, hb, ht]

/-- the store after instantiating `ownSchema` -/
def σI (o1 o2 : Nat) : Store :=
  { vars := [{ cset := 0 }, { cset := 1 }, { cset := 2 }, { cset := 3 }], csets := [[0], [0], [0], [0]],
    constrs := [.elim (.var 0) [P1 o1, P2 o2] false] }

theorem minLoop_own (L : Lang) (wf : WF L) (σ : Store) (a : Ty) (o1 o2 : Nat) (ops : OwnOps L o1 o2) (hi : Inert σ a)
    (n : Nat) (hn : 6 * Ty.size a ≤ n) :
    minLoop L (n+3) σ [P1 o1, P2 o2] [] = .ok (σ, [P1 o1, P2 o2]) := by
  have h1 : arityOf L o1 ≠ 0 := by rw [ops.a1]; decide
  have h2 : arityOf L o2 ≠ 0 := by rw [ops.a2]; decide
  have f1 : ∀ k, 6 * Ty.size a ≤ k → fix L k σ (P1 o1) true = .ok (σ, P1 o1) := fun k hk => by
    rw [(fix_fixList_inert L σ a hi k).1 (P1 o1) true (by simp only [P1, tsz, tszL]; omega)]; rfl
  have f2 : ∀ k, 6 * Ty.size a ≤ k → fix L k σ (P2 o2) true = .ok (σ, P2 o2) := fun k hk => by
    rw [(fix_fixList_inert L σ a hi k).1 (P2 o2) true (by simp only [P2, tsz, tszL]; omega)]; rfl
  have e : matchFuel σ = (4 * σ.vars.length + 63) + 1 := rfl
  have m12 : match3 L σ (matchFuel σ) true false (P1 o1) (P2 o2) = some false := by
    rw [e]; exact match3_heads_ne L σ _ false o1 o2 _ _ h1 ops.ne (compound_not_bot wf h1) (compound_not_top wf h2)
  have m21 : match3 L σ (matchFuel σ) true false (P2 o2) (P1 o1) = some false := by
    rw [e]; exact match3_heads_ne L σ _ false o2 o1 _ _ h2 (Ne.symm ops.ne) (compound_not_bot wf h2) (compound_not_top wf h1)
  rw [minLoop]
  simp only [List.foldl_nil, if_true]
  have fo1 : followT σ (P1 o1) = P1 o1 := Tfv.followT_app σ _ _
  have fo2 : followT σ (P2 o2) = P2 o2 := Tfv.followT_app σ _ _
  rw [fo1, f1 _ (by omega)]
  simp only [List.nil_append]
  rw [minLoop]
  simp only [List.foldl_cons, List.foldl_nil, m12, List.nil_append]
  simp only [show ((some false : Option Bool) == some true) = false from rfl, Bool.false_eq_true, if_false]
  rw [fo2, f2 _ (by omega)]
  simp only [List.cons_append, List.nil_append]
  rw [minLoop, m21]
  rfl

theorem minimize_own (L : Lang) (wf : WF L) (σ : Store) (a : Ty) (o1 o2 : Nat) (ops : OwnOps L o1 o2) (hi : Inert σ a)
    (n : Nat) (hn : 6 * Ty.size a ≤ n) (ref : Term) (ful : Bool)
    (hg : getConstr σ 0 = .elim ref [P1 o1, P2 o2] ful) :
    minimize L (n+4) σ 0 = .ok (setConstr σ 0 (.elim (followT σ ref) [P1 o1, P2 o2] ful)) := by
  rw [minimize, hg]
  simp only []
  rw [minLoop_own L wf σ a o1 o2 ops hi n hn]
  simp only [hg, List.map_cons, List.map_nil]
  rw [show followT σ (P1 o1) = P1 o1 from Tfv.followT_app σ _ _, show followT σ (P2 o2) = P2 o2 from Tfv.followT_app σ _ _]


theorem σI_free (o1 o2 v : Nat) : VarFree (σI o1 o2) v := by
  match v with
  | 0 | 1 | 2 | 3 => exact ⟨rfl, rfl, rfl⟩
  | v+4 => exact ⟨rfl, rfl, rfl⟩

theorem σI_inert (o1 o2 : Nat) : Inert (σI o1 o2) (.app 0 []) := fun v => Or.inl (σI_free o1 o2 v)

theorem fulfill_σI (L : Lang) (wf : WF L) (o1 o2 : Nat) (ops : OwnOps L o1 o2) (n : Nat) (hn : 6 ≤ n) :
    fulfill L (n+5) (σI o1 o2) 0 = .ok (σI o1 o2, false) := by
  have hg : getConstr (σI o1 o2) 0 = .elim (.var 0) [P1 o1, P2 o2] false := rfl
  rw [fulfill, hg]
  simp only []
  rw [minimize_own L wf _ (.app 0 []) o1 o2 ops (σI_inert o1 o2) n (by rw [size_base]; omega) _ _ hg,
    C16P.followT_unbound (σI_free o1 o2 0).1]
  have e1 : setConstr (σI o1 o2) 0 (.elim (.var 0) [P1 o1, P2 o2] false) = σI o1 o2 := rfl
  rw [e1]
  simp only [hg]
  have e2 : matchFuel (σI o1 o2) = 79 + 1 := rfl
  have k1 := match3_var_app_free L (σI o1 o2) 79 o1 [.var 1] 0 (σI_free o1 o2 0)
  have k2 := match3_var_app_free L (σI o1 o2) 79 o2 [.var 2, .var 3] 0 (σI_free o1 o2 0)
  rw [e2]
  have k1' : (match3 L (σI o1 o2) (79 + 1) true true (Term.var 0) (Term.app o1 [Term.var 1]) != some false) = true := by
    simpa using k1
  have k2' : (match3 L (σI o1 o2) (79 + 1) true true (Term.var 0) (Term.app o2 [Term.var 2, Term.var 3]) != some false) = true := by
    simpa using k2
  simp only [P1, P2, List.filter_cons, List.filter_nil, k1', k2', if_true]
  rfl


/-- the store after registering the constraint, before it is attached to its variables -/
def σI0 (o1 o2 : Nat) : Store :=
  { vars := [{ cset := 0 }, { cset := 1 }, { cset := 2 }, { cset := 3 }], csets := [[], [], [], []],
    constrs := [Constr.elim (Term.var 0) [P1 o1, P2 o2] false] }

theorem instantiate_ownSchema (L : Lang) (wf : WF L) (o1 o2 : Nat) (ops : OwnOps L o1 o2) (r : Term) (n : Nat)
    (hn : 2 * tsz r + 6 ≤ n) :
    instantiate L (n+5) {} (ownSchema r o1 o2) = .ok (σI o1 o2, .app FUN [.var 0, r]) := by
  have hal : allocVars {} 4 0 =
      { vars := [{ cset := 0 }, { cset := 1 }, { cset := 2 }, { cset := 3 }], csets := [[], [], [], []], constrs := [] } := rfl
  unfold instantiate
  simp only [ownSchema, hal, addConstraints, List.length_nil, shift_zero, shiftL_zero]
  rw [C16P.followT_unbound rfl]
  unfold addConstraint
  simp only [List.map_cons, List.map_nil, constrTerms, List.nil_append, List.length_nil]
  rw [show ∀ τ : Store, followT τ (P1 o1) = P1 o1 from fun τ => Tfv.followT_app τ _ _,
    show ∀ τ : Store, followT τ (P2 o2) = P2 o2 from fun τ => Tfv.followT_app τ _ _]
  have hv : varsOfTerms (σI0 o1 o2) [Term.var 0, P1 o1, P2 o2] = [0, 1, 2, 3] := by rfl
  unfold σI0 at hv
  rw [hv]
  have e0 : (List.foldl
      (fun σ v => setCset σ (getVar σ v).cset (insertSorted 0 (getCset σ (getVar σ v).cset)))
      (σI0 o1 o2) [0, 1, 2, 3]) = σI o1 o2 := rfl
  unfold σI0 at e0
  rw [if_neg (by simp [getVar])]
  rw [e0, fulfill_σI L wf o1 o2 ops n (by omega)]
  simp only []
  rw [spineFollow_free _ (fun v => (σI_free o1 o2 v).1)]
  rw [(fix_fixList_inert L _ _ (σI_inert o1 o2) (n+5)).1 _ true (by
    rw [size_base, tsz, tszL, tszL, tszL, tsz]; omega)]

end Tfv.C06B
