import Tfv.Model
import Tfv.Proofs.GraphAbsEmbed
import Tfv.Proofs.GraphAbsArg
import Tfv.Proofs.GraphAbsExamples
/-!
# C08 on expanded composite operators — abstractions in argument position

`addExprA` (Model/GraphAbs.lean) is the model of `add_expr` on expressions in which composite operators have been
replaced by their definitions, so that abstractions `λ p₁ … pₙ. body` remain in argument position.

1. `C08a_embed`: on an abstraction-free expression without `shared` marks, `addExprA` *is* `addExpr` (the function
   all theorems of `Props/C08.lean` are about), and the parameter table is carried along unchanged. With marks,
   `AExpr.ofT` has dropped them, so the correspondence is with `addExpr` on the unmarked expression
   (`C08a_embed_unshare`); `C08a_embed_fails_shared` shows that it fails for the marked one.
2. `C08a_params`: a parameter has no node of its own; `C08a_params_stable`: the table only grows and a registered
   parameter keeps its node; `C08a_abstraction_elsewhere_fails`: an abstraction anywhere but in the argument
   position of a function type fails.
3. `C08a_lam_wiring`: the complete local rule for `f (λ ps. body)`, in the form of `C08_hof_wiring`. The one
   difference to a passed operation: no edge from the argument's node to the internal node is added
   (`C08a_arg_wiring` is the rule for every other argument, which has that edge).
4. `C08a_lam_identity`: for `f (λp. p)` the argument's node is the internal node.

Statements only; proofs in `Tfv/Proofs/GraphAbs*.lean` (namespace `Tfv.C08P`).
-/
namespace Tfv.C08
open Tfv Tfv.C08P

/-! ## 1. abstraction-free expressions -/

/-- For a typed expression without `shared` marks (`noShared`), adding its embedding with `addExprA` gives exactly
the result of `addExpr` — the same error, or the same graph state and node — with the parameter table `ps` carried
along unchanged (`carry ps r = r.map (fun (g', n) => (⟨g', ps⟩, n))`). Any language, configuration, state. -/
theorem C08a_embed (G : GLang) (c : GCfg) (root : Node) (origin : Option Node) (e : TExpr) (h : noShared e = true)
    (g : GState) (ps : List (Nat × Nat)) (cur : Option Nat) (im : Bool) :
    addExprA G c root origin { g := g, params := ps } (AExpr.ofT e) cur im =
      carry ps (addExpr G c root origin g e cur im) :=
  addExprA_embed e h g ps cur im

/-- `carry` spelled out. -/
theorem C08a_carry (ps : List (Nat × Nat)) (r : Except GErr (GState × Nat)) :
    carry ps r = r.map (fun r => ({ g := r.1, params := ps }, r.2)) := rfl

example : noShared exShared = true ∧ noShared exNested = true ∧
    AExpr.ofT exHof = .app (.app (.op "h" tFAA) (.op "u" tAA) tAA) (.src 0 none tA) tA := ⟨rfl, rfl, rfl⟩

/-- With `shared` marks: the embedding does not see them, and `addExprA` on it is `addExpr` on the expression
without the marks (`unshare`), which is the expression itself when it has none. -/
theorem C08a_embed_unshare (G : GLang) (c : GCfg) (root : Node) (origin : Option Node) (e : TExpr)
    (g : GState) (ps : List (Nat × Nat)) (cur : Option Nat) (im : Bool) :
    AExpr.ofT (unshare e) = AExpr.ofT e ∧ noShared (unshare e) = true ∧ (noShared e = true → unshare e = e) ∧
    addExprA G c root origin { g := g, params := ps } (AExpr.ofT e) cur im =
      carry ps (addExpr G c root origin g (unshare e) cur im) :=
  ⟨ofT_unshare e, unshare_noShared e, unshare_of_noShared e, addExprA_embed_unshare e g ps cur im⟩

example : unshare (.app (.op "g" tAA) (.shared 3 exX) tA) = .app (.op "g" tAA) exX tA := rfl

/-- Why `noShared`: for the marked source `x` the graph code records the shared object (`sharedNodes`), the
embedding has lost the mark and records nothing; so the statement of `C08a_embed` is false for it. -/
theorem C08a_embed_fails_shared :
    noShared (.shared 0 exX) = false ∧
    addExprA exG exCfg (.res "w") none { g := {}, params := [] } (AExpr.ofT (.shared 0 exX)) none false ≠
      carry [] (addExpr exG exCfg (.res "w") none {} (.shared 0 exX) none false) ∧
    sharedTableOf (carry [] (addExpr exG exCfg (.res "w") none {} (.shared 0 exX) none false)) = some [(0, 0)] ∧
    sharedTableOf (addExprA exG exCfg (.res "w") none { g := {}, params := [] } (AExpr.ofT (.shared 0 exX)) none false) =
      some [] :=
  ⟨rfl, exShared_embed_fails, exShared_differs⟩

/-! ## 2. parameters -/

/-- A parameter is never given a node of its own: a registered parameter returns the node registered for it (the
first entry of the table with its number) and leaves the state — graph and table — as it was, whatever node was
reserved; an unregistered parameter fails the assertion. -/
theorem C08a_params (G : GLang) (c : GCfg) (root : Node) (origin : Option Node) (s : AState) (id : Nat) (ty : Term)
    (cur : Option Nat) (im : Bool) :
    (∀ p, s.params.find? (fun p => p.1 == id) = some p →
      addExprA G c root origin s (.pvar id ty) cur im = .ok (s, p.2)) ∧
    (s.params.find? (fun p => p.1 == id) = none →
      addExprA G c root origin s (.pvar id ty) cur im = .error (.internal "add_expr:assert Application")) :=
  ⟨fun _ h => addExprA_pvar_some ty cur im h, fun h => addExprA_pvar_none ty cur im h⟩

example : ([(3, 5), (3, 6)] : List (Nat × Nat)).find? (fun p => p.1 == 3) = some (3, 5) ∧
    ([(3, 5)] : List (Nat × Nat)).find? (fun p => p.1 == 4) = none := ⟨rfl, rfl⟩

/-- An abstraction that is not in argument position fails: on its own (so also as the body of an abstraction or
at the top), and in function position; and in argument position it never succeeds unless its type is a function
type. -/
theorem C08a_abstraction_elsewhere_fails (G : GLang) (c : GCfg) (root : Node) (origin : Option Node) (s : AState)
    (ps : List Nat) (body : AExpr) (t : Term) (cur : Option Nat) (im : Bool) :
    addExprA G c root origin s (.lam ps body t) cur im = .error (.internal "add_expr:assert Application") ∧
    (∀ x ty, addExprA G c root origin s (.app (.lam ps body t) x ty) cur im =
      .error (.internal "add_expr:assert Application")) ∧
    (t.isFunction = false → ∀ f ty s' n, addExprA G c root origin s (.app f (.lam ps body t) ty) cur im ≠ .ok (s', n)) :=
  ⟨addExprA_lam G c root origin s ps body t cur im,
   fun x ty => addExprA_lam_head s ps body x t ty cur im,
   fun ht f ty s' n => addExprA_lam_nofun_fails s f ps body t ty cur im ht s' n⟩

/-- `λx. x` at the top, an unregistered parameter, `h (λx. x)` with the abstraction typed `A`, and `(λx. x) s`: all
fail with an internal error. -/
example :
    failsAssert (addExprA exG exCfg (.res "w") none sA0 exLamTop none false) = true ∧
    failsAssert (addExprA exG exCfg (.res "w") none sA0 (.pvar 7 tA) none false) = true ∧
    failsAssert (addExprA exG exCfg (.res "w") none sA0 (.app (.op "h" tFAA) (.lam [7] (.pvar 7 tA) tA) tAA) none false) = true ∧
    failsAssert (addExprA exG exCfg (.res "w") none sA0 (.app exLamTop exXA tA) none false) = true :=
  exLam_failures

/-- The parameter table only grows, at its end; hence a parameter that is registered keeps its node through the
addition of any expression. -/
theorem C08a_params_stable (G : GLang) (c : GCfg) (root : Node) (origin : Option Node) (e : AExpr) (s s' : AState)
    (cur : Option Nat) (im : Bool) (n : Nat) (h : addExprA G c root origin s e cur im = .ok (s', n)) :
    (∃ l, s'.params = s.params ++ l) ∧
    ∀ id p, s.params.find? (fun p => p.1 == id) = some p → s'.params.find? (fun p => p.1 == id) = some p :=
  ⟨addExprA_params_ext e origin s cur im s' n h, fun _ _ hp => addExprA_lookup_stable h hp⟩

example : summaryA (addExprA exG exCfg (.res "w") none sA0 exLamNested none false) =
    some ⟨[(2, 7), (0, 7), (4, 2), (0, 1), (4, 2), (1, 2), (1, 3), (3, 4)], [(0, 2), (1, 4)], [(0, 7)], 8, 0,
      [(7, 2), (8, 4)]⟩ := exLamNested_run

/-- Internal nodes are never removed by `addExprA` (any expression, configuration, state). -/
theorem C08a_internals_kept (G : GLang) (c : GCfg) (root : Node) (origin : Option Node) (e : AExpr) (s s' : AState)
    (cur : Option Nat) (im : Bool) (n : Nat) (h : addExprA G c root origin s e cur im = .ok (s', n)) :
    ∀ p ∈ s.g.internals, p ∈ s'.g.internals :=
  addExprA_ints_mono e origin s cur im s' n h

example : summaryA (addExprA exG exCfg (.res "w") none { g := { nextB := 6 }, params := [(3, 5)] }
      (.app (.op "h" tFAA) (.pvar 3 tAA) tAA) (some 0) false) =
      some ⟨[(0, 5), (5, 7)], [(0, 7)], [], 8, 0, [(3, 5)]⟩ := exParamPassed_run

/-! ## 3. an abstraction in argument position -/

/-- The complete local rule for `f (λ ps. body)` where the abstraction has a function type (any expressions, any
configuration, any state). `f` is added first, with the reserved node `m`, giving the state `s1` and the node `fnode`.
Two blank nodes are spent: `s1.g.nextB` is reserved for the body and `lam = s1.g.nextB + 1` is the internal node,
attached to `fnode` (state `gi`: nothing else changes). The body is then added with every parameter of `ps`
registered for `lam` behind the existing table, without workflow origin, giving `s2` and the node `bnode`, which is the
node of the argument. The result is node `m`; table, internal nodes, counter and source nodes are those of `s2`, and
the pair `fnode internal lam` is among them (internal nodes are never removed: `C08a_internals_kept`).
* Every parameter of `ps` that was not registered before stands for `lam` in the body's starting table and still
  does in the resulting one (by `C08a_params_stable` also at every point in between, and `C08a_params` says that
  its occurrences are that node).
* `fnode → bnode`; nothing is removed; every internal node `μ` hanging off `bnode` takes `lam` (nested rule); `lam`
  takes every input `fin` that `fnode` has in `s2` (`bnode` too when it is one already); every other internal node
  `j` of `fnode` takes `bnode`.
* If `fnode ≠ bnode` and `fnode` is not listed as an internal node of itself or of `bnode`, the edges afterwards are
  exactly those of `s2` and the ones just listed.
* In particular, under the same conditions, no edge `bnode → lam` is added by this step: unless `bnode = lam` (identity
  abstraction), `bnode` is its own internal node, or the edge is there after the body has been added (as in
  `λx. g x`, where `g` takes its parameter), it is not in the result. A passed operation has it: `C08a_arg_wiring`. -/
theorem C08a_lam_wiring (G : GLang) (c : GCfg) (root : Node) (origin : Option Node) (s s' : AState)
    (f : AExpr) (ps : List Nat) (body : AExpr) (t ty : Term) (m : Nat) (im : Bool) (n : Nat)
    (ht : t.isFunction = true)
    (h : addExprA G c root origin s (.app f (.lam ps body t) ty) (some m) im = .ok (s', n)) :
    ∃ (s1 : AState) (fnode : Nat) (gi : GState) (s2 : AState) (bnode : Nat),
      addExprA G c root origin s f (some m) im = .ok (s1, fnode) ∧
      gi.nextB = s1.g.nextB + 2 ∧ gi.internals = s1.g.internals ++ [(fnode, s1.g.nextB + 1)] ∧
      gi.srcNodes = s1.g.srcNodes ∧ gi.sharedNodes = s1.g.sharedNodes ∧ gi.fd = s1.g.fd ∧
      addExprA G c root none { g := gi, params := s1.params ++ ps.map (fun p => (p, s1.g.nextB + 1)) } body
        (some s1.g.nextB) true = .ok (s2, bnode) ∧
      n = m ∧ s'.params = s2.params ∧
      s'.g.internals = s2.g.internals ∧ s'.g.nextB = s2.g.nextB ∧ s'.g.srcNodes = s2.g.srcNodes ∧
      (fnode, s1.g.nextB + 1) ∈ s'.g.internals ∧
      (∀ q ∈ ps, s1.params.find? (fun p => p.1 == q) = none →
        (s1.params ++ ps.map (fun p => (p, s1.g.nextB + 1))).find? (fun p => p.1 == q) = some (q, s1.g.nextB + 1) ∧
        s'.params.find? (fun p => p.1 == q) = some (q, s1.g.nextB + 1)) ∧
      (fnode, bnode) ∈ s'.g.fd.frm ∧
      (∀ p ∈ s2.g.fd.frm, p ∈ s'.g.fd.frm) ∧
      (∀ μ, (bnode, μ) ∈ s2.g.internals → (μ, s1.g.nextB + 1) ∈ s'.g.fd.frm) ∧
      (∀ fin, (fnode, fin) ∈ s2.g.fd.frm → (s1.g.nextB + 1, fin) ∈ s'.g.fd.frm) ∧
      (∀ j, (fnode, j) ∈ s2.g.internals → j ≠ s1.g.nextB + 1 → (j, bnode) ∈ s'.g.fd.frm) ∧
      (fnode ≠ bnode → (fnode, fnode) ∉ s2.g.internals → (bnode, fnode) ∉ s2.g.internals →
        ∀ p, p ∈ s'.g.fd.frm ↔
          p ∈ s2.g.fd.frm ∨ p = (fnode, bnode) ∨
          (∃ μ, (bnode, μ) ∈ s2.g.internals ∧ p = (μ, s1.g.nextB + 1)) ∨
          (∃ j, (fnode, j) ∈ s2.g.internals ∧ j ≠ s1.g.nextB + 1 ∧ p = (j, bnode)) ∨
          (∃ fin, (fnode, fin) ∈ s2.g.fd.frm ∧ p = (s1.g.nextB + 1, fin))) ∧
      (fnode ≠ bnode → (fnode, fnode) ∉ s2.g.internals → (bnode, fnode) ∉ s2.g.internals →
        bnode ≠ s1.g.nextB + 1 → (bnode, bnode) ∉ s2.g.internals → (bnode, s1.g.nextB + 1) ∉ s2.g.fd.frm →
        (bnode, s1.g.nextB + 1) ∉ s'.g.fd.frm) :=
  addExprA_lam_wiring ht h

/-- The hypotheses are satisfiable: the step `h (λx. g x)` with the reserved node 0 succeeds. In the theorem's
names: `fnode = 0`, `bnode = 1` (the body `g x`), `lam = 2`; the only new edge of the step is `0 → 1`; the edge
`1 → 2` was made inside the body, where `x` is node 2. -/
example : tAA.isFunction = true ∧
    (∃ s' n, addExprA exG exCfg (.res "w") none sA1
      (.app (.op "h" tFAA) (.lam [7] (.app (.op "g" tAA) (.pvar 7 tA) tA) tAA) tAA) (some 0) false = .ok (s', n)) ∧
    summaryA (addExprA exG exCfg (.res "w") none sA1
      (.app (.op "h" tFAA) (.lam [7] (.app (.op "g" tAA) (.pvar 7 tA) tA) tAA) tAA) (some 0) false) =
      some ⟨[(0, 1), (1, 2)], [(0, 2)], [], 4, 0, [(7, 2)]⟩ ∧
    ((0 : Nat) ≠ 1 ∧ ((0, 0) : Nat × Nat) ∉ [((0, 2) : Nat × Nat)] ∧ ((1, 0) : Nat × Nat) ∉ [((0, 2) : Nat × Nat)]) :=
  ⟨rfl, ok_of_summaryA exLamG_step_run, exLamG_step_run, by decide⟩

/-- `h (λx. g x) s` as a whole, next to `h g s`: the same graph up to the numbering of the nodes. -/
example :
    summaryA (addExprA exG exCfg (.res "w") none sA0 exLamG none false) =
      some ⟨[(2, 4), (0, 4), (0, 1), (1, 2)], [(0, 2)], [(0, 4)], 5, 0, [(7, 2)]⟩ ∧
    summaryA (addExprA exG exCfg (.res "w") none sA0 exPassedG none false) =
      some ⟨[(2, 3), (0, 3), (0, 1), (1, 2)], [(0, 2)], [(0, 3)], 4, 0, []⟩ :=
  ⟨exLamG_run, exPassedG_run⟩

/-- The rule for every other argument of function type (a parameter, an operator, an application that may contain
abstractions): exactly `C08_hof_wiring`, for `addExprA`. In contrast with an abstraction, the edge
`xnode → lam` is always there: a passed operation is fed by the internal node. -/
theorem C08a_arg_wiring (G : GLang) (c : GCfg) (root : Node) (origin : Option Node) (s s' : AState)
    (f x : AExpr) (ty : Term) (m : Nat) (im : Bool) (n : Nat)
    (hx : AExpr.isLam x = false) (hfun : x.ty.isFunction = true)
    (h : addExprA G c root origin s (.app f x ty) (some m) im = .ok (s', n)) :
    ∃ (s1 : AState) (fnode : Nat) (gi : GState) (s2 : AState) (xnode : Nat),
      addExprA G c root origin s f (some m) im = .ok (s1, fnode) ∧
      gi.nextB = s1.g.nextB + 2 ∧ gi.internals = s1.g.internals ++ [(fnode, s1.g.nextB + 1)] ∧
      gi.srcNodes = s1.g.srcNodes ∧ gi.sharedNodes = s1.g.sharedNodes ∧ gi.fd = s1.g.fd ∧
      addExprA G c root origin { g := gi, params := s1.params } x (some s1.g.nextB) true = .ok (s2, xnode) ∧
      n = m ∧ s'.params = s2.params ∧ s'.g.internals = s2.g.internals ∧
      (fnode, s1.g.nextB + 1) ∈ s'.g.internals ∧
      (xnode, s1.g.nextB + 1) ∈ s'.g.fd.frm ∧ (fnode, xnode) ∈ s'.g.fd.frm ∧
      (∀ p ∈ s2.g.fd.frm, p ∈ s'.g.fd.frm) ∧
      (∀ μ, (xnode, μ) ∈ s2.g.internals → (μ, s1.g.nextB + 1) ∈ s'.g.fd.frm) ∧
      (∀ fin, (fnode, fin) ∈ s2.g.fd.frm → (s1.g.nextB + 1, fin) ∈ s'.g.fd.frm) ∧
      (∀ j, (fnode, j) ∈ s2.g.internals → j ≠ s1.g.nextB + 1 → (j, xnode) ∈ s'.g.fd.frm) ∧
      (fnode ≠ xnode → (fnode, fnode) ∉ s2.g.internals → (xnode, fnode) ∉ s2.g.internals →
        ∀ p, p ∈ s'.g.fd.frm ↔
          p ∈ s2.g.fd.frm ∨ p = (xnode, s1.g.nextB + 1) ∨ p = (fnode, xnode) ∨
          (∃ μ, (xnode, μ) ∈ s2.g.internals ∧ p = (μ, s1.g.nextB + 1)) ∨
          (∃ j, (fnode, j) ∈ s2.g.internals ∧ j ≠ s1.g.nextB + 1 ∧ p = (j, xnode)) ∨
          (∃ fin, (fnode, fin) ∈ s2.g.fd.frm ∧ p = (s1.g.nextB + 1, fin))) :=
  addExprA_arg_wiring hx hfun h

/-- `h p` with the parameter `p` (registered for node 5) passed as an operation: node 5 is fed by the new internal
node 7 (`5 → 7`), and no node is made for `p` (6 was reserved and not used). -/
example : AExpr.isLam (.pvar 3 tAA) = false ∧ (AExpr.pvar 3 tAA).ty.isFunction = true ∧
    (∃ s' n, addExprA exG exCfg (.res "w") none { g := { nextB := 6 }, params := [(3, 5)] }
      (.app (.op "h" tFAA) (.pvar 3 tAA) tAA) (some 0) false = .ok (s', n)) ∧
    summaryA (addExprA exG exCfg (.res "w") none { g := { nextB := 6 }, params := [(3, 5)] }
      (.app (.op "h" tFAA) (.pvar 3 tAA) tAA) (some 0) false) =
      some ⟨[(0, 5), (5, 7)], [(0, 7)], [], 8, 0, [(3, 5)]⟩ :=
  ⟨rfl, rfl, ok_of_summaryA exParamPassed_run, exParamPassed_run⟩

/-! ## 4. the identity abstraction -/

/-- `f (λp. p)`: if `p` is not a registered parameter when the argument is reached, the argument's node *is* the
internal node `lam = s1.g.nextB + 1` (the other blank node is reserved and not used): `fnode internal lam` and
`fnode from lam`; the table gets the one entry `(p, lam)`; the edges of `s1` stay; `lam` takes every input `fnode`
had and every other internal node of `fnode` takes `lam`. In a state where `fnode ≠ lam` and `fnode` is not listed
as an internal node of itself or of `lam`, the edges afterwards are exactly those. -/
theorem C08a_lam_identity (G : GLang) (c : GCfg) (root : Node) (origin : Option Node) (s s' : AState)
    (f : AExpr) (p : Nat) (tp t ty : Term) (m : Nat) (im : Bool) (n : Nat)
    (ht : t.isFunction = true)
    (h : addExprA G c root origin s (.app f (.lam [p] (.pvar p tp) t) ty) (some m) im = .ok (s', n)) :
    ∃ (s1 : AState) (fnode : Nat),
      addExprA G c root origin s f (some m) im = .ok (s1, fnode) ∧ n = m ∧
      (s1.params.find? (fun q => q.1 == p) = none →
        s'.params = s1.params ++ [(p, s1.g.nextB + 1)] ∧ s'.g.nextB = s1.g.nextB + 2 ∧
        s'.g.srcNodes = s1.g.srcNodes ∧
        s'.g.internals = s1.g.internals ++ [(fnode, s1.g.nextB + 1)] ∧
        (fnode, s1.g.nextB + 1) ∈ s'.g.fd.frm ∧
        (∀ q ∈ s1.g.fd.frm, q ∈ s'.g.fd.frm) ∧
        (∀ fin, (fnode, fin) ∈ s1.g.fd.frm → (s1.g.nextB + 1, fin) ∈ s'.g.fd.frm) ∧
        (∀ j, (fnode, j) ∈ s1.g.internals → j ≠ s1.g.nextB + 1 → (j, s1.g.nextB + 1) ∈ s'.g.fd.frm) ∧
        (fnode ≠ s1.g.nextB + 1 → (fnode, fnode) ∉ s1.g.internals → (s1.g.nextB + 1, fnode) ∉ s1.g.internals →
          ∀ q, q ∈ s'.g.fd.frm ↔
            q ∈ s1.g.fd.frm ∨ q = (fnode, s1.g.nextB + 1) ∨
            (∃ μ, (s1.g.nextB + 1, μ) ∈ s1.g.internals ∧ q = (μ, s1.g.nextB + 1)) ∨
            (∃ j, (fnode, j) ∈ s1.g.internals ∧ j ≠ s1.g.nextB + 1 ∧ q = (j, s1.g.nextB + 1)) ∨
            (∃ fin, (fnode, fin) ∈ s1.g.fd.frm ∧ q = (s1.g.nextB + 1, fin)))) :=
  addExprA_lam_identity ht h

/-- `h (λx. x)` with the reserved node 0: one edge `0 → 2`, one internal pair `(0, 2)`, `x ↦ 2`; also from the top. -/
example : tAA.isFunction = true ∧
    (∃ s' n, addExprA exG exCfg (.res "w") none sA1 exLamId (some 0) false = .ok (s', n)) ∧
    sA1.params.find? (fun q => q.1 == 7) = none ∧
    summaryA (addExprA exG exCfg (.res "w") none sA1 exLamId (some 0) false) =
      some ⟨[(0, 2)], [(0, 2)], [], 3, 0, [(7, 2)]⟩ ∧
    summaryA (addExprA exG exCfg (.res "w") none sA0 exLamId none false) =
      some ⟨[(0, 2)], [(0, 2)], [], 3, 0, [(7, 2)]⟩ :=
  ⟨rfl, ok_of_summaryA exLamId_step_run, rfl, exLamId_step_run, exLamId_run⟩

/-! ## a model oddity -/

/-- Why "not a registered parameter": the table is searched from the front and new parameters are put at its
end. When two abstractions use the same parameter number (`k (λx. x) (λx. x)`, both 7), the `x` of the second one is
the internal node of the first (2, not 4): the step takes node 2 twice and node 2 gets an edge to itself. With
distinct numbers the second argument is its own internal node 4. (In the implementation a parameter is a
`Variable` object and `expr_nodes[p] = internal` overwrites; the model is faithful as long as parameter numbers
are not reused, which is what the hypothesis of `C08a_lam_wiring`/`C08a_lam_identity` asks for.) -/
theorem C08a_reused_parameter_number :
    summaryA (addExprA exG exCfg (.res "w") none sA0 exLamTwice none false) =
      some ⟨[(4, 2), (2, 2), (0, 2), (0, 2)], [(0, 2), (0, 4)], [], 5, 0, [(7, 2), (7, 4)]⟩ ∧
    summaryA (addExprA exG exCfg (.res "w") none sA0 exLamTwo none false) =
      some ⟨[(4, 2), (2, 4), (0, 4), (0, 2)], [(0, 2), (0, 4)], [], 5, 0, [(7, 2), (8, 4)]⟩ :=
  exLamTwice_run

end Tfv.C08
