import Tfv.Proofs.QueryUnfoldAssign
/-!
# The query generated with `unfold_tree` is accepted iff the unfolded task matches
-/
namespace Tfv

variable {g : List Triple} {wf : Node} {env : QEnv}

/-! ## chronology -/

theorem AssignOkU.mem_afters {t : QTask} {a : QAssign} (h : AssignOkU t a) {p : List Nat} {v : QVar} :
    v ∈ aftersOf a p ↔ ∃ c b, PathTo t v c ∧ b ∈ (t.step c).from_ ∧ p = v ++ [b] := by
  rw [mem_aftersOf, h.links]
  constructor
  · rintro ⟨p', c, b, hc, hb, heq⟩
    simp only [Prod.mk.injEq] at heq
    obtain ⟨rfl, rfl⟩ := heq
    exact ⟨c, b, hc, hb, rfl⟩
  · rintro ⟨c, b, hc, hb, rfl⟩
    exact ⟨v, c, b, hc, hb, rfl⟩

theorem depClauses_meaningU {t : QTask} {a : QAssign} (h : AssignOkU t a) (p : List Nat) (k : Nat) :
    SatAll g wf env (depClauses t a (p, k)) ↔
      ∀ v c b, PathTo t v c → b ∈ (t.step c).from_ → p = v ++ [b] →
        SatTriple g wf env ⟨.var v, linkPath t c k, .var p⟩ := by
  unfold depClauses SatAll
  simp only [List.mem_map, List.mem_eraseDups]
  constructor
  · intro hs v c b hc hb hp
    have := hs _ ⟨v, h.mem_afters.2 ⟨c, b, hc, hb, hp⟩, rfl⟩
    simp only [SatClause] at this
    rw [h.stepOf hc] at this
    exact this
  · rintro hs cl ⟨v, hv, rfl⟩
    obtain ⟨c, b, hc, hb, hp⟩ := h.mem_afters.1 hv
    simp only [SatClause]
    rw [h.stepOf hc]
    exact hs v c b hc hb hp

theorem chronPiece_casesU {G : GLang} {t : QTask} {a : QAssign} (h : AssignOkU t a) {p : List Nat} {k : Nat}
    {cs : List QClause} (hp : chronPiece G t a (p, k) = .ok cs) :
    ((∀ v c b, PathTo t v c → b ∈ (t.step c).from_ → p ≠ v ++ [b]) ∧ cs = viaClauses p (t.step k).ops) ∨
    ((∃ v c b, PathTo t v c ∧ b ∈ (t.step c).from_ ∧ p = v ++ [b]) ∧
      ∃ sub, subtypeOfClauses G p (t.step k).types = .ok sub ∧
      cs = depClauses t a (p, k) ++ viaClauses p (t.step k).ops ++ sub) := by
  unfold chronPiece at hp
  simp only at hp
  split at hp
  · rename_i he
    left
    simp only [List.isEmpty_iff] at he
    simp only [Except.ok.injEq] at hp
    refine ⟨?_, hp.symm⟩
    intro v c b hc hb hpv
    have : v ∈ aftersOf a p := h.mem_afters.2 ⟨c, b, hc, hb, hpv⟩
    rw [he] at this
    cases this
  · rename_i he
    right
    simp only [List.isEmpty_iff] at he
    split at hp
    · cases hp
    · rename_i sub hsub
      simp only [Except.ok.injEq] at hp
      refine ⟨?_, sub, hsub, hp.symm⟩
      cases hx : aftersOf a p with
      | nil => exact absurd hx he
      | cons v vs =>
        have : v ∈ aftersOf a p := by rw [hx]; simp
        obtain ⟨c, b, hc, hb, hpv⟩ := h.mem_afters.1 this
        exact ⟨v, c, b, hc, hb, hpv⟩

/-! ## the two directions -/

theorem reqs_reachU {t : QTask} {a : QAssign} (ha : AssignOkU t a) :
    ∀ r ∈ a.vars.map (fun p => (t.step p.2).types), ∃ k, StepReach t k ∧ r = (t.step k).types := by
  intro r hr
  simp only [List.mem_map] at hr
  obtain ⟨⟨p, k⟩, hp, rfl⟩ := hr
  exact ⟨k, ((ha.vars p k).1 hp).reach, rfl⟩

theorem matchesUnfoldedBy_of_sat {G : GLang} {t : QTask} {f : QFlags} {a : QAssign} {q : Query}
    (ha : AssignOkU t a) (hq : genFrom G t f a = .ok q)
    (hbag : f.byTypes = true → BagExact G t g wf) {envp envb : QEnv}
    (hpre : SatAll g wf envp q.prefilter) (hbody : SatAll g wf envb q.body) :
    MatchesUnfoldedBy G t f g wf (fun p => (qlookup envb p).getD wf) := by
  obtain ⟨pre2, outs, ins, chron, h1, h2, h3, h4, rfl⟩ := genFrom_ok hq
  simp only at hpre hbody
  rw [satAll_append, satAll_append, satAll_flatten, satAll_flatten] at hbody
  obtain ⟨⟨hso, hsi⟩, hsc⟩ := hbody
  rw [satAll_append] at hpre
  obtain ⟨hp1, hp2⟩ := hpre
  have hout : ∀ p o, PathTo t p o → o ∈ t.outputs →
      ∃ n, qlookup envb p = some n ∧ pathHolds g (outPath f) wf n = true ∧ TypeOk G g n (t.step o).types := by
    intro p o hp ho
    have hm : p ∈ a.outs := (ha.outs _).2 ⟨o, hp, ho⟩
    obtain ⟨cs, hcs, hoc⟩ := forall₂_left (mapM_ok _ _ _ h2) _ hm
    have := (outClause_meaning hoc).1 (hso cs hcs)
    rw [ha.stepOf hp] at this
    exact this
  have hpiece : f.byChronology = true → ∀ p k, PathTo t p k →
      ∃ cs, chronPiece G t a (p, k) = .ok cs ∧ SatAll g wf envb cs := by
    intro hch p k hk
    unfold chronOf at h4
    rw [hch] at h4
    simp only [Bool.not_true, Bool.false_eq_true, if_false] at h4
    obtain ⟨ps, hps, rfl⟩ := foldlM_pieces (chronPiece G t a) _ _ _ h4
    obtain ⟨cs, hcs, hpc⟩ := forall₂_left hps _ ((ha.vars p k).2 hk)
    refine ⟨cs, hpc, ?_⟩
    rw [List.nil_append, satAll_flatten] at hsc
    exact hsc cs hcs
  have hlink : f.byChronology = true → ∀ p c b, PathTo t p c → b ∈ (t.step c).from_ →
      SatTriple g wf envb ⟨.var p, linkPath t c b, .var (p ++ [b])⟩ := by
    intro hch p c b hc hb
    obtain ⟨cs, hpc, hs⟩ := hpiece hch (p ++ [b]) b (.step hc hb)
    rcases chronPiece_casesU ha hpc with ⟨hno, _⟩ | ⟨_, sub, hsub, rfl⟩
    · exact absurd rfl (hno p c b hc hb)
    · rw [satAll_append, satAll_append] at hs
      exact (depClauses_meaningU ha _ b).1 hs.1.1 p c b hc hb rfl
  have hbound : f.byChronology = true → ∀ p k, PathTo t p k → ∃ n, qlookup envb p = some n := by
    intro hch p k hk
    cases hk with
    | out ho =>
      obtain ⟨n, hn, _⟩ := hout _ k (.out ho) ho
      exact ⟨n, hn⟩
    | step hc hb =>
      obtain ⟨x, y, _, hy, _⟩ := satTriple_var_var.1 (hlink hch _ _ _ hc hb)
      exact ⟨y, hy⟩
  refine ⟨?_, ?_, ?_, ?_, ?_, ?_⟩
  · intro p o hp ho
    obtain ⟨n, hn, hpth, ht⟩ := hout p o hp ho
    simp only [hn, Option.getD_some]
    exact ⟨(outPath_meaning f n).1 hpth, ht⟩
  · intro hch p k hk
    obtain ⟨n, hn⟩ := hbound hch p k hk
    simp only [hn, Option.getD_some]
    obtain ⟨cs, hpc, hs⟩ := hpiece hch p k hk
    rcases chronPiece_casesU ha hpc with ⟨hno, rfl⟩ | ⟨_, sub, hsub, rfl⟩
    · refine ⟨(via_meaning hn).1 hs, ?_⟩
      have ho : k ∈ t.outputs := by
        cases hk with
        | out ho => exact ho
        | step hc hb => exact absurd rfl (hno _ _ _ hc hb)
      obtain ⟨n', hn', _, ht⟩ := hout p k hk ho
      rw [hn] at hn'
      simp only [Option.some.injEq] at hn'
      subst hn'
      exact ht
    · rw [satAll_append, satAll_append] at hs
      exact ⟨(via_meaning hn).1 hs.1.2, (subtypeOf_meaning hsub hn).1 hs.2⟩
  · intro hch p c b hc hb
    obtain ⟨x, y, hx, hy, hpth⟩ := satTriple_var_var.1 (hlink hch p c b hc hb)
    simp only [hx, hy, Option.getD_some]
    unfold linkPath at hpth
    split at hpth
    · rename_i hr
      rcases (pathHolds_opt g _ x y).1 hpth with rfl | he
      · exact Or.inr ⟨hr, rfl⟩
      · exact Or.inl he
    · exact Or.inl ((pathHolds_pred g _ x y).1 hpth)
  · intro hio p i hp hi
    rw [if_pos hio] at h3
    have hm : p ∈ a.ins := (ha.ins _).2 ⟨i, hp, hi⟩
    obtain ⟨cs, hcs, hic⟩ := forall₂_left (mapM_ok _ _ _ h3) _ hm
    obtain ⟨n, hn, hpth, ht⟩ := (inClause_meaning hic).1 (hsi cs hcs)
    rw [ha.stepOf hp] at ht
    simp only [hn, Option.getD_some]
    exact ⟨(inPath_meaning f n).1 hpth, ht⟩
  · intro hop k o hk hops
    rw [if_pos hop] at hp1
    obtain ⟨p, hp⟩ := reach_pathTo hk
    exact (operatorsClauses_meaning t a).1 hp1 (p, k) ((ha.vars p k).2 hp) o hops
  · intro hty k hk hne
    rw [if_pos hty] at h1
    have := (typesClauses_meaning h1).1 hp2
    rw [hbag hty _ (reqs_reachU ha)] at this
    obtain ⟨p, hp⟩ := reach_pathTo hk
    exact this _ (List.mem_map.2 ⟨(p, k), (ha.vars p k).2 hp, rfl⟩) hne

/-- the environment that an assignment of paths to nodes induces -/
def envOfU (a : QAssign) (h : List Nat → Node) : QEnv := a.vars.map (fun p => (p.1, h p.1))

theorem lookup_envOfU {t : QTask} {a : QAssign} (ha : AssignOkU t a) (h : List Nat → Node) {p : List Nat} {k : Nat}
    (hk : PathTo t p k) : qlookup (envOfU a h) p = some (h p) := by
  unfold qlookup envOfU
  rw [List.find?_map]
  cases hx : a.vars.find? ((fun x => x.1 == p) ∘ (fun x => (x.1, h x.1))) with
  | none =>
    have := List.find?_eq_none.1 hx _ ((ha.vars p k).2 hk)
    simp at this
  | some x =>
    have hp := List.find?_some hx
    simp only [Function.comp, beq_iff_eq] at hp
    simp [hp]

theorem path_in_graph {G : GLang} {t : QTask} {f : QFlags} {h : List Nat → Node}
    (hm : MatchesUnfoldedBy G t f g wf h) (hch : f.byChronology = true) :
    ∀ p k, PathTo t p k → h p ∈ graphNodes g := by
  intro p k hk
  induction hk with
  | out ho =>
    rcases (hm.output _ _ (.out ho) ho).1 with h1 | ⟨_, m, _, h2⟩
    · exact obj_mem_graphNodes h1
    · exact obj_mem_graphNodes h2
  | step hc hb ih =>
    rcases hm.link hch _ _ _ hc hb with h1 | ⟨_, h2⟩
    · exact obj_mem_graphNodes h1
    · rw [← h2]
      exact ih

theorem sat_of_matchesUnfoldedBy {G : GLang} {t : QTask} {f : QFlags} {a : QAssign} {q : Query}
    (ha : AssignOkU t a) (hq : genFrom G t f a = .ok q)
    (hbag : f.byTypes = true → BagExact G t g wf) {h : List Nat → Node} (hm : MatchesUnfoldedBy G t f g wf h) :
    SatisfiableIn (graphNodes g) g wf q.prefilter ∧ SatisfiableIn (graphNodes g) g wf q.body := by
  have hshape := genFrom_shape hq
  obtain ⟨pre2, outs, ins, chron, h1, h2, h3, h4, rfl⟩ := genFrom_ok hq
  simp only at hshape ⊢
  constructor
  · refine ⟨[], ?_, ?_⟩
    · rw [satAll_append]
      constructor
      · split
        · rename_i hop
          apply (operatorsClauses_meaning t a).2
          rintro ⟨p, k⟩ hp o ho
          exact hm.preOps hop k o ((ha.vars p k).1 hp).reach ho
        · exact satAll_nil
      · split at h1
        · rename_i hty
          apply (typesClauses_meaning h1).2
          rw [hbag hty _ (reqs_reachU ha)]
          intro r hr hne
          simp only [List.mem_map] at hr
          obtain ⟨⟨p, k⟩, hp, rfl⟩ := hr
          exact hm.preTypes hty k ((ha.vars p k).1 hp).reach hne
        · simp only [Except.ok.injEq] at h1
          subst h1
          exact satAll_nil
    · intro c _ tr _ n v x _ _ hx
      simp [termVal] at hx
  · refine ⟨envOfU a h, ?_, ?_⟩
    · rw [satAll_append, satAll_append, satAll_flatten, satAll_flatten]
      refine ⟨⟨?_, ?_⟩, ?_⟩
      · intro cs hcs
        obtain ⟨v, hv, hoc⟩ := forall₂_right (mapM_ok _ _ _ h2) cs hcs
        obtain ⟨o, hp, ho⟩ := (ha.outs v).1 hv
        apply (outClause_meaning hoc).2
        rw [ha.stepOf hp]
        obtain ⟨hpth, ht⟩ := hm.output v o hp ho
        exact ⟨h v, lookup_envOfU ha h hp, (outPath_meaning f _).2 hpth, ht⟩
      · intro cs hcs
        split at h3
        · rename_i hio
          obtain ⟨v, hv, hic⟩ := forall₂_right (mapM_ok _ _ _ h3) cs hcs
          obtain ⟨i, hp, hi⟩ := (ha.ins v).1 hv
          apply (inClause_meaning hic).2
          rw [ha.stepOf hp]
          obtain ⟨hpth, ht⟩ := hm.input hio v i hp hi
          exact ⟨h v, lookup_envOfU ha h hp, (inPath_meaning f _).2 hpth, ht⟩
        · simp only [Except.ok.injEq] at h3
          subst h3
          cases hcs
      · unfold chronOf at h4
        split at h4
        · simp only [Except.ok.injEq] at h4
          subst h4
          exact satAll_nil
        · rename_i hch
          simp only [Bool.not_eq_true', Bool.not_eq_false] at hch
          obtain ⟨ps, hps, rfl⟩ := foldlM_pieces (chronPiece G t a) _ _ _ h4
          rw [List.nil_append, satAll_flatten]
          intro cs hcs
          obtain ⟨⟨p, k⟩, hp, hpc⟩ := forall₂_right hps cs hcs
          have hk := (ha.vars p k).1 hp
          have hn := lookup_envOfU ha h hk
          obtain ⟨hops, htys⟩ := hm.step hch p k hk
          have hdeps : SatAll g wf (envOfU a h) (depClauses t a (p, k)) := by
            apply (depClauses_meaningU ha p k).2
            intro v c b hc hb hpv
            subst hpv
            have hkb : k = b := by
              have := hk.getLast
              simpa using this.symm
            subst hkb
            apply satTriple_var_var.2
            refine ⟨h v, h (v ++ [k]), lookup_envOfU ha h hc, hn, ?_⟩
            unfold linkPath
            rcases hm.link hch v c k hc hb with he | ⟨hr, he⟩
            · split
              · exact (pathHolds_opt g _ _ _).2 (Or.inr he)
              · exact (pathHolds_pred g _ _ _).2 he
            · rw [if_pos hr]
              exact (pathHolds_opt g _ _ _).2 (Or.inl he)
          rcases chronPiece_casesU ha hpc with ⟨_, rfl⟩ | ⟨_, sub, hsub, rfl⟩
          · exact (via_meaning hn).2 hops
          · rw [satAll_append, satAll_append]
            exact ⟨⟨hdeps, (via_meaning hn).2 hops⟩, (subtypeOf_meaning hsub hn).2 htys⟩
    · intro c hc tr htr n v x hp hv hx
      have hgt := hshape c (List.mem_append_right _ hc) tr htr
      cases hgt with
      | dependsOpt l hch hl =>
        obtain ⟨p', c', b, hc', _, rfl⟩ := (ha.links l).1 hl
        simp only [QTerm.var.injEq] at hv
        subst hv
        rw [termVal_var, lookup_envOfU ha h hc'] at hx
        simp only [Option.some.injEq] at hx
        subst hx
        exact path_in_graph hm hch _ _ hc'
      | _ => simp at hp

theorem query_iffU {G : GLang} {t : QTask} {f : QFlags} {q : Query}
    (hf : f.unfoldTree = true) (hq : genQuery G t f = .ok q)
    (g : List Triple) (wf : Node) (hbag : f.byTypes = true → BagExact G t g wf) :
    evalQuery q g wf = true ↔ MatchesUnfolded G t f g wf := by
  obtain ⟨a, ha, hg⟩ := genQuery_ok hq
  have hok := assignAll_okU t f hf a ha
  constructor
  · intro he
    obtain ⟨⟨envp, hp⟩, ⟨envb, hb⟩⟩ := eval_sound he
    exact ⟨_, matchesUnfoldedBy_of_sat hok hg hbag hp hb⟩
  · rintro ⟨h, hm⟩
    obtain ⟨h1, h2⟩ := sat_of_matchesUnfoldedBy hok hg hbag hm
    exact eval_complete h1 h2

/-- a query generated with `unfold_tree` is accepted iff its pre-filter and its body are satisfiable (by any assignment) -/
theorem generated_eval_iffU {G : GLang} {t : QTask} {f : QFlags} {q : Query}
    (hf : f.unfoldTree = true) (hq : genQuery G t f = .ok q) (g : List Triple) (wf : Node) :
    evalQuery q g wf = true ↔ Satisfiable g wf q.prefilter ∧ Satisfiable g wf q.body := by
  obtain ⟨a, ha, hg⟩ := genQuery_ok hq
  have hok := assignAll_okU t f hf a ha
  refine ⟨eval_sound, ?_⟩
  rintro ⟨⟨envp, hsp⟩, ⟨envb, hsb⟩⟩
  apply eval_complete
  · refine ⟨envp, hsp, ?_⟩
    intro c hc tr htr n v x hp
    exact absurd hp (genFrom_prefilter_noopt hg c hc tr htr n)
  · have hg' := genFrom_body_flags hg
    have hm := matchesUnfoldedBy_of_sat (envp := []) hok hg' (fun h => by cases h) satAll_nil hsb
    exact (sat_of_matchesUnfoldedBy hok hg' (fun h => by cases h) hm).2

end Tfv
