import Tfv.Proofs.SchedAgree
import Tfv.Proofs.SchedId
import Tfv.Proofs.SchedOrd
import Tfv.Spec.Sat
/-!
# C18 — the fragments where the re-check order is unobservable

Instances of `blockAgree` (with `sched_id` for the second schedule):
* no pending constraints at all (`NoConstraints`);
* at most one pending constraint, always the same one;
* strictly ascending constraint sets and a schedule that leaves such lists alone
  (`priorityOrd []`: the scheduled engine without priorities IS the model);
and fulfilled elimination constraints, which are skipped whatever the order.
-/
namespace Tfv.C18P

/-! ## from `blockAgree` to equalities with the unscheduled model -/

section toModel
variable {Q : List Nat → Prop} {L : Lang} {ord : List Nat → List Nat}
  (hQ : CsClosed Q) (hord : ∀ cs, Q cs → ord cs = cs)
include hQ hord

theorem unifyS_eq_of_inv (n : Nat) {σ : Store} (hinv : CsInv Q σ) (a b : Term) (st sb sw : Bool) :
    unifyS L ord n σ a b st sb sw = unify L n σ a b st sb sw ∧
      ∀ σ', unify L n σ a b st sb sw = .ok σ' → CsInv Q σ' := by
  have h := (blockAgree (L := L) (ord₂ := fun cs => cs) hQ hord n).unify σ a b st sb sw hinv
  have e := (blockEq (L := L) (ord := fun cs => cs) (fun _ => rfl) n).unify σ a b st sb sw
  exact ⟨h.1.trans e, fun σ' hr => h.2 σ' (h.1.trans (e.trans hr))⟩

theorem bindS_eq_of_inv (n : Nat) {σ : Store} (hinv : CsInv Q σ) (v : Nat) (t : Term) :
    bindS L ord n σ v t = bind L n σ v t ∧ ∀ σ', bind L n σ v t = .ok σ' → CsInv Q σ' := by
  have h := (blockAgree (L := L) (ord₂ := fun cs => cs) hQ hord n).bind σ v t hinv
  have e := (blockEq (L := L) (ord := fun cs => cs) (fun _ => rfl) n).bind σ v t
  exact ⟨h.1.trans e, fun σ' hr => h.2 σ' (h.1.trans (e.trans hr))⟩

theorem checkConstraintsS_eq_of_inv (n : Nat) {σ : Store} (hinv : CsInv Q σ) (v : Nat) :
    checkConstraintsS L ord n σ v = checkConstraints L n σ v ∧
      ∀ σ', checkConstraints L n σ v = .ok σ' → CsInv Q σ' := by
  have h := (blockAgree (L := L) (ord₂ := fun cs => cs) hQ hord n).checkConstraints σ v hinv
  have e := (blockEq (L := L) (ord := fun cs => cs) (fun _ => rfl) n).checkConstraints σ v
  exact ⟨h.1.trans e, fun σ' hr => h.2 σ' (h.1.trans (e.trans hr))⟩

theorem fixS_eq_of_inv (n : Nat) {σ : Store} (hinv : CsInv Q σ) (t : Term) (pl : Bool) :
    fixS L ord n σ t pl = fix L n σ t pl ∧ ∀ σ' t', fix L n σ t pl = .ok (σ', t') → CsInv Q σ' := by
  have h := (blockAgree (L := L) (ord₂ := fun cs => cs) hQ hord n).fix σ t pl hinv
  have e := (blockEq (L := L) (ord := fun cs => cs) (fun _ => rfl) n).fix σ t pl
  exact ⟨h.1.trans e, fun σ' t' hr => h.2 σ' t' (h.1.trans (e.trans hr))⟩

theorem applyTS_eq_of_inv (fuel : Nat) {σ : Store} (hinv : CsInv Q σ) (f x : Term) (fixFlag : Bool) :
    applyTS L ord fuel σ f x fixFlag = applyT L fuel σ f x fixFlag ∧
      ∀ σ' t', applyT L fuel σ f x fixFlag = .ok (σ', t') → CsInv Q σ' := by
  have h := applyTS_agree (L := L) (ord₂ := fun cs => cs) hQ hord fuel σ f x fixFlag hinv
  have e := applyTS_id (L := L) (ord := fun cs => cs) (fun _ => rfl) fuel σ f x fixFlag
  exact ⟨h.1.trans e, fun σ' t' hr => h.2 σ' t' (h.1.trans (e.trans hr))⟩

theorem instantiateS_eq_of_inv (hI : CsInsert Q) (fuel : Nat) {σ : Store} (hinv : CsInv Q σ) (s : Schema) :
    instantiateS L ord fuel σ s = instantiate L fuel σ s ∧
      ∀ σ' t', instantiate L fuel σ s = .ok (σ', t') → CsInv Q σ' := by
  have h := instantiateS_agree (L := L) (ord₂ := fun cs => cs) hQ hI hord fuel σ s hinv
  have e := instantiateS_id (L := L) (ord := fun cs => cs) (fun _ => rfl) fuel σ s
  exact ⟨h.1.trans e, fun σ' t' hr => h.2 σ' t' (h.1.trans (e.trans hr))⟩

end toModel

/-! ## (a) no pending constraints -/

theorem closed_nil : CsClosed (fun cs => cs = []) where
  nil := rfl
  union := by intro a b ha hb; subst ha; subst hb; rfl
  filter := by intro a c ha; subst ha; rfl

theorem csInv_nil_iff (σ : Store) : CsInv (fun cs => cs = []) σ ↔ NoConstraints σ := Iff.rfl

/-! ## (b) one pending constraint -/

/-- the constraint set is empty or holds exactly the constraint `c0` -/
def AtMost (c0 : Nat) (cs : List Nat) : Prop := cs = [] ∨ cs = [c0]

theorem closed_atMost (c0 : Nat) : CsClosed (AtMost c0) where
  nil := Or.inl rfl
  union := by
    intro a b ha hb
    rcases ha with rfl | rfl <;> rcases hb with rfl | rfl
    · exact Or.inl rfl
    · exact Or.inr rfl
    · exact Or.inr rfl
    · right
      simp [unionSorted, insertSorted]
  filter := by
    intro a c ha
    rcases ha with rfl | rfl
    · exact Or.inl rfl
    · by_cases h : c0 = c
      · left; simp [h]
      · right; simp [h]

theorem atMost_length {c0 : Nat} {cs : List Nat} (h : AtMost c0 cs) : cs.length ≤ 1 := by
  rcases h with rfl | rfl <;> simp

/-- the static sufficient condition: one registered constraint, constraint sets without duplicates
that only mention registered constraints -/
theorem atMost_of_static {σ : Store} (h1 : σ.constrs.length ≤ 1)
    (hmem : ∀ k c, c ∈ getCset σ k → c < σ.constrs.length) (hnd : ∀ k, (getCset σ k).Nodup) :
    CsInv (AtMost 0) σ := by
  intro k
  have hz : ∀ c, c ∈ getCset σ k → c = 0 := fun c hc => by have := hmem k c hc; omega
  have nd := hnd k
  match hl : getCset σ k with
  | [] => exact Or.inl rfl
  | [a] =>
    right
    rw [hz a (by rw [hl]; exact List.mem_singleton.mpr rfl)]
  | a :: b :: rest =>
    rw [hl] at nd hz
    have ha := hz a (by simp)
    have hb := hz b (by simp)
    subst ha; subst hb
    simp at nd

/-! ## (c) creation order: strictly ascending constraint sets -/

/-- strictly ascending (how `insertSorted`/`unionSorted` keep the sets) -/
def Asc (cs : List Nat) : Prop := cs.Pairwise (· < ·)

theorem mem_insertSorted {c x : Nat} : ∀ {l : List Nat}, x ∈ insertSorted c l → x = c ∨ x ∈ l
  | [], h => by
    unfold insertSorted at h
    exact Or.inl (List.mem_singleton.mp h)
  | y :: ys, h => by
    unfold insertSorted at h
    split at h
    · rcases List.mem_cons.mp h with h | h
      · exact Or.inl h
      · exact Or.inr h
    · split at h
      · exact Or.inr h
      · rcases List.mem_cons.mp h with h | h
        · exact Or.inr (h ▸ List.mem_cons_self)
        · rcases mem_insertSorted h with h | h
          · exact Or.inl h
          · exact Or.inr (List.mem_cons_of_mem _ h)

theorem asc_insertSorted (c : Nat) : ∀ {l : List Nat}, Asc l → Asc (insertSorted c l)
  | [], _ => by unfold insertSorted; exact List.pairwise_singleton _ _
  | y :: ys, h => by
    have hy := List.pairwise_cons.mp h
    unfold insertSorted
    split
    · next hlt =>
      refine List.pairwise_cons.mpr ⟨?_, h⟩
      intro b hb
      rcases List.mem_cons.mp hb with rfl | hb
      · exact hlt
      · exact Nat.lt_trans hlt (hy.1 b hb)
    · next hnlt =>
      split
      · exact h
      · next hne =>
        refine List.pairwise_cons.mpr ⟨?_, asc_insertSorted c hy.2⟩
        intro b hb
        rcases mem_insertSorted hb with rfl | hb
        · have : ¬ b = y := by simpa using hne
          omega
        · exact hy.1 b hb

theorem asc_unionSorted {a : List Nat} (b : List Nat) (ha : Asc a) : Asc (unionSorted a b) := by
  unfold unionSorted
  induction b generalizing a with
  | nil => exact ha
  | cons x xs ih => exact ih (asc_insertSorted x ha)

theorem closed_asc : CsClosed Asc where
  nil := List.Pairwise.nil
  union := fun _ b ha _ => asc_unionSorted b ha
  filter := fun _ _ ha => List.Pairwise.filter _ ha

theorem insert_asc : CsInsert Asc := fun _ c ha => asc_insertSorted c ha

theorem priorityOrd_nil_asc (cs : List Nat) (h : Asc cs) : priorityOrd [] cs = cs :=
  priorityOrd_nil_of_strict h

/-! ## (d) fulfilled elimination constraints are skipped -/

theorem fulfillS_fulfilled (L : Lang) (ord : List Nat → List Nat) (n : Nat) {σ : Store} {c : Nat}
    {r : Term} {alts : List Term} (h : getConstr σ c = .elim r alts true) :
    fulfillS L ord (n+1) σ c = .ok (σ, true) := by
  simp only [fulfillS, h]

/-- removing the constraint `c` from the constraint set of `v` (what `check_constraints` does with a
constraint that reports itself fulfilled) -/
def dropFrom (σ : Store) (v c : Nat) : Store :=
  setCset σ (getVar σ v).cset ((getCset σ (getVar σ v).cset).filter (· != c))

theorem checkListS_fulfilled (L : Lang) (ord : List Nat → List Nat) (n : Nat) {σ : Store} (v : Nat) {c : Nat}
    (cs : List Nat) {r : Term} {alts : List Term} (h : getConstr σ c = .elim r alts true) :
    checkListS L ord (n+2) σ v (c :: cs) = checkListS L ord (n+1) (dropFrom σ v c) v cs := by
  simp only [checkListS, fulfillS_fulfilled L ord n h]
  rfl

theorem getConstr_dropFrom (σ : Store) (v c d : Nat) : getConstr (dropFrom σ v c) d = getConstr σ d := rfl

theorem dropFrom_comm (σ : Store) (v c d : Nat) :
    dropFrom (dropFrom σ v c) v d = dropFrom (dropFrom σ v d) v c := by
  unfold dropFrom
  have gv : ∀ (k : Nat) (l : List Nat), getVar (setCset σ k l) v = getVar σ v := fun _ _ => rfl
  rw [gv, gv]
  generalize (getVar σ v).cset = k
  rw [getCset_setCset, getCset_setCset]
  unfold setCset
  by_cases hk : k < σ.csets.length
  · simp only [hk, and_self, if_true, List.set_set, List.filter_filter]
    congr 2
    apply List.filter_congr
    intro x _
    exact Bool.and_comm _ _
  · simp only [hk, and_false, if_false]
    have e : ∀ l : List Nat, σ.csets.set k l = σ.csets := fun l => List.set_eq_of_length_le (by omega)
    simp only [e]

/-- two fulfilled elimination constraints next to each other in the schedule can be swapped -/
theorem checkListS_fulfilled_swap (L : Lang) (ord : List Nat → List Nat) (n : Nat) {σ : Store} (v : Nat)
    {c d : Nat} (cs : List Nat) {rc rd : Term} {ac ad : List Term}
    (hc : getConstr σ c = .elim rc ac true) (hd : getConstr σ d = .elim rd ad true) :
    checkListS L ord (n+3) σ v (c :: d :: cs) = checkListS L ord (n+3) σ v (d :: c :: cs) := by
  rw [checkListS_fulfilled L ord (n+1) v _ hc, checkListS_fulfilled L ord (n+1) v _ hd,
    checkListS_fulfilled L ord n v cs (σ := dropFrom σ v c) (by rw [getConstr_dropFrom]; exact hd),
    checkListS_fulfilled L ord n v cs (σ := dropFrom σ v d) (by rw [getConstr_dropFrom]; exact hc),
    dropFrom_comm]

end Tfv.C18P
