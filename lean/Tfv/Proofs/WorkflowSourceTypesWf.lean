import Tfv.Proofs.WorkflowSourceTypesExpr
import Tfv.Proofs.WorkflowRun
/-!
# `wfExpr` (the expression of a workflow resource) reads only its region of the store

Two memo states with the same tables whose stores have the same sizes and agree on a closed region give
the same error, or the same expression and memo states that are related again.
-/
namespace Tfv.C12P
open Tfv Tfv.C03P Tfv.C16P Tfv.C03C Tfv.C16C Tfv.C04P Tfv.C04C Tfv.ParseSim

/-- the same tables; builder states that agree -/
structure WAgree (R : Region) (s s' : WState) : Prop where
  xs : XAgree R s.xs s'.xs
  exprs : s'.exprs = s.exprs
  indirection : s'.indirection = s.indirection
  srcTypes : s'.srcTypes = s.srcTypes

/-- every expression of the memo table, and every type a source object carries, is over the region -/
structure WIn (R : Region) (s : WState) : Prop where
  exprs : ∀ p, p ∈ s.exprs → ExprIn s.xs.store R.S p.2
  srcTypes : ∀ q, q ∈ s.srcTypes → TermInR s.xs.store R.S q.2

/-! ## the bookkeeping of `fix()` -/

theorem srcTypesOf_in {σ : Store} {S : Nat → Prop} : ∀ (e : TExpr) (acc : List (Nat × Term)), ExprIn σ S e →
    (∀ q, q ∈ acc → TermInR σ S q.2) → ∀ q, q ∈ srcTypesOf e acc → TermInR σ S q.2
  | .src i l t, acc, he, ha, q, hq => by
    rw [srcTypesOf] at hq
    rcases List.mem_append.mp hq with h | h
    · exact ha q (List.mem_filter.mp h).1
    · rw [List.mem_singleton] at h; subst h; exact he
  | .op _ _, acc, _, ha, q, hq => by rw [srcTypesOf] at hq; exact ha q hq
  | .app f x _, acc, he, ha, q, hq => by
    rw [srcTypesOf] at hq
    exact srcTypesOf_in x _ he.2.1 (srcTypesOf_in f acc he.1 ha) q hq
  | .shared _ e, acc, he, ha, q, hq => by
    rw [srcTypesOf] at hq
    exact srcTypesOf_in e acc he ha q hq

theorem sharedOf_in {σ : Store} {S : Nat → Prop} : ∀ (e : TExpr) (acc : List (Nat × TExpr)), ExprIn σ S e →
    (∀ q, q ∈ acc → ExprIn σ S q.2) → ∀ q, q ∈ sharedOf e acc → ExprIn σ S q.2
  | .src _ _ _, acc, _, ha, q, hq => by rw [sharedOf] at hq; exact ha q hq
  | .op _ _, acc, _, ha, q, hq => by rw [sharedOf] at hq; exact ha q hq
  | .app f x _, acc, he, ha, q, hq => by
    rw [sharedOf] at hq
    exact sharedOf_in x _ he.2.1 (sharedOf_in f acc he.1 ha) q hq
  | .shared k e, acc, he, ha, q, hq => by
    rw [sharedOf] at hq
    rcases List.mem_append.mp hq with h | h
    · exact sharedOf_in e acc he ha q (List.mem_filter.mp h).1
    · rw [List.mem_singleton] at h; subst h; exact he

theorem setSrcTypes_in {σ : Store} {S : Nat → Prop} {tbl : List (Nat × Term)} (ht : ∀ q, q ∈ tbl → TermInR σ S q.2) :
    ∀ (e : TExpr), ExprIn σ S e → ExprIn σ S (setSrcTypes tbl e)
  | .src i l t, he => by
    rw [setSrcTypes]
    show TermInR σ S _
    cases hf : tbl.find? (fun p => p.1 == i) with
    | none => exact he
    | some q => exact ht q (List.mem_of_find?_eq_some hf)
  | .op _ _, he => by rw [setSrcTypes]; exact he
  | .app f x _, he => by
    rw [setSrcTypes]
    exact ⟨setSrcTypes_in ht f he.1, setSrcTypes_in ht x he.2.1, he.2.2⟩
  | .shared _ e, he => by
    rw [setSrcTypes]
    exact setSrcTypes_in ht e he

/-- the same error, or related results -/
def RelXW {ρ : Type} (Q : ρ → ρ → Prop) : Except WErr ρ → Except WErr ρ → Prop
  | .error e, r' => r' = .error e
  | .ok x, r' => ∃ x', r' = .ok x' ∧ Q x x'

theorem foldlM_rel {α β : Type} {f f' : β → α → Except WErr β} {Q : β → β → Prop} :
    ∀ (l : List α) (b b' : β), (∀ x, x ∈ l → ∀ c c', Q c c' → RelXW Q (f c x) (f' c' x)) → Q b b' →
      RelXW Q (l.foldlM f b) (l.foldlM f' b')
  | [], b, b', _, hq => ⟨b', rfl, hq⟩
  | x :: l, b, b', h, hq => by
    rw [List.foldlM_cons, List.foldlM_cons]
    have h1 := h x List.mem_cons_self b b' hq
    cases hx : f b x with
    | error e =>
      rw [hx] at h1
      rw [h1]
      rfl
    | ok c =>
      rw [hx] at h1
      obtain ⟨c', e1, hc⟩ := h1
      rw [e1]
      exact foldlM_rel l c c' (fun y hy => h y (List.mem_cons_of_mem _ hy)) hc

/-- the state of a fold that collects expressions -/
structure AccRel (R : Region) (m : Nat) (b b' : WState × List TExpr) : Prop where
  ws : WAgree R b.1 b'.1
  out : b'.2 = b.2
  win : WIn R b.1
  oin : ∀ e, e ∈ b.2 → ExprIn b.1.xs.store R.S e
  len : m ≤ b.1.xs.store.vars.length

/-- related outcomes of `wfExpr` started in `s` -/
def RelW (R : Region) (s : WState) : Except WErr (WState × TExpr) → Except WErr (WState × TExpr) → Prop
  | .error e, r' => r' = .error e
  | .ok (s1, e), r' => ∃ s1', r' = .ok (s1', e) ∧ WAgree R s1 s1' ∧ WIn R s1 ∧ ExprIn s1.xs.store R.S e ∧
      s.xs.store.vars.length ≤ s1.xs.store.vars.length


/-! ## the stand-in sources (no passthrough) -/

theorem wfStandInStep_agree {P : PLang} {w : Wf} {R : Region} {m : Nat} {b b' : WState × List TExpr}
    (h : AccRel R m b b') {p : Nat × TExpr} (hp : ExprIn b.1.xs.store R.S p.2) :
    RelXW (AccRel R m) (wfStandInStep P w b p) (wfStandInStep P w b' p) := by
  obtain ⟨hws, hout, hwin, hoin, hlen⟩ := h
  unfold wfStandInStep
  split
  · refine ⟨_, rfl, hws, by simp only [hout], hwin, ?_, hlen⟩
    intro e he
    rcases List.mem_append.mp he with h1 | h1
    · exact hoin e h1
    · rw [List.mem_singleton] at h1; subst h1; exact hp
  · obtain ⟨a1, st1, e1, hsrc⟩ := mkSourceT_sim hws.xs
    simp only []
    have hp1 : ExprIn (mkSourceT b.1.xs).1.store R.S p.2 := exprIn_mono st1 hp
    rcases RelP.cases (fixExpr_agree (L := P.types) p.2 a1.store hp1) with
      ⟨e, h1, h2⟩ | ⟨τ1, τ1', e2, h1, h2, a2⟩
    · rw [h1, h2]; rfl
    · rw [h1, h2]
      obtain ⟨f2, he2⟩ := fixExpr_frC p.2 a1.store.closed hp1 h1
      have hl2 : b.1.xs.store.vars.length ≤ τ1.vars.length := Nat.le_trans st1 f2.len
      refine ⟨_, rfl, ⟨⟨a1.nsrc, a2⟩, by simp only [hws.exprs], by simp only [hws.indirection, e1],
        by simp only [hws.srcTypes]⟩, by simp only [hout, e1], ⟨?_, ?_⟩, ?_, Nat.le_trans hlen hl2⟩
      · intro q hq
        obtain ⟨q0, hq0, e⟩ := List.mem_map.mp hq
        subst e
        show ExprIn τ1 R.S (if (q0.1 == p.1) = true then (q0.1, e2) else q0).2
        by_cases hq1 : (q0.1 == p.1) = true
        · rw [if_pos hq1]; exact he2
        · rw [if_neg hq1]; exact exprIn_mono hl2 (hwin.exprs q0 hq0)
      · exact srcTypesOf_in e2 _ he2 (fun q hq => termInR_mono hl2 (hwin.srcTypes q hq))
      · intro e he
        rcases List.mem_append.mp he with h3 | h3
        · exact exprIn_mono hl2 (hoin e h3)
        · rw [List.mem_singleton] at h3; subst h3; exact exprIn_mono f2.len hsrc

theorem wfStandIns_agree {P : PLang} {w : Wf} (pt : Bool) (a : WfApp) {R : Region} {s1 s1' : WState}
    {ies : List TExpr} (hws : WAgree R s1 s1') (hwin : WIn R s1) (hin : ∀ e, e ∈ ies → ExprIn s1.xs.store R.S e) :
    RelXW (AccRel R s1.xs.store.vars.length) (wfStandIns P w pt a s1 ies) (wfStandIns P w pt a s1' ies) := by
  unfold wfStandIns
  split
  · exact ⟨_, rfl, hws, rfl, hwin, hin, Nat.le_refl _⟩
  · refine foldlM_rel _ _ _ (fun p hp c c' hc => ?_) ⟨hws, rfl, hwin, (fun _ h => nomatch h), Nat.le_refl _⟩
    exact wfStandInStep_agree hc (exprIn_mono hc.len (hin p.2 (List.of_mem_zip hp).2))

/-! ## `wfExpr` -/

theorem wfExpr_agree {P : PLang} (ha : AliasesOk P) {ops : List OperatorDecl} (hops : OpsOkC P.types ops)
    (w : Wf) (pt : Bool) (R : Region) : ∀ (n : Nat) (s s' : WState) (r : Nat), WAgree R s s' → WIn R s →
    RelW R s (wfExpr P ops w pt n s r) (wfExpr P ops w pt n s' r)
  | 0, s, s', r, _, _ => by rw [wfExpr_zero, wfExpr_zero]; rfl
  | n+1, s, s', r, hws, hwin => by
    rw [wfExpr_succ, wfExpr_succ]
    have hex : s'.expr? r = s.expr? r := by unfold WState.expr?; rw [hws.exprs]
    rw [hex]
    cases he : s.expr? r with
    | some e =>
      refine ⟨s', rfl, hws, hwin, ?_, Nat.le_refl _⟩
      unfold WState.expr? at he
      cases hf : s.exprs.find? (fun p => p.1 == r) with
      | none => rw [hf] at he; cases he
      | some p =>
        rw [hf] at he
        simp only [Option.map_some, Option.some.injEq] at he
        subst he
        exact hwin.exprs p (List.mem_of_find?_eq_some hf)
    | none =>
      simp only []
      cases w.app? r with
      | none => rfl
      | some a =>
        simp only []
        have hfold : RelXW (AccRel R s.xs.store.vars.length)
            (a.inputs.foldlM (wfInputsStep P ops w pt n) (s, []))
            (a.inputs.foldlM (wfInputsStep P ops w pt n) (s', [])) := by
          refine foldlM_rel _ _ _ (fun i _ c c' hc => ?_) ⟨hws, rfl, hwin, (fun _ h => nomatch h), Nat.le_refl _⟩
          unfold wfInputsStep
          have ih := wfExpr_agree ha hops w pt R n c.1 c'.1 i hc.ws hc.win
          cases h1 : wfExpr P ops w pt n c.1 i with
          | error e => rw [h1] at ih; rw [ih]; rfl
          | ok q =>
            obtain ⟨sm, e⟩ := q
            rw [h1] at ih
            obtain ⟨sm', h2, w2, win2, he2, l2⟩ := ih
            rw [h2]
            refine ⟨_, rfl, w2, by simp only [hc.out], win2, ?_, Nat.le_trans hc.len l2⟩
            intro x hx
            rcases List.mem_append.mp hx with h3 | h3
            · exact exprIn_mono l2 (hc.oin x h3)
            · rw [List.mem_singleton] at h3; subst h3; exact he2
        cases h1 : a.inputs.foldlM (wfInputsStep P ops w pt n) (s, []) with
        | error e => rw [h1] at hfold; rw [hfold]; rfl
        | ok q =>
          obtain ⟨s1, ies⟩ := q
          rw [h1] at hfold
          obtain ⟨⟨s1', ies'⟩, h2, w1, o1, win1, oin1, l1⟩ := hfold
          simp only [] at w1 o1 win1 oin1 l1
          subst ies'
          rw [h2]
          simp only []
          have hst := wfStandIns_agree (P := P) (w := w) pt a w1 win1 oin1
          cases h3 : wfStandIns P w pt a s1 ies with
          | error e => rw [h3] at hst; rw [hst]; rfl
          | ok q2 =>
            obtain ⟨s2, inputs⟩ := q2
            rw [h3] at hst
            obtain ⟨⟨s2', inputs'⟩, h4, w2, o2, win2, oin2, l2⟩ := hst
            simp only [] at w2 o2 win2 oin2 l2
            subst inputs'
            rw [h4]
            simp only []
            have hp := parseTyped_sim ha hops true w2.xs oin2 a.toks
            cases h5 : parseExprToks P (typedBuilder P.types ops true) inputs s2.xs a.toks with
            | error e => rw [h5] at hp; rw [hp]; rfl
            | ok q3 =>
              obtain ⟨xs3, e⟩ := q3
              rw [h5] at hp
              obtain ⟨xs3', h6, a3, st3, he3⟩ := hp
              rw [h6]
              refine ⟨_, rfl, ⟨a3, by simp only [w2.exprs], w2.indirection, w2.srcTypes⟩, ⟨?_, ?_⟩, he3,
                Nat.le_trans l1 (Nat.le_trans l2 st3)⟩
              · intro p hp
                rcases List.mem_append.mp hp with h7 | h7
                · exact exprIn_mono st3 (win2.exprs p h7)
                · rw [List.mem_singleton] at h7; subst h7; exact he3
              · exact fun q hq => termInR_mono st3 (win2.srcTypes q hq)

/-! ## the table of the sources -/

theorem termInR_closed {σ : Store} {S : Nat → Prop} {t : Term} (h : t.closed = true) : TermInR σ S t :=
  termsInR_closed (xs := [t]) (by rw [Term.closedL, Term.closedL, h]; rfl) t List.mem_cons_self

/-- the relation kept by the fold that makes one source expression per workflow source -/
structure SrcRel (R : Region) (b b' : XState × List (Nat × TExpr)) : Prop where
  xs : XAgree R b.1 b'.1
  tbl : b'.2 = b.2
  tin : ∀ p, p ∈ b.2 → ExprIn b.1.store R.S p.2

theorem wfSrcStep_agree {R : Region} {stypes : List (Nat × Term)} (hcl : ∀ q, q ∈ stypes → q.2.closed = true)
    {b b' : XState × List (Nat × TExpr)} (h : SrcRel R b b') (r : Nat) :
    SrcRel R (wfSrcStep stypes b r) (wfSrcStep stypes b' r) := by
  obtain ⟨hxs, htbl, htin⟩ := h
  unfold wfSrcStep
  cases hf : stypes.find? (fun q => q.1 == r) with
  | some q =>
    simp only []
    refine ⟨⟨by simp only [hxs.nsrc], hxs.store⟩, by simp only [htbl, hxs.nsrc], ?_⟩
    intro p hp
    rcases List.mem_append.mp hp with h1 | h1
    · exact htin p h1
    · rw [List.mem_singleton] at h1; subst h1
      exact termInR_closed (hcl q (List.mem_of_find?_eq_some hf))
  | none =>
    simp only []
    have hl : b.1.store.vars.length ≤ (newVar b.1.store).1.vars.length := by rw [length_newVar]; omega
    refine ⟨⟨by simp only [hxs.nsrc], hxs.store.newVar false⟩,
      by simp only [htbl, hxs.nsrc, snd_newVar, hxs.store.same.vlen], ?_⟩
    intro p hp
    rcases List.mem_append.mp hp with h1 | h1
    · exact exprIn_mono hl (htin p h1)
    · rw [List.mem_singleton] at h1; subst h1
      show TermInR (newVar b.1.store).1 R.S (.var (newVar b.1.store).2)
      rw [snd_newVar]
      exact termInR_var.mpr ⟨hxs.store.closed.sfr _ (Nat.le_refl _), by rw [length_newVar]; omega⟩

theorem wfSrcTable_agree {R : Region} {stypes : List (Nat × Term)} (hcl : ∀ q, q ∈ stypes → q.2.closed = true)
    (w : Wf) {xs0 xs0' : XState} (h : XAgree R xs0 xs0') :
    SrcRel R (wfSrcTable w xs0 stypes) (wfSrcTable w xs0' stypes) := by
  unfold wfSrcTable
  have key : ∀ (l : List Nat) (b b' : XState × List (Nat × TExpr)), SrcRel R b b' →
      SrcRel R (l.foldl (wfSrcStep stypes) b) (l.foldl (wfSrcStep stypes) b') := by
    intro l
    induction l with
    | nil => intro b b' h; exact h
    | cons r l ih => intro b b' h; exact ih _ _ (wfSrcStep_agree hcl h r)
  exact key _ _ _ ⟨h, rfl, fun _ hp => nomatch hp⟩

end Tfv.C12P
