/-!
# M0 — languages, operators, concrete types

Mirrors `transforge/type.py`: `TypeOperator` (name, variance, parent) and
`TypeOperation` on concrete types. Operators are numbers (index into the
language's declaration list); indices 0–4 are the builtins
`Unit, Top, Bottom, Product, Function` (checked against `Tfv.Generated`).
Core Lean only; no Mathlib.
-/
namespace Tfv

/-- A concrete type: an operator applied to concrete types (`TypeOperation`). -/
inductive Ty where
  | app (o : Nat) (args : List Ty)
  deriving Repr, Inhabited

/-- `TypeOperator`: variance is `true` for covariant (`Variance.CO`). -/
structure OpDecl where
  name : String
  variance : List Bool
  parent : Option Nat
  deriving Repr, DecidableEq, Inhabited

abbrev Lang := List OpDecl

def UNIT : Nat := 0
def TOP : Nat := 1
def BOT : Nat := 2
def PROD : Nat := 3
def FUN : Nat := 4

/-- The five builtins of `type.py` in the order of `builtins`-by-index used here. -/
def builtinDecls : List OpDecl :=
  [⟨"Unit", [], none⟩, ⟨"Top", [], none⟩, ⟨"Bottom", [], none⟩,
   ⟨"Product", [true, true], none⟩, ⟨"Function", [false, true], none⟩]

def parentOf (L : Lang) (a : Nat) : Option Nat := (L[a]?).bind (·.parent)
def varianceOf (L : Lang) (a : Nat) : List Bool := ((L[a]?).map (·.variance)).getD []
def arityOf (L : Lang) (a : Nat) : Nat := (varianceOf L a).length
def nameOf (L : Lang) (a : Nat) : String := ((L[a]?).map (·.name)).getD "?"

/-- ancestor walk with fuel: `a == b` or some proper ancestor of `a` is `b` -/
def isAnc (L : Lang) : Nat → Nat → Nat → Bool
  | 0, _, _ => false
  | fuel+1, a, b =>
    a == b || (match parentOf L a with
      | some p => isAnc L fuel p b
      | none => false)

/-- `TypeOperator.subtype(self=a, other=b, strict)`, literally:
`(not strict and self is other) or (self is Bottom or other is Top or
  bool(self.parent and self.parent.subtype(other)))`.
The recursive call is non-strict; unfolding it along the parent chain gives
`a is Bottom ∨ b is Top ∨ ∃ proper ancestor p of a, p is b ∨ p is Bottom`;
under `WF` no ancestor is `Bottom`, the model keeps the literal form through
`chainSub`. -/
def chainSub (L : Lang) : Nat → Nat → Nat → Bool
  | 0, _, _ => false
  | fuel+1, a, b =>
    a == b || a == BOT || b == TOP || (match parentOf L a with
      | some p => chainSub L fuel p b
      | none => false)

def opSub (L : Lang) (a b : Nat) (strict : Bool := false) : Bool :=
  (!strict && a == b) || a == BOT || b == TOP ||
    (match parentOf L a with
      | some p => chainSub L (a + 1) p b
      | none => false)

mutual
def Ty.beq : Ty → Ty → Bool
  | .app a as, .app b bs => a == b && Ty.beqL as bs
def Ty.beqL : List Ty → List Ty → Bool
  | [], [] => true
  | s :: ss, t :: ts => Ty.beq s t && Ty.beqL ss ts
  | _, _ => false
end

instance : BEq Ty := ⟨Ty.beq⟩

mutual
def Ty.size : Ty → Nat
  | .app _ as => 1 + Ty.sizeL as
def Ty.sizeL : List Ty → Nat
  | [] => 0
  | t :: ts => Ty.size t + Ty.sizeL ts
end

mutual
def Ty.depth : Ty → Nat
  | .app _ as => Ty.depthL as
def Ty.depthL : List Ty → Nat
  | [] => 0
  | t :: ts => max (Ty.depth t + 1) (Ty.depthL ts)
end

/-- base type -/
def base (o : Nat) : Ty := .app o []

mutual
/-- every node has as many arguments as its operator's arity
(`TypeOperation.__init__` raises `TypeParameterError` otherwise) -/
def wfTy (L : Lang) : Ty → Bool
  | .app o args => o < L.length && args.length == arityOf L o && wfTyL L args
def wfTyL (L : Lang) : List Ty → Bool
  | [] => true
  | t :: ts => wfTy L t && wfTyL L ts
end

/-- Well-formed language, as Python construction forces it (`wfLang` is the
decidable form used by the driver and the generator):
* the first five declarations are the builtins,
* a parent is created before its child (smaller index),
* parents and children are nullary, and no parent is `Top` or `Bottom`,
* the builtins have no parent. -/
def wfLangB (L : Lang) : Bool :=
  L.take 5 == builtinDecls &&
  (List.range L.length).all (fun a =>
    match parentOf L a with
    | none => true
    | some p => p < a && arityOf L a == 0 && arityOf L p == 0 && p != TOP && p != BOT && 5 ≤ a)

end Tfv
