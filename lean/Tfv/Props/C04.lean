import Tfv.Model
namespace Tfv.C04
theorem placeholder : True := trivial
end Tfv.C04
