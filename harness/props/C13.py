"""C13 - all surface notations denote the same expression as programmatic construction."""
from __future__ import annotations
import langgen as G
import parsegen as PG

RULE = ("expression trees (depth<=4, 0-3 numbered inputs, anonymous sources, operators) rendered in random mixes of "
        "f(x, y) / f x y / (f x) y, redundant parentheses, blanks, newlines, # comments and in-line annotations `e : T`; "
        "each rendering is parsed by the implementation (structure: unify=False over wildcard-typed operators) and by the model; "
        "oracle: the parsed tree equals the tree that was rendered, and with `defaults=True` and fewer inputs supplied the tree has the same shape and the same sharing of source objects; a text with `-` parsed twice on one language shares no source object; typed half: see props/exprgen.typed_cases; "
        "non-trivial = at least two applications; distinct by text")
ASSUMPTIONS = ["operators of the structural language have the wildcard type, so no application fails to type"]
TRUSTED = ["harness/parsegen.py: renderer of trees to text and tree dump of the implementation's Expr objects"]


def napps(e):
    return 0 if e[0] != "app" else 1 + napps(e[1]) + napps(e[2])


def run(ctx):
    rng = ctx.rng
    nlang = 4 if ctx.tier == "quick" else 20
    ntree = 250 if ctx.tier == "quick" else 1200
    for li in range(nlang):
        spec = G.gen_lang(rng, max_base=4, max_ops=2, max_arity=2)
        ops = spec.build()
        lang, aliases = PG.plain_language(spec, ops)
        for l in PG.setup_lines(spec, aliases):
            ctx.setup(l, "ok")
        for k in range(ntree):
            ninputs = rng.randint(0, 3)
            tree = PG.gen_tree(rng, rng.randint(1, 4 if ctx.tier == "quick" else 5), ninputs)
            want = "ok " + PG.tree_expected(tree, [0])
            for rep in range(3):
                text = PG.render_spine(rng, tree, spec)
                if rng.random() < 0.3:
                    text = PG.ws(rng) + text + PG.ws(rng)
                obs, ex = PG.obs_parse_expr(lang, text, ninputs, ops)
                if obs == "E:TypeAnnotationError":
                    ctx.count("skipped_conflicting_annotation")
                    continue
                ctx.case(f"(pexpr {ninputs} {G.str_sexp(text)})", obs, {"lang": spec.to_json(), "text": text, "inputs": ninputs},
                    nontrivial=napps(tree) >= 2, key=text)
                ctx.count("apps_%d" % min(napps(tree), 6))
                got = obs.split(" |")[0]
                if got != want:
                    ctx.fail(f"{text!r} parsed to {got}, rendered from {want}", {"check": "notation"},
                        {"lang": spec.to_json(), "text": text, "inputs": ninputs, "want": want})
                elif rep == 0 and ninputs >= 1:
                    defaults_case(ctx, lang, spec, text, ninputs, rng.randrange(0, ninputs))
                elif rep == 0 and ninputs == 0 and "-" in text:
                    reparse_case(ctx, lang, spec, text)
    try:
        from props import exprgen
    except Exception:
        return
    exprgen.typed_notation_cases(ctx)


def identity_shape(e):
    """the tree with every source leaf named by the first occurrence of its OBJECT"""
    from transforge import expr as E
    seen = []

    def go(x):
        if isinstance(x, E.Application):
            return "(" + go(x.f) + " " + go(x.x) + ")"
        if isinstance(x, E.Operation):
            return x.operator.name
        for k, y in enumerate(seen):
            if y is x:
                return f"#{k}"
        seen.append(x)
        return f"#{len(seen) - 1}"
    return go(e)


def reparse_case(ctx, lang, spec, text):
    """`-` is a FRESH anonymous source: parsing the same text twice on the same language gives two expressions that share no source object"""
    from transforge import expr as E
    try:
        e1 = lang.parse(text)
        e2 = lang.parse(text)
    except Exception:  # noqa
        return
    ctx.evaluations += 1
    ctx.count("reparse_cases")

    def sources(e):
        if isinstance(e, E.Application):
            return sources(e.f) + sources(e.x)
        return [e] if isinstance(e, E.Source) else []
    s1, s2 = sources(e1), sources(e2)
    if any(a is b for a in s1 for b in s2):
        ctx.fail(f"{text!r} parsed twice on the same language: the two expressions share a source object (`-` is not fresh)",
            {"check": "reparse-shares-source"}, {"lang": spec.to_json(), "text": text, "inputs": 0, "reparse": True})
    elif identity_shape(e1) != identity_shape(e2):
        ctx.fail(f"{text!r} parsed twice on the same language gives {identity_shape(e1)} and then {identity_shape(e2)}",
            {"check": "reparse-differs"}, {"lang": spec.to_json(), "text": text, "inputs": 0, "reparse": True})


def defaults_case(ctx, lang, spec, text, ninputs, supplied):
    """`defaults=True`: a number beyond the supplied inputs stands for a source made on demand - the same number always for the same object.
    The tree must have the same shape, with the same sharing of source objects, as when every input is supplied"""
    from transforge import expr as E
    try:
        full = lang.parse_expr(text, *[E.Source() for _ in range(ninputs)], unify=False)
        part = lang.parse_expr(text, *[E.Source() for _ in range(supplied)], unify=False, defaults=True)
    except Exception as ex:  # noqa
        ctx.fail(f"{text!r} parses with {ninputs} inputs but with {supplied} supplied and defaults=True it raises {type(ex).__name__}",
            {"check": "defaults", "error": type(ex).__name__}, {"lang": spec.to_json(), "text": text, "inputs": ninputs, "supplied": supplied})
        return
    ctx.evaluations += 1
    ctx.count("defaults_cases")
    a, b = identity_shape(full), identity_shape(part)
    if a != b:
        ctx.fail(f"{text!r}: with all {ninputs} inputs supplied the tree is {a}; with {supplied} supplied and defaults=True it is {b}",
            {"check": "defaults"}, {"lang": spec.to_json(), "text": text, "inputs": ninputs, "supplied": supplied})


def replay(ctx, payload):
    inp = payload["input"]
    if inp.get("reparse"):
        spec = G.LangSpec([(n, v, p) for n, v, p in inp["lang"]])
        ops = spec.build()
        lang, aliases = PG.plain_language(spec, ops)
        c = type("C", (), {"failures": [], "evaluations": 0, "count": lambda self, n, k=1: None,
            "fail": lambda self, d, f, r: self.failures.append(d)})()
        reparse_case(c, lang, spec, inp["text"])
        for d in c.failures:
            print(d)
        return not c.failures
    if "supplied" in inp:
        spec = G.LangSpec([(n, v, p) for n, v, p in inp["lang"]])
        ops = spec.build()
        lang, aliases = PG.plain_language(spec, ops)
        c = type("C", (), {"failures": [], "evaluations": 0, "count": lambda self, n, k=1: None,
            "fail": lambda self, d, f, r: self.failures.append(d)})()
        defaults_case(c, lang, spec, inp["text"], inp["inputs"], inp["supplied"])
        for d in c.failures:
            print(d)
        return not c.failures
    if "text" not in inp or "opdecls" in inp:
        from props import exprgen
        return exprgen.replay_typed(ctx, inp)
    spec = G.LangSpec([(n, v, p) for n, v, p in inp["lang"]])
    ops = spec.build()
    lang, aliases = PG.plain_language(spec, ops)
    obs, ex = PG.obs_parse_expr(lang, inp["text"], inp["inputs"], ops)
    print(repr(inp["text"]), "->", obs, "expected", inp.get("want"))
    return obs.split(" |")[0] == inp.get("want")
