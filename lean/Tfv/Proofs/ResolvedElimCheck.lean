import Tfv.Proofs.ResolvedConstrMain
/-!
# Fulfilled elimination constraints with several remaining alternatives (C03, open case): what is proved

The case is NOT decided here (neither a proof for all runs nor a counterexample). This file proves the parts that do
not need a new induction over the engine:

* `elimHoldsB`: an executable test on a store ("the reference matches one of the remaining alternatives", by the
  engine's own `match3`) that is EXACT whenever reference and alternatives resolve below depth 64
  (`elimHoldsB_iff`): a verified monitor for the open case, usable on every final store of a run.
* `ElimWit L σ c`: the semantic witness clause (some remaining alternative is above the reference under every solution
  of the store). In a `Ready`, acyclic store it implies the property for a record with any number of alternatives
  (`ready_elim_witness`), it holds of fulfilled records with one alternative (`ready_elimWit_single`), it is kept when
  the store is extended without touching the record (`ElimWit.ext`), it is kept when the alternatives are replaced
  by alternatives that are above them under every solution (`ElimWit.widen`: the shape of the stale write-back of
  `minimize`, which only drops alternatives for which `match3 … = some true` towards a kept one), and it survives the
  filter of `fulfill` if the filter keeps the witness (`ElimWit.filter`).
-/
namespace Tfv.C03E
open Tfv Tfv.C03P Tfv.C03C Tfv.C03R Tfv.C16P Tfv.C17E

/-- an alternative of a resolved list resolves to a member of the resolutions -/
theorem resL_mem_left {σ : Store} : ∀ {as : List Term} {τs : List Ty} {a : Term}, ResL σ as τs → a ∈ as →
    ∃ τ, τ ∈ τs ∧ Res σ a τ ∧ Ty.depth τ + 1 ≤ Ty.depthL τs
  | [], [], _, _, hm => nomatch hm
  | [], _ :: _, _, h, _ => by rw [resL_nil_left] at h; cases h
  | _ :: _, [], _, h, _ => by rw [resL_nil_right] at h; cases h
  | a0 :: as, τ0 :: τs, a, h, hm => by
    rw [resL_cons] at h
    rw [Ty.depthL]
    rcases List.mem_cons.mp hm with e | e
    · subst e
      exact ⟨τ0, List.mem_cons_self, h.1, by omega⟩
    · obtain ⟨τ, hτ, hr, hd⟩ := resL_mem_left h.2 e
      exact ⟨τ, List.mem_cons_of_mem _ hτ, hr, by omega⟩

/-- the monitor: constraint `c` is not an elimination constraint, or `match3` (subtype mode, fuel 64) answers "yes" for
the reference against one of the remaining alternatives -/
def elimHoldsB (L : Lang) (σ : Store) (c : Nat) : Bool :=
  match getConstr σ c with
  | .elim r as _ => as.any (fun a => match3 L σ 64 true true r a == some true)
  | .sub _ _ _ _ => true

theorem elimHoldsB_elim {L : Lang} {σ : Store} {c : Nat} {r : Term} {as : List Term} {f : Bool}
    (hg : getConstr σ c = .elim r as f) :
    elimHoldsB L σ c = as.any (fun a => match3 L σ 64 true true r a == some true) := by
  unfold elimHoldsB
  rw [hg]

/-- on a record whose reference and alternatives resolve (below depth 64) the monitor is exact -/
theorem elimHoldsB_iff {L : Lang} (wf : WF L) {σ : Store} (okc : OkStoreC L σ) {c : Nat} {r : Term}
    {as : List Term} {f : Bool} (hc : c < σ.constrs.length) (hg : getConstr σ c = .elim r as f) {τr : Ty}
    {τs : List Ty} (h1 : Res σ r τr) (h2 : ResL σ as τs) (d1 : Ty.depth τr < 64) (d2 : Ty.depthL τs ≤ 64) :
    elimHoldsB L σ c = true ↔ ∃ τ, τ ∈ τs ∧ Sub L τr τ := by
  have hts := okc_elim_terms okc hc hg
  obtain ⟨hr, has⟩ := okTermL_cons.mp hts
  have wr := res_wf okc.ok τr r hr h1
  rw [elimHoldsB_elim hg, List.any_eq_true]
  constructor
  · rintro ⟨a, ha, hm⟩
    obtain ⟨τ, hτ, hra, hd⟩ := resL_mem_left h2 ha
    have e := match3_res L σ 64 true true r a τr τ h1 hra d1 (by omega)
    rw [e] at hm
    have hmc : matchC L true true τr τ = true := by simpa using hm
    exact ⟨τ, hτ, (sub_iff_Sub wf wr (res_wf okc.ok τ a (okTermL_iff.mp has a ha) hra)).mp hmc⟩
  · rintro ⟨τ, hτ, hs⟩
    obtain ⟨a, ha, hra, hd⟩ := resL_mem h2 hτ
    have e := match3_res L σ 64 true true r a τr τ h1 hra d1 (by omega)
    have hmc : matchC L true true τr τ = true :=
      (sub_iff_Sub wf wr (res_wf okc.ok τ a (okTermL_iff.mp has a ha) hra)).mpr hs
    exact ⟨a, ha, by rw [e, hmc]; rfl⟩

/-- the semantic witness clause for constraint `c`: if it is an elimination record, then under every solution of the
store some remaining alternative is above the reference -/
def ElimWit (L : Lang) (σ : Store) (c : Nat) : Prop :=
  ∀ r as f, getConstr σ c = .elim r as f → ∀ ρ, Sat L ρ σ → ∃ a, a ∈ as ∧ Sub L (den ρ r) (den ρ a)

/-- the witness clause gives the property in an acyclic `Ready` store, whatever the number of alternatives -/
theorem ready_elim_witness {L : Lang} (wf : WF L) {σ : Store} (rd : Ready L σ) (hac : Acyclic σ) {c : Nat}
    {ref : Term} {alts : List Term} {f : Bool} (hg : getConstr σ c = .elim ref alts f) (hw : ElimWit L σ c)
    {τr : Ty} {τs : List Ty} (h1 : Res σ ref τr) (h2 : ResL σ alts τs) : ∃ τ, τ ∈ τs ∧ Sub L τr τ := by
  obtain ⟨ρ, hρ, _⟩ := witness_exists rd.pre.okc.ok hac _ (choice_exists wf rd.pre.okc.ok)
  obtain ⟨a, ha, hs⟩ := hw ref alts f hg ρ hρ
  obtain ⟨τ, hτ, hra, _⟩ := resL_mem_left h2 ha
  rw [res_den hρ τr ref h1, res_den hρ τ a hra] at hs
  exact ⟨τ, hτ, hs⟩

/-- a fulfilled record with one alternative satisfies the witness clause in a `Ready` store -/
theorem ready_elimWit_single {L : Lang} {σ : Store} (rd : Ready L σ) {c : Nat} {ref a : Term}
    (hc : c < σ.constrs.length) (hg : getConstr σ c = .elim ref [a] true) : ElimWit L σ c := by
  intro r as f e ρ hρ
  rw [hg] at e
  injection e with e1 e2 e3
  subst e1; subst e2
  exact ⟨a, List.mem_cons_self, rd.inv.ful1 c ref a hc hg (fun h => h) ρ hρ trivial⟩

/-- the clause is kept when the store changes without touching the record and without adding solutions -/
theorem ElimWit.ext {L : Lang} {σ σ' : Store} {c : Nat} (hw : ElimWit L σ c)
    (hsat : ∀ ρ, Sat L ρ σ' → Sat L ρ σ) (hsame : getConstr σ' c = getConstr σ c) : ElimWit L σ' c := by
  intro r as f e ρ hρ
  rw [hsame] at e
  exact hw r as f e ρ (hsat ρ hρ)

/-- solutions do not depend on the constraint records -/
theorem sat_setConstr {L : Lang} {ρ : Val} {σ : Store} {c : Nat} {x : Constr} (h : Sat L ρ (setConstr σ c x)) :
    Sat L ρ σ := ⟨h.wf, h.bound, h.lower, h.upper⟩

/-- the stale write-back of `minimize`: reference and alternatives are replaced by terms with the same denotation /
by alternatives among which every old alternative has one above it under every solution -/
theorem ElimWit.widen {L : Lang} (wf : WF L) {σ : Store} {c : Nat} {r r' : Term} {as as' : List Term} {f f' : Bool}
    (hw : ElimWit L σ c) (hc : c < σ.constrs.length) (hg : getConstr σ c = .elim r as f)
    (hr : ∀ ρ, Sat L ρ σ → den ρ r' = den ρ r)
    (has : ∀ ρ, Sat L ρ σ → ∀ a, a ∈ as → ∃ a', a' ∈ as' ∧ Sub L (den ρ a) (den ρ a')) :
    ElimWit L (setConstr σ c (.elim r' as' f')) c := by
  intro r1 as1 f1 e ρ hρ
  rw [getConstr_setConstr_eq _ hc] at e
  injection e with e1 e2 e3
  subst e1; subst e2
  have hρ0 := sat_setConstr hρ
  obtain ⟨a, ha, hs⟩ := hw r as f hg ρ hρ0
  obtain ⟨a', ha', hs'⟩ := has ρ hρ0 a ha
  rw [hr ρ hρ0]
  exact ⟨a', ha', sub_trans wf _ _ _ hs hs'⟩

/-- the filter of `fulfill`: the clause survives if, under every solution, a witness survives the filter -/
theorem ElimWit.filter {L : Lang} {σ : Store} {c : Nat} {r : Term} {as : List Term} {f' : Bool}
    {keep : Term → Bool} (hc : c < σ.constrs.length)
    (hk : ∀ ρ, Sat L ρ σ → ∃ a, a ∈ as ∧ keep a = true ∧ Sub L (den ρ r) (den ρ a)) :
    ElimWit L (setConstr σ c (.elim r (as.filter keep) f')) c := by
  intro r1 as1 f1 e ρ hρ
  rw [getConstr_setConstr_eq _ hc] at e
  injection e with e1 e2 e3
  subst e1; subst e2
  obtain ⟨a, ha, hka, hs⟩ := hk ρ (sat_setConstr hρ)
  exact ⟨a, List.mem_filter.mpr ⟨ha, hka⟩, hs⟩

end Tfv.C03E
