import Tfv.Proofs.QueryUnfoldCor
/-!
# `unfoldTask` commutes with generalising types

`assign_variables` only looks at the shape of a task (outputs, inputs, `from_` links, number of steps), so a task and
its generalisation get the same variables, in the same order; the unfolded generalised task is then the generalised
unfolded task. (For sub-tasks there is no such statement: dropping a link renumbers the copies.)
-/
namespace Tfv

/-- two tasks with the same outputs, inputs and links (the types and operators of the steps may differ) -/
structure SameShape (t t' : QTask) : Prop where
  outputs : t'.outputs = t.outputs
  inputs : t'.inputs = t.inputs
  from_ : ∀ k, (t'.step k).from_ = (t.step k).from_

theorem GeneralisedTask.sameShape {le : Ty → Ty → Bool} {t t' : QTask} (h : GeneralisedTask le t t') : SameShape t t' :=
  ⟨h.outputs, h.inputs, h.from_⟩

theorem SameShape.visitV {t t' : QTask} (h : SameShape t t') (a : QAssign) (v : QVar) (k : Nat) :
    visitV t' a v k = visitV t a v k := by
  unfold Tfv.visitV
  rw [h.outputs, h.inputs]

theorem SameShape.assignVars {t t' : QTask} (h : SameShape t t') (f : QFlags) :
    ∀ (n : Nat) (a : QAssign) (k : Nat) (path : List Nat), assignVars t' f n a k path = assignVars t f n a k path := by
  intro n
  induction n with
  | zero =>
    intro a k path
    rw [Tfv.assignVars, Tfv.assignVars]
  | succ n ih =>
    intro a k path
    rw [assignVars_succV, assignVars_succV, h.visitV, h.from_]
    have hl : ∀ v p', linkStepV t' f n v p' = linkStepV t f n v p' := by
      intro v p'
      funext a0 b
      unfold linkStepV
      rw [ih]
    rw [hl]

theorem SameShape.assignAll {t t' : QTask} (h : SameShape t t') (hl : t'.steps.length = t.steps.length) (f : QFlags) :
    assignAll t' f = assignAll t f := by
  unfold Tfv.assignAll
  rw [h.outputs, hl]
  congr 1
  funext a o
  rw [h.assignVars]

theorem GeneralisedTask.unfoldWith {le : Ty → Ty → Bool} {t t' : QTask} (h : GeneralisedTask le t t') (a : QAssign) :
    GeneralisedTask le (unfoldWith t a) (unfoldWith t' a) := by
  have hstep : ∀ (s : QTask) (i : Nat), (Tfv.unfoldWith s a).step i =
      match a.vars[i]? with
      | none => {}
      | some x => { types := (s.step x.2).types, ops := (s.step x.2).ops,
                    from_ := (s.step x.2).from_.map (fun b => pathIdx a (x.1 ++ [b])) } := by
    intro s i
    unfold QTask.step Tfv.unfoldWith
    simp only [List.getD_eq_getElem?_getD, List.getElem?_map]
    cases a.vars[i]? <;> rfl
  refine ⟨rfl, rfl, ?_, ?_, ?_⟩
  · intro i
    rw [hstep, hstep]
    cases a.vars[i]? with
    | none => rfl
    | some x => simp only [h.from_]
  · intro i
    rw [hstep, hstep]
    cases a.vars[i]? with
    | none => rfl
    | some x => exact h.ops x.2
  · intro i
    rw [hstep, hstep]
    cases a.vars[i]? with
    | none => exact ⟨Iff.rfl, fun T hT => by cases hT⟩
    | some x => exact h.types x.2

/-- the unfolded generalised task is the generalised unfolded task (the two tasks having equally many steps) -/
theorem GeneralisedTask.unfoldTask {le : Ty → Ty → Bool} {t t' : QTask} (h : GeneralisedTask le t t')
    (hl : t'.steps.length = t.steps.length) : GeneralisedTask le (unfoldTask t) (unfoldTask t') := by
  unfold Tfv.unfoldTask
  rw [h.sameShape.assignAll hl]
  cases assignAll t { unfoldTree := true } with
  | error e => exact h
  | ok a => exact h.unfoldWith a

end Tfv
