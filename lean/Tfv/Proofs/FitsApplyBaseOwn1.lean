import Tfv.Proofs.FitsApplyBase6
/-!
# C06 end to end, alternatives with their own variables, part 1: unifying one concrete component with a fresh variable

`unify(t, w)` (covariant position) and `unify(w, t)` (contravariant position) for a concrete type `t` and a variable `w` that is
free, sits in its own constraint set `w`, and whose only constraint is already marked fulfilled. Any store.
-/
namespace Tfv.C06B
open Tfv Tfv.C03P Tfv.C03C Tfv.C16P Tfv.C17E Tfv.C03R Tfv.C06A Tfv.C05P

theorem setCset_setCset (σ : Store) (k : Nat) (a b : List Nat) : setCset (setCset σ k a) k b = setCset σ k b := by
  unfold setCset; simp

theorem getCset_setCset_same {σ : Store} {k : Nat} (cs : List Nat) (h : k < σ.csets.length) :
    getCset (setCset σ k cs) k = cs := by
  unfold getCset setCset; simp [h]

theorem getCset_setCset_other {σ : Store} {k j : Nat} (cs : List Nat) (h : k ≠ j) :
    getCset (setCset σ k cs) j = getCset σ j := by
  unfold getCset setCset; simp [h]

theorem cset_lt {σ : Store} {k c : Nat} {cs : List Nat} (h : getCset σ k = c :: cs) : k < σ.csets.length := by
  unfold getCset at h
  by_cases hk : k < σ.csets.length
  · exact hk
  · rw [List.getD_eq_getElem?_getD, List.getElem?_eq_none (by omega)] at h
    cases h

/-- `w` is a free variable in its own constraint set, whose only constraint `c` is fulfilled -/
structure FreshAt (σ : Store) (w c : Nat) : Prop where
  lt : w < σ.vars.length
  info : getVar σ w = { cset := w }
  cs : getCset σ w = [c]
  ful : ∃ ref alts, getConstr σ c = .elim ref alts true

/-- the record differs from a fresh one in binding and bounds only -/
theorem check_fulfilled_generic (L : Lang) (m : Nat) (τ : Store) (w c : Nat)
    (hi : (getVar τ w).cset = w) (hcs : getCset τ w = [c]) (hful : ∃ ref alts, getConstr τ c = .elim ref alts true) :
    checkConstraints L (m+3) τ w = .ok (setCset τ w []) := by
  obtain ⟨ref, alts, hc⟩ := hful
  rw [checkConstraints, hi, hcs, checkList, fulfill, hc]
  simp only [if_true, hi, hcs]
  have e : [c].filter (· != c) = [] := by simp
  rw [e, checkList]

/-- the record `w` gets from the component `t` in a covariant position (`t` not `Bottom`) -/
def infoCo (L : Lang) (w : Nat) (t : Ty) : VarInfo :=
  if arityOf L (hd t) == 0 then
    (if hd t == TOP then { bound := some (.app TOP []), cset := w } else { lower := some (hd t), cset := w })
  else { bound := some t.toTerm, cset := w }

/-- the record `w` gets from the component `t` in a contravariant position (`t` not `Top`) -/
def infoContra (L : Lang) (w : Nat) (t : Ty) : VarInfo :=
  if arityOf L (hd t) == 0 then
    (if hd t == BOT then { bound := some (.app BOT []), cset := w } else { upper := some (hd t), cset := w })
  else { bound := some t.toTerm, cset := w }

/-- the store after unifying the component `t` with the variable `w` (`v`: the variance of the position) -/
def argStep (L : Lang) (σ : Store) (v : Bool) (t : Ty) (w : Nat) : Store :=
  if v then (if hd t == BOT then σ else setCset (setVar σ w (infoCo L w t)) w [])
  else (if hd t == TOP then σ else setCset (setVar σ w (infoContra L w t)) w [])

theorem bind_fresh (L : Lang) (m : Nat) (σ : Store) (w c o : Nat) (args : List Ty) (hf : FreshAt σ w c) :
    bind L (m+4) σ w (Ty.app o args).toTerm =
      .ok (setCset (setVar σ w { bound := some (Ty.app o args).toTerm, cset := w }) w []) := by
  obtain ⟨hlt, hi, hcs, hful⟩ := hf
  rw [Tfv.toTerm_app, bind]
  simp only [hi, Option.isSome_none, Bool.false_eq_true, if_false, setVar_setVar, Option.any_none, Bool.or_self]
  have hdv : ∀ τ : Store, directVars τ (termFuel τ) (.app o (Ty.toTermL args)) [] = [] := fun τ =>
    directVars_closed _ _ _ _ (by rw [closed_app]; exact closedL_toTermL args)
  have hlt' : w < (setVar σ w { bound := some (Term.app o (Ty.toTermL args)), cset := w }).vars.length := by
    rw [length_setVar]; exact hlt
  split
  · exact check_fulfilled_generic L m _ w c (by rw [getVar_setVar_eq _ hlt]) (by rw [C03P.getCset_setVar]; exact hcs)
      (by obtain ⟨r, a, h⟩ := hful; exact ⟨r, a, h⟩)
  · rw [hdv]
    simp only [List.foldl_nil, C03P.getCset_setVar]
    rw [check_fulfilled_generic L m _ w c
      (by rw [getVar_setCset, getVar_setVar_eq _ hlt])
      (by rw [getCset_setCset_same _ (by exact cset_lt hcs)]; exact hcs)
      (by obtain ⟨r, a, h⟩ := hful; exact ⟨r, a, h⟩), setCset_setCset]


theorem above_fresh (L : Lang) (m : Nat) (σ : Store) (w c new : Nat) (hf : FreshAt σ w c) (ht : new ≠ TOP) :
    above L (m+4) σ w new = .ok (setCset (setVar σ w { lower := some new, cset := w }) w []) := by
  obtain ⟨hlt, hi, hcs, hful⟩ := hf
  have ht' : (new == TOP) = false := by simpa using ht
  rw [above]
  simp only [ht', Bool.false_eq_true, if_false, hi, Option.isSome_none, Option.any_none, Option.all_none, if_true,
    setVar_setVar]
  rw [check_fulfilled_generic L m _ w c (by rw [getVar_setVar_eq _ hlt]) (by rw [C03P.getCset_setVar]; exact hcs)
    (by obtain ⟨r, a, h⟩ := hful; exact ⟨r, a, h⟩)]
  simp only [getVar_setCset, getVar_setVar_eq _ hlt]
  rfl

theorem below_fresh (L : Lang) (m : Nat) (σ : Store) (w c new : Nat) (hf : FreshAt σ w c) (ht : new ≠ BOT) :
    below L (m+4) σ w new = .ok (setCset (setVar σ w { upper := some new, cset := w }) w []) := by
  obtain ⟨hlt, hi, hcs, hful⟩ := hf
  have ht' : (new == BOT) = false := by simpa using ht
  rw [below]
  simp only [ht', Bool.false_eq_true, if_false, hi, Option.isSome_none, Option.any_none, Option.all_none, if_true,
    setVar_setVar]
  rw [check_fulfilled_generic L m _ w c (by rw [getVar_setVar_eq _ hlt]) (by rw [C03P.getCset_setVar]; exact hcs)
    (by obtain ⟨r, a, h⟩ := hful; exact ⟨r, a, h⟩)]
  simp only [getVar_setCset, getVar_setVar_eq _ hlt]
  rfl

/-- covariant position: `unify(t, w)` -/
theorem unify_co (L : Lang) (m : Nat) (σ : Store) (w c : Nat) (t : Ty) (hf : FreshAt σ w c) :
    unify L (m+6) σ t.toTerm (.var w) true false false = .ok (argStep L σ true t w) := by
  have hbd : (getVar σ w).bound = none := by rw [hf.info]
  cases t with
  | app o args =>
    have hocc := occurs_closed_var (L := L) (σ := σ) (w := w) hbd (termFuel σ) (.app o (Ty.toTermL args))
      (by rw [closed_app]; exact closedL_toTermL args)
    simp only [argStep, hd, if_true]
    by_cases h1 : o = BOT
    · subst h1
      rw [Tfv.toTerm_app, unify, Tfv.followT_app, C16P.followT_unbound hbd]
      simp
    · have h1' : (o == BOT) = false := by simpa using h1
      simp only [h1', Bool.false_eq_true, if_false]
      by_cases h0 : arityOf L o = 0
      · have e : unify L (m+6) σ (Ty.app o args).toTerm (.var w) true false false = above L (m+5) σ w o := by
          rw [Tfv.toTerm_app, unify, Tfv.followT_app, C16P.followT_unbound hbd]
          simp [h1', hocc, h0]
        rw [e]
        by_cases h2 : o = TOP
        · subst h2
          rw [above]
          simp only [beq_self_eq_true, if_true]
          have := bind_fresh L m σ w c TOP [] hf
          rw [Tfv.toTerm_app, Ty.toTermL] at this
          rw [this]
          simp [infoCo, hd, h0]
        · have h2' : (o == TOP) = false := by simpa using h2
          rw [above_fresh L (m+1) σ w c o hf h2]
          simp [infoCo, hd, h0, h2']
      · have e : unify L (m+6) σ (Ty.app o args).toTerm (.var w) true false false =
            bind L (m+5) σ w (Ty.app o args).toTerm := by
          rw [Tfv.toTerm_app, unify, Tfv.followT_app, C16P.followT_unbound hbd]
          simp [h1', hocc, h0]
        rw [e, bind_fresh L (m+1) σ w c o args hf]
        simp [infoCo, hd, h0]

/-- contravariant position: `unify(w, t)` -/
theorem unify_contra (L : Lang) (m : Nat) (σ : Store) (w c : Nat) (t : Ty) (hf : FreshAt σ w c) :
    unify L (m+6) σ (.var w) t.toTerm true false false = .ok (argStep L σ false t w) := by
  have hbd : (getVar σ w).bound = none := by rw [hf.info]
  cases t with
  | app o args =>
    have hocc := occurs_closed_var (L := L) (σ := σ) (w := w) hbd (termFuel σ) (.app o (Ty.toTermL args))
      (by rw [closed_app]; exact closedL_toTermL args)
    simp only [argStep, hd, Bool.false_eq_true, if_false]
    by_cases h1 : o = TOP
    · subst h1
      rw [Tfv.toTerm_app, unify, Tfv.followT_app, C16P.followT_unbound hbd]
      simp
    · have h1' : (o == TOP) = false := by simpa using h1
      simp only [h1', Bool.false_eq_true, if_false]
      by_cases h0 : arityOf L o = 0
      · have e : unify L (m+6) σ (.var w) (Ty.app o args).toTerm true false false = below L (m+5) σ w o := by
          rw [Tfv.toTerm_app, unify, Tfv.followT_app, C16P.followT_unbound hbd]
          simp [h1', hocc, h0]
        rw [e]
        by_cases h2 : o = BOT
        · subst h2
          rw [below]
          simp only [beq_self_eq_true, if_true]
          have := bind_fresh L m σ w c BOT [] hf
          rw [Tfv.toTerm_app, Ty.toTermL] at this
          rw [this]
          simp [infoContra, hd, h0]
        · have h2' : (o == BOT) = false := by simpa using h2
          rw [below_fresh L (m+1) σ w c o hf h2]
          simp [infoContra, hd, h0, h2']
      · have e : unify L (m+6) σ (.var w) (Ty.app o args).toTerm true false false =
            bind L (m+5) σ w (Ty.app o args).toTerm := by
          rw [Tfv.toTerm_app, unify, Tfv.followT_app, C16P.followT_unbound hbd]
          simp [h1', hocc, h0]
        rw [e, bind_fresh L (m+1) σ w c o args hf]
        simp [infoContra, hd, h0]

end Tfv.C06B
