import Tfv.Model
import Tfv.Proofs.TypeText
/-!
# C14 — type text round-trips (text half; the URI half is in C14)
Statements only. The parser is `parseTypeToks` (model of `Language.parse_type`), the printer is
`typeToks` (token list of `TypeInstance.text()`).
-/
namespace Tfv.C14Text
open Tfv Tfv.TypeText

/-- tokens with a fixed meaning for the type parser: no declared operator or alias may be called so -/
def reservedToks : List String := ["(", ")", ",", "*", "_", "#", "\n", "Top", "Bottom"]

/-- a language as `Language.add` builds it, as far as type text is concerned: the first five operators
are the builtins (so `Top`, `Bottom` are nullary and print as "Top", "Bottom", and the product is binary),
the names of the declared operators (index ≥ 5) are pairwise distinct, and none of them is a reserved token -/
def TextLang (L : Lang) : Prop :=
  L.take 5 = builtinDecls ∧
  ((L.drop 5).map (·.name)).Nodup ∧
  ∀ x ∈ (L.drop 5).map (·.name), x ∉ reservedToks

/-- alias names are pairwise distinct, differ from every declared operator's name and from the reserved tokens -/
def TextAliases (P : PLang) : Prop :=
  (P.aliases.map (·.name)).Nodup ∧
  (∀ a ∈ P.aliases, a.name ∉ (P.types.drop 5).map (·.name)) ∧
  ∀ a ∈ P.aliases, a.name ∉ reservedToks

/-- the same discipline stated on operator indices (the form used by the URI half, `C14.DistinctNames`):
it implies `TextLang` -/
theorem textLang_of_index (L : Lang) (hb : L.take 5 = builtinDecls)
    (hn : ∀ i j, 5 ≤ i → 5 ≤ j → i < L.length → j < L.length → nameOf L i = nameOf L j → i = j)
    (hs : ∀ i, 5 ≤ i → i < L.length → nameOf L i ∉ reservedToks) : TextLang L :=
  ⟨hb, nodup_names_of_index L hn, not_special_of_index L reservedToks hs⟩

/-- the stack-machine invariant behind the round trip, for use by other proofs: from any parser state whose
stack top is not an operator (and that is not inside a comment), reading the printed form of a printable
type `t`, followed by any further tokens `rest`, pushes `t` on the stack and changes nothing else -/
theorem C14_text_invariant (L : Lang) (aliases : List AliasDecl) (hL : TextLang L) (varBase : Nat)
    (t : Ty) (ht : printable L t = true)
    (top : TItem) (R : List TItem) (lvl : Int) (cs : List Bool) (fr : Nat) (rest : List String)
    (htop : top.isOp = false) :
    parseTypeLoop ⟨L, aliases⟩ true varBase ⟨top :: R, lvl, cs, fr, false⟩ (typeToks L t ++ rest)
      = parseTypeLoop ⟨L, aliases⟩ true varBase ⟨.ty t.toTerm :: top :: R, lvl, cs, fr, false⟩ rest :=
  parsesTy_of_printable ⟨L, aliases⟩ varBase ⟨hL.1, hL.2.1, hL.2.2⟩ t ht top R lvl cs fr rest htop

/-- parsing the printed form of any concrete type built from the language's operators, `Top`, `Bottom`
and products gives the same type back, and creates no variables (whatever aliases are declared) -/
theorem C14_text_roundtrip (L : Lang) (aliases : List AliasDecl) (hL : TextLang L)
    (t : Ty) (ht : printable L t = true) :
    parseTypeToks ⟨L, aliases⟩ (typeToks L t) = .ok (t.toTerm, 0) :=
  parseTypeToks_typeToks ⟨L, aliases⟩ 0 ⟨hL.1, hL.2.1, hL.2.2⟩ t ht

/-- two printable types with the same printed token list are the same type -/
theorem C14_text_injective (L : Lang) (hL : TextLang L) (s t : Ty)
    (hs : printable L s = true) (ht : printable L t = true) (h : typeToks L s = typeToks L t) : s = t :=
  typeToks_injective L ⟨hL.1, hL.2.1, hL.2.2⟩ s t hs ht h

/-- whatever single non-reserved token the parser's name resolution takes for a type, the parser returns
exactly that type for the one-token text -/
theorem C14_token_denotes (P : PLang) (tok : String) (body : Term) (h : tok ∉ reservedToks)
    (hr : resolveTypeToken P tok = .ok (.ty body)) :
    parseTypeToks P [tok] = .ok (body, 0) :=
  parseTypeToks_single P 0 tok body h hr

/-- a plain alias (no parameters) written in type text denotes exactly its definition -/
theorem C14_alias_plain (P : PLang) (hA : TextAliases P) (a : AliasDecl) (ha : a ∈ P.aliases)
    (har : a.arity = 0) :
    parseTypeToks P [a.name] = .ok (a.body, 0) :=
  parseTypeToks_alias_plain P 0 ⟨hA.1, hA.2.1, hA.2.2⟩ a ha har

/-- a parameterised alias applied in type text to printable argument types denotes its definition with the
parameters replaced by the arguments -/
theorem C14_alias_param (P : PLang) (hL : TextLang P.types) (hA : TextAliases P) (a : AliasDecl)
    (ha : a ∈ P.aliases) (ts : List Ty) (hp : printableL P.types ts = true)
    (hlen : ts.length = a.arity) (hpos : 1 ≤ a.arity) :
    parseTypeToks P ([a.name, "("] ++ typeToksArgs P.types ts ++ [")"])
      = .ok (a.body.substArgs (Ty.toTermL ts), 0) :=
  parseTypeToks_alias_param P 0 ⟨hL.1, hL.2.1, hL.2.2⟩ ⟨hA.1, hA.2.1, hA.2.2⟩ a ha ts hp hlen hpos

/-! ## non-vacuity -/

/-- base types `A`, `B ≤ A`, a unary `F` and a binary `G` -/
def exL : Lang := builtinDecls ++ [⟨"A", [], none⟩, ⟨"B", [], some 5⟩, ⟨"F", [true], none⟩, ⟨"G", [true, true], none⟩]

theorem exL_textLang : TextLang exL := ⟨by decide, by decide, by decide⟩

/-- `(G(F((A * B)), Top) * (Bottom * F(B)))`: a product inside a compound inside a product -/
def exT : Ty :=
  .app PROD [.app 8 [.app 7 [.app PROD [.app 5 [], .app 6 []]], .app TOP []],
             .app PROD [.app BOT [], .app 7 [.app 6 []]]]

example : printable exL exT = true := by decide
example : typeToks exL exT
    = ["(", "G", "(", "F", "(", "(", "A", "*", "B", ")", ")", ",", "Top", ")", "*",
       "(", "Bottom", "*", "F", "(", "B", ")", ")", ")"] := by decide
example : parseTypeToks ⟨exL, []⟩ (typeToks exL exT) = .ok (exT.toTerm, 0) :=
  C14_text_roundtrip exL [] exL_textLang exT (by decide)
example : parseTypeToks ⟨exL, []⟩
    ["(", "G", "(", "F", "(", "(", "A", "*", "B", ")", ")", ",", "Top", ")", "*",
       "(", "Bottom", "*", "F", "(", "B", ")", ")", ")"]
    = .ok (.app 3 [.app 8 [.app 7 [.app 3 [.app 5 [], .app 6 []]], .app 1 []],
                   .app 3 [.app 2 [], .app 7 [.app 6 []]]], 0) :=
  C14_text_roundtrip exL [] exL_textLang exT (by decide)

/-- `Pair(x, y) = (x * G(y, x))` and `AB = (A * B)` -/
def exP : PLang :=
  ⟨exL, [⟨"Pair", 2, .app PROD [.var 0, .app 8 [.var 1, .var 0]]⟩, ⟨"AB", 0, .app PROD [.app 5 [], .app 6 []]⟩]⟩

theorem exP_textAliases : TextAliases exP := ⟨by decide, by decide, by decide⟩

example : parseTypeToks exP ["AB"] = .ok (.app PROD [.app 5 [], .app 6 []], 0) :=
  C14_alias_plain exP exP_textAliases ⟨"AB", 0, .app PROD [.app 5 [], .app 6 []]⟩ (by simp [exP]) rfl
example : parseTypeToks exP ["Pair", "(", "F", "(", "A", ")", ",", "(", "A", "*", "B", ")", ")"]
    = .ok (.app PROD [.app 7 [.app 5 []], .app 8 [.app PROD [.app 5 [], .app 6 []], .app 7 [.app 5 []]]], 0) :=
  C14_alias_param exP exL_textLang exP_textAliases ⟨"Pair", 2, .app PROD [.var 0, .app 8 [.var 1, .var 0]]⟩
    (by simp [exP]) [.app 7 [.app 5 []], .app PROD [.app 5 [], .app 6 []]] (by decide) rfl (by decide)

/-! ## what lies outside the theorem (model behaviour, recorded) -/

/-- `Unit` cannot be written in type text: the parser resolves names among the declared operators
(index ≥ 5), `Top` and `Bottom` only; hence `printable` leaves `Unit` out -/
example : (match parseTypeToks ⟨exL, []⟩ (typeToks exL (.app UNIT [])) with
    | .error (.undefinedToken "Unit") => true | _ => false) = true := by rfl

/-- the naming hypothesis is needed: were a declared operator allowed to be called "Top", it would print like
the builtin `Top` and two different printable types would share their text (`Language.add` refuses such a name) -/
example : let L : Lang := builtinDecls ++ [⟨"Top", [], none⟩]
    printable L (.app 5 []) = true ∧ printable L (.app TOP []) = true ∧
    typeToks L (.app 5 []) = typeToks L (.app TOP []) := by decide

end Tfv.C14Text
