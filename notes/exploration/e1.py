import sys
sys.path.insert(0,'/repo')
from transforge.type import *
from transforge.type import _
A=TypeOperator('A'); B=TypeOperator('B',supertype=A); C=TypeOperator('C')
F=TypeOperator('F',params=1); G=TypeOperator('G',params=2)
def tryit(label, fn):
    try:
        r=fn(); print(label,'=>',r)
    except Exception as e:
        print(label,'!!',type(e).__name__, e)
# C03: x**x**x applied to A then F(A)
f=TypeSchema(lambda x: x**x**x)
tryit('C03 x**x**x A F(A)', lambda: f.apply(A).apply(F(A)))
tryit('C03 x**x**x F(A) A', lambda: f.apply(F(A)).apply(A))
tryit('C03 x**x**x A C', lambda: f.apply(A).apply(C))
# C17 tutorial
Qlt=TypeOperator('Qlt'); Cc=TypeOperator('Cc',params=1)
g=TypeSchema(lambda a: a**a [a << {Qlt, Cc(Qlt)}])
tryit('C17 a**a[a<<{Qlt,C(Qlt)}] Qlt', lambda: g.apply(Qlt))
Ord=TypeOperator('Ord',supertype=Qlt)
tryit('C17 .. C(Ord)', lambda: g.apply(Cc(Ord)))
tryit('C17 .. Ord', lambda: g.apply(Ord))
# C06 keys
R=TypeOperator('R',params=2); Obj=TypeOperator('Obj')
keys=TypeSchema(lambda a,b: a ** Cc(b) [a << {Cc(b), R(b, _)}])
tryit('C06 keys R(Ord,Obj)', lambda: keys.apply(R(Ord,Obj)))
tryit('C06 keys C(Ord)', lambda: keys.apply(Cc(Ord)))
tryit('C06 keys Ord', lambda: keys.apply(Ord))
