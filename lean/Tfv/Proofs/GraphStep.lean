import Tfv.Model.Graph
/-!
# Graph construction as a sequence of primitive steps

`TStep P Q g g'`: `g'` is obtained from `g` by the primitive state changes the *type* part of the graph
code performs (`add` of a triple satisfying `P`, a fresh blank node, registering a type node, marking
a type as supertyped). `GStep c P Q g g'` adds the changes of `addExpr` (`gAddFrom`, registering source /
shared / internal nodes). Every property of the generated graphs that is preserved by each primitive
step is proved once, by induction over these relations.
-/
namespace Tfv

/-- primitive changes made by `addType`, `addTypeParams`, `addSupertypesRec`, `annotateType` -/
inductive TStep (P : Triple → Prop) (Q : Term × Node → Prop) : GState → GState → Prop
  | refl (g : GState) : TStep P Q g g
  | trans {g1 g2 g3 : GState} : TStep P Q g1 g2 → TStep P Q g2 g3 → TStep P Q g1 g3
  | add (g : GState) (t : Triple) : P t → TStep P Q g (g.add t)
  | fresh (g : GState) : TStep P Q g g.fresh.1
  | pushType (g : GState) (x : Term × Node) : Q x → TStep P Q g { g with typeNodes := g.typeNodes ++ [x] }
  | pushSup (g : GState) (t : Ty) : TStep P Q g { g with supertyped := g.supertyped ++ [t] }

/-- primitive changes made by `addExpr` (and `addWorkflow`) -/
inductive GStep (c : GCfg) (P : Triple → Prop) (Q : Term × Node → Prop) : GState → GState → Prop
  | refl (g : GState) : GStep c P Q g g
  | trans {g1 g2 g3 : GState} : GStep c P Q g1 g2 → GStep c P Q g2 g3 → GStep c P Q g1 g3
  | ty {g1 g2 : GState} : TStep P Q g1 g2 → GStep c P Q g1 g2
  | addFrom (g : GState) (a b : Nat) (r : Bool) : GStep c P Q g (gAddFrom c g a b r)
  | pushSrc (g : GState) (x : Nat × Nat) : GStep c P Q g { g with srcNodes := g.srcNodes ++ [x] }
  | pushShared (g : GState) (x : Nat × Nat) : GStep c P Q g { g with sharedNodes := g.sharedNodes ++ [x] }
  | pushInternal (g : GState) (x : Nat × Nat) : GStep c P Q g { g with internals := g.internals ++ [x] }

theorem TStep.mono {P P' : Triple → Prop} {Q Q' : Term × Node → Prop} (hPQ : ∀ t, P t → P' t)
    (hQ : ∀ x, Q x → Q' x) {g g' : GState} (h : TStep P Q g g') : TStep P' Q' g g' := by
  induction h with
  | refl g => exact .refl g
  | trans _ _ ih1 ih2 => exact .trans ih1 ih2
  | add g t hp => exact .add g t (hPQ t hp)
  | fresh g => exact .fresh g
  | pushType g x hq => exact .pushType g x (hQ x hq)
  | pushSup g t => exact .pushSup g t

theorem GStep.mono {c : GCfg} {P P' : Triple → Prop} {Q Q' : Term × Node → Prop} (hPQ : ∀ t, P t → P' t)
    (hQ : ∀ x, Q x → Q' x) {g g' : GState} (h : GStep c P Q g g') : GStep c P' Q' g g' := by
  induction h with
  | refl g => exact .refl g
  | trans _ _ ih1 ih2 => exact .trans ih1 ih2
  | ty h => exact .ty (h.mono hPQ hQ)
  | addFrom g a b r => exact .addFrom g a b r
  | pushSrc g x => exact .pushSrc g x
  | pushShared g x => exact .pushShared g x
  | pushInternal g x => exact .pushInternal g x

theorem GStep.add {c : GCfg} {P : Triple → Prop} {Q : Term × Node → Prop} (g : GState) (t : Triple) (h : P t) :
    GStep c P Q g (g.add t) := .ty (.add g t h)

theorem GStep.fresh {c : GCfg} {P : Triple → Prop} {Q : Term × Node → Prop} (g : GState) : GStep c P Q g g.fresh.1 :=
  .ty (.fresh g)

theorem TStep.iteAdd {P : Triple → Prop} {Q : Term × Node → Prop} (b : Bool) (g : GState) (t : Triple)
    (h : P t) : TStep P Q g (if b = true then g.add t else g) := by
  split
  · exact .add g t h
  · exact .refl g

/-! ## `GState.add` -/

theorem mem_add {g : GState} {t u : Triple} : u ∈ (g.add t).triples ↔ (u ∈ g.triples ∨ u = t) := by
  unfold GState.add
  split
  · rename_i h
    constructor
    · exact fun h' => .inl h'
    · rintro (h' | rfl)
      · exact h'
      · exact List.contains_iff_mem.mp h
  · simp only [List.mem_append, List.mem_singleton]

theorem add_typeNodes (g : GState) (t : Triple) : (g.add t).typeNodes = g.typeNodes := by
  unfold GState.add; split <;> rfl
theorem add_fd (g : GState) (t : Triple) : (g.add t).fd = g.fd := by
  unfold GState.add; split <;> rfl
theorem add_nextB (g : GState) (t : Triple) : (g.add t).nextB = g.nextB := by
  unfold GState.add; split <;> rfl
theorem add_srcNodes (g : GState) (t : Triple) : (g.add t).srcNodes = g.srcNodes := by
  unfold GState.add; split <;> rfl
theorem add_sharedNodes (g : GState) (t : Triple) : (g.add t).sharedNodes = g.sharedNodes := by
  unfold GState.add; split <;> rfl
theorem add_internals (g : GState) (t : Triple) : (g.add t).internals = g.internals := by
  unfold GState.add; split <;> rfl
theorem add_supertyped (g : GState) (t : Triple) : (g.add t).supertyped = g.supertyped := by
  unfold GState.add; split <;> rfl

/-! ## what a type step preserves -/

theorem TStep.fd_eq {P : Triple → Prop} {Q : Term × Node → Prop} {g g' : GState} (h : TStep P Q g g') : g'.fd = g.fd := by
  induction h with
  | refl g => rfl
  | trans _ _ ih1 ih2 => rw [ih2, ih1]
  | add g t _ => exact add_fd g t
  | fresh g => rfl
  | pushType g x _ => rfl
  | pushSup g t => rfl

theorem TStep.srcNodes_eq {P : Triple → Prop} {Q : Term × Node → Prop} {g g' : GState} (h : TStep P Q g g') :
    g'.srcNodes = g.srcNodes := by
  induction h with
  | refl g => rfl
  | trans _ _ ih1 ih2 => rw [ih2, ih1]
  | add g t _ => exact add_srcNodes g t
  | fresh g => rfl
  | pushType g x _ => rfl
  | pushSup g t => rfl

theorem TStep.sharedNodes_eq {P : Triple → Prop} {Q : Term × Node → Prop} {g g' : GState} (h : TStep P Q g g') :
    g'.sharedNodes = g.sharedNodes := by
  induction h with
  | refl g => rfl
  | trans _ _ ih1 ih2 => rw [ih2, ih1]
  | add g t _ => exact add_sharedNodes g t
  | fresh g => rfl
  | pushType g x _ => rfl
  | pushSup g t => rfl

theorem TStep.internals_eq {P : Triple → Prop} {Q : Term × Node → Prop} {g g' : GState} (h : TStep P Q g g') :
    g'.internals = g.internals := by
  induction h with
  | refl g => rfl
  | trans _ _ ih1 ih2 => rw [ih2, ih1]
  | add g t _ => exact add_internals g t
  | fresh g => rfl
  | pushType g x _ => rfl
  | pushSup g t => rfl

theorem TStep.triples_mono {P : Triple → Prop} {Q : Term × Node → Prop} {g g' : GState} (h : TStep P Q g g') :
    ∀ t, t ∈ g.triples → t ∈ g'.triples := by
  induction h with
  | refl g => exact fun _ h => h
  | trans _ _ ih1 ih2 => exact fun t h => ih2 t (ih1 t h)
  | add g t _ => exact fun u h => mem_add.2 (.inl h)
  | fresh g => exact fun _ h => h
  | pushType g x _ => exact fun _ h => h
  | pushSup g t => exact fun _ h => h

/-- every triple a step adds satisfies the step's predicate -/
theorem TStep.new_triples {P : Triple → Prop} {Q : Term × Node → Prop} {g g' : GState} (h : TStep P Q g g') :
    ∀ t, t ∈ g'.triples → t ∈ g.triples ∨ P t := by
  induction h with
  | refl g => exact fun _ h => .inl h
  | trans _ _ ih1 ih2 =>
    intro t h
    rcases ih2 t h with h | h
    · exact ih1 t h
    · exact .inr h
  | add g t hp =>
    intro u h
    rcases mem_add.1 h with h | rfl
    · exact .inl h
    · exact .inr hp
  | fresh g => exact fun _ h => .inl h
  | pushType g x _ => exact fun _ h => .inl h
  | pushSup g t => exact fun _ h => .inl h

theorem TStep.typeNodes_ext {P : Triple → Prop} {Q : Term × Node → Prop} {g g' : GState} (h : TStep P Q g g') :
    ∃ l, g'.typeNodes = g.typeNodes ++ l ∧ ∀ x ∈ l, Q x := by
  induction h with
  | refl g => exact ⟨[], by simp⟩
  | trans _ _ ih1 ih2 =>
    obtain ⟨l1, h1, q1⟩ := ih1
    obtain ⟨l2, h2, q2⟩ := ih2
    refine ⟨l1 ++ l2, by rw [h2, h1, List.append_assoc], ?_⟩
    intro x hx
    rcases List.mem_append.1 hx with hx | hx
    · exact q1 x hx
    · exact q2 x hx
  | add g t _ => exact ⟨[], by simp [add_typeNodes]⟩
  | fresh g => exact ⟨[], by simp [GState.fresh]⟩
  | pushType g x hq => exact ⟨[x], rfl, by simpa using hq⟩
  | pushSup g t => exact ⟨[], by simp⟩

theorem TStep.nextB_mono {P : Triple → Prop} {Q : Term × Node → Prop} {g g' : GState} (h : TStep P Q g g') : g.nextB ≤ g'.nextB := by
  induction h with
  | refl g => exact Nat.le_refl _
  | trans _ _ ih1 ih2 => exact Nat.le_trans ih1 ih2
  | add g t _ => rw [add_nextB]; exact Nat.le_refl _
  | fresh g => exact Nat.le_succ _
  | pushType g x _ => exact Nat.le_refl _
  | pushSup g t => exact Nat.le_refl _

/-! ## what an expression step preserves -/

theorem GStep.triples_mono {c : GCfg} {P : Triple → Prop} {Q : Term × Node → Prop} {g g' : GState} (h : GStep c P Q g g') :
    ∀ t, t ∈ g.triples → t ∈ g'.triples := by
  induction h with
  | refl g => exact fun _ h => h
  | trans _ _ ih1 ih2 => exact fun t h => ih2 t (ih1 t h)
  | ty h => exact h.triples_mono
  | addFrom g a b r => intro t h; unfold gAddFrom; split <;> exact h
  | pushSrc g x => exact fun _ h => h
  | pushShared g x => exact fun _ h => h
  | pushInternal g x => exact fun _ h => h

theorem GStep.new_triples {c : GCfg} {P : Triple → Prop} {Q : Term × Node → Prop} {g g' : GState} (h : GStep c P Q g g') :
    ∀ t, t ∈ g'.triples → t ∈ g.triples ∨ P t := by
  induction h with
  | refl g => exact fun _ h => .inl h
  | trans _ _ ih1 ih2 =>
    intro t h
    rcases ih2 t h with h | h
    · exact ih1 t h
    · exact .inr h
  | ty h => exact h.new_triples
  | addFrom g a b r => intro t h; unfold gAddFrom at h; split at h <;> exact .inl h
  | pushSrc g x => exact fun _ h => .inl h
  | pushShared g x => exact fun _ h => .inl h
  | pushInternal g x => exact fun _ h => .inl h

theorem GStep.typeNodes_ext {c : GCfg} {P : Triple → Prop} {Q : Term × Node → Prop} {g g' : GState}
    (h : GStep c P Q g g') : ∃ l, g'.typeNodes = g.typeNodes ++ l ∧ ∀ x ∈ l, Q x := by
  induction h with
  | refl g => exact ⟨[], by simp⟩
  | trans _ _ ih1 ih2 =>
    obtain ⟨l1, h1, q1⟩ := ih1
    obtain ⟨l2, h2, q2⟩ := ih2
    refine ⟨l1 ++ l2, by rw [h2, h1, List.append_assoc], ?_⟩
    intro x hx
    rcases List.mem_append.1 hx with hx | hx
    · exact q1 x hx
    · exact q2 x hx
  | ty h => exact h.typeNodes_ext
  | addFrom g a b r => exact ⟨[], by unfold gAddFrom; split <;> simp⟩
  | pushSrc g x => exact ⟨[], by simp⟩
  | pushShared g x => exact ⟨[], by simp⟩
  | pushInternal g x => exact ⟨[], by simp⟩

theorem GStep.nextB_mono {c : GCfg} {P : Triple → Prop} {Q : Term × Node → Prop} {g g' : GState} (h : GStep c P Q g g') :
    g.nextB ≤ g'.nextB := by
  induction h with
  | refl g => exact Nat.le_refl _
  | trans _ _ ih1 ih2 => exact Nat.le_trans ih1 ih2
  | ty h => exact h.nextB_mono
  | addFrom g a b r => unfold gAddFrom; split <;> exact Nat.le_refl _
  | pushSrc g x => exact Nat.le_refl _
  | pushShared g x => exact Nat.le_refl _
  | pushInternal g x => exact Nat.le_refl _

/-- any property of `fd` that every `addFrom` keeps is kept by every step (dependencies switched on) -/
theorem GStep.fd_inv {c : GCfg} {P : Triple → Prop} {Q : Term × Node → Prop} (hc : c.withDependencies = true) (I : FD → Prop)
    (hI : ∀ fd a b r, I fd → I (Tfv.addFrom fd a b r)) {g g' : GState} (h : GStep c P Q g g') :
    I g.fd → I g'.fd := by
  induction h with
  | refl g => exact fun h => h
  | trans _ _ ih1 ih2 => exact fun h => ih2 (ih1 h)
  | ty h => rw [h.fd_eq]; exact fun h => h
  | addFrom g a b r =>
    intro h
    unfold gAddFrom
    rw [if_pos hc]
    exact hI _ _ _ _ h
  | pushSrc g x => exact fun h => h
  | pushShared g x => exact fun h => h
  | pushInternal g x => exact fun h => h

/-! ## folds -/

theorem foldlM_rel {α ε : Type} {R : GState → GState → Prop} (hrefl : ∀ g, R g g)
    (htrans : ∀ g1 g2 g3, R g1 g2 → R g2 g3 → R g1 g3) (f : GState → α → Except ε GState)
    (l : List α) (hf : ∀ g s g', s ∈ l → f g s = .ok g' → R g g') :
    ∀ g g', l.foldlM f g = .ok g' → R g g' := by
  induction l with
  | nil =>
    intro g g' h
    simp only [List.foldlM_nil, pure, Except.pure, Except.ok.injEq] at h
    subst h; exact hrefl g
  | cons s l ih =>
    intro g g' h
    simp only [List.foldlM_cons] at h
    cases hx : f g s with
    | error e => rw [hx] at h; cases h
    | ok g1 =>
      rw [hx] at h
      exact htrans _ _ _ (hf g s g1 (List.mem_cons_self) hx)
        (ih (fun g s g' hs => hf g s g' (List.mem_cons_of_mem _ hs)) g1 g' h)

theorem foldl_rel {α : Type} {R : GState → GState → Prop} (hrefl : ∀ g, R g g)
    (htrans : ∀ g1 g2 g3, R g1 g2 → R g2 g3 → R g1 g3) (f : GState → α → GState)
    (l : List α) (hf : ∀ g s, s ∈ l → R g (f g s)) :
    ∀ g, R g (l.foldl f g) := by
  induction l with
  | nil => intro g; exact hrefl g
  | cons s l ih =>
    intro g
    simp only [List.foldl_cons]
    exact htrans _ _ _ (hf g s List.mem_cons_self) (ih (fun g s hs => hf g s (List.mem_cons_of_mem _ hs)) _)

end Tfv
