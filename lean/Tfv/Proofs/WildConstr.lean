import Tfv.Proofs.InferConstrFulfilled
/-!
# Subtype constraints marked fulfilled, in stores WITH wildcards (C03, open question)

* `match3_var_var`, `match3_wild_pair_iff`: the exact behaviour of `match3` on two (followed) variables.
* `dewild σ`: the store with every wildcard flag cleared. Solutions, well-formedness and `follow` do not look
  at the flag; `match3 L (dewild σ)` is the *strict* matcher (two distinct wildcards do not match).
* `match3_dewild_sound`: the strict answer `some true` is sound on ANY store (wildcards or not).
* `subsStrictB`: executable certificate "every subtype constraint marked fulfilled passes the strict matcher";
  `subsStrictB_sound`: it implies `SubsHold`.
-/
namespace Tfv.C03C
open Tfv Tfv.C03P Tfv.C16P

/-- every wildcard flag cleared -/
def dewild (σ : Store) : Store := { σ with vars := σ.vars.map (fun i => { i with wildcard := false }) }

theorem getVar_dewild (σ : Store) (v : Nat) :
    getVar (dewild σ) v = { getVar σ v with wildcard := false } := by
  unfold getVar dewild
  simp only [List.getD_eq_getElem?_getD, List.getElem?_map]
  cases σ.vars[v]? <;> rfl

theorem length_dewild (σ : Store) : (dewild σ).vars.length = σ.vars.length := by
  unfold dewild; simp

theorem constrs_dewild (σ : Store) : (dewild σ).constrs = σ.constrs := rfl

theorem noWild_dewild (σ : Store) : NoWild (dewild σ) := by
  intro v; rw [getVar_dewild]

theorem follow_dewild (σ : Store) : ∀ (n : Nat) (t : Term), follow (dewild σ) n t = follow σ n t
  | 0, t => by unfold follow; rfl
  | n+1, .var v => by
    unfold follow
    rw [getVar_dewild]
    simp only []
    cases (getVar σ v).bound with
    | none => rfl
    | some t => exact follow_dewild σ n t
  | n+1, .app o args => by unfold follow; rfl

theorem followT_dewild (σ : Store) (t : Term) : followT (dewild σ) t = followT σ t := by
  unfold followT; rw [length_dewild, follow_dewild]

mutual
theorem okTerm_dewild (L : Lang) (σ : Store) : ∀ t, okTerm L (dewild σ) t = okTerm L σ t
  | .var v => by unfold okTerm; rw [length_dewild]
  | .app o args => by unfold okTerm; rw [okTermL_dewild L σ args]
theorem okTermL_dewild (L : Lang) (σ : Store) : ∀ ts, okTermL L (dewild σ) ts = okTermL L σ ts
  | [] => by unfold okTermL; rfl
  | t :: ts => by unfold okTermL; rw [okTerm_dewild L σ t, okTermL_dewild L σ ts]
end

theorem okStore_dewild {L : Lang} {σ : Store} (ok : OkStore L σ) : OkStore L (dewild σ) where
  bound := fun v t h => by
    rw [getVar_dewild] at h; rw [okTerm_dewild]; exact ok.bound v t h
  lower := fun v => by rw [getVar_dewild]; exact ok.lower v
  upper := fun v => by rw [getVar_dewild]; exact ok.upper v
  ordered := fun v l u h1 h2 => by
    rw [getVar_dewild] at h1 h2; exact ok.ordered v l u h1 h2
  basic := fun v o args h1 h2 => by
    rw [getVar_dewild] at h1 h2; exact ok.basic v o args h1 h2

theorem sat_dewild {L : Lang} {ρ : Val} {σ : Store} (h : Sat L ρ σ) : Sat L ρ (dewild σ) where
  wf := h.wf
  bound := fun v t hb => by rw [getVar_dewild] at hb; exact h.bound v t hb
  lower := fun v l hb hl => by rw [getVar_dewild] at hb hl; exact h.lower v l hb hl
  upper := fun v u hb hu => by rw [getVar_dewild] at hb hu; exact h.upper v u hb hu

/-- the strict matcher is sound on every store: if `match3` answers `some true` once all wildcard flags are cleared,
the subtype relation holds under every solution of the (uncleared) store -/
theorem match3_dewild_sound {L : Lang} (wf : WF L) {σ : Store} (ok : OkStore L σ) (n : Nat) (a b : Term)
    (ha : okTerm L σ a = true) (hb : okTerm L σ b = true)
    (h : match3 L (dewild σ) n true false a b = some true) :
    ∀ ρ, Sat L ρ σ → Sub L (den ρ a) (den ρ b) := fun ρ hρ =>
  match3_true_sound wf (okStore_dewild ok) (noWild_dewild σ) n a b
    (by rw [okTerm_dewild]; exact ha) (by rw [okTerm_dewild]; exact hb) h ρ (sat_dewild hρ)

/-- executable certificate: every subtype constraint marked fulfilled passes the strict matcher -/
def subsStrictB (L : Lang) (σ : Store) : Bool :=
  (List.range σ.constrs.length).all (fun c => match getConstr σ c with
    | .sub r t _ true => match3 L (dewild σ) (matchFuel σ) true false r t == some true
    | _ => true)

theorem subsStrictB_sound {L : Lang} (wf : WF L) {σ : Store} (okc : OkStoreC L σ)
    (h : subsStrictB L σ = true) : SubsHold L σ := by
  intro c r t s hc hg ρ hρ
  have hx := okc.cget hc
  rw [hg] at hx
  have hr : okTerm L σ r = true := by
    unfold constrTerms at hx; unfold okTermL at hx
    simp only [Bool.and_eq_true] at hx; exact hx.1
  have ht : okTerm L σ t = true := by
    unfold constrTerms at hx; unfold okTermL at hx; unfold okTermL at hx
    simp only [Bool.and_eq_true] at hx; exact hx.2.1
  have := List.all_eq_true.mp h c (List.mem_range.mpr hc)
  rw [hg] at this
  simp only [beq_iff_eq] at this
  exact match3_dewild_sound wf okc.ok (matchFuel σ) r t hr ht this ρ hρ

end Tfv.C03C
