import Tfv.Proofs.EngineTermMonoMain
/-!
# Variable-free types: `unify` is a structural recursion, in every store

When neither type contains a variable `unify` never reads or writes the store: the recursion follows the two terms, and
the fuel `tsize a + tsize b` suffices whatever the store, its constraints and the flags are.
-/
namespace Tfv.C17T
open Tfv

mutual
/-- no variable occurs in the term -/
def ground : Term → Bool
  | .var _ => false
  | .app _ args => groundL args
def groundL : List Term → Bool
  | [] => true
  | t :: ts => ground t && groundL ts
end

mutual
/-- number of nodes -/
def tsize : Term → Nat
  | .var _ => 1
  | .app _ args => 1 + tsizeL args
def tsizeL : List Term → Nat
  | [] => 0
  | t :: ts => tsize t + tsizeL ts
end

theorem tsize_pos : ∀ t, 1 ≤ tsize t
  | .var _ => by rw [tsize]; omega
  | .app _ _ => by rw [tsize]; omega

theorem followT_app'' (σ : Store) (o : Nat) (args : List Term) : followT σ (.app o args) = .app o args := by
  unfold followT follow
  rfl

/-- the two statements proved together by induction on the fuel -/
def GroundAt (L : Lang) (n : Nat) : Prop :=
  (∀ σ a b st sb sw, ground a = true → ground b = true → tsize a + tsize b ≤ n →
      unify L n σ a b st sb sw ≠ .error .outOfFuel) ∧
  (∀ σ vs xs ys st sb sw, groundL xs = true → groundL ys = true → tsizeL xs + tsizeL ys + 1 ≤ n →
      unifyList L n σ vs xs ys st sb sw ≠ .error .outOfFuel)

theorem unifyList_nil_ne (L : Lang) (n : Nat) (σ : Store) (vs : List Bool) (xs ys : List Term) (st sb sw : Bool)
    (h : vs = [] ∨ xs = [] ∨ ys = []) : unifyList L (n+1) σ vs xs ys st sb sw = .ok σ := by
  rcases h with h | h | h
  · subst h; rw [unifyList]; intros; contradiction
  · subst h; rw [unifyList]; intros; contradiction
  · subst h; rw [unifyList]; intros; contradiction

theorem groundAt (L : Lang) : ∀ n, GroundAt L n
  | 0 => by
    constructor
    · intro σ a b st sb sw _ _ hs
      have := tsize_pos a
      omega
    · intro σ vs xs ys st sb sw _ _ hs
      omega
  | n+1 => by
    obtain ⟨ihU, ihL⟩ := groundAt L n
    constructor
    · intro σ a b st sb sw ha hb hs
      cases a with
      | var _ => rw [ground] at ha; cases ha
      | app ao as =>
        cases b with
        | var _ => rw [ground] at hb; cases hb
        | app bo bs =>
          rw [ground] at ha hb
          rw [tsize, tsize] at hs
          rw [unify, followT_app'', followT_app'']
          simp only []
          repeat' split
          all_goals first
            | (intro h; cases h; done)
            | exact ihL σ _ as bs st sb sw ha hb (by omega)
    · intro σ vs xs ys st sb sw hx hy hs
      cases vs with
      | nil => rw [unifyList_nil_ne L n σ _ _ _ _ _ _ (Or.inl rfl)]; intro h; cases h
      | cons v vs =>
        cases xs with
        | nil => rw [unifyList_nil_ne L n σ _ _ _ _ _ _ (Or.inr (Or.inl rfl))]; intro h; cases h
        | cons x xs =>
          cases ys with
          | nil => rw [unifyList_nil_ne L n σ _ _ _ _ _ _ (Or.inr (Or.inr rfl))]; intro h; cases h
          | cons y ys =>
            rw [groundL, Bool.and_eq_true] at hx hy
            rw [tsizeL, tsizeL] at hs
            have px := tsize_pos x
            have py := tsize_pos y
            rw [unifyList]
            have key : ∀ r : R, r ≠ .error .outOfFuel →
                (match r with
                 | .error e => (.error e : R)
                 | .ok σ1 => unifyList L n σ1 vs xs ys st sb sw) ≠ .error .outOfFuel := by
              intro r hr
              cases r with
              | error e => exact hr
              | ok σ1 => exact ihL σ1 vs xs ys st sb sw hx.2 hy.2 (by omega)
            cases v with
            | true => exact key _ (ihU σ x y st sb sw hx.1 hy.1 (by omega))
            | false => exact key _ (ihU σ y x st sb sw hy.1 hx.1 (by omega))

/-- variable-free types: the fuel `tsize a + tsize b` suffices, in every store and with every flag -/
theorem unify_ground_ne_oof (L : Lang) (σ : Store) (a b : Term) (st sb sw : Bool) (ha : ground a = true)
    (hb : ground b = true) {fuel : Nat} (hf : tsize a + tsize b ≤ fuel) :
    unify L fuel σ a b st sb sw ≠ .error .outOfFuel :=
  (groundAt L fuel).1 σ a b st sb sw ha hb hf

/-- `fix` on variable-free types, proved together with its loop -/
def GroundFixAt (L : Lang) (n : Nat) : Prop :=
  (∀ σ t pl, ground t = true → 2 * tsize t ≤ n → fix L n σ t pl ≠ .error .outOfFuel) ∧
  (∀ σ vs ps pl, groundL ps = true → 2 * tsizeL ps + 1 ≤ n → fixList L n σ vs ps pl ≠ .error .outOfFuel)

theorem fixList_nil_ne (L : Lang) (n : Nat) (σ : Store) (vs : List Bool) (ps : List Term) (pl : Bool)
    (h : vs = [] ∨ ps = []) : fixList L (n+1) σ vs ps pl = .ok σ := by
  rcases h with h | h
  · subst h; rw [fixList]; intros; contradiction
  · subst h; rw [fixList]; intros; contradiction

theorem groundFixAt (L : Lang) : ∀ n, GroundFixAt L n
  | 0 => by
    constructor
    · intro σ t pl _ hs
      have := tsize_pos t
      omega
    · intro σ vs ps pl _ hs
      omega
  | n+1 => by
    obtain ⟨ihF, ihL⟩ := groundFixAt L n
    constructor
    · intro σ t pl ht hs
      cases t with
      | var _ => rw [ground] at ht; cases ht
      | app o args =>
        rw [ground] at ht
        rw [tsize] at hs
        rw [fix, followT_app'']
        simp only []
        have h1 := ihL σ (varianceOf L o) args pl ht (by omega)
        cases hr : fixList L n σ (varianceOf L o) args pl with
        | error e => rw [hr] at h1; intro h; apply h1; cases h; rfl
        | ok σ1 => intro h; cases h
    · intro σ vs ps pl hp hs
      cases vs with
      | nil => rw [fixList_nil_ne L n σ _ _ _ (Or.inl rfl)]; intro h; cases h
      | cons v vs =>
        cases ps with
        | nil => rw [fixList_nil_ne L n σ _ _ _ (Or.inr rfl)]; intro h; cases h
        | cons p ps =>
          rw [groundL, Bool.and_eq_true] at hp
          rw [tsizeL] at hs
          have pp := tsize_pos p
          rw [fixList]
          have h1 := ihF σ p (if v then pl else !pl) hp.1 (by omega)
          cases hr : fix L n σ p (if v = true then pl else !pl) with
          | error e => rw [hr] at h1; intro h; apply h1; cases h; rfl
          | ok q => exact ihL q.1 vs ps pl hp.2 (by omega)

theorem fix_ground_ne_oof (L : Lang) (σ : Store) (t : Term) (pl : Bool) (ht : ground t = true) {fuel : Nat}
    (hf : 2 * tsize t ≤ fuel) : fix L fuel σ t pl ≠ .error .outOfFuel :=
  (groundFixAt L fuel).1 σ t pl ht hf

theorem ite_ne_oof {α : Type} {c : Prop} [Decidable c] {a b : Except Err α} (ha : a ≠ .error .outOfFuel)
    (hb : b ≠ .error .outOfFuel) : (if c then a else b) ≠ .error .outOfFuel := by
  split
  · exact ha
  · exact hb

/-- applying a variable-free function type to a variable-free argument ends, in every store -/
theorem applyT_ground_ne_oof (L : Lang) (σ : Store) (o : Nat) (l r x : Term) (fixFlag : Bool)
    (hl : ground l = true) (hr : ground r = true) (hx : ground x = true) {fuel : Nat}
    (hf1 : tsize x + tsize l ≤ fuel) (hf2 : 2 * tsize r ≤ fuel) :
    applyT L fuel σ (.app o [l, r]) x fixFlag ≠ .error .outOfFuel := by
  cases x with
  | var _ => rw [ground] at hx; cases hx
  | app xo xs =>
    rw [applyT_eq, followT_app'']
    have hp : applyPre L fuel σ (.app o [l, r]) = .ok (σ, .app o [l, r]) := by
      unfold applyPre
      rw [followT_app'']
    rw [hp]
    show applyTail L fuel (.app xo xs) fixFlag (σ, .app o [l, r]) ≠ _
    unfold applyTail
    simp only []
    by_cases ho : (o == FUN) = true
    · rw [if_pos ho]
      have h1 := unify_ground_ne_oof L σ (.app xo xs) l true false false hx hl hf1
      cases hu : unify L fuel σ (.app xo xs) l true false false with
      | error e => rw [hu] at h1; intro h; apply h1; cases h; rfl
      | ok σ1 =>
        simp only []
        exact ite_ne_oof (fix_ground_ne_oof L σ1 r true hr hf2) (by intro h; cases h)
    · rw [if_neg ho]
      split <;> (intro h; cases h)

end Tfv.C17T
