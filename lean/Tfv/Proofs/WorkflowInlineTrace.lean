import Tfv.Proofs.WorkflowInline
/-!
# A successful `wfNode` call is a sequence of `addExpr` calls, one per newly visited resource

Each call adds the (inlined, tagged) expression of one resource to a graph in which every tagged expression inside it
already has its node: the inputs of a tool are visited before the tool.
-/
namespace Tfv

section
variable (G : GLang) (c : GCfg) (w : Wf) (T : List (Nat × TExpr)) (fuel : Nat)

/-- one resource is added: its expression has no node in `ga`, every tag inside it (other than its own) has one; the
model's call on the table's entry and the call on the inlined expression give the same graph `gb` and node `k` -/
structure ResStep (ga : GState) (r k : Nat) (gb : GState) : Prop where
  entry : ∃ e, alook T r = some e ∧ nodeOf ga e = none ∧
    (∀ e0, e = TExpr.shared r e0 → ∀ j ∈ e0.sharedKeys, ∃ m, alook ga.sharedNodes j = some m) ∧
    addExpr G c wfRoot (some (.res (w.resName r))) ga e none false = .ok (gb, k) ∧
    addExpr G c wfRoot (some (.res (w.resName r))) ga (inlineE T fuel e) none false = .ok (gb, k) ∧
    nodeOf gb e = some k
  own : ∀ r' e0, alook T r = some (TExpr.shared r' e0) → r' = r

/-- `WfTrace g l g'`: `g'` is obtained from `g` by adding the resources listed in `l` (with the nodes they get), in
that order, one `addExpr` call each -/
inductive WfTrace : GState → List (Nat × Nat) → GState → Prop
  | nil (g : GState) : WfTrace g [] g
  | snoc {g ga gb : GState} {l : List (Nat × Nat)} {r k : Nat} :
      WfTrace g l ga → ResStep G c w T fuel ga r k gb → WfTrace g (l ++ [(r, k)]) gb

variable {G c w T fuel}

theorem WfTrace.trans {g g1 g2 : GState} {l1 l2 : List (Nat × Nat)} (h1 : WfTrace G c w T fuel g l1 g1)
    (h2 : WfTrace G c w T fuel g1 l2 g2) : WfTrace G c w T fuel g (l1 ++ l2) g2 := by
  induction h2 with
  | nil => rw [List.append_nil]; exact h1
  | snoc _ hs ih => rw [← List.append_assoc]; exact .snoc ih hs

theorem WfTrace.single {ga gb : GState} {r k : Nat} (h : ResStep G c w T fuel ga r k gb) :
    WfTrace G c w T fuel ga [(r, k)] gb := by
  have := WfTrace.snoc (WfTrace.nil ga) h
  rwa [List.nil_append] at this

/-- the graph only grows along a trace -/
theorem WfTrace.gstep {g g' : GState} {l : List (Nat × Nat)} (h : WfTrace G c w T fuel g l g') :
    GStep c NotFD AnyQ g g' := by
  induction h with
  | nil => exact .refl _
  | snoc _ hs ih =>
    obtain ⟨e, _, _, _, hx, _, _⟩ := hs.entry
    exact .trans ih (addExpr_step G c wfRoot _ e _ none false _ _ hx)

/-- every resource listed in a trace has, at the end, the node listed with it -/
theorem WfTrace.nodes {g g' : GState} {l : List (Nat × Nat)} (h : WfTrace G c w T fuel g l g') :
    ∀ p ∈ l, ∃ e, alook T p.1 = some e ∧ nodeOf g' e = some p.2 := by
  induction h with
  | nil => intro p hp; cases hp
  | @snoc ga gb l r k _ hs ih =>
    intro p hp
    obtain ⟨e, he, _, _, hx, _, hk⟩ := hs.entry
    rcases List.mem_append.1 hp with hp | hp
    · obtain ⟨e', he', hk'⟩ := ih p hp
      exact ⟨e', he', (addExpr_step G c wfRoot _ e _ none false _ _ hx).nodeOf_stable hk'⟩
    · simp only [List.mem_singleton] at hp
      subst hp
      exact ⟨e, he, hk⟩

/-- no resource listed in a trace had a node at the beginning -/
theorem WfTrace.fresh {g g' : GState} {l : List (Nat × Nat)} (h : WfTrace G c w T fuel g l g') :
    ∀ p ∈ l, ∃ e, alook T p.1 = some e ∧ nodeOf g e = none := by
  induction h with
  | nil => intro p hp; cases hp
  | @snoc ga gb l r k ht hs ih =>
    intro p hp
    rcases List.mem_append.1 hp with hp | hp
    · exact ih p hp
    · simp only [List.mem_singleton] at hp
      subst hp
      obtain ⟨e, he, hn, _⟩ := hs.entry
      refine ⟨e, he, ?_⟩
      cases hk : nodeOf g e with
      | none => rfl
      | some m => rw [ht.gstep.nodeOf_stable hk] at hn; cases hn

/-- a tag that got its node along a trace is listed in the trace with that node -/
theorem WfTrace.shared_mem {g g' : GState} {l : List (Nat × Nat)} (h : WfTrace G c w T fuel g l g') :
    ∀ j m, alook g'.sharedNodes j = some m → alook g.sharedNodes j = some m ∨ (j, m) ∈ l := by
  induction h with
  | nil => intro j m hm; exact .inl hm
  | @snoc ga gb l r k _ hs ih =>
    intro j m hm
    obtain ⟨e, he, hn, hnest, hx, _, hk⟩ := hs.entry
    have sx := addExpr_step G c wfRoot _ e _ none false _ _ hx
    cases hja : alook ga.sharedNodes j with
    | some m' =>
      obtain ⟨lx, hlx⟩ := sx.sharedNodes_ext
      have : alook gb.sharedNodes j = some m' := by rw [hlx]; exact alook_append_some hja
      rw [this] at hm
      cases hm
      rcases ih j _ hja with h | h
      · exact .inl h
      · exact .inr (List.mem_append_left _ h)
    | none =>
      have hnew := addExpr_sharedKeys G c wfRoot _ e ga none false gb k hx j (alook_some_key hm)
      rcases hnew with h | h
      · exact absurd h (alook_none_iff.1 hja)
      · cases e with
        | src id ll t => cases h
        | op nm t => cases h
        | app f x t =>
          exfalso
          have : nodeOf gb (TExpr.app f x t) = none := rfl
          rw [this] at hk; cases hk
        | shared r' e0 =>
          have hr' : r' = r := hs.own r' e0 he
          subst hr'
          have hk' : alook gb.sharedNodes r' = some k := hk
          rcases List.mem_cons.1 h with h | h
          · subst h
            rw [hk'] at hm
            cases hm
            exact .inr (List.mem_append_right _ (List.mem_singleton.2 rfl))
          · obtain ⟨m', hm'⟩ := hnest e0 rfl j h
            rw [hja] at hm'; cases hm'

end

section
variable (G : GLang) (c : GCfg) (w : Wf) (tgt : Nat) (T : List (Nat × TExpr))

theorem nodeOf_registers (hT : RunTable w tgt T) {r : Nat} {e : TExpr} (he : alook T r = some e) {origin : Option Node}
    {g g' : GState} {k : Nat} (hx : addExpr G c wfRoot origin g e none false = .ok (g', k)) : nodeOf g' e = some k := by
  rcases hT.entry_shape he with hsrc | ⟨e0, rfl⟩
  · obtain ⟨id, l, t, rfl⟩ := hsrc
    exact addExpr_src_registers G c wfRoot _ g id l t none false g' k hx
  · exact addExpr_shared_registers G c wfRoot _ g r e0 none false g' k (hT.inv.noself r e0 (alook_some_mem he)) hx

/-- the fold over a tool's inputs, as a trace -/
theorem wfInputs_trace (hT : RunTable w tgt T) (fuel n : Nat)
    (ih : ∀ g r g' k, GInv w T g → wfNode G c w wfRoot T n g r = .ok (g', k) →
      ∃ l, WfTrace G c w T fuel g l g' ∧ (∀ p ∈ l, p.1 = r ∨ SReach w r p.1) ∧
        (∀ e, alook T r = some e → nodeOf g e = none → (r, k) ∈ l)) :
    ∀ (is : List Nat) (g g1 : GState), GInv w T g →
      is.foldlM (wfNodeInputsStep G c w wfRoot T n) g = .ok g1 →
      ∃ l, WfTrace G c w T fuel g l g1 ∧ ∀ p ∈ l, ∃ i ∈ is, p.1 = i ∨ SReach w i p.1 := by
  intro is
  induction is with
  | nil =>
    intro g g1 _ h
    rw [Wfl.foldlM_nil_ok] at h
    subst h
    exact ⟨[], .nil _, fun p hp => by cases hp⟩
  | cons i is ihl =>
    intro g g1 hg h
    rw [Wfl.foldlM_cons_ok] at h
    obtain ⟨gm, h1, h2⟩ := h
    unfold wfNodeInputsStep at h1
    split at h1
    · cases h1
    · rename_i gc kc hc
      simp only [Except.ok.injEq] at h1
      subst h1
      obtain ⟨l1, t1, r1, _⟩ := ih _ _ _ _ hg hc
      have hgc : GInv w T gc := (wfNode_visit G c w tgt T hT n _ _ _ _ hc).2.2 hg
      obtain ⟨l2, t2, r2⟩ := ihl gc g1 hgc h2
      refine ⟨l1 ++ l2, t1.trans t2, ?_⟩
      intro p hp
      rcases List.mem_append.1 hp with hp | hp
      · exact ⟨i, List.mem_cons_self, r1 p hp⟩
      · obtain ⟨j, hj, hr⟩ := r2 p hp
        exact ⟨j, List.mem_cons_of_mem _ hj, hr⟩

/-- **`wfNode` as a trace.** A successful call on resource `r` adds, one `addExpr` call each, resources that `r`
depends on (or `r` itself) and that had no node; afterwards `r` has the returned node. -/
theorem wfNode_trace (hT : RunTable w tgt T) (hc : TyCoh T) (fuel : Nat) :
    ∀ n g r g' k, GInv w T g → wfNode G c w wfRoot T n g r = .ok (g', k) →
      ∃ l, WfTrace G c w T fuel g l g' ∧ (∀ p ∈ l, p.1 = r ∨ SReach w r p.1) ∧
        (∀ e, alook T r = some e → nodeOf g e = none → (r, k) ∈ l) := by
  intro n
  induction n with
  | zero => intro g r g' k _ h; rw [wfNode_zero] at h; cases h
  | succ n ih =>
    intro g r g' k hg h
    obtain ⟨e, he, hcase⟩ := (wfNode_shape G c w tgt T hT hc fuel n g r g' k hg h).entry
    have hown : ∀ r' e0, alook T r = some (TExpr.shared r' e0) → r' = r := by
      intro r' e0 h'
      rcases hT.entry_shape h' with hs | ⟨e0', h0⟩
      · exact absurd rfl (IsSrc.not_shared hs r' e0)
      · cases h0; rfl
    rcases hcase with ⟨hhit, rfl⟩ | ⟨hnone, g1, hin, hnest, hx, hxi⟩
    · refine ⟨[], .nil _, (fun p hp => by cases hp), ?_⟩
      intro e' he' hn'
      rw [he] at he'
      cases he'
      rw [hhit] at hn'
      cases hn'
    · -- the inputs
      have hpre : ∃ l, WfTrace G c w T fuel g l g1 ∧ ∀ p ∈ l, SReach w r p.1 := by
        unfold wfNodeInputs at hin
        split at hin
        · cases hin; exact ⟨[], .nil _, fun p hp => by cases hp⟩
        · rename_i hns
          split at hin
          · cases hin; exact ⟨[], .nil _, fun p hp => by cases hp⟩
          · rename_i a ha
            obtain ⟨l, tl, rl⟩ := wfInputs_trace G c w tgt T hT fuel n ih a.inputs g g1 hg hin
            refine ⟨l, tl, fun p hp => ?_⟩
            obtain ⟨i, hi, hr⟩ := rl p hp
            have hedge : SEdge w r i := ⟨fun hm => hns (List.contains_iff_mem.2 hm), a, ha, hi⟩
            rcases hr with hr | hr
            · rw [hr]; exact .step hedge (.refl i)
            · exact .step hedge hr
      obtain ⟨l, tl, rl⟩ := hpre
      have hnone1 : nodeOf g1 e = none ∨ ∃ m, nodeOf g1 e = some m := by
        cases nodeOf g1 e with
        | none => exact .inl rfl
        | some m => exact .inr ⟨m, rfl⟩
      rcases hnone1 with hn1 | ⟨m, hm⟩
      · refine ⟨l ++ [(r, k)], .snoc tl ⟨⟨e, he, hn1, hnest, hx, hxi, nodeOf_registers G c w tgt T hT he hx⟩, hown⟩, ?_,
          fun _ _ _ => List.mem_append_right _ (List.mem_singleton.2 rfl)⟩
        intro p hp
        rcases List.mem_append.1 hp with hp | hp
        · exact .inr (rl p hp)
        · simp only [List.mem_singleton] at hp
          subst hp
          exact .inl rfl
      · -- the resource got its node while its inputs were visited (a cycle): the call is a hit and adds nothing
        have hg' : g' = g1 ∧ k = m := by
          rcases hT.entry_shape he with hsrc | ⟨e0, rfl⟩
          · obtain ⟨id, ll, t, rfl⟩ := hsrc
            rw [Wfl.addExpr_src] at hx
            have hm' : alook g1.srcNodes id = some m := hm
            unfold alook at hm'
            cases hf : g1.srcNodes.find? (fun p => p.1 == id) with
            | none => rw [hf] at hm'; cases hm'
            | some q =>
              rw [hf] at hx
              rw [hf] at hm'
              simp only [Option.map_some, Option.some.injEq] at hm'
              simp only [Except.ok.injEq, Prod.mk.injEq] at hx
              exact ⟨hx.1.symm, by rw [← hx.2, hm']⟩
          · rw [addExpr_shared_hit G c wfRoot _ g1 r e0 none false m hm] at hx
            simp only [Except.ok.injEq, Prod.mk.injEq] at hx
            exact ⟨hx.1.symm, hx.2.symm⟩
        obtain ⟨hg', rfl⟩ := hg'
        subst hg'
        refine ⟨l, tl, fun p hp => .inr (rl p hp), ?_⟩
        intro e' he' hn'
        rw [he] at he'
        cases he'
        rcases hT.entry_shape he with hsrc | ⟨e0, rfl⟩
        · -- a source has no inputs: nothing happened before, so it cannot have got its node meanwhile
          exfalso
          obtain ⟨id, ll, t, rfl⟩ := hsrc
          have hrs : r ∈ w.sources := hT.onlySrcs (r, _) (alook_some_mem he) ⟨id, ll, t, rfl⟩
          unfold wfNodeInputs at hin
          rw [if_pos (List.contains_iff_mem.2 hrs)] at hin
          cases hin
          rw [hn'] at hm; cases hm
        · rcases tl.shared_mem r k hm with h | h
          · rw [show nodeOf g (TExpr.shared r e0) = alook g.sharedNodes r from rfl, h] at hn'; cases hn'
          · exact h
end

end Tfv
