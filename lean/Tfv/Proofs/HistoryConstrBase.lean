import Tfv.Spec.HistoryShiftConstr
import Tfv.Proofs.AgreeConstrMain
import Tfv.Proofs.History
/-!
# History independence in the shift form WITH constraints (C16), part 1: `Store.appendC`

Reading from and writing to a store placed behind a history (`σ₀.appendC σ`): every read at a shifted index gives the
shifted record, every write at a shifted index is the write to `σ` placed behind the history. No hypothesis on `σ₀`.
-/
namespace Tfv.C16H
open Tfv Tfv.C03P Tfv.C16P Tfv.C03C Tfv.C16C

/-! ## 1. sizes -/

theorem vlen_appendC (σ₀ σ : Store) : (σ₀.appendC σ).vars.length = σ₀.vars.length + σ.vars.length := by
  unfold Store.appendC; simp

theorem klen_appendC (σ₀ σ : Store) : (σ₀.appendC σ).csets.length = σ₀.csets.length + σ.csets.length := by
  unfold Store.appendC; simp

theorem clen_appendC (σ₀ σ : Store) : (σ₀.appendC σ).constrs.length = σ₀.constrs.length + σ.constrs.length := by
  unfold Store.appendC; simp

/-! ## 2. reading -/

theorem getVar_appendC_lt {σ₀ σ : Store} {v : Nat} (h : v < σ₀.vars.length) :
    getVar (σ₀.appendC σ) v = getVar σ₀ v := by
  unfold getVar Store.appendC
  simp only [List.getD_eq_getElem?_getD]
  rw [List.getElem?_append_left h]

theorem getVar_appendC_ge {σ₀ σ : Store} {v : Nat} (h : v < σ.vars.length) :
    getVar (σ₀.appendC σ) (v + σ₀.vars.length) = (getVar σ v).shift σ₀.vars.length σ₀.csets.length := by
  unfold getVar Store.appendC
  simp only [List.getD_eq_getElem?_getD]
  rw [List.getElem?_append_right (by omega)]
  simp only [Nat.add_sub_cancel, List.getElem?_map, List.getElem?_eq_getElem h, Option.map_some,
    Option.getD_some]

/-- the fields other than `cset` are the shifted fields, allocated or not -/
theorem getVar_appendC_core (σ₀ σ : Store) (v : Nat) :
    (getVar (σ₀.appendC σ) (v + σ₀.vars.length)).bound = (getVar σ v).bound.map (Term.shift σ₀.vars.length) ∧
    (getVar (σ₀.appendC σ) (v + σ₀.vars.length)).lower = (getVar σ v).lower ∧
    (getVar (σ₀.appendC σ) (v + σ₀.vars.length)).upper = (getVar σ v).upper ∧
    (getVar (σ₀.appendC σ) (v + σ₀.vars.length)).wildcard = (getVar σ v).wildcard := by
  by_cases h : v < σ.vars.length
  · rw [getVar_appendC_ge h]; exact ⟨rfl, rfl, rfl, rfl⟩
  · rw [getVar_oor h, getVar_oor (by rw [vlen_appendC]; omega)]; exact ⟨rfl, rfl, rfl, rfl⟩

theorem getCset_appendC_lt {σ₀ σ : Store} {c : Nat} (h : c < σ₀.csets.length) :
    getCset (σ₀.appendC σ) c = getCset σ₀ c := by
  unfold getCset Store.appendC
  simp only [List.getD_eq_getElem?_getD]
  rw [List.getElem?_append_left h]

theorem getCset_appendC (σ₀ σ : Store) (c : Nat) :
    getCset (σ₀.appendC σ) (c + σ₀.csets.length) = shiftIds σ₀.constrs.length (getCset σ c) := by
  unfold getCset Store.appendC
  simp only [List.getD_eq_getElem?_getD]
  rw [List.getElem?_append_right (by omega)]
  simp only [Nat.add_sub_cancel, List.getElem?_map]
  cases σ.csets[c]? with
  | none => rfl
  | some x => rfl

theorem getConstr_appendC_lt {σ₀ σ : Store} {c : Nat} (h : c < σ₀.constrs.length) :
    getConstr (σ₀.appendC σ) c = getConstr σ₀ c := by
  unfold getConstr Store.appendC
  simp only [List.getD_eq_getElem?_getD]
  rw [List.getElem?_append_left h]

theorem getConstr_appendC {σ₀ σ : Store} {c : Nat} (h : c < σ.constrs.length) :
    getConstr (σ₀.appendC σ) (c + σ₀.constrs.length) = (getConstr σ c).shift σ₀.vars.length := by
  unfold getConstr Store.appendC
  simp only [List.getD_eq_getElem?_getD]
  rw [List.getElem?_append_right (by omega)]
  simp only [Nat.add_sub_cancel, List.getElem?_map, List.getElem?_eq_getElem h, Option.map_some,
    Option.getD_some]

/-! ## 3. writing -/

theorem set_append_map {α β : Type} (f : α → β) (l₀ : List β) (l : List α) (v : Nat) (i : α) :
    (l₀ ++ l.map f).set (v + l₀.length) (f i) = l₀ ++ (l.set v i).map f := by
  rw [List.set_append]
  have : ¬ v + l₀.length < l₀.length := by omega
  simp only [this, if_false, Nat.add_sub_cancel, List.map_set]

theorem setVar_appendC (σ₀ σ : Store) (v : Nat) (i : VarInfo) :
    setVar (σ₀.appendC σ) (v + σ₀.vars.length) (i.shift σ₀.vars.length σ₀.csets.length) =
      σ₀.appendC (setVar σ v i) := by
  unfold setVar Store.appendC
  simp only [set_append_map]

theorem setCset_appendC (σ₀ σ : Store) (c : Nat) (cs : List Nat) :
    setCset (σ₀.appendC σ) (c + σ₀.csets.length) (shiftIds σ₀.constrs.length cs) =
      σ₀.appendC (setCset σ c cs) := by
  unfold setCset Store.appendC
  simp only [set_append_map]

theorem setConstr_appendC (σ₀ σ : Store) (c : Nat) (x : Constr) :
    setConstr (σ₀.appendC σ) (c + σ₀.constrs.length) (x.shift σ₀.vars.length) =
      σ₀.appendC (setConstr σ c x) := by
  unfold setConstr Store.appendC
  simp only [set_append_map]

theorem newVar_appendC (σ₀ σ : Store) (wc : Bool) :
    newVar (σ₀.appendC σ) wc = (σ₀.appendC (newVar σ wc).1, (newVar σ wc).2 + σ₀.vars.length) := by
  unfold newVar Store.appendC
  simp only [List.map_append, List.map_cons, List.map_nil, List.append_assoc, List.length_append,
    List.length_map, Prod.mk.injEq]
  refine ⟨?_, by omega⟩
  congr 2
  · unfold VarInfo.shift
    simp only [Option.map_none]
    congr 3
    omega

theorem newVars_appendC (σ₀ : Store) : ∀ (n : Nat) (σ : Store),
    newVars (σ₀.appendC σ) n = (σ₀.appendC (newVars σ n).1, Term.shiftL σ₀.vars.length (newVars σ n).2)
  | 0, σ => by unfold newVars; simp only [shiftL_nil]
  | n+1, σ => by
    unfold newVars
    simp only [newVar_appendC, newVars_appendC σ₀ n, shiftL_cons, shift_var]

theorem regStore_appendC (σ₀ σ : Store) (x : Constr) :
    regStore (σ₀.appendC σ) (x.shift σ₀.vars.length) = σ₀.appendC (regStore σ x) := by
  unfold regStore Store.appendC
  simp only [List.map_append, List.map_cons, List.map_nil, List.append_assoc]

end Tfv.C16H
