import Tfv.Proofs.Bounds
/-!
# C05, user-facing forms: closed form, order independence, crossing, Top/Bottom, monotonicity
-/
namespace Tfv.C05P

/-! ## 1. lists of covariant / contravariant supplies -/

def coOps (as : List Nat) : List Op := as.map fun a => (true, a)
def contraOps (bs : List Nat) : List Op := bs.map fun b => (false, b)

theorem mem_coOps {as : List Nat} {op : Op} : op ∈ coOps as ↔ op.1 = true ∧ op.2 ∈ as := by
  obtain ⟨d, x⟩ := op
  unfold coOps
  simp only [List.mem_map, Prod.mk.injEq]
  constructor
  · rintro ⟨a, ha, h1, h2⟩; subst h1 h2; exact ⟨rfl, ha⟩
  · rintro ⟨h1, h2⟩; exact ⟨x, h2, h1.symm, rfl⟩

theorem mem_contraOps {bs : List Nat} {op : Op} : op ∈ contraOps bs ↔ op.1 = false ∧ op.2 ∈ bs := by
  obtain ⟨d, x⟩ := op
  unfold contraOps
  simp only [List.mem_map, Prod.mk.injEq]
  constructor
  · rintro ⟨a, ha, h1, h2⟩; subst h1 h2; exact ⟨rfl, ha⟩
  · rintro ⟨h1, h2⟩; exact ⟨x, h2, h1.symm, rfl⟩

theorem coArgs_mixed (as bs : List Nat) : ∀ a, a ∈ coArgs (coOps as ++ contraOps bs) ↔ a ∈ as := by
  intro a
  rw [mem_coArgs, List.mem_append, mem_coOps, mem_contraOps]
  simp

theorem contraArgs_mixed (as bs : List Nat) : ∀ b, b ∈ contraArgs (coOps as ++ contraOps bs) ↔ b ∈ bs := by
  intro b
  rw [mem_contraArgs, List.mem_append, mem_coOps, mem_contraOps]
  simp

theorem isGreatest_congr {L : Lang} {A A' : List Nat} (h : ∀ a, a ∈ A ↔ a ∈ A') {x : Option Nat}
    (hx : IsGreatest L A x) : IsGreatest L A' x := by
  cases x with
  | none =>
    unfold IsGreatest at *
    apply List.eq_nil_iff_forall_not_mem.mpr
    intro a ha
    rw [hx] at h
    exact absurd ((h a).mpr ha) (by simp)
  | some m => exact ⟨(h m).mp hx.1, fun a ha => hx.2 a ((h a).mpr ha)⟩

theorem isLeast_congr {L : Lang} {A A' : List Nat} (h : ∀ a, a ∈ A ↔ a ∈ A') {x : Option Nat}
    (hx : IsLeast L A x) : IsLeast L A' x := by
  cases x with
  | none =>
    unfold IsLeast at *
    apply List.eq_nil_iff_forall_not_mem.mpr
    intro a ha
    rw [hx] at h
    exact absurd ((h a).mpr ha) (by simp)
  | some m => exact ⟨(h m).mp hx.1, fun a ha => hx.2 a ((h a).mpr ha)⟩

/-! ## 2. the closed forms in the declared order -/

/-- the record of a variable after compatible supplies with greatest covariant argument `lo`
and least contravariant argument `up`: bounds `lo`/`up`, bound to the base type when they meet -/
def resultI (i : VarInfo) (lo up : Option Nat) (noOps : Bool) : VarInfo :=
  sealI { lower := lo, upper := up, wildcard := i.wildcard && noOps, cset := i.cset }

/-- through `unify`, compatible supplies, any interleaving -/
theorem supply_chain_ok (L : Lang) (wf : WF L) {σ : Store} (nc : NoConstraints σ) (n v : Nat)
    (hv : v < σ.vars.length) (hf : FreshI (getVar σ v)) (ops : List Op)
    (ch : ChainOn L (fun x => ∃ op ∈ ops, op.2 = x)) (hc : Compat L ops) :
    ∃ lo up, IsGreatest L (coArgs ops) lo ∧ IsLeast L (contraArgs ops) up ∧
      runSupply L (n+5) σ v ops = .ok (setVar σ v (resultI (getVar σ v) lo up ops.isEmpty)) := by
  have hS : ∀ op ∈ ops, (fun x => ∃ op ∈ ops, op.2 = x) op.2 := fun op h => ⟨op, h, rfl⟩
  refine ⟨lowerOf ops, upperOf ops, lowerOf_isGreatest wf ch ops hS, upperOf_isLeast wf ch ops hS, ?_⟩
  rw [runSupply_chain L wf ch nc n v hv hf ops hS, (okBounds_iff_compat wf ch ops hS).mpr hc]
  rfl

/-- through `unify`, incompatible supplies, any interleaving -/
theorem supply_chain_fails (L : Lang) (wf : WF L) {σ : Store} (nc : NoConstraints σ) (n v : Nat)
    (hv : v < σ.vars.length) (hf : FreshI (getVar σ v)) (ops : List Op)
    (ch : ChainOn L (fun x => ∃ op ∈ ops, op.2 = x)) (hc : ¬ Compat L ops) :
    runSupply L (n+5) σ v ops = .error .subtypeMismatch := by
  have hS : ∀ op ∈ ops, (fun x => ∃ op ∈ ops, op.2 = x) op.2 := fun op h => ⟨op, h, rfl⟩
  rw [runSupply_chain L wf ch nc n v hv hf ops hS]
  have : okBounds (lowerOf ops) (upperOf ops) = false := by
    cases h : okBounds (lowerOf ops) (upperOf ops) with
    | false => rfl
    | true => exact absurd ((okBounds_iff_compat wf ch ops hS).mp h) hc
  rw [this]
  rfl

/-- direct `above`/`below` calls, strictly compatible supplies, any interleaving -/
theorem raw_chain_strict (L : Lang) (wf : WF L) {σ : Store} (nc : NoConstraints σ) (n v : Nat)
    (hv : v < σ.vars.length) (hf : FreshI (getVar σ v)) (ops : List Op)
    (ch : ChainOn L (fun x => ∃ op ∈ ops, op.2 = x)) (hc : StrictCompat L ops) :
    ∃ lo up, IsGreatest L (coArgs ops) lo ∧ IsLeast L (contraArgs ops) up ∧
      runRaw L (n+4) σ v ops =
        .ok (setVar σ v { lower := lo, upper := up,
                          wildcard := (getVar σ v).wildcard && ops.isEmpty, cset := (getVar σ v).cset }) := by
  have hS : ∀ op ∈ ops, (fun x => ∃ op ∈ ops, op.2 = x) op.2 := fun op h => ⟨op, h, rfl⟩
  exact ⟨lowerOf ops, upperOf ops, lowerOf_isGreatest wf ch ops hS, upperOf_isLeast wf ch ops hS,
    runRaw_chain_strict L wf ch nc n v hv hf ops hS (strictBounds_of_strictCompat wf ops hc)⟩

/-- direct calls with incompatible supplies fail in every order (with a subtype mismatch or,
when the variable got bound on the way, with the failed `assert not self.bound`) -/
theorem raw_chain_fails (L : Lang) (wf : WF L) {σ : Store} (nc : NoConstraints σ) (n v : Nat)
    (hv : v < σ.vars.length) (hf : FreshI (getVar σ v)) (ops : List Op)
    (ch : ChainOn L (fun x => ∃ op ∈ ops, op.2 = x)) (hc : ¬ Compat L ops) :
    ∃ e, runRaw L (n+4) σ v ops = .error e := by
  have hS : ∀ op ∈ ops, (fun x => ∃ op ∈ ops, op.2 = x) op.2 := fun op h => ⟨op, h, rfl⟩
  have : okBounds (lowerOf ops) (upperOf ops) = false := by
    cases h : okBounds (lowerOf ops) (upperOf ops) with
    | false => rfl
    | true => exact absurd ((okBounds_iff_compat wf ch ops hS).mp h) hc
  exact runRaw_chain_fails L wf ch nc n v hv hf ops hS this

/-! ## 3. order independence -/

theorem chainOn_congr {L : Lang} {S S' : Nat → Prop} (h : ∀ x, S' x → S x) (ch : ChainOn L S) :
    ChainOn L S' :=
  ⟨fun a ha => ch.nullary a (h a ha), fun a ha => ch.not_top a (h a ha),
   fun a ha => ch.not_bot a (h a ha), fun a b ha hb => ch.comparable a b (h a ha) (h b hb)⟩

theorem isEmpty_perm {α : Type} {xs ys : List α} (h : xs.Perm ys) : xs.isEmpty = ys.isEmpty := by
  have := h.length_eq
  cases xs <;> cases ys <;> simp_all

/-- through `unify`: the whole outcome (success or failure, and the resulting store) does not depend
on the order of the supplies -/
theorem supply_perm (L : Lang) (wf : WF L) {σ : Store} (nc : NoConstraints σ) (n v : Nat)
    (hv : v < σ.vars.length) (hf : FreshI (getVar σ v)) (ops ops' : List Op)
    (ch : ChainOn L (fun x => ∃ op ∈ ops, op.2 = x)) (hp : ops.Perm ops') :
    runSupply L (n+5) σ v ops' = runSupply L (n+5) σ v ops := by
  have hS : ∀ op ∈ ops, (fun x => ∃ op ∈ ops, op.2 = x) op.2 := fun op h => ⟨op, h, rfl⟩
  have hS' : ∀ op ∈ ops', (fun x => ∃ op ∈ ops, op.2 = x) op.2 := fun op h => ⟨op, hp.mem_iff.mpr h, rfl⟩
  rw [runSupply_chain L wf ch nc n v hv hf ops hS, runSupply_chain L wf ch nc n v hv hf ops' hS']
  unfold closedI
  rw [lowerOf_congr (fun a => hp.mem_iff), upperOf_congr (fun a => hp.mem_iff), isEmpty_perm hp]

/-- direct calls: order independence for strictly compatible supplies -/
theorem raw_perm_strict (L : Lang) (wf : WF L) {σ : Store} (nc : NoConstraints σ) (n v : Nat)
    (hv : v < σ.vars.length) (hf : FreshI (getVar σ v)) (ops ops' : List Op)
    (ch : ChainOn L (fun x => ∃ op ∈ ops, op.2 = x)) (hc : StrictCompat L ops) (hp : ops.Perm ops') :
    runRaw L (n+4) σ v ops' = runRaw L (n+4) σ v ops := by
  have hS : ∀ op ∈ ops, (fun x => ∃ op ∈ ops, op.2 = x) op.2 := fun op h => ⟨op, h, rfl⟩
  have hS' : ∀ op ∈ ops', (fun x => ∃ op ∈ ops, op.2 = x) op.2 := fun op h => ⟨op, hp.mem_iff.mpr h, rfl⟩
  have hc' : StrictCompat L ops' := fun a b ha hb => hc a b (hp.mem_iff.mpr ha) (hp.mem_iff.mpr hb)
  rw [runRaw_chain_strict L wf ch nc n v hv hf ops hS (strictBounds_of_strictCompat wf ops hc),
    runRaw_chain_strict L wf ch nc n v hv hf ops' hS' (strictBounds_of_strictCompat wf ops' hc')]
  rw [lowerOf_congr (fun a => hp.mem_iff), upperOf_congr (fun a => hp.mem_iff), isEmpty_perm hp]

/-! ## 4. `aboveAll`, `belowAll` -/

theorem chain_coOps {L : Lang} {as : List Nat} (ch : ChainOn L (fun x => x ∈ as)) :
    ChainOn L (fun x => ∃ op ∈ coOps as, op.2 = x) :=
  chainOn_congr (fun _ ⟨_, h, e⟩ => e ▸ (mem_coOps.mp h).2) ch

theorem chain_contraOps {L : Lang} {bs : List Nat} (ch : ChainOn L (fun x => x ∈ bs)) :
    ChainOn L (fun x => ∃ op ∈ contraOps bs, op.2 = x) :=
  chainOn_congr (fun _ ⟨_, h, e⟩ => e ▸ (mem_contraOps.mp h).2) ch

theorem chain_mixed {L : Lang} {as bs : List Nat} (ch : ChainOn L (fun x => x ∈ as ++ bs)) :
    ChainOn L (fun x => ∃ op ∈ coOps as ++ contraOps bs, op.2 = x) := by
  refine chainOn_congr (fun x ⟨op, h, e⟩ => ?_) ch
  rcases List.mem_append.mp h with h | h
  · exact e ▸ List.mem_append_left _ (mem_coOps.mp h).2
  · exact e ▸ List.mem_append_right _ (mem_contraOps.mp h).2

theorem strictCompat_coOps (L : Lang) (as : List Nat) : StrictCompat L (coOps as) := by
  intro a b _ hb
  have := (mem_coOps.mp hb).1
  cases this

theorem strictCompat_contraOps (L : Lang) (bs : List Nat) : StrictCompat L (contraOps bs) := by
  intro a b ha _
  have := (mem_contraOps.mp ha).1
  cases this

theorem isLeast_nil {L : Lang} {A : List Nat} {x : Option Nat} (hA : ∀ a, a ∉ A) (hx : IsLeast L A x) :
    x = none := by
  cases x with
  | none => rfl
  | some m => exact absurd hx.1 (hA m)

theorem isGreatest_nil {L : Lang} {A : List Nat} {x : Option Nat} (hA : ∀ a, a ∉ A) (hx : IsGreatest L A x) :
    x = none := by
  cases x with
  | none => rfl
  | some m => exact absurd hx.1 (hA m)

theorem isGreatest_some {L : Lang} {A : List Nat} {x : Option Nat} (hA : A ≠ []) (hx : IsGreatest L A x) :
    ∃ m, x = some m := by
  cases x with
  | none => exact absurd hx hA
  | some m => exact ⟨m, rfl⟩

theorem isLeast_some {L : Lang} {A : List Nat} {x : Option Nat} (hA : A ≠ []) (hx : IsLeast L A x) :
    ∃ m, x = some m := by
  cases x with
  | none => exact absurd hx hA
  | some m => exact ⟨m, rfl⟩

theorem coOps_isEmpty {as : List Nat} (h : as ≠ []) : (coOps as).isEmpty = false := by
  cases as with
  | nil => exact absurd rfl h
  | cons a as => rfl

theorem contraOps_isEmpty {bs : List Nat} (h : bs ≠ []) : (contraOps bs).isEmpty = false := by
  cases bs with
  | nil => exact absurd rfl h
  | cons a as => rfl

/-- `above` over a chain of base types, in any order: the lower bound is the greatest argument -/
theorem above_chain (L : Lang) (wf : WF L) {σ : Store} (nc : NoConstraints σ) (n v : Nat)
    (hv : v < σ.vars.length) (hf : FreshI (getVar σ v)) (as : List Nat) (hne : as ≠ [])
    (ch : ChainOn L (fun x => x ∈ as)) :
    ∃ m, m ∈ as ∧ (∀ a ∈ as, Anc L a m) ∧
      aboveAll L (n+4) σ v as =
        .ok (setVar σ v { getVar σ v with wildcard := false, lower := some m }) := by
  obtain ⟨lo, up, h1, h2, h3⟩ := raw_chain_strict L wf nc n v hv hf (coOps as) (chain_coOps ch)
    (strictCompat_coOps L as)
  have h1' : IsGreatest L as lo := isGreatest_congr (fun a => by rw [mem_coArgs, mem_coOps]; simp) h1
  have hup : up = none := isLeast_nil (fun b hb => by
    have := (mem_coOps.mp (mem_contraArgs.mp hb)).1; cases this) h2
  obtain ⟨m, rfl⟩ := isGreatest_some hne h1'
  refine ⟨m, h1'.1, h1'.2, ?_⟩
  rw [aboveAll_eq_runRaw]
  change runRaw L (n+4) σ v (coOps as) = _
  rw [h3, hup, coOps_isEmpty hne, Bool.and_false]
  obtain ⟨hb, _, hu⟩ := hf
  congr 2
  generalize getVar σ v = i at *
  obtain ⟨bd, lo, up, w, c⟩ := i
  simp only at hb hu
  subst hb hu
  rfl

/-- `below` over a chain of base types, in any order: the upper bound is the least argument -/
theorem below_chain (L : Lang) (wf : WF L) {σ : Store} (nc : NoConstraints σ) (n v : Nat)
    (hv : v < σ.vars.length) (hf : FreshI (getVar σ v)) (bs : List Nat) (hne : bs ≠ [])
    (ch : ChainOn L (fun x => x ∈ bs)) :
    ∃ m, m ∈ bs ∧ (∀ b ∈ bs, Anc L m b) ∧
      belowAll L (n+4) σ v bs =
        .ok (setVar σ v { getVar σ v with wildcard := false, upper := some m }) := by
  obtain ⟨lo, up, h1, h2, h3⟩ := raw_chain_strict L wf nc n v hv hf (contraOps bs) (chain_contraOps ch)
    (strictCompat_contraOps L bs)
  have h2' : IsLeast L bs up := isLeast_congr (fun a => by rw [mem_contraArgs, mem_contraOps]; simp) h2
  have hlo : lo = none := isGreatest_nil (fun b hb => by
    have := (mem_contraOps.mp (mem_coArgs.mp hb)).1; cases this) h1
  obtain ⟨m, rfl⟩ := isLeast_some hne h2'
  refine ⟨m, h2'.1, h2'.2, ?_⟩
  rw [belowAll_eq_runRaw]
  change runRaw L (n+4) σ v (contraOps bs) = _
  rw [h3, hlo, contraOps_isEmpty hne, Bool.and_false]
  obtain ⟨hb, hl, _⟩ := hf
  congr 2
  generalize getVar σ v = i at *
  obtain ⟨bd, lo, up, w, c⟩ := i
  simp only at hb hl
  subst hb hl
  rfl

theorem above_perm (L : Lang) (wf : WF L) {σ : Store} (nc : NoConstraints σ) (n v : Nat)
    (hv : v < σ.vars.length) (hf : FreshI (getVar σ v)) (as as' : List Nat)
    (ch : ChainOn L (fun x => x ∈ as)) (hp : as.Perm as') :
    aboveAll L (n+4) σ v as' = aboveAll L (n+4) σ v as := by
  rw [aboveAll_eq_runRaw, aboveAll_eq_runRaw]
  exact raw_perm_strict L wf nc n v hv hf (coOps as) (coOps as') (chain_coOps ch)
    (strictCompat_coOps L as) (hp.map _)

theorem below_perm (L : Lang) (wf : WF L) {σ : Store} (nc : NoConstraints σ) (n v : Nat)
    (hv : v < σ.vars.length) (hf : FreshI (getVar σ v)) (bs bs' : List Nat)
    (ch : ChainOn L (fun x => x ∈ bs)) (hp : bs.Perm bs') :
    belowAll L (n+4) σ v bs' = belowAll L (n+4) σ v bs := by
  rw [belowAll_eq_runRaw, belowAll_eq_runRaw]
  exact raw_perm_strict L wf nc n v hv hf (contraOps bs) (contraOps bs') (chain_contraOps ch)
    (strictCompat_contraOps L bs) (hp.map _)

/-! ## 4b. reading `resultI`; sequencing; the last step may bind -/

theorem sealI_lower (i : VarInfo) : (sealI i).lower = i.lower := by
  unfold sealI; split
  · split <;> rfl
  · rfl

theorem sealI_upper (i : VarInfo) : (sealI i).upper = i.upper := by
  unfold sealI; split
  · split <;> rfl
  · rfl

theorem resultI_lower (i : VarInfo) (lo up : Option Nat) (e : Bool) : (resultI i lo up e).lower = lo := by
  unfold resultI; rw [sealI_lower]

theorem resultI_upper (i : VarInfo) (lo up : Option Nat) (e : Bool) : (resultI i lo up e).upper = up := by
  unfold resultI; rw [sealI_upper]

/-- the bounds meet: the variable is bound to that base type -/
theorem resultI_bound_meet (i : VarInfo) (m : Nat) (e : Bool) :
    (resultI i (some m) (some m) e).bound = some (.app m []) := by
  simp [resultI, sealI]

/-- the bounds do not meet: the variable stays unbound -/
theorem resultI_bound_apart (i : VarInfo) (lo up : Option Nat) (e : Bool)
    (h : lo = none ∨ up = none ∨ lo ≠ up) : (resultI i lo up e).bound = none := by
  unfold resultI sealI
  cases lo with
  | none => rfl
  | some l =>
    cases up with
    | none => rfl
    | some u =>
      have : l ≠ u := by
        rcases h with h | h | h
        · cases h
        · cases h
        · intro e; exact h (by rw [e])
      simp [this]

theorem foldl_stepE_error {α : Type} (f : α → Op → Except Err α) (e : Err) (ops : List Op) :
    ops.foldl (stepE f) (.error e) = .error e := by
  induction ops with
  | nil => rfl
  | cons op ops ih => exact ih

theorem runRaw_append (L : Lang) (n : Nat) (σ : Store) (v : Nat) (o1 o2 : List Op) :
    runRaw L n σ v (o1 ++ o2) =
      match runRaw L n σ v o1 with
      | .error e => .error e
      | .ok σ1 => runRaw L n σ1 v o2 := by
  unfold runRaw
  rw [List.foldl_append]
  cases List.foldl (stepE (rawSupply L n v)) (.ok σ) o1 with
  | error e => exact foldl_stepE_error _ e o2
  | ok σ1 => rfl

theorem runSupply_append (L : Lang) (n : Nat) (σ : Store) (v : Nat) (o1 o2 : List Op) :
    runSupply L n σ v (o1 ++ o2) =
      match runSupply L n σ v o1 with
      | .error e => .error e
      | .ok σ1 => runSupply L n σ1 v o2 := by
  unfold runSupply
  rw [List.foldl_append]
  cases List.foldl (stepE (supply L n v)) (.ok σ) o1 with
  | error e => exact foldl_stepE_error _ e o2
  | ok σ1 => rfl

/-- `above` over the chain `as`, then `below` over the chain `bs`, every `a` a proper subtype of every `b` -/
theorem mixed_strict (L : Lang) (wf : WF L) {σ : Store} (nc : NoConstraints σ) (n v : Nat)
    (hv : v < σ.vars.length) (hf : FreshI (getVar σ v)) (as bs : List Nat)
    (ch : ChainOn L (fun x => x ∈ as ++ bs)) (hs : ∀ a ∈ as, ∀ b ∈ bs, Anc L a b ∧ a ≠ b) :
    ∃ lo up, IsGreatest L as lo ∧ IsLeast L bs up ∧
      (match aboveAll L (n+4) σ v as with
       | .error e => (.error e : R)
       | .ok σ1 => belowAll L (n+4) σ1 v bs) =
        .ok (setVar σ v { lower := lo, upper := up,
                          wildcard := (getVar σ v).wildcard && (as.isEmpty && bs.isEmpty),
                          cset := (getVar σ v).cset }) := by
  have hc : StrictCompat L (coOps as ++ contraOps bs) := by
    intro a b ha hb
    rcases List.mem_append.mp ha with ha | ha
    · rcases List.mem_append.mp hb with hb | hb
      · have := (mem_coOps.mp hb).1; cases this
      · exact hs a (mem_coOps.mp ha).2 b (mem_contraOps.mp hb).2
    · have := (mem_contraOps.mp ha).1; cases this
  obtain ⟨lo, up, h1, h2, h3⟩ := raw_chain_strict L wf nc n v hv hf _ (chain_mixed ch) hc
  refine ⟨lo, up, isGreatest_congr (coArgs_mixed as bs) h1, isLeast_congr (contraArgs_mixed as bs) h2, ?_⟩
  have he : (coOps as ++ contraOps bs).isEmpty = (as.isEmpty && bs.isEmpty) := by
    cases as <;> cases bs <;> rfl
  rw [← he, ← h3, runRaw_append]
  simp only [aboveAll_eq_runRaw, belowAll_eq_runRaw]
  rfl

/-- direct calls agree with the run through `unify` as long as the variable was not bound
before the last supply -/
theorem raw_eq_supply_last (L : Lang) (wf : WF L) {σ : Store} (nc : NoConstraints σ) (n v : Nat)
    (hv : v < σ.vars.length) (hf : FreshI (getVar σ v)) (ops : List Op) (op : Op)
    (ch : ChainOn L (fun x => ∃ o ∈ ops ++ [op], o.2 = x)) (hc : StrictCompat L ops) :
    runRaw L (n+4) σ v (ops ++ [op]) = runSupply L (n+5) σ v (ops ++ [op]) := by
  have hS : ∀ o ∈ ops ++ [op], (fun x => ∃ o ∈ ops ++ [op], o.2 = x) o.2 := fun o h => ⟨o, h, rfl⟩
  have hS0 : ∀ o ∈ ops, (fun x => ∃ o ∈ ops ++ [op], o.2 = x) o.2 :=
    fun o h => hS o (List.mem_append_left _ h)
  have har : ∀ o ∈ ops ++ [op], arityOf L o.2 = 0 := fun o h => ch.nullary _ (hS o h)
  rw [runRaw_eq L wf nc n v hv _ har (freshI_inv L hf), runSupply_eq L wf nc n v hv _ har (freshI_inv L hf)]
  congr 1
  rw [runRawI_snoc, runSupI_snoc]
  have h1 := runSupI_chain wf ch (getVar σ v).wildcard (getVar σ v).cset ops hS0
  have hs := strictBounds_of_strictCompat wf ops hc
  rw [okBounds_of_strict hs, if_pos rfl] at h1
  unfold closedI at h1
  rw [sealI_strict hs] at h1
  rw [← freshI_eta hf] at h1
  rw [h1, runRawI_of_runSupI L _ ops (chain_proper ch hS0) _ h1 rfl]
  simp only [stepE]
  exact (supI_unbound rfl (chain_proper ch hS op (by simp))).symm

/-! ## 4c. `Top` from below, `Bottom` from above -/

theorem opSub_top_strict {L : Lang} (wf : WF L) {l : Nat} (hl : l ≠ TOP) : opSub L TOP l true = false := by
  cases h : opSub L TOP l true with
  | false => rfl
  | true =>
    rcases (opSub_strict_iff wf TOP l).mp h with h | h | ⟨h, _⟩
    · cases h
    · exact absurd h hl
    · exact absurd (anc_top_left wf h) hl

theorem opSub_strict_bot {L : Lang} (wf : WF L) {u : Nat} (hu : u ≠ BOT) : opSub L u BOT true = false := by
  cases h : opSub L u BOT true with
  | false => rfl
  | true =>
    rcases (opSub_strict_iff wf u BOT).mp h with h | h | ⟨h, _⟩
    · exact absurd h hu
    · cases h
    · exact absurd (anc_bot_right wf h rfl) hu

theorem opSub_strict_top (L : Lang) (u : Nat) : opSub L u TOP true = true := by
  unfold opSub; simp

theorem opSub_bot_strict (L : Lang) (l : Nat) : opSub L BOT l true = true := by
  unfold opSub; simp

/-- `above v Top` on an unbound variable without upper bound binds it to `Top`, whatever its lower bound -/
theorem above_top (L : Lang) (wf : WF L) {σ : Store} (nc : NoConstraints σ) (n v : Nat)
    (hv : v < σ.vars.length) (hb : (getVar σ v).bound = none) (hu : (getVar σ v).upper = none)
    (hl : ∀ l, (getVar σ v).lower = some l → l ≠ TOP ∧ arityOf L l = 0) :
    above L (n+4) σ v TOP =
      .ok (setVar σ v { getVar σ v with wildcard := false, bound := some (.app TOP []) }) := by
  rw [above_eq L nc n v TOP hv (arity_top wf) (arity_top wf) (fun l h => (hl l h).2)]
  unfold aboveI bindBaseI
  simp only [beq_self_eq_true, if_true, hb, hu, Option.isSome_none, Bool.false_eq_true, if_false,
    Option.any_none]
  cases hlo : (getVar σ v).lower with
  | none => simp [liftI]
  | some l =>
    rw [hlo] at hl
    simp [liftI, opSub_top_strict wf (hl l rfl).1]

/-- … but with any upper bound (even `Top` itself) it is a subtype mismatch -/
theorem above_top_upper (L : Lang) (wf : WF L) {σ : Store} (nc : NoConstraints σ) (n v u : Nat)
    (hv : v < σ.vars.length) (hb : (getVar σ v).bound = none) (hu : (getVar σ v).upper = some u)
    (hl : ∀ l, (getVar σ v).lower = some l → l ≠ TOP ∧ arityOf L l = 0) :
    above L (n+4) σ v TOP = .error .subtypeMismatch := by
  rw [above_eq L nc n v TOP hv (arity_top wf) (arity_top wf) (fun l h => (hl l h).2)]
  unfold aboveI bindBaseI
  simp only [beq_self_eq_true, if_true, hb, hu, Option.isSome_none, Bool.false_eq_true, if_false]
  cases hlo : (getVar σ v).lower with
  | none => simp [liftI, opSub_strict_top]
  | some l =>
    rw [hlo] at hl
    simp [liftI, opSub_top_strict wf (hl l rfl).1, opSub_strict_top]

/-- `below v Bottom` on an unbound variable without lower bound binds it to `Bottom` -/
theorem below_bot (L : Lang) (wf : WF L) {σ : Store} (nc : NoConstraints σ) (n v : Nat)
    (hv : v < σ.vars.length) (hb : (getVar σ v).bound = none) (hl : (getVar σ v).lower = none)
    (hu : ∀ u, (getVar σ v).upper = some u → u ≠ BOT ∧ arityOf L u = 0) :
    below L (n+4) σ v BOT =
      .ok (setVar σ v { getVar σ v with wildcard := false, bound := some (.app BOT []) }) := by
  rw [below_eq L nc n v BOT hv (arity_bot wf) (arity_bot wf) (fun l h => (hu l h).2)]
  unfold belowI bindBaseI
  simp only [beq_self_eq_true, if_true, hb, hl, Option.isSome_none, Bool.false_eq_true, if_false,
    Option.any_none]
  cases hup : (getVar σ v).upper with
  | none => simp [liftI]
  | some u =>
    rw [hup] at hu
    simp [liftI, opSub_strict_bot wf (hu u rfl).1]

/-- … but with any lower bound it is a subtype mismatch -/
theorem below_bot_lower (L : Lang) (wf : WF L) {σ : Store} (nc : NoConstraints σ) (n v l : Nat)
    (hv : v < σ.vars.length) (hb : (getVar σ v).bound = none) (hl : (getVar σ v).lower = some l)
    (hu : ∀ u, (getVar σ v).upper = some u → arityOf L u = 0) :
    below L (n+4) σ v BOT = .error .subtypeMismatch := by
  rw [below_eq L nc n v BOT hv (arity_bot wf) (arity_bot wf) hu]
  unfold belowI bindBaseI
  simp [hb, hl, liftI, opSub_bot_strict]

/-! ## 4d. monotonicity: replacing a covariant argument by a subtype -/

theorem lowerOf_replace (pre post : List Op) (a a' : Nat) (h : a ≤ a') :
    ∃ l l', lowerOf (pre ++ (true, a) :: post) = some l ∧
      lowerOf (pre ++ (true, a') :: post) = some l' ∧ l ≤ l' := by
  have h1 := lowerOf_spec (pre ++ (true, a) :: post)
  have h2 := lowerOf_spec (pre ++ (true, a') :: post)
  cases e1 : lowerOf (pre ++ (true, a) :: post) with
  | none => rw [e1] at h1; exact absurd (by simp) (h1 a)
  | some l =>
    cases e2 : lowerOf (pre ++ (true, a') :: post) with
    | none => rw [e2] at h2; exact absurd (by simp) (h2 a')
    | some l' =>
      refine ⟨l, l', rfl, rfl, ?_⟩
      rw [e1] at h1; rw [e2] at h2
      have hm := h2.1
      simp only [List.mem_append, List.mem_cons, Prod.mk.injEq, true_and] at hm
      rcases hm with hm | hm | hm
      · exact h1.2 l' (by simp [hm])
      · have := h1.2 a (by simp); omega
      · exact h1.2 l' (by simp [hm])

theorem upperOf_replace (pre post : List Op) (a a' : Nat) :
    upperOf (pre ++ (true, a') :: post) = upperOf (pre ++ (true, a) :: post) := by
  apply upperOf_congr
  intro b
  simp

/-- replacing one covariant argument by a subtype from the same chain keeps success; the lower
bound can only go down, the upper bound is unchanged -/
theorem supply_mono (L : Lang) (wf : WF L) {σ : Store} (nc : NoConstraints σ) (n v : Nat)
    (hv : v < σ.vars.length) (hf : FreshI (getVar σ v)) (pre post : List Op) (a a' : Nat)
    (ch : ChainOn L (fun x => x = a' ∨ ∃ o ∈ pre ++ (true, a) :: post, o.2 = x))
    (haa : Anc L a' a) {σ1 : Store}
    (h : runSupply L (n+5) σ v (pre ++ (true, a) :: post) = .ok σ1) :
    ∃ σ2 l l', runSupply L (n+5) σ v (pre ++ (true, a') :: post) = .ok σ2 ∧
      (getVar σ1 v).lower = some l ∧ (getVar σ2 v).lower = some l' ∧ Anc L l' l ∧
      (getVar σ2 v).upper = (getVar σ1 v).upper := by
  have hS : ∀ o ∈ pre ++ (true, a) :: post,
      (fun x => x = a' ∨ ∃ o ∈ pre ++ (true, a) :: post, o.2 = x) o.2 := fun o ho => Or.inr ⟨o, ho, rfl⟩
  have hS' : ∀ o ∈ pre ++ (true, a') :: post,
      (fun x => x = a' ∨ ∃ o ∈ pre ++ (true, a) :: post, o.2 = x) o.2 := by
    intro o ho
    simp only [List.mem_append, List.mem_cons] at ho
    rcases ho with ho | ho | ho
    · exact Or.inr ⟨o, by simp [ho], rfl⟩
    · left; rw [ho]
    · exact Or.inr ⟨o, by simp [ho], rfl⟩
  obtain ⟨l, l', e1, e2, hle⟩ := lowerOf_replace pre post a a' (anc_le wf haa)
  rw [runSupply_chain L wf ch nc n v hv hf _ hS] at h
  rw [runSupply_chain L wf ch nc n v hv hf _ hS', upperOf_replace, e2]
  rw [e1] at h
  split at h
  · rename_i hok
    injection h with h
    have hok' : okBounds (some l') (upperOf (pre ++ (true, a) :: post)) = true := by
      cases hu : upperOf (pre ++ (true, a) :: post) with
      | none => rfl
      | some u =>
        rw [hu] at hok
        simp only [okBounds, decide_eq_true_eq] at hok ⊢
        omega
    rw [hok', if_pos rfl]
    refine ⟨_, l, l', rfl, ?_, ?_, ?_, ?_⟩
    · rw [← h, getVar_setVar_same hv]; unfold closedI; rw [sealI_lower, e1]
    · rw [getVar_setVar_same hv]; unfold closedI; rw [sealI_lower, e2]
    · have m1 := lowerOf_spec (pre ++ (true, a) :: post)
      have m2 := lowerOf_spec (pre ++ (true, a') :: post)
      rw [e1] at m1; rw [e2] at m2
      exact (anc_chain_iff wf ch (hS' _ m2.1) (hS _ m1.1)).mpr hle
    · rw [← h, getVar_setVar_same hv, getVar_setVar_same hv]; unfold closedI
      rw [sealI_upper, sealI_upper, upperOf_replace]
  · cases h

/-- `above` only: replacing one argument by a subtype from the same chain keeps success and the new
lower bound is a subtype of the old one -/
theorem above_mono (L : Lang) (wf : WF L) {σ : Store} (nc : NoConstraints σ) (n v : Nat)
    (hv : v < σ.vars.length) (hf : FreshI (getVar σ v)) (pre post : List Nat) (a a' : Nat)
    (ch : ChainOn L (fun x => x ∈ a' :: (pre ++ a :: post))) (haa : Anc L a' a) :
    ∃ m m', aboveAll L (n+4) σ v (pre ++ a :: post) =
        .ok (setVar σ v { getVar σ v with wildcard := false, lower := some m }) ∧
      aboveAll L (n+4) σ v (pre ++ a' :: post) =
        .ok (setVar σ v { getVar σ v with wildcard := false, lower := some m' }) ∧
      Anc L m' m := by
  have ch1 : ChainOn L (fun x => x ∈ pre ++ a :: post) :=
    chainOn_congr (fun x hx => List.mem_cons_of_mem _ hx) ch
  have ch2 : ChainOn L (fun x => x ∈ pre ++ a' :: post) := by
    refine chainOn_congr (fun x hx => ?_) ch
    simp only [List.mem_append, List.mem_cons] at hx ⊢
    rcases hx with hx | hx | hx
    · exact Or.inr (Or.inl hx)
    · exact Or.inl hx
    · exact Or.inr (Or.inr (Or.inr hx))
  obtain ⟨m, hm1, hm2, hm3⟩ := above_chain L wf nc n v hv hf _ (by simp) ch1
  obtain ⟨m', hm1', _, hm3'⟩ := above_chain L wf nc n v hv hf _ (by simp) ch2
  refine ⟨m, m', hm3, hm3', ?_⟩
  simp only [List.mem_append, List.mem_cons] at hm1'
  rcases hm1' with h | h | h
  · exact hm2 m' (by simp [h])
  · rw [h]; exact anc_trans haa (hm2 a (by simp))
  · exact hm2 m' (by simp [h])

/-! ## 4e. field-wise reading of the closed forms -/

theorem setVar_frame (σ : Store) (v : Nat) (i : VarInfo) :
    (∀ w, w ≠ v → getVar (setVar σ v i) w = getVar σ w) ∧
      (setVar σ v i).csets = σ.csets ∧ (setVar σ v i).constrs = σ.constrs :=
  ⟨fun _ hw => getVar_setVar_ne (fun e => hw e.symm), rfl, rfl⟩

theorem above_chain_fields (L : Lang) (wf : WF L) {σ : Store} (nc : NoConstraints σ) (n v : Nat)
    (hv : v < σ.vars.length) (hf : FreshI (getVar σ v)) (as : List Nat) (hne : as ≠ [])
    (ch : ChainOn L (fun x => x ∈ as)) :
    ∃ m σ', m ∈ as ∧ (∀ a ∈ as, Anc L a m) ∧ aboveAll L (n+4) σ v as = .ok σ' ∧
      (getVar σ' v).lower = some m ∧ (getVar σ' v).upper = none ∧ (getVar σ' v).bound = none ∧
      (∀ w, w ≠ v → getVar σ' w = getVar σ w) ∧ σ'.csets = σ.csets ∧ σ'.constrs = σ.constrs := by
  obtain ⟨m, h1, h2, h3⟩ := above_chain L wf nc n v hv hf as hne ch
  refine ⟨m, _, h1, h2, h3, ?_, ?_, ?_, setVar_frame σ v _⟩
  · rw [getVar_setVar_same hv]
  · rw [getVar_setVar_same hv]; exact hf.2.2
  · rw [getVar_setVar_same hv]; exact hf.1

theorem below_chain_fields (L : Lang) (wf : WF L) {σ : Store} (nc : NoConstraints σ) (n v : Nat)
    (hv : v < σ.vars.length) (hf : FreshI (getVar σ v)) (bs : List Nat) (hne : bs ≠ [])
    (ch : ChainOn L (fun x => x ∈ bs)) :
    ∃ m σ', m ∈ bs ∧ (∀ b ∈ bs, Anc L m b) ∧ belowAll L (n+4) σ v bs = .ok σ' ∧
      (getVar σ' v).upper = some m ∧ (getVar σ' v).lower = none ∧ (getVar σ' v).bound = none ∧
      (∀ w, w ≠ v → getVar σ' w = getVar σ w) ∧ σ'.csets = σ.csets ∧ σ'.constrs = σ.constrs := by
  obtain ⟨m, h1, h2, h3⟩ := below_chain L wf nc n v hv hf bs hne ch
  refine ⟨m, _, h1, h2, h3, ?_, ?_, ?_, setVar_frame σ v _⟩
  · rw [getVar_setVar_same hv]
  · rw [getVar_setVar_same hv]; exact hf.2.1
  · rw [getVar_setVar_same hv]; exact hf.1

/-- when the bounds meet, the variable now reads as that base type -/
theorem supply_meet_follow {σ : Store} {v m : Nat} (hv : v < σ.vars.length) (i : VarInfo) (e : Bool) :
    followT (setVar σ v (resultI i (some m) (some m) e)) (.var v) = .app m [] :=
  followT_var_app (by rw [getVar_setVar_same hv, resultI_bound_meet])

/-! ## 4f. `Bottom` from below and `Top` from above are neutral -/

theorem unify_bot_left (L : Lang) (n : Nat) (σ : Store) (t : Term) (st sb sw : Bool) :
    unify L (n+1) σ (.app BOT []) t st sb sw = .ok σ := by
  unfold unify
  rw [followT_app]
  cases followT σ t <;> simp

theorem unify_top_right (L : Lang) (n : Nat) (σ : Store) (t : Term) (st sb sw : Bool) :
    unify L (n+1) σ t (.app TOP []) st sb sw = .ok σ := by
  unfold unify
  rw [followT_app]
  cases followT σ t <;> simp

/-! ## 5. decidable sufficient conditions (for examples) -/

theorem anc_of_opSub {L : Lang} (wf : WF L) {a b : Nat} (h : opSub L a b = true) (ha : a ≠ BOT)
    (hb : b ≠ TOP) : Anc L a b := by
  rcases (opSub_iff wf a b).mp h with h | h | h
  · exact absurd h ha
  · exact absurd h hb
  · exact h

/-- executable check that a list of operators is a chain of base types without `Top`/`Bottom` -/
def chainB (L : Lang) (as : List Nat) : Bool :=
  as.all fun a => arityOf L a == 0 && a != TOP && a != BOT &&
    as.all fun b => opSub L a b || opSub L b a

theorem chainOn_of_chainB {L : Lang} (wf : WF L) {as : List Nat} (h : chainB L as = true) :
    ChainOn L (fun x => x ∈ as) := by
  unfold chainB at h
  simp only [List.all_eq_true, Bool.and_eq_true, beq_iff_eq, bne_iff_ne, ne_eq, Bool.or_eq_true] at h
  refine ⟨fun a ha => (h a ha).1.1.1, fun a ha => (h a ha).1.1.2, fun a ha => (h a ha).1.2,
    fun a b ha hb => ?_⟩
  rcases (h a ha).2 b hb with h1 | h1
  · exact Or.inl (anc_of_opSub wf h1 (h a ha).1.2 (h b hb).1.1.2)
  · exact Or.inr (anc_of_opSub wf h1 (h b hb).1.2 (h a ha).1.1.2)

theorem chainOn_ops_of_chainB {L : Lang} (wf : WF L) {ops : List Op}
    (h : chainB L (ops.map fun op => op.2) = true) : ChainOn L (fun x => ∃ op ∈ ops, op.2 = x) :=
  chainOn_congr (fun _ ⟨op, ho, e⟩ => List.mem_map.mpr ⟨op, ho, e⟩) (chainOn_of_chainB wf h)

/-- executable form of `Compat` -/
def compatB (L : Lang) (ops : List Op) : Bool :=
  ops.all fun p => ops.all fun q => !(p.1 && !q.1) || opSub L p.2 q.2

theorem compat_iff_compatB {L : Lang} (wf : WF L) {ops : List Op}
    (ch : ChainOn L (fun x => ∃ op ∈ ops, op.2 = x)) : Compat L ops ↔ compatB L ops = true := by
  unfold compatB Compat
  simp only [List.all_eq_true, Bool.or_eq_true, Bool.not_eq_true', Bool.and_eq_false_iff,
    Bool.not_eq_false']
  constructor
  · intro h p hp q hq
    obtain ⟨d1, a⟩ := p
    obtain ⟨d2, b⟩ := q
    cases d1
    · exact Or.inl (Or.inl rfl)
    · cases d2
      · exact Or.inr ((opSub_iff wf a b).mpr (Or.inr (Or.inr (h a b hp hq))))
      · exact Or.inl (Or.inr rfl)
  · intro h a b ha hb
    rcases h (true, a) ha (false, b) hb with h1 | h1
    · rcases h1 with h1 | h1 <;> cases h1
    · exact anc_of_opSub wf h1 (ch.not_bot a ⟨_, ha, rfl⟩) (ch.not_top b ⟨_, hb, rfl⟩)

theorem noConstraints_of_all {σ : Store} (h : σ.csets.all (fun c => c.isEmpty) = true) : NoConstraints σ := by
  intro k
  unfold getCset
  rw [List.getD_eq_getElem?_getD]
  cases hk : σ.csets[k]? with
  | none => rfl
  | some c =>
    have hm := List.mem_of_getElem? hk
    have := (List.all_eq_true.mp h) c hm
    simpa using this

end Tfv.C05P
