import Tfv.Proofs.WorkflowAssoc
/-!
# `wfExpr` (the expression of a workflow resource): unfolding, an induction principle, invariants
-/
namespace Tfv

/-! ## the shape of an expression: what `Expr.fix()` (which only rewrites types) cannot change -/

/-- the resources whose tagged expressions occur in `e` -/
def TExpr.sharedKeys : TExpr → List Nat
  | .src _ _ _ => []
  | .op _ _ => []
  | .app f x _ => f.sharedKeys ++ x.sharedKeys
  | .shared k e => k :: e.sharedKeys

def TExpr.IsSrc (e : TExpr) : Prop := ∃ id l t, e = .src id l t

/-- the identity of an expression object: `(true, id)` for a source, `(false, key)` for a tagged expression -/
def TExpr.head : TExpr → Option (Bool × Nat)
  | .src id _ _ => some (true, id)
  | .shared k _ => some (false, k)
  | _ => none

/-- every tagged sub-expression, with the tags that occur inside it -/
def TExpr.subs : TExpr → List (Nat × List Nat)
  | .src _ _ _ => []
  | .op _ _ => []
  | .app f x _ => f.subs ++ x.subs
  | .shared k e => (k, e.sharedKeys) :: e.subs

/-- the shape of an expression as far as the graph construction's bookkeeping is concerned -/
def TExpr.sig (e : TExpr) : Option (Bool × Nat) × List (Nat × List Nat) := (e.head, e.subs)

theorem subs_keys : ∀ e : TExpr, e.subs.map (·.1) = e.sharedKeys := by
  intro e
  induction e with
  | src i l t => rfl
  | op n t => rfl
  | app f x t ihf ihx => simp only [TExpr.subs, TExpr.sharedKeys, List.map_append, ihf, ihx]
  | shared k e ih => simp only [TExpr.subs, TExpr.sharedKeys, List.map_cons, ih]

theorem sig_sharedKeys {e e' : TExpr} (h : e'.sig = e.sig) : e'.sharedKeys = e.sharedKeys := by
  rw [← subs_keys, ← subs_keys]
  have : e'.subs = e.subs := congrArg Prod.snd h
  rw [this]

theorem sig_isSrc {e e' : TExpr} (h : e'.sig = e.sig) (hs : e.IsSrc) : e'.IsSrc := by
  obtain ⟨id, l, t, rfl⟩ := hs
  have hh : e'.head = some (true, id) := congrArg Prod.fst h
  cases e' with
  | src i l' t' => exact ⟨_, _, _, rfl⟩
  | op n t' => cases hh
  | app f x t' => cases hh
  | shared k e0 => simp [TExpr.head] at hh

theorem sig_shared {e' : TExpr} {k : Nat} {e0 : TExpr} (h : e'.sig = (TExpr.shared k e0).sig) :
    ∃ e0', e' = .shared k e0' ∧ e0'.sharedKeys = e0.sharedKeys ∧ e0'.subs = e0.subs := by
  have hh : e'.head = some (false, k) := congrArg Prod.fst h
  have hs : e'.subs = (k, e0.sharedKeys) :: e0.subs := congrArg Prod.snd h
  cases e' with
  | src i l' t' => simp [TExpr.head] at hh
  | op n t' => cases hh
  | app f x t' => cases hh
  | shared k' e1 =>
    simp only [TExpr.head, Option.some.injEq, Prod.mk.injEq, true_and] at hh
    subst hh
    simp only [TExpr.subs, List.cons.injEq, Prod.mk.injEq, true_and] at hs
    exact ⟨e1, rfl, hs.1, hs.2⟩

/-- **`Expr.fix()` keeps the shape**: it rewrites the types stored in the nodes, nothing else -/
theorem fixExpr_sig (L : Lang) : ∀ (e : TExpr) (σ σ' : Store) (e' : TExpr),
    fixExpr L σ e = .ok (σ', e') → e'.sig = e.sig := by
  intro e
  induction e with
  | src i l t =>
    intro σ σ' e' h
    unfold fixExpr at h
    split at h
    · cases h
    · cases h; rfl
  | op n t =>
    intro σ σ' e' h
    unfold fixExpr at h
    cases h; rfl
  | app f x t ihf ihx =>
    intro σ σ' e' h
    unfold fixExpr at h
    split at h
    · cases h
    · rename_i σ1 f1 hf
      split at h
      · cases h
      · rename_i σ2 x1 hx
        split at h
        · cases h
        · cases h
          have h1 : f1.subs = f.subs := congrArg Prod.snd (ihf _ _ _ hf)
          have h2 : x1.subs = x.subs := congrArg Prod.snd (ihx _ _ _ hx)
          simp only [TExpr.sig, TExpr.head, TExpr.subs, h1, h2]
  | shared k e ih =>
    intro σ σ' e' h
    unfold fixExpr at h
    split at h
    · cases h
    · rename_i σ1 e1 he
      cases h
      have h0 := ih _ _ _ he
      have h1 : e1.subs = e.subs := congrArg Prod.snd h0
      simp only [TExpr.sig, TExpr.head, TExpr.subs, h1, sig_sharedKeys h0]

/-- one step of `input_exprs = [wfnode2expr(n) for n in input_nodes]` -/
def wfInputsStep (P : PLang) (ops : List OperatorDecl) (w : Wf) (pt : Bool) (n : Nat)
    (acc : WState × List TExpr) (i : Nat) : Except WErr (WState × List TExpr) :=
  match wfExpr P ops w pt n acc.1 i with
  | .error e => Except.error e
  | .ok (s', e) => .ok (s', acc.2 ++ [e])

/-- without passthrough: an input that is a tool output is replaced by a fresh stand-in source; the producer's
expression object is fixed now, and the fixed tree replaces the producer's entry in the memo table -/
def wfStandInStep (P : PLang) (w : Wf) (acc : WState × List TExpr) (p : Nat × TExpr) :
    Except WErr (WState × List TExpr) :=
  if w.sources.contains p.1 then .ok (acc.1, acc.2 ++ [p.2]) else
  let (xs1, src) := mkSourceT acc.1.xs
  match fixExpr P.types xs1.store p.2 with
  | .error err => Except.error (.typing err)
  | .ok (σ2, e2) =>
    let sid := match src with
      | .src id _ _ => id
      | _ => 0
    let ws' : WState :=
      { xs := { xs1 with store := σ2 }
        exprs := acc.1.exprs.map (fun q => if q.1 == p.1 then (q.1, e2) else q)
        srcTypes := srcTypesOf e2 acc.1.srcTypes
        indirection := acc.1.indirection ++ [(sid, p.1)] }
    .ok (ws', acc.2 ++ [src])

def wfStandIns (P : PLang) (w : Wf) (pt : Bool) (a : WfApp) (s1 : WState) (inputExprs : List TExpr) :
    Except WErr (WState × List TExpr) :=
  if pt then .ok (s1, inputExprs) else (a.inputs.zip inputExprs).foldlM (wfStandInStep P w) (s1, [])

theorem wfExpr_zero (P : PLang) (ops : List OperatorDecl) (w : Wf) (pt : Bool) (s : WState) (r : Nat) :
    wfExpr P ops w pt 0 s r = .error (.internal "fuel") := by
  rw [wfExpr]

theorem wfExpr_succ (P : PLang) (ops : List OperatorDecl) (w : Wf) (pt : Bool) (n : Nat) (s : WState) (r : Nat) :
    wfExpr P ops w pt (n+1) s r =
      match s.expr? r with
      | some e => .ok (s, e)
      | none =>
        match w.app? r with
        | none => .error (.internal "assert wfnode in wf.tool_outputs")
        | some a =>
          match a.inputs.foldlM (wfInputsStep P ops w pt n) (s, []) with
          | .error e => .error e
          | .ok (s1, inputExprs) =>
            match wfStandIns P w pt a s1 inputExprs with
            | .error e => .error e
            | .ok (s2, inputs) =>
              match parseExprToks P (typedBuilder P.types ops true) inputs s2.xs a.toks with
              | .error e => .error (.composition e)
              | .ok (xs3, e) =>
                .ok ({ s2 with xs := xs3, exprs := s2.exprs ++ [(r, TExpr.shared r e)] }, TExpr.shared r e) := by
  rw [wfExpr]; rfl

/-! ## big-step reading of the input fold -/

/-- a left-to-right run over the inputs, each one related to its result by `Φ` -/
inductive FoldRun (Φ : WState → Nat → WState → TExpr → Prop) : WState → List Nat → WState → List TExpr → Prop
  | nil (s : WState) : FoldRun Φ s [] s []
  | cons {s sm s1 : WState} {i : Nat} {e : TExpr} {is : List Nat} {es : List TExpr} :
      Φ s i sm e → FoldRun Φ sm is s1 es → FoldRun Φ s (i :: is) s1 (e :: es)

theorem FoldRun.mono {Φ Ψ : WState → Nat → WState → TExpr → Prop} (h : ∀ s i s' e, Φ s i s' e → Ψ s i s' e)
    {s s1 : WState} {is : List Nat} {es : List TExpr} (hr : FoldRun Φ s is s1 es) : FoldRun Ψ s is s1 es := by
  induction hr with
  | nil s => exact .nil s
  | cons h1 _ ih => exact .cons (h _ _ _ _ h1) ih

theorem FoldRun.length {Φ : WState → Nat → WState → TExpr → Prop} {s s1 : WState} {is : List Nat} {es : List TExpr}
    (hr : FoldRun Φ s is s1 es) : es.length = is.length := by
  induction hr with
  | nil s => rfl
  | cons _ _ ih => simp [ih]

theorem wfInputs_run (P : PLang) (ops : List OperatorDecl) (w : Wf) (pt : Bool) (n : Nat) :
    ∀ (is : List Nat) (s : WState) (acc : List TExpr) (s1 : WState) (out : List TExpr),
      is.foldlM (wfInputsStep P ops w pt n) (s, acc) = .ok (s1, out) →
      ∃ es, out = acc ++ es ∧ FoldRun (fun s i s' e => wfExpr P ops w pt n s i = .ok (s', e)) s is s1 es := by
  intro is
  induction is with
  | nil =>
    intro s acc s1 out h
    rw [Wfl.foldlM_nil_ok] at h
    simp only [Prod.mk.injEq] at h
    obtain ⟨rfl, rfl⟩ := h
    exact ⟨[], by simp, .nil _⟩
  | cons i is ih =>
    intro s acc s1 out h
    rw [Wfl.foldlM_cons_ok] at h
    obtain ⟨b1, h1, h2⟩ := h
    unfold wfInputsStep at h1
    simp only [] at h1
    split at h1
    · cases h1
    · rename_i sm e he
      simp only [Except.ok.injEq] at h1
      subst h1
      obtain ⟨es, rfl, hr⟩ := ih _ _ _ _ h2
      exact ⟨e :: es, by simp, .cons he hr⟩

/-- the data of one non-memoised call of `wfExpr` on resource `r` -/
structure WfStep (P : PLang) (ops : List OperatorDecl) (w : Wf) (pt : Bool) (s : WState) (r : Nat) (a : WfApp)
    (s1 : WState) (ies : List TExpr) (s2 : WState) (inputs : List TExpr) (xs3 : XState) (e0 : TExpr) : Prop where
  absent : s.expr? r = none
  app : w.app? r = some a
  stand : wfStandIns P w pt a s1 ies = .ok (s2, inputs)
  parse : parseExprToks P (typedBuilder P.types ops true) inputs s2.xs a.toks = .ok (xs3, e0)

theorem wfExpr_ok_cases (P : PLang) (ops : List OperatorDecl) (w : Wf) (pt : Bool) (n : Nat) (s : WState) (r : Nat)
    (s' : WState) (e : TExpr) (h : wfExpr P ops w pt (n+1) s r = .ok (s', e)) :
    (s.expr? r = some e ∧ s' = s) ∨
    ∃ a s1 ies s2 inputs xs3 e0, WfStep P ops w pt s r a s1 ies s2 inputs xs3 e0 ∧
      FoldRun (fun s i s' e => wfExpr P ops w pt n s i = .ok (s', e)) s a.inputs s1 ies ∧
      s' = { s2 with xs := xs3, exprs := s2.exprs ++ [(r, TExpr.shared r e0)] } ∧ e = TExpr.shared r e0 := by
  rw [wfExpr_succ] at h
  split at h
  · rename_i e1 he
    simp only [Except.ok.injEq, Prod.mk.injEq] at h
    exact .inl ⟨by rw [he, h.2], h.1.symm⟩
  · rename_i hnone
    split at h
    · cases h
    · rename_i a ha
      split at h
      · cases h
      · rename_i s1 ies hfold
        split at h
        · cases h
        · rename_i s2 inputs hstand
          split at h
          · cases h
          · rename_i xs3 e0 hparse
            simp only [Except.ok.injEq, Prod.mk.injEq] at h
            obtain ⟨es, hes, hr⟩ := wfInputs_run P ops w pt n _ _ _ _ _ hfold
            simp only [List.nil_append] at hes
            subst hes
            exact .inr ⟨a, s1, _, s2, inputs, xs3, e0, ⟨hnone, ha, hstand, hparse⟩, hr, h.1.symm, h.2.symm⟩

/-- **induction principle**: a property of successful `wfExpr` calls follows from the memoised case and the
case of one tool application whose inputs have the property -/
theorem wfExpr_induction (P : PLang) (ops : List OperatorDecl) (w : Wf) (pt : Bool)
    (Φ : WState → Nat → WState → TExpr → Prop)
    (memo : ∀ s r e, s.expr? r = some e → Φ s r s e)
    (step : ∀ s r a s1 ies s2 inputs xs3 e0, WfStep P ops w pt s r a s1 ies s2 inputs xs3 e0 →
      FoldRun Φ s a.inputs s1 ies →
      Φ s r { s2 with xs := xs3, exprs := s2.exprs ++ [(r, TExpr.shared r e0)] } (TExpr.shared r e0)) :
    ∀ n s r s' e, wfExpr P ops w pt n s r = .ok (s', e) → Φ s r s' e := by
  intro n
  induction n with
  | zero => intro s r s' e h; rw [wfExpr_zero] at h; cases h
  | succ n ih =>
    intro s r s' e h
    rcases wfExpr_ok_cases P ops w pt n s r s' e h with ⟨he, rfl⟩ | ⟨a, s1, ies, s2, inputs, xs3, e0, hst, hr, rfl, rfl⟩
    · exact memo _ r e he
    · exact step s r a s1 ies s2 inputs xs3 e0 hst (hr.mono (fun s i s' e h => ih s i s' e h))

/-! ## the stand-in fold

With passthrough nothing happens. Without, every input that is a tool output gets a stand-in source, and the
producer's entry in the memo table is replaced by its fixed tree: the keys of the table stay, and an entry changes
only into an expression of the same shape as the input expression it was fixed from. -/

/-- the two ways a stand-in step succeeds -/
theorem wfStandInStep_ok {P : PLang} {w : Wf} {b : WState × List TExpr} {p : Nat × TExpr} {b' : WState × List TExpr}
    (h : wfStandInStep P w b p = .ok b') :
    (p.1 ∈ w.sources ∧ b' = (b.1, b.2 ++ [p.2])) ∨
    (p.1 ∉ w.sources ∧ ∃ σ σ2 e2, fixExpr P.types σ p.2 = .ok (σ2, e2) ∧
      b'.1.exprs = b.1.exprs.map (fun q => if q.1 == p.1 then (q.1, e2) else q) ∧
      (∃ sid, b'.1.indirection = b.1.indirection ++ [(sid, p.1)]) ∧
      ∃ x, x.IsSrc ∧ b'.2 = b.2 ++ [x]) := by
  unfold wfStandInStep at h
  split at h
  · rename_i hc
    simp only [Except.ok.injEq] at h
    exact .inl ⟨List.contains_iff_mem.1 hc, h.symm⟩
  · rename_i hc
    simp only [] at h
    split at h
    · cases h
    · rename_i σ2 e2 hfix
      simp only [Except.ok.injEq] at h
      subst h
      exact .inr ⟨fun hm => hc (List.contains_iff_mem.2 hm), _, σ2, e2, hfix, rfl, ⟨_, rfl⟩, _, ⟨_, _, _, rfl⟩, rfl⟩

theorem wfStandIns_true (P : PLang) (w : Wf) (a : WfApp) (s1 : WState) (ies : List TExpr) (s2 : WState)
    (inputs : List TExpr) (h : wfStandIns P w true a s1 ies = .ok (s2, inputs)) : s2 = s1 ∧ inputs = ies := by
  unfold wfStandIns at h
  simp only [if_true, Except.ok.injEq, Prod.mk.injEq] at h
  exact ⟨h.1.symm, h.2.symm⟩

/-- the keys of the memo table stay -/
theorem wfStandIns_keys (P : PLang) (w : Wf) (pt : Bool) (a : WfApp) (s1 : WState) (ies : List TExpr) (s2 : WState)
    (inputs : List TExpr) (h : wfStandIns P w pt a s1 ies = .ok (s2, inputs)) :
    s2.exprs.map (·.1) = s1.exprs.map (·.1) := by
  unfold wfStandIns at h
  split at h
  · simp only [Except.ok.injEq, Prod.mk.injEq] at h
    rw [← h.1]
  · refine Wfl.foldlM_inv (wfStandInStep P w) (fun acc => acc.1.exprs.map (·.1) = s1.exprs.map (·.1)) _ _ _ ?_ rfl h
    intro b p b' _ hb hf
    rcases wfStandInStep_ok hf with ⟨_, rfl⟩ | ⟨_, _, _, e2, _, hex, _, _⟩
    · exact hb
    · show b'.1.exprs.map (·.1) = _
      rw [hex, map_replace_keys]; exact hb

/-- an entry either stays, or it is the entry of a tool output among the inputs and becomes an expression of the same
shape as the input expression (its fixed tree) -/
theorem wfStandIns_alook (P : PLang) (w : Wf) (pt : Bool) (a : WfApp) (s1 : WState) (ies : List TExpr) (s2 : WState)
    (inputs : List TExpr) (h : wfStandIns P w pt a s1 ies = .ok (s2, inputs)) (k : Nat) :
    s2.expr? k = s1.expr? k ∨
    (k ∉ w.sources ∧ ∃ z ∈ a.inputs.zip ies, z.1 = k ∧ ∃ v e2, s1.expr? k = some v ∧ e2.sig = z.2.sig ∧
      s2.expr? k = some e2) := by
  unfold wfStandIns at h
  split at h
  · simp only [Except.ok.injEq, Prod.mk.injEq] at h
    rw [← h.1]; exact .inl rfl
  · refine Wfl.foldlM_inv (wfStandInStep P w) (fun acc => acc.1.expr? k = s1.expr? k ∨
      (k ∉ w.sources ∧ ∃ z ∈ a.inputs.zip ies, z.1 = k ∧ ∃ v e2, s1.expr? k = some v ∧ e2.sig = z.2.sig ∧
        acc.1.expr? k = some e2)) _ _ _ ?_ (.inl rfl) h
    intro b p b' hp hb hf
    rcases wfStandInStep_ok hf with ⟨_, rfl⟩ | ⟨hns, σ, σ2, e2, hfix, hex, _, _⟩
    · exact hb
    · have hl : b'.1.expr? k = if k = p.1 then (b.1.expr? k).map (fun _ => e2) else b.1.expr? k := by
        rw [expr?_eq, hex, alook_map_setKey]; rfl
      by_cases hk : k = p.1
      · rw [if_pos hk] at hl
        cases hbk : b.1.expr? k with
        | none =>
          rw [hbk] at hl hb
          rcases hb with hb | ⟨_, _, _, _, _, _, _, _, hb⟩
          · exact .inl (by rw [hl, Option.map_none]; exact hb)
          · cases hb
        | some v0 =>
          rw [hbk, Option.map_some] at hl
          have hv : ∃ v, s1.expr? k = some v := by
            rcases hb with hb | ⟨_, _, _, _, v, _, hv, _, _⟩
            · exact ⟨v0, by rw [← hb, hbk]⟩
            · exact ⟨v, hv⟩
          obtain ⟨v, hv⟩ := hv
          exact .inr ⟨hk ▸ hns, p, hp, hk.symm, v, e2, hv, fixExpr_sig _ _ _ _ _ hfix, hl⟩
      · rw [if_neg hk] at hl
        rw [hl]; exact hb

theorem WfStep.keys {P : PLang} {ops : List OperatorDecl} {w : Wf} {pt : Bool} {s : WState} {r : Nat} {a : WfApp}
    {s1 : WState} {ies : List TExpr} {s2 : WState} {inputs : List TExpr} {xs3 : XState} {e0 : TExpr}
    (h : WfStep P ops w pt s r a s1 ies s2 inputs xs3 e0) : s2.exprs.map (·.1) = s1.exprs.map (·.1) :=
  wfStandIns_keys P w pt a s1 ies s2 inputs h.stand

theorem WfStep.entry_cases {P : PLang} {ops : List OperatorDecl} {w : Wf} {pt : Bool} {s : WState} {r : Nat} {a : WfApp}
    {s1 : WState} {ies : List TExpr} {s2 : WState} {inputs : List TExpr} {xs3 : XState} {e0 : TExpr}
    (h : WfStep P ops w pt s r a s1 ies s2 inputs xs3 e0) (k : Nat) :
    s2.expr? k = s1.expr? k ∨
    (k ∉ w.sources ∧ ∃ z ∈ a.inputs.zip ies, z.1 = k ∧ ∃ v e2, s1.expr? k = some v ∧ e2.sig = z.2.sig ∧
      s2.expr? k = some e2) :=
  wfStandIns_alook P w pt a s1 ies s2 inputs h.stand k

/-- a key without entry stays without entry -/
theorem WfStep.absent_stays {P : PLang} {ops : List OperatorDecl} {w : Wf} {pt : Bool} {s : WState} {r : Nat} {a : WfApp}
    {s1 : WState} {ies : List TExpr} {s2 : WState} {inputs : List TExpr} {xs3 : XState} {e0 : TExpr}
    (h : WfStep P ops w pt s r a s1 ies s2 inputs xs3 e0) {k : Nat} (hk : s1.expr? k = none) : s2.expr? k = none := by
  rw [expr?_eq] at hk ⊢
  exact alook_none_of_keys h.keys hk

end Tfv
