import Tfv.Proofs.GraphMemberWorkflow
import Tfv.Proofs.GraphExamples
/-!
# Examples for the membership theorems (running example of `GraphExamples`)
-/
namespace Tfv.GraphEx
open Tfv

/-- `k (f x) (f x)` where both arguments are the SAME expression object `f x` (tag 1): `k : B → B → C` -/
def exShared : TExpr :=
  .app (.app (.op "k" (tmFn tmB (tmFn tmB tmC))) (.shared 1 ex1) (tmFn tmB tmC)) (.shared 1 ex1) tmC

/-- the second occurrence of the shared expression is answered from the memo table: its leaves are visited once -/
theorem exShared_visit : visitLeaves [] [] exShared false =
    ([.op "k" (tmFn tmB (tmFn tmB tmC)) false, .op "f" (tmFn tmA tmB) true, .src 0 tmA], [0], [1]) := by
  rfl

def runShared : Except GErr (GState × Nat) := addExpr exG {} root none (initGraph exG {}) exShared none false

theorem runShared_member : runShared.toOption.map (fun p =>
      (p.1.triples.filter (fun t => t.1 == root), p.1.sharedNodes, p.1.srcNodes))
    = some ([(root, .tf "containsOperation", .ns "k"), (root, .tf "containsType", .ns "C"),
        (root, .tf "containsType", .ns "B"), (root, .tf "containsType", .ns "A"),
        (root, .tf "containsOperation", .ns "f")], [(1, 1)], [(0, 2)]) := by
  unfold runShared exShared ex1
  graph_eval

/-- the operator leaf `f : A → B` on node 7 with `with_membership` off and everything else default: the root gets NO
`containsType` triple for the node's type `B` but one for its supertype `A` (`with_membership_supertypes` is not gated by
`with_membership`), and no `containsOperation` triple -/
theorem membershipOff_triples :
    ((addExpr exG { withMembership := false } root none (initGraph exG { withMembership := false })
        (.op "f" (tmFn tmA tmB)) (some 7) false).toOption.map (fun p => p.1.triples))
    = some [(.b 7, .tf "via", .ns "f"), (.b 7, .tf "type", .ns "B"), (.b 7, .tf "subtypeOf", .ns "B"),
        (root, .tf "containsType", .ns "A"), (.b 7, .tf "subtypeOf", .ns "A")] := by
  graph_eval

/-- `with_membership_supertypes` off: only the node's own type -/
theorem membershipSupOff_triples :
    ((addExpr exG { withMembershipSupertypes := false } root none
        (initGraph exG { withMembershipSupertypes := false }) (.op "f" (tmFn tmA tmB)) (some 7) false).toOption.map
      (fun p => p.1.triples))
    = some [(.b 7, .tf "via", .ns "f"), (root, .tf "containsOperation", .ns "f"), (.b 7, .tf "type", .ns "B"),
        (.b 7, .tf "subtypeOf", .ns "B"), (root, .tf "containsType", .ns "B"), (.b 7, .tf "subtypeOf", .ns "A")] := by
  graph_eval

/-- `with_operators` off: neither `via` nor `containsOperation` -/
theorem operatorsOff_triples :
    ((addExpr exG { withOperators := false } root none (initGraph exG { withOperators := false })
        (.op "f" (tmFn tmA tmB)) (some 7) false).toOption.map (fun p => p.1.triples))
    = some [(.b 7, .tf "type", .ns "B"), (.b 7, .tf "subtypeOf", .ns "B"), (root, .tf "containsType", .ns "B"),
        (root, .tf "containsType", .ns "A"), (.b 7, .tf "subtypeOf", .ns "A")] := by
  graph_eval

/-- `with_intermediate_types` off: an operator in argument position (`intermediate`) is not annotated -/
theorem intermediateOff_triples :
    ((addExpr exG { withIntermediateTypes := false } root none (initGraph exG { withIntermediateTypes := false })
        (.op "f" (tmFn tmA tmB)) (some 7) true).toOption.map (fun p => p.1.triples))
    = some [(.b 7, .tf "via", .ns "f"), (root, .tf "containsOperation", .ns "f")] := by
  graph_eval

/-- `with_noncanonical_types` off: an operator whose output type `F(F(A))` is not canonical is not annotated (and does
not fail) -/
theorem noncanonicalOff_triples :
    ((addExpr exG { withNoncanonicalTypes := false } root none (initGraph exG { withNoncanonicalTypes := false })
        (.op "u" (tmFn tmA (tmF (tmF tmA)))) (some 7) false).toOption.map (fun p => p.1.triples))
    = some [(.b 7, .tf "via", .ns "u"), (root, .tf "containsOperation", .ns "u")] := by
  graph_eval

/-- default switches: the non-canonical output type gets a blank type node, which the root contains -/
theorem noncanonicalOn_member :
    ((addExpr exG {} root none (initGraph exG {}) (.op "u" (tmFn tmA (tmF (tmF tmA)))) (some 7) false).toOption.map
      (fun p => p.1.triples.filter (fun t => t.1 == root || t.2.1 == Node.tf "type")))
    = some [(root, .tf "containsOperation", .ns "u"), (.b 7, .tf "type", .b 0), (root, .tf "containsType", .b 0)] := by
  graph_eval

/-! ### `with_intermediate_types` off: the FIRST visit of a shared expression decides whether its type is annotated -/

def cInter : GCfg := { withIntermediateTypes := false, withMembershipSupertypes := false }
/-- the expression object `c : B` (tag 1) -/
def shC : TExpr := .shared 1 (.op "c" tmB)
/-- `g c` with `g : B → C` -/
def exGC : TExpr := .app (.op "g" (tmFn tmB tmC)) shC tmC

/-- `g c` alone: `c` is first visited as an argument (intermediate), its type `B` is not annotated -/
theorem interFirst_member :
    (addExpr exG cInter root none (initGraph exG cInter) exGC none false).toOption.map (fun p =>
      p.1.triples.filter (fun t => t.2.1 == Node.tf "containsType"))
    = some [(root, .tf "containsType", .ns "C")] := by
  unfold exGC shC cInter
  graph_eval

/-- `c` added on its own first (not intermediate), then `g c`: the second visit is answered from the memo table, and
the root contains `B` as well -/
theorem interSecond_member :
    ((addExpr exG cInter root none (initGraph exG cInter) shC none false).toOption.bind (fun p =>
      (addExpr exG cInter root none p.1 exGC none false).toOption)).map (fun p =>
        p.1.triples.filter (fun t => t.2.1 == Node.tf "containsType"))
    = some [(root, .tf "containsType", .ns "B"), (root, .tf "containsType", .ns "C")] := by
  unfold exGC shC cInter
  graph_eval

end Tfv.GraphEx
