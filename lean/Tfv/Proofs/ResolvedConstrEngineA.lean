import Tfv.Proofs.ResolvedConstrPrim
import Tfv.Proofs.ResolvedConstrClosed
import Tfv.Proofs.ResolvedConstrTrue
/-!
# The attachment invariant through the engine: statements, `unify`, `unifyList`, `fix`, `fixList`

`Pre L σ`: what the earlier inductions need (`OkStoreC`, `Chains`, `NoWild`); they provide it for every intermediate store.
Every function keeps `Inv L · P` for every set `P` of pending constraints; `bind` makes the constraints of the bound
variable pending and `checkConstraints` / `checkList` / `fulfill` discharge them.
-/
namespace Tfv.C03R
open Tfv Tfv.C03P Tfv.C03C Tfv.C16P Tfv.C17E

structure Pre (L : Lang) (σ : Store) : Prop where
  okc : OkStoreC L σ
  ch : Chains σ
  nw : NoWild σ

theorem Pre.step {L : Lang} {σ σ' : Store} (p : Pre L σ) (s : StepC L σ σ') (n : StepN σ σ') : Pre L σ' :=
  ⟨s.ok, n.ch, s.wild.noWild p.nw⟩

/-! ## 1. the earlier inductions, packaged -/

theorem unify_pre {L : Lang} (wf : WF L) {n : Nat} {σ σ' : Store} {a b : Term} {sb sw : Bool} (p : Pre L σ)
    (ha : okTerm L σ a = true) (hb : okTerm L σ b = true) (h : unify L n σ a b true sb sw = .ok σ') :
    Pre L σ' ∧ StepC L σ σ' := by
  have s := ((all_soundC wf n).1 σ a b sb sw σ' p.okc ha hb h).1
  have g := (all_noInternal L n).1 σ a b true sb sw p.ch
  rw [h] at g
  exact ⟨p.step s g, s⟩

theorem unifyList_pre {L : Lang} (wf : WF L) {n : Nat} {σ σ' : Store} {vs : List Bool} {xs ys : List Term}
    {sb sw : Bool} (p : Pre L σ) (hx : okTermL L σ xs = true) (hy : okTermL L σ ys = true)
    (h1 : xs.length = vs.length) (h2 : ys.length = vs.length)
    (h : unifyList L n σ vs xs ys true sb sw = .ok σ') : Pre L σ' ∧ StepC L σ σ' := by
  have s := ((all_soundC wf n).2.1 σ vs xs ys sb sw σ' p.okc hx hy h1 h2 h).1
  have g := (all_noInternal L n).2.1 σ vs xs ys true sb sw p.ch
  rw [h] at g
  exact ⟨p.step s g, s⟩

theorem bind_pre {L : Lang} (wf : WF L) {n : Nat} {σ σ' : Store} {v : Nat} {t : Term} (p : Pre L σ)
    (hv : v < σ.vars.length) (ht : okTerm L σ t = true) (hp : BindPre L σ v t)
    (hnb : (getVar σ v).bound = none) (hf : Final σ t) (h : bind L n σ v t = .ok σ') :
    Pre L σ' ∧ StepC L σ σ' := by
  have s := ((all_soundC wf n).2.2.1 σ v t σ' p.okc hv ht hp h).1
  have g := (all_noInternal L n).2.2.1 σ v t p.ch hnb hf
  rw [h] at g
  exact ⟨p.step s g, s⟩

theorem above_pre {L : Lang} (wf : WF L) {n : Nat} {σ σ' : Store} {v new : Nat} (p : Pre L σ)
    (hv : v < σ.vars.length) (h1 : new < L.length) (h2 : arityOf L new = 0)
    (hnb : (getVar σ v).bound = none) (h : above L n σ v new = .ok σ') : Pre L σ' ∧ StepC L σ σ' := by
  have s := ((all_soundC wf n).2.2.2.1 σ v new σ' p.okc hv h1 h2 h).1
  have g := (all_noInternal L n).2.2.2.1 σ v new p.ch hnb
  rw [h] at g
  exact ⟨p.step s g, s⟩

theorem below_pre {L : Lang} (wf : WF L) {n : Nat} {σ σ' : Store} {v new : Nat} (p : Pre L σ)
    (hv : v < σ.vars.length) (h1 : new < L.length) (h2 : arityOf L new = 0)
    (hnb : (getVar σ v).bound = none) (h : below L n σ v new = .ok σ') : Pre L σ' ∧ StepC L σ σ' := by
  have s := ((all_soundC wf n).2.2.2.2.1 σ v new σ' p.okc hv h1 h2 h).1
  have g := (all_noInternal L n).2.2.2.2.1 σ v new p.ch hnb
  rw [h] at g
  exact ⟨p.step s g, s⟩

theorem fix_pre {L : Lang} (wf : WF L) {n : Nat} {σ σ' : Store} {t t' : Term} {pl : Bool} (p : Pre L σ)
    (ht : okTerm L σ t = true) (h : fix L n σ t pl = .ok (σ', t')) :
    Pre L σ' ∧ StepC L σ σ' ∧ okTerm L σ' t' = true := by
  obtain ⟨s, ht', _⟩ := (all_soundC wf n).2.2.2.2.2.1 σ t pl σ' t' p.okc ht h
  have g := (all_noInternal L n).2.2.2.2.2.1 σ t pl p.ch
  rw [h] at g
  exact ⟨p.step s g, s, ht'⟩

theorem fixList_pre {L : Lang} (wf : WF L) {n : Nat} {σ σ' : Store} {vs : List Bool} {ps : List Term} {pl : Bool}
    (p : Pre L σ) (hps : okTermL L σ ps = true) (h : fixList L n σ vs ps pl = .ok σ') :
    Pre L σ' ∧ StepC L σ σ' := by
  have s := (all_soundC wf n).2.2.2.2.2.2.1 σ vs ps pl σ' p.okc hps h
  have g := (all_noInternal L n).2.2.2.2.2.2.1 σ vs ps pl p.ch
  rw [h] at g
  exact ⟨p.step s g, s⟩

theorem check_pre {L : Lang} (wf : WF L) {n : Nat} {σ σ' : Store} {v : Nat} (p : Pre L σ)
    (h : checkConstraints L n σ v = .ok σ') : Pre L σ' ∧ StepC L σ σ' := by
  have s := (all_soundC wf n).2.2.2.2.2.2.2.1 σ v σ' p.okc h
  have g := (all_noInternal L n).2.2.2.2.2.2.2.1 σ v p.ch
  rw [h] at g
  exact ⟨p.step s g, s⟩

theorem checkList_pre {L : Lang} (wf : WF L) {n : Nat} {σ σ' : Store} {v : Nat} {cs : List Nat} (p : Pre L σ)
    (hcs : ∀ c, c ∈ cs → c < σ.constrs.length) (h : checkList L n σ v cs = .ok σ') :
    Pre L σ' ∧ StepC L σ σ' := by
  have s := (all_soundC wf n).2.2.2.2.2.2.2.2.1 σ v cs σ' p.okc hcs h
  have g := (all_noInternal L n).2.2.2.2.2.2.2.2.1 σ v cs p.ch
  rw [h] at g
  exact ⟨p.step s g, s⟩

theorem fulfill_pre {L : Lang} (wf : WF L) {n : Nat} {σ σ' : Store} {c : Nat} {d : Bool} (p : Pre L σ)
    (hc : c < σ.constrs.length) (h : fulfill L n σ c = .ok (σ', d)) : Pre L σ' ∧ StepC L σ σ' := by
  have s := (all_soundC wf n).2.2.2.2.2.2.2.2.2.1 σ c σ' d p.okc hc h
  have g := (all_noInternal L n).2.2.2.2.2.2.2.2.2.1 σ c p.ch
  rw [h] at g
  exact ⟨p.step s g, s⟩

theorem minimize_pre {L : Lang} (wf : WF L) {n : Nat} {σ σ' : Store} {c : Nat} (p : Pre L σ)
    (hc : c < σ.constrs.length) (h : minimize L n σ c = .ok σ') : Pre L σ' ∧ StepC L σ σ' ∧ StepN σ σ' := by
  have s := (all_soundC wf n).2.2.2.2.2.2.2.2.2.2.1 σ c σ' p.okc hc h
  have g := ((all_noInternal L n).2.2.2.2.2.2.2.2.2.2.1 σ c p.ch).1
  rw [h] at g
  exact ⟨p.step s g, s, g⟩

theorem minLoop_pre {L : Lang} (wf : WF L) {n : Nat} {σ σ' : Store} {alts mins out : List Term} (p : Pre L σ)
    (h1 : okTermL L σ alts = true) (h2 : okTermL L σ mins = true)
    (h : minLoop L n σ alts mins = .ok (σ', out)) : Pre L σ' ∧ StepC L σ σ' ∧ okTermL L σ' out = true := by
  obtain ⟨s, ho⟩ := (all_soundC wf n).2.2.2.2.2.2.2.2.2.2.2 σ alts mins σ' out p.okc h1 h2 h
  have g := (all_noInternal L n).2.2.2.2.2.2.2.2.2.2.2 σ alts mins p.ch
  rw [h] at g
  exact ⟨p.step s g, s, ho⟩

theorem newVars_pre {L : Lang} {σ : Store} (p : Pre L σ) (n : Nat) :
    Pre L (newVars σ n).1 ∧ StepC L σ (newVars σ n).1 ∧ okTermL L (newVars σ n).1 (newVars σ n).2 = true ∧
      (newVars σ n).2.length = n := by
  obtain ⟨s, h1, h2⟩ := stepC_newVars (L := L) n p.okc
  exact ⟨p.step s (stepN_newVars p.ch n), s, h1, h2⟩

/-! ## 2. the statements -/

def UnifyR (L : Lang) (n : Nat) : Prop :=
  ∀ σ a b sb sw σ' (P : Pend), Pre L σ → okTerm L σ a = true → okTerm L σ b = true → Inv L σ P →
    unify L n σ a b true sb sw = .ok σ' → StepR L σ σ' ∧ Inv L σ' P

def UnifyListR (L : Lang) (n : Nat) : Prop :=
  ∀ σ vs xs ys sb sw σ' (P : Pend), Pre L σ → okTermL L σ xs = true → okTermL L σ ys = true →
    xs.length = vs.length → ys.length = vs.length → Inv L σ P →
    unifyList L n σ vs xs ys true sb sw = .ok σ' → StepR L σ σ' ∧ Inv L σ' P

def BindR (L : Lang) (n : Nat) : Prop :=
  ∀ σ v t σ' (P : Pend), Pre L σ → v < σ.vars.length → okTerm L σ t = true → BindPre L σ v t →
    (getVar σ v).bound = none → Final σ t → Inv L σ P →
    bind L n σ v t = .ok σ' → StepR L σ σ' ∧ Inv L σ' P

def AboveR (L : Lang) (n : Nat) : Prop :=
  ∀ σ v new σ' (P : Pend), Pre L σ → v < σ.vars.length → new < L.length → arityOf L new = 0 →
    (getVar σ v).bound = none → Inv L σ P → above L n σ v new = .ok σ' → StepR L σ σ' ∧ Inv L σ' P

def BelowR (L : Lang) (n : Nat) : Prop :=
  ∀ σ v new σ' (P : Pend), Pre L σ → v < σ.vars.length → new < L.length → arityOf L new = 0 →
    (getVar σ v).bound = none → Inv L σ P → below L n σ v new = .ok σ' → StepR L σ σ' ∧ Inv L σ' P

def FixR (L : Lang) (n : Nat) : Prop :=
  ∀ σ t pl σ' t' (P : Pend), Pre L σ → okTerm L σ t = true → Inv L σ P →
    fix L n σ t pl = .ok (σ', t') → StepR L σ σ' ∧ Inv L σ' P

def FixListR (L : Lang) (n : Nat) : Prop :=
  ∀ σ vs ps pl σ' (P : Pend), Pre L σ → okTermL L σ ps = true → Inv L σ P →
    fixList L n σ vs ps pl = .ok σ' → StepR L σ σ' ∧ Inv L σ' P

/-- `checkConstraints v` discharges the constraints of `v` -/
def CheckR (L : Lang) (n : Nat) : Prop :=
  ∀ σ v σ' (P : Pend), Pre L σ → Inv L σ (P.addP (fun c => c ∈ cs σ v)) →
    checkConstraints L n σ v = .ok σ' → StepR L σ σ' ∧ Inv L σ' P

def CheckListR (L : Lang) (n : Nat) : Prop :=
  ∀ σ v l σ' (P : Pend), Pre L σ → (∀ c, c ∈ l → c < σ.constrs.length) →
    Inv L σ (P.addP (fun c => c ∈ l)) → checkList L n σ v l = .ok σ' → StepR L σ σ' ∧ Inv L σ' P

/-- `fulfill c` discharges `c`; when it answers `true` the constraint is no longer an unfulfilled subtype constraint -/
def FulfillR (L : Lang) (n : Nat) : Prop :=
  ∀ σ c σ' d (P : Pend), Pre L σ → c < σ.constrs.length → Inv L σ (P.addP (fun x => x = c)) →
    fulfill L n σ c = .ok (σ', d) →
    StepR L σ σ' ∧ Inv L σ' P ∧ (d = true → ¬ Unful σ' c)

/-- `minimize c` is only run on a pending constraint -/
def MinimizeR (L : Lang) (n : Nat) : Prop :=
  ∀ σ c σ' (P : Pend), Pre L σ → c < σ.constrs.length → P.p c → P.w c → Unful σ c → Inv L σ P →
    minimize L n σ c = .ok σ' → StepR L σ σ' ∧ Inv L σ' P

def MinLoopR (L : Lang) (n : Nat) : Prop :=
  ∀ σ alts mins σ' out (P : Pend), Pre L σ → okTermL L σ alts = true → okTermL L σ mins = true →
    Inv L σ P → minLoop L n σ alts mins = .ok (σ', out) → StepR L σ σ' ∧ Inv L σ' P ∧
      ∀ m, m ∈ out → ∃ a, a ∈ alts ++ mins ∧ Same σ' m a

/-! ## 3. `unify` -/

theorem unify_stepR {L : Lang} (wf : WF L) {n : Nat} (hunify : UnifyR L n) (hlist : UnifyListR L n)
    (hbind : BindR L n) (habove : AboveR L n) (hbelow : BelowR L n) : UnifyR L (n+1) := by
  intro σ a b sb sw σ' P p ha hb inv h
  have ok := p.okc.ok
  have ha' := okTerm_followT ok a ha
  have hb' := okTerm_followT ok b hb
  unfold unify at h
  split at h
  · next av bv e1 e2 =>
    rw [e1] at ha'; rw [e2] at hb'
    split at h
    · exact hbind σ av _ σ' P p (okTerm_var.mp ha') hb' (bindPre_var L σ av bv) (p.ch.unbound e1)
        (p.ch.unbound e2) inv h
    · injection h with h; subst h
      exact ⟨StepR.refl L σ, inv⟩
  · next ao as bo bs e1 e2 =>
    rw [e1] at ha'; rw [e2] at hb'
    obtain ⟨hao, hasl, has⟩ := okTerm_app.mp ha'
    obtain ⟨hbo, hbsl, hbs⟩ := okTerm_app.mp hb'
    split at h
    · injection h with h; subst h
      exact ⟨StepR.refl L σ, inv⟩
    · split at h
      · split at h
        · injection h with h; subst h
          exact ⟨StepR.refl L σ, inv⟩
        · split at h
          · cases h
          · split at h
            · cases h
            · injection h with h; subst h
              exact ⟨StepR.refl L σ, inv⟩
      · split at h
        · next heq =>
          have heq : ao = bo := by simpa using heq
          subst heq
          exact hlist σ _ as bs sb sw σ' P p has hbs hasl hbsl inv h
        · cases h
  · next av bo bs e1 e2 =>
    rw [e1] at ha'; rw [e2] at hb'
    obtain ⟨hbo, hbsl, hbs⟩ := okTerm_app.mp hb'
    have hav := okTerm_var.mp ha'
    have hnb := p.ch.unbound e1
    split at h
    · injection h with h; subst h
      exact ⟨StepR.refl L σ, inv⟩
    · split at h
      · cases h
      · split at h
        · next h0 =>
          have h0 : arityOf L bo = 0 := by simpa using h0
          split at h
          · injection h with h; subst h
            exact ⟨StepR.refl L σ, inv⟩
          · simp only [↓reduceIte] at h
            exact hbelow σ av bo σ' P p hav hbo h0 hnb inv h
        · next h0 =>
          have h0 : arityOf L bo ≠ 0 := by simpa using h0
          split at h
          · split at h
            next σ1 fresh hnv =>
            obtain ⟨p1, s1, hfresh, hflen⟩ := newVars_pre p bs.length
            obtain ⟨i1, r1⟩ := inv_newVars bs.length p.okc p.ch inv
            rw [hnv] at p1 s1 hfresh hflen i1 r1
            simp only [] at p1 s1 hfresh hflen i1 r1
            have hnb1 : (getVar σ1 av).bound = none := by
              have := (boundEq_newVars bs.length σ).bound av; rw [hnv] at this; exact this.trans hnb
            split at h
            · cases h
            · next σ2 hb2 =>
              have hav1 := Nat.lt_of_lt_of_le hav s1.len
              have hterm : okTerm L σ1 (.app bo fresh) = true :=
                okTerm_app.mpr ⟨hbo, by rw [hflen]; exact hbsl, hfresh⟩
              obtain ⟨r2, i2⟩ := hbind σ1 av _ σ2 P p1 hav1 hterm (bindPre_compound h0) hnb1 trivial i1 hb2
              obtain ⟨p2, s2⟩ := bind_pre wf p1 hav1 hterm (bindPre_compound h0) hnb1 trivial hb2
              have s12 := s1.trans s2
              obtain ⟨r3, i3⟩ := hunify σ2 (.var av) (.app bo bs) sb sw σ' P p2 (s12.okTerm ha') (s12.okTerm hb') i2 h
              exact ⟨r1.trans (r2.trans r3), i3⟩
          · exact hbind σ av _ σ' P p hav hb' (bindPre_compound h0) hnb trivial inv h
  · next ao as bv e1 e2 =>
    rw [e1] at ha'; rw [e2] at hb'
    obtain ⟨hao, hasl, has⟩ := okTerm_app.mp ha'
    have hbv := okTerm_var.mp hb'
    have hnb := p.ch.unbound e2
    split at h
    · injection h with h; subst h
      exact ⟨StepR.refl L σ, inv⟩
    · split at h
      · cases h
      · split at h
        · next h0 =>
          have h0 : arityOf L ao = 0 := by simpa using h0
          split at h
          · injection h with h; subst h
            exact ⟨StepR.refl L σ, inv⟩
          · simp only [↓reduceIte] at h
            exact habove σ bv ao σ' P p hbv hao h0 hnb inv h
        · next h0 =>
          have h0 : arityOf L ao ≠ 0 := by simpa using h0
          split at h
          · split at h
            next σ1 fresh hnv =>
            obtain ⟨p1, s1, hfresh, hflen⟩ := newVars_pre p as.length
            obtain ⟨i1, r1⟩ := inv_newVars as.length p.okc p.ch inv
            rw [hnv] at p1 s1 hfresh hflen i1 r1
            simp only [] at p1 s1 hfresh hflen i1 r1
            have hnb1 : (getVar σ1 bv).bound = none := by
              have := (boundEq_newVars as.length σ).bound bv; rw [hnv] at this; exact this.trans hnb
            split at h
            · cases h
            · next σ2 hb2 =>
              have hbv1 := Nat.lt_of_lt_of_le hbv s1.len
              have hterm : okTerm L σ1 (.app ao fresh) = true :=
                okTerm_app.mpr ⟨hao, by rw [hflen]; exact hasl, hfresh⟩
              obtain ⟨r2, i2⟩ := hbind σ1 bv _ σ2 P p1 hbv1 hterm (bindPre_compound h0) hnb1 trivial i1 hb2
              obtain ⟨p2, s2⟩ := bind_pre wf p1 hbv1 hterm (bindPre_compound h0) hnb1 trivial hb2
              have s12 := s1.trans s2
              obtain ⟨r3, i3⟩ := hunify σ2 (.var bv) (.var bv) sb sw σ' P p2 (s12.okTerm hb') (s12.okTerm hb') i2 h
              exact ⟨r1.trans (r2.trans r3), i3⟩
          · exact hbind σ bv _ σ' P p hbv ha' (bindPre_compound h0) hnb trivial inv h

/-! ## 4. `unifyList` -/

theorem unifyList_stepR {L : Lang} (wf : WF L) {n : Nat} (hunify : UnifyR L n) (hlist : UnifyListR L n) :
    UnifyListR L (n+1) := by
  intro σ vs xs ys sb sw σ' P p hxs hys hlx hly inv h
  match vs, xs, ys, hlx, hly with
  | [], [], [], _, _ =>
    rw [unifyList_nil] at h
    injection h with h; subst h
    exact ⟨StepR.refl L σ, inv⟩
  | [], _ :: _, _, hlx, _ => simp at hlx
  | [], [], _ :: _, _, hly => simp at hly
  | _ :: _, [], _, hlx, _ => simp at hlx
  | _ :: _, _ :: _, [], _, hly => simp at hly
  | v :: vs, x :: xs, y :: ys, hlx, hly =>
    rw [unifyList_cons] at h
    obtain ⟨hx, hxs'⟩ := okTermL_cons.mp hxs
    obtain ⟨hy, hys'⟩ := okTermL_cons.mp hys
    split at h
    · cases h
    · next σ1 h1 =>
      have k1 : (StepR L σ σ1 ∧ Inv L σ1 P) ∧ Pre L σ1 ∧ StepC L σ σ1 := by
        cases v with
        | true =>
          have h1' : unify L n σ x y true sb sw = .ok σ1 := by simpa using h1
          exact ⟨hunify σ x y sb sw σ1 P p hx hy inv h1', unify_pre wf p hx hy h1'⟩
        | false =>
          have h1' : unify L n σ y x true sb sw = .ok σ1 := by simpa using h1
          exact ⟨hunify σ y x sb sw σ1 P p hy hx inv h1', unify_pre wf p hy hx h1'⟩
      obtain ⟨⟨r1, i1⟩, p1, s1⟩ := k1
      obtain ⟨r2, i2⟩ := hlist σ1 vs xs ys sb sw σ' P p1 (s1.okTermL hxs') (s1.okTermL hys')
        (by simpa using hlx) (by simpa using hly) i1 h
      exact ⟨r1.trans r2, i2⟩

/-! ## 5. `fix`, `fixList` -/

theorem fix_stepR {L : Lang} {n : Nat} (hbind : BindR L n) (hlist : FixListR L n) : FixR L (n+1) := by
  intro σ t pl σ' t' P p ht inv h
  have ok := p.okc.ok
  have ht' := okTerm_followT ok t ht
  unfold fix at h
  split at h
  · next o args e1 =>
    rw [e1] at ht'
    split at h
    · cases h
    · next σ1 h1 =>
      injection h with h
      injection h with h2 h3
      subst h2
      exact hlist σ _ args pl σ1 P p (okTerm_app.mp ht').2.2 inv h1
  · next v e1 =>
    rw [e1] at ht'
    have hv := okTerm_var.mp ht'
    have hnb := p.ch.unbound e1
    simp only [] at h
    split at h
    · cases h
    · next σ1 h1 =>
      injection h with h
      injection h with h2 h3
      subst h2
      have bind_own : ∀ o, ((getVar σ v).lower = some o ∨ (getVar σ v).upper = some o) →
          bind L n σ v (.app o []) = .ok σ1 → StepR L σ σ1 ∧ Inv L σ1 P := by
        intro o ho hb
        have ho0 : o < L.length ∧ arityOf L o = 0 := by
          rcases ho with ho | ho
          · exact ok.lower v o ho
          · exact ok.upper v o ho
        refine hbind σ v _ σ1 P p hv (okTerm_base ho0.1 ho0.2) ?_ hnb trivial inv hb
        intro o' args' e _
        injection e with e _
        subst e
        rcases ho with ho | ho
        · refine ⟨fun l hl => Or.inl ?_, fun u hu => Or.inl (ok.ordered v _ u ho hu)⟩
          rw [ho] at hl; injection hl with hl; subst hl; exact opSub_self L _
        · refine ⟨fun l hl => Or.inl (ok.ordered v l _ hl ho), fun u hu => Or.inl ?_⟩
          rw [ho] at hu; injection hu with hu; subst hu; exact opSub_self L _
      split at h1
      · split at h1
        · next l hl => exact bind_own l (Or.inl hl) h1
        · injection h1 with h1; subst h1; exact ⟨StepR.refl L σ, inv⟩
      · split at h1
        · split at h1
          · next u hu => exact bind_own u (Or.inr hu) h1
          · injection h1 with h1; subst h1; exact ⟨StepR.refl L σ, inv⟩
        · injection h1 with h1; subst h1; exact ⟨StepR.refl L σ, inv⟩

theorem fixList_stepR {L : Lang} (wf : WF L) {n : Nat} (hfix : FixR L n) (hlist : FixListR L n) :
    FixListR L (n+1) := by
  intro σ vs ps pl σ' P p hps inv h
  match vs, ps with
  | [], ps =>
    rw [fixList_nil_left] at h
    injection h with h; subst h; exact ⟨StepR.refl L σ, inv⟩
  | vs, [] =>
    rw [fixList_nil_right] at h
    injection h with h; subst h; exact ⟨StepR.refl L σ, inv⟩
  | v :: vs, p0 :: ps =>
    rw [fixList_cons] at h
    obtain ⟨hp, hps'⟩ := okTermL_cons.mp hps
    split at h
    · cases h
    · next σ1 t1 h1 =>
      obtain ⟨r1, i1⟩ := hfix σ p0 _ σ1 t1 P p hp inv h1
      obtain ⟨p1, s1, _⟩ := fix_pre wf p hp h1
      obtain ⟨r2, i2⟩ := hlist σ1 vs ps pl σ' P p1 (s1.okTermL hps') i1 h
      exact ⟨r1.trans r2, i2⟩

end Tfv.C03R
