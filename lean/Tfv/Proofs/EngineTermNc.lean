import Tfv.Proofs.EngineTermMonoMain
import Tfv.Proofs.BoundsApply
/-!
# Constant fuel for the bound-tightening machine of the constraint-free engine

On a store without constraints `check_constraints` has nothing to re-check, so `bind` (to a basic type), `above`,
`below` and `fix` on a variable end within a constant number of nested calls (closed forms of
`Tfv/Proofs/Bounds.lean`).
-/
namespace Tfv.C17T
open Tfv Tfv.C05P

theorem bindBaseI_ne_oof (L : Lang) (i : VarInfo) (o : Nat) : bindBaseI L i o ≠ .error .outOfFuel := by
  unfold bindBaseI
  repeat' split
  all_goals (intro h; cases h)

theorem closeI_ne_oof (L : Lang) (i : VarInfo) : closeI L i ≠ .error .outOfFuel := by
  unfold closeI
  split
  · split
    · exact bindBaseI_ne_oof L _ _
    · intro h; cases h
  · intro h; cases h

theorem closeDI_ne_oof (L : Lang) (i : VarInfo) : closeDI L i ≠ .error .outOfFuel := by
  unfold closeDI
  split
  · split
    · exact bindBaseI_ne_oof L _ _
    · intro h; cases h
  · intro h; cases h

theorem aboveI_ne_oof (L : Lang) (i : VarInfo) (new : Nat) : aboveI L i new ≠ .error .outOfFuel := by
  unfold aboveI
  simp only []
  repeat' split
  all_goals first | exact bindBaseI_ne_oof L _ _ | exact closeI_ne_oof L _ | (intro h; cases h)

theorem belowI_ne_oof (L : Lang) (i : VarInfo) (new : Nat) : belowI L i new ≠ .error .outOfFuel := by
  unfold belowI
  simp only []
  repeat' split
  all_goals first | exact bindBaseI_ne_oof L _ _ | exact closeDI_ne_oof L _ | (intro h; cases h)

theorem liftI_ne_oof (σ : Store) (v : Nat) {r : Except Err VarInfo} (h : r ≠ .error .outOfFuel) :
    liftI σ v r ≠ .error .outOfFuel := by
  cases r with
  | ok i => intro h'; cases h'
  | error e => intro h'; apply h; cases h'; rfl

theorem checkConstraints_nc_ne_oof (L : Lang) {σ : Store} (nc : NoConstraints σ) {fuel : Nat} (hf : 2 ≤ fuel) (v : Nat) :
    checkConstraints L fuel σ v = .ok σ := by
  obtain ⟨n, rfl⟩ : ∃ n, fuel = n + 2 := ⟨fuel - 2, by omega⟩
  exact checkConstraints_nc L nc n v

theorem bind_base_ne_oof (L : Lang) {σ : Store} (nc : NoConstraints σ) {fuel : Nat} (hf : 3 ≤ fuel) (v o : Nat)
    (h0 : arityOf L o = 0) : bind L fuel σ v (.app o []) ≠ .error .outOfFuel := by
  obtain ⟨n, rfl⟩ : ∃ n, fuel = n + 3 := ⟨fuel - 3, by omega⟩
  rw [bind_base L nc n v o h0]
  exact liftI_ne_oof σ v (bindBaseI_ne_oof L _ _)

theorem above_ne_oof (L : Lang) {σ : Store} (nc : NoConstraints σ) {fuel : Nat} (hf : 4 ≤ fuel) (v new : Nat)
    (hv : v < σ.vars.length) (htop : arityOf L TOP = 0) (hnew : arityOf L new = 0)
    (hl : ∀ l, (getVar σ v).lower = some l → arityOf L l = 0) :
    above L fuel σ v new ≠ .error .outOfFuel := by
  obtain ⟨n, rfl⟩ : ∃ n, fuel = n + 4 := ⟨fuel - 4, by omega⟩
  rw [C05P.above_eq L nc n v new hv htop hnew hl]
  exact liftI_ne_oof σ v (aboveI_ne_oof L _ _)

theorem below_ne_oof (L : Lang) {σ : Store} (nc : NoConstraints σ) {fuel : Nat} (hf : 4 ≤ fuel) (v new : Nat)
    (hv : v < σ.vars.length) (hbot : arityOf L BOT = 0) (hnew : arityOf L new = 0)
    (hl : ∀ u, (getVar σ v).upper = some u → arityOf L u = 0) :
    below L fuel σ v new ≠ .error .outOfFuel := by
  obtain ⟨n, rfl⟩ : ∃ n, fuel = n + 4 := ⟨fuel - 4, by omega⟩
  rw [C05P.below_eq L nc n v new hv hbot hnew hl]
  exact liftI_ne_oof σ v (belowI_ne_oof L _ _)

end Tfv.C17T
