import Tfv.Proofs.FitsApplyBaseOwn6
/-!
# C06 end to end, an alternative that REPEATS its variable in one polarity: `x ** r(x) [x << {G(b, b), F(c)}]`, part 1:
`minimize` and `instantiate`
-/
namespace Tfv.C06B
open Tfv Tfv.C03P Tfv.C03C Tfv.C16P Tfv.C17E Tfv.C03R Tfv.C06A Tfv.C05P

/-- `minimize` leaves two compound patterns with different heads alone (any patterns of size ≤ 3) -/
theorem minLoop_two (L : Lang) (wf : WF L) (σ : Store) (a : Ty) (h1 h2 : Nat) (as1 as2 : List Term)
    (k1 : arityOf L h1 ≠ 0) (k2 : arityOf L h2 ≠ 0) (hne : h1 ≠ h2)
    (s1 : tsz (.app h1 as1) ≤ 3) (s2 : tsz (.app h2 as2) ≤ 3) (hi : Inert σ a)
    (n : Nat) (hn : 6 * Ty.size a ≤ n) :
    minLoop L (n+3) σ [.app h1 as1, .app h2 as2] [] = .ok (σ, [.app h1 as1, .app h2 as2]) := by
  have hS := size_pos a
  have f1 : ∀ k, 6 * Ty.size a ≤ k → fix L k σ (.app h1 as1) true = .ok (σ, .app h1 as1) := fun k hk => by
    rw [(fix_fixList_inert L σ a hi k).1 (.app h1 as1) true (by
      have := Nat.mul_le_mul_right (Ty.size a) s1; omega)]
  have f2 : ∀ k, 6 * Ty.size a ≤ k → fix L k σ (.app h2 as2) true = .ok (σ, .app h2 as2) := fun k hk => by
    rw [(fix_fixList_inert L σ a hi k).1 (.app h2 as2) true (by
      have := Nat.mul_le_mul_right (Ty.size a) s2; omega)]
  have e : matchFuel σ = (4 * σ.vars.length + 63) + 1 := rfl
  have m12 : match3 L σ (matchFuel σ) true false (.app h1 as1) (.app h2 as2) = some false := by
    rw [e]; exact match3_heads_ne L σ _ false h1 h2 _ _ k1 hne (compound_not_bot wf k1) (compound_not_top wf k2)
  have m21 : match3 L σ (matchFuel σ) true false (.app h2 as2) (.app h1 as1) = some false := by
    rw [e]; exact match3_heads_ne L σ _ false h2 h1 _ _ k2 (Ne.symm hne) (compound_not_bot wf k2) (compound_not_top wf k1)
  rw [minLoop]
  simp only [List.foldl_nil, if_true]
  rw [Tfv.followT_app, f1 _ (by omega)]
  simp only [List.nil_append]
  rw [minLoop]
  simp only [List.foldl_cons, List.foldl_nil, m12, List.nil_append]
  simp only [show ((some false : Option Bool) == some true) = false from rfl, Bool.false_eq_true, if_false]
  rw [Tfv.followT_app, f2 _ (by omega)]
  simp only [List.cons_append, List.nil_append]
  rw [minLoop, m21]
  rfl

theorem minimize_two (L : Lang) (wf : WF L) (σ : Store) (a : Ty) (h1 h2 : Nat) (as1 as2 : List Term)
    (k1 : arityOf L h1 ≠ 0) (k2 : arityOf L h2 ≠ 0) (hne : h1 ≠ h2)
    (s1 : tsz (.app h1 as1) ≤ 3) (s2 : tsz (.app h2 as2) ≤ 3) (hi : Inert σ a)
    (n : Nat) (hn : 6 * Ty.size a ≤ n) (ref : Term) (ful : Bool)
    (hg : getConstr σ 0 = .elim ref [.app h1 as1, .app h2 as2] ful) :
    minimize L (n+4) σ 0 = .ok (setConstr σ 0 (.elim (followT σ ref) [.app h1 as1, .app h2 as2] ful)) := by
  rw [minimize, hg]
  simp only []
  rw [minLoop_two L wf σ a h1 h2 as1 as2 k1 k2 hne s1 s2 hi n hn]
  simp only [hg, List.map_cons, List.map_nil, Tfv.followT_app]

/-- the alternative `G(b, b)` -/
def R1 (oG : Nat) : Term := .app oG [.var 1, .var 1]
/-- the alternative `F(c)` -/
def R2 (oF : Nat) : Term := .app oF [.var 2]

/-- the signature `x ** r(x) [x << {G(b, b), F(c)}]`: variables `x = 0`, `b = 1`, `c = 2` -/
def repSchema (r : Term) (oF oG : Nat) : Schema :=
  { nvars := 3, nwild := 0, body := .app FUN [.var 0, r], constraints := [.elim (.var 0) [R1 oG, R2 oF]] }

/-- `F` is unary, `G` binary and covariant in both places, different operators -/
structure RepOps (L : Lang) (oF oG : Nat) : Prop where
  aF : arityOf L oF = 1
  vG : varianceOf L oG = [true, true]
  ne : oG ≠ oF

theorem RepOps.aG {L : Lang} {oF oG : Nat} (ops : RepOps L oF oG) : arityOf L oG = 2 := by
  unfold arityOf; rw [ops.vG]; rfl

/-- the store after instantiating `repSchema` -/
def σJ (oF oG : Nat) : Store :=
  { vars := [{ cset := 0 }, { cset := 1 }, { cset := 2 }], csets := [[0], [0], [0]],
    constrs := [.elim (.var 0) [R1 oG, R2 oF] false] }

def σJ0 (oF oG : Nat) : Store :=
  { vars := [{ cset := 0 }, { cset := 1 }, { cset := 2 }], csets := [[], [], []],
    constrs := [.elim (.var 0) [R1 oG, R2 oF] false] }

theorem σJ_free (oF oG v : Nat) : VarFree (σJ oF oG) v := by
  match v with
  | 0 | 1 | 2 => exact ⟨rfl, rfl, rfl⟩
  | v+3 => exact ⟨rfl, rfl, rfl⟩

theorem σJ_inert (oF oG : Nat) : Inert (σJ oF oG) (.app 0 []) := fun v => Or.inl (σJ_free oF oG v)

theorem fulfill_σJ (L : Lang) (wf : WF L) (oF oG : Nat) (ops : RepOps L oF oG) (n : Nat) (hn : 6 ≤ n) :
    fulfill L (n+5) (σJ oF oG) 0 = .ok (σJ oF oG, false) := by
  have kF : arityOf L oF ≠ 0 := by rw [ops.aF]; decide
  have kG : arityOf L oG ≠ 0 := by rw [ops.aG]; decide
  have hg : getConstr (σJ oF oG) 0 = .elim (.var 0) [R1 oG, R2 oF] false := rfl
  rw [fulfill, hg]
  simp only []
  rw [minimize_two L wf _ (.app 0 []) oG oF _ _ kG kF ops.ne (by simp [tsz, tszL]) (by simp [tsz, tszL]) (σJ_inert oF oG) n
    (by rw [size_base]; omega) _ _ hg, C16P.followT_unbound (σJ_free oF oG 0).1]
  have e1 : setConstr (σJ oF oG) 0 (.elim (.var 0) [.app oG [.var 1, .var 1], .app oF [.var 2]] false) = σJ oF oG := rfl
  rw [e1]
  simp only [hg]
  have e2 : matchFuel (σJ oF oG) = 75 + 1 := rfl
  have k1 := match3_var_app_free L (σJ oF oG) 75 oG [.var 1, .var 1] 0 (σJ_free oF oG 0)
  have k2 := match3_var_app_free L (σJ oF oG) 75 oF [.var 2] 0 (σJ_free oF oG 0)
  rw [e2]
  have k1' : (match3 L (σJ oF oG) (75 + 1) true true (Term.var 0) (Term.app oG [.var 1, .var 1]) != some false) = true := by
    simpa using k1
  have k2' : (match3 L (σJ oF oG) (75 + 1) true true (Term.var 0) (Term.app oF [.var 2]) != some false) = true := by
    simpa using k2
  simp only [R1, R2, List.filter_cons, List.filter_nil, k1', k2', if_true]
  rfl

theorem instantiate_repSchema (L : Lang) (wf : WF L) (oF oG : Nat) (ops : RepOps L oF oG) (r : Term) (n : Nat)
    (hn : 2 * tsz r + 6 ≤ n) :
    instantiate L (n+5) {} (repSchema r oF oG) = .ok (σJ oF oG, .app FUN [.var 0, r]) := by
  have hal : allocVars {} 3 0 =
      { vars := [{ cset := 0 }, { cset := 1 }, { cset := 2 }], csets := [[], [], []], constrs := [] } := rfl
  unfold instantiate
  simp only [repSchema, hal, addConstraints, List.length_nil, shift_zero, shiftL_zero]
  rw [C16P.followT_unbound rfl]
  unfold addConstraint
  simp only [List.map_cons, List.map_nil, constrTerms, List.nil_append, List.length_nil]
  rw [show ∀ τ : Store, followT τ (R1 oG) = R1 oG from fun τ => Tfv.followT_app τ _ _,
    show ∀ τ : Store, followT τ (R2 oF) = R2 oF from fun τ => Tfv.followT_app τ _ _]
  have hv : varsOfTerms (σJ0 oF oG) [Term.var 0, R1 oG, R2 oF] = [0, 1, 2] := by rfl
  unfold σJ0 at hv
  rw [hv]
  have e0 : (List.foldl
      (fun σ v => setCset σ (getVar σ v).cset (insertSorted 0 (getCset σ (getVar σ v).cset)))
      (σJ0 oF oG) [0, 1, 2]) = σJ oF oG := rfl
  unfold σJ0 at e0
  rw [if_neg (by simp [getVar])]
  rw [e0, fulfill_σJ L wf oF oG ops n (by omega)]
  simp only []
  rw [spineFollow_free _ (fun v => (σJ_free oF oG v).1)]
  rw [(fix_fixList_inert L _ _ (σJ_inert oF oG) (n+5)).1 _ true (by
    rw [size_base, tsz, tszL, tszL, tszL, tsz]; omega)]

end Tfv.C06B
