import Tfv.Model
namespace Tfv.C05
theorem placeholder : True := trivial
end Tfv.C05
