import Tfv.Model.Basic
/-!
# Line protocol: s-expressions

One case per line. Atoms are runs of characters other than blanks and
parentheses. Strings that may contain arbitrary characters travel as lists of
code points `(s 102 32 40)`. Concrete types travel as `(o arg …)` with `o`
the operator index.
-/
namespace Tfv

inductive Sexp where
  | atom (s : String)
  | list (xs : List Sexp)
  deriving Repr, Inhabited

namespace Sexp

def tokens (s : String) : List String := Id.run do
  let mut out : Array String := #[]
  let mut cur : String := ""
  for c in s.toList do
    if c == '(' || c == ')' then
      if cur != "" then out := out.push cur; cur := ""
      out := out.push (String.singleton c)
    else if c == ' ' || c == '\n' || c == '\t' || c == '\r' then
      if cur != "" then out := out.push cur; cur := ""
    else cur := cur.push c
  if cur != "" then out := out.push cur
  return out.toList

/-- stack-based reader; returns the top-level items -/
def parseToks (ts : List String) : Option (List Sexp) := Id.run do
  let mut stack : List (List Sexp) := [[]]
  for t in ts do
    if t == "(" then stack := [] :: stack
    else if t == ")" then
      match stack with
      | top :: next :: rest => stack := (Sexp.list top.reverse :: next) :: rest
      | _ => return none
    else
      match stack with
      | top :: rest => stack := (Sexp.atom t :: top) :: rest
      | [] => return none
  match stack with
  | [top] => return some top.reverse
  | _ => return none

def parse (s : String) : Option (List Sexp) := parseToks (tokens s)

def nat? : Sexp → Option Nat
  | .atom s => s.toNat?
  | _ => none

def natList? : Sexp → Option (List Nat)
  | .list xs => xs.mapM nat?
  | _ => none

/-- `(s c1 c2 …)` → string -/
def str? : Sexp → Option String
  | .list (.atom "s" :: cs) => (cs.mapM nat?).map (fun l => String.ofList (l.map Char.ofNat))
  | _ => none

partial def ty? : Sexp → Option Ty
  | .list (.atom o :: args) => do
      let o ← o.toNat?
      let as ← args.mapM ty?
      pure (.app o as)
  | _ => none

end Sexp

partial def Ty.show : Ty → String
  | .app o [] => s!"({o})"
  | .app o args => "(" ++ toString o ++ " " ++ " ".intercalate (args.map Ty.show) ++ ")"

def showBool (b : Bool) : String := if b then "T" else "F"

end Tfv
