import Tfv.Model.Bag
/-!
# Helper lemmas for C20 (type unions and bags)

The order properties are explicit hypotheses (`hrefl`, `htrans`, `hanti`) on a
domain predicate `D`, because `POrder` is defined in `Tfv.Props.C20`.
-/
namespace Tfv

variable {α : Type}

/-! ## unions, specific mode -/

/-- invariant of a specific-mode union `acc` after the elements `pre` were inserted -/
structure UnionInvS (le : α → α → Bool) (acc pre : List α) : Prop where
  mem : ∀ x, x ∈ acc ↔ (x ∈ pre ∧ ∀ y ∈ pre, le y x = true → y = x)
  cov : ∀ y ∈ pre, ∃ t ∈ acc, le t y = true
  nodup : acc.Nodup

/-- invariant of a general-mode union `acc` after the elements `pre` were inserted -/
structure UnionInvG (le : α → α → Bool) (acc pre : List α) : Prop where
  mem : ∀ x, x ∈ acc ↔ (x ∈ pre ∧ ∀ y ∈ pre, le x y = true → y = x)
  cov : ∀ y ∈ pre, ∃ t ∈ acc, le y t = true
  nodup : acc.Nodup

section
variable (le : α → α → Bool) (D : α → Prop)
  (hrefl : ∀ x, D x → le x x = true)
  (htrans : ∀ x y z, D x → D y → D z → le x y = true → le y z = true → le x z = true)
  (hanti : ∀ x y, D x → D y → le x y = true → le y x = true → x = y)
include hrefl htrans hanti

theorem unionAdd_specific_step (acc pre : List α) (new : α)
    (hD : ∀ x ∈ pre, D x) (hn : D new) (inv : UnionInvS le acc pre) :
    UnionInvS le (unionAdd le true acc new) (pre ++ [new]) := by
  obtain ⟨hmem, hcov, hnd⟩ := inv
  have haccD : ∀ x ∈ acc, D x := fun x hx => hD x ((hmem x).1 hx).1
  unfold unionAdd
  simp only [if_true]
  split
  · -- early return
    rename_i hany
    simp only [List.any_eq_true, Bool.and_eq_true, Bool.not_eq_true'] at hany
    obtain ⟨t, ht, hnt, htn⟩ := hany
    have htpre := ((hmem t).1 ht).1
    refine ⟨?_, ?_, hnd⟩
    · intro x
      constructor
      · intro hx
        obtain ⟨hxpre, hxmin⟩ := (hmem x).1 hx
        refine ⟨List.mem_append_left _ hxpre, ?_⟩
        intro y hy hyx
        rcases List.mem_append.1 hy with hy | hy
        · exact hxmin y hy hyx
        · have hy' : y = new := by simpa using hy
          subst hy'
          have htx : le t x = true := htrans t y x (hD t htpre) hn (hD x hxpre) htn hyx
          have : t = x := hxmin t htpre htx
          subst this
          rw [hyx] at hnt; cases hnt
      · rintro ⟨hx, hxmin⟩
        rcases List.mem_append.1 hx with hx | hx
        · exact (hmem x).2 ⟨hx, fun y hy => hxmin y (List.mem_append_left _ hy)⟩
        · have hx' : x = new := by simpa using hx
          subst hx'
          have : t = x := hxmin t (List.mem_append_left _ htpre) htn
          subst this
          rw [hrefl t hn] at hnt; cases hnt
    · intro y hy
      rcases List.mem_append.1 hy with hy | hy
      · exact hcov y hy
      · have hy' : y = new := by simpa using hy
        subst hy'
        exact ⟨t, ht, htn⟩
  · -- insertion
    rename_i hany
    have hall : ∀ t ∈ acc, le t new = true → le new t = true := by
      intro t ht htn
      cases hnt : le new t with
      | true => rfl
      | false =>
        exact absurd (List.any_eq_true.2 ⟨t, ht, by simp [hnt, htn]⟩) hany
    refine ⟨?_, ?_, ?_⟩
    · intro x
      simp only [List.mem_append, List.mem_filter, List.mem_singleton, Bool.not_eq_true']
      constructor
      · rintro (⟨hx, hnx⟩ | hx)
        · obtain ⟨hxpre, hxmin⟩ := (hmem x).1 hx
          refine ⟨Or.inl hxpre, ?_⟩
          rintro y (hy | hy) hyx
          · exact hxmin y hy hyx
          · subst hy; rw [hyx] at hnx; cases hnx
        · subst hx
          refine ⟨Or.inr rfl, ?_⟩
          rintro y (hy | hy) hyx
          · obtain ⟨t, ht, hty⟩ := hcov y hy
            have htD := haccD t ht
            have htx : le t x = true := htrans t y x htD (hD y hy) hn hty hyx
            have hxt : le x t = true := hall t ht htx
            have : t = x := hanti t x htD hn htx hxt
            subst this
            exact hanti y t (hD y hy) hn hyx hty
          · exact hy
      · rintro ⟨hx | hx, hxmin⟩
        · by_cases hnx : le new x = true
          · exact Or.inr (hxmin new (Or.inr rfl) hnx).symm
          · refine Or.inl ⟨(hmem x).2 ⟨hx, fun y hy => hxmin y (Or.inl hy)⟩, ?_⟩
            simpa using hnx
        · exact Or.inr hx
    · intro y hy
      simp only [List.mem_append, List.mem_filter, List.mem_singleton, Bool.not_eq_true']
      rcases List.mem_append.1 hy with hy | hy
      · obtain ⟨t, ht, hty⟩ := hcov y hy
        by_cases hnt : le new t = true
        · exact ⟨new, Or.inr rfl, htrans new t y hn (haccD t ht) (hD y hy) hnt hty⟩
        · exact ⟨t, Or.inl ⟨ht, by simpa using hnt⟩, hty⟩
      · have hy' : y = new := by simpa using hy
        subst hy'
        exact ⟨y, Or.inr rfl, hrefl y hn⟩
    · rw [List.nodup_append]
      refine ⟨hnd.filter _, by simp, ?_⟩
      intro a ha b hb
      have hb' : b = new := by simpa using hb
      subst hb'
      rintro rfl
      have := (List.mem_filter.1 ha).2
      rw [hrefl a hn] at this
      cases this

theorem unionAdd_general_step (acc pre : List α) (new : α)
    (hD : ∀ x ∈ pre, D x) (hn : D new) (inv : UnionInvG le acc pre) :
    UnionInvG le (unionAdd le false acc new) (pre ++ [new]) := by
  obtain ⟨hmem, hcov, hnd⟩ := inv
  have haccD : ∀ x ∈ acc, D x := fun x hx => hD x ((hmem x).1 hx).1
  unfold unionAdd
  simp only [Bool.false_eq_true, if_false]
  split
  · -- early return
    rename_i hany
    simp only [List.any_eq_true] at hany
    obtain ⟨t, ht, hnt⟩ := hany
    have htpre := ((hmem t).1 ht).1
    have htmax := ((hmem t).1 ht).2
    refine ⟨?_, ?_, hnd⟩
    · intro x
      constructor
      · intro hx
        obtain ⟨hxpre, hxmax⟩ := (hmem x).1 hx
        refine ⟨List.mem_append_left _ hxpre, ?_⟩
        intro y hy hxy
        rcases List.mem_append.1 hy with hy | hy
        · exact hxmax y hy hxy
        · have hy' : y = new := by simpa using hy
          subst hy'
          have hxt : le x t = true := htrans x y t (hD x hxpre) hn (hD t htpre) hxy hnt
          have : t = x := hxmax t htpre hxt
          subst this
          exact hanti y t hn (hD t htpre) hnt hxy
      · rintro ⟨hx, hxmax⟩
        rcases List.mem_append.1 hx with hx | hx
        · exact (hmem x).2 ⟨hx, fun y hy => hxmax y (List.mem_append_left _ hy)⟩
        · have hx' : x = new := by simpa using hx
          subst hx'
          have : t = x := hxmax t (List.mem_append_left _ htpre) hnt
          subst this
          exact ht
    · intro y hy
      rcases List.mem_append.1 hy with hy | hy
      · exact hcov y hy
      · have hy' : y = new := by simpa using hy
        subst hy'
        exact ⟨t, ht, hnt⟩
  · -- insertion
    rename_i hany
    have hall : ∀ t ∈ acc, le new t = true → False := by
      intro t ht hnt
      exact hany (List.any_eq_true.2 ⟨t, ht, hnt⟩)
    refine ⟨?_, ?_, ?_⟩
    · intro x
      simp only [List.mem_append, List.mem_filter, List.mem_singleton, Bool.not_eq_true']
      constructor
      · rintro (⟨hx, hxn⟩ | hx)
        · obtain ⟨hxpre, hxmax⟩ := (hmem x).1 hx
          refine ⟨Or.inl hxpre, ?_⟩
          rintro y (hy | hy) hxy
          · exact hxmax y hy hxy
          · subst hy; rw [hxy] at hxn; cases hxn
        · subst hx
          refine ⟨Or.inr rfl, ?_⟩
          rintro y (hy | hy) hxy
          · obtain ⟨t, ht, hyt⟩ := hcov y hy
            exact (hall t ht (htrans x y t hn (hD y hy) (haccD t ht) hxy hyt)).elim
          · exact hy
      · rintro ⟨hx | hx, hxmax⟩
        · by_cases hxn : le x new = true
          · exact Or.inr (hxmax new (Or.inr rfl) hxn).symm
          · refine Or.inl ⟨(hmem x).2 ⟨hx, fun y hy => hxmax y (Or.inl hy)⟩, ?_⟩
            simpa using hxn
        · exact Or.inr hx
    · intro y hy
      simp only [List.mem_append, List.mem_filter, List.mem_singleton, Bool.not_eq_true']
      rcases List.mem_append.1 hy with hy | hy
      · obtain ⟨t, ht, hyt⟩ := hcov y hy
        by_cases htn : le t new = true
        · exact ⟨new, Or.inr rfl, htrans y t new (hD y hy) (haccD t ht) hn hyt htn⟩
        · exact ⟨t, Or.inl ⟨ht, by simpa using htn⟩, hyt⟩
      · have hy' : y = new := by simpa using hy
        subst hy'
        exact ⟨y, Or.inr rfl, hrefl y hn⟩
    · rw [List.nodup_append]
      refine ⟨hnd.filter _, by simp, ?_⟩
      intro a ha b hb
      have hb' : b = new := by simpa using hb
      subst hb'
      rintro rfl
      have := (List.mem_filter.1 ha).2
      rw [hrefl a hn] at this
      cases this

theorem foldl_unionAdd_specific (xs : List α) : ∀ (acc pre : List α),
    (∀ x ∈ pre, D x) → (∀ x ∈ xs, D x) → UnionInvS le acc pre →
    UnionInvS le (xs.foldl (unionAdd le true) acc) (pre ++ xs) := by
  induction xs with
  | nil => intro acc pre _ _ inv; simpa using inv
  | cons a xs ih =>
    intro acc pre hpre hxs inv
    have ha : D a := hxs a (List.mem_cons_self ..)
    have step := unionAdd_specific_step le D hrefl htrans hanti acc pre a hpre ha inv
    have hpre' : ∀ x ∈ pre ++ [a], D x := by
      intro x hx
      rcases List.mem_append.1 hx with hx | hx
      · exact hpre x hx
      · have : x = a := by simpa using hx
        exact this ▸ ha
    have := ih (unionAdd le true acc a) (pre ++ [a]) hpre'
      (fun x hx => hxs x (List.mem_cons_of_mem _ hx)) step
    simpa [List.foldl_cons, List.append_assoc] using this

theorem foldl_unionAdd_general (xs : List α) : ∀ (acc pre : List α),
    (∀ x ∈ pre, D x) → (∀ x ∈ xs, D x) → UnionInvG le acc pre →
    UnionInvG le (xs.foldl (unionAdd le false) acc) (pre ++ xs) := by
  induction xs with
  | nil => intro acc pre _ _ inv; simpa using inv
  | cons a xs ih =>
    intro acc pre hpre hxs inv
    have ha : D a := hxs a (List.mem_cons_self ..)
    have step := unionAdd_general_step le D hrefl htrans hanti acc pre a hpre ha inv
    have hpre' : ∀ x ∈ pre ++ [a], D x := by
      intro x hx
      rcases List.mem_append.1 hx with hx | hx
      · exact hpre x hx
      · have : x = a := by simpa using hx
        exact this ▸ ha
    have := ih (unionAdd le false acc a) (pre ++ [a]) hpre'
      (fun x hx => hxs x (List.mem_cons_of_mem _ hx)) step
    simpa [List.foldl_cons, List.append_assoc] using this

/-- the invariant of `unionOf le true xs` -/
theorem unionOf_specific_inv (xs : List α) (hD : ∀ x ∈ xs, D x) :
    UnionInvS le (unionOf le true xs) xs := by
  have := foldl_unionAdd_specific le D hrefl htrans hanti xs [] []
    (by simp) hD ⟨by simp, by simp, List.nodup_nil⟩
  simpa [unionOf] using this

/-- the invariant of `unionOf le false xs` -/
theorem unionOf_general_inv (xs : List α) (hD : ∀ x ∈ xs, D x) :
    UnionInvG le (unionOf le false xs) xs := by
  have := foldl_unionAdd_general le D hrefl htrans hanti xs [] []
    (by simp) hD ⟨by simp, by simp, List.nodup_nil⟩
  simpa [unionOf] using this

theorem mem_unionOf_specific (xs : List α) (hD : ∀ x ∈ xs, D x) (x : α) :
    x ∈ unionOf le true xs ↔ (x ∈ xs ∧ ∀ y ∈ xs, le y x = true → y = x) :=
  (unionOf_specific_inv le D hrefl htrans hanti xs hD).mem x

theorem mem_unionOf_general (xs : List α) (hD : ∀ x ∈ xs, D x) (x : α) :
    x ∈ unionOf le false xs ↔ (x ∈ xs ∧ ∀ y ∈ xs, le x y = true → y = x) :=
  (unionOf_general_inv le D hrefl htrans hanti xs hD).mem x

theorem unionOf_nodup (specific : Bool) (xs : List α) (hD : ∀ x ∈ xs, D x) :
    (unionOf le specific xs).Nodup := by
  cases specific
  · exact (unionOf_general_inv le D hrefl htrans hanti xs hD).nodup
  · exact (unionOf_specific_inv le D hrefl htrans hanti xs hD).nodup

theorem mem_unionOf_perm (specific : Bool) (xs ys : List α) (hD : ∀ x ∈ xs, D x)
    (hp : xs.Perm ys) (x : α) :
    x ∈ unionOf le specific xs ↔ x ∈ unionOf le specific ys := by
  have hD' : ∀ x ∈ ys, D x := fun x hx => hD x (hp.mem_iff.2 hx)
  cases specific
  · rw [mem_unionOf_general le D hrefl htrans hanti xs hD,
      mem_unionOf_general le D hrefl htrans hanti ys hD']
    simp only [hp.mem_iff]
  · rw [mem_unionOf_specific le D hrefl htrans hanti xs hD,
      mem_unionOf_specific le D hrefl htrans hanti ys hD']
    simp only [hp.mem_iff]

/-! ## bags -/

/-- every clause of a bag is non-empty and made of elements of `D` -/
def BagInv (D : α → Prop) (content : List (List α)) : Prop :=
  ∀ c ∈ content, c ≠ [] ∧ ∀ x ∈ c, D x

theorem bagAdd_step (P : α → Prop)
    (hP : ∀ x y, D x → D y → P x → le x y = true → P y)
    (content : List (List α)) (r : List α)
    (hinv : BagInv D content) (hr : ∀ x ∈ r, D x) :
    BagInv D (bagAdd le content r) ∧
    (satBag (bagAdd le content r) P ↔ (satBag content P ∧ (r ≠ [] → ∃ t ∈ r, P t))) := by
  have uinv := unionOf_general_inv le D hrefl htrans hanti r hr
  unfold bagAdd
  split
  · -- some new type is already implied by a clause of the bag
    rename_i hany
    refine ⟨hinv, ?_⟩
    simp only [List.any_eq_true, unionLeTy, Bool.and_eq_true, Bool.not_eq_true',
      List.all_eq_true] at hany
    obtain ⟨nt, hnt, c, hc, -, hall⟩ := hany
    constructor
    · intro hs
      refine ⟨hs, fun _ => ?_⟩
      obtain ⟨t, ht, hPt⟩ := hs c hc
      exact ⟨nt, hnt, hP t nt ((hinv c hc).2 t ht) (hr nt hnt) hPt (hall t ht)⟩
    · exact fun h => h.1
  · simp only
    split
    · -- nothing to add
      rename_i hempty
      refine ⟨hinv, ?_⟩
      have hnil : r = [] := by
        cases r with
        | nil => rfl
        | cons a r' =>
          obtain ⟨t, ht, -⟩ := uinv.cov a (List.mem_cons_self ..)
          rw [List.isEmpty_iff.1 hempty] at ht
          cases ht
      subst hnil
      simp
    · rename_i hempty
      have hne : unionOf le false r ≠ [] := by
        intro h; rw [h] at hempty; simp at hempty
      have hsub : ∀ x ∈ unionOf le false r, x ∈ r := fun x hx => ((uinv.mem x).1 hx).1
      have hrne : r ≠ [] := by
        intro h
        cases hnew : unionOf le false r with
        | nil => exact hne hnew
        | cons a l =>
          have := hsub a (by rw [hnew]; exact List.mem_cons_self ..)
          rw [h] at this; cases this
      have hexi : (∃ t ∈ unionOf le false r, P t) ↔ ∃ t ∈ r, P t := by
        constructor
        · rintro ⟨t, ht, hPt⟩; exact ⟨t, hsub t ht, hPt⟩
        · rintro ⟨t, ht, hPt⟩
          obtain ⟨u, hu, htu⟩ := uinv.cov t ht
          exact ⟨u, hu, hP t u (hr t ht) (hr u (hsub u hu)) hPt htu⟩
      constructor
      · intro c hc
        rcases List.mem_append.1 hc with hc | hc
        · exact hinv c (List.mem_filter.1 hc).1
        · have : c = unionOf le false r := by simpa using hc
          subst this
          exact ⟨hne, fun x hx => hr x (hsub x hx)⟩
      · constructor
        · intro hs
          have hnewsat : ∃ t ∈ unionOf le false r, P t :=
            hs _ (List.mem_append_right _ (List.mem_singleton.2 rfl))
          refine ⟨?_, fun _ => hexi.1 hnewsat⟩
          intro c hc
          by_cases hrem : unionLeUnion le (unionOf le false r) c = true
          · simp only [unionLeUnion, Bool.and_eq_true, List.all_eq_true] at hrem
            obtain ⟨t, ht, hPt⟩ := hnewsat
            obtain ⟨hcne, hcD⟩ := hinv c hc
            cases c with
            | nil => exact (hcne rfl).elim
            | cons y c' =>
              have hy : y ∈ y :: c' := List.mem_cons_self ..
              exact ⟨y, hy, hP t y (hr t (hsub t ht)) (hcD y hy) hPt (hrem.2 y hy t ht)⟩
          · exact hs c (List.mem_append_left _
              (List.mem_filter.2 ⟨hc, by simpa using hrem⟩))
        · rintro ⟨hs, hnew⟩ c hc
          rcases List.mem_append.1 hc with hc | hc
          · exact hs c (List.mem_filter.1 hc).1
          · have : c = unionOf le false r := by simpa using hc
            subst this
            exact hexi.2 (hnew hrne)

theorem foldl_bagAdd (P : α → Prop)
    (hP : ∀ x y, D x → D y → P x → le x y = true → P y)
    (reqs : List (List α)) : ∀ (content : List (List α)),
    BagInv D content → (∀ r ∈ reqs, ∀ x ∈ r, D x) →
    (satBag (reqs.foldl (bagAdd le) content) P ↔
      (satBag content P ∧ ∀ r ∈ reqs, r ≠ [] → ∃ t ∈ r, P t)) := by
  induction reqs with
  | nil => intro content _ _; simp
  | cons r reqs ih =>
    intro content hinv hD
    obtain ⟨hinv', hstep⟩ := bagAdd_step le D hrefl htrans hanti P hP content r hinv
      (hD r (List.mem_cons_self ..))
    rw [List.foldl_cons, ih _ hinv' (fun r' hr' => hD r' (List.mem_cons_of_mem _ hr')), hstep]
    simp only [List.mem_cons, forall_eq_or_imp]
    exact and_assoc

theorem satBag_bagOf (P : α → Prop)
    (hP : ∀ x y, D x → D y → P x → le x y = true → P y)
    (reqs : List (List α)) (hD : ∀ r ∈ reqs, ∀ x ∈ r, D x) :
    satBag (bagOf le reqs) P ↔ ∀ r ∈ reqs, r ≠ [] → ∃ t ∈ r, P t := by
  have := foldl_bagAdd le D hrefl htrans hanti P hP reqs []
    (by intro c hc; cases hc) hD
  rw [bagOf, this]
  simp [satBag]

theorem satBag_bagOf_perm (P : α → Prop)
    (hP : ∀ x y, D x → D y → P x → le x y = true → P y)
    (reqs reqs' : List (List α)) (hD : ∀ r ∈ reqs, ∀ x ∈ r, D x) (hp : reqs.Perm reqs') :
    satBag (bagOf le reqs) P ↔ satBag (bagOf le reqs') P := by
  have hD' : ∀ r ∈ reqs', ∀ x ∈ r, D x := fun r hr => hD r (hp.mem_iff.2 hr)
  rw [satBag_bagOf le D hrefl htrans hanti P hP reqs hD,
    satBag_bagOf le D hrefl htrans hanti P hP reqs' hD']
  simp only [hp.mem_iff]

end

end Tfv
