import Tfv.Proofs.WorkflowExpr
/-!
# A successful `wfExpr` never meets a cycle: every resource is entered in the memo table once
-/
namespace Tfv

/-- `x` is not in the memo table `s`, is a tool output, and `y` is one of the tool's inputs -/
def WEdge (w : Wf) (s : WState) (x y : Nat) : Prop := s.expr? x = none ∧ ∃ a, w.app? x = some a ∧ y ∈ a.inputs

/-- reachable along input edges through resources that are not in the memo table -/
inductive WReach (w : Wf) (s : WState) : Nat → Nat → Prop
  | refl (x : Nat) : WReach w s x x
  | step {x y z : Nat} : WEdge w s x y → WReach w s y z → WReach w s x z

theorem expr?_none_of_append {s s' : WState} {l : List (Nat × TExpr)} (h : s'.exprs = s.exprs ++ l) {x : Nat}
    (hx : s'.expr? x = none) : s.expr? x = none := by
  rw [expr?_eq] at hx ⊢
  cases hs : alook s.exprs x with
  | none => rfl
  | some v => rw [h, alook_append_some hs] at hx; cases hx

theorem expr?_some_of_append {s s' : WState} {l : List (Nat × TExpr)} (h : s'.exprs = s.exprs ++ l) {x : Nat}
    {v : TExpr} (hx : s.expr? x = some v) : s'.expr? x = some v := by
  rw [expr?_eq] at hx ⊢
  rw [h]; exact alook_append_some hx

theorem expr?_none_of_keys {s s' : WState} {ks : List Nat} (h : s'.exprs.map (·.1) = s.exprs.map (·.1) ++ ks) {x : Nat}
    (hx : s'.expr? x = none) : s.expr? x = none := by
  rw [expr?_eq, alook_none_iff] at hx ⊢
  rw [h] at hx
  exact fun hm => hx (List.mem_append_left _ hm)

theorem WEdge.mono {w : Wf} {s s' : WState} (h : ∀ x, s'.expr? x = none → s.expr? x = none) {x y : Nat}
    (he : WEdge w s' x y) : WEdge w s x y := ⟨h x he.1, he.2⟩

theorem WReach.mono {w : Wf} {s s' : WState} (h : ∀ x, s'.expr? x = none → s.expr? x = none) {x y : Nat}
    (hr : WReach w s' x y) : WReach w s x y := by
  induction hr with
  | refl x => exact .refl x
  | step he _ ih => exact .step (he.mono h) ih

theorem WReach.trans {w : Wf} {s : WState} {x y z : Nat} (h1 : WReach w s x y) (h2 : WReach w s y z) : WReach w s x z := by
  induction h1 with
  | refl x => exact h2
  | step he _ ih => exact .step he (ih h2)

/-! ## new entries are reachable from the resource asked for -/

def ReachPost (w : Wf) (s : WState) (r : Nat) (s' : WState) (_ : TExpr) : Prop :=
  ∃ ks, s'.exprs.map (·.1) = s.exprs.map (·.1) ++ ks ∧ ∀ k ∈ ks, WReach w s r k

theorem foldRun_reach {w : Wf} {s s1 : WState} {is : List Nat} {es : List TExpr}
    (hr : FoldRun (ReachPost w) s is s1 es) :
    ∃ ks, s1.exprs.map (·.1) = s.exprs.map (·.1) ++ ks ∧ ∀ k ∈ ks, ∃ i ∈ is, WReach w s i k := by
  induction hr with
  | nil s => exact ⟨[], by simp, by simp⟩
  | @cons s sm s1 i e is es h1 _ ih =>
    obtain ⟨la, hla, ra⟩ := h1
    obtain ⟨lb, hlb, rb⟩ := ih
    refine ⟨la ++ lb, by rw [hlb, hla, List.append_assoc], ?_⟩
    intro k hk
    rcases List.mem_append.1 hk with hk | hk
    · exact ⟨i, List.mem_cons_self, ra k hk⟩
    · obtain ⟨j, hj, hr⟩ := rb k hk
      exact ⟨j, List.mem_cons_of_mem _ hj, hr.mono (fun x hx => expr?_none_of_keys hla hx)⟩

theorem wfExpr_reach (P : PLang) (ops : List OperatorDecl) (w : Wf) (pt : Bool) :
    ∀ n s r s' e, wfExpr P ops w pt n s r = .ok (s', e) → ReachPost w s r s' e := by
  apply wfExpr_induction
  · intro s r e _; exact ⟨[], by simp, by simp⟩
  · intro s r a s1 ies s2 inputs xs3 e0 hst hr
    obtain ⟨l1, hl1, r1⟩ := foldRun_reach hr
    refine ⟨l1 ++ [r], ?_, ?_⟩
    · show (s2.exprs ++ _).map (·.1) = _
      rw [List.map_append, hst.keys, hl1, List.append_assoc]; rfl
    · intro k hk
      rcases List.mem_append.1 hk with hk | hk
      · obtain ⟨i, hi, hri⟩ := r1 k hk
        exact .step ⟨hst.absent, a, hst.app, hi⟩ hri
      · rw [List.mem_singleton] at hk
        subst hk; exact .refl _

/-! ## sets of resources that can never be completed -/

/-- every member is outside the memo table and has an input in the set -/
def BadSet (w : Wf) (s : WState) (B : Nat → Prop) : Prop :=
  ∀ c, B c → s.expr? c = none ∧ ∃ a, w.app? c = some a ∧ ∃ y ∈ a.inputs, B y

def BadPost (w : Wf) (s : WState) (r : Nat) (s' : WState) (_ : TExpr) : Prop :=
  ∀ B, BadSet w s B → ¬ B r ∧ ∀ c, B c → s'.expr? c = none

theorem foldRun_bad {w : Wf} {s s1 : WState} {is : List Nat} {es : List TExpr}
    (hr : FoldRun (BadPost w) s is s1 es) (B : Nat → Prop) (hB : BadSet w s B) :
    (∀ i ∈ is, ¬ B i) ∧ ∀ c, B c → s1.expr? c = none := by
  induction hr with
  | nil s => exact ⟨by simp, fun c hc => (hB c hc).1⟩
  | cons h1 _ ih =>
    obtain ⟨n1, a1⟩ := h1 B hB
    obtain ⟨n2, a2⟩ := ih (fun c hc => ⟨a1 c hc, (hB c hc).2⟩)
    refine ⟨?_, a2⟩
    intro j hj
    rcases List.mem_cons.1 hj with rfl | hj
    · exact n1
    · exact n2 j hj

theorem wfExpr_bad (P : PLang) (ops : List OperatorDecl) (w : Wf) (pt : Bool) :
    ∀ n s r s' e, wfExpr P ops w pt n s r = .ok (s', e) → BadPost w s r s' e := by
  apply wfExpr_induction
  · intro s r e he B hB
    refine ⟨fun hr => ?_, fun c hc => (hB c hc).1⟩
    rw [(hB r hr).1] at he; cases he
  · intro s r a s1 ies s2 inputs xs3 e0 hst hr B hB
    obtain ⟨hn, ha⟩ := foldRun_bad hr B hB
    have hnr : ¬ B r := by
      intro hBr
      obtain ⟨_, a', ha', y, hy, hBy⟩ := hB r hBr
      rw [hst.app] at ha'
      cases ha'
      exact hn y hy hBy
    refine ⟨hnr, fun c hc => ?_⟩
    have hc1 := hst.absent_stays (ha c hc)
    rw [expr?_eq] at hc1 ⊢
    show alook (s2.exprs ++ _) c = none
    rw [alook_append_none hc1]
    apply alook_singleton_ne
    rintro rfl
    exact hnr hc

/-- **no cycle**: while the inputs of `r` are computed, `r` itself is not entered in the memo table -/
theorem wfExpr_acyclic (P : PLang) (ops : List OperatorDecl) (w : Wf) (pt : Bool) (n : Nat) (s : WState) (r : Nat)
    (s' : WState) (e : TExpr) (h : wfExpr P ops w pt (n+1) s r = .ok (s', e))
    (a : WfApp) (s1 : WState) (ies : List TExpr) (ha : w.app? r = some a) (habs : s.expr? r = none)
    (hr : FoldRun (fun s i s' e => wfExpr P ops w pt n s i = .ok (s', e)) s a.inputs s1 ies) :
    s1.expr? r = none := by
  obtain ⟨l1, hl1, r1⟩ := foldRun_reach (hr.mono (fun s i s' e h => wfExpr_reach P ops w pt n s i s' e h))
  cases hs1 : s1.expr? r with
  | none => rfl
  | some v =>
    exfalso
    -- `r` was entered while some input `i` was computed, so `i` reaches `r`
    have hmem : r ∈ l1 := by
      have hk := alook_some_key (by rw [← expr?_eq]; exact hs1)
      rw [hl1] at hk
      rcases List.mem_append.1 hk with hk | hk
      · rw [expr?_eq, alook_none_iff] at habs
        exact absurd hk habs
      · exact hk
    obtain ⟨i, hi, hri⟩ := r1 _ hmem
    let B : Nat → Prop := fun c => ∃ y, WEdge w s c y ∧ WReach w s y r
    have hBr : B r := ⟨i, ⟨habs, a, ha, hi⟩, hri⟩
    have hB : BadSet w s B := by
      intro c ⟨y, hcy, hyr⟩
      refine ⟨hcy.1, ?_⟩
      obtain ⟨_, a', ha', hy⟩ := hcy
      refine ⟨a', ha', y, hy, ?_⟩
      cases hyr with
      | refl _ => exact hBr
      | step he hrest => exact ⟨_, he, hrest⟩
    exact (wfExpr_bad P ops w pt _ s r s' e h B hB).1 hBr

/-- **induction principle, with the no-cycle fact** in the tool-application case -/
theorem wfExpr_induction' (P : PLang) (ops : List OperatorDecl) (w : Wf) (pt : Bool)
    (Φ : WState → Nat → WState → TExpr → Prop)
    (memo : ∀ s r e, s.expr? r = some e → Φ s r s e)
    (step : ∀ s r a s1 ies s2 inputs xs3 e0, WfStep P ops w pt s r a s1 ies s2 inputs xs3 e0 →
      FoldRun Φ s a.inputs s1 ies → s1.expr? r = none →
      Φ s r { s2 with xs := xs3, exprs := s2.exprs ++ [(r, TExpr.shared r e0)] } (TExpr.shared r e0)) :
    ∀ n s r s' e, wfExpr P ops w pt n s r = .ok (s', e) → Φ s r s' e := by
  intro n
  induction n with
  | zero => intro s r s' e h; rw [wfExpr_zero] at h; cases h
  | succ n ih =>
    intro s r s' e h
    rcases wfExpr_ok_cases P ops w pt n s r s' e h with ⟨he, rfl⟩ | ⟨a, s1, ies, s2, inputs, xs3, e0, hst, hr, rfl, rfl⟩
    · exact memo _ r e he
    · exact step s r a s1 ies s2 inputs xs3 e0 hst (hr.mono (fun s i s' e h => ih s i s' e h))
        (wfExpr_acyclic P ops w pt n s r _ _ h a s1 ies hst.app hst.absent hr)

end Tfv
