"""C04 - every expression that parses is well-typed at every application node."""
from __future__ import annotations
import itertools
import langgen as G
import infer as I
import parsegen as PG
import exprgen as X
from refsub import ref_sub

RULE = ("languages with 3-7 operators (constants, monomorphic, polymorphic with subtype constraints, higher-order, schemas with "
        "elimination constraints) over generated hierarchies; expression texts grown bottom-up by trial so that ~70% are well-typed "
        "(typed/untyped/numbered sources, in-line annotations, partial application, operators as arguments), plus mutated ill-typed ones "
        "and the monomorphic/`x ** x ** x` rejection families; each text is parsed and fixed by the implementation and by the model "
        "(typed builder over the inference engine), the typed trees are compared node by node; oracle: every application node is "
        "re-checked with an independent subtype reference at every corner of the residual bounds, operator leaves are matched against "
        "their declared schema, annotated sub-expressions against their annotation; non-trivial = at least one application node and the parse succeeded or failed with a typing error; distinct by (language, text)")
ASSUMPTIONS = ["re-check order fixed to creation order via the TRANSFORGE_VERIF hook", "constraint alternatives are lists"]
TRUSTED = ["harness/exprgen.py: operator sets, canonical dump of typed trees", "harness/refsub.py (oracle)"]


def corners(vars_, ops):
    choices = []
    for v in vars_:
        lo = (I.op_index(v.lower, ops), ()) if v.lower else (G.BOT, ())
        hi = (I.op_index(v.upper, ops), ()) if v.upper else (G.TOP, ())
        c = [lo, hi]
        if not v.lower and not v.upper:
            c.append((G.UNIT, ()))
        choices.append(c)
    for combo in itertools.islice(itertools.product(*choices), 48):
        yield {id(v): t for v, t in zip(vars_, combo)}


def inst(t, rho, ops):
    from transforge import type as T
    t = t.follow()
    if isinstance(t, T.TypeVariable):
        return rho[id(t)]
    return (I.op_index(t.operator, ops), tuple(inst(p, rho, ops) for p in t.params))


def all_vars(ts):
    from transforge import type as T
    out = []

    def go(t):
        t = t.follow()
        if isinstance(t, T.TypeVariable):
            if not any(t is x for x in out):
                out.append(t)
        else:
            for p in t.params:
                go(p)
    for t in ts:
        go(t)
    return out


def instance_of(schema_t, t, binding):
    """one-way matching: `t` is a substitution instance of `schema_t` (fresh instance of the declared schema)"""
    from transforge import type as T
    s = schema_t.follow()
    t = t.follow()
    if isinstance(s, T.TypeVariable):
        if id(s) in binding:
            return same(binding[id(s)], t)
        binding[id(s)] = t
        return True
    if isinstance(t, T.TypeVariable):
        return False
    if s.operator is not t.operator:
        return False
    return all(instance_of(a, b, binding) for a, b in zip(s.params, t.params))


def same(a, b):
    from transforge import type as T
    a, b = a.follow(), b.follow()
    if isinstance(a, T.TypeVariable) or isinstance(b, T.TypeVariable):
        return a is b
    return a.operator is b.operator and all(same(x, y) for x, y in zip(a.params, b.params))


def check_tree(e, spec, ops, operators):
    """C04's statement on the implementation's own tree; returns None or a description"""
    from transforge import type as T
    from transforge import expr as E
    nodes = []

    def walk(e):
        nodes.append(e)
        if isinstance(e, E.Application):
            walk(e.f)
            walk(e.x)
    walk(e)
    vars_ = all_vars([n.type for n in nodes])
    for n in nodes:
        if isinstance(n, E.Operation):
            decl = n.operator.type.instance()
            if not instance_of(decl, n.type, {}):
                return f"leaf-not-instance: operator {n.operator.name} : {n.operator.type} carries {n.type}"
        if isinstance(n, E.Application):
            ft = n.f.type.follow()
            if isinstance(ft, T.TypeOperation) and ft.operator is ops[G.TOP]:
                continue
            if not (isinstance(ft, T.TypeOperation) and ft.operator is ops[G.FUN]):
                return f"function-part-not-a-function: {n.f} : {ft}"
    if len(vars_) > 10:
        vars_ = vars_[:10]
    for rho in corners(vars_, ops):
        full = dict(rho)
        for v in all_vars([n.type for n in nodes]):
            # variables beyond the first ten are not enumerated: one admissible choice (a bound they report, Unit if none)
            b = v.lower or v.upper
            full.setdefault(id(v), (I.op_index(b, ops), ()) if b else (G.UNIT, ()))
        for n in nodes:
            if not isinstance(n, E.Application):
                continue
            ft = n.f.type.follow()
            if not (isinstance(ft, T.TypeOperation) and ft.operator is ops[G.FUN]):
                continue
            i, o = ft.params
            xi, ii, oi, ni = inst(n.x.type, full, ops), inst(i, full, ops), inst(o, full, ops), inst(n.type, full, ops)
            if not ref_sub(spec, xi, ii):
                return (f"argument-not-subtype: at `{n}` the argument type instantiates to {G.ty_str(xi, spec)}, "
                        f"the function's input to {G.ty_str(ii, spec)}")
            if oi != ni:
                return f"output-mismatch: at `{n}` the function's output is {G.ty_str(oi, spec)}, the node's type {G.ty_str(ni, spec)}"
    return None


def check_annotations(tree, e, lang, spec, ops):
    """every annotated sub-expression `e : T` (T concrete) has a type that is a subtype of T"""
    from transforge import expr as E
    if tree[0] == "ann":
        bad = check_annotations(tree[1], e, lang, spec, ops)
        if bad:
            return bad
        t = G.py_to_data(lang.parse_type(tree[2]), ops)
        vs = all_vars([e.type])
        for rho in corners(vs, ops):
            ti = inst(e.type, rho, ops)
            if not ref_sub(spec, ti, t):
                return f"annotation-violated: `{X.tree_text(tree[1])} : {tree[2]}` has type {G.ty_str(ti, spec)}"
        return None
    if tree[0] == "app":
        if not isinstance(e, E.Application):
            return None
        return check_annotations(tree[1], e.f, lang, spec, ops) or check_annotations(tree[2], e.x, lang, spec, ops)
    return None


def run(ctx):
    rng = ctx.rng
    nlang = 10 if ctx.tier == "quick" else 50
    for li in range(nlang):
        spec = G.gen_lang(rng, max_base=6, max_ops=2, max_arity=2)
        ops = spec.build()
        opdecls = X.gen_operators(rng, spec)
        try:
            lang, operators = X.build_typed_language(spec, ops, opdecls)
        except Exception:  # noqa  (an operator whose own constraints are contradictory)
            ctx.count("language_rejected")
            continue
        ctx.setup(spec.sexp(), "ok T")
        ctx.setup("(aliases)", "ok")
        ctx.setup(X.operators_line(opdecls), "ok")
        ninputs = rng.randint(0, 2)
        trees = X.gen_typed_trees(rng, lang, spec, opdecls, ninputs, rounds=3 if ctx.tier == "quick" else 4,
            per_round=12 if ctx.tier == "quick" else 25)
        cases = [(t, X.tree_text(t)) for t in trees]
        # ill-typed / malformed variants
        for t, txt in list(cases)[: len(cases) // 3]:
            cases.append((None, PG.mutate(rng, txt)))
        # random combinations (mostly ill-typed)
        leaves = [("op", n) for n, _ in opdecls] + [("src",)] + [("in", k + 1) for k in range(ninputs)]
        for _ in range(len(trees) // 3):
            t = ("app", ("app", rng.choice(leaves), rng.choice(leaves)), rng.choice(leaves)) if rng.random() < 0.5 \
                else ("app", rng.choice(leaves), rng.choice(leaves))
            cases.append((t, X.tree_text(t)))
        for tree, text in cases:
            one_case(ctx, li, spec, ops, lang, operators, tree, text, ninputs, opdecls)
        rejection_family(ctx, li, spec, ops)
        bounds_family(ctx, li)


def bounds_family(ctx, li):
    """higher-order polymorphic operators whose variable collects a lower AND an upper bound before it meets another variable:
    h : x ** (x ** K) ** (x ** K2) ** E applied to typed sources, monomorphic functions g : T ** K and partial applications w (- : T) of w : y ** y ** K"""
    rng = ctx.rng
    depth = rng.randint(2, 4)
    decls = list(G.BUILTIN_DECLS)
    chain = []
    for i in range(depth):
        decls.append((G.BASE_NAMES[i], [], (5 + i - 1) if i else None))
        chain.append(5 + i)
    extra = []
    for j in range(3):
        decls.append((G.BASE_NAMES[6 + j], [], None))
        extra.append(5 + depth + j)
    # a second, unrelated lineage: a lower bound from one lineage must refuse an upper bound from the other (and vice versa)
    decls.append((G.BASE_NAMES[9], [], None))
    decls.append((G.BASE_NAMES[10], [], len(decls) - 1))
    other = [len(decls) - 2, len(decls) - 1]
    spec = G.LangSpec(decls)
    ops = spec.build()
    x, y = ('v', 0), ('v', 1)
    K1, K2, E = [(e, ()) for e in extra]
    nfun = rng.randint(1, 3)
    hparams = [x] + [X.fun(x, rng.choice([K1, K2])) for _ in range(nfun)]
    rng.shuffle(hparams)
    opdecls = [("h", {"nvars": 1, "nwild": 0, "body": X.fun(*hparams, rng.choice([E, x])), "constraints": []})]
    for K, nm in ((K1, "1"), (K2, "2")):
        opdecls.append(("w" + nm, {"nvars": 1, "nwild": 0, "body": X.fun(x, x, K), "constraints": []}))
        for t in chain + other:
            opdecls.append((f"g{nm}{spec.name(t)}", {"nvars": 0, "nwild": 0, "body": X.fun((t, ()), K), "constraints": []}))
    lang, operators = X.build_typed_language(spec, ops, opdecls)
    ctx.setup(spec.sexp(), "ok T")
    ctx.setup("(aliases)", "ok")
    ctx.setup(X.operators_line(opdecls), "ok")
    for _ in range(40 if ctx.tier == "quick" else 150):
        parts = ["h"]
        pool = chain if rng.random() < 0.6 else chain + other + other
        for p in hparams:
            if I.is_var(p):
                parts.append(f"(- : {spec.name(rng.choice(pool))})")
            else:
                nm = "1" if p[1][1] == K1 else "2"
                if rng.random() < 0.5:
                    parts.append(f"g{nm}{spec.name(rng.choice(pool))}")
                else:
                    parts.append(f"(w{nm} (- : {spec.name(rng.choice(pool))}))")
        text = " ".join(parts)
        one_case(ctx, li, spec, ops, lang, operators, None, text, 0, opdecls)
        ctx.count("bounds_family")


def one_case(ctx, li, spec, ops, lang, operators, tree, text, ninputs, opdecls):
    obs, ex, e, inputs = X.obs_typed(lang, text, ninputs, ops)
    nontrivial = ("app " in obs) or obs.startswith("E:ApplicationError") or obs == "E:TypeAnnotationError"
    ctx.case(f"(texpr {ninputs} T {G.str_sexp(text)})", obs, {"lang": spec.to_json(), "text": text, "inputs": ninputs},
        nontrivial=nontrivial, key=(li, text))
    ctx.count("outcome_" + (obs.split(" ")[0] if not obs.startswith("ok") else "ok"))
    if e is not None:
        replay = {"lang": spec.to_json(), "opdecls": [[n, s] for n, s in opdecls], "text": text, "inputs": ninputs}
        bad = check_tree(e, spec, ops, operators)
        if bad is None and tree is not None and X.has_ann(tree):
            bad = check_annotations(tree, e, lang, spec, ops)
        if bad:
            ctx.fail(f"{text!r}: {bad}", {"check": bad.split(":")[0]}, replay)
    if ctx.rng.random() < 0.25:
        # the same text with `fix=False` (application outputs are not fixed as they are built; Expr.fix at the end): still every node well typed
        obs2, ex2, e2, _ = X.obs_typed(lang, text, ninputs, ops, apply_fix=False)
        ctx.case(f"(texprf {ninputs} T F {G.str_sexp(text)})", obs2, {"lang": spec.to_json(), "text": text, "inputs": ninputs, "apply_fix": False},
            nontrivial=nontrivial, key=(li, text, "nofix"))
        ctx.count("parsed_without_apply_fix")
        if e2 is not None:
            bad = check_tree(e2, spec, ops, operators)
            if bad:
                ctx.fail(f"{text!r} parsed with fix=False: {bad}", {"check": bad.split(":")[0], "apply_fix": False},
                    {"lang": spec.to_json(), "opdecls": [[n, s] for n, s in opdecls], "text": text, "inputs": ninputs, "apply_fix": False})


def rejection_family(ctx, li, spec, ops):
    """independent accept/reject oracle on two families:
    (a) monomorphic `f : a ** b` applied to `(- : x)` must be accepted iff x <= a (reference order);
    (b) `g : x ** x ** x` applied to a base type and a compound type must be rejected (statement's example)."""
    rng = ctx.rng
    comps = spec.compounds(builtin=False)
    a = G.gen_ty(rng, spec, 1, p_special=0.0, allow_fun=False)
    b = G.gen_ty(rng, spec, 0, p_special=0.0, allow_fun=False)
    x = ('v', 0)
    opdecls = [("f", {"nvars": 0, "nwild": 0, "body": X.fun(I.conc(a), I.conc(b)), "constraints": []}),
               ("g", {"nvars": 1, "nwild": 0, "body": X.fun(x, x, x), "constraints": []})]
    lang, operators = X.build_typed_language(spec, ops, opdecls)
    ctx.setup(X.operators_line(opdecls), "ok")
    for _ in range(8):
        arg = G.perturb(rng, spec, a, up=rng.random() < 0.4, p=0.6, wrong=0.2) if rng.random() < 0.7 else G.gen_ty(rng, spec, 1, allow_fun=False)
        if arg[0] in (G.UNIT,) or any_unit(arg):
            continue
        text = f"f (- : {G.ty_text(arg, spec)})"
        obs, ex, e, _ = X.obs_typed(lang, text, 0, ops)
        ctx.case(f"(texpr 0 T {G.str_sexp(text)})", obs, {"lang": spec.to_json(), "text": text, "family": "mono"}, key=(li, "mono", text))
        want = ref_sub(spec, arg, a)
        if (e is not None) != want:
            ctx.fail(f"f : {G.ty_str(a, spec)} ** {G.ty_str(b, spec)}; `{text}` was {'accepted' if e is not None else 'rejected (' + obs + ')'}; "
                     f"reference order says {'subtype' if want else 'not a subtype'}",
                {"check": "accept-reject-mono"}, {"lang": spec.to_json(), "family": "mono", "a": a, "b": b, "arg": arg})
    if comps and spec.bases():
        for _ in range(4):
            base = (rng.choice(spec.bases()), ())
            c = rng.choice(comps)
            comp = (c, tuple(G.gen_ty(rng, spec, 0, p_special=0.0) for _ in range(spec.arity(c))))
            if any_unit(comp):
                continue
            pair = [base, comp]
            if rng.random() < 0.5:
                pair.reverse()
            text = f"g (- : {G.ty_text(pair[0], spec)}) (- : {G.ty_text(pair[1], spec)})"
            obs, ex, e, _ = X.obs_typed(lang, text, 0, ops)
            ctx.case(f"(texpr 0 T {G.str_sexp(text)})", obs, {"lang": spec.to_json(), "text": text, "family": "xxx"}, key=(li, "xxx", text))
            if e is not None:
                ctx.fail(f"g : x ** x ** x; `{text}` was accepted with type {e.type}", {"check": "accept-reject-xxx"},
                    {"lang": spec.to_json(), "family": "xxx", "pair": pair})


def any_unit(t):
    return t[0] == G.UNIT or any(any_unit(a) for a in t[1])


def replay(ctx, payload):
    inp = payload["input"]
    spec = G.LangSpec([(n, v, p) for n, v, p in inp["lang"]])
    ops = spec.build()
    x = ('v', 0)
    if inp.get("family") == "mono":
        a, b, arg = tt(inp["a"]), tt(inp["b"]), tt(inp["arg"])
        opdecls = [("f", {"nvars": 0, "nwild": 0, "body": X.fun(I.conc(a), I.conc(b)), "constraints": []})]
        lang, operators = X.build_typed_language(spec, ops, opdecls)
        text = f"f (- : {G.ty_text(arg, spec)})"
        obs, ex, e, _ = X.obs_typed(lang, text, 0, ops)
        print(text, "->", obs, "; reference:", ref_sub(spec, arg, a))
        return (e is not None) == ref_sub(spec, arg, a)
    if inp.get("family") == "xxx":
        opdecls = [("g", {"nvars": 1, "nwild": 0, "body": X.fun(x, x, x), "constraints": []})]
        lang, operators = X.build_typed_language(spec, ops, opdecls)
        pair = [tt(p) for p in inp["pair"]]
        text = f"g (- : {G.ty_text(pair[0], spec)}) (- : {G.ty_text(pair[1], spec)})"
        obs, ex, e, _ = X.obs_typed(lang, text, 0, ops)
        print(text, "->", obs)
        return e is None
    opdecls = inp["opdecls"]
    opdecls = [(n, fix_schema(s)) for n, s in opdecls]
    lang, operators = X.build_typed_language(spec, ops, opdecls)
    obs, ex, e, _ = X.obs_typed(lang, inp["text"], inp["inputs"], ops, apply_fix=inp.get("apply_fix", True))
    print(repr(inp["text"]), "->", obs)
    if e is None:
        return True
    bad = check_tree(e, spec, ops, operators)
    print("oracle:", bad or "holds")
    return bad is None


def tt(x):
    if x[0] in ('v', 'w'):
        return (x[0], x[1])
    return (x[0], tuple(tt(a) for a in x[1]))


def fix_schema(s):
    from props.C03 import fix_schema as f
    return f(s)
