"""Generators and adapters for the parsers (tokenize, parse_type, parse_expr)."""
from __future__ import annotations
import langgen as G

OPNAMES = ["f", "g", "h", "k", "m", "c", "d"]

ALPHABET_NAMES = ["f", "g", "h", "k", "c", "A", "B", "F", "G", "Syn", "PSyn", "zz", "Top", "Bottom", "Unit", "Product", "x1"]
DIGITS = ["1", "2", "3", "0", "12", "٣", "１", "²", "①", "1a", "٣2"]
SPECIALS = ["-", "(", ")", ",", ":", ";", "*", "_", "#", "~", "\n", " ", "\t", "\r"]


def plain_language(spec, ops, with_aliases=True):
    """a Language whose operators all have the wildcard type `_` (nothing fails to type)"""
    from transforge.expr import Operator
    from transforge.type import TypeAlias
    from transforge.lang import Language
    scope = {spec.name(i): ops[i] for i in range(5, len(spec.decls))}
    for n in OPNAMES:
        scope[n] = Operator()
    aliases = []
    if with_aliases:
        bases = spec.bases()
        comps = [c for c in spec.compounds(builtin=False)]
        if bases:
            body = (bases[0], ())
            if comps:
                c = comps[0]
                body = (c, tuple((bases[0], ()) for _ in range(spec.arity(c))))
            scope["Syn"] = TypeAlias(G.ty_py(body, ops))
            aliases.append(("Syn", 0, body))
            if comps:
                c = comps[-1]
                ar = spec.arity(c)
                fixed = [(bases[-1], ()) for _ in range(ar)]
                scope["PSyn"] = TypeAlias(eval("lambda x: op(" + ", ".join("x" if i == 0 else f"a{i}" for i in range(ar)) + ")",
                    {"op": ops[c], **{f"a{i}": G.ty_py(fixed[i], ops) for i in range(ar)}}))
                aliases.append(("PSyn", 1, (c, tuple(('v', 0) if i == 0 else fixed[i] for i in range(ar)))))
    return Language(scope=scope), aliases


def alias_term_sexp(t):
    if t[0] == 'v':
        return f"(v {t[1]})"
    if not t[1]:
        return f"({t[0]})"
    return "(" + str(t[0]) + " " + " ".join(alias_term_sexp(a) for a in t[1]) + ")"


def setup_lines(spec, aliases):
    return [spec.sexp(),
            "(aliases " + " ".join(f"({n} {ar} {alias_term_sexp(b)})" for n, ar, b in aliases) + ")",
            "(opnames " + " ".join(OPNAMES) + ")"]


# -- canonical forms of what the implementation returns -------------------------

def type_firstocc(t, ops):
    """a (possibly variable-containing) transforge type -> protocol term, variables numbered by first occurrence"""
    from transforge import type as T
    names = []

    def go(t):
        t = t.follow()
        if isinstance(t, T.TypeVariable):
            for k, n in enumerate(names):
                if n is t:
                    return f"(v {k})"
            names.append(t)
            return f"(v {len(names) - 1})"
        o = next(i for i, op in enumerate(ops) if op is t.operator)
        if not t.params:
            return f"({o})"
        return "(" + str(o) + " " + " ".join(go(p) for p in t.params) + ")"
    return go(t)


class ParseProbe:
    """numbers anonymous sources by creation, tags constant-operator sources, records in-line annotation types"""
    def __init__(self, ops=None):
        self.ops = ops

    def __enter__(self):
        from transforge import expr as E, lang as Lg
        self.E, self.Lg = E, Lg
        self.anns = []
        self.nsrc = 0
        self.in_op = False
        probe = self
        self._src_init = E.Source.__init__
        self._op_inst = E.Operator.instance
        self._ptype = Lg.Language.parse_type

        def src_init(s, type=None, *a, **kw):
            from transforge.type import _ as WILD
            if (type is None or type is WILD) and not probe.in_op:
                s._verif_id = probe.nsrc
                probe.nsrc += 1
                probe._src_init(s)
            else:
                probe._src_init(s, type, *a, **kw)

        def op_inst(op):
            probe.in_op = True
            try:
                e = probe._op_inst(op)
            finally:
                probe.in_op = False
            e._verif_op = op.name
            return e

        def ptype(lang, value):
            r = probe._ptype(lang, value)
            if not isinstance(value, str):
                # rendered now: the object may be unified with other types later in the parse
                probe.anns.append(type_firstocc(r, probe.ops) if probe.ops is not None else r)
            return r
        E.Source.__init__ = src_init
        E.Operator.instance = op_inst
        Lg.Language.parse_type = ptype
        return self

    def __exit__(self, *a):
        self.E.Source.__init__ = self._src_init
        self.E.Operator.instance = self._op_inst
        self.Lg.Language.parse_type = self._ptype


def tree_sexp(e, inputs):
    from transforge import expr as E
    if isinstance(e, E.Application):
        return "(" + tree_sexp(e.f, inputs) + " " + tree_sexp(e.x, inputs) + ")"
    for k, i in enumerate(inputs):
        if i is e:
            return f"(in {k + 1})"
    if hasattr(e, "_verif_op"):
        return e._verif_op
    if isinstance(e, E.Operation):
        return e.operator.name
    if isinstance(e, E.Source):
        return f"(src {getattr(e, '_verif_id', '?')})"
    return "?" + type(e).__name__


PARSE_ERRORS = ("ParseError", "BracketMismatch", "EmptyParse", "UndefinedTokenError", "MissingInputError",
                "TypeParameterError", "TypeAnnotationError", "ApplicationError")


def obs_parse_expr(lang, text, ninputs, ops, unify=False):
    """structural observation of parse_expr; returns (obs, exception or None)"""
    from transforge import expr as E
    inputs = [E.Source() for _ in range(ninputs)]
    with ParseProbe(ops) as probe:
        # inputs were created before the probe started numbering
        try:
            e = lang.parse_expr(text, *inputs, unify=unify)
        except Exception as ex:  # noqa
            return "E:" + type(ex).__name__, ex
        return "ok " + tree_sexp(e, inputs) + " |" + "".join(" " + t for t in probe.anns), None


def obs_parse_type(lang, text, ops):
    try:
        t = lang.parse_type(text)
    except Exception as ex:  # noqa
        return "E:" + type(ex).__name__, ex
    return "ok " + type_firstocc(t, ops), None


_CONSTS = None


def obs_tokenize(text, mode):
    """tokenize with the specials string the parsers of the current tree really use"""
    global _CONSTS
    from transforge.lang import tokenize
    if _CONSTS is None:
        import gen_constants, common
        _CONSTS = gen_constants.extract(common.REPO)
    specials = _CONSTS["exprSpecials"] if mode == "expr" else _CONSTS["typeSpecials"]
    toks = list(tokenize(text, specials))
    return str(len(toks)) + " " + " ".join(G.str_sexp(t) for t in toks)


# -- generators -------------------------------------------------------------------

def gen_type_text(rng, spec, depth=2, inline=False):
    """well-formed type text; `inline` restricts to the forms the in-line reader accepts"""
    r = rng.random()
    comps = [c for c in spec.compounds(builtin=False)]
    bases = spec.bases()
    if depth == 0 or r < 0.35:
        q = rng.random()
        if q < 0.1:
            return "_"
        if q < 0.2:
            return rng.choice(["Top", "Bottom"])
        if q < 0.28:
            return "Syn"
        return spec.name(rng.choice(bases)) if bases else "Top"
    if r < 0.75 and comps:
        c = rng.choice(comps)
        sep = rng.choice([", ", ",", " , "])
        return spec.name(c) + rng.choice(["(", " ("]) + sep.join(gen_type_text(rng, spec, depth - 1) for _ in range(spec.arity(c))) + ")"
    if r < 0.82 and comps:
        return "PSyn(" + gen_type_text(rng, spec, depth - 1) + ")"
    a, b = gen_type_text(rng, spec, depth - 1), gen_type_text(rng, spec, depth - 1)
    if inline or rng.random() < 0.7:
        return f"({a} * {b})"
    return f"{a} * {b}"


def gen_tree(rng, depth, ninputs):
    r = rng.random()
    if depth == 0 or r < 0.3:
        q = rng.random()
        if q < 0.5:
            return ("op", rng.choice(OPNAMES))
        if q < 0.75 and ninputs:
            return ("in", rng.randint(1, ninputs))
        return ("src",)
    n = rng.randint(1, 3)
    e = gen_tree(rng, depth - 1, ninputs) if rng.random() < 0.3 else ("op", rng.choice(OPNAMES))
    for _ in range(n):
        e = ("app", e, gen_tree(rng, depth - 1, ninputs))
    return e


def spine(e):
    args = []
    while e[0] == "app":
        args.append(e[2])
        e = e[1]
    return e, list(reversed(args))


def ws(rng):
    return rng.choice(["", " ", "  ", "\t", " \r", "\n", " # note ( , : \n", "\n  "])


def gap(rng):
    return rng.choice([" ", "  ", "\t", "\n", " # c\n", " \n "])


def render_item(rng, e, spec, ann=0.12):
    """an item: atom, parenthesised spine or call; may be wrapped in redundant parentheses / annotated"""
    if e[0] == "op":
        s = e[1]
    elif e[0] == "in":
        s = str(e[1])
    elif e[0] == "src":
        s = "-"
    else:
        s = "(" + ws(rng) + render_spine(rng, e, spec, ann) + ws(rng) + ")"
    if rng.random() < 0.15:
        s = "(" + ws(rng) + s + ws(rng) + ")"
    if rng.random() < ann:
        s = "(" + s + ws(rng) + ":" + ws(rng) + gen_type_text(rng, spec, 1, inline=True) + ws(rng) + ")"
    return s


def render_spine(rng, e, spec, ann=0.12):
    head, args = spine(e)
    if not args:
        return render_item(rng, e, spec, ann)
    s = render_item(rng, head, spec, ann)
    i = 0
    while i < len(args):
        style = rng.random()
        if style < 0.4:
            # call with 1..k arguments
            k = rng.randint(1, len(args) - i)
            s = s + rng.choice(["", " "]) + "(" + ws(rng) + ("," + ws(rng)).join(
                render_spine(rng, a, spec, ann) + ws(rng) for a in args[i:i + k]) + ")"
            i += k
        elif style < 0.85:
            s = s + gap(rng) + render_item(rng, args[i], spec, ann)
            i += 1
        else:
            # group what we have so far
            s = "(" + s + gap(rng) + render_item(rng, args[i], spec, ann) + ")"
            i += 1
    return s


def tree_expected(e, counter):
    """the tree the renderings denote, in the protocol form (sources numbered in text order)"""
    if e[0] == "op":
        return e[1]
    if e[0] == "in":
        return f"(in {e[1]})"
    if e[0] == "src":
        k = counter[0]
        counter[0] += 1
        return f"(src {k})"
    return "(" + tree_expected(e[1], counter) + " " + tree_expected(e[2], counter) + ")"


def gen_soup(rng, n):
    toks = []
    for _ in range(n):
        r = rng.random()
        if r < 0.4:
            toks.append(rng.choice(SPECIALS))
        elif r < 0.55:
            toks.append(rng.choice(DIGITS))
        else:
            toks.append(rng.choice(ALPHABET_NAMES))
        if rng.random() < 0.5:
            toks.append(" ")
    return "".join(toks)


def mutate(rng, text):
    if not text:
        return text
    ops = rng.randint(1, 3)
    s = list(text)
    for _ in range(ops):
        r = rng.random()
        i = rng.randrange(len(s) + 1)
        if r < 0.35 and s:
            del s[min(i, len(s) - 1)]
        elif r < 0.7:
            s.insert(i, rng.choice(SPECIALS + DIGITS[:4] + ["A", "f"]))
        elif s:
            j = rng.randrange(len(s))
            i = min(i, len(s) - 1)
            s[i], s[j] = s[j], s[i]
    return "".join(s)
