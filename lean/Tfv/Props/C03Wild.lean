import Tfv.Model
import Tfv.Spec.Sat
import Tfv.Spec.SatChain
import Tfv.Proofs.WildConstr
import Tfv.Proofs.WildConstrMatch
import Tfv.Proofs.WildConstrBind
import Tfv.Proofs.WildConstrStrict
import Tfv.Proofs.WildConstrRun
import Tfv.Proofs.WildConstrFamily1
import Tfv.Proofs.WildConstrFamily2
import Tfv.Proofs.InferConstrExamples
/-!
# C03 with wildcards: can the engine mark a subtype constraint fulfilled wrongly?

`C03c_fulfilled_sub_holds_partial` (Props/C03Constr.lean) needs wildcard-free stores, because `fulfill` marks a subtype
constraint when `match3 … = some true`, and `match3` answers `some true` on two distinct wildcard variables.

What is settled here:
* the exact behaviour of `match3` on a pair of variables (`C03w_match3_wild_pair_iff`, `C03w_match3_distinct_true_iff`):
  without `accept_wildcard`, "both are wildcards" is the ONLY way two distinct variables are answered `some true`;
* the mechanism that is supposed to keep that rule from firing: the `unify` inside `fulfill` runs with
  `skip_wildcard = false`; on two variables it is `bind` (`C03w_unify_var_var_is_bind`), and a successful `bind` leaves
  neither of them a wildcard (`C03w_unify_var_var_clears_wild`);
* a sound, executable replacement of `NoWild`: the STRICT matcher (`match3` on the store with all wildcard flags
  cleared, `dewild`) is sound on every store (`C03w_strict_match_sound`), so a store in which every marked subtype
  constraint passes the strict matcher (`subsStrictB`) satisfies `SubsHold` (`C03w_certificate_sound`), and
  `C03w_fulfilled_sub_holds_partial` / `…_instantiate_partial` lift `C03c_fulfilled_sub_holds_partial` to stores with
  wildcards under that one decidable hypothesis on the FINAL store;
* 588 kernel-evaluated wildcard runs (`C03w_family`), two of them spelled out (`C03w_run_skeleton_branch`, `C03w_run_live_wildcard`).

What stays open: a proof that `subsStrictB` holds for EVERY reachable store. The obstacle is the branch of `unify`
that binds a variable to a fresh skeleton and then unifies the skeleton with itself (type.py:627) instead of with the
other side: after it `match3` compares pairs that `unify` has not visited; only the re-check of the same constraint
triggered by the binding (through the constraint sets) closes the gap, which needs a global invariant on constraint sets.
No run violating the certificate was found (see the report: about 5.4 million runs).
-/
namespace Tfv.C03
open Tfv Tfv.C03P Tfv.C03C

/-- Exact characterisation of `match3` on two terms that follow to variables `av`, `bv` (any `subtype`, any fuel ≥ 1,
any bounds): the answer is `some true` iff they are the same variable, or both are wildcards, or wildcards are accepted
and at least one is a wildcard. -/
theorem C03w_match3_wild_pair_iff (L : Lang) (σ : Store) (n : Nat) (st aw : Bool) (a b : Term) (av bv : Nat)
    (ha : followT σ a = .var av) (hb : followT σ b = .var bv) :
    match3 L σ (n+1) st aw a b = some true ↔
      (av = bv ∨ ((getVar σ av).wildcard = true ∧ (getVar σ bv).wildcard = true) ∨
        (aw = true ∧ ((getVar σ av).wildcard = true ∨ (getVar σ bv).wildcard = true))) :=
  match3_wild_pair_iff L σ n st aw a b av bv ha hb

example : match3 exL σW 68 true false (.var 0) (.var 1) = some true :=
  (C03w_match3_wild_pair_iff exL σW 67 true false (.var 0) (.var 1) 0 1 rfl rfl).mpr (Or.inr (Or.inl ⟨rfl, rfl⟩))

/-- The value itself, as a closed formula (the last case can only be `some false` or `none`). -/
theorem C03w_match3_var_var (L : Lang) (σ : Store) (n : Nat) (st aw : Bool) (a b : Term) (av bv : Nat)
    (ha : followT σ a = .var av) (hb : followT σ b = .var bv) :
    match3 L σ (n+1) st aw a b =
      if av == bv || ((getVar σ av).wildcard && (getVar σ bv).wildcard) then some true
      else if aw && ((getVar σ av).wildcard || (getVar σ bv).wildcard) then some true
      else match (getVar σ av).lower, (getVar σ bv).upper with
        | some l, some u => if opSub L u l true then some false else none
        | _, _ => none :=
  match3_var_var L σ n st aw a b av bv ha hb

example : match3 exL σW 68 true false (.var 0) (.var 1) = some true := by
  rw [C03w_match3_var_var exL σW 67 true false (.var 0) (.var 1) 0 1 rfl rfl]; rfl

/-- Two unbound wildcards always match, whatever the flags. -/
theorem C03w_match3_two_wildcards (L : Lang) (σ : Store) (n : Nat) (st aw : Bool) (av bv : Nat)
    (ha : (getVar σ av).bound = none) (hb : (getVar σ bv).bound = none)
    (wa : (getVar σ av).wildcard = true) (wb : (getVar σ bv).wildcard = true) :
    match3 L σ (n+1) st aw (.var av) (.var bv) = some true :=
  match3_two_wildcards L σ n st aw av bv ha hb wa wb

example : match3 exL σW 1 false false (.var 0) (.var 1) = some true :=
  C03w_match3_two_wildcards exL σW 0 false false 0 1 rfl rfl rfl rfl

/-- In the test `fulfill` makes (`accept_wildcard = false`), two DISTINCT variables are answered `some true` iff both are
wildcards: the one unsound answer of the test. -/
theorem C03w_match3_distinct_true_iff (L : Lang) (σ : Store) (n : Nat) (st : Bool) (a b : Term) (av bv : Nat)
    (ha : followT σ a = .var av) (hb : followT σ b = .var bv) (hne : av ≠ bv) :
    match3 L σ (n+1) st false a b = some true ↔
      ((getVar σ av).wildcard = true ∧ (getVar σ bv).wildcard = true) :=
  match3_distinct_true_iff L σ n st a b av bv ha hb hne

example : match3 exL σW 68 true false (.var 0) (.var 1) = some true :=
  (C03w_match3_distinct_true_iff exL σW 67 true (.var 0) (.var 1) 0 1 rfl rfl (by decide)).mpr ⟨rfl, rfl⟩

/-- With `skip_wildcard = false` (the call in `SubtypeConstraint.fulfill`), `unify` on two terms that follow to variables
is `bind`, wildcards or not. -/
theorem C03w_unify_var_var_is_bind (L : Lang) (n : Nat) (σ : Store) (a b : Term) (av bv : Nat) (st sb : Bool)
    (ha : followT σ a = .var av) (hb : followT σ b = .var bv) :
    unify L (n+1) σ a b st sb false = bind L n σ av (.var bv) :=
  unify_var_var L n σ a b av bv st sb ha hb

example : unify exL 3 σW (.var 0) (.var 1) true true false = bind exL 2 σW 0 (.var 1) :=
  C03w_unify_var_var_is_bind exL 2 σW (.var 0) (.var 1) 0 1 true true rfl rfl

/-- … whereas with `skip_wildcard = true` two wildcards are left alone (and stay wildcards). -/
theorem C03w_unify_var_var_skip (L : Lang) (n : Nat) (σ : Store) (a b : Term) (av bv : Nat) (st sb : Bool)
    (ha : followT σ a = .var av) (hb : followT σ b = .var bv)
    (wa : (getVar σ av).wildcard = true) (wb : (getVar σ bv).wildcard = true) :
    unify L (n+1) σ a b st sb true = .ok σ :=
  unify_var_var_skip L n σ a b av bv st sb ha hb wa wb

example : unify exL 1 σW (.var 0) (.var 1) true false true = .ok σW :=
  C03w_unify_var_var_skip exL 0 σW (.var 0) (.var 1) 0 1 true false rfl rfl rfl rfl

/-- If the `unify` of `fulfill` succeeds on two terms that follow to variables, neither variable is a wildcard in the
resulting store: the both-wildcards rule of `match3` cannot fire on a pair that this `unify` has visited. -/
theorem C03w_unify_var_var_clears_wild (L : Lang) (wf : WF L) (n : Nat) (σ σ' : Store) (a b : Term) (av bv : Nat)
    (st sb : Bool) (okc : OkStoreC L σ) (ha : followT σ a = .var av) (hb : followT σ b = .var bv)
    (hav : av < σ.vars.length) (hbv : bv < σ.vars.length)
    (h : unify L n σ a b st sb false = .ok σ') :
    (getVar σ' av).wildcard = false ∧ (getVar σ' bv).wildcard = false :=
  unify_var_var_clears_wild wf okc ha hb hav hbv h

/-- non-vacuity: the two wildcards of `σW`, unified as `fulfill` would: the call succeeds, `x0 := x1`, no wildcard left -/
example : OkStoreC exL σW ∧ followT σW (.var 0) = .var 0 ∧ followT σW (.var 1) = .var 1 ∧
    boundToB (unify exL 6 σW (.var 0) (.var 1) true true false) 0 1 = true := by
  refine ⟨okStoreCB_sound (by decide), rfl, rfl, ?_⟩
  rw [unify_eq_K]; decide +kernel

/-- A subtype constraint whose two sides follow to VARIABLES — wildcards or not, i.e. exactly the situation of
`C03c_match3_wildcards_unsound` — is never marked wrongly: whatever `fulfill` answers, afterwards the constraint holds
under every solution of the resulting store, because the preceding `unify` (= `bind`) has identified the two variables.
FULL (no hypothesis on wildcards). -/
theorem C03w_fulfill_var_var_sound (L : Lang) (wf : WF L) (n : Nat) (σ σ' : Store) (c : Nat) (d : Bool)
    (ref tgt : Term) (s f : Bool) (av bv : Nat) (okc : OkStoreC L σ)
    (hg : getConstr σ c = .sub ref tgt s f)
    (ha : followT σ ref = .var av) (hb : followT σ tgt = .var bv)
    (hav : av < σ.vars.length) (hbv : bv < σ.vars.length)
    (h : fulfill L n σ c = .ok (σ', d)) :
    ∀ ρ, Sat L ρ σ' → Sub L (den ρ ref) (den ρ tgt) :=
  fulfill_var_var_sound wf okc hg ha hb hav hbv h

/-- non-vacuity: two wildcards with the pending constraint `x0 ≤ x1`; `fulfill` succeeds, answers `true`, marks the
constraint, and no wildcard is left -/
example : OkStoreC exL σWs ∧ getConstr σWs 0 = .sub (.var 0) (.var 1) false false ∧
    followT σWs (.var 0) = .var 0 ∧ followT σWs (.var 1) = .var 1 ∧
    (getVar σWs 0).wildcard = true ∧ (getVar σWs 1).wildcard = true ∧
    markedB (fulfill exL 8 σWs 0) 1 = true := by
  refine ⟨okStoreCB_sound (by decide), rfl, rfl, rfl, rfl, rfl, ?_⟩
  rw [fulfill_eq_K]; decide +kernel

/-- The strict matcher — `match3` on the store with every wildcard flag cleared — is sound on EVERY store: if it answers
`some true`, the subtype relation holds under every solution of the store. -/
theorem C03w_strict_match_sound (L : Lang) (wf : WF L) (σ : Store) (ok : OkStore L σ) (n : Nat) (a b : Term)
    (ha : okTerm L σ a = true) (hb : okTerm L σ b = true)
    (h : match3 L (dewild σ) n true false a b = some true) :
    ∀ ρ, Sat L ρ σ → Sub L (den ρ a) (den ρ b) :=
  match3_dewild_sound wf ok n a b ha hb h

/-- The strict matcher asks for more than the test `fulfill` makes: strict `some true` implies the engine's `some true`
(the converse fails exactly through the both-wildcards rule, `C03w_match3_distinct_true_iff`). -/
theorem C03w_strict_implies_engine_test (L : Lang) (σ : Store) (st : Bool) (n : Nat) (a b : Term)
    (h : match3 L (dewild σ) n st false a b = some true) : match3 L σ n st false a b = some true :=
  match3_strict_imp L σ st n a b h

/-- … and the converse does fail: the two wildcards of `σW` match for the engine, not for the strict matcher -/
example : match3 exL σW 68 true false (.var 0) (.var 1) = some true ∧
    match3 exL (dewild σW) 68 true false (.var 0) (.var 1) = none := by
  refine ⟨(C03w_match3_distinct_true_iff exL σW 67 true (.var 0) (.var 1) 0 1 rfl rfl (by decide)).mpr ⟨rfl, rfl⟩, ?_⟩
  rw [← Tfv.C18P.match3K_eq]; decide +kernel

/-- a store with two wildcards and the constraint `x0 ≤ x0` marked fulfilled -/
def σWc : Store :=
  { vars := [{ wildcard := true }, { wildcard := true, cset := 1 }], csets := [[], []],
    constrs := [.sub (.var 0) (.var 0) false true] }

theorem σWc_okc : OkStoreC exL σWc := okStoreCB_sound (by decide)

theorem σWc_cert : subsStrictB exL σWc = true := by rw [← certK_eq]; decide +kernel

example : OkStore exL σWc ∧ match3 exL (dewild σWc) 1 true false (.var 0) (.var 0) = some true :=
  ⟨σWc_okc.ok, by rw [← Tfv.C18P.match3K_eq]; decide +kernel⟩

/-- The certificate: if every subtype constraint marked fulfilled passes the strict matcher (`subsStrictB`, executable),
then every such constraint holds under every solution — in any store satisfying the invariant, wildcards or not. -/
theorem C03w_certificate_sound (L : Lang) (wf : WF L) (σ : Store) (okc : OkStoreC L σ)
    (h : subsStrictB L σ = true) :
    ∀ c ref tgt s, c < σ.constrs.length → getConstr σ c = .sub ref tgt s true →
      ∀ ρ, Sat L ρ σ → Sub L (den ρ ref) (den ρ tgt) :=
  subsStrictB_sound wf okc h

example : OkStoreC exL σWc ∧ subsStrictB exL σWc = true ∧ ¬ NoWild σWc ∧
    getConstr σWc 0 = .sub (.var 0) (.var 0) false true :=
  ⟨σWc_okc, σWc_cert, fun h => (by have := h 0; cases this), rfl⟩

/-- `C03c_fulfilled_sub_holds_partial` lifted to stores WITH wildcards: after a successful chain of applications from any
store satisfying the invariant, if the final store passes the certificate, every subtype constraint marked fulfilled —
before or during the chain — holds under every solution of the final store.
PARTIAL: the hypothesis `subsStrictB L σ' = true` on the final store replaces `NoWild σ`; it is decidable (the harness
evaluates it on each run); that it holds for every reachable store is the open part. -/
theorem C03w_fulfilled_sub_holds_partial (L : Lang) (wf : WF L) (n : Nat) (fixFlag : Bool) (σ σ' : Store) (f r : Term)
    (xs : List Term) (ok : OkStoreC L σ)
    (hf : okTerm L σ f = true) (hxs : okTermL L σ xs = true)
    (h : applyAll L n fixFlag σ f xs = .ok (σ', r))
    (cert : subsStrictB L σ' = true) :
    OkStoreC L σ' ∧ ∀ c ref tgt s, c < σ'.constrs.length → getConstr σ' c = .sub ref tgt s true →
      ∀ ρ, Sat L ρ σ' → Sub L (den ρ ref) (den ρ tgt) :=
  have s := (applyAll_soundC wf n fixFlag xs σ σ' f r ok hf hxs h).1
  ⟨s.ok, subsStrictB_sound wf s.ok cert⟩

example : OkStoreC exL σWc ∧ okTerm exL σWc (.var 0) = true ∧ okTermL exL σWc [] = true ∧
    applyAll exL 5 true σWc (.var 0) [] = .ok (σWc, .var 0) ∧ subsStrictB exL σWc = true :=
  ⟨σWc_okc, by decide, by decide, by unfold applyAll; rfl, σWc_cert⟩

/-- … and for instantiating a schema WITH wildcards (`nwild` arbitrary). PARTIAL: certificate on the resulting store, as above. -/
theorem C03w_fulfilled_sub_holds_instantiate_partial (L : Lang) (wf : WF L) (n : Nat) (σ σ' : Store) (s : Schema)
    (f : Term) (ok : OkStoreC L σ)
    (hcs : ∀ c, c ∈ s.constraints → okCAstN L (s.nvars + s.nwild) c = true)
    (hbody : okTermN L (s.nvars + s.nwild) s.body = true)
    (h : instantiate L n σ s = .ok (σ', f))
    (cert : subsStrictB L σ' = true) :
    OkStoreC L σ' ∧ ∀ c ref tgt st, c < σ'.constrs.length → getConstr σ' c = .sub ref tgt st true →
      ∀ ρ, Sat L ρ σ' → Sub L (den ρ ref) (den ρ tgt) :=
  have s1 := (instantiate_steps wf ok hcs hbody h).2.1
  ⟨s1.ok, subsStrictB_sound wf s1.ok cert⟩

/-- The branch of `unify` that unifies the fresh skeleton with itself (type.py:627), met by a constraint with wildcards:
`x0 ** x1 ** A [x1 << [F(G(_)), A], F(G(_)) <= x1]` applied to `F(_)`, `F(G(_))` succeeds, the subtype constraint is
marked fulfilled, a wildcard is still unbound in the final store, and the final store passes the certificate
(the two wildcards of the constraints have been identified by the nested re-check). Kernel-evaluated. -/
theorem C03w_run_skeleton_branch : goodWild wL (wrun wL 60 wS1 [wArgF, wArgFG]) = true := wrun_ex1

/-- `x0 ** x1 ** A [x0 <= x1]` applied to `F(_)`, `_`: the marked constraint ends up between `F(w)` and itself with `w`
an unbound wildcard; the certificate holds. Kernel-evaluated. -/
theorem C03w_run_live_wildcard : goodWild wL (wrun wL 60 wS2 [wArgF, wArgW]) = true := wrun_ex2

/-- All 588 runs of the generated family (see Proofs/WildConstrFamily1.lean) are refused or end in a store passing the
certificate; 428 of them succeed with a subtype constraint marked fulfilled (`wFam*_tally`). Kernel-evaluated. -/
theorem C03w_family (p : Schema × List Schema)
    (hp : p ∈ wFam0 ++ wFam1 ++ wFam2 ++ wFam3 ++ wFam4 ++ wFam5) :
    refusedOrCert wL (wrun wL 60 p.1 p.2) = true := by
  simp only [List.mem_append] at hp
  rcases hp with ((((hp | hp) | hp) | hp) | hp) | hp
  · exact tallyK_all wFam0_tally p hp
  · exact tallyK_all wFam1_tally p hp
  · exact tallyK_all wFam2_tally p hp
  · exact tallyK_all wFam3_tally p hp
  · exact tallyK_all wFam4_tally p hp
  · exact tallyK_all wFam5_tally p hp

example : (wS1, [wArgF, wArgFG]) ∈ wFam0 ++ wFam1 ++ wFam2 ++ wFam3 ++ wFam4 ++ wFam5 ∨ wFam0.length = 98 :=
  Or.inr rfl

/-- the certificate over the kernel matcher is the certificate -/
theorem C03w_certK_eq (L : Lang) (σ : Store) : certK L σ = subsStrictB L σ := certK_eq L σ

example : certK exL σWc = true := by rw [C03w_certK_eq]; exact σWc_cert

end Tfv.C03
