import Proto.Sub
/-! Prototype of the inference store (constraint-free core): representation choices. -/
namespace P

inductive Term where
  | var (v : Nat)
  | app (o : Nat) (args : List Term)
  deriving Repr, Inhabited

structure VarInfo where
  bound : Option Term := none
  lower : Option Nat := none
  upper : Option Nat := none
  deriving Repr, Inhabited

structure Store where
  vars : List VarInfo := []
  deriving Repr, Inhabited

inductive Err where
  | typeMismatch | subtypeMismatch | recursiveType | internal (site : String) | outOfFuel
  deriving Repr, DecidableEq

abbrev M := StateT Store (Except Err)

def getVar (σ : Store) (v : Nat) : VarInfo := σ.vars.getD v {}
def setVar (σ : Store) (v : Nat) (i : VarInfo) : Store := { σ with vars := σ.vars.set v i }

/-- strict/non-strict operator subtype, as `TypeOperator.subtype` -/
def opSub (L : Lang) (a b : Nat) (strict : Bool := false) : Bool :=
  (!strict && a == b) || a == BOT || b == TOP ||
    (match parentOf L a with | some p => isAnc L (p+1) p b | none => false)

def follow (σ : Store) : Nat → Term → Term
  | 0, t => t
  | n+1, .var v => match (getVar σ v).bound with
      | some t => follow σ n t
      | none => .var v
  | _, t => t

/-- bind to a *base* operation or to a variable-free compound; the bound-transfer to variables omitted here -/
def bindOp (L : Lang) (σ : Store) (v : Nat) (o : Nat) (args : List Term) : Except Err Store :=
  let i := getVar σ v
  if i.bound.isSome then .error (.internal "bind:twice") else
  if args.isEmpty then
    if (i.lower.any fun l => opSub L o l true) then .error .subtypeMismatch
    else if (i.upper.any fun u => opSub L u o true) then .error .subtypeMismatch
    else .ok (setVar σ v { i with bound := some (.app o args) })
  else if i.lower.isSome || i.upper.isSome then .error .subtypeMismatch   -- repaired D1
  else .ok (setVar σ v { i with bound := some (.app o args) })

def above (L : Lang) (σ : Store) (v : Nat) (new : Nat) : Except Err Store :=
  if new == TOP then bindOp L σ v TOP [] else
  let i := getVar σ v
  if i.bound.isSome then .error (.internal "above:bound") else
  if (i.upper.any fun u => opSub L u new true) then .error .subtypeMismatch
  else if (i.upper.any fun u => !opSub L new u) then .error .subtypeMismatch
  else
    let r : Except Err Store :=
      if (i.lower.any fun l => opSub L new l true) then .ok σ
      else if (i.lower.all fun l => opSub L l new) then .ok (setVar σ v { i with lower := some new })
      else .error .subtypeMismatch
    r.bind fun σ' =>
      let i' := getVar σ' v
      if i'.bound.isNone && i'.lower.isSome && i'.lower == i'.upper then bindOp L σ' v new [] else .ok σ'

/-- valuations and satisfaction -/
abbrev Val := Nat → Ty

mutual
def den (ρ : Val) : Term → Ty
  | .var v => ρ v
  | .app o args => .app o (denL ρ args)
def denL (ρ : Val) : List Term → List Ty
  | [] => []
  | t :: ts => den ρ t :: denL ρ ts
end

def base (o : Nat) : Ty := .app o []

structure Sat (L : Lang) (ρ : Val) (σ : Store) : Prop where
  bound : ∀ v t, (getVar σ v).bound = some t → ρ v = den ρ t
  lower : ∀ v l, (getVar σ v).lower = some l → sub L true (base l) (ρ v) = true
  upper : ∀ v u, (getVar σ v).upper = some u → sub L true (ρ v) (base u) = true

theorem getVar_setVar_ne {σ v w i} (h : w ≠ v) : getVar (setVar σ v i) w = getVar σ w := by
  simp [getVar, setVar, List.getD_eq_getElem?_getD, List.getElem?_set_ne (Ne.symm h)]

theorem getVar_setVar_eq {σ v i} (h : v < σ.vars.length) : getVar (setVar σ v i) v = i := by
  simp [getVar, setVar, List.getD_eq_getElem?_getD, h]

end P
