import Tfv.Model
namespace Tfv.C19
theorem placeholder : True := trivial
end Tfv.C19
