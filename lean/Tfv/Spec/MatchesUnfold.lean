import Tfv.Spec.Matches
/-!
# Specification: what a task asks of a workflow graph when it is unfolded into a tree (`unfold_tree = True`)

With `unfold_tree` every PATH of steps from an output gets its own variable: the task is read as the tree that
is obtained by duplicating every shared step (and whatever is below it). An assignment is then a map from paths
to nodes; two paths that end in the same step may be matched by two different nodes.
-/
namespace Tfv

/-- `p` is a path of steps that starts at an output step, follows `from_` links, and ends in step `k`
(`p` lists the steps on the way, the last element of `p` is `k`) -/
inductive PathTo (t : QTask) : List Nat → Nat → Prop
  | out {o : Nat} : o ∈ t.outputs → PathTo t [o] o
  | step {p : List Nat} {c b : Nat} : PathTo t p c → b ∈ (t.step c).from_ → PathTo t (p ++ [b]) b

/-- the assignment `h` of PATHS to nodes shows that workflow `wf` of graph `g` contains the flow that the
unfolded task `t` describes (flags `f`); compare `MatchesBy`, clause by clause -/
structure MatchesUnfoldedBy (G : GLang) (t : QTask) (f : QFlags) (g : List Triple) (wf : Node)
    (h : List Nat → Node) : Prop where
  /-- (i) every copy of an output step is the output of the workflow, or (by default) a direct input of the
  output; and has its type. (Also a copy that lies below another output: the generator marks a variable as an
  output variable whenever its step is an output step.) -/
  output : ∀ p o, PathTo t p o → o ∈ t.outputs →
    ((wf, Node.tf "output", h p) ∈ g ∨
      (f.byPenultimateOutput = true ∧ ∃ m, (wf, Node.tf "output", m) ∈ g ∧ (m, Node.tf "from", h p) ∈ g)) ∧
    TypeOk G g (h p) (t.step o).types
  /-- (ii) operators and types of every copy of every step -/
  step : f.byChronology = true → ∀ p k, PathTo t p k →
    OpOk g (h p) (t.step k).ops ∧ TypeOk G g (h p) (t.step k).types
  /-- (iii) every precedes-link of the tree follows the dependencies (or, for an unconstrained step, may collapse) -/
  link : f.byChronology = true → ∀ p c b, PathTo t p c → b ∈ (t.step c).from_ →
    (h p, Node.tf "depends", h (p ++ [b])) ∈ g ∨ (relaxedLink t c b = true ∧ h p = h (p ++ [b]))
  /-- (iv) every copy of an input step is an input of the workflow (or, with `by_second_input`, feeds one) -/
  input : f.byIo = true → ∀ p i, PathTo t p i → i ∈ t.inputs →
    ((wf, Node.tf "input", h p) ∈ g ∨
      (f.bySecondInput = true ∧ ∃ m, (wf, Node.tf "input", m) ∈ g ∧ (h p, Node.tf "from", m) ∈ g)) ∧
    TypeOk G g (h p) (t.step i).types
  /-- (v) pre-filter: operators that definitely occur (as in `MatchesBy`: it does not depend on the assignment) -/
  preOps : f.byOperators = true → ∀ k o, StepReach t k → (t.step k).ops = [o] →
    (wf, Node.tf "containsOperation", Node.ns o) ∈ g
  /-- (v) pre-filter: every step's type requirement is met by some type the workflow contains -/
  preTypes : f.byTypes = true → ∀ k, StepReach t k → (t.step k).types ≠ [] →
    ∃ T ∈ (t.step k).types, HasType G g wf T

/-- the unfolded task matches: some assignment of paths to nodes does -/
def MatchesUnfolded (G : GLang) (t : QTask) (f : QFlags) (g : List Triple) (wf : Node) : Prop :=
  ∃ h : List Nat → Node, MatchesUnfoldedBy G t f g wf h

/-- the part of the task that the query talks about is a tree (forest): no step is reached along two
different paths from the outputs (no reachable step with two parents, no step that is an output and also
below an output) -/
def TreeShaped (t : QTask) : Prop := ∀ p p' k, PathTo t p k → PathTo t p' k → p = p'

end Tfv
