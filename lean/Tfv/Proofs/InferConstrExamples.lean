import Tfv.Proofs.InferConstrMain
import Tfv.Proofs.InferExamples
import Tfv.Proofs.InferCounter
/-!
# Concrete runs of the inference engine WITH deferred constraints (non-vacuity of the C03c theorems)

`match3` / `occurs` are compiled by well-founded recursion and do not reduce by `rfl`: the runs are
evaluated bottom-up, every `fulfill` step by rewriting with the evaluation lemmas of section 1.
The example: the schema `x0 => x0 ** x0 [x0 ≤ A]`; instantiating it leaves the constraint pending;
applying it to `B` re-checks the constraint twice (undecided, then fulfilled) and returns `B`;
applying it to `Unit` violates the constraint.
Also: with `skip_basic` or `skip_wildcard` set, `unify` does not establish the subtype relation.
-/
namespace Tfv.C03C
open Tfv Tfv.C03P

/-! ## 1. evaluation lemmas -/

theorem match3_var_app {L : Lang} {σ : Store} {a b : Term} {av bo : Nat} {bs : List Term}
    (ha : followT σ a = .var av) (hb : followT σ b = .app bo bs) (n : Nat) (st aw : Bool) :
    match3 L σ (n+1) st aw a b =
      (if st && bo == TOP then some true
       else if ((getVar σ av).upper.isSome || (getVar σ av).lower.isSome) && arityOf L bo != 0 then some false
       else if (getVar σ av).lower.any (fun l => !opSub L l bo) then some false
       else if !st && (getVar σ av).upper.any (fun u => !opSub L u bo) then some false
       else if aw && (getVar σ av).wildcard then some true
       else none) := by
  rw [match3, ha, hb]

theorem match3_base_base {L : Lang} {σ : Store} {a b : Term} {ao bo : Nat} {as bs : List Term}
    (ha : followT σ a = .app ao as) (hb : followT σ b = .app bo bs) (h0 : arityOf L ao = 0)
    (n : Nat) (st aw : Bool) :
    match3 L σ (n+1) st aw a b =
      (if st && (ao == BOT || bo == TOP) then some true
       else some (ao == bo || (st && opSub L ao bo))) := by
  rw [match3, ha, hb]
  simp only [h0, beq_self_eq_true, if_true]

theorem fulfill_sub_eq (L : Lang) (n : Nat) (σ : Store) (c : Nat) {ref tgt : Term} {s f : Bool}
    (h : getConstr σ c = .sub ref tgt s f) :
    fulfill L (n+1) σ c =
      match unify L n σ ref tgt true true false with
      | .error e => .error e
      | .ok σ1 =>
        match match3 L σ1 (matchFuel σ1) true false ref tgt with
        | some true =>
          (match getConstr σ1 c with
           | .sub r t s _ => .ok (setConstr σ1 c (.sub r t s true), true)
           | _ => .ok (σ1, true))
        | some false => .error .constraintViolation
        | none =>
          (match getConstr σ1 c with
           | .sub _ _ _ f => .ok (σ1, f)
           | _ => .ok (σ1, false)) := by
  rw [fulfill, h]
  rfl

theorem unify_unbound_base_skip {L : Lang} {σ : Store} {w o : Nat} (hw : (getVar σ w).bound = none)
    (h0 : arityOf L o = 0) (n : Nat) (sw : Bool) :
    unify L (n+1) σ (.var w) (.app o []) true true sw = .ok σ := by
  have e : termFuel σ = (σ.vars.length + 63) + 1 := rfl
  rw [unify, followT_unbound hw, followT_app]
  simp only [e, occurs_base_unbound hw, h0, beq_self_eq_true, Bool.true_or, Bool.false_eq_true, if_false, if_true]
  split <;> rfl


/-! ## 2. instantiating a constrained schema -/

/-- the schema `x0 ≤ A => x0 ** x0` -/
def exSC : Schema :=
  { nvars := 1, nwild := 0, body := .app FUN [.var 0, .var 0], constraints := [.sub (.var 0) (.app 5 []) false] }

/-- one variable with the pending constraint `x0 ≤ A` -/
def σC : Store := { vars := [{}], csets := [[0]], constrs := [.sub (.var 0) (.app 5 []) false false] }

theorem exC_fulfill1 (n : Nat) : fulfill exL (n+2) σC 0 = .ok (σC, false) := by
  rw [fulfill_sub_eq exL (n+1) σC 0 (ref := .var 0) (tgt := .app 5 []) (s := false) (f := false) rfl]
  rw [unify_unbound_base_skip rfl rfl]
  simp only []
  have e : matchFuel σC = 67 + 1 := rfl
  rw [e, match3_var_app (av := 0) (bo := 5) (bs := []) rfl rfl]
  rfl

theorem exC_add : addConstraint exL 11 { vars := [{}], csets := [[]] } (.sub (.var 0) (.app 5 []) false false) = .ok σC := by
  rw [addConstraint_eq]
  show ((match fulfill exL 11 σC 0 with | .error e => .error e | .ok (σ1, _) => .ok σ1) : R) = _
  rw [show fulfill exL 11 σC 0 = _ from exC_fulfill1 9]

theorem exC_inst : instantiate exL 11 {} exSC = .ok (σC, .app FUN [.var 0, .var 0]) := by
  have h : addConstraints exL 11 0 { vars := [{}], csets := [[]] } exSC.constraints = .ok σC := by
    show ((match addConstraint exL 11 { vars := [{}], csets := [[]] } (.sub (.var 0) (.app 5 []) false false) with
      | .error e => .error e | .ok σ1 => addConstraints exL 11 0 σ1 []) : R) = _
    rw [exC_add]
    rfl
  show ((match addConstraints exL 11 0 { vars := [{}], csets := [[]] } exSC.constraints with
    | .error e => .error e
    | .ok σ1 => fix exL 11 σ1 (spineFollow σ1 (exSC.body.shift 0)) true) : Except Err (Store × Term)) = _
  rw [h]
  with_unfolding_all rfl

theorem checkList_cons (L : Lang) (n : Nat) (σ : Store) (v c : Nat) (cs : List Nat) :
    checkList L (n+1) σ v (c :: cs) =
      match fulfill L n σ c with
      | .error e => .error e
      | .ok (σ1, done) =>
        checkList L n (if done then setCset σ1 (getVar σ1 v).cset ((getCset σ1 (getVar σ1 v).cset).filter (· != c))
          else σ1) v cs := by
  rw [checkList]
  rfl

theorem checkList_nil (L : Lang) (n : Nat) (σ : Store) (v : Nat) : checkList L (n+1) σ v [] = .ok σ := by
  rw [checkList]

/-! ## 3. applying the instance to `B` -/

/-- the last step of `above`: a variable squeezed between equal bounds is resolved -/
def aboveTail (L : Lang) (n : Nat) (σ : Store) (v : Nat) : R :=
  let i := getVar σ v
  if i.bound.isNone && i.lower.isSome && i.lower == i.upper then
    match i.lower with
    | some l => bind L n σ v (.app l [])
    | none => .ok σ
  else .ok σ

/-- `x0 ≥ B` with the pending constraint `x0 ≤ A` -/
def σC1 : Store := { vars := [{ lower := some 6 }], csets := [[0]], constrs := [.sub (.var 0) (.app 5 []) false false] }
/-- `x0 := B`, the constraint fulfilled and removed from the constraint set -/
def σC2 : Store :=
  { vars := [{ bound := some (.app 6 []), lower := some 6 }], csets := [[]],
    constrs := [.sub (.var 0) (.app 5 []) false true] }

theorem exC_fulfill2 (n : Nat) : fulfill exL (n+2) σC1 0 = .ok (σC1, false) := by
  rw [fulfill_sub_eq exL (n+1) σC1 0 (ref := .var 0) (tgt := .app 5 []) (s := false) (f := false) rfl]
  rw [unify_unbound_base_skip rfl rfl]
  simp only []
  have e : matchFuel σC1 = 67 + 1 := rfl
  rw [e, match3_var_app (av := 0) (bo := 5) (bs := []) rfl rfl]
  rfl

theorem exC_check2 (n : Nat) : checkConstraints exL (n+4) σC1 0 = .ok σC1 := by
  rw [checkConstraints, show getCset σC1 (getVar σC1 0).cset = [0] from rfl, checkList_cons, exC_fulfill2]
  simp only [checkList_nil]
  rfl

theorem exC_above : above exL 10 σC 0 6 = .ok σC1 := by
  have e : above exL 10 σC 0 6 = ((match checkConstraints exL 9 σC1 0 with
    | .error e => .error e
    | .ok σ => aboveTail exL 9 σ 0) : R) := by with_unfolding_all rfl
  rw [e, show checkConstraints exL 9 σC1 0 = _ from exC_check2 5]
  rfl

theorem exC_unify : unify exL 11 σC (.app 6 []) (.var 0) true false false = .ok σC1 := by
  rw [unify_base_unbound rfl, ← exC_above]
  rfl


/-- `x0 := B` just bound, the constraint not yet re-checked -/
def σCb : Store :=
  { vars := [{ bound := some (.app 6 []), lower := some 6 }], csets := [[0]],
    constrs := [.sub (.var 0) (.app 5 []) false false] }

theorem exC_fulfill3 : fulfill exL 7 σCb 0 =
    .ok ({ σCb with constrs := [.sub (.var 0) (.app 5 []) false true] }, true) := by
  rw [fulfill_sub_eq exL 6 σCb 0 (ref := .var 0) (tgt := .app 5 []) (s := false) (f := false) rfl]
  rw [show unify exL 6 σCb (.var 0) (.app 5 []) true true false = .ok σCb from by with_unfolding_all rfl]
  simp only []
  have e : matchFuel σCb = 67 + 1 := rfl
  rw [e, match3_base_base (ao := 6) (bo := 5) (as := []) (bs := []) rfl rfl rfl]
  rfl

theorem exC_check3 : checkConstraints exL 9 σCb 0 = .ok σC2 := by
  rw [checkConstraints, show getCset σCb (getVar σCb 0).cset = [0] from rfl, checkList_cons, exC_fulfill3]
  simp only [checkList_nil]
  rfl

theorem exC_bind : bind exL 10 σC1 0 (.app 6 []) = .ok σC2 := by
  rw [← exC_check3]
  with_unfolding_all rfl

theorem exC_fix : fix exL 11 σC1 (.var 0) true = .ok (σC2, .app 6 []) := by
  have e : fix exL 11 σC1 (.var 0) true = (match bind exL 10 σC1 0 (.app 6 []) with
    | .error e => .error e
    | .ok σ1 => .ok (σ1, followT σ1 (.var 0))) := by with_unfolding_all rfl
  rw [e, exC_bind]
  rfl

/-- `(x0 ** x0)[x0 ≤ A]` applied to `B`: the pending constraint is re-checked when the lower bound of `x0`
rises to `B` (still undecided), and again when `fix` resolves `x0 := B` (now fulfilled); result `B` -/
theorem exC_apply : applyT exL 11 σC (.app FUN [.var 0, .var 0]) (.app 6 []) true = .ok (σC2, .app 6 []) := by
  rw [applyT_fun, followT_app, exC_unify]
  exact exC_fix

/-! ## 4. the constraint is live: applying the instance to `Unit` (not below `A`) is rejected -/

def σCu : Store := { vars := [{ lower := some 0 }], csets := [[0]], constrs := [.sub (.var 0) (.app 5 []) false false] }

theorem exC_fulfill_bad (n : Nat) : fulfill exL (n+2) σCu 0 = .error .constraintViolation := by
  rw [fulfill_sub_eq exL (n+1) σCu 0 (ref := .var 0) (tgt := .app 5 []) (s := false) (f := false) rfl]
  rw [unify_unbound_base_skip rfl rfl]
  simp only []
  have e : matchFuel σCu = 67 + 1 := rfl
  rw [e, match3_var_app (av := 0) (bo := 5) (bs := []) rfl rfl]
  rfl

theorem exC_check_bad (n : Nat) : checkConstraints exL (n+4) σCu 0 = .error .constraintViolation := by
  rw [checkConstraints, show getCset σCu (getVar σCu 0).cset = [0] from rfl, checkList_cons, exC_fulfill_bad]

theorem exC_apply_bad :
    applyT exL 11 σC (.app FUN [.var 0, .var 0]) (.app 0 []) true = .error .constraintViolation := by
  have e : above exL 10 σC 0 0 = ((match checkConstraints exL 9 σCu 0 with
    | .error e => .error e
    | .ok σ => aboveTail exL 9 σ 0) : R) := by with_unfolding_all rfl
  have u : unify exL 11 σC (.app 0 []) (.var 0) true false false = .error .constraintViolation := by
    rw [unify_base_unbound rfl]
    show above exL 10 σC 0 0 = _
    rw [e, show checkConstraints exL 9 σCu 0 = _ from exC_check_bad 5]
  rw [applyT_fun, followT_app, u]

/-! ## 5. the invariant and solutions of the stores above -/

theorem σC_okc : OkStoreC exL σC := okStoreCB_sound (by decide)
theorem σC1_okc : OkStoreC exL σC1 := okStoreCB_sound (by decide)
theorem σC2_okc : OkStoreC exL σC2 := okStoreCB_sound (by decide)
theorem empty_okc (L : Lang) : OkStoreC L {} := okStoreCB_sound (by rfl)

/-- the pending constraint really is in the store and in the constraint set of `x0` -/
theorem σC_pending : getConstr σC 0 = .sub (.var 0) (.app 5 []) false false ∧
    getCset σC (getVar σC 0).cset = [0] := ⟨rfl, rfl⟩

theorem exC_chain : applyAll exL 11 true σC (.app FUN [.var 0, .var 0]) [.app 6 []] = .ok (σC2, .app 6 []) := by
  rw [applyAll, exC_apply]
  rfl

/-! ## 6. `skip_basic` / `skip_wildcard` do not establish the subtype relation -/

/-- `A.unify(B, subtype=True, skip_basic=True)` succeeds although `A` is not a subtype of `B` -/
theorem cexC_sb_run : unify exL 1 {} (.app 5 []) (.app 6 []) true true false = .ok {} := by
  with_unfolding_all rfl

theorem not_sub_A_B : ¬ Sub exL (.app 5 []) (.app 6 []) := by
  intro h1
  have h2 := (sub_iff_Sub exL_wf (s := .app 5 []) (t := .app 6 []) (by decide) (by decide)).mpr h1
  exact absurd h2 (by decide)

theorem unify_skip_basic_no_subtype :
    ¬ (∀ (L : Lang) (n : Nat) (σ σ' : Store) (a b : Term), WF L → OkStoreC L σ →
        okTerm L σ a = true → okTerm L σ b = true →
        unify L n σ a b true true false = .ok σ' →
        ∀ ρ, Sat L ρ σ' → Sub L (den ρ a) (den ρ b)) := by
  intro h
  have := h exL 1 {} {} (.app 5 []) (.app 6 []) exL_wf (empty_okc exL) (by decide) (by decide)
    cexC_sb_run (valOf []) (satB_sound exL_wf (empty_ok exL) (by decide))
  rw [den_app, den_app, denL_nil] at this
  exact not_sub_A_B this

/-- two wildcards -/
def σW : Store := { vars := [{ wildcard := true }, { wildcard := true, cset := 1 }], csets := [[], []] }

theorem cexC_sw_run : unify exL 1 σW (.var 0) (.var 1) true false true = .ok σW := by
  with_unfolding_all rfl

theorem unify_skip_wildcard_no_subtype :
    ¬ (∀ (L : Lang) (n : Nat) (σ σ' : Store) (a b : Term), WF L → OkStoreC L σ →
        okTerm L σ a = true → okTerm L σ b = true →
        unify L n σ a b true false true = .ok σ' →
        ∀ ρ, Sat L ρ σ' → Sub L (den ρ a) (den ρ b)) := by
  intro h
  have := h exL 1 σW σW (.var 0) (.var 1) exL_wf (okStoreCB_sound (by decide)) (by decide) (by decide)
    cexC_sw_run (valOf [.app 5 [], .app 6 []])
    (satB_sound exL_wf (okStoreB_sound (by decide)) (by decide))
  rw [den_var, den_var] at this
  exact not_sub_A_B this

end Tfv.C03C
