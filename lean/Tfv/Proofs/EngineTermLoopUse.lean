import Tfv.Proofs.EngineTermLoop
import Tfv.Proofs.SchedKernel
import Tfv.Proofs.SchedId
import Tfv.Proofs.GraphMemo
/-!
# The same loop through `instantiate` and `applyT` from the empty store

The schema `G(x, x) ** x` applied to `G(F^66(y), y)`: the first components bind `x := F^66(y)`; the second components
unify `y` with `F^66(y)`, the occurs check (fuel `termFuel σ = 2 + 64`) misses `y`, `y := F^66(y)`; the final `fix` of
the result `x` then walks `F^66(F^66(…))` for ever. Concrete evaluation goes through the kernel copy of the engine
(`Tfv/Proofs/SchedKernel.lean`).
-/
namespace Tfv.C17T
open Tfv

/-- the model at the identity schedule is the kernel copy of the engine -/
theorem unify_eq_K (L : Lang) (n : Nat) (σ : Store) (a b : Term) (st sb sw : Bool) :
    unify L n σ a b st sb sw = C18P.unifyP L id (C18P.match3K L) (C18P.occursK L) n σ a b st sb sw := by
  rw [← (C18P.blockEq (L := L) (ord := id) (fun _ => rfl) n).unify, ← (C18P.blockP L id n).unify,
    C18P.match3K_funext, C18P.occursK_funext]

def useSchema : Schema := ⟨1, 0, .app FUN [.app 6 [.var 0, .var 0], .var 0], []⟩
def useF : Term := .app FUN [.app 6 [.var 0, .var 0], .var 0]
def useX : Term := .app 6 [nestF 66 (.var 1), .var 1]
/-- the store after the instantiation (`x`) and the allocation of the argument's wildcard (`y`) -/
def useS : Store := { vars := [{ cset := 0 }, { wildcard := true, cset := 1 }], csets := [[], []], constrs := [] }

theorem use_inst : instantiate loopL 8 {} useSchema = .ok ({ vars := [{ cset := 0 }], csets := [[]], constrs := [] }, useF) := by
  with_unfolding_all rfl

theorem use_alloc : allocVars { vars := [{ cset := 0 }], csets := [[]], constrs := [] } 0 1 = useS := by
  with_unfolding_all rfl

/-- the store after `unify(G(F^66(y), y), G(x, x))` -/
def useB : Store :=
  match C18P.unifyP loopL id (C18P.match3K loopL) (C18P.occursK loopL) 8 useS useX (.app 6 [.var 0, .var 0]) true false false with
  | .ok s => s
  | .error _ => {}

def isOk {α : Type} : Except Err α → Bool
  | .ok _ => true
  | .error _ => false

theorem use_unify8 : unify loopL 8 useS useX (.app 6 [.var 0, .var 0]) true false false = .ok useB := by
  rw [unify_eq_K]
  have h : isOk (C18P.unifyP loopL id (C18P.match3K loopL) (C18P.occursK loopL) 8 useS useX (.app 6 [.var 0, .var 0]) true false false) = true := by
    decide +kernel
  unfold useB
  cases hr : C18P.unifyP loopL id (C18P.match3K loopL) (C18P.occursK loopL) 8 useS useX (.app 6 [.var 0, .var 0]) true false false with
  | ok s => rfl
  | error e => rw [hr] at h; cases h

theorem useB_follow0 : followT useB (.var 0) = .app 5 [nestF 65 (.var 1)] :=
  (term_beq_iff _ _).1 (by decide +kernel)

theorem useB_follow1 : followT useB (.var 1) = .app 5 [nestF 65 (.var 1)] :=
  (term_beq_iff _ _).1 (by decide +kernel)

theorem loopL_var5 : varianceOf loopL 5 = [true] := by decide

/-- `fix` of a component reached through the cyclic binding never ends -/
theorem fix_step_loop (n : Nat) (t : Term) (j : Nat) (pl : Bool) (hf : followT useB t = .app 5 [nestF j (.var 1)])
    (ih : ∀ pl, fix loopL n useB (nestF j (.var 1)) pl = .error .outOfFuel) :
    fix loopL (n+2) useB t pl = .error .outOfFuel := by
  rw [fix, hf]
  simp only []
  rw [loopL_var5, fixList]
  simp only [if_true]
  rw [ih]

theorem fix_loop : ∀ (n k : Nat) (pl : Bool), fix loopL n useB (nestF k (.var 1)) pl = .error .outOfFuel
  | 0, _, _ => by rw [fix]
  | 1, k, pl => by
    cases k with
    | zero =>
      show fix loopL 1 useB (.var 1) pl = _
      rw [fix, useB_follow1]
      simp only []
      rw [fixList]
    | succ k =>
      show fix loopL 1 useB (.app 5 [nestF k (.var 1)]) pl = _
      rw [fix, followT_app']
      simp only []
      rw [fixList]
  | n+2, k, pl => by
    cases k with
    | zero => exact fix_step_loop n (.var 1) 65 pl useB_follow1 (fun pl => fix_loop n 65 pl)
    | succ k => exact fix_step_loop n (.app 5 [nestF k (.var 1)]) k pl (followT_app' _ _ _) (fun pl => fix_loop n k pl)

/-- the application never ends: `outOfFuel` for every fuel -/
theorem use_apply_loops (n : Nat) : applyT loopL n useS useF useX true = .error .outOfFuel := by
  refine oof_of_le (fun k => applyT loopL k useS useF useX true) (fun k => applyT_le loopL k useS useF useX true)
    (Nat.le_add_right n 10) ?_
  show applyT loopL (n+10) useS useF useX true = _
  have hp : applyPre loopL (n+10) useS useF = .ok (useS, useF) := by
    unfold applyPre useF
    rw [followT_app']
  have hu : unify loopL (n+10) useS useX (.app 6 [.var 0, .var 0]) true false false = .ok useB := by
    rw [unify_fuel_mono loopL (by omega : 8 ≤ n + 10) _ _ _ _ _ _ (by rw [use_unify8]; simp), use_unify8]
  have hx : followT useS useX = useX := followT_app' _ _ _
  rw [applyT_eq, hp, hx]
  show applyTail loopL (n+10) useX true (useS, .app FUN [.app 6 [.var 0, .var 0], .var 0]) = _
  unfold applyTail
  simp only []
  rw [if_pos (by decide), hu]
  simp only []
  rw [if_pos (by decide)]
  exact fix_step_loop (n+8) (.var 0) 65 true useB_follow0 (fun pl => fix_loop (n+8) 65 pl)

/-- the whole use, as the driver runs it: instantiate in the empty store, allocate the wildcard of the argument, apply -/
theorem use_loops (n : Nat) (hn : 8 ≤ n) :
    ∃ σ f, instantiate loopL n {} useSchema = .ok (σ, f) ∧
      applyT loopL n (allocVars σ 0 1) f (useX) true = .error .outOfFuel := by
  refine ⟨{ vars := [{ cset := 0 }], csets := [[]], constrs := [] }, useF, ?_, ?_⟩
  · rw [instantiate_fuel_mono loopL hn _ _ (by rw [use_inst]; simp), use_inst]
  · rw [use_alloc]; exact use_apply_loops n

/-- the argument as written: `G(F^66(_), _)` with the wildcard numbered 0 -/
def useArg : Term := .app 6 [nestF 66 (.var 0), .var 0]

theorem useArg_shift : useArg.shift 1 = useX := by
  with_unfolding_all rfl

/-- the driver's run: `instantiate` in the empty store, one wildcard for the argument, `applyT` -/
theorem use_loops_driver (n : Nat) (hn : 8 ≤ n) :
    ∃ σ f, instantiate loopL n {} useSchema = .ok (σ, f) ∧
      applyT loopL n (allocVars σ 0 1) f (useArg.shift σ.vars.length) true = .error .outOfFuel := by
  refine ⟨{ vars := [{ cset := 0 }], csets := [[]], constrs := [] }, useF, ?_, ?_⟩
  · rw [instantiate_fuel_mono loopL hn _ _ (by rw [use_inst]; simp), use_inst]
  · show applyT loopL n (allocVars _ 0 1) useF (useArg.shift 1) true = _
    rw [use_alloc, useArg_shift]; exact use_apply_loops n

end Tfv.C17T
