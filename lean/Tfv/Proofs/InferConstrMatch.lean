import Tfv.Proofs.InferConstrStore
import Tfv.Proofs.Agree
/-!
# `match3 … subtype=True accept_wildcard=False = some true` is sound (on stores without wildcards)

`fulfill` marks a subtype constraint as fulfilled when `match3` answers `some true`. On a store without
wildcard variables this answer means the subtype relation holds under every solution of the store.
(With wildcards it does not: two distinct wildcards "match", see `match3_wildcards_unsound` in the examples.)
-/
namespace Tfv.C03C
open Tfv Tfv.C03P Tfv.C16P

theorem loop_none_ne_true (L : Lang) (σ : Store) (n : Nat) (st aw : Bool) :
    ∀ (vs : List Bool) (ss ts : List Term), match3.loop L σ n st aw vs ss ts none ≠ some true := by
  intro vs
  induction vs with
  | nil =>
    intro ss ts
    rw [loop_not_cons]
    · intro h; cases h
    · rintro ⟨_, _, _, _, _, _, h, _, _⟩; cases h
  | cons v vs ih =>
    intro ss ts
    cases ss with
    | nil =>
      rw [loop_not_cons]
      · intro h; cases h
      · rintro ⟨_, _, _, _, _, _, _, h, _⟩; cases h
    | cons s ss =>
      cases ts with
      | nil =>
        rw [loop_not_cons]
        · intro h; cases h
        · rintro ⟨_, _, _, _, _, _, _, _, h⟩; cases h
      | cons t ts =>
        rw [match3.loop.eq_1]
        split
        · intro h; cases h
        · exact ih ss ts
        · exact ih ss ts

theorem loop_true_sound {L : Lang} {σ : Store} {n : Nat}
    (ih : ∀ a b, okTerm L σ a = true → okTerm L σ b = true → match3 L σ n true false a b = some true →
      ∀ ρ, Sat L ρ σ → Sub L (den ρ a) (den ρ b)) :
    ∀ (vs : List Bool) (ss ts : List Term) (acc : Option Bool), okTermL L σ ss = true → okTermL L σ ts = true →
      ss.length = vs.length → ts.length = vs.length →
      match3.loop L σ n true false vs ss ts acc = some true →
      ∀ ρ, Sat L ρ σ → SubArgs L vs (denL ρ ss) (denL ρ ts) := by
  intro vs
  induction vs with
  | nil =>
    intro ss ts acc _ _ h1 h2 _ ρ _
    rw [List.eq_nil_of_length_eq_zero h1, List.eq_nil_of_length_eq_zero h2, denL_nil]
    exact SubArgs.nil
  | cons v vs ihv =>
    intro ss ts acc hss hts h1 h2 h ρ hρ
    cases ss with
    | nil => simp at h1
    | cons s ss =>
      cases ts with
      | nil => simp at h2
      | cons t ts =>
        obtain ⟨hs, hss'⟩ := okTermL_cons.mp hss
        obtain ⟨ht, hts'⟩ := okTermL_cons.mp hts
        rw [match3.loop.eq_1] at h
        rw [denL_cons, denL_cons]
        split at h
        · cases h
        · exact absurd h (loop_none_ne_true L σ n true false vs ss ts)
        · next hm =>
          have rest := ihv ss ts acc hss' hts' (by simpa using h1) (by simpa using h2) h ρ hρ
          cases v with
          | true => exact SubArgs.co (ih s t hs ht (by simpa using hm) ρ hρ) rest
          | false => exact SubArgs.contra (ih t s ht hs (by simpa using hm) ρ hρ) rest

theorem match3_true_sound {L : Lang} (wf : WF L) {σ : Store} (ok : OkStore L σ) (nw : NoWild σ) :
    ∀ (n : Nat) (a b : Term), okTerm L σ a = true → okTerm L σ b = true →
      match3 L σ n true false a b = some true → ∀ ρ, Sat L ρ σ → Sub L (den ρ a) (den ρ b)
  | 0, a, b, _, _, h => by rw [match3_zero] at h; cases h
  | n+1, a, b, ha, hb, h => by
    intro ρ hρ
    have ha' := okTerm_followT ok a ha
    have hb' := okTerm_followT ok b hb
    rw [← den_followT hρ a, ← den_followT hρ b]
    rw [match3.eq_2] at h
    cases ea : followT σ a with
    | var av =>
      rw [ea] at ha'
      cases eb : followT σ b with
      | var bv =>
        rw [ea, eb] at h
        simp only [nw av, nw bv, Bool.and_self, Bool.or_false, Bool.false_eq_true, if_false] at h
        split at h
        · next e =>
          have e : av = bv := by simpa using e
          subst e
          rw [den_var]; exact sub_refl _ (hρ.wf av)
        · split at h
          · split at h <;> cases h
          · cases h
      | app bo bs =>
        rw [eb] at hb'
        obtain ⟨hbo, hbsl, hbs⟩ := okTerm_app.mp hb'
        rw [ea, eb] at h
        simp only [Bool.true_and, Bool.false_and, Bool.false_eq_true, if_false, Bool.not_true] at h
        split at h
        · next e =>
          have e : bo = TOP := by simpa using e
          subst e
          rw [arity_top wf] at hbsl
          rw [den_app, List.eq_nil_of_length_eq_zero hbsl, denL_nil]; exact Sub.top _
        · split at h
          · cases h
          · split at h
            · cases h
            · cases h
    | app ao as =>
      rw [ea] at ha'
      obtain ⟨hao, hasl, has⟩ := okTerm_app.mp ha'
      cases eb : followT σ b with
      | var bv =>
        rw [ea, eb] at h
        simp only [Bool.true_and, Bool.false_and, Bool.false_eq_true, if_false, Bool.not_true] at h
        split at h
        · next e =>
          have e : ao = BOT := by simpa using e
          subst e
          rw [arity_bot wf] at hasl
          rw [den_app, List.eq_nil_of_length_eq_zero hasl, denL_nil]; exact Sub.bot _
        · split at h
          · cases h
          · split at h
            · cases h
            · cases h
      | app bo bs =>
        rw [eb] at hb'
        obtain ⟨hbo, hbsl, hbs⟩ := okTerm_app.mp hb'
        rw [ea, eb] at h
        simp only [Bool.true_and] at h
        rw [den_app, den_app]
        split at h
        · next hbt =>
          simp only [Bool.or_eq_true, beq_iff_eq] at hbt
          rcases hbt with e | e
          · subst e
            rw [arity_bot wf] at hasl
            rw [List.eq_nil_of_length_eq_zero hasl, denL_nil]; exact Sub.bot _
          · subst e
            rw [arity_top wf] at hbsl
            rw [List.eq_nil_of_length_eq_zero hbsl, denL_nil]; exact Sub.top _
        · split at h
          · next h0 =>
            have h0 : arityOf L ao = 0 := by simpa using h0
            injection h with h
            rw [h0] at hasl
            rw [List.eq_nil_of_length_eq_zero hasl, denL_nil]
            simp only [Bool.or_eq_true, beq_iff_eq] at h
            refine sub_of_opSub_nullary wf h0 (by rw [length_denL]; exact hbsl) ?_
            rcases h with e | e
            · subst e; exact opSub_self L _
            · exact e
          · next h0 =>
            have h0 : arityOf L ao ≠ 0 := by simpa using h0
            split at h
            · cases h
            · next hne =>
              have heq : ao = bo := by simpa using hne
              subst heq
              exact Sub.cong h0 (loop_true_sound (match3_true_sound wf ok nw n) _ as bs _ has hbs hasl hbsl h ρ hρ)

end Tfv.C03C
