import Tfv.Proofs.ResolvedConstrPrim
/-!
# `fix` and `minLoop` on closed terms

`fix` of a closed term binds nothing; so `minimize` of an elimination constraint whose alternatives are closed does not
change the store before it writes the record back (no re-entrant `fulfill`), and the alternatives it keeps are closed.
-/
namespace Tfv.C03R
open Tfv Tfv.C03P Tfv.C03C Tfv.C16P Tfv.C17E

theorem closedL_iff {ts : List Term} : Term.closedL ts = true ↔ ∀ t, t ∈ ts → t.closed = true := by
  induction ts with
  | nil => exact Iff.intro (fun _ _ h => nomatch h) (fun _ => closedL_nil)
  | cons u us ih =>
    rw [closedL_cons, Bool.and_eq_true, ih]
    constructor
    · intro h t ht
      rcases List.mem_cons.mp ht with e | e
      · rw [e]; exact h.1
      · exact h.2 t e
    · intro h
      exact ⟨h u List.mem_cons_self, fun t ht => h t (List.mem_cons_of_mem _ ht)⟩

theorem fix_fixList_closed (L : Lang) : ∀ (n : Nat),
    (∀ σ t pl σ' t', t.closed = true → fix L n σ t pl = .ok (σ', t') → σ' = σ ∧ t' = t) ∧
    (∀ σ vs ps pl σ', Term.closedL ps = true → fixList L n σ vs ps pl = .ok σ' → σ' = σ)
  | 0 => by
    refine ⟨?_, ?_⟩
    · intro σ t pl σ' t' _ h; unfold fix at h; cases h
    · intro σ vs ps pl σ' _ h; unfold fixList at h; cases h
  | n+1 => by
    obtain ⟨ih1, ih2⟩ := fix_fixList_closed L n
    refine ⟨?_, ?_⟩
    · intro σ t pl σ' t' ht h
      obtain ⟨o, args, e, hargs⟩ := closed_is_app ht
      subst e
      unfold fix at h
      rw [followT_app] at h
      simp only [] at h
      split at h
      · cases h
      · next σ1 h1 =>
        injection h with h
        injection h with h2 h3
        subst h2; subst h3
        exact ⟨ih2 σ _ args pl _ hargs h1, rfl⟩
    · intro σ vs ps pl σ' hps h
      match vs, ps, hps with
      | [], ps, _ =>
        rw [fixList_nil_left] at h
        injection h with h; exact h.symm
      | _ :: _, [], _ =>
        rw [fixList_nil_right] at h
        injection h with h; exact h.symm
      | v :: vs, p0 :: ps, hps =>
        rw [fixList_cons] at h
        rw [closedL_cons, Bool.and_eq_true] at hps
        split at h
        · cases h
        · next σ1 t1 h1 =>
          obtain ⟨e1, _⟩ := ih1 σ p0 _ σ1 t1 hps.1 h1
          subst e1
          exact ih2 _ vs ps pl σ' hps.2 h

theorem fix_closed {L : Lang} {n : Nat} {σ σ' : Store} {t t' : Term} {pl : Bool} (ht : t.closed = true)
    (h : fix L n σ t pl = .ok (σ', t')) : σ' = σ ∧ t' = t :=
  (fix_fixList_closed L n).1 σ t pl σ' t' ht h

theorem minFold_closed {σ : Store} {obj : Term} (hobj : obj.closed = true)
    (c : Term → Bool) (d : List Term × Bool → Term → Bool) (mins : List Term) (hmins : Term.closedL mins = true) :
    Term.closedL (List.foldl (fun acc m => (acc.fst ++ [if c m = true then followT σ obj else m], d acc m))
      ([], true) mins).1 = true := by
  rw [closedL_iff]
  intro x hx
  rcases foldl_mem_fst_gen c d mins _ x hx with h | h | h
  · cases h
  · rw [h, followT_closed σ hobj]; exact hobj
  · exact closedL_iff.mp hmins x h
where
  foldl_mem_fst_gen (c : Term → Bool) (d : List Term × Bool → Term → Bool) :
      ∀ (mins : List Term) (acc : List Term × Bool) (x : Term),
        x ∈ (List.foldl (fun acc m => (acc.fst ++ [if c m = true then followT σ obj else m], d acc m)) acc mins).1 →
        x ∈ acc.1 ∨ x = followT σ obj ∨ x ∈ mins
    | [], acc, x, h => Or.inl h
    | m :: ms, acc, x, h => by
      simp only [List.foldl_cons] at h
      rcases foldl_mem_fst_gen c d ms _ x h with h1 | h1 | h1
      · simp only [List.mem_append, List.mem_singleton] at h1
        rcases h1 with h2 | h2
        · exact Or.inl h2
        · split at h2
          · exact Or.inr (Or.inl h2)
          · exact Or.inr (Or.inr (by rw [h2]; exact List.mem_cons_self))
      · exact Or.inr (Or.inl h1)
      · exact Or.inr (Or.inr (List.mem_cons_of_mem _ h1))

theorem closedL_append {xs ys : List Term} (h1 : Term.closedL xs = true) (h2 : Term.closedL ys = true) :
    Term.closedL (xs ++ ys) = true := by
  rw [closedL_iff] at h1 h2 ⊢
  intro t ht
  rcases List.mem_append.mp ht with h | h
  · exact h1 t h
  · exact h2 t h

/-- `minLoop` over closed alternatives leaves the store alone and keeps closed alternatives -/
theorem minLoop_closed (L : Lang) : ∀ (n : Nat) (σ : Store) (alts mins : List Term) (σ' : Store) (out : List Term),
    Term.closedL alts = true → Term.closedL mins = true → minLoop L n σ alts mins = .ok (σ', out) →
    σ' = σ ∧ Term.closedL out = true
  | 0, σ, alts, mins, σ', out, _, _, h => by unfold minLoop at h; cases h
  | n+1, σ, [], mins, σ', out, _, hm, h => by
    unfold minLoop at h
    injection h with h
    injection h with h1 h2
    subst h1; subst h2
    exact ⟨rfl, hm⟩
  | n+1, σ, obj :: rest, mins, σ', out, ha, hm, h => by
    rw [closedL_cons, Bool.and_eq_true] at ha
    have hobj : obj.closed = true := ha.1
    have hfold := minFold_closed (σ := σ) hobj
    unfold minLoop at h
    simp only [] at h
    split at h
    · split at h
      · cases h
      · next σ1 t h1 =>
        have hf := fix_closed (by rw [followT_closed σ hobj]; exact hobj) h1
        obtain ⟨e1, e2⟩ := hf
        have ht : t.closed = true := by rw [e2, followT_closed σ hobj]; exact hobj
        rw [e1] at h
        exact minLoop_closed L n σ rest _ σ' out ha.2
          (closedL_append (hfold _ _ mins hm) (by rw [closedL_cons, ht, closedL_nil]; rfl)) h
    · exact minLoop_closed L n σ rest _ σ' out ha.2 (hfold _ _ mins hm) h

theorem closedL_map_followT (σ : Store) {ts : List Term} (h : Term.closedL ts = true) :
    Term.closedL (ts.map (followT σ)) = true := by
  rw [closedL_iff] at h ⊢
  intro t ht
  obtain ⟨x, hx, e⟩ := List.mem_map.mp ht
  subst e
  rw [followT_closed σ (h x hx)]
  exact h x hx

theorem closedL_filter {ts : List Term} (p : Term → Bool) (h : Term.closedL ts = true) :
    Term.closedL (ts.filter p) = true := by
  rw [closedL_iff] at h ⊢
  intro t ht
  exact h t (List.mem_filter.mp ht).1

end Tfv.C03R
