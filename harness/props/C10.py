"""C10 - the canonical taxonomy is exactly the subtype order on canonical types."""
from __future__ import annotations
import itertools
import langgen as G
from refsub import ref_sub

RULE = ("languages with base-type forests of depth <= 4, 0-3 compound operators of arity 1-2 (co-, contravariant, mixed); canon specifications from root and "
        "non-root base types and nested compound types (depth <= 2), each of the four Top/Bottom inclusion combinations; observed: Language.canon, "
        "subtypes/supertypes (direct and transitive) of every canonical type, raw TypeOperation.successors under all switch combinations, a look-through family (small canons over a three-level and a two-level chain with contravariant / mixed-variance operators and Top/Bottom, where canonical types are linked only through non-canonical ones), and the "
        "rdfs:subClassOf / rdf:type triples of add_vocabulary with and without closure; implementation vs model for canon and successors; oracle: closure of "
        "the canon under declared subtypes, transitive enumeration == closure of the direct links, reachability over direct links == strict reference order, mirroring, vocabulary triples == links; "
        "non-trivial = the canon has at least one compound type or a chain of three base types; distinct by (language, canon specification, switches)")
ASSUMPTIONS = ["children / canon sets are compared as sets (iteration order is not observable here; see C19)"]
TRUSTED = ["harness/refsub.py (oracle)", "enumeration of declared subtypes in this file (oracle)"]


def has_tb(t):
    return t[0] in (G.TOP, G.BOT) or any(has_tb(a) for a in t[1])


def below(spec, t, bottom, top):
    """all types <= t obtained by walking the declared hierarchy (plus Bottom/Top variants when requested)"""
    o, args = t
    out = []
    if not args:
        if o == G.TOP:
            return [t]  # not enumerated: everything
        out = [(o, ())] + [(d, ()) for d in spec.descendants(o)]
    else:
        choices = []
        for v, a in zip(spec.variance(o), args):
            choices.append(below(spec, a, bottom, top) if v else above(spec, a, bottom, top))
        out = [(o, tuple(c)) for c in itertools.islice(itertools.product(*choices), 4000)]
    if bottom:
        out.append((G.BOT, ()))
    return out


def above(spec, t, bottom, top):
    o, args = t
    if not args:
        if o == G.BOT:
            return [t]
        out = [(o, ())] + [(a, ()) for a in spec.ancestors(o)]
    else:
        choices = []
        for v, a in zip(spec.variance(o), args):
            choices.append(above(spec, a, bottom, top) if v else below(spec, a, bottom, top))
        out = [(o, tuple(c)) for c in itertools.islice(itertools.product(*choices), 4000)]
    if top:
        out.append((G.TOP, ()))
    return out


def show(ts):
    return " ".join(sorted(set(G.ty_sexp(t) for t in ts)))


def run(ctx):
    rng = ctx.rng
    nlang = 10 if ctx.tier == "quick" else 80
    for li in range(nlang):
        spec = G.gen_lang(rng, max_base=rng.randint(2, 7), max_ops=2, max_arity=2)
        ops = spec.build()
        ctx.setup(spec.sexp(), "ok T")
        combos = [(False, False), (True, False), (False, True), (True, True)]
        if ctx.tier == "quick":
            combos = rng.sample(combos, 2)
        for top, bottom in combos:
            listed = G.gen_canon(rng, spec, max_items=3, depth=2)
            one_language(ctx, li, spec, ops, listed, top, bottom)
        raw_successors(ctx, li, spec, ops)
    lookthrough_family(ctx)
    corpus(ctx)


def lookthrough_family(ctx):
    """small canons in which canonical types are linked only THROUGH non-canonical ones: a three-level chain of base types, a contravariant,
    a mixed-variance and a covariant operator, one or two listed compound types, Top/Bottom in every combination"""
    rng = ctx.rng
    decls = list(G.BUILTIN_DECLS) + [("A", [], None), ("B", [], 5), ("C", [], 6), ("D", [], None), ("E", [], 8),
        ("K", [False], None), ("M", [False, True], None), ("F", [True], None)]
    spec = G.LangSpec(decls)
    ops = spec.build()
    ctx.setup(spec.sexp(), "ok T")
    bases = [(5, ()), (6, ()), (7, ()), (8, ()), (9, ())]

    def item():
        r = rng.random()
        if r < 0.25:
            return (10, (rng.choice(bases),))
        if r < 0.8:
            return (11, (rng.choice(bases), rng.choice(bases)))
        if r < 0.9:
            return (12, (rng.choice(bases),))
        return rng.choice(bases)
    A, B, C, D, E = bases
    fixed = [([(11, (D, A))], True, False), ([(11, (D, D))], True, False), ([(11, (A, A))], True, False), ([(11, (B, C))], True, True),
             ([(11, (A, A))], False, True), ([(10, (D,))], True, True), ([(11, (E, A))], True, True), ([(11, (D, E)), (12, (B,))], True, True),
             ([(10, (B,)), D], False, True), ([(11, (D, D))], True, True),
             ([B, (12, (B,))], True, False), ([C, E, (12, (C,))], True, True)]
    for k in range(16 if ctx.tier == "quick" else 80):
        if k < len(fixed):
            listed, top, bottom = fixed[k]
        else:
            listed = [item() for _ in range(rng.randint(1, 3))]
            if rng.random() < 0.5:
                listed.append(rng.choice(bases))
            top, bottom = rng.choice([(True, True), (True, True), (True, False), (False, True)])
        ctx.count("lookthrough_languages")
        one_language(ctx, ("lt", k), spec, ops, listed, top, bottom, tr_limit=45)


def one_language(ctx, li, spec, ops, listed, top, bottom, tr_limit=25):
    from transforge import type as T
    try:
        lang = G.build_language(spec, ops, canon=listed, include_top=top, include_bottom=bottom)
    except RecursionError:
        ctx.count("canon_recursion_error")
        return
    canon = sorted(G.py_to_data(t, ops) for t in lang.canon)
    if len(canon) > 150:
        ctx.count("canon_too_large_skipped")
        return
    line = f"(canon {'T' if top else 'F'} {'T' if bottom else 'F'} " + " ".join(G.ty_sexp(t) for t in listed) + ")"
    nontrivial = any(t[1] for t in canon) or any(len(spec.ancestors(t[0])) >= 2 for t in canon)
    case = {"lang": spec.to_json(), "listed": listed, "top": top, "bottom": bottom}
    ctx.case(line, "ok " + show(canon), case, nontrivial=nontrivial, key=(li, line))
    ctx.count(f"canon_top{int(top)}_bottom{int(bottom)}")
    ctx.count("canon_size_%s" % ("<=5" if len(canon) <= 5 else "<=20" if len(canon) <= 20 else ">20"))
    replay = {"lang": spec.to_json(), "listed": listed, "top": top, "bottom": bottom}
    cset = set(canon)
    # (a) the canon contains every subtype of each listed type
    for t in listed:
        for s in below(spec, t, bottom, top):
            if s not in cset:
                ctx.fail(f"canon of {show(listed)} (top={top}, bottom={bottom}) lacks {G.ty_str(s, spec)}, a subtype of the listed {G.ty_str(t, spec)}",
                    {"check": "canon-closed", "missing_contains_top_or_bottom": has_tb(s)}, replay)
                break
    # Bottom/Top variants only when requested
    for s in canon:
        if not bottom and contains(s, G.BOT) and not any(contains(t, G.BOT) for t in listed):
            ctx.fail(f"canon contains {G.ty_str(s, spec)} although Bottom was not requested", {"check": "canon-unrequested-bottom"}, replay)
            break
        if not top and contains(s, G.TOP) and not any(contains(t, G.TOP) for t in listed):
            ctx.fail(f"canon contains {G.ty_str(s, spec)} although Top was not requested", {"check": "canon-unrequested-top"}, replay)
            break
    # successors of every canonical type: implementation vs model, and collect direct links
    py = {t: G.ty_py(t, ops) for t in canon}
    sub, sup, trans = {}, {}, {}
    lsucc_lines = []
    for t in canon:
        for up in (False, True):
            for tr in (False, True):
                if tr and len(canon) > tr_limit:
                    continue    # the transitive enumeration walks every path: exponential in the canon's height
                try:
                    res = [G.py_to_data(s, ops) for s in (lang.supertypes if up else lang.subtypes)(py[t], transitive=tr)]
                    obs = show(res)
                except RecursionError:
                    obs = "E:RecursionError"
                    res = []
                lsucc_lines.append(f"(lsucc {'T' if up else 'F'} {'T' if tr else 'F'} {G.ty_sexp(t)})")
                ctx.case(lsucc_lines[-1], obs, dict(case, type=t, up=up, transitive=tr),
                    nontrivial=nontrivial, key=(li, line, t, up, tr))
                if not tr:
                    (sup if up else sub)[t] = set(res)
                else:
                    trans[(t, up)] = set(res)
    # (a') the transitive enumeration is the closure of the direct links (whatever those are)
    for (t, up), got in trans.items():
        links = sup if up else sub
        reach, work = set(), [t]
        while work:
            x = work.pop()
            for s_ in links.get(x, ()):
                if s_ not in reach:
                    reach.add(s_)
                    work.append(s_)
        if got != reach and not any(x not in links for x in reach):
            ctx.fail(f"canon (top={top}, bottom={bottom}) of {show(listed)}: the transitive {'super' if up else 'sub'}types of {G.ty_str(t, spec)} are "
                     f"{show(sorted(got))}, the closure of the direct links is {show(sorted(reach))}",
                {"check": "transitive-vs-direct", "up": up}, dict(replay, type=t))
            break
    # (b) reachability over direct subtype links == strict order; mirroring.
    # One failure per (type, class of the offending pair) so that a pair free of Top/Bottom is never hidden behind a known one.
    for t in canon:
        seen, work = set(), [t]
        while work:
            x = work.pop()
            for s in sub.get(x, ()):
                if s not in seen:
                    seen.add(s)
                    work.append(s)
        reported = set()
        for s in canon:
            strict = s != t and ref_sub(spec, s, t)
            if (s in seen) != strict:
                cls = (has_tb(s) or has_tb(t), (s in seen) and not strict)
                if cls in reported:
                    continue
                reported.add(cls)
                ctx.fail(f"canon (top={top}, bottom={bottom}) of {show(listed)}: {G.ty_str(s, spec)} is {'reachable' if s in seen else 'not reachable'} from "
                         f"{G.ty_str(t, spec)} through direct-subtype links but is {'a' if strict else 'not a'} strict subtype",
                    {"check": "reachability", "endpoint_is_or_contains_top_or_bottom": cls[0], "spurious": cls[1]}, replay, lines=lsucc_lines)
    for t in canon:
        reported = set()
        for s in sub[t]:
            if s in cset and t not in sup.get(s, ()):
                cls = has_tb(s) or has_tb(t)
                if cls not in reported:
                    reported.add(cls)
                    ctx.fail(f"{G.ty_str(s, spec)} is reported a direct subtype of {G.ty_str(t, spec)} but not vice versa",
                        {"check": "mirror", "endpoint_is_or_contains_top_or_bottom": cls}, replay, lines=lsucc_lines)
        for s in sup[t]:
            if s in cset and t not in sub.get(s, ()):
                cls = has_tb(s) or has_tb(t)
                if ("up", cls) not in reported:
                    reported.add(("up", cls))
                    ctx.fail(f"{G.ty_str(s, spec)} is reported a direct supertype of {G.ty_str(t, spec)} but not vice versa",
                        {"check": "mirror", "endpoint_is_or_contains_top_or_bottom": cls}, replay, lines=lsucc_lines)
        for s in list(sub[t]) + list(sup[t]):
            if s not in cset:
                ctx.fail(f"{G.ty_str(s, spec)} is reported as a direct link of {G.ty_str(t, spec)} but is not canonical", {"check": "link-not-canonical"}, replay)
                break
    vocabulary(ctx, spec, ops, lang, canon, sub, sup, replay)


def contains(t, o):
    return t[0] == o or any(contains(a, o) for a in t[1])


def vocabulary(ctx, spec, ops, lang, canon, sub, sup, replay):
    """the rdfs:subClassOf triples of add_vocabulary are exactly the direct links; with closure their reflexive-transitive closure;
    every operator and canonical type is described and nothing else"""
    from rdflib import RDF, RDFS
    from transforge.graph import TransformationGraph
    from transforge.namespace import TF
    from transforge.expr import Operator
    uri = {t: lang.uri(G.ty_py(t, ops)) for t in canon}
    back = {u: t for t, u in uri.items()}
    op_uris = {lang.uri(ops[i]) for i in range(len(spec.decls)) if spec.arity(i) > 0}
    # add_taxonomy emits the direct-subtype links of every canonical type and its direct-supertype links
    # (they coincide when the links mirror each other; where they do not, that is reported by the mirror check)
    links = {(s, t) for t in canon for s in sub[t] if s in uri} | {(t, s) for t in canon for s in sup[t] if s in uri}
    for closure in (False, True):
        # the whole vocabulary graph against the model (Tfv/Model/Vocab.lean), without labels, under random other switches
        if len(canon) <= 60:
            import graphgen as GG
            bits = GG.gen_bits(ctx.rng)
            bits = bits[:8] + "T" + bits[9:]        # with_canonical_types: add_taxonomy asserts it
            try:
                gm = GG.make_graph(lang, bits, with_transitive_closure=closure)
                gm.add_vocabulary()
                bmap = {}
                ns = str(lang.namespace)
                vtext = "ok root - out - " + " ".join(sorted("(" + " ".join(GG.node_str(x, ns, bmap) for x in t) + ")" for t in gm))
            except Exception as ex:  # noqa
                # the declared refusal (a described type has a non-canonical parameter: D24) is an outcome the model has too
                vtext = ("E:" if type(ex).__name__ == "NonCanonicalTypeError" else "E:X:") + type(ex).__name__
            ctx.case(f"(gvocab {bits} {'T' if closure else 'F'})", vtext, dict(replay, closure=closure, bits=bits), nontrivial=len(canon) >= 3,
                key=("vocab", str(replay.get("listed")), replay.get("top"), replay.get("bottom"), closure, bits, id(spec)), cmp=GG.iso)
            ctx.count("vocabulary_graphs_compared")
        g = TransformationGraph(lang, with_canonical_types=True, with_transitive_closure=closure)
        g.add_vocabulary()
        got = set()
        foreign = []
        for s, o in g.subject_objects(RDFS.subClassOf):
            if o in op_uris:
                continue
            if s in back and o in back:
                got.add((back[s], back[o]))
            else:
                foreign.append((s, o))
        want = set(links)
        if closure:
            want = tc_refl(links, canon)
        ctx.evaluations += 1
        if got != want or foreign:
            ctx.fail(f"add_vocabulary(closure={closure}): subClassOf triples differ from the reported links: missing "
                     f"{[(G.ty_str(a, spec), G.ty_str(b, spec)) for a, b in sorted(want - got)[:3]]}, extra "
                     f"{[(G.ty_str(a, spec), G.ty_str(b, spec)) for a, b in sorted(got - want)[:3]]}, foreign {foreign[:2]}",
                {"check": "vocabulary-links", "closure": closure}, replay)
        described = set(g.subjects(RDF.type, TF.Type))
        if not closure:
            missing = [t for t in canon if uri[t] not in described]
            extra = [u for u in described if u not in back]
            if missing or extra:
                params = set(o for p, o in g.predicate_objects() if str(p).startswith(str(RDF) + "_"))
                ctx.fail(f"add_vocabulary: canonical types not described {[G.ty_str(t, spec) for t in missing[:3]]}, described but not canonical {extra[:3]}",
                    {"check": "vocabulary-types", "missing": bool(missing), "extra": bool(extra),
                     "extras_are_parameters_of_described_types": all(u in params for u in extra)}, replay)
            described_ops = set(g.subjects(RDF.type, TF.Operation))
            want_ops = {lang.uri(o) for o in lang.operators.values()}
            if described_ops != want_ops:
                ctx.fail(f"add_vocabulary: operators described {sorted(described_ops)} != operators of the language {sorted(want_ops)}",
                    {"check": "vocabulary-operators"}, replay)


def tc_refl(links, canon):
    pairs = set(links) | {(t, t) for t in canon}
    while True:
        new = {(a, d) for (a, b) in pairs for (c, d) in pairs if b == c} - pairs
        if not new:
            return pairs
        pairs |= new


def raw_successors(ctx, li, spec, ops):
    """TypeOperation.successors under all switch combinations"""
    from transforge import type as T
    rng = ctx.rng
    universe = [ops[i] for i in range(5, len(spec.decls))]
    for _ in range(10 if ctx.tier == "quick" else 40):
        t = G.gen_ty(rng, spec, rng.randint(0, 2), p_special=0.15, allow_fun=rng.random() < 0.2)
        if contains(t, G.UNIT):
            continue
        for up, cu, bt, tp, un in itertools.product((False, True), repeat=5):
            if rng.random() < (0.6 if ctx.tier == "quick" else 0.0):
                continue
            try:
                res = list(G.ty_py(t, ops).successors(T.Direction.UP if up else T.Direction.DOWN, include_custom=cu,
                    include_bottom=bt, include_top=tp, universe=universe if un else ()))
                obs = show([G.py_to_data(s, ops) for s in res])
            except Exception as ex:  # noqa
                obs = "E:" + type(ex).__name__
            f = lambda b: 'T' if b else 'F'
            ctx.case(f"(succ {f(up)} {f(cu)} {f(bt)} {f(tp)} {f(un)} {G.ty_sexp(t)})", obs,
                {"lang": spec.to_json(), "type": t, "switches": [up, cu, bt, tp, un]}, nontrivial=bool(t[1]), key=(li, t, up, cu, bt, tp, un))
            # soundness oracle: every successor is a strict sub/supertype
            if not obs.startswith("E:"):
                for s in res:
                    sd = G.py_to_data(s, ops)
                    ok = (ref_sub(spec, t, sd) if up else ref_sub(spec, sd, t)) and sd != t
                    if not ok:
                        ctx.fail(f"successors({'UP' if up else 'DOWN'}) of {G.ty_str(t, spec)} yields {G.ty_str(sd, spec)}, not a strict {'super' if up else 'sub'}type",
                            {"check": "successor-order"}, {"lang": spec.to_json(), "type": t, "switches": [up, cu, bt, tp, un]})
                        break


def corpus(ctx):
    """D6 witnesses: canon={Top, C, F(C)} with C < B < A; canon={Top, A, K(A)} with contravariant K"""
    decls = list(G.BUILTIN_DECLS) + [("A", [], None), ("B", [], 5), ("C", [], 6), ("F", [True], None), ("K", [False], None)]
    spec = G.LangSpec(decls)
    ops = spec.build()
    ctx.setup(spec.sexp(), "ok T")
    one_language(ctx, -1, spec, ops, [(7, ()), (8, ((7, ()),))], True, False)
    one_language(ctx, -1, spec, ops, [(5, ()), (9, ((5, ()),))], True, False)
    one_language(ctx, -1, spec, ops, [(5, ()), (8, ((6, ()),))], False, False)


def replay(ctx, payload):
    inp = payload["input"]
    spec = G.LangSpec([(n, v, p) for n, v, p in inp["lang"]])
    ops = spec.build()
    c = type("C", (), {"failures": [], "stats": {}, "evaluations": 0, "tier": "quick", "count": lambda self, n, k=1: None,
        "case": lambda self, *a, **k: None, "setup": lambda self, *a, **k: None,
        "fail": lambda self, d, f, r: self.failures.append((d, f))})()
    if "listed" in inp:
        listed = [tt(t) for t in inp["listed"]]
        one_language(c, 0, spec, ops, listed, inp["top"], inp["bottom"])
    for d, f in c.failures:
        print(d, f)
    return not c.failures


def tt(x):
    return (x[0], tuple(tt(a) for a in x[1]))
