import Tfv.Proofs.HistoryConstrPrims
/-!
# History independence in the shift form WITH constraints (C16), part 3: the engine with fuel offsets

1. Unfolding equations of the engine with fuel offsets (`unifyE`, … Spec/HistoryShiftConstr.lean), the counterparts
   of `bind_var_eq`, `unifyList_cons`, `applyT_eq`, `addConstraint_eq` ….
2. With offsets `0` the engine with fuel offsets is the model (`blockE_zero`, `useSchemaE_zero`).
-/
namespace Tfv.C16H
open Tfv Tfv.C03P Tfv.C16P Tfv.C03C Tfv.C16C Tfv.C18P

/-! ## 1. unfolding equations -/

def bindAppStoreE (kv : Nat) (σ : Store) (v : Nat) (t : Term) : Store :=
  let i := clearW σ v
  let σ := bindBaseStore σ v t
  let vars := directVarsE kv σ (termFuelE kv σ) t []
  let merged := vars.foldl (fun acc w => unionSorted acc (getCset σ (getVar σ w).cset)) (getCset σ i.cset)
  let σ := setCset σ i.cset merged
  vars.foldl (fun σ w => setVar σ w { (getVar σ w) with cset := i.cset }) σ

theorem bindE_var_eq (L : Lang) (kv n : Nat) (σ : Store) (v tv : Nat) :
    bindE L kv (n+1) σ v (.var tv) =
      if (getVar σ v).bound.isSome then .error (.internal "bind:variable cannot be unified twice")
      else if tv == v then .ok (setVar σ v (clearW σ v))
      else
        match (match (getVar σ v).lower with
               | some l => unifyE L kv n (bindVarStore σ v tv) (.app l []) (.var tv) true false false
               | none => .ok (bindVarStore σ v tv)) with
        | .error e => .error e
        | .ok σ1 =>
          match (match (getVar σ v).upper with
                 | some u => unifyE L kv n σ1 (.var tv) (.app u []) true false false
                 | none => .ok σ1) with
          | .error e => .error e
          | .ok σ2 => checkConstraintsE L kv n σ2 v := by
  rw [bindE]
  rfl

theorem bindE_app_eq (L : Lang) (kv n : Nat) (σ : Store) (v o : Nat) (args : List Term) :
    bindE L kv (n+1) σ v (.app o args) =
      if (getVar σ v).bound.isSome then .error (.internal "bind:variable cannot be unified twice")
      else if arityOf L o == 0 then
        if (getVar σ v).lower.any (fun l => opSub L o l true) then .error .subtypeMismatch
        else if (getVar σ v).upper.any (fun u => opSub L u o true) then .error .subtypeMismatch
        else checkConstraintsE L kv n (bindBaseStore σ v (.app o args)) v
      else
        if (getVar σ v).lower.isSome || (getVar σ v).upper.isSome then .error .subtypeMismatch
        else checkConstraintsE L kv n (bindAppStoreE kv σ v (.app o args)) v := by
  rw [bindE]
  rfl

theorem unifyListE_cons (L : Lang) (kv n : Nat) (σ : Store) (v : Bool) (vs : List Bool) (x y : Term)
    (xs ys : List Term) (st sb sw : Bool) :
    unifyListE L kv (n+1) σ (v :: vs) (x :: xs) (y :: ys) st sb sw =
      match (if v then unifyE L kv n σ x y st sb sw else unifyE L kv n σ y x st sb sw) with
      | .error e => .error e
      | .ok σ1 => unifyListE L kv n σ1 vs xs ys st sb sw := by
  rw [unifyListE]; rfl

theorem unifyListE_cases (L : Lang) (kv n : Nat) (σ : Store) (vs : List Bool) (xs ys : List Term)
    (st sb sw : Bool) :
    (∃ v vs' x xs' y ys', vs = v :: vs' ∧ xs = x :: xs' ∧ ys = y :: ys') ∨
      unifyListE L kv (n+1) σ vs xs ys st sb sw = .ok σ := by
  cases vs with
  | nil => right; rw [unifyListE]; intro _ _ _ _ _ _ h; cases h
  | cons v vs' =>
    cases xs with
    | nil => right; rw [unifyListE]; intro _ _ _ _ _ _ _ h; cases h
    | cons x xs' =>
      cases ys with
      | nil => right; rw [unifyListE]; intro _ _ _ _ _ _ _ _ h; cases h
      | cons y ys' => left; exact ⟨v, vs', x, xs', y, ys', rfl, rfl, rfl⟩

theorem fixListE_cons (L : Lang) (kv n : Nat) (σ : Store) (v : Bool) (vs : List Bool) (p : Term)
    (ps : List Term) (pl : Bool) :
    fixListE L kv (n+1) σ (v :: vs) (p :: ps) pl =
      match fixE L kv n σ p (if v then pl else !pl) with
      | .error e => .error e
      | .ok (σ1, _) => fixListE L kv n σ1 vs ps pl := by
  rw [fixListE]; rfl

theorem fixListE_nil_left (L : Lang) (kv n : Nat) (σ : Store) (ps : List Term) (pl : Bool) :
    fixListE L kv (n+1) σ [] ps pl = .ok σ := by
  rw [fixListE]
  intro _ _ _ _ h; cases h

theorem fixListE_nil_right (L : Lang) (kv n : Nat) (σ : Store) (vs : List Bool) (pl : Bool) :
    fixListE L kv (n+1) σ vs [] pl = .ok σ := by
  cases vs <;> rw [fixListE] <;> intro _ _ _ _ _ h <;> cases h

theorem checkListE_cons' (L : Lang) (kv n : Nat) (σ : Store) (v c : Nat) (cs : List Nat) :
    checkListE L kv (n+1) σ v (c :: cs) =
      match fulfillE L kv n σ c with
      | .error e => .error e
      | .ok (σ1, done) =>
        checkListE L kv n (if done then setCset σ1 (getVar σ1 v).cset ((getCset σ1 (getVar σ1 v).cset).filter (· != c))
          else σ1) v cs := by
  rw [checkListE]
  rfl

theorem checkListE_nil' (L : Lang) (kv n : Nat) (σ : Store) (v : Nat) : checkListE L kv (n+1) σ v [] = .ok σ := by
  rw [checkListE]

theorem fulfillE_sub_eq' (L : Lang) (kv n : Nat) (σ : Store) (c : Nat) {ref tgt : Term} {s f : Bool}
    (h : getConstr σ c = .sub ref tgt s f) :
    fulfillE L kv (n+1) σ c =
      match unifyE L kv n σ ref tgt true true false with
      | .error e => .error e
      | .ok σ1 =>
        match match3E L kv σ1 (matchFuelE kv σ1) true false ref tgt with
        | some true =>
          (match getConstr σ1 c with
           | .sub r t s _ => .ok (setConstr σ1 c (.sub r t s true), true)
           | _ => .ok (σ1, true))
        | some false => .error .constraintViolation
        | none =>
          (match getConstr σ1 c with
           | .sub _ _ _ f => .ok (σ1, f)
           | _ => .ok (σ1, false)) := by
  rw [fulfillE, h]
  rfl

theorem fulfillE_elim_true_eq (L : Lang) (kv n : Nat) (σ : Store) (c : Nat) {ref : Term} {alts : List Term}
    (h : getConstr σ c = .elim ref alts true) : fulfillE L kv (n+1) σ c = .ok (σ, true) := by
  rw [fulfillE, h]

theorem fulfillE_elim_eq (L : Lang) (kv n : Nat) (σ : Store) (c : Nat) {r0 : Term} {a0 : List Term}
    (h : getConstr σ c = .elim r0 a0 false) :
    fulfillE L kv (n+1) σ c =
      match minimizeE L kv n σ c with
      | .error e => .error e
      | .ok σ1 =>
        match getConstr σ1 c with
        | .elim ref alts ful =>
          if !(normalizedIn σ1 ref && alts.all (normalizedIn σ1)) then
            .error (.internal "fulfill:assert normalized")
          else
            match alts.filter (fun t => match3E L kv σ1 (matchFuelE kv σ1) true true ref t != some false) with
            | [] => .error .constraintViolation
            | [only] =>
              (match unifyE L kv n (setConstr σ1 c (.elim ref
                  (alts.filter (fun t => match3E L kv σ1 (matchFuelE kv σ1) true true ref t != some false)) true))
                  ref only true false false with
               | .error e => .error e
               | .ok σ3 => .ok (σ3, true))
            | _ => .ok (setConstr σ1 c (.elim ref
                (alts.filter (fun t => match3E L kv σ1 (matchFuelE kv σ1) true true ref t != some false)) ful), ful)
        | _ => .error (.internal "fulfill:constraint changed kind") := by
  rw [fulfillE, h]
  rfl

theorem minimizeE_elim_eq (L : Lang) (kv n : Nat) (σ : Store) (c : Nat) {ref : Term} {alts : List Term} {f0 : Bool}
    (h : getConstr σ c = .elim ref alts f0) :
    minimizeE L kv (n+1) σ c =
      match minLoopE L kv n σ alts [] with
      | .error e => .error e
      | .ok (σ1, minimized) =>
        (match getConstr σ1 c with
         | .elim _ _ ful => .ok (setConstr σ1 c (.elim (followTE kv σ1 ref) (minimized.map (followTE kv σ1)) ful))
         | _ => .ok σ1) := by
  rw [minimizeE, h]
  rfl

theorem minimizeE_sub_eq (L : Lang) (kv n : Nat) (σ : Store) (c : Nat) {r t : Term} {s f : Bool}
    (h : getConstr σ c = .sub r t s f) : minimizeE L kv (n+1) σ c = .ok σ := by
  rw [minimizeE, h]

/-- one step of the inner loop of `minLoopE` -/
def minStepE (L : Lang) (kv : Nat) (σ : Store) (obj : Term) (acc : List Term × Bool) (m : Term) : List Term × Bool :=
  let m' := if match3E L kv σ (matchFuelE kv σ) true false m obj == some true then followTE kv σ obj else m
  let add' := if match3E L kv σ (matchFuelE kv σ) true false obj m' == some true then false else acc.2
  (acc.1 ++ [m'], add')

theorem minLoopE_nil_eq (L : Lang) (kv n : Nat) (σ : Store) (mins : List Term) :
    minLoopE L kv (n+1) σ [] mins = .ok (σ, mins) := by
  rw [minLoopE]

theorem minLoopE_cons_eq (L : Lang) (kv n : Nat) (σ : Store) (obj : Term) (rest mins : List Term) :
    minLoopE L kv (n+1) σ (obj :: rest) mins =
      if (mins.foldl (minStepE L kv σ obj) ([], true)).2 then
        match fixE L kv n σ (followTE kv σ obj) true with
        | .error e => .error e
        | .ok (σ1, t) => minLoopE L kv n σ1 rest ((mins.foldl (minStepE L kv σ obj) ([], true)).1 ++ [t])
      else minLoopE L kv n σ rest (mins.foldl (minStepE L kv σ obj) ([], true)).1 := by
  rw [minLoopE]
  rfl

/-- first stage of `applyTE` -/
def applyPreE (L : Lang) (kv : Nat) (fuel : Nat) (σ : Store) (f0 : Term) : Except Err (Store × Term) :=
  match f0 with
  | .var fv =>
    let (σ1, a) := newVar σ
    let (σ2, b) := newVar σ1
    match bindE L kv fuel σ2 fv (.app FUN [.var a, .var b]) with
    | .error e => .error e
    | .ok σ3 => .ok (σ3, followTE kv σ3 (.var fv))
  | t => .ok (σ, t)

/-- second stage of `applyTE` -/
def applyPostE (L : Lang) (kv : Nat) (fuel : Nat) (σ : Store) (x0 f1 : Term) (fixFlag : Bool) :
    Except Err (Store × Term) :=
  match f1 with
  | .app o [l, r] =>
    if o == FUN then
      match unifyE L kv fuel σ x0 l true false false with
      | .error e => .error e
      | .ok σ1 =>
        if fixFlag && !isFunT r then fixE L kv fuel σ1 r true else .ok (σ1, r)
    else if o == TOP then .ok (σ, .app TOP []) else .error .functionApplication
  | .app o _ => if o == TOP then .ok (σ, .app TOP []) else .error .functionApplication
  | .var _ => .error .functionApplication

theorem applyTE_eq (L : Lang) (kv : Nat) (fuel : Nat) (σ : Store) (f x : Term) (fixFlag : Bool) :
    applyTE L kv fuel σ f x fixFlag =
      match applyPreE L kv fuel σ (followTE kv σ f) with
      | .error e => .error e
      | .ok (σ1, f1) => applyPostE L kv fuel σ1 (followTE kv σ x) f1 fixFlag := rfl

/-- `reference.instance()` / `target.instance()` follow their argument -/
def normCE (kv : Nat) (σ : Store) : Constr → Constr
  | .sub r t s f => .sub (followTE kv σ r) (followTE kv σ t) s f
  | .elim r alts f => .elim r (alts.map (followTE kv σ)) f

theorem addConstraintE_eq (L : Lang) (kv kc : Nat) (fuel : Nat) (σ : Store) (c : Constr) :
    addConstraintE L kv kc fuel σ c =
      let σa := regStore σ (normCE kv σ c)
      let vars := varsOfTermsE kv kc σa (constrTerms (normCE kv σ c))
      if vars.any (fun v => (getVar σa v).bound.isSome) then .error (.internal "inform:assert not v.bound")
      else
        match fulfillE L kv fuel (informStore σ.constrs.length vars σa) σ.constrs.length with
        | .error e => .error e
        | .ok (σ1, _) => .ok σ1 := by
  cases c <;> rfl

/-! ## 2. with offsets `0` the engine with fuel offsets is the model -/

theorem followTE_zero : followTE 0 = followT := rfl
theorem matchFuelE_zero : matchFuelE 0 = matchFuel := rfl
theorem termFuelE_zero : termFuelE 0 = termFuel := rfl

theorem loopE_eq_loopK (f : Term → Term → Option Bool) : ∀ (vs : List Bool) (ss ts : List Term) (acc : Option Bool),
    loopE f vs ss ts acc = loopK f vs ss ts acc
  | [], _, _, _ => by rw [loopK, loopE] <;> (intros; simp_all)
  | _ :: _, [], _, _ => by rw [loopK, loopE] <;> (intros; simp_all)
  | _ :: _, _ :: _, [], _ => by rw [loopK, loopE] <;> (intros; simp_all)
  | v :: vs, s :: ss, t :: ts, acc => by
    rw [loopK, loopE]
    simp only [loopE_eq_loopK f vs ss ts]
    rfl

theorem match3E_zero_K (L : Lang) (σ : Store) : ∀ (n : Nat) (st aw : Bool) (a b : Term),
    match3E L 0 σ n st aw a b = match3K L σ n st aw a b
  | 0, _, _, _, _ => by rw [match3E, match3K]
  | n+1, st, aw, a, b => by
    rw [match3E, match3K, followTE_zero]
    have e : (fun s t => match3E L 0 σ n st aw s t) = (fun s t => match3K L σ n st aw s t) := by
      funext s t; exact match3E_zero_K L σ n st aw s t
    simp only [e, loopE_eq_loopK]
    rfl

theorem match3E_zero (L : Lang) : match3E L 0 = match3 L := by
  funext σ n st aw a b
  rw [match3E_zero_K, match3K_eq]

theorem occursE_zero_K (L : Lang) (σ : Store) : ∀ (n : Nat) (a b : Term),
    occursE L 0 σ n a b = occursK L σ n a b
  | 0, _, _ => by rw [occursE, occursK]
  | n+1, a, b => by
    rw [occursE, occursK, followTE_zero, matchFuelE_zero]
    have e : (fun t => occursE L 0 σ n t (followT σ b)) = (fun t => occursK L σ n t (followT σ b)) := by
      funext t; exact occursE_zero_K L σ n t _
    simp only [e, match3E_zero_K]
    rfl

theorem occursE_zero (L : Lang) : occursE L 0 = occurs L := by
  funext σ n a b
  rw [occursE_zero_K, occursK_eq]

theorem directVarsE_zero_aux (σ : Store) : ∀ (n : Nat) (t : Term) (acc : List Nat),
    directVarsE 0 σ n t acc = directVars σ n t acc
  | 0, _, _ => by rw [directVarsE, directVars]
  | n+1, t, acc => by
    rw [directVarsE, directVars, followTE_zero]
    have e : (fun acc t => directVarsE 0 σ n t acc) = (fun acc t => directVars σ n t acc) := by
      funext acc t; exact directVarsE_zero_aux σ n t acc
    simp only [e]
    rfl

theorem directVarsE_zero : directVarsE 0 = directVars := by
  funext σ n t acc; exact directVarsE_zero_aux σ n t acc

theorem indirectVarsE_zero_aux (σ : Store) : ∀ (n : Nat) (work seen : List Nat),
    indirectVarsE 0 σ n work seen = indirectVars σ n work seen
  | 0, _, _ => by unfold indirectVarsE indirectVars; rfl
  | n+1, [], _ => by unfold indirectVarsE indirectVars; rfl
  | n+1, v :: work, seen => by
    unfold indirectVarsE indirectVars
    simp only [directVarsE_zero, termFuelE_zero, indirectVarsE_zero_aux σ n]

theorem varsOfTermsE_zero : varsOfTermsE 0 0 = varsOfTerms := by
  funext σ ts
  unfold varsOfTermsE varsOfTerms
  simp only [directVarsE_zero, termFuelE_zero, indirectVarsE_zero_aux, Nat.add_zero]

/-- all twelve functions of the block agree at fuel `n` -/
structure BlockE0 (L : Lang) (n : Nat) : Prop where
  unify : ∀ σ a b st sb sw, unifyE L 0 n σ a b st sb sw = unify L n σ a b st sb sw
  unifyList : ∀ σ vs xs ys st sb sw, unifyListE L 0 n σ vs xs ys st sb sw = unifyList L n σ vs xs ys st sb sw
  bind : ∀ σ v t, bindE L 0 n σ v t = bind L n σ v t
  above : ∀ σ v o, aboveE L 0 n σ v o = above L n σ v o
  below : ∀ σ v o, belowE L 0 n σ v o = below L n σ v o
  checkConstraints : ∀ σ v, checkConstraintsE L 0 n σ v = checkConstraints L n σ v
  checkList : ∀ σ v cs, checkListE L 0 n σ v cs = checkList L n σ v cs
  fulfill : ∀ σ c, fulfillE L 0 n σ c = fulfill L n σ c
  minimize : ∀ σ c, minimizeE L 0 n σ c = minimize L n σ c
  minLoop : ∀ σ alts acc, minLoopE L 0 n σ alts acc = minLoop L n σ alts acc
  fix : ∀ σ t pl, fixE L 0 n σ t pl = fix L n σ t pl
  fixList : ∀ σ vs ps pl, fixListE L 0 n σ vs ps pl = fixList L n σ vs ps pl

theorem blockE0_zero (L : Lang) : BlockE0 L 0 where
  unify := by intros; simp only [unifyE, unify]
  unifyList := by intros; simp only [unifyListE, unifyList]
  bind := by intros; simp only [bindE, bind]
  above := by intros; simp only [aboveE, above]
  below := by intros; simp only [belowE, below]
  checkConstraints := by intros; simp only [checkConstraintsE, checkConstraints]
  checkList := by intros; simp only [checkListE, checkList]
  fulfill := by intros; simp only [fulfillE, fulfill]
  minimize := by intros; simp only [minimizeE, minimize]
  minLoop := by intros; simp only [minLoopE, minLoop]
  fix := by intros; simp only [fixE, fix]
  fixList := by intros; simp only [fixListE, fixList]

theorem blockE0_succ {L : Lang} {n : Nat} (ih : BlockE0 L n) : BlockE0 L (n+1) where
  unify := by
    intros
    (simp only [unifyE, unify, followTE_zero, termFuelE_zero, occursE_zero, ih.bind, ih.unify, ih.unifyList,
      ih.above, ih.below]; try rfl)
  unifyList := by
    intro σ vs xs ys st sb sw
    cases vs <;> cases xs <;> cases ys <;> (simp only [unifyListE, unifyList, ih.unify, ih.unifyList]; try rfl)
  bind := by
    intros
    (simp only [bindE, bind, directVarsE_zero, termFuelE_zero, ih.unify, ih.checkConstraints]; try rfl)
  above := by intros; (simp only [aboveE, above, ih.bind, ih.checkConstraints]; try rfl)
  below := by intros; (simp only [belowE, below, ih.bind, ih.checkConstraints]; try rfl)
  checkConstraints := by intros; (simp only [checkConstraintsE, checkConstraints, ih.checkList]; try rfl)
  checkList := by
    intro σ v cs
    cases cs <;> (simp only [checkListE, checkList, ih.fulfill, ih.checkList]; try rfl)
  fulfill := by
    intros
    (simp only [fulfillE, fulfill, match3E_zero, matchFuelE_zero, ih.unify, ih.minimize]; try rfl)
  minimize := by intros; (simp only [minimizeE, minimize, followTE_zero, ih.minLoop]; try rfl)
  minLoop := by
    intro σ alts acc
    cases alts <;>
      (simp only [minLoopE, minLoop, match3E_zero, matchFuelE_zero, followTE_zero, ih.fix, ih.minLoop]; try rfl)
  fix := by intros; (simp only [fixE, fix, followTE_zero, ih.bind, ih.fixList]; try rfl)
  fixList := by
    intro σ vs ps pl
    cases vs <;> cases ps <;> (simp only [fixListE, fixList, ih.fix, ih.fixList]; try rfl)

theorem blockE0 (L : Lang) : ∀ n, BlockE0 L n
  | 0 => blockE0_zero L
  | n+1 => blockE0_succ (blockE0 L n)

theorem addConstraintE_zero (L : Lang) (fuel : Nat) (σ : Store) (c : Constr) :
    addConstraintE L 0 0 fuel σ c = addConstraint L fuel σ c := by
  simp only [addConstraintE, addConstraint, followTE_zero, varsOfTermsE_zero, (blockE0 L fuel).fulfill]
  try rfl

theorem addConstraintsE_zero (L : Lang) (fuel base : Nat) : ∀ (σ : Store) (cs : List CAst),
    addConstraintsE L 0 0 fuel base σ cs = addConstraints L fuel base σ cs
  | σ, [] => by simp only [addConstraintsE, addConstraints]
  | σ, c :: cs => by
    simp only [addConstraintsE, addConstraints, addConstraintE_zero, followTE_zero]
    cases addConstraint L fuel σ _ with
    | error e => rfl
    | ok σ1 => exact addConstraintsE_zero L fuel base σ1 cs

theorem spineFollowE_zero (σ : Store) (t : Term) : spineFollowE 0 σ t = spineFollow σ t := by
  fun_induction spineFollow σ t with
  | case1 o l r ho ih =>
    rw [spineFollowE.eq_def]
    simp only [ho, ↓reduceIte, ih]
    cases l with
    | var v => rfl
    | app p args => rfl
  | case2 o l r ho =>
    rw [spineFollowE.eq_def]
    simp only [ho]
    rfl
  | case3 v => rw [spineFollowE.eq_def]; rfl
  | case4 t h1 h2 =>
    rw [spineFollowE.eq_def]
    split
    · next o l r => exact absurd rfl (h1 o l r)
    · next v => exact absurd rfl (h2 v)
    · rfl

theorem instantiateE_zero (L : Lang) (fuel : Nat) (σ : Store) (s : Schema) :
    instantiateE L 0 0 fuel σ s = instantiate L fuel σ s := by
  simp only [instantiateE, instantiate, addConstraintsE_zero, spineFollowE_zero, (blockE0 L fuel).fix]
  try rfl

theorem applyTE_zero (L : Lang) (fuel : Nat) (σ : Store) (f x : Term) (fixFlag : Bool) :
    applyTE L 0 fuel σ f x fixFlag = applyT L fuel σ f x fixFlag := by
  simp only [applyTE, applyT, followTE_zero, (blockE0 L fuel).bind, (blockE0 L fuel).unify, (blockE0 L fuel).fix]
  try rfl

theorem applyAllE_zero (L : Lang) (fuel : Nat) (fixFlag : Bool) : ∀ (xs : List Term) (σ : Store) (f : Term),
    applyAllE L 0 fuel fixFlag σ f xs = applyAll L fuel fixFlag σ f xs
  | [], σ, f => by rw [applyAllE, applyAll]
  | x :: xs, σ, f => by
    rw [applyAllE, applyAll, applyTE_zero]
    cases applyT L fuel σ f x fixFlag with
    | error e => rfl
    | ok p =>
      obtain ⟨σ1, r⟩ := p
      exact applyAllE_zero L fuel fixFlag xs σ1 r

/-- with both offsets `0` the engine with fuel offsets is the model -/
theorem useSchemaE_zero (L : Lang) (fuel : Nat) (fixFlag : Bool) (σ : Store) (s : Schema) (xs : List Term) :
    useSchemaE L 0 0 fuel fixFlag σ s xs = useSchema L fuel fixFlag σ s xs := by
  unfold useSchemaE useSchema
  rw [instantiateE_zero]
  cases instantiate L fuel σ s with
  | error e => rfl
  | ok p =>
    obtain ⟨σ1, f⟩ := p
    exact applyAllE_zero L fuel fixFlag xs σ1 f

end Tfv.C16H
