import Tfv.Proofs.WildReachStable
/-!
# The certificate along a run: the strict matcher is stable, and it agrees with the engine's test
# when at most one variable is flagged as a wildcard

* `ext_dewild`, `chains_dewild`: `dewild` commutes with the relations used by the stability theorem.
* `strict_stable`: `match3 (dewild σ) n … = some true` is kept in every later store (with the depth proviso `ReflD`).
* `match3_engine_imp_strict`: the converse of `match3_strict_imp` when no two distinct variables are flagged.
* `subsStrictAt`, `cert_step`: the inductive step of "every reachable store passes the certificate".
-/
namespace Tfv.C03X
open Tfv Tfv.C03P Tfv.C03C Tfv.C03R Tfv.C16P Tfv.C17E

theorem ext_dewild {σ σ' : Store} (e : Ext σ σ') : Ext (dewild σ) (dewild σ') :=
  ⟨by rw [length_dewild, length_dewild]; exact e.len,
   fun v b h => by
    rw [getVar_dewild] at h ⊢
    exact e.bound v b h⟩

theorem nb_dewild (σ : Store) : nb (dewild σ) = nb σ := by
  unfold nb dewild
  simp only [List.countP_map]
  rfl

theorem chains_dewild {σ : Store} (h : Chains σ) : Chains (dewild σ) := by
  intro w
  rw [nb_dewild, follow_dewild]
  have := h w
  cases hf : follow σ (nb σ) (.var w) with
  | app o args => trivial
  | var u =>
    rw [hf] at this
    have hu : (getVar σ u).bound = none := this
    show (getVar (dewild σ) u).bound = none
    rw [getVar_dewild]; exact hu

/-- the strict matcher's `some true` is kept by later stores -/
theorem strict_stable {L : Lang} {σ σ' : Store} {st : Bool} {d n m : Nat} (e : Ext σ σ') (hc' : Chains σ')
    (hr : ReflD L (dewild σ') st d) (hfuel : n + d ≤ m) (a b : Term)
    (h : match3 L (dewild σ) n st false a b = some true) :
    match3 L (dewild σ') m st false a b = some true :=
  match3_true_fuel_le L (dewild σ') st false hfuel a b
    (match3_true_ext (noWild_dewild σ) (ext_dewild e) (chains_dewild hc') hr n a b h)

/-- at most one variable is flagged as a wildcard -/
def WildLe1 (σ : Store) : Prop :=
  ∀ u v, (getVar σ u).wildcard = true → (getVar σ v).wildcard = true → u = v

/-- executable form -/
def wildLe1B (σ : Store) : Bool := (σ.vars.filter (fun i => i.wildcard)).length ≤ 1

/-- when at most one variable is flagged, the test `fulfill` makes is the strict test -/
theorem match3_engine_imp_strict (L : Lang) (σ : Store) (st : Bool) (hw : WildLe1 σ) : ∀ (n : Nat) (a b : Term),
    match3 L σ n st false a b = some true → match3 L (dewild σ) n st false a b = some true
  | 0, a, b, h => by rw [match3_zero] at h; cases h
  | n+1, a, b, h => by
    rw [match3.eq_2] at h ⊢
    rw [followT_dewild, followT_dewild]
    cases ea : followT σ a with
    | var av =>
      cases eb : followT σ b with
      | var bv =>
        rw [ea, eb] at h
        simp only [getVar_dewild, Bool.and_self, Bool.or_false, Bool.false_eq_true, if_false]
        simp only [Bool.false_and, Bool.false_eq_true, if_false] at h
        split at h
        · next e1 =>
          have : av = bv := by
            simp only [Bool.or_eq_true, Bool.and_eq_true, beq_iff_eq] at e1
            rcases e1 with e1 | ⟨w1, w2⟩
            · exact e1
            · exact hw av bv w1 w2
          simp only [this, beq_self_eq_true, if_true]
        · split at h <;> first | cases h | (split at h <;> cases h)
      | app bo bs =>
        rw [ea, eb] at h
        simp only [getVar_dewild, Bool.false_and]
        simp only [Bool.false_and] at h
        exact h
    | app ao as =>
      cases eb : followT σ b with
      | var bv =>
        rw [ea, eb] at h
        simp only [getVar_dewild, Bool.false_and]
        simp only [Bool.false_and] at h
        exact h
      | app bo bs =>
        rw [ea, eb] at h
        simp only [] at h ⊢
        split at h
        · next e => rw [if_pos e]
        · next e =>
          rw [if_neg e]
          split at h
          · next e2 => rw [if_pos e2]; exact h
          · next e2 =>
            rw [if_neg e2]
            split at h
            · cases h
            · next e3 =>
              rw [if_neg e3]
              exact loop_true_transfer (match3_engine_imp_strict L σ st hw n) _ _ _ _ h

/-- every subtype constraint marked fulfilled passes the strict matcher run with fuel `n` -/
def subsStrictAt (L : Lang) (σ : Store) (n : Nat) : Bool :=
  (List.range σ.constrs.length).all (fun c => match getConstr σ c with
    | .sub r t _ true => match3 L (dewild σ) n true false r t == some true
    | _ => true)

theorem subsStrictAt_matchFuel (L : Lang) (σ : Store) : subsStrictAt L σ (matchFuel σ) = subsStrictB L σ := rfl

theorem subsStrictAt_get {L : Lang} {σ : Store} {n : Nat} (h : subsStrictAt L σ n = true) {c : Nat} {r t : Term}
    {s : Bool} (hc : c < σ.constrs.length) (hg : getConstr σ c = .sub r t s true) :
    match3 L (dewild σ) n true false r t = some true := by
  have := List.all_eq_true.mp h c (List.mem_range.mpr hc)
  rw [hg] at this
  simpa using this

theorem subsStrictAt_of {L : Lang} {σ : Store} {n : Nat}
    (h : ∀ c r t s, c < σ.constrs.length → getConstr σ c = .sub r t s true →
      match3 L (dewild σ) n true false r t = some true) : subsStrictAt L σ n = true := by
  unfold subsStrictAt
  rw [List.all_eq_true]
  intro c hc
  have hc' := List.mem_range.mp hc
  split
  · next r t s hg => simpa using h c r t s hc' hg
  · rfl

/-- the inductive step: marks that were there pass by stability, new marks must pass in the new store -/
theorem cert_step {L : Lang} {σ σ' : Store} {n d m : Nat} (hs : subsStrictAt L σ n = true) (e : Ext σ σ')
    (hc' : Chains σ') (hr : ReflD L (dewild σ') true d) (hfuel : n + d ≤ m)
    (hnew : ∀ c r t s, c < σ'.constrs.length → getConstr σ' c = .sub r t s true →
      (c < σ.constrs.length ∧ getConstr σ c = .sub r t s true) ∨
      match3 L (dewild σ') m true false r t = some true) :
    subsStrictAt L σ' m = true := by
  apply subsStrictAt_of
  intro c r t s hc hg
  rcases hnew c r t s hc hg with ⟨hc0, hg0⟩ | h
  · exact strict_stable e hc' hr hfuel r t (subsStrictAt_get hs hc0 hg0)
  · exact h

end Tfv.C03X
