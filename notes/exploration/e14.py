import sys, random, itertools, re
sys.path.insert(0,'/repo')
import transforge.type as T
from transforge.type import *
from transforge.type import _
rng=random.Random(0)
def cc(self):
    cs=list(self._constraints)
    cs.sort(key=lambda c: c._vid)
    rng.shuffle(cs)
    for c in cs:
        if c.fulfill():
            try: self._constraints.remove(c)
            except KeyError: pass
T.TypeVariable.check_constraints=cc
cnt=itertools.count()
orig_init=T.Constraint.__init__
def cinit(self):
    self._vid=next(cnt); orig_init(self)
T.Constraint.__init__=cinit
A=TypeOperator('A'); A1=TypeOperator('A1',supertype=A); B=TypeOperator('B'); 
F=TypeOperator('F',params=1); G=TypeOperator('G',params=2)
def canon(s): 
    m={}
    return re.sub(r'τ\d+', lambda mm: m.setdefault(mm.group(0), f'v{len(m)}'), s)
def run(mk, args):
    try:
        t=mk().instance()
        for a in args: t=t.apply(a)
        return canon(t.text(with_constraints=True)) if False else canon(str(t))
    except AssertionError as e: return 'AssertionError'
    except Exception as e: return type(e).__name__
schemas={
 's1': lambda: TypeSchema(lambda x,y: x**y**G(x,y) [x << [A, F(y)], y << [B, F(x)], x<=A]),
 's2': lambda: TypeSchema(lambda x,y,z: x**y**z [z << [G(x,y), G(y,x)], x << [A,B], y << [A1, F(_)]]),
 's3': lambda: TypeSchema(lambda r,x,y: r**x**y [r << [G(A,x), G(B,x)], r << [G(y,A1), G(y,B)]]),
 's4': lambda: TypeSchema(lambda a,b,c: a**b**c [c << [b, F(b)], b << [a, F(a)], a << [A, B]]),
 's5': lambda: TypeSchema(lambda a,b: a**b**b [a << [F(b), G(b,_)], b << [A, F(A)], a <= F(_)]),
}
argsets=[[A],[A1],[B],[F(A)],[F(A1)],[G(A,B)],[G(A,A1)],[A,B],[A1,A],[F(A),A],[G(A,A1),A],[F(B),B],[B,F(B)],[A,F(A)],[G(B,A1),A1],[F(A),F(A)],[F(F(A)),F(A)]]
for n,mk in schemas.items():
    for args in argsets:
        outs=set()
        for k in range(40):
            outs.add(run(mk,[a.instance() if not isinstance(a,TypeInstance) else a for a in args]))
        if len(outs)>1: print('ORDER-DEP', n, [str(a) for a in args], outs)
print('done')
