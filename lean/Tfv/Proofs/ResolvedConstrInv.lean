import Tfv.Proofs.ResolvedConstrReach
import Tfv.Proofs.HistoryEngine
/-!
# The attachment invariant

`Inv L σ P`:
* `idx`: every variable points to an allocated constraint set;
* `att` / `attE`: an unfulfilled constraint (subtype / elimination) sits in the constraint set of every variable reached
  (within depth 64) from one of its terms;
* `chk`: an unfulfilled subtype constraint that is not pending (`P`) does not have both sides resolved (within depth 64):
  the last time it was checked `match3` could not decide it;
* `chkE`: an unfulfilled elimination constraint that is not pending has at least two alternatives left, and if its
  reference and all of them resolve then the reference resolves to a subtype of every one of them;
* `ful`: for a subtype constraint marked fulfilled, in every later store in which both sides resolve the resolved
  reference is a subtype of the resolved target.

`StepR L σ σ'`: bindings are kept; constraints keep their kind, subtype constraints their terms, flags are only raised;
the terms of an elimination constraint follow to what terms of the old record follow to (`der`); an old constraint leaves
the constraint set of a variable only when it is no longer unfulfilled (`keep`); attachment of an unfulfilled constraint
along any old term is kept (`attT`).
-/
namespace Tfv.C03R
open Tfv Tfv.C03P Tfv.C03C Tfv.C16P Tfv.C17E

/-- the constraint set of a variable -/
def cs (σ : Store) (u : Nat) : List Nat := getCset σ (getVar σ u).cset

/-- in every later store in which both terms resolve, the first resolves to a subtype of the second -/
def FulOK (L : Lang) (σ : Store) (r t : Term) : Prop :=
  ∀ σ', Ext σ σ' → Chains σ' → OkStore L σ' → ∀ τr τt, Res σ' r τr → Res σ' t τt → Sub L τr τt

theorem FulOK.mono {L : Lang} {σ σ' : Store} {r t : Term} (e : Ext σ σ') (h : FulOK L σ r t) : FulOK L σ' r t :=
  fun σ'' e' hc ok τr τt h1 h2 => h σ'' (e.trans e') hc ok τr τt h1 h2

def IdxOk (σ : Store) : Prop := ∀ v, v < σ.vars.length → (getVar σ v).cset < σ.csets.length

/-- the constraint is not marked fulfilled -/
def unfulB : Constr → Bool
  | .sub _ _ _ f => !f
  | .elim _ _ f => !f

def Unful (σ : Store) (c : Nat) : Prop := unfulB (getConstr σ c) = true

theorem unful_sub {σ : Store} {c : Nat} {r t : Term} {s : Bool} (h : getConstr σ c = .sub r t s false) : Unful σ c := by
  unfold Unful; rw [h]; rfl

theorem unful_elim {σ : Store} {c : Nat} {r : Term} {as : List Term} (h : getConstr σ c = .elim r as false) :
    Unful σ c := by
  unfold Unful; rw [h]; rfl

theorem Unful.lt {σ : Store} {c : Nat} (h : Unful σ c) : c < σ.constrs.length := by
  apply Classical.byContradiction
  intro hn
  unfold Unful getConstr at h
  rw [List.getD_eq_getElem?_getD, List.getElem?_eq_none (by omega)] at h
  cases h

theorem Unful.cases {σ : Store} {c : Nat} (h : Unful σ c) :
    (∃ r t s, getConstr σ c = .sub r t s false) ∨ (∃ r as, getConstr σ c = .elim r as false) := by
  unfold Unful at h
  cases e : getConstr σ c with
  | sub r t s f =>
    rw [e] at h
    cases f with
    | false => exact Or.inl ⟨r, t, s, rfl⟩
    | true => cases h
  | elim r as f =>
    rw [e] at h
    cases f with
    | false => exact Or.inr ⟨r, as, rfl⟩
    | true => cases h

theorem not_unful_sub_true {σ : Store} {c : Nat} {r t : Term} {s : Bool} (h : getConstr σ c = .sub r t s true) :
    ¬ Unful σ c := by
  unfold Unful; rw [h]; intro e; cases e

theorem not_unful_elim_true {σ : Store} {c : Nat} {r : Term} {as : List Term} (h : getConstr σ c = .elim r as true) :
    ¬ Unful σ c := by
  unfold Unful; rw [h]; intro e; cases e

/-- the constraint `c` is in the constraint set of every variable reached from `t` (within depth 64) -/
def Att (σ : Store) (c : Nat) (t : Term) : Prop := ∀ u d, d < 64 → Reach σ t u d → c ∈ cs σ u

theorem reach_congr {σ : Store} {t t' : Term} (e : followT σ t = followT σ t') {u d : Nat} (h : Reach σ t u d) :
    Reach σ t' u d := by
  cases h with
  | here e1 => exact Reach.here (e.symm.trans e1)
  | app e1 hm hr => exact Reach.app (e.symm.trans e1) hm hr

theorem Att.congr {σ : Store} {c : Nat} {t t' : Term} (e : followT σ t = followT σ t') (h : Att σ c t) : Att σ c t' :=
  fun u d hd hr => h u d hd (reach_congr e.symm hr)

/-- the two terms follow to the same term, now and in every later store -/
def Same (σ : Store) (x y : Term) : Prop := ∀ σ', Ext σ σ' → Chains σ' → followT σ' x = followT σ' y

theorem Same.refl (σ : Store) (x : Term) : Same σ x x := fun _ _ _ => rfl

theorem Same.mono {σ σ' : Store} {x y : Term} (e : Ext σ σ') (h : Same σ x y) : Same σ' x y :=
  fun σ'' e' hc => h σ'' (e.trans e') hc

theorem Same.trans {σ : Store} {x y z : Term} (h1 : Same σ x y) (h2 : Same σ y z) : Same σ x z :=
  fun σ' e hc => (h1 σ' e hc).trans (h2 σ' e hc)

theorem Same.symm {σ : Store} {x y : Term} (h : Same σ x y) : Same σ y x := fun σ' e hc => (h σ' e hc).symm

theorem Same.of_eq {σ : Store} {x y : Term} (h : followT σ x = followT σ y) : Same σ x y := by
  intro σ' e hc
  rw [e.followT_comp hc x, e.followT_comp hc y, h]

theorem Same.now {σ : Store} {x y : Term} (h : Same σ x y) (hc : Chains σ) : followT σ x = followT σ y :=
  h σ (Ext.refl σ) hc

/-- a term and what it follows to -/
theorem Same.of_followT (σ : Store) (x : Term) : Same σ (followT σ x) x :=
  fun σ' e hc => (e.followT_comp hc x).symm

/-- what is in progress: `p` the constraints scheduled for a re-check, `w` the elimination constraints whose
`fulfill` is running (from `minimize` to the unification with the one alternative left), `g` what is assumed of
the solutions considered (the bounds `bind` is handing over) -/
structure Pend where
  p : Nat → Prop
  w : Nat → Prop
  g : Val → Prop
  /-- the constraints known to have been registered with closed alternatives (fixed during a run) -/
  k : Nat → Prop

def Pend.none : Pend := ⟨fun _ => False, fun _ => False, fun _ => True, fun _ => False⟩
def Pend.addP (P : Pend) (Q : Nat → Prop) : Pend := ⟨fun c => P.p c ∨ Q c, P.w, P.g, P.k⟩
def Pend.addW (P : Pend) (c0 : Nat) : Pend := ⟨P.p, fun c => P.w c ∨ c = c0, P.g, P.k⟩
def Pend.addG (P : Pend) (H : Val → Prop) : Pend := ⟨P.p, P.w, fun ρ => P.g ρ ∧ H ρ, P.k⟩
/-- nothing in progress, `K` the constraints known to have closed alternatives -/
def Pend.closedFrom (K : Nat → Prop) : Pend := ⟨fun _ => False, fun _ => False, fun _ => True, K⟩

structure Inv (L : Lang) (σ : Store) (P : Pend) : Prop where
  idx : IdxOk σ
  att : ∀ c r t s, getConstr σ c = .sub r t s false → ∀ u d, d < 64 → (Reach σ r u d ∨ Reach σ t u d) → c ∈ cs σ u
  chk : ∀ c r t s, getConstr σ c = .sub r t s false → ¬ P.p c → ∀ τr τt, Res σ r τr → Res σ t τt →
    Ty.depth τr < 64 → Ty.depth τt < 64 → False
  ful : ∀ c r t s, c < σ.constrs.length → getConstr σ c = .sub r t s true → FulOK L σ r t
  attE : ∀ c r as, getConstr σ c = .elim r as false → ∀ t, t ∈ r :: as → Att σ c t
  chkE : ∀ c r as, getConstr σ c = .elim r as false → ¬ P.p c → 2 ≤ as.length ∧
    ∀ τr τs, Res σ r τr → ResL σ as τs → Ty.depth τr < 64 → Ty.depthL τs ≤ 64 → ∀ τ, τ ∈ τs → Sub L τr τ
  ful1 : ∀ c r a, c < σ.constrs.length → getConstr σ c = .elim r [a] true → ¬ P.w c →
    ∀ ρ, Sat L ρ σ → P.g ρ → Sub L (den ρ r) (den ρ a)
  ful2 : ∀ c r as f, P.k c → getConstr σ c = .elim r as f →
    Term.closedL as = true ∧ (f = true → as.length = 1)

/-- an unfulfilled subtype constraint is registered -/
theorem unful_lt {σ : Store} {c : Nat} {r t : Term} {s : Bool} (h : getConstr σ c = .sub r t s false) :
    c < σ.constrs.length := (unful_sub h).lt

theorem Inv.mono' {L : Lang} {σ : Store} {P P' : Pend}
    (h : ∀ c, Unful σ c → P.p c → P'.p c) (hw : ∀ c, P.w c → P'.w c) (hg : ∀ ρ, P'.g ρ → P.g ρ)
    (hk : ∀ c, P'.k c → P.k c) (inv : Inv L σ P) : Inv L σ P' :=
  ⟨inv.idx, inv.att, fun c r t s hc hn => inv.chk c r t s hc (fun hp => hn (h c (unful_sub hc) hp)), inv.ful,
   inv.attE, fun c r as hc hn => inv.chkE c r as hc (fun hp => hn (h c (unful_elim hc) hp)),
   fun c r a hc hg' hn ρ hρ hgρ => inv.ful1 c r a hc hg' (fun hwc => hn (hw c hwc)) ρ hρ (hg ρ hgρ),
   fun c r as f hkc hc => inv.ful2 c r as f (hk c hkc) hc⟩

/-- change of the set of constraints scheduled for a re-check -/
theorem Inv.mono {L : Lang} {σ : Store} {P : Pend} {Q Q' : Nat → Prop}
    (h : ∀ c, Unful σ c → (P.addP Q).p c → (P.addP Q').p c) (inv : Inv L σ (P.addP Q)) : Inv L σ (P.addP Q') :=
  Inv.mono' (P := P.addP Q) (P' := P.addP Q') h (fun _ hw => hw) (fun _ hg => hg) (fun _ hk => hk) inv

theorem Inv.addP {L : Lang} {σ : Store} {P : Pend} (Q : Nat → Prop) (inv : Inv L σ P) : Inv L σ (P.addP Q) :=
  Inv.mono' (P := P) (P' := P.addP Q) (fun _ _ hp => Or.inl hp) (fun _ hw => hw) (fun _ hg => hg)
    (fun _ hk => hk) inv

/-- nothing is scheduled any more among the unfulfilled constraints -/
theorem Inv.dropP {L : Lang} {σ : Store} {P : Pend} {Q : Nat → Prop} (h : ∀ c, Unful σ c → Q c → P.p c)
    (inv : Inv L σ (P.addP Q)) : Inv L σ P :=
  Inv.mono' (P := P.addP Q) (P' := P) (fun c hu (hq : P.p c ∨ Q c) => hq.elim id (h c hu)) (fun _ hw => hw)
    (fun _ hg => hg) (fun _ hk => hk) inv

theorem Inv.addW {L : Lang} {σ : Store} {P : Pend} (c0 : Nat) (inv : Inv L σ P) : Inv L σ (P.addW c0) :=
  Inv.mono' (P := P) (P' := P.addW c0) (fun _ _ hp => hp) (fun _ hw => Or.inl hw) (fun _ hg => hg)
    (fun _ hk => hk) inv

/-- the constraint `c0` leaves the set of running `fulfill`s: if it is fulfilled with one alternative, that holds -/
theorem Inv.dropW {L : Lang} {σ : Store} {P : Pend} {c0 : Nat}
    (h : ∀ r a, getConstr σ c0 = .elim r [a] true → ∀ ρ, Sat L ρ σ → P.g ρ → Sub L (den ρ r) (den ρ a))
    (inv : Inv L σ (P.addW c0)) : Inv L σ P :=
  ⟨inv.idx, inv.att, inv.chk, inv.ful, inv.attE, inv.chkE,
   fun c r a hc hg hn ρ hρ hgρ => by
    by_cases e : c = c0
    · subst e; exact h r a hg ρ hρ hgρ
    · exact inv.ful1 c r a hc hg (fun hw => hw.elim hn e) ρ hρ hgρ,
   inv.ful2⟩

/-- the assumption `H` on the solutions is discharged: it holds of every solution of the store -/
theorem Inv.dropG {L : Lang} {σ : Store} {P : Pend} {H : Val → Prop}
    (h : ∀ ρ, Sat L ρ σ → P.g ρ → H ρ) (inv : Inv L σ (P.addG H)) : Inv L σ P :=
  ⟨inv.idx, inv.att, inv.chk, inv.ful, inv.attE, inv.chkE,
   fun c r a hc hg hn ρ hρ hgρ => inv.ful1 c r a hc hg hn ρ hρ ⟨hgρ, h ρ hρ hgρ⟩, inv.ful2⟩

/-- attachment of an unfulfilled constraint along each of its terms -/
theorem Inv.attAll {L : Lang} {σ : Store} {P : Pend} (inv : Inv L σ P) {c : Nat} (hu : Unful σ c) :
    ∀ t, t ∈ constrTerms (getConstr σ c) → Att σ c t := by
  intro t ht
  rcases hu.cases with ⟨r, t', s, e⟩ | ⟨r, as, e⟩
  · rw [e, constrTerms_sub] at ht
    intro u d hd hr
    rcases List.mem_cons.mp ht with h1 | h1
    · subst h1; exact inv.att c _ t' s e u d hd (Or.inl hr)
    · rw [List.mem_singleton] at h1
      subst h1; exact inv.att c r _ s e u d hd (Or.inr hr)
  · rw [e, constrTerms_elim] at ht
    exact inv.attE c r as e t ht

structure StepR (L : Lang) (σ σ' : Store) : Prop where
  ext : Ext σ σ'
  clen : σ.constrs.length ≤ σ'.constrs.length
  subk : ∀ c r t s f, c < σ.constrs.length → getConstr σ c = .sub r t s f →
    ∃ f', getConstr σ' c = .sub r t s f' ∧ (f = true → f' = true)
  der : ∀ c r as f, c < σ.constrs.length → getConstr σ c = .elim r as f →
    ∃ r' as' f', getConstr σ' c = .elim r' as' f' ∧ (f = true → f' = true) ∧ Same σ' r' r ∧
      ∀ a', a' ∈ as' → ∃ a, a ∈ as ∧ Same σ' a' a
  keep : ∀ u c, u < σ.vars.length → c < σ.constrs.length → c ∈ cs σ u → Unful σ' c → c ∈ cs σ' u
  attT : ∀ c t, c < σ.constrs.length → okTerm L σ t = true → Unful σ' c → Att σ c t → Att σ' c t

/-- an unfulfilled constraint was unfulfilled before -/
theorem StepR.backU {L : Lang} {σ σ' : Store} (s : StepR L σ σ') {c : Nat} (hc : c < σ.constrs.length)
    (h : Unful σ' c) : Unful σ c := by
  cases e : getConstr σ c with
  | sub r t s0 f =>
    obtain ⟨f', e', hf⟩ := s.subk c r t s0 f hc e
    cases f with
    | false => exact unful_sub e
    | true => exact absurd h (not_unful_sub_true (by rw [e', hf rfl]))
  | elim r as f =>
    obtain ⟨r', as', f', e', hf, _⟩ := s.der c r as f hc e
    cases f with
    | false => exact unful_elim e
    | true => exact absurd h (not_unful_elim_true (by rw [e', hf rfl]))

/-- an unfulfilled subtype constraint was the same unfulfilled subtype constraint before -/
theorem StepR.back {L : Lang} {σ σ' : Store} (s : StepR L σ σ') (c : Nat) (r t : Term) (s0 : Bool)
    (hc : c < σ.constrs.length) (h : getConstr σ' c = .sub r t s0 false) : getConstr σ c = .sub r t s0 false := by
  cases e : getConstr σ c with
  | sub r1 t1 s1 f =>
    obtain ⟨f', e', hf⟩ := s.subk c r1 t1 s1 f hc e
    rw [h] at e'
    injection e' with a1 a2 a3 a4
    subst a1; subst a2; subst a3
    cases f with
    | false => rfl
    | true => rw [hf rfl] at a4; cases a4
  | elim r1 as f =>
    obtain ⟨r', as', f', e', _⟩ := s.der c r1 as f hc e
    rw [h] at e'; cases e'

theorem StepR.refl (L : Lang) (σ : Store) : StepR L σ σ :=
  ⟨Ext.refl σ, Nat.le_refl _, fun _ _ _ _ f _ h => ⟨f, h, fun e => e⟩,
   fun _ r as f _ h => ⟨r, as, f, h, fun e => e, Same.refl _ _, fun a ha => ⟨a, ha, Same.refl _ _⟩⟩,
   fun _ _ _ _ h _ => h, fun _ _ _ _ _ h => h⟩

theorem StepR.trans {L : Lang} {a b c : Store} (h1 : StepR L a b) (h2 : StepR L b c) : StepR L a c := by
  refine ⟨h1.ext.trans h2.ext, Nat.le_trans h1.clen h2.clen, ?_, ?_, ?_, ?_⟩
  · intro d r t s f hd h
    obtain ⟨f1, e1, k1⟩ := h1.subk d r t s f hd h
    obtain ⟨f2, e2, k2⟩ := h2.subk d r t s f1 (Nat.lt_of_lt_of_le hd h1.clen) e1
    exact ⟨f2, e2, fun e => k2 (k1 e)⟩
  · intro d r as f hd h
    obtain ⟨r1, as1, f1, e1, k1, hr1, ha1⟩ := h1.der d r as f hd h
    obtain ⟨r2, as2, f2, e2, k2, hr2, ha2⟩ := h2.der d r1 as1 f1 (Nat.lt_of_lt_of_le hd h1.clen) e1
    refine ⟨r2, as2, f2, e2, fun e => k2 (k1 e), hr2.trans (hr1.mono h2.ext), ?_⟩
    intro a2 hm2
    obtain ⟨a1, hm1, s1⟩ := ha2 a2 hm2
    obtain ⟨a0, hm0, s0⟩ := ha1 a1 hm1
    exact ⟨a0, hm0, s1.trans (s0.mono h2.ext)⟩
  · intro u d hu hd hm hun
    have hd1 := Nat.lt_of_lt_of_le hd h1.clen
    exact h2.keep u d (Nat.lt_of_lt_of_le hu h1.ext.len) hd1 (h1.keep u d hu hd hm (h2.backU hd1 hun)) hun
  · intro d t hd ht hun hat
    have hd1 := Nat.lt_of_lt_of_le hd h1.clen
    exact h2.attT d t hd1 (okTerm_mono h1.ext.len t ht) hun (h1.attT d t hd ht (h2.backU hd1 hun) hat)

/-- the terms of a registered subtype constraint are well formed -/
theorem okc_sub_terms {L : Lang} {σ : Store} (okc : OkStoreC L σ) {c : Nat} {r t : Term} {s f : Bool}
    (hc : c < σ.constrs.length) (h : getConstr σ c = .sub r t s f) :
    okTerm L σ r = true ∧ okTerm L σ t = true := by
  have := okc.cget hc
  rw [h, constrTerms_sub] at this
  obtain ⟨h1, h2⟩ := okTermL_cons.mp this
  exact ⟨h1, (okTermL_cons.mp h2).1⟩

theorem okc_elim_terms {L : Lang} {σ : Store} (okc : OkStoreC L σ) {c : Nat} {r : Term} {as : List Term} {f : Bool}
    (hc : c < σ.constrs.length) (h : getConstr σ c = .elim r as f) :
    okTermL L σ (r :: as) = true := by
  have := okc.cget hc
  rw [h, constrTerms_elim] at this
  exact this

theorem depthL_cons_bound {τ : Ty} {τs : List Ty} (h1 : Ty.depth τ < 64) (h2 : Ty.depthL τs ≤ 64) :
    Ty.depthL (τ :: τs) ≤ 64 := by
  rw [Ty.depthL]; omega

/-- attachment along a term is kept when `followT` and the constraint sets (of allocated variables) are -/
theorem att_same {L : Lang} {σ σ' : Store} (ok : OkStore L σ) (fe : FollowEq σ σ')
    (hcs : ∀ u, u < σ.vars.length → c ∈ cs σ u → c ∈ cs σ' u) {t : Term} (ht : okTerm L σ t = true)
    (h : Att σ c t) : Att σ' c t := by
  intro u d hd hr
  have hr0 := fe.symm.reach hr
  exact hcs u (reach_lt ok hr0 ht) (h u d hd hr0)

/-- a change of the store that keeps `followT`, the constraints and their attachment -/
theorem Inv.transfer {L : Lang} {σ σ' : Store} {P : Pend} (okc : OkStoreC L σ)
    (fe : FollowEq σ σ') (ex : Ext σ σ') (hcon : σ'.constrs = σ.constrs)
    (hcs : ∀ u c, u < σ.vars.length → c ∈ cs σ u → Unful σ c → c ∈ cs σ' u)
    (hidx : IdxOk σ') (hsat : ∀ ρ, Sat L ρ σ' → Sat L ρ σ) (inv : Inv L σ P) : Inv L σ' P := by
  have hg : ∀ c, getConstr σ' c = getConstr σ c := getConstr_congr hcon
  refine ⟨hidx, ?_, ?_, ?_, ?_, ?_, ?_, fun c r as f hk hc => inv.ful2 c r as f hk (by rw [← hg]; exact hc)⟩
  · intro c r t s hc u d hd hr
    rw [hg] at hc
    obtain ⟨okr, okt⟩ := okc_sub_terms okc (unful_lt hc) hc
    have hr0 : Reach σ r u d ∨ Reach σ t u d := hr.imp fe.symm.reach fe.symm.reach
    have hu : u < σ.vars.length := by
      rcases hr0 with h | h
      · exact reach_lt okc.ok h okr
      · exact reach_lt okc.ok h okt
    exact hcs u c hu (inv.att c r t s hc u d hd hr0) (unful_sub hc)
  · intro c r t s hc hn τr τt h1 h2
    rw [hg] at hc
    exact inv.chk c r t s hc hn τr τt (fe.symm.res τr r h1) (fe.symm.res τt t h2)
  · intro c r t s hlt hc
    rw [hcon] at hlt
    rw [hg] at hc
    exact (inv.ful c r t s hlt hc).mono ex
  · intro c r as hc t ht
    rw [hg] at hc
    have hok := okTermL_iff.mp (okc_elim_terms okc (unful_elim hc).lt hc) t ht
    exact att_same okc.ok fe (fun u hu hm => hcs u c hu hm (unful_elim hc)) hok (inv.attE c r as hc t ht)
  · intro c r as hc hn
    rw [hg] at hc
    obtain ⟨h2, hall⟩ := inv.chkE c r as hc hn
    exact ⟨h2, fun τr τs h1 hl d1 d2 => hall τr τs (fe.symm.res τr r h1) (fe.symm.resL τs as hl) d1 d2⟩
  · intro c r a hlt hc hn ρ hρ hgρ
    rw [hcon] at hlt
    rw [hg] at hc
    exact inv.ful1 c r a hlt hc hn ρ (hsat ρ hρ) hgρ

/-- attachment along a term under one new binding -/
theorem att_newBind {σ σm : Store} {v : Nat} {b : Term} (hc : Chains σ) (N : NewBind σ σm v b) {c : Nat}
    (B1 : ∀ u, c ∈ cs σ u → c ∈ cs σm u)
    (B2 : ∀ u d, d < 64 → Reach σm b u d → c ∈ cs σ v → c ∈ cs σm u) {t : Term} (h : Att σ c t) : Att σm c t := by
  intro u d hd hr
  rcases N.reach_back hc hr with h1 | ⟨d1, d2, hdd, h1, h2⟩
  · exact B1 u (h u d hd h1)
  · exact B2 u d2 (by omega) h2 (h v d1 (by omega) h1)

/-- one new binding `v := b`: the constraints of `v` become pending -/
theorem Inv.newBind {L : Lang} {σ σm : Store} {v : Nat} {b : Term} {P : Pend}
    (hc : Chains σ) (N : NewBind σ σm v b) (hcon : σm.constrs = σ.constrs)
    (B1 : ∀ u c, c ∈ cs σ u → c ∈ cs σm u)
    (B2 : ∀ u d, d < 64 → Reach σm b u d → ∀ c, c ∈ cs σ v → c ∈ cs σm u)
    (hidx : IdxOk σm) (H : Val → Prop) (hsat : ∀ ρ, Sat L ρ σm → H ρ → Sat L ρ σ) (inv : Inv L σ P) :
    Inv L σm ((P.addP (fun c => c ∈ cs σm v)).addG H) := by
  have hg : ∀ c, getConstr σm c = getConstr σ c := getConstr_congr hcon
  have hatt : ∀ c t, Att σ c t → Att σm c t := fun c t h =>
    att_newBind hc N (fun u => B1 u c) (fun u d hd hr => B2 u d hd hr c) h
  refine ⟨hidx, ?_, ?_, ?_, ?_, ?_, ?_, fun c r as f hk hcm => inv.ful2 c r as f hk (by rw [← hg]; exact hcm)⟩
  · intro c r t s hcm u d hd hr
    rw [hg] at hcm
    rcases hr with h | h
    · exact hatt c r (fun x d' hd' hx => inv.att c r t s hcm x d' hd' (Or.inl hx)) u d hd h
    · exact hatt c t (fun x d' hd' hx => inv.att c r t s hcm x d' hd' (Or.inr hx)) u d hd h
  · intro c r t s hcm hn τr τt h1 h2 d1 d2
    rw [hg] at hcm
    have hnP : ¬ P.p c := fun hp => hn (Or.inl hp)
    have hnv : c ∉ cs σ v := fun hm => hn (Or.inr (B1 v c hm))
    rcases N.res_back hc τr r h1 with r1 | ⟨d, hd, hr⟩
    · rcases N.res_back hc τt t h2 with r2 | ⟨d, hd, hr⟩
      · exact inv.chk c r t s hcm hnP τr τt r1 r2 d1 d2
      · exact hnv (inv.att c r t s hcm v d (by omega) (Or.inr hr))
    · exact hnv (inv.att c r t s hcm v d (by omega) (Or.inl hr))
  · intro c r t s hlt hcm
    rw [hcon] at hlt
    rw [hg] at hcm
    exact (inv.ful c r t s hlt hcm).mono N.ext
  · intro c r as hcm t ht
    rw [hg] at hcm
    exact hatt c t (inv.attE c r as hcm t ht)
  · intro c r as hcm hn
    rw [hg] at hcm
    have hnP : ¬ P.p c := fun hp => hn (Or.inl hp)
    have hnv : c ∉ cs σ v := fun hm => hn (Or.inr (B1 v c hm))
    obtain ⟨h2, hall⟩ := inv.chkE c r as hcm hnP
    refine ⟨h2, fun τr τs h1 hl d1 d2 => ?_⟩
    have hl' : ResL σm (r :: as) (τr :: τs) := resL_cons.mpr ⟨h1, hl⟩
    rcases N.resL_back hc (τr :: τs) (r :: as) hl' with h0 | ⟨a, d, hm, hd, hr⟩
    · rw [resL_cons] at h0
      exact hall τr τs h0.1 h0.2 d1 d2
    · have := depthL_cons_bound d1 d2
      exact absurd (inv.attE c r as hcm a hm v d (by omega) hr) hnv
  · intro c r a hlt hcm hn ρ hρ hgρ
    rw [hcon] at hlt
    rw [hg] at hcm
    exact inv.ful1 c r a hlt hcm hn ρ (hsat ρ hρ hgρ.2) hgρ.1

theorem StepR.of_newBind {L : Lang} {σ σm : Store} {v : Nat} {b : Term} (hc : Chains σ) (N : NewBind σ σm v b)
    (hcon : σm.constrs = σ.constrs) (B1 : ∀ u c, c ∈ cs σ u → c ∈ cs σm u)
    (B2 : ∀ u d, d < 64 → Reach σm b u d → ∀ c, c ∈ cs σ v → c ∈ cs σm u) : StepR L σ σm :=
  ⟨N.ext, Nat.le_of_eq (congrArg List.length hcon).symm,
   fun c r t s f _ h => ⟨f, by rw [getConstr_congr hcon]; exact h, fun e => e⟩,
   fun c r as f _ h => ⟨r, as, f, by rw [getConstr_congr hcon]; exact h, fun e => e, Same.refl _ _,
     fun a ha => ⟨a, ha, Same.refl _ _⟩⟩,
   fun u c _ _ hm _ => B1 u c hm,
   fun c t _ _ _ h => att_newBind hc N (fun u => B1 u c) (fun u d hd hr => B2 u d hd hr c) h⟩

/-- a step that keeps `followT`, the constraints and the constraint sets of the allocated variables -/
theorem StepR.of_same {L : Lang} {σ σ' : Store} (ok : OkStore L σ) (fe : FollowEq σ σ') (ex : Ext σ σ')
    (hcon : σ'.constrs = σ.constrs)
    (hcs : ∀ u c, u < σ.vars.length → c ∈ cs σ u → Unful σ' c → c ∈ cs σ' u) : StepR L σ σ' :=
  ⟨ex, Nat.le_of_eq (congrArg List.length hcon).symm,
   fun c r t s f _ h => ⟨f, by rw [getConstr_congr hcon]; exact h, fun e => e⟩,
   fun c r as f _ h => ⟨r, as, f, by rw [getConstr_congr hcon]; exact h, fun e => e, Same.refl _ _,
     fun a ha => ⟨a, ha, Same.refl _ _⟩⟩,
   fun u c hu _ hm hun => hcs u c hu hm hun,
   fun c t _ ht hun h => att_same ok fe (fun u hu hm => hcs u c hu hm hun) ht h⟩

end Tfv.C03R
