import Tfv.Proofs.VocabEdges
import Tfv.Proofs.GraphPlain
import Tfv.Proofs.CanonPlain
/-!
# The taxonomy read on types: `(uri t, rdfs:subClassOf, uri u)` for canonical `t`, `u`

Needs that the URIs tell canonical types apart (`UriInj`) and that no canonical type has the URI of a type operator of
arity `> 0` (`OpSep`); both are checked by `uriInjB` / `opSepB` on a concrete language.
-/
namespace Tfv.Voc
open Tfv Tfv.Tax

/-- canonical types with the same URI are equal -/
def UriInj (G : GLang) : Prop :=
  ∀ t ∈ G.canon, ∀ u ∈ G.canon, ∀ a, typeUri G t.toTerm = .ok a → typeUri G u.toTerm = .ok a → t = u

/-- no canonical type has the URI of a type operator of arity `> 0` -/
def OpSep (G : GLang) : Prop :=
  ∀ op, arityOf G.types op > 0 → ∀ t ∈ G.canon, typeUri G t.toTerm ≠ .ok (opUri G op)

/-- a direct link between canonical types: `u` is a reported direct supertype of `t`, or `t` a reported direct subtype of `u` -/
def DLink (G : GLang) (t u : Ty) : Prop := t ∈ G.canon ∧ u ∈ G.canon ∧ (GLink G true t u ∨ GLink G false u t)

theorem linkEdge_iff_dlink (G : GLang) (s o : Node) :
    LinkEdge G s o ↔ ∃ t u, DLink G t u ∧ typeUri G t.toTerm = .ok s ∧ typeUri G u.toTerm = .ok o := by
  constructor
  · rintro ⟨t, u, ht, hu, ha, hb, hl⟩; exact ⟨t, u, ⟨ht, hu, hl⟩, ha, hb⟩
  · rintro ⟨t, u, ⟨ht, hu, hl⟩, ha, hb⟩; exact ⟨t, u, ht, hu, ha, hb, hl⟩

theorem typeUri_generalize (G : GLang) (x : Term) : typeUri G x.generalize.toTerm = typeUri G x := by
  unfold typeUri
  rw [generalize_toTerm]

/-- a compound type with a URI is canonical -/
theorem compound_uri_canon {G : GLang} {op : Nat} {args : List Term} {m : Node} (ha : arityOf G.types op > 0)
    (h : typeUri G (.app op args) = .ok m) : (Term.app op args).generalize ∈ G.canon := by
  have hg : (Term.app op args).generalize = Ty.app op (Term.generalizeL args) := by rw [Term.generalize]
  unfold typeUri at h
  simp only [] at h
  rw [hg] at h ⊢
  simp only [] at h
  have h0 : (arityOf G.types op == 0) = false := by
    simp only [beq_eq_false_iff_ne, ne_eq]; omega
  rw [h0] at h
  simp only [Bool.false_and, Bool.false_eq_true, if_false] at h
  by_cases hm : memTy (Ty.app op (Term.generalizeL args)) G.canon = true
  · exact mem_of_memTy hm
  · rw [if_neg hm] at h; cases h

/-- a direct edge from the URI of a canonical type leads to a canonical type linked to it, or to an operator -/
theorem TaxResult.edge_from_canon {G : GLang} {c : GCfg} {cl : Bool} {g : GState} (_h : TaxResult G c cl g) (hi : UriInj G)
    {a b : Node} (he : DirectEdge G c g a b) {t : Ty} (ht : t ∈ G.canon) (hta : typeUri G t.toTerm = .ok a) :
    (∃ u, DLink G t u ∧ typeUri G u.toTerm = .ok b) ∨ (∃ op, arityOf G.types op > 0 ∧ b = opUri G op) := by
  rcases (directEdge_iff G c g a b).1 he with ⟨t', u, ht', hu, ha, hb, hl⟩ | ⟨_, op, _, _, ha, rfl⟩
  · have := hi t' ht' t ht a ha hta
    subst this
    exact .inl ⟨u, ⟨ht', hu, hl⟩, hb⟩
  · exact .inr ⟨op, ha, rfl⟩

/-- no direct edge leaves the URI of an operator of arity `> 0` -/
theorem TaxResult.no_edge_from_op {G : GLang} {c : GCfg} {cl : Bool} {g : GState} (h : TaxResult G c cl g) (hs : OpSep G)
    {op : Nat} (ha : arityOf G.types op > 0) {b : Node} (he : DirectEdge G c g (opUri G op) b) : False := by
  rcases (directEdge_iff G c g _ b).1 he with ⟨t', _, ht', _, hta, _⟩ | ⟨_, op', args, hl, ha', _⟩
  · exact hs op ha t' ht' hta
  · have hu : typeUri G (.app op' args) = .ok (opUri G op) := by
      rcases h.node _ _ hl with h0 | ⟨_, _, k, hk⟩
      · exact h0
      · exact absurd hk (by unfold opUri; split <;> simp)
    have hc := compound_uri_canon ha' hu
    exact hs op ha _ hc (by rw [typeUri_generalize]; exact hu)

/-- a path of direct edges between the URIs of canonical types is a path of direct links -/
theorem TaxResult.reach_types {G : GLang} {c : GCfg} {cl : Bool} {g : GState} (h : TaxResult G c cl g) (hi : UriInj G)
    (hs : OpSep G) {a b : Node} (hr : NReach (DirectEdge G c g) a b) :
    ∀ t, t ∈ G.canon → typeUri G t.toTerm = .ok a → ∀ u, u ∈ G.canon → typeUri G u.toTerm = .ok b → Reach (DLink G) t u := by
  induction hr with
  | refl _ =>
    intro t ht hta u hu hub
    rw [hi t ht u hu _ hta hub]; exact .refl _
  | step hab hrest ih =>
    intro t ht hta u hu hub
    rcases h.edge_from_canon hi hab ht hta with ⟨u1, hl, hu1⟩ | ⟨op, ha, rfl⟩
    · exact .step hl (ih u1 hl.2.1 hu1 u hu hub)
    · cases hrest with
      | refl _ => exact absurd hub (hs op ha u hu)
      | step hab' _ => exact (h.no_edge_from_op hs ha hab').elim

theorem dlink_edge {G : GLang} {c : GCfg} {g : GState} {t u : Ty} {a b : Node} (hl : DLink G t u)
    (ha : typeUri G t.toTerm = .ok a) (hb : typeUri G u.toTerm = .ok b) : DirectEdge G c g a b :=
  (directEdge_iff G c g a b).2 (.inl ⟨t, u, hl.1, hl.2.1, ha, hb, hl.2.2⟩)

theorem reach_nodes {G : GLang} {c : GCfg} {g : GState} {t u : Ty} (hr : Reach (DLink G) t u) :
    ∀ a b, typeUri G t.toTerm = .ok a → typeUri G u.toTerm = .ok b → NReach (DirectEdge G c g) a b := by
  induction hr with
  | refl _ =>
    intro a b ha hb
    rw [ha] at hb; cases hb; exact .refl _
  | step hl _ ih =>
    intro a b ha hb
    obtain ⟨m, hm⟩ := typeUri_canonical G _ ((memTy_iff _ _).2 hl.2.1)
    exact .step (dlink_edge hl ha hm) (ih m b hm hb)

/-- **without closure, on types**: the triple is there iff the types are directly linked -/
theorem TaxResult.types_direct {G : GLang} {c : GCfg} {g : GState} (h : TaxResult G c false g) (hi : UriInj G) (hs : OpSep G)
    {t u : Ty} (ht : t ∈ G.canon) (hu : u ∈ G.canon) {a b : Node} (ha : typeUri G t.toTerm = .ok a)
    (hb : typeUri G u.toTerm = .ok b) : (a, subClassOf, b) ∈ g.triples ↔ DLink G t u := by
  rw [h.sub_iff_direct, ← directEdge_iff]
  constructor
  · intro he
    rcases h.edge_from_canon hi he ht ha with ⟨u1, hl, hu1⟩ | ⟨op, hop, rfl⟩
    · rw [hi u hu u1 hl.2.1 _ hb hu1]; exact hl
    · exact absurd hb (hs op hop u hu)
  · intro hl; exact dlink_edge hl ha hb

/-- **with closure, on types**: the triple is there iff `u` is reachable from `t` over direct links in `≥ 0` steps -/
theorem TaxResult.types_closure {G : GLang} {c : GCfg} {g : GState} (h : TaxResult G c true g) (hi : UriInj G) (hs : OpSep G)
    {t u : Ty} (ht : t ∈ G.canon) (hu : u ∈ G.canon) {a b : Node} (ha : typeUri G t.toTerm = .ok a)
    (hb : typeUri G u.toTerm = .ok b) : (a, subClassOf, b) ∈ g.triples ↔ Reach (DLink G) t u := by
  rw [h.sub_iff_closure]
  constructor
  · rintro (he | ⟨_, hr⟩)
    · exact h.reach_types hi hs (.one he) t ht ha u hu hb
    · exact h.reach_types hi hs hr t ht ha u hu hb
  · intro hr
    exact .inr ⟨⟨u, hu, hb⟩, reach_nodes hr a b ha hb⟩

/-! ## plain closed canon: links mirror each other, reachability is the subtype order -/

theorem reach_flip {R : Ty → Ty → Prop} {a b : Ty} (h : Reach R a b) : Reach (fun x y => R y x) b a := by
  induction h with
  | refl _ => exact .refl _
  | step hab _ ih => exact reach_trans ih (reach_one hab)

theorem _root_.Tfv.PlainCanon.dlink_iff {G : GLang} {listed : List Ty} (p : PlainCanon G listed) {t u : Ty} :
    DLink G t u ↔ (t ∈ G.canon ∧ u ∈ G.canon ∧ GLink G true t u) := by
  have hm : ∀ t u, t ∈ G.canon → u ∈ G.canon → (GLink G false u t ↔ GLink G true t u) := by
    intro t u ht hu
    have := mirror_plain p.wf p.noTop p.noBot p.listedOk p.term (G.canon.length + 1) (G.canon.length + 1)
      (s := t) (t := u) (by rw [← p.canonEq]; exact ht) (by rw [← p.canonEq]; exact hu)
    rw [← p.canonEq] at this
    exact this
  constructor
  · rintro ⟨ht, hu, hl | hl⟩
    · exact ⟨ht, hu, hl⟩
    · exact ⟨ht, hu, (hm t u ht hu).1 hl⟩
  · rintro ⟨ht, hu, hl⟩; exact ⟨ht, hu, .inl hl⟩

theorem _root_.Tfv.PlainCanon.dlink_iff_down {G : GLang} {listed : List Ty} (p : PlainCanon G listed) {t u : Ty} :
    DLink G t u ↔ (t ∈ G.canon ∧ u ∈ G.canon ∧ GLink G false u t) := by
  constructor
  · rintro ⟨ht, hu, hl | hl⟩
    · have := mirror_plain p.wf p.noTop p.noBot p.listedOk p.term (G.canon.length + 1) (G.canon.length + 1)
        (s := t) (t := u) (by rw [← p.canonEq]; exact ht) (by rw [← p.canonEq]; exact hu)
      rw [← p.canonEq] at this
      exact ⟨ht, hu, this.2 hl⟩
    · exact ⟨ht, hu, hl⟩
  · rintro ⟨ht, hu, hl⟩; exact ⟨ht, hu, .inr hl⟩

/-- over a plain closed canon, reachability over direct links is the subtype order -/
theorem _root_.Tfv.PlainCanon.reach_dlink_iff {G : GLang} {listed : List Ty} (p : PlainCanon G listed) {t u : Ty}
    (ht : t ∈ G.canon) (hu : u ∈ G.canon) : Reach (DLink G) t u ↔ Sub G.types t u := by
  have key := reach_iff_plain p.wf p.noTop p.noBot p.listedOk p.term (G.canon.length + 1)
    (s := t) (t := u) (by rw [← p.canonEq]; exact ht) (by rw [← p.canonEq]; exact hu)
  rw [← p.canonEq] at key
  rw [← key]
  constructor
  · intro hr
    have := reach_flip hr
    exact reach_mono (fun a b hab => (p.dlink_iff_down.1 hab).2.2) this
  · intro hr
    -- every type on a path of subtype links from the canonical `u` is canonical
    have hall : ∀ {x y : Ty}, Reach (Link G.types G.cfg G.canon (G.canon.length + 1 + 1) false) x y → x ∈ G.canon →
        Reach (fun a b => DLink G b a) x y := by
      intro x y hxy
      induction hxy with
      | refl _ => intro _; exact .refl _
      | step hab _ ih =>
        intro hx
        have hb := glink_canon (G := G) (up := false) hab
        exact .step (p.dlink_iff_down.2 ⟨hb, hx, hab⟩) (ih hb)
    have := reach_flip (hall hr hu)
    exact this

/-- without closure, over a plain closed canon: the triple is there iff `u` is a reported direct supertype of `t` -/
theorem TaxResult.types_direct_plain {G : GLang} {c : GCfg} {g : GState} (h : TaxResult G c false g) {listed : List Ty}
    (p : PlainCanon G listed) (hi : UriInj G) (hs : OpSep G) {t u : Ty} (ht : t ∈ G.canon) (hu : u ∈ G.canon) {a b : Node}
    (ha : typeUri G t.toTerm = .ok a) (hb : typeUri G u.toTerm = .ok b) :
    (a, subClassOf, b) ∈ g.triples ↔ u ∈ langSucc G.types G.cfg G.canon (G.canon.length + 2) true t false :=
  (h.types_direct hi hs ht hu ha hb).trans (p.dlink_iff.trans ⟨fun h => h.2.2, fun h => ⟨ht, hu, h⟩⟩)

/-- with closure, over a plain closed canon: the triple is there iff `t` is a subtype of `u` -/
theorem TaxResult.types_closure_plain {G : GLang} {c : GCfg} {g : GState} (h : TaxResult G c true g) {listed : List Ty}
    (p : PlainCanon G listed) (hi : UriInj G) (hs : OpSep G) {t u : Ty} (ht : t ∈ G.canon) (hu : u ∈ G.canon) {a b : Node}
    (ha : typeUri G t.toTerm = .ok a) (hb : typeUri G u.toTerm = .ok b) :
    (a, subClassOf, b) ∈ g.triples ↔ Sub G.types t u :=
  (h.types_closure hi hs ht hu ha hb).trans (p.reach_dlink_iff ht hu)

end Tfv.Voc
