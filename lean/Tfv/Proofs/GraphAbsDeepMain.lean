import Tfv.Proofs.GraphAbsDeepStepData
import Tfv.Proofs.GraphAbsDeepStepFun
/-!
# C08 on expanded composite operators at any depth: the induction, and the theorem on the graph
-/
namespace Tfv.C08P
open Tfv

/-- the induction hypothesis for one expression: if the core run succeeds, the layout describes it -/
def ArgIHA (b : AExpr) : Prop :=
  ∀ (k : Core) (ps : Params) (x : Nat) (k' : Core) (ps' : Params) (m : Nat), GCtxA x k ps → NoInt k ps →
    addExprAC k ps b (some x) = some (k', ps', m) →
    SPostA x k ps (flowHA k.nextB k.src ps b x) k' ps' m

/-- for an abstraction, what the receiving step needs is the hypothesis for the body -/
def ArgIHB (b : AExpr) : Prop := ∀ qs body t, b = .lam qs body t → ArgIHA body

theorem argStepAC_nonlam (n : Nat) (s : Core × Params) (x : AExpr) (hx : AExpr.isLam x = false) :
    argStepAC n s x =
      match addExprAC (mkInternal s.1.fresh.1 n x.ty.isFunction).1 s.2 x (some s.1.nextB) with
      | none => none
      | some (ka, pa, xnode) => some (wire ka n xnode (mkInternal s.1.fresh.1 n x.ty.isFunction).2, pa) := by
  cases x with
  | lam qs b t => cases hx
  | src id l t => rfl
  | op name t => rfl
  | pvar id t => rfl
  | app f' x' t => rfl

theorem haStep_nonlam (st : HaArgs) (x : AExpr) (hx : AExpr.isLam x = false) :
    haStep st x =
      if x.ty.isFunction then pushArg st (flowHA (st.next + 2) st.memo st.params x st.next) (some (st.next + 1)) true
      else pushArg st (flowHA (st.next + 1) st.memo st.params x st.next) none false := by
  cases x with
  | lam qs b t => cases hx
  | src id l t => rfl
  | op name t => rfl
  | pvar id t => rfl
  | app f' x' t => rfl

theorem tabNode_append_const (memo ps : List (Nat × Nat)) (qs : List Nat) (i t : Nat)
    (h : TabNode memo (ps ++ qs.map (fun q => (q, i))) t) : TabNode memo ps t ∨ t = i := by
  rcases h with h | ⟨s, hs, h⟩
  · exact Or.inl (Or.inl h)
  · rw [List.mem_append, List.mem_map] at hs
    rcases hs with hs | ⟨q, _, rfl⟩
    · exact Or.inl (Or.inr ⟨s, hs, h⟩)
    · exact Or.inr h.symm

theorem tabNode_append_left (memo ps l : List (Nat × Nat)) (t : Nat) (h : TabNode memo ps t) :
    TabNode memo (ps ++ l) t := by
  rcases h with h | ⟨s, hs, h⟩
  · exact Or.inl h
  · exact Or.inr ⟨s, List.mem_append_left _ hs, h⟩

/-- one argument more -/
theorem sInvA_argStep {n : Nat} {k0 k : Core} {ps0 ps : Params} {st : HaArgs} (hctx : GCtxA n k0 ps0)
    (inv : SInvA n k0 ps0 k ps st) (a : AExpr) (ih : ArgIHA a) (ihb : ArgIHB a) (k' : Core) (ps' : Params)
    (h : argStepAC n (k, ps) a = some (k', ps')) : SInvA n k0 ps0 k' ps' (haStep st a) := by
  have hkn : k.nextB = st.next := inv.next_eq
  have e2 : k.src = st.memo := inv.src_eq
  have e4 : ps = st.params := inv.par_eq
  cases hx : AExpr.isLam a with
  | true =>
    cases a with
    | lam qs body t =>
      simp only [argStepAC] at h
      cases ht : t.isFunction with
      | false => rw [ht] at h; simp at h
      | true =>
        rw [ht] at h
        simp only [if_true] at h
        cases hb : addExprAC (funCore2 k n) (ps ++ qs.map (fun q => (q, k.nextB + 1))) body (some k.nextB) with
        | none => rw [hb] at h; cases h
        | some rb =>
          obtain ⟨kb, pb, bnode⟩ := rb
          rw [hb] at h
          simp only [Option.some.injEq, Prod.mk.injEq] at h
          obtain ⟨rfl, rfl⟩ := h
          have hps1b : ∀ t, TabNode k.src (ps ++ qs.map (fun q => (q, k.nextB + 1))) t →
              TabNode k.src ps t ∨ t = st.next + 1 := by
            intro t ht'
            rw [← hkn]
            exact tabNode_append_const _ _ _ _ _ ht'
          obtain ⟨c1, c2⟩ := sInvA_ctx_fun hctx inv _ hps1b
          have post := ihb qs body t rfl (funCore2 k n) _ st.next kb pb bnode c1 c2 (by rw [← hkn]; exact hb)
          have hstep := sInvA_step_fun hctx inv false _ (fun t ht' => tabNode_append_left _ _ _ _ ht') hps1b _ kb pb bnode
            post
          have e5 : (funCore2 k n).nextB = st.next + 2 := by show k.nextB + 2 = _; rw [hkn]
          have e6 : (funCore2 k n).src = st.memo := e2
          rw [e5, e6, e4, hkn] at hstep
          rw [hkn]
          exact hstep
    | src id l t => cases hx
    | op name t => cases hx
    | pvar id t => cases hx
    | app f' x' t => cases hx
  | false =>
    rw [argStepAC_nonlam n (k, ps) a hx] at h
    rw [haStep_nonlam st a hx]
    simp only [] at h
    cases hfun : a.ty.isFunction with
    | false =>
      rw [hfun] at h
      simp only [Bool.false_eq_true, if_false]
      have hmk : mkInternal k.fresh.1 n false = (k.fresh.1, none) := rfl
      rw [hmk] at h
      simp only [] at h
      cases hb : addExprAC k.fresh.1 ps a (some k.nextB) with
      | none => rw [hb] at h; cases h
      | some rb =>
        obtain ⟨ka, pa, xnode⟩ := rb
        rw [hb] at h
        simp only [Option.some.injEq, Prod.mk.injEq] at h
        obtain ⟨rfl, rfl⟩ := h
        obtain ⟨c1, c2⟩ := sInvA_ctx_data hctx inv
        have post := ih k.fresh.1 ps st.next ka pa xnode c1 c2 (by rw [← hkn]; exact hb)
        have hstep := sInvA_step_data hctx inv _ ka pa xnode post
        have e5 : k.fresh.1.nextB = st.next + 1 := by show k.nextB + 1 = _; rw [hkn]
        have e6 : k.fresh.1.src = st.memo := e2
        rw [e5, e6, e4] at hstep
        exact hstep
    | true =>
      rw [hfun] at h
      simp only [if_true]
      rw [mkInternal_true] at h
      simp only [] at h
      cases hb : addExprAC (funCore2 k n) ps a (some k.nextB) with
      | none => rw [hb] at h; cases h
      | some rb =>
        obtain ⟨ka, pa, xnode⟩ := rb
        rw [hb] at h
        simp only [Option.some.injEq, Prod.mk.injEq] at h
        obtain ⟨rfl, rfl⟩ := h
        obtain ⟨c1, c2⟩ := sInvA_ctx_fun hctx inv ps (fun t ht' => Or.inl ht')
        have post := ih (funCore2 k n) ps st.next ka pa xnode c1 c2 (by rw [← hkn]; exact hb)
        have hstep := sInvA_step_fun hctx inv true ps (fun t ht' => ht') (fun t ht' => Or.inl ht') _ ka pa xnode post
        have e5 : (funCore2 k n).nextB = st.next + 2 := by show k.nextB + 2 = _; rw [hkn]
        have e6 : (funCore2 k n).src = st.memo := e2
        rw [e5, e6, e4] at hstep
        rw [hkn]
        exact hstep

/-- all arguments -/
theorem sInvA_all {n : Nat} {k0 : Core} {ps0 : Params} (hctx : GCtxA n k0 ps0) (hs : NoInt k0 ps0) :
    ∀ (l : List AExpr), (∀ a ∈ l, ArgIHA a ∧ ArgIHB a) → ∀ (k' : Core) (ps' : Params),
      foldArgs n l (k0, ps0) = some (k', ps') →
      SInvA n k0 ps0 k' ps' (l.foldl haStep { next := k0.nextB, memo := k0.src, params := ps0, rs := [] }) := by
  intro l
  induction l using snoc_induction with
  | nil =>
    intro _ k' ps' h
    simp only [foldArgs, Option.some.injEq, Prod.mk.injEq] at h
    obtain ⟨rfl, rfl⟩ := h
    exact sInvA_init hs
  | snoc l a ih =>
    intro h1 k' ps' h
    rw [foldArgs_snoc] at h
    cases hl : foldArgs n l (k0, ps0) with
    | none => rw [hl] at h; cases h
    | some s1 =>
      obtain ⟨k1, p1⟩ := s1
      rw [hl] at h
      simp only [] at h
      have inv := ih (fun b hb => h1 b (List.mem_append_left _ hb)) k1 p1 hl
      rw [List.foldl_append]
      simp only [List.foldl_cons, List.foldl_nil]
      exact sInvA_argStep hctx inv a (h1 a (by simp)).1 (h1 a (by simp)).2 k' ps' h

theorem noInt_src_snoc {k : Core} {ps : Params} {x id : Nat} (hctx : GCtxA x k ps) (hni : NoInt k ps) :
    NoInt { k with src := k.src ++ [(id, x)] } ps := by
  intro p hp t ht
  rcases ht with ⟨s, hs, h⟩ | h
  · have hs' : s ∈ k.src ++ [(id, x)] := hs
    rw [List.mem_append, List.mem_singleton] at hs'
    rcases hs' with hs' | rfl
    · exact hni p hp t (Or.inl ⟨s, hs', h⟩)
    · rw [← h]; exact (hctx.ints p hp).2
  · exact hni p hp t (Or.inr h)

/-- the layout describes the core run, for every expression of the class -/
theorem addExprAC_flowHA {e : AExpr} (hof : HofA e) : ArgIHA e ∧ ArgIHB e := by
  induction hof with
  | src id l ty =>
    refine ⟨?_, fun _ _ _ h => by cases h⟩
    intro k ps x k' ps' m hctx hni h
    rw [addExprAC] at h
    rw [flowHA_src]
    cases hfind : List.find? (fun p => p.fst == id) k.src with
    | some p =>
      have hp := List.mem_of_find?_eq_some hfind
      rw [hfind] at h
      simp only [Option.some.injEq, Prod.mk.injEq] at h
      obtain ⟨rfl, rfl, rfl⟩ := h
      exact ⟨rfl, rfl, rfl, rfl, rfl, by simp, by simp, Nat.le_refl _, fun t ht => ht, fun t ht => Or.inl ht,
        Or.inr (Or.inl ⟨p, hp, rfl⟩), by simp, by simp, by simp, hni⟩
    | none =>
      rw [hfind] at h
      simp only [cur_some, Option.some.injEq, Prod.mk.injEq] at h
      obtain ⟨rfl, rfl, rfl⟩ := h
      have := hctx.x_lt
      refine ⟨rfl, rfl, rfl, rfl, rfl, by simp, by simp, Nat.le_refl _, ?_, ?_,
        Or.inl rfl, by simp, by simp, by simp, noInt_src_snoc hctx hni⟩
      · rintro t (⟨s, hs, h⟩ | h)
        · exact Or.inl ⟨s, List.mem_append_left _ hs, h⟩
        · exact Or.inr h
      · rintro t (⟨s, hs, h⟩ | h)
        · rw [List.mem_append, List.mem_singleton] at hs
          rcases hs with hs | rfl
          · exact Or.inl (Or.inl ⟨s, hs, h⟩)
          · exact Or.inr (Or.inl h.symm)
        · exact Or.inl (Or.inr h)
  | pvar id ty =>
    refine ⟨?_, fun _ _ _ h => by cases h⟩
    intro k ps x k' ps' m hctx hni h
    rw [addExprAC] at h
    rw [flowHA_pvar]
    cases hfind : List.find? (fun p => p.fst == id) ps with
    | some p =>
      have hp := List.mem_of_find?_eq_some hfind
      rw [hfind] at h
      simp only [Option.some.injEq, Prod.mk.injEq] at h
      obtain ⟨rfl, rfl, rfl⟩ := h
      exact ⟨rfl, rfl, rfl, rfl, rfl, by simp, by simp, Nat.le_refl _, fun t ht => ht, fun t ht => Or.inl ht,
        Or.inr (Or.inr ⟨p, hp, rfl⟩), by simp, by simp, by simp, hni⟩
    | none =>
      rw [hfind] at h
      cases h
  | lam qs body ty _ ih =>
    refine ⟨?_, ?_⟩
    · intro k ps x k' ps' m _ _ h
      rw [addExprAC] at h
      cases h
    · intro qs' body' t' h
      cases h
      exact ih.1
  | spine e name ty hh _ ih =>
    refine ⟨?_, ?_⟩
    · intro k ps x k' ps' m hctx hni h
      rw [addExprAC_spine e name ty k ps (some x) hh] at h
      rw [flowHA_spine _ _ _ e x name ty hh]
      simp only [cur_some] at h
      cases hfold : foldArgs x (argsOfA e) (k, ps) with
      | none => rw [hfold] at h; cases h
      | some s1 =>
        obtain ⟨k1, p1⟩ := s1
        rw [hfold] at h
        simp only [Option.some.injEq, Prod.mk.injEq] at h
        obtain ⟨rfl, rfl, rfl⟩ := h
        have inv := sInvA_all hctx hni (argsOfA e) ih k1 p1 hfold
        generalize List.foldl haStep { next := k.nextB, memo := k.src, params := ps, rs := [] } (argsOfA e) = st at inv ⊢
        have hx := hctx.x_lt
        have hle := inv.le
        refine ⟨rfl, inv.next_eq, inv.src_eq, inv.par_eq, inv.shared_eq, inv.ints_eq, ?_, hle, inv.tab_mono, ?_,
          Or.inl rfl, ?_, ?_, inv.ints_nodup, inv.noint⟩
        · intro p
          rw [inv.frm_iff p, mem_spineEdgesA]
        · intro t ht
          rcases inv.tab_rng t ht with h | h
          · exact Or.inl h
          · exact Or.inr (Or.inr h)
        · intro p hp
          show (x ≤ p.1 ∨ TabNode st.memo st.params p.1) ∧ p.1 < st.next ∧ p.2 < st.next
          rcases (mem_spineEdgesA _ _ _).1 hp with ⟨q, hq, h⟩ | ⟨a, ha, h⟩ | ⟨a, ha, l, hl, _, h⟩ |
            ⟨a, ha, b, hb, l, hl, _, h⟩ | ⟨q, hq, l, μ, hl, hm, h⟩
          · have := inv.edges_rng q hq p h
            refine ⟨?_, this.2.1, this.2.2⟩
            rcases this.1 with h' | h'
            · exact Or.inl (by omega)
            · exact Or.inr h'
          · rw [h]
            exact ⟨Or.inl (Nat.le_refl _), by show x < _; omega, (inv.node_lt a ha).1⟩
          · have := inv.lam_rng a ha l hl
            rw [h]
            refine ⟨?_, (inv.node_lt a ha).1, this.2⟩
            rcases inv.node_rng a ha with h'' | h''
            · exact Or.inl (by show x ≤ a.node; omega)
            · exact Or.inr h''
          · have := inv.lam_rng a ha l hl
            rw [h]
            exact ⟨Or.inl (by show x ≤ l; omega), this.2, (inv.node_lt b hb).1⟩
          · have h1 := inv.ints_rng q hq _ hm
            have h2 := inv.lam_rng q hq l hl
            rw [h]
            exact ⟨Or.inl (by show x ≤ μ; omega), h1.2.2.2, h2.2⟩
        · intro q hq
          show x ≤ q.1 ∧ q.1 < st.next ∧ k.nextB ≤ q.2 ∧ q.2 < st.next
          rcases (mem_spineIntsA x st.rs q).1 hq with ⟨a, ha, h1, h2⟩ | ⟨a, ha, h⟩
          · have := inv.lam_rng a ha _ h1
            exact ⟨by omega, by omega, this.1, this.2⟩
          · have := inv.ints_rng a ha q h
            exact ⟨by omega, this.2.1, this.2.2.1, this.2.2.2⟩
    · intro qs body t h
      subst h
      cases hh

end Tfv.C08P
