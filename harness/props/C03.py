"""C03 - every accepted polymorphic application has a witnessing instantiation."""
from __future__ import annotations
import langgen as G
import infer as I
from refsub import ref_sub

RULE = ("schemas as data: 1-3 variables, 1-3 parameters (variables, nested compound, function-typed, products, wildcards), "
        "0-3 subtype / elimination constraints (alternatives: concrete, F(b), G(b,_), G(_,b), nested); argument sequences mostly "
        "instances of the parameters under a random assignment walked down the hierarchy (8% wrong on purpose), some unrelated, "
        "some with wildcards, some over-applied; the re-check order is creation order on both sides (hook); "
        "non-trivial = at least one application step was reached and the schema has a variable in a parameter; distinct by (language, schema, args)")
ASSUMPTIONS = ["constraint alternatives are given as lists (ordered)", "re-check order fixed to creation order via the TRANSFORGE_VERIF hook"]
INVARIANTS = True   # runner.run_invariants: hypotheses of the engine theorems evaluated on the model's runs of this check's infer lines
TRUSTED = ["harness/infer.py: rendering of schema ASTs to Python lambdas and canonical rendering of results",
           "harness/refsub.py (oracle)"]


def run(ctx, kinds=("sub", "elim"), p_constraints=0.6, nlang=None, ncase=None, prop="C03"):
    rng = ctx.rng
    nlang = nlang or (8 if ctx.tier == "quick" else 60)
    ncase = ncase or (160 if ctx.tier == "quick" else 1200)
    for li in range(nlang):
        spec = G.gen_lang(rng, max_base=7, max_ops=3, max_arity=2)
        ops = spec.build()
        ctx.setup(spec.sexp(), "ok T")
        for k in range(ncase):
            s = I.gen_schema(rng, spec, p_constraints=p_constraints, kinds=kinds)
            args = I.gen_args(rng, spec, s)
            one_case(ctx, spec, ops, s, args, li)
        stress_cases(ctx, li, spec, ops, ncase // 2)
        depth_cases(ctx, li, spec, ops)
        if "sub" in kinds or "elim" in kinds:
            interplay_cases(ctx, li, spec, ops, ncase // 2)


def depth_cases(ctx, li, spec, ops):
    """constraints between deeply nested terms, `x ** x [c^n(x) <= c^n(A)]` and `x ** x [x << {c^n(A), c^n(B)}]` for n = 8, 24, 48: the model's
    comparisons run on fuel `4*vars + 64` (C03r_deep_constraint_unchecked, C16s_history_independent_fails: beyond that depth the model
    gives up where the Python code keeps recursing), so agreement is claimed - and checked here - only below it"""
    rng = ctx.rng
    unary = [c for c in spec.compounds(builtin=False) if spec.arity(c) == 1]
    bases = spec.bases()
    if not unary or not bases:
        return
    x = ('v', 0)
    for n in (8, 24, 48):
        c = rng.choice(unary)
        a = (rng.choice(bases), ())
        b = (rng.choice(bases), ())

        def deep(t):
            for _ in range(n):
                t = (c, (t,))
            return t
        for cs in ([('sub', deep(x), deep(a), False)], [('elim', x, [deep(a), deep(b)])]):
            s = {"nvars": 1, "nwild": 0, "body": (G.FUN, (x, x)), "constraints": cs}
            for arg in ((G.UNIT, ()), a, b, deep(b)):
                one_case(ctx, spec, ops, s, [(0, arg)], li)
                ctx.count("depth_cases")


def stress_cases(ctx, li, spec, ops, n):
    """two-sided bounds and variable-to-variable binds: one or two variables in co-, contra- and mixed-variance contexts
    (x, F(x), A ** x, x ** A, x ** x, x ** y), arguments from one chain of the hierarchy with wildcards and Top/Bottom mixed in"""
    rng = ctx.rng
    chains = []
    for b in spec.bases():
        if not spec.descendants(b):
            chains.append([b] + spec.ancestors(b))
    chains = [c for c in chains if len(c) >= 2] or chains
    if not chains:
        return
    x, y = ('v', 0), ('v', 1)
    comps = spec.compounds(builtin=False)
    for _ in range(n):
        ch = rng.choice(chains)
        other = [b for b in spec.bases() if b not in ch]
        k = (rng.choice(other), ()) if other and rng.random() < 0.5 else (rng.choice(ch), ())
        nv = 1 if rng.random() < 0.6 else 2
        vs = [x, y][:nv]

        def ctxs(v):
            out = [v, (G.FUN, (k, v)), (G.FUN, (v, k)), (G.FUN, (v, v))]
            for c in comps:
                out.append((c, tuple(v if j == 0 else k for j in range(spec.arity(c)))))
            if nv == 2:
                w = y if v == x else x
                out += [(G.FUN, (v, w)), (G.FUN, (w, v))]
            return out
        params = [rng.choice(ctxs(rng.choice(vs))) for _ in range(rng.randint(2, 4))]
        res = rng.choice(vs + [(G.UNIT, ())])
        body = res
        for p in reversed(params):
            body = (G.FUN, (p, body))
        s = {"nvars": nv, "nwild": 0, "body": body, "constraints": []}
        args = []
        for p in params:
            counter = [0]

            def inst(t):
                if I.is_var(t):
                    r = rng.random()
                    if r < 0.22:
                        counter[0] += 1
                        return ('v', counter[0] - 1)          # a wildcard of the argument
                    if r < 0.3:
                        return (rng.choice([G.TOP, G.BOT]), ())
                    return (rng.choice(ch), ())
                return (t[0], tuple(inst(a) for a in t[1]))
            a = inst(p)
            if I.is_var(a):
                a = (rng.choice(ch), ())
                counter[0] = 0
            args.append((counter[0], a))
        one_case(ctx, spec, ops, s, args, li)
        ctx.count("stress_cases")


def interplay_cases(ctx, li, spec, ops, n):
    """bounded variables meeting other variables while constraints over both are pending: a constraint that bounds a variable at
    once (`x << [A]`, `x <= A`) next to structural subtype / elimination constraints tying it to another variable or a wildcard
    (`F(x) <= y`, `F(x) <= F(_)`, `x <= y`, `y << [F(x), A]`), in every order of creation"""
    import itertools
    rng = ctx.rng
    bases = spec.bases()
    comps = spec.compounds(builtin=False)
    if not bases or not comps:
        return
    x, y = ('v', 0), ('v', 1)
    for _ in range(n):
        c = rng.choice(comps)
        a, b = (rng.choice(bases), ()), (rng.choice(bases), ())

        def F(t):
            return (c, tuple(t if j == 0 else a for j in range(spec.arity(c))))
        wild = [0]

        def W():
            wild[0] += 1
            return ('w', None)
        bounders = [('elim', x, [a]), ('sub', x, a, False), ('elim', x, [a, b]), ('sub', a, x, False)]
        ties = [('sub', F(x), y, False), ('sub', F(x), F(W()), False), ('sub', x, y, False), ('sub', y, x, False),
                ('elim', y, [F(x), b]), ('sub', F(y), F(x), False), ('elim', y, [x])]
        cs = [rng.choice(bounders)] + rng.sample(ties, rng.randint(1, 2))
        rng.shuffle(cs)
        body = rng.choice([(G.FUN, (x, y)), (G.FUN, (x, x)), (G.FUN, (y, x)), (G.FUN, (x, (G.FUN, (y, F(x)))))])
        counter = [0]
        body2 = I.number_wildcards(body, 2, counter)
        cs2 = []
        for cst in cs:
            if cst[0] == 'sub':
                cs2.append(('sub', I.number_wildcards(cst[1], 2, counter), I.number_wildcards(cst[2], 2, counter), cst[3]))
            else:
                cs2.append(('elim', I.number_wildcards(cst[1], 2, counter), [I.number_wildcards(t, 2, counter) for t in cst[2]]))
        s = {"nvars": 2, "nwild": counter[0], "body": body2, "constraints": cs2}
        args = I.gen_args(rng, spec, s, p_valid=0.8)
        one_case(ctx, spec, ops, s, args, li)
        ctx.count("interplay_cases")


def one_case(ctx, spec, ops, s, args, li=0):
    with Recorder() as rec:
        obs, results, err = I.run_chain(s, args, spec, ops)
    steps = obs.count("|") + 1
    ctx.case(I.infer_line(s, args), obs,
        {"lang": spec.to_json(), "schema": I.schema_src(s, spec), "args": [I.term_sexp(a[1]) for a in args]},
        nontrivial=steps >= 2, key=(li, I.schema_sexp(s), tuple(I.arg_sexp(a) for a in args)))
    last = obs.split(" | ")[-1]
    ctx.count("outcome_" + (last.split(":")[1] if last.startswith("E@") else "ok"))
    ctx.count(f"constraints_{len(s['constraints'])}")
    replay = {"lang": spec.to_json(), "schema": s, "args": args}
    for ev in rec.events:
        ctx.fail(ev, {"check": "bounded-var-compound"}, replay)
    if err is None and results:
        bad = witness_check(spec, ops, s, args, results, rec)
        if bad:
            ctx.fail(f"{I.schema_src(s, spec)} applied to {[I.term_sexp(a[1]) for a in args]}: {bad}", {"check": bad.split(':')[0]}, replay)
    return obs


class Recorder:
    """instrumentation from outside: records created constraints with their original alternatives,
    the argument objects, and binds of a bounded variable to a compound type"""
    def __enter__(self):
        from transforge import type as T
        I.install_order_hook()
        self.T = T
        self.events = []
        self.constraints = []
        self.args = []
        rec = self
        self._init = T.Constraint.__init__
        self._bind = T.TypeVariable.bind
        self._apply = T.Type.apply

        def init(c):
            rec.constraints.append(c)
            c._verif_ref0 = c.reference
            c._verif_alts0 = list(getattr(c, "alternatives", []))
            rec._init(c)

        def bind(v, t):
            if (v.lower or v.upper) and isinstance(t, T.TypeOperation) and not t.basic:
                try:
                    rec._bind(v, t)
                except T.TypingError:
                    raise
                rec.events.append(f"variable with bounds [{v.lower}, {v.upper}] was bound to compound type {t}")
                return
            rec._bind(v, t)

        def apply(f, arg, fix=True):
            a = arg.instance().follow()
            rec.args.append((f.instance().follow(), a))
            return rec._apply(f, a, fix)
        init._verif = True
        T.Constraint.__init__ = init
        T.TypeVariable.bind = bind
        T.Type.apply = apply
        return self

    def __exit__(self, *a):
        self.T.Constraint.__init__ = self._init
        self.T.TypeVariable.bind = self._bind
        self.T.Type.apply = self._apply


def corners(vars_, spec, ops):
    """instantiations of the unresolved variables: every corner of the reported bounds
    (a variable without a bound on one side takes Bottom / Top there)"""
    import itertools
    choices = []
    for v in vars_:
        lo = (I.op_index(v.lower, ops), ()) if v.lower else (G.BOT, ())
        hi = (I.op_index(v.upper, ops), ()) if v.upper else (G.TOP, ())
        c = [lo, hi]
        if not v.lower and not v.upper:
            c.append((G.UNIT, ()))
        choices.append(c)
    for combo in itertools.islice(itertools.product(*choices), 32):
        yield {id(v): t for v, t in zip(vars_, combo)}


def inst(t, rho, ops):
    from transforge import type as T
    t = t.follow()
    if isinstance(t, T.TypeVariable):
        return rho[id(t)]
    return (I.op_index(t.operator, ops), tuple(inst(p, rho, ops) for p in t.params))


def all_vars(ts):
    from transforge import type as T
    out = []

    def go(t):
        t = t.follow()
        if isinstance(t, T.TypeVariable):
            if not any(t is x for x in out):
                out.append(t)
        else:
            for p in t.params:
                go(p)
    for t in ts:
        go(t)
    return out


def fits(spec, ops, ref, alt):
    """concrete ref (data) fits alternative (Python type, may contain variables)"""
    from transforge import type as T
    alt = alt.follow()
    if isinstance(alt, T.TypeVariable):
        # an unresolved variable as (part of) an alternative: the reference fits when SOME type within the variable's bounds is above it;
        # a lower bound never prevents that (Top is above everything), an upper bound must itself be above the reference
        if alt.upper:
            hi = (I.op_index(alt.upper, ops), ())
            return ref_sub(spec, ref, hi)
        return True
    ao = I.op_index(alt.operator, ops)
    if ref[0] == G.BOT or ao == G.TOP:
        return True
    if not alt.params:
        return not ref[1] and ref_sub(spec, ref, (ao, ()))
    if ref[0] != ao:
        return False
    for v, r, a in zip(spec.variance(ao), ref[1], alt.params):
        if v:
            if not fits(spec, ops, r, a):
                return False
        else:
            # contravariant: alt's parameter must be below ref's; only decided when it is concrete
            if not all_vars([a]):
                if not ref_sub(spec, inst(a, {}, ops), r):
                    return False
    return True


def witness_check(spec, ops, s, args, results, rec):
    """the statement of C03 on the implementation's own final state"""
    # parameter/argument pairs as recorded at apply time (objects are mutated by later steps: read them now)
    pairs = []
    for f, a in rec.args:
        f = f.follow()
        if getattr(f, "operator", None) is ops[G.FUN]:
            pairs.append((f.params[0], a, f.params[1]))
    terms = [p for p, a, r in pairs] + [a for p, a, r in pairs] + [results[-1]]
    cons = rec.constraints
    vars_ = all_vars(terms)
    for rho in corners(vars_, spec, ops):
        # variables that only occur in constraints are not instantiated here
        for k, (p, a, r) in enumerate(pairs, start=1):
            ai, pi = inst(a, rho, ops), inst(p, rho, ops)
            if not ref_sub(spec, ai, pi):
                return f"argument-not-subtype: argument {k} instantiates to {G.ty_str(ai, spec)}, parameter to {G.ty_str(pi, spec)}"
    # constraints whose variables were all resolved must hold
    for c in cons:
        cterms = [c._verif_ref0] + ([c.target] if hasattr(c, "target") else [])
        if all_vars(cterms):
            continue
        ref = inst(c._verif_ref0, {}, ops)
        if hasattr(c, "target"):
            tgt = inst(c.target, {}, ops)
            if not ref_sub(spec, ref, tgt):
                return f"subtype-constraint-violated: {G.ty_str(ref, spec)} <= {G.ty_str(tgt, spec)} does not hold"
        else:
            if not any(fits(spec, ops, ref, alt) for alt in c._verif_alts0):
                return f"elimination-constraint-violated: {G.ty_str(ref, spec)} fits none of the alternatives"
    return None


def replay(ctx, payload):
    inp = payload["input"]
    spec = G.LangSpec([(n, v, p) for n, v, p in inp["lang"]])
    ops = spec.build()
    s = fix_schema(inp["schema"])
    args = [(a[0], tt(a[1])) for a in inp["args"]]
    with Recorder() as rec:
        obs, results, err = I.run_chain(s, args, spec, ops)
    print(I.schema_src(s, spec), "applied to", [I.term_sexp(a[1]) for a in args]); print("->", obs)
    bad = list(rec.events)
    if err is None and results:
        w = witness_check(spec, ops, s, args, results, rec)
        if w:
            bad.append(w)
    print("oracle:", bad or "holds")
    return not bad


def tt(x):
    if x[0] in ('v', 'w'):
        return (x[0], x[1])
    return (x[0], tuple(tt(a) for a in x[1]))


def fix_schema(s):
    cs = []
    for c in s["constraints"]:
        if c[0] == 'sub':
            cs.append(('sub', tt(c[1]), tt(c[2]), c[3]))
        else:
            cs.append(('elim', tt(c[1]), [tt(a) for a in c[2]]))
    return {"nvars": s["nvars"], "nwild": s["nwild"], "body": tt(s["body"]), "constraints": cs}
