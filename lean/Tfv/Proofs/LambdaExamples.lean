import Tfv.Proofs.LambdaNf
/-!
# concrete values for the non-vacuity examples of C15
`unfoldDefs` is defined by well-founded recursion (fuel and term decrease lexicographically), so it does not
reduce by `decide`; its value on the example is computed by `simp` with the equations, `nf` by `decide`.
-/
namespace Tfv.C15P
open Tfv Tfv.LamSpec

/-- `compose := λf g x. f (g x)`, `twice := λf x. f (f x)`, `inc2 := λx. u1 (u1 x)`,
`inc4 := λx. inc2 (inc2 x)` (uses an earlier definition) -/
def exDefs : List LDef :=
  [ ⟨"compose", 3, .app (.var 2) (.app (.var 1) (.var 0))⟩,
    ⟨"twice", 2, .app (.var 1) (.app (.var 1) (.var 0))⟩,
    ⟨"inc2", 1, .app (.op "u1") (.app (.op "u1") (.var 0))⟩,
    ⟨"inc4", 1, .app (.op "inc2") (.app (.op "inc2") (.var 0))⟩ ]

/-- `compose inc2 u2 s0` -/
def exTerm : LTerm := .app (.app (.app (.op "compose") (.op "inc2")) (.op "u2")) (.src 0)
/-- `twice inc4 s0` -/
def exTerm2 : LTerm := .app (.app (.op "twice") (.op "inc4")) (.src 0)

def exInc2 : LTerm := .lam (.app (.op "u1") (.app (.op "u1") (.var 0)))
def exInc4 : LTerm := .lam (.app exInc2 (.app exInc2 (.var 0)))
def exUnfolded : LTerm :=
  .app (.app (.app (.lam (.lam (.lam (.app (.var 2) (.app (.var 1) (.var 0)))))) exInc2) (.op "u2")) (.src 0)
def exUnfolded2 : LTerm :=
  .app (.app (.lam (.lam (.app (.var 1) (.app (.var 1) (.var 0))))) exInc4) (.src 0)
/-- `u1 (u1 (u2 s0))` -/
def exResult : LTerm := .app (.op "u1") (.app (.op "u1") (.app (.op "u2") (.src 0)))
def u1n : Nat → LTerm → LTerm
  | 0, t => t
  | n+1, t => .app (.op "u1") (u1n n t)
/-- `u1` applied eight times to `s0` -/
def exResult2 : LTerm := u1n 8 (.src 0)

theorem exDefs_wf : wfDefs exDefs = true := by decide
theorem exDefs_dep : depOrdered exDefs = true := by decide

theorem exUnfold : unfoldDefs exDefs (exDefs.length + 1) exTerm = exUnfolded := by
  simp [unfoldDefs, exDefs, exTerm, exUnfolded, exInc2, lamN]
theorem exUnfold2 : unfoldDefs exDefs (exDefs.length + 1) exTerm2 = exUnfolded2 := by
  simp [unfoldDefs, exDefs, exTerm2, exUnfolded2, exInc2, exInc4, lamN]

theorem exNf : nf 6 exUnfolded = some exResult := by decide
theorem exNf2 : nf 16 exUnfolded2 = some exResult2 := by decide

theorem exPrim : primitiveL exDefs 6 exTerm = some exResult := by
  unfold primitiveL; rw [exUnfold]; exact exNf
theorem exPrim2 : primitiveL exDefs 16 exTerm2 = some exResult2 := by
  unfold primitiveL; rw [exUnfold2]; exact exNf2
theorem exPrim_short : primitiveL exDefs 5 exTerm = none := by
  unfold primitiveL; rw [exUnfold]; decide

theorem exResult_normal : normalB exDefs exResult = true := by decide
theorem exResult2_normal : normalB exDefs exResult2 = true := by decide

/-- a recursive definition `a := a` -/
def exRec : List LDef := [⟨"a", 0, .op "a"⟩]
theorem exRec_unfold : unfoldDefs exRec (exRec.length + 1) (.op "a") = .op "a" := by
  simp [unfoldDefs, exRec, lamN]
theorem exRec_prim : primitiveL exRec 5 (.op "a") = some (.op "a") := by
  unfold primitiveL; rw [exRec_unfold]; decide
theorem exRec_not_normal : normalB exRec (.op "a") = false := by decide
theorem exRec_not_dep : depOrdered exRec = false := by decide

/-- acyclic but not in dependency order: `b` is used before it is defined -/
def exRev : List LDef := [⟨"a", 0, .op "b"⟩, ⟨"b", 0, .op "u"⟩]
theorem exRev_not_dep : depOrdered exRev = false := by decide
theorem exRev_unfold : unfoldDefs exRev (exRev.length + 1) (.op "a") = .op "u" := by
  simp [unfoldDefs, exRev, lamN]
theorem exRev_stratified : Stratified exRev (fun n => if n = "a" then 1 else 0) := by
  intro name d h
  simp only [exRev, List.find?] at h
  split at h
  · cases h; rename_i hn; simp at hn; subst hn; decide
  · split at h
    · cases h; rename_i hn; simp at hn; subst hn; decide
    · cases h

/-- the divergent term `(λx. x x) (λx. x x)` -/
def exOmega : LTerm := .app (.lam (.app (.var 0) (.var 0))) (.lam (.app (.var 0) (.var 0)))
theorem exOmega_step : Red exOmega exOmega := Red.beta _ _

end Tfv.C15P
