import Tfv.Proofs.GraphType
/-!
# `addExpr`: unfolding equations in factored form, and `addExpr` as a sequence of graph steps
-/
namespace Tfv

/-- the triples in `GState.triples` never use the predicates `from` / `depends` (those live in `GState.fd`) -/
def NotFD (t : Triple) : Prop := t.2.1 ≠ Node.tf "from" ∧ t.2.1 ≠ Node.tf "depends"

theorem NotFD_of_annPred {root : Node} {cur : Nat} {t : Triple} (h : AnnPred root cur t) : NotFD t := by
  rcases h with h | ⟨_, h | h⟩ | ⟨_, h⟩
  · exact ⟨h "from", h "depends"⟩
  · rw [NotFD, h]; simp
  · rw [NotFD, h]; simp
  · rw [NotFD, h]; simp
abbrev AnyQ : Term × Node → Prop := fun _ => True

/-- the node an expression is attached to: the given one or a fresh blank node -/
def curOrFresh (g : GState) : Option Nat → GState × Nat
  | some k => (g, k)
  | none => g.fresh

/-- the `origin` triple of a node of a workflow expression -/
def addOrigin (c : GCfg) (origin : Option Node) (g : GState) (k : Nat) : GState :=
  match origin with
  | some o => if c.withWorkflowOrigin then g.add (.b k, .tf "origin", o) else g
  | none => g

/-- a source that has no node yet, attached to node `cur`: whether the type counts as canonical is decided on the
STORED type `ty`; the type that is registered and annotated is `normT G.store ty` -/
def srcBody (G : GLang) (c : GCfg) (root : Node) (origin : Option Node) (g0 : GState) (cur id : Nat) (ty : Term) :
    Except GErr (GState × Nat) :=
  let g := { g0 with srcNodes := g0.srcNodes ++ [(id, cur)] }
  let r : Except GErr GState :=
    if c.withTypes && (inCanon G (normT G.store ty) || c.withNoncanonicalTypes) then
      annotateType G c g root cur (normT G.store ty) false (some (inCanon G (normT G.store ty))) else .ok g
  match r with
  | .error e => .error e
  | .ok g => .ok (addOrigin c origin g cur, cur)

/-- the `via` / `containsOperation` triples of an operator node -/
def opTriples (c : GCfg) (root : Node) (g : GState) (cur : Nat) (name : String) : GState :=
  if c.withOperators then
    let g := g.add (.b cur, .tf "via", .ns name)
    if c.withMembership then g.add (root, .tf "containsOperation", .ns name) else g
  else g

/-- an operator leaf attached to node `cur`: the annotated type is `normT G.store (outputType 1000 ty)` (`output()` walks
the stored type, the result is read through the store) -/
def opBody (G : GLang) (c : GCfg) (root : Node) (origin : Option Node) (g0 : GState) (cur : Nat) (name : String)
    (ty : Term) (intermediate : Bool) : Except GErr (GState × Nat) :=
  let out := normT G.store (outputType 1000 ty)
  let g := opTriples c root g0 cur name
  let r : Except GErr GState :=
    if c.withTypes && (c.withNoncanonicalTypes || inCanon G out) && (c.withIntermediateTypes || !intermediate) then
      annotateType G c g root cur out true else .ok g
  match r with
  | .error e => .error e
  | .ok g => .ok (addOrigin c origin g cur, cur)

/-- between the two recursive calls of an application: the internal node of a function-valued argument -/
def appPre (g : GState) (fnode : Nat) (isFun : Bool) : GState × Option Nat :=
  if isFun then
    let (g, i) := g.fresh
    (({ g with internals := g.internals ++ [(fnode, i)] }).add (.b fnode, .tf "internal", .b i), some i)
  else (g, none)

/-- a function-valued argument's result feeds the internal node -/
def wire1 (c : GCfg) (g : GState) (xnode : Nat) (ci : Option Nat) : GState :=
  match ci with
  | some i => gAddFrom c g xnode i
  | none => g

/-- inner internal operations of `x` are fed by the current internal operation -/
def wire3 (c : GCfg) (g : GState) (xnode : Nat) (ci : Option Nat) : GState :=
  match ci with
  | some i => ((g.internals.filter (fun (p : Nat × Nat) => p.1 == xnode)).map (fun (p : Nat × Nat) => p.2)).foldl (fun g j => gAddFrom c g j i) g
  | none => g

/-- every operation internal to `f` takes `x`'s output as input -/
def wire4 (c : GCfg) (g : GState) (fnode xnode : Nat) (ci : Option Nat) : GState :=
  ((g.internals.filter (fun (p : Nat × Nat) => p.1 == fnode)).map (fun (p : Nat × Nat) => p.2)).foldl
    (fun g j => if some j != ci then gAddFrom c g j xnode else g) g

/-- every input of `f` is an input of the current internal operation -/
def wire5 (c : GCfg) (origin : Option Node) (g : GState) (fnode xnode : Nat) (ci : Option Nat)
    (repeated : Bool) : GState :=
  match ci with
  | some i =>
    let g := (objectsOf g.fd.frm fnode).eraseDups.foldl
      (fun g fin => if xnode != fin || repeated then gAddFrom c g i fin else g) g
    match origin with
    | some o => if c.withWorkflowOrigin then g.add (.b i, .tf "origin", o) else g
    | none => g
  | none => g

/-- after the two recursive calls of an application: the `from` edges and origins -/
def appWire (c : GCfg) (origin : Option Node) (g : GState) (fnode xnode : Nat) (ci : Option Nat)
    (cur : Nat) : GState :=
  addOrigin c origin
    (wire5 c origin (wire4 c (wire3 c (gAddFrom c (wire1 c g xnode ci) fnode xnode) xnode ci) fnode xnode ci)
      fnode xnode ci ((objectsOf (wire1 c g xnode ci).fd.frm fnode).contains xnode)) cur

theorem addExpr_src (G : GLang) (c : GCfg) (root : Node) (origin : Option Node) (g : GState) (id : Nat)
    (l : Option String) (ty : Term) (cur : Option Nat) (inter : Bool) :
    addExpr G c root origin g (.src id l ty) cur inter =
      match g.srcNodes.find? (fun p => p.1 == id) with
      | some p => .ok (g, p.2)
      | none => srcBody G c root origin (curOrFresh g cur).1 (curOrFresh g cur).2 id ty := by
  cases cur <;> rw [addExpr] <;> rfl

theorem addExpr_op (G : GLang) (c : GCfg) (root : Node) (origin : Option Node) (g : GState) (name : String)
    (ty : Term) (cur : Option Nat) (inter : Bool) :
    addExpr G c root origin g (.op name ty) cur inter =
      opBody G c root origin (curOrFresh g cur).1 (curOrFresh g cur).2 name ty inter := by
  cases cur <;> rw [addExpr] <;> rfl

theorem addExpr_app (G : GLang) (c : GCfg) (root : Node) (origin : Option Node) (g : GState) (f x : TExpr)
    (ty : Term) (cur : Option Nat) (inter : Bool) :
    addExpr G c root origin g (.app f x ty) cur inter =
      match addExpr G c root origin (curOrFresh g cur).1 f (some (curOrFresh g cur).2) inter with
      | .error e => .error e
      | .ok (g1, fnode) =>
        match addExpr G c root origin (appPre g1.fresh.1 fnode x.ty.isFunction).1 x (some g1.nextB) true with
        | .error e => .error e
        | .ok (g2, xnode) =>
          .ok (appWire c origin g2 fnode xnode (appPre g1.fresh.1 fnode x.ty.isFunction).2 (curOrFresh g cur).2,
            (curOrFresh g cur).2) := by
  cases cur <;> rw [addExpr] <;> rfl

theorem addExpr_shared (G : GLang) (c : GCfg) (root : Node) (origin : Option Node) (g : GState) (k : Nat)
    (e : TExpr) (cur : Option Nat) (inter : Bool) :
    addExpr G c root origin g (.shared k e) cur inter =
      match g.sharedNodes.find? (fun p => p.1 == k) with
      | some p => .ok (g, p.2)
      | none =>
        match addExpr G c root origin g e cur inter with
        | .error err => .error err
        | .ok (g1, n) => .ok ({ g1 with sharedNodes := g1.sharedNodes ++ [(k, n)] }, n) := by
  rw [addExpr]; rfl

/-! ## steps -/

theorem GStep.originAdd {c : GCfg} (origin : Option Node) (g : GState) (k : Nat) :
    GStep c NotFD AnyQ g (addOrigin c origin g k) := by
  unfold addOrigin
  cases origin with
  | none => exact .refl g
  | some o => exact .ty (.iteAdd _ _ _ (by simp [NotFD]))

theorem GStep.curFresh {c : GCfg} (current : Option Nat) (g : GState) :
    GStep c NotFD AnyQ g (curOrFresh g current).1 := by
  cases current with
  | none => exact .fresh g
  | some k => exact .refl g

theorem annotateType_gstep_ov {G : GLang} {c : GCfg} {g : GState} {root : Node} {cur : Nat} {ty : Term}
    {mf : Bool} {ov : Option Bool} {g' : GState} (h : annotateType G c g root cur ty mf ov = .ok g') :
    GStep c NotFD AnyQ g g' :=
  .ty ((annotateType_step_ov G c g root cur ty mf ov g' h).mono (fun _ h => NotFD_of_annPred h) (fun _ _ => trivial))

theorem annotateType_gstep {G : GLang} {c : GCfg} {g : GState} {root : Node} {cur : Nat} {ty : Term}
    {mf : Bool} {g' : GState} (h : annotateType G c g root cur ty mf = .ok g') :
    GStep c NotFD AnyQ g g' :=
  annotateType_gstep_ov h

theorem srcBody_step {G : GLang} {c : GCfg} {root : Node} {origin : Option Node} {g0 : GState} {cur id : Nat}
    {ty : Term} {g' : GState} {n : Nat} (h : srcBody G c root origin g0 cur id ty = .ok (g', n)) :
    GStep c NotFD AnyQ g0 g' ∧ n = cur := by
  unfold srcBody at h
  simp only [] at h
  split at h
  · cases h
  · rename_i g2 hr
    simp only [Except.ok.injEq, Prod.mk.injEq] at h
    obtain ⟨rfl, rfl⟩ := h
    refine ⟨.trans (.pushSrc g0 (id, cur)) (.trans ?_ (.originAdd origin g2 cur)), rfl⟩
    split at hr
    · exact annotateType_gstep_ov hr
    · simp only [Except.ok.injEq] at hr
      rw [← hr]; exact .refl _

theorem opTriples_step (c : GCfg) (root : Node) (g : GState) (cur : Nat) (name : String) :
    GStep c NotFD AnyQ g (opTriples c root g cur name) := by
  unfold opTriples
  split
  · exact .trans (.add _ _ (by simp [NotFD])) (.ty (.iteAdd _ _ _ (by simp [NotFD])))
  · exact .refl g

theorem opBody_step {G : GLang} {c : GCfg} {root : Node} {origin : Option Node} {g0 : GState} {cur : Nat}
    {name : String} {ty : Term} {inter : Bool} {g' : GState} {n : Nat}
    (h : opBody G c root origin g0 cur name ty inter = .ok (g', n)) :
    GStep c NotFD AnyQ g0 g' ∧ n = cur := by
  unfold opBody at h
  simp only [] at h
  split at h
  · cases h
  · rename_i g2 hr
    simp only [Except.ok.injEq, Prod.mk.injEq] at h
    obtain ⟨rfl, rfl⟩ := h
    refine ⟨.trans (opTriples_step c root g0 cur name) (.trans ?_ (.originAdd origin g2 cur)), rfl⟩
    split at hr
    · exact annotateType_gstep hr
    · simp only [Except.ok.injEq] at hr
      rw [← hr]; exact .refl _

theorem appPre_step (c : GCfg) (g : GState) (fnode : Nat) (isFun : Bool) :
    GStep c NotFD AnyQ g (appPre g fnode isFun).1 := by
  unfold appPre
  cases isFun with
  | false => exact .refl g
  | true =>
    simp only [if_true]
    exact .trans (.fresh g) (.trans (.pushInternal _ (fnode, g.nextB)) (.add _ _ (by simp [NotFD])))

theorem GStep.foldl {c : GCfg} {α : Type} (f : GState → α → GState) (l : List α)
    (hf : ∀ g s, GStep c NotFD AnyQ g (f g s)) (g : GState) : GStep c NotFD AnyQ g (l.foldl f g) :=
  foldl_rel (R := GStep c NotFD AnyQ) .refl (fun _ _ _ => .trans) f l (fun g s _ => hf g s) g

theorem wire1_step (c : GCfg) (g : GState) (xnode : Nat) (ci : Option Nat) :
    GStep c NotFD AnyQ g (wire1 c g xnode ci) := by
  unfold wire1
  cases ci with
  | none => exact .refl g
  | some i => exact .addFrom g xnode i false

theorem wire3_step (c : GCfg) (g : GState) (xnode : Nat) (ci : Option Nat) :
    GStep c NotFD AnyQ g (wire3 c g xnode ci) := by
  unfold wire3
  cases ci with
  | none => exact .refl g
  | some i => exact GStep.foldl _ _ (fun g j => .addFrom g j i false) g

theorem wire4_step (c : GCfg) (g : GState) (fnode xnode : Nat) (ci : Option Nat) :
    GStep c NotFD AnyQ g (wire4 c g fnode xnode ci) := by
  unfold wire4
  refine GStep.foldl _ _ (fun g j => ?_) g
  split
  · exact .addFrom g j xnode false
  · exact .refl g

theorem wire5_step (c : GCfg) (origin : Option Node) (g : GState) (fnode xnode : Nat) (ci : Option Nat)
    (rep : Bool) : GStep c NotFD AnyQ g (wire5 c origin g fnode xnode ci rep) := by
  unfold wire5
  cases ci with
  | none => exact .refl g
  | some i =>
    simp only []
    refine .trans (GStep.foldl _ _ (fun g fin => ?_) g) (GStep.originAdd origin _ i)
    split
    · exact .addFrom g i fin false
    · exact .refl g

theorem appWire_step (c : GCfg) (origin : Option Node) (g : GState) (fnode xnode : Nat) (ci : Option Nat)
    (cur : Nat) : GStep c NotFD AnyQ g (appWire c origin g fnode xnode ci cur) := by
  unfold appWire
  exact .trans (wire1_step c g xnode ci) (.trans (.addFrom _ fnode xnode false) (.trans (wire3_step c _ xnode ci)
    (.trans (wire4_step c _ fnode xnode ci) (.trans (wire5_step c origin _ fnode xnode ci _)
      (.originAdd origin _ cur)))))

theorem addExpr_step (G : GLang) (c : GCfg) (root : Node) (origin : Option Node) :
    ∀ (e : TExpr) (g : GState) (cur : Option Nat) (inter : Bool) (g' : GState) (n : Nat),
      addExpr G c root origin g e cur inter = .ok (g', n) → GStep c NotFD AnyQ g g' := by
  intro e
  induction e with
  | src id label ty =>
    intro g cur inter g' n h
    rw [addExpr_src] at h
    split at h
    · simp only [Except.ok.injEq, Prod.mk.injEq] at h
      rw [← h.1]; exact .refl g
    · exact .trans (.curFresh cur g) (srcBody_step h).1
  | op name ty =>
    intro g cur inter g' n h
    rw [addExpr_op] at h
    exact .trans (.curFresh cur g) (opBody_step h).1
  | app f x ty ihf ihx =>
    intro g cur inter g' n h
    rw [addExpr_app] at h
    split at h
    · cases h
    · rename_i g1 fnode hf
      split at h
      · cases h
      · rename_i g2 xnode hx
        simp only [Except.ok.injEq, Prod.mk.injEq] at h
        rw [← h.1]
        exact .trans (.curFresh cur g) (.trans (ihf _ _ _ _ _ hf) (.trans (.fresh g1)
          (.trans (appPre_step c _ fnode _) (.trans (ihx _ _ _ _ _ hx) (appWire_step c origin _ _ _ _ _)))))
  | shared k e ih =>
    intro g cur inter g' n h
    rw [addExpr_shared] at h
    split at h
    · simp only [Except.ok.injEq, Prod.mk.injEq] at h
      rw [← h.1]; exact .refl g
    · split at h
      · cases h
      · rename_i g1 m he
        simp only [Except.ok.injEq, Prod.mk.injEq] at h
        rw [← h.1]
        exact .trans (ih _ _ _ _ _ he) (.pushShared g1 (k, m))

end Tfv
