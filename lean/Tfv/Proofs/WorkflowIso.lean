import Tfv.Proofs.GraphExpr
import Tfv.Proofs.QueryUnfoldRename
/-!
# Renaming blank nodes: graph isomorphism, and the graph state of `addExpr` under a renaming of the node supply
-/
namespace Tfv

/-! ## renaming -/

/-- rename the blank nodes -/
def renN (ρ : Nat → Nat) : Node → Node
  | .b n => .b (ρ n)
  | x => x

def renT (ρ : Nat → Nat) (t : Triple) : Triple := (renN ρ t.1, renN ρ t.2.1, renN ρ t.2.2)
/-- an edge between concept nodes, an `internal` pair -/
def renP (ρ : Nat → Nat) (p : Nat × Nat) : Nat × Nat := (ρ p.1, ρ p.2)
/-- a registration key ↦ node -/
def renV (ρ : Nat → Nat) (p : Nat × Nat) : Nat × Nat := (p.1, ρ p.2)

theorem renN_id (n : Node) : renN id n = n := by cases n <;> rfl
theorem renT_id (t : Triple) : renT id t = t := by
  simp only [renT, renN_id]

theorem renN_comp (ρ σ : Nat → Nat) (n : Node) : renN σ (renN ρ n) = renN (σ ∘ ρ) n := by cases n <;> rfl
theorem renT_comp (ρ σ : Nat → Nat) (t : Triple) : renT σ (renT ρ t) = renT (σ ∘ ρ) t := by
  simp only [renT, renN_comp]

theorem renN_inj {ρ : Nat → Nat} (hρ : Function.Injective ρ) : ∀ a b, renN ρ a = renN ρ b → a = b := by
  intro a b h
  cases a <;> cases b <;> simp only [renN, Node.b.injEq, reduceCtorEq] at h <;>
    first
    | exact h
    | exact congrArg _ (hρ h)
    | exact False.elim h

theorem renT_inj {ρ : Nat → Nat} (hρ : Function.Injective ρ) : ∀ a b, renT ρ a = renT ρ b → a = b := by
  intro a b h
  obtain ⟨a1, a2, a3⟩ := a
  obtain ⟨b1, b2, b3⟩ := b
  simp only [renT, Prod.mk.injEq] at h
  rw [renN_inj hρ _ _ h.1, renN_inj hρ _ _ h.2.1, renN_inj hρ _ _ h.2.2]

theorem renP_inj {ρ : Nat → Nat} (hρ : Function.Injective ρ) : ∀ a b, renP ρ a = renP ρ b → a = b := by
  intro a b h
  obtain ⟨a1, a2⟩ := a
  obtain ⟨b1, b2⟩ := b
  simp only [renP, Prod.mk.injEq] at h
  rw [hρ h.1, hρ h.2]

/-- the nodes of a triple on which two renamings must agree to rename it alike -/
def nodesOfN : Node → List Nat
  | .b n => [n]
  | _ => []
def nodesOfT (t : Triple) : List Nat := nodesOfN t.1 ++ nodesOfN t.2.1 ++ nodesOfN t.2.2

theorem renN_congr {ρ σ : Nat → Nat} (n : Node) (h : ∀ k ∈ nodesOfN n, ρ k = σ k) : renN ρ n = renN σ n := by
  cases n <;> try rfl
  rename_i k
  simp only [renN, h k (by simp [nodesOfN])]

theorem renT_congr {ρ σ : Nat → Nat} (t : Triple) (h : ∀ k ∈ nodesOfT t, ρ k = σ k) : renT ρ t = renT σ t := by
  simp only [nodesOfT, List.mem_append] at h
  simp only [renT, renN_congr t.1 (fun k hk => h k (.inl (.inl hk))), renN_congr t.2.1 (fun k hk => h k (.inl (.inr hk))),
    renN_congr t.2.2 (fun k hk => h k (.inr hk))]

/-! ## graph isomorphism: lists of triples read as sets -/

/-- **`ρ` is an isomorphism from the graph `a` onto the graph `b`** (lists of triples read as sets): `ρ` is injective on
the blank nodes of `a`, and `b` is, as a set, the image of `a` under the renaming. -/
structure GIso (ρ : Nat → Nat) (a b : List Triple) : Prop where
  inj : ∀ t ∈ a, ∀ t' ∈ a, ∀ k ∈ nodesOfT t, ∀ k' ∈ nodesOfT t', ρ k = ρ k' → k = k'
  image : ∀ t, t ∈ b ↔ t ∈ a.map (renT ρ)

theorem GIso.of_injective {ρ : Nat → Nat} (hρ : Function.Injective ρ) {a b : List Triple}
    (h : ∀ t, t ∈ b ↔ t ∈ a.map (renT ρ)) : GIso ρ a b :=
  ⟨fun _ _ _ _ _ _ _ _ he => hρ he, h⟩

theorem GIso.refl (a : List Triple) : GIso id a a :=
  ⟨fun _ _ _ _ _ _ _ _ he => he, fun t => by simp [renT_id]⟩

theorem GIso.trans {ρ σ : Nat → Nat} {a b d : List Triple} (h1 : GIso ρ a b) (h2 : GIso σ b d) : GIso (σ ∘ ρ) a d := by
  have hmem : ∀ t ∈ a, ∀ k ∈ nodesOfT t, ρ k ∈ nodesOfT (renT ρ t) := by
    intro t _ k hk
    obtain ⟨t1, t2, t3⟩ := t
    simp only [nodesOfT, List.mem_append] at hk
    simp only [nodesOfT, renT, List.mem_append]
    have hn : ∀ n : Node, k ∈ nodesOfN n → ρ k ∈ nodesOfN (renN ρ n) := by
      intro n hn
      cases n <;> simp [nodesOfN] at hn
      subst hn
      simp [renN, nodesOfN]
    rcases hk with (hk | hk) | hk
    · exact .inl (.inl (hn _ hk))
    · exact .inl (.inr (hn _ hk))
    · exact .inr (hn _ hk)
  refine ⟨?_, ?_⟩
  · intro t ht t' ht' k hk k' hk' he
    have hb : renT ρ t ∈ b := (h1.image _).2 (List.mem_map_of_mem ht)
    have hb' : renT ρ t' ∈ b := (h1.image _).2 (List.mem_map_of_mem ht')
    exact h1.inj t ht t' ht' k hk k' hk' (h2.inj _ hb _ hb' _ (hmem t ht k hk) _ (hmem t' ht' k' hk') he)
  · intro t
    rw [h2.image]
    simp only [List.mem_map]
    constructor
    · rintro ⟨u, hu, rfl⟩
      obtain ⟨v, hv, rfl⟩ := List.mem_map.1 ((h1.image u).1 hu)
      exact ⟨v, hv, (renT_comp ρ σ v).symm⟩
    · rintro ⟨v, hv, rfl⟩
      exact ⟨renT ρ v, (h1.image _).2 (List.mem_map_of_mem hv), renT_comp ρ σ v⟩

/-! ## generic list lemmas -/

theorem beq_map_inj {α β : Type} [BEq α] [LawfulBEq α] [BEq β] [LawfulBEq β] {f : α → β}
    (hf : ∀ a b, f a = f b → a = b) (a b : α) : (f a == f b) = (a == b) := by
  by_cases h : a = b
  · subst h; simp
  · rw [beq_eq_false_iff_ne.2 h, beq_eq_false_iff_ne.2 (fun he => h (hf _ _ he))]

theorem contains_map_inj {α β : Type} [BEq α] [LawfulBEq α] [BEq β] [LawfulBEq β] {f : α → β}
    (hf : ∀ a b, f a = f b → a = b) (l : List α) (a : α) : (l.map f).contains (f a) = l.contains a := by
  induction l with
  | nil => rfl
  | cons x xs ih =>
    rw [List.map_cons, List.contains_cons, List.contains_cons, ih, beq_map_inj hf]

theorem eraseDups_map_inj' {α β : Type} [BEq α] [LawfulBEq α] [BEq β] [LawfulBEq β] {f : α → β}
    (hf : ∀ a b, f a = f b → a = b) (l : List α) : (l.map f).eraseDups = l.eraseDups.map f :=
  eraseDups_map_inj f _ l (Nat.le_refl _) (fun x _ y _ h => hf x y h)

theorem objectsOf_ren {ρ : Nat → Nat} (hρ : Function.Injective ρ) (r : Rel) (b : Nat) :
    objectsOf (r.map (renP ρ)) (ρ b) = (objectsOf r b).map ρ := by
  unfold objectsOf
  rw [List.filter_map, List.map_map, List.map_map]
  have : r.filter ((fun p => p.1 == ρ b) ∘ renP ρ) = r.filter (fun p => p.1 == b) := by
    apply List.filter_congr
    intro x _
    simp only [Function.comp, renP]
    exact beq_map_inj (fun a b h => hρ h) _ _
  rw [this]
  rfl

theorem subjectsOf_ren {ρ : Nat → Nat} (hρ : Function.Injective ρ) (r : Rel) (a : Nat) :
    subjectsOf (r.map (renP ρ)) (ρ a) = (subjectsOf r a).map ρ := by
  unfold subjectsOf
  rw [List.filter_map, List.map_map, List.map_map]
  have : r.filter ((fun p => p.2 == ρ a) ∘ renP ρ) = r.filter (fun p => p.2 == a) := by
    apply List.filter_congr
    intro x _
    simp only [Function.comp, renP]
    exact beq_map_inj (fun a b h => hρ h) _ _
  rw [this]
  rfl

theorem internalsOf_ren {ρ : Nat → Nat} (hρ : Function.Injective ρ) (r : List (Nat × Nat)) (b : Nat) :
    ((r.map (renP ρ)).filter (fun (p : Nat × Nat) => p.1 == ρ b)).map (fun (p : Nat × Nat) => p.2)
      = ((r.filter (fun (p : Nat × Nat) => p.1 == b)).map (fun (p : Nat × Nat) => p.2)).map ρ :=
  objectsOf_ren hρ r b

theorem crossAdd_ren {ρ : Nat → Nat} (hρ : Function.Injective ρ) (d : Rel) (srcs tgts : List Nat) :
    crossAdd (d.map (renP ρ)) (srcs.map ρ) (tgts.map ρ) = (crossAdd d srcs tgts).map (renP ρ) := by
  unfold crossAdd
  have h1 : (srcs.map ρ).flatMap (fun s => (tgts.map ρ).map (fun t => (s, t)))
      = (srcs.flatMap (fun s => tgts.map (fun t => (s, t)))).map (renP ρ) := by
    rw [List.flatMap_map, List.map_flatMap]
    congr 1
    funext s
    rw [List.map_map, List.map_map]
    rfl
  rw [h1, eraseDups_map_inj' (renP_inj hρ), List.filter_map, List.map_append]
  congr 2
  apply List.filter_congr
  intro x _
  simp only [Function.comp, contains_map_inj (renP_inj hρ)]

def renFD (ρ : Nat → Nat) (fd : FD) : FD := { frm := fd.frm.map (renP ρ), dep := fd.dep.map (renP ρ) }

theorem addFrom_ren {ρ : Nat → Nat} (hρ : Function.Injective ρ) (fd : FD) (a b : Nat) :
    addFrom (renFD ρ fd) (ρ a) (ρ b) false = renFD ρ (addFrom fd a b false) := by
  unfold addFrom addFromWith renFD
  simp only [Bool.false_eq_true, if_false]
  rw [objectsOf_ren hρ, subjectsOf_ren hρ, ← List.map_cons, ← List.map_cons, crossAdd_ren hρ]
  rfl

end Tfv
