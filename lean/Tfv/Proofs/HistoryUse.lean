import Tfv.Proofs.HistoryEngine
/-!
# History independence of the inference engine (C16), part 3: `fix`, `instantiate`, `applyT`
-/
namespace Tfv.C16P
open Tfv Tfv.C03P

/-! ## 1. `fix`, `fixList` -/

theorem RelP.err (σ₀ : Store) (e : Err) : RelP σ₀ (.error e) (.error e) := rfl
theorem RelP.ok {σ₀ σ τ : Store} (s : Sim σ₀ σ τ) (t : Term) :
    RelP σ₀ (.ok (σ, t)) (.ok (τ, t.shift σ₀.vars.length)) := ⟨τ, rfl, s⟩

theorem RelP.bindR {σ₀ : Store} {r r' : R} {g g' : Store → Except Err (Store × Term)} (h : RelR σ₀ r r')
    (hg : ∀ σ1 τ1, Sim σ₀ σ1 τ1 → RelP σ₀ (g σ1) (g' τ1)) :
    RelP σ₀ (match (generalizing := false) r with | .error e => .error e | .ok s => g s)
      (match (generalizing := false) r' with | .error e => .error e | .ok s => g' s) := by
  cases r with
  | error e => simp only [RelR] at h; subst h; exact RelP.err σ₀ e
  | ok σ1 =>
    obtain ⟨τ1, e, s⟩ := h
    subst e
    exact hg σ1 τ1 s

theorem RelR.bindP {σ₀ : Store} {r r' : Except Err (Store × Term)} {g g' : Store → Term → R}
    (h : RelP σ₀ r r')
    (hg : ∀ σ1 τ1 t, Sim σ₀ σ1 τ1 → RelR σ₀ (g σ1 t) (g' τ1 (t.shift σ₀.vars.length))) :
    RelR σ₀ (match (generalizing := false) r with | .error e => .error e | .ok (s, t) => g s t)
      (match (generalizing := false) r' with | .error e => .error e | .ok (s, t) => g' s t) := by
  cases r with
  | error e => simp only [RelP] at h; subst h; exact RelR.err σ₀ e
  | ok p =>
    obtain ⟨σ1, t⟩ := p
    obtain ⟨τ1, e, s⟩ := h
    subst e
    exact hg σ1 τ1 t s

theorem RelP.bindP {σ₀ : Store} {r r' : Except Err (Store × Term)}
    {g g' : Store → Term → Except Err (Store × Term)} (h : RelP σ₀ r r')
    (hg : ∀ σ1 τ1 t, Sim σ₀ σ1 τ1 → RelP σ₀ (g σ1 t) (g' τ1 (t.shift σ₀.vars.length))) :
    RelP σ₀ (match (generalizing := false) r with | .error e => .error e | .ok (s, t) => g s t)
      (match (generalizing := false) r' with | .error e => .error e | .ok (s, t) => g' s t) := by
  cases r with
  | error e => simp only [RelP] at h; subst h; exact RelP.err σ₀ e
  | ok p =>
    obtain ⟨σ1, t⟩ := p
    obtain ⟨τ1, e, s⟩ := h
    subst e
    exact hg σ1 τ1 t s

def FixE (L : Lang) (σ₀ : Store) (n : Nat) : Prop :=
  ∀ σ τ t pl, Sim σ₀ σ τ → RelP σ₀ (fix L n σ t pl) (fix L n τ (t.shift σ₀.vars.length) pl)

def FixListE (L : Lang) (σ₀ : Store) (n : Nat) : Prop :=
  ∀ σ τ vs ps pl, Sim σ₀ σ τ →
    RelR σ₀ (fixList L n σ vs ps pl) (fixList L n τ vs (Term.shiftL σ₀.vars.length ps) pl)

theorem fix_stepE {L : Lang} {σ₀ : Store} {n : Nat} (hlist : FixListE L σ₀ n) : FixE L σ₀ (n+1) := by
  intro σ τ t pl s
  rw [fix, fix, followT_sim s t]
  cases et : followT σ t with
  | app o args =>
    simp only [shift_app]
    apply RelP.bindR (hlist σ τ _ args pl s)
    intro σ1 τ1 s1
    have := RelP.ok s1 (.app o args)
    rw [shift_app] at this
    exact this
  | var v =>
    simp only [shift_var, s.lower v, s.upper v]
    apply RelP.bindR
    · split
      · split
        · exact bind_closed_sim s L n v (closed_base _)
        · exact RelR.ok s
      · split
        · split
          · exact bind_closed_sim s L n v (closed_base _)
          · exact RelR.ok s
        · exact RelR.ok s
    · intro σ1 τ1 s1
      have := RelP.ok s1 (followT σ1 (.var v))
      rw [← followT_sim s1, shift_var] at this
      exact this

theorem fixList_zero (L : Lang) (σ : Store) (vs : List Bool) (ps : List Term) (pl : Bool) :
    fixList L 0 σ vs ps pl = .error .outOfFuel := by
  rw [fixList]

theorem fix_zero (L : Lang) (σ : Store) (t : Term) (pl : Bool) :
    fix L 0 σ t pl = .error .outOfFuel := by
  rw [fix]

theorem fixList_stepE {L : Lang} {σ₀ : Store} {n : Nat} (hfix : FixE L σ₀ n) (hlist : FixListE L σ₀ n) :
    FixListE L σ₀ (n+1) := by
  intro σ τ vs ps pl s
  match vs, ps with
  | [], ps =>
    rw [fixList_nil_left, fixList_nil_left]; exact RelR.ok s
  | vs, [] =>
    rw [shiftL_nil, fixList_nil_right, fixList_nil_right]; exact RelR.ok s
  | v :: vs, p :: ps =>
    rw [shiftL_cons, fixList_cons, fixList_cons]
    apply RelR.bindP (hfix σ τ p _ s)
    intro σ1 τ1 _ s1
    exact hlist σ1 τ1 vs ps pl s1

theorem all_fixE (L : Lang) (σ₀ : Store) : ∀ n, FixE L σ₀ n ∧ FixListE L σ₀ n
  | 0 => by
    refine ⟨?_, ?_⟩
    · intro σ τ t pl _; rw [fix_zero, fix_zero]; exact RelP.err _ _
    · intro σ τ vs ps pl _; rw [fixList_zero, fixList_zero]; exact RelR.err _ _
  | n+1 => by
    obtain ⟨h1, h2⟩ := all_fixE L σ₀ n
    exact ⟨fix_stepE h2, fixList_stepE h1 h2⟩

/-! ## 2. `applyT`: an unresolved function variable becomes `a ** b` -/

theorem directVars_var_unbound {σ : Store} {v : Nat} (m : Nat) (acc : List Nat)
    (hv : (getVar σ v).bound = none) :
    directVars σ (m+1) (.var v) acc = if acc.contains v then acc else acc ++ [v] := by
  rw [directVars, followT_unbound hv]

theorem directVars_pair {σ : Store} {a b o : Nat} (m : Nat) (ha : (getVar σ a).bound = none)
    (hb : (getVar σ b).bound = none) (hab : a ≠ b) :
    directVars σ (m+2) (.app o [.var a, .var b]) [] = [a, b] := by
  rw [directVars, followT_app]
  simp only [List.foldl_cons, List.foldl_nil, directVars_var_unbound _ _ ha, directVars_var_unbound _ _ hb]
  simp [Ne.symm hab]

theorem Sim.put_cset {σ₀ σ τ : Store} (s : Sim σ₀ σ τ) (w c1 c1' : Nat) (hc : c1' = c1 + σ₀.csets.length) :
    Sim σ₀ (setVar σ w { (getVar σ w) with cset := c1 })
      (setVar τ (w + σ₀.vars.length) { (getVar τ (w + σ₀.vars.length)) with cset := c1' }) := by
  refine s.put w (fun hw => ?_) (fun x => s.nvv w x)
  rw [s.get w hw, hc]; rfl

theorem getVar_bindBaseStore_ne {σ : Store} {v w : Nat} (t : Term) (h : v ≠ w) :
    getVar (bindBaseStore σ v t) w = getVar σ w := by
  unfold bindBaseStore
  simp only []
  rw [getVar_setVar_ne _ h, getVar_setVar_ne _ h]

theorem length_bindBaseStore (σ : Store) (v : Nat) (t : Term) :
    (bindBaseStore σ v t).vars.length = σ.vars.length := by
  unfold bindBaseStore; simp only [length_setVar]

theorem sim_bindAppStore_pair {σ₀ σ τ : Store} (s : Sim σ₀ σ τ) {v o a b : Nat} (hv : v < σ.vars.length)
    (hva : v ≠ a) (hvb : v ≠ b) (hab : a ≠ b)
    (ha : (getVar σ a).bound = none) (hb : (getVar σ b).bound = none) :
    Sim σ₀ (bindAppStore σ v (.app o [.var a, .var b]))
      (bindAppStore τ (v + σ₀.vars.length)
        (.app o [.var (a + σ₀.vars.length), .var (b + σ₀.vars.length)])) := by
  have hB := sim_bindBaseStore s v o [.var a, .var b]
  simp only [shiftL_cons, shiftL_nil, shift_var] at hB
  have e1 : termFuel (bindBaseStore σ v (.app o [.var a, .var b])) =
      (σ.vars.length + 62) + 2 := by
    unfold termFuel; rw [length_bindBaseStore]
  have e2 : termFuel (bindBaseStore τ (v + σ₀.vars.length)
      (.app o [.var (a + σ₀.vars.length), .var (b + σ₀.vars.length)])) = (τ.vars.length + 62) + 2 := by
    unfold termFuel; rw [length_bindBaseStore]
  have d1 := directVars_pair (σ := bindBaseStore σ v (.app o [.var a, .var b])) (o := o)
    (σ.vars.length + 62)
    (by rw [getVar_bindBaseStore_ne _ hva]; exact ha) (by rw [getVar_bindBaseStore_ne _ hvb]; exact hb) hab
  have d2 := directVars_pair (σ := bindBaseStore τ (v + σ₀.vars.length)
      (.app o [.var (a + σ₀.vars.length), .var (b + σ₀.vars.length)])) (o := o)
    (a := a + σ₀.vars.length) (b := b + σ₀.vars.length) (τ.vars.length + 62)
    (by rw [getVar_bindBaseStore_ne _ (by omega), s.bound, ha]; rfl)
    (by rw [getVar_bindBaseStore_ne _ (by omega), s.bound, hb]; rfl) (by omega)
  unfold bindAppStore
  simp only [e1, e2, d1, d2, List.foldl_cons, List.foldl_nil]
  refine Sim.put_cset (Sim.put_cset (hB.cs _ _ ?_ ?_) _ _ _ (s.cset_eq hv)) _ _ _ (s.cset_eq hv)
  · simp only [hB.ncσ _]; rfl
  · simp only [hB.ncτ _]; rfl


theorem applyPre_sim {σ₀ σ τ : Store} (s : Sim σ₀ σ τ) (L : Lang) (n : Nat) (f0 : Term)
    (hf0 : ∀ v, f0 = .var v → v < σ.vars.length) :
    RelP σ₀ (applyPre L n σ f0) (applyPre L n τ (f0.shift σ₀.vars.length)) := by
  cases f0 with
  | app o args =>
    simp only [shift_app, applyPre]
    have := RelP.ok s (.app o args)
    rw [shift_app] at this
    exact this
  | var fv =>
    have hfv := hf0 fv rfl
    simp only [shift_var, applyPre]
    have s1 := s.newVar false
    have s2 := s1.newVar false
    rw [s.snd_newVar false, s1.snd_newVar false]
    have hlen1 : (newVar σ).1.vars.length = σ.vars.length + 1 := length_newVar σ false
    have hlen2 : (newVar (newVar σ).1).1.vars.length = σ.vars.length + 2 := by
      rw [length_newVar, hlen1]
    have hA : (getVar (newVar (newVar σ).1).1 (newVar σ).2).bound = none := by
      rw [(getVar_newVar_core _ false _).1, (getVar_newVar_core _ false _).1, snd_newVar,
        getVar_oor (Nat.lt_irrefl _)]
    have hBb : (getVar (newVar (newVar σ).1).1 (newVar (newVar σ).1).2).bound = none := by
      rw [(getVar_newVar_core _ false _).1, (getVar_newVar_core _ false _).1, snd_newVar, hlen1,
        getVar_oor (by omega)]
    apply RelP.bindR
    · refine bind_app_sim_core s2 L n fv FUN _ _ ?_ ?_
      · have hB := sim_bindBaseStore s2 fv FUN [.var (newVar σ).2, .var (newVar (newVar σ).1).2]
        simp only [shiftL_cons, shiftL_nil, shift_var] at hB
        exact hB
      · refine sim_bindAppStore_pair s2 (by omega) ?_ ?_ ?_ hA hBb
        · rw [snd_newVar]; omega
        · rw [snd_newVar, hlen1]; omega
        · rw [snd_newVar, snd_newVar, hlen1]; omega
    · intro σ3 τ3 s3
      have := RelP.ok s3 (followT σ3 (.var fv))
      rw [← followT_sim s3, shift_var] at this
      exact this

/-! ## 3. `applyT`: unify the argument, fix the result -/

theorem isFunT_shift (k : Nat) (r : Term) : isFunT (r.shift k) = isFunT r := by
  cases r with
  | var v => rw [shift_var]; rfl
  | app o args => rw [shift_app]; rfl

theorem applyPost_sim {σ₀ σ τ : Store} (s : Sim σ₀ σ τ) (L : Lang) (n : Nat) (x0 f1 : Term) (fixFlag : Bool)
    (hx : x0.closed = true) :
    RelP σ₀ (applyPost L n σ x0 f1 fixFlag) (applyPost L n τ x0 (f1.shift σ₀.vars.length) fixFlag) := by
  have top : RelP σ₀ (.ok (σ, .app TOP [])) (.ok (τ, .app TOP [])) := by
    have := RelP.ok s (.app TOP [])
    rw [shift_app, shiftL_nil] at this
    exact this
  cases f1 with
  | var v => simp only [shift_var, applyPost]; exact RelP.err _ _
  | app o args =>
    have other : ∀ (_ : List Term), RelP σ₀ (if o == TOP then .ok (σ, .app TOP []) else .error .functionApplication)
        (if o == TOP then .ok (τ, .app TOP []) else .error .functionApplication) := by
      intro _
      split
      · exact top
      · exact RelP.err _ _
    match args with
    | [] => simp only [shift_app, shiftL_nil, applyPost]; exact other []
    | [_] => simp only [shift_app, shiftL_cons, shiftL_nil, applyPost]; exact other []
    | _ :: _ :: _ :: _ => simp only [shift_app, shiftL_cons, applyPost]; exact other []
    | [l, r] =>
      simp only [shift_app, shiftL_cons, shiftL_nil, applyPost, isFunT_shift]
      split
      · apply RelP.bindR
        · have := (all_unifyE L σ₀ n).1 σ τ x0 l s (Or.inl hx)
          rw [shift_closed _ _ hx] at this
          exact this
        · intro σ1 τ1 s1
          split
          · exact (all_fixE L σ₀ n).1 σ1 τ1 r true s1
          · exact RelP.ok s1 r
      · exact other []

theorem applyT_sim {σ₀ σ τ : Store} (s : Sim σ₀ σ τ) (L : Lang) (n : Nat) (f x : Term) (fixFlag : Bool)
    (hx : x.closed = true) (hf : ∀ v, followT σ f = .var v → v < σ.vars.length) :
    RelP σ₀ (applyT L n σ f x fixFlag) (applyT L n τ (f.shift σ₀.vars.length) x fixFlag) := by
  rw [applyT_eq, applyT_eq, followT_sim s f, followT_closed σ hx, followT_closed τ hx]
  apply RelP.bindP (applyPre_sim s L n _ hf)
  intro σ1 τ1 f1 s1
  exact applyPost_sim s1 L n x f1 fixFlag hx

/-! ## 4. `instantiate` -/

theorem sim_foldl_newVar {σ₀ : Store} {α : Type} (wc : Bool) : ∀ (l : List α) (σ τ : Store), Sim σ₀ σ τ →
    Sim σ₀ (l.foldl (fun σ _ => (newVar σ wc).1) σ) (l.foldl (fun σ _ => (newVar σ wc).1) τ)
  | [], _, _, s => s
  | _ :: l, _, _, s => by
    simp only [List.foldl_cons]
    exact sim_foldl_newVar wc l _ _ (s.newVar wc)

theorem sim_allocVars {σ₀ σ τ : Store} (s : Sim σ₀ σ τ) (nvars nwild : Nat) :
    Sim σ₀ (allocVars σ nvars nwild) (allocVars τ nvars nwild) := by
  unfold allocVars
  exact sim_foldl_newVar true _ _ _ (sim_foldl_newVar false _ _ _ s)

theorem instantiate_sim {σ₀ σ τ : Store} (s : Sim σ₀ σ τ) (L : Lang) (n : Nat) (sc : Schema)
    (hc : sc.constraints = []) :
    RelP σ₀ (instantiate L n σ sc) (instantiate L n τ sc) := by
  rw [instantiate_eq hc, instantiate_eq hc]
  have e : sc.body.shift τ.vars.length = (sc.body.shift σ.vars.length).shift σ₀.vars.length := by
    rw [shift_shift, s.vlen, Nat.add_comm]
  rw [e]
  exact (all_fixE L σ₀ n).1 _ _ _ true (sim_allocVars s _ _)

/-! ## 5. scoping is kept (needed to know that an unresolved function variable is allocated) -/

theorem closed_of_scoped {σ : Store} (h : Scoped σ) : Closed σ (fun v => v < σ.vars.length) :=
  fun w b _ hb v hv => h w b v hb hv

theorem scoped_of_closed {σ : Store} {S : Nat → Prop} (hS : ∀ v, S v ↔ v < σ.vars.length)
    (h : Closed σ S) : Scoped σ := by
  intro w b v hb hv
  have hw : w < σ.vars.length := by
    apply Classical.byContradiction
    intro hn
    rw [getVar_oor hn] at hb; cases hb
  exact (hS v).mp (h w b ((hS w).mpr hw) hb v hv)

theorem applyT_scoped {L : Lang} {n : Nat} {σ σ' : Store} {f x r : Term} {fixFlag : Bool}
    (nc : NoConstraints σ) (hs : Scoped σ) (hf : TermIn (fun v => v < σ.vars.length) f)
    (hx : x.closed = true) (h : applyT L n σ f x fixFlag = .ok (σ', r)) :
    Scoped σ' ∧ TermIn (fun v => v < σ'.vars.length) r := by
  obtain ⟨_, hlen, hc, hr, _⟩ := applyT_fr nc (closed_of_scoped hs) hf (termIn_closed hx) h
  have hS : ∀ v, (v < σ.vars.length ∨ (σ.vars.length ≤ v ∧ v < σ'.vars.length)) ↔ v < σ'.vars.length := by
    intro v; omega
  exact ⟨scoped_of_closed hS hc, fun v hv => (hS v).mp (hr v hv)⟩

theorem scoped_allocVars {σ : Store} (hs : Scoped σ) (nvars nwild : Nat) :
    Scoped (allocVars σ nvars nwild) := by
  obtain ⟨a1, a2, a3⟩ := allocVars_spec σ nvars nwild
  intro w b v hb hv
  by_cases hw : w < σ.vars.length
  · rw [a2 w hw] at hb
    have := hs w b v hb hv
    omega
  · rw [(a3 w (by omega)).1] at hb; cases hb

/-! ## 6. chains of applications, one whole use -/

theorem RelP.bindP' {σ₀ : Store} {r r' : Except Err (Store × Term)}
    {g g' : Store → Term → Except Err (Store × Term)} (h : RelP σ₀ r r')
    (hg : ∀ σ1 τ1 t, r = .ok (σ1, t) → Sim σ₀ σ1 τ1 →
      RelP σ₀ (g σ1 t) (g' τ1 (t.shift σ₀.vars.length))) :
    RelP σ₀ (match (generalizing := false) r with | .error e => .error e | .ok (s, t) => g s t)
      (match (generalizing := false) r' with | .error e => .error e | .ok (s, t) => g' s t) := by
  cases r with
  | error e => simp only [RelP] at h; subst h; exact RelP.err σ₀ e
  | ok p =>
    obtain ⟨σ1, t⟩ := p
    obtain ⟨τ1, e, s⟩ := h
    subst e
    exact hg σ1 τ1 t rfl s

theorem applyAll_sim {σ₀ : Store} (L : Lang) (n : Nat) (fixFlag : Bool) :
    ∀ (xs : List Term) (σ τ : Store) (f : Term), Sim σ₀ σ τ → Term.closedL xs = true → Scoped σ →
      TermIn (fun v => v < σ.vars.length) f →
      RelP σ₀ (applyAll L n fixFlag σ f xs) (applyAll L n fixFlag τ (f.shift σ₀.vars.length) xs)
  | [], σ, τ, f, s, _, _, _ => by
    rw [applyAll, applyAll]; exact RelP.ok s f
  | x :: xs, σ, τ, f, s, hxs, hs, hf => by
    rw [closedL_cons, Bool.and_eq_true] at hxs
    rw [applyAll, applyAll]
    apply RelP.bindP' (applyT_sim s L n f x fixFlag hxs.1
      (fun v e => by
        have hin := followT_in (closed_of_scoped hs) hf
        rw [e] at hin
        exact hin v VarIn.var))
    intro σ1 τ1 r e s1
    obtain ⟨hs1, hr⟩ := applyT_scoped s.ncσ hs hf hxs.1 e
    exact applyAll_sim L n fixFlag xs σ1 τ1 r s1 hxs.2 hs1 hr

theorem useSchema_sim {σ₀ σ τ : Store} (s : Sim σ₀ σ τ) (hs : Scoped σ) (L : Lang) (n : Nat) (fixFlag : Bool)
    (sc : Schema) (xs : List Term) (hc : sc.constraints = [])
    (hbody : okTermN L (sc.nvars + sc.nwild) sc.body = true) (hxs : Term.closedL xs = true) :
    RelP σ₀ (useSchema L n fixFlag σ sc xs) (useSchema L n fixFlag τ sc xs) := by
  unfold useSchema
  apply RelP.bindP' (instantiate_sim s L n sc hc)
  intro σ1 τ1 f e s1
  obtain ⟨e1, _, hlen, hv, _⟩ := instantiate_fresh hc hbody e
  refine applyAll_sim L n fixFlag xs σ1 τ1 f s1 hxs ?_ (fun v h => (hv v h).2)
  rw [e1]; exact scoped_allocVars hs _ _

/-! ## 7. from the relation to equations -/

theorem nc_empty : NoConstraints {} := fun _ => rfl

theorem nvv_empty : NoVarVar {} := by
  intro v w h
  rw [getVar_oor (by simp)] at h; cases h

theorem scoped_empty : Scoped {} := by
  intro w b v hb _
  rw [getVar_oor (by simp)] at hb; cases hb

theorem sim_empty {σ₀ : Store} (h0 : NoConstraints σ₀) : Sim σ₀ {} σ₀ :=
  ⟨rfl, rfl, fun _ _ => rfl, fun v hv => absurd hv (Nat.not_lt_zero v), rfl, nc_empty, h0, nvv_empty⟩

theorem append_empty {σ₀ : Store} (h0 : NoConstraints σ₀) : σ₀.append {} = σ₀ :=
  ((sim_empty h0).eq_append h0).symm

theorem relP_eq {σ₀ : Store} (h0 : NoConstraints σ₀) {r r' : Except Err (Store × Term)}
    (h : RelP σ₀ r r') : r' = afterHistory σ₀ r := by
  cases r with
  | error e => exact h
  | ok p =>
    obtain ⟨σ1, t⟩ := p
    obtain ⟨τ1, e, s⟩ := h
    rw [e, s.eq_append h0]; rfl

theorem relR_eq {σ₀ : Store} (h0 : NoConstraints σ₀) {r r' : R} (h : RelR σ₀ r r') :
    r' = r.map (σ₀.append ·) := by
  cases r with
  | error e => exact h
  | ok σ1 =>
    obtain ⟨τ1, e, s⟩ := h
    rw [e, s.eq_append h0]; rfl

/-! ## 8. the statements in terms of `Store.append` -/

theorem unify_history {L : Lang} {n : Nat} {σ₀ σ : Store} {a b : Term} (h0 : NoConstraints σ₀)
    (nc : NoConstraints σ) (nvv : NoVarVar σ) (hcl : a.closed = true ∨ b.closed = true) :
    unify L n (σ₀.append σ) (a.shift σ₀.vars.length) (b.shift σ₀.vars.length) true false false =
      (unify L n σ a b true false false).map (σ₀.append ·) :=
  relR_eq h0 ((all_unifyE L σ₀ n).1 σ _ a b (sim_append h0 nc nvv) hcl)

theorem fix_history {L : Lang} {n : Nat} {σ₀ σ : Store} {t : Term} {pl : Bool} (h0 : NoConstraints σ₀)
    (nc : NoConstraints σ) (nvv : NoVarVar σ) :
    fix L n (σ₀.append σ) (t.shift σ₀.vars.length) pl = afterHistory σ₀ (fix L n σ t pl) :=
  relP_eq h0 ((all_fixE L σ₀ n).1 σ _ t pl (sim_append h0 nc nvv))

theorem instantiate_history {L : Lang} {n : Nat} {σ₀ σ : Store} {sc : Schema} (h0 : NoConstraints σ₀)
    (nc : NoConstraints σ) (nvv : NoVarVar σ) (hc : sc.constraints = []) :
    instantiate L n (σ₀.append σ) sc = afterHistory σ₀ (instantiate L n σ sc) :=
  relP_eq h0 (instantiate_sim (sim_append h0 nc nvv) L n sc hc)

theorem applyT_history {L : Lang} {n : Nat} {σ₀ σ : Store} {f x : Term} {fixFlag : Bool}
    (h0 : NoConstraints σ₀) (nc : NoConstraints σ) (nvv : NoVarVar σ) (hs : Scoped σ)
    (hf : ∀ v, VarIn v f → v < σ.vars.length) (hx : x.closed = true) :
    applyT L n (σ₀.append σ) (f.shift σ₀.vars.length) x fixFlag =
      afterHistory σ₀ (applyT L n σ f x fixFlag) :=
  relP_eq h0 (applyT_sim (sim_append h0 nc nvv) L n f x fixFlag hx (fun v e => by
    have hin := followT_in (closed_of_scoped hs) (S := fun v => v < σ.vars.length) hf
    rw [e] at hin
    exact hin v VarIn.var))

theorem useSchema_history {L : Lang} {n : Nat} {fixFlag : Bool} {σ₀ σ : Store} {sc : Schema} {xs : List Term}
    (h0 : NoConstraints σ₀) (nc : NoConstraints σ) (nvv : NoVarVar σ) (hs : Scoped σ)
    (hc : sc.constraints = []) (hbody : okTermN L (sc.nvars + sc.nwild) sc.body = true)
    (hxs : Term.closedL xs = true) :
    useSchema L n fixFlag (σ₀.append σ) sc xs = afterHistory σ₀ (useSchema L n fixFlag σ sc xs) :=
  relP_eq h0 (useSchema_sim (sim_append h0 nc nvv) hs L n fixFlag sc xs hc hbody hxs)

theorem useSchema_history_empty {L : Lang} {n : Nat} {fixFlag : Bool} {σ₀ : Store} {sc : Schema}
    {xs : List Term} (h0 : NoConstraints σ₀) (hc : sc.constraints = [])
    (hbody : okTermN L (sc.nvars + sc.nwild) sc.body = true) (hxs : Term.closedL xs = true) :
    useSchema L n fixFlag σ₀ sc xs = afterHistory σ₀ (useSchema L n fixFlag {} sc xs) :=
  relP_eq h0 (useSchema_sim (sim_empty h0) scoped_empty L n fixFlag sc xs hc hbody hxs)

end Tfv.C16P
