import Tfv.Proofs.WorkflowIso
/-!
# Graph isomorphism is symmetric: the inverse renaming
-/
namespace Tfv

theorem mem_nodesOfN_ren {ρ : Nat → Nat} {n : Node} {k : Nat} (h : k ∈ nodesOfN (renN ρ n)) :
    ∃ j ∈ nodesOfN n, k = ρ j := by
  cases n with
  | b m =>
    simp only [renN, nodesOfN, List.mem_singleton] at h
    exact ⟨m, by simp [nodesOfN], h⟩
  | tf s => simp [renN, nodesOfN] at h
  | ns s => simp [renN, nodesOfN] at h
  | rdf s => simp [renN, nodesOfN] at h
  | rdfs s => simp [renN, nodesOfN] at h
  | res s => simp [renN, nodesOfN] at h

theorem mem_nodesOfT_ren {ρ : Nat → Nat} {t : Triple} {k : Nat} (h : k ∈ nodesOfT (renT ρ t)) :
    ∃ j ∈ nodesOfT t, k = ρ j := by
  simp only [nodesOfT, renT, List.mem_append] at h ⊢
  rcases h with (h | h) | h
  · obtain ⟨j, hj, e⟩ := mem_nodesOfN_ren h
    exact ⟨j, .inl (.inl hj), e⟩
  · obtain ⟨j, hj, e⟩ := mem_nodesOfN_ren h
    exact ⟨j, .inl (.inr hj), e⟩
  · obtain ⟨j, hj, e⟩ := mem_nodesOfN_ren h
    exact ⟨j, .inr hj, e⟩

/-- **An isomorphism has an inverse**: a renaming `σ` that is an isomorphism from `b` onto `a` and undoes `ρ` on the
blank nodes of `a`. -/
theorem GIso.symm {ρ : Nat → Nat} {a b : List Triple} (h : GIso ρ a b) :
    ∃ σ : Nat → Nat, GIso σ b a ∧ ∀ t ∈ a, ∀ k ∈ nodesOfT t, σ (ρ k) = k := by
  classical
  let P : Nat → Nat → Prop := fun n k => (∃ t ∈ a, k ∈ nodesOfT t) ∧ ρ k = n
  let σ : Nat → Nat := fun n => if hn : ∃ k, P n k then Classical.choose hn else n
  have hσ : ∀ t ∈ a, ∀ k ∈ nodesOfT t, σ (ρ k) = k := by
    intro t ht k hk
    have hex : ∃ k', P (ρ k) k' := ⟨k, ⟨t, ht, hk⟩, rfl⟩
    have hc := Classical.choose_spec hex
    show (if hn : ∃ k', P (ρ k) k' then Classical.choose hn else ρ k) = k
    rw [dif_pos hex]
    obtain ⟨⟨t', ht', hk'⟩, he⟩ := hc
    exact h.inj t' ht' t ht _ hk' k hk he
  have hback : ∀ s ∈ a, renT σ (renT ρ s) = s := by
    intro s hs
    rw [renT_comp]
    exact (renT_congr s (fun k hk => hσ s hs k hk)).trans (renT_id s)
  refine ⟨σ, ⟨?_, ?_⟩, hσ⟩
  · intro t ht t' ht' k hk k' hk' he
    obtain ⟨s, hs, rfl⟩ := List.mem_map.1 ((h.image t).1 ht)
    obtain ⟨s', hs', rfl⟩ := List.mem_map.1 ((h.image t').1 ht')
    obtain ⟨j, hj, rfl⟩ := mem_nodesOfT_ren hk
    obtain ⟨j', hj', rfl⟩ := mem_nodesOfT_ren hk'
    rw [hσ s hs j hj, hσ s' hs' j' hj'] at he
    rw [he]
  · intro t
    constructor
    · intro ht
      exact List.mem_map.2 ⟨renT ρ t, (h.image _).2 (List.mem_map_of_mem ht), hback t ht⟩
    · intro ht
      obtain ⟨u, hu, rfl⟩ := List.mem_map.1 ht
      obtain ⟨s, hs, rfl⟩ := List.mem_map.1 ((h.image u).1 hu)
      rw [hback s hs]
      exact hs

end Tfv
