import Tfv.Model.Sub
/-!
# Applying concrete function types (type.py:134-157, 556-591 on concrete types)

`unifyC L pol s t` mirrors `s.unify(t, subtype=True)` for variable-free types
(`pol = false` stands for the swapped call in a contravariant position).
-/
namespace Tfv

inductive CErr where
  | typeMismatch | subtypeMismatch | functionApplication
  deriving Repr, DecidableEq, Inhabited

mutual
def unifyC (L : Lang) : Bool → Ty → Ty → Except CErr Unit
  | pol, .app a as, .app b bs =>
    let lo := if pol then a else b
    let hi := if pol then b else a
    if lo == BOT || hi == TOP then .ok ()
    else if arityOf L lo == 0 then
      if opSub L lo hi then .ok () else .error .subtypeMismatch
    else if lo == hi then unifyCs L pol (varianceOf L lo) as bs
    else .error .typeMismatch
def unifyCs (L : Lang) : Bool → List Bool → List Ty → List Ty → Except CErr Unit
  | pol, v :: vs, s :: ss, t :: ts =>
    match unifyC L (pol == v) s t with
    | .ok () => unifyCs L pol vs ss ts
    | .error e => .error e
  | _, _, _, _ => .ok ()
end

/-- `Type.apply(self=f, arg=x)` on concrete types -/
def applyC (L : Lang) (f x : Ty) : Except CErr Ty :=
  match f with
  | .app o [a, b] =>
    if o == FUN then
      match unifyC L true x a with
      | .ok () => .ok b
      | .error e => .error e
    else if o == TOP then .ok (.app TOP []) else .error .functionApplication
  | .app o _ => if o == TOP then .ok (.app TOP []) else .error .functionApplication

end Tfv
