import Tfv.Proofs.WorkflowKeys
import Tfv.Proofs.GraphWorkflow
/-!
# Which concept node an expression object has (`expr_nodes`), and how `addExpr` / `wfNode` register it
-/
namespace Tfv

/-- `expr_nodes.get(expr)`: sources and tagged (shared) expressions have identity -/
def nodeOf (g : GState) : TExpr → Option Nat
  | .shared k _ => alook g.sharedNodes k
  | .src id _ _ => alook g.srcNodes id
  | _ => none

/-! ## the memo tables only grow -/

theorem GStep.srcNodes_ext {c : GCfg} {P : Triple → Prop} {Q : Term × Node → Prop} {g g' : GState}
    (h : GStep c P Q g g') : ∃ l, g'.srcNodes = g.srcNodes ++ l := by
  induction h with
  | refl g => exact ⟨[], by simp⟩
  | trans _ _ ih1 ih2 =>
    obtain ⟨l1, h1⟩ := ih1
    obtain ⟨l2, h2⟩ := ih2
    exact ⟨l1 ++ l2, by rw [h2, h1, List.append_assoc]⟩
  | ty h => exact ⟨[], by rw [h.srcNodes_eq]; simp⟩
  | addFrom g a b r => exact ⟨[], by unfold gAddFrom; split <;> simp⟩
  | pushSrc g x => exact ⟨[x], rfl⟩
  | pushShared g x => exact ⟨[], by simp⟩
  | pushInternal g x => exact ⟨[], by simp⟩

theorem GStep.sharedNodes_ext {c : GCfg} {P : Triple → Prop} {Q : Term × Node → Prop} {g g' : GState}
    (h : GStep c P Q g g') : ∃ l, g'.sharedNodes = g.sharedNodes ++ l := by
  induction h with
  | refl g => exact ⟨[], by simp⟩
  | trans _ _ ih1 ih2 =>
    obtain ⟨l1, h1⟩ := ih1
    obtain ⟨l2, h2⟩ := ih2
    exact ⟨l1 ++ l2, by rw [h2, h1, List.append_assoc]⟩
  | ty h => exact ⟨[], by rw [h.sharedNodes_eq]; simp⟩
  | addFrom g a b r => exact ⟨[], by unfold gAddFrom; split <;> simp⟩
  | pushSrc g x => exact ⟨[], by simp⟩
  | pushShared g x => exact ⟨[x], rfl⟩
  | pushInternal g x => exact ⟨[], by simp⟩

/-- a registered expression keeps its node -/
theorem GStep.nodeOf_stable {c : GCfg} {P : Triple → Prop} {Q : Term × Node → Prop} {g g' : GState}
    (h : GStep c P Q g g') {e : TExpr} {k : Nat} (hk : nodeOf g e = some k) : nodeOf g' e = some k := by
  obtain ⟨l1, h1⟩ := h.srcNodes_ext
  obtain ⟨l2, h2⟩ := h.sharedNodes_ext
  cases e with
  | src id l t => unfold nodeOf at hk ⊢; rw [h1]; exact alook_append_some hk
  | shared key e0 => unfold nodeOf at hk ⊢; rw [h2]; exact alook_append_some hk
  | op n t => cases hk
  | app f x t => cases hk

/-! ## `addExpr` registers tagged expressions only for the tags that occur in the expression -/

theorem gAddFrom_sharedNodes (c : GCfg) (g : GState) (a b : Nat) (r : Bool) :
    (gAddFrom c g a b r).sharedNodes = g.sharedNodes := by
  unfold gAddFrom; split <;> rfl

theorem foldl_sharedNodes {α : Type} (f : GState → α → GState) (hf : ∀ g x, (f g x).sharedNodes = g.sharedNodes)
    (l : List α) (g : GState) : (l.foldl f g).sharedNodes = g.sharedNodes :=
  foldl_rel (R := fun g g' => g'.sharedNodes = g.sharedNodes) (fun _ => rfl)
    (fun _ _ _ h1 h2 => by rw [h2, h1]) f l (fun g x _ => hf g x) g

theorem curOrFresh_sharedNodes (g : GState) (cur : Option Nat) : (curOrFresh g cur).1.sharedNodes = g.sharedNodes := by
  cases cur <;> rfl

theorem addOrigin_sharedNodes (c : GCfg) (origin : Option Node) (g : GState) (k : Nat) :
    (addOrigin c origin g k).sharedNodes = g.sharedNodes := by
  unfold addOrigin
  cases origin with
  | none => rfl
  | some o => simp only []; split
              · exact add_sharedNodes _ _
              · rfl

theorem addOrigin_srcNodes (c : GCfg) (origin : Option Node) (g : GState) (k : Nat) :
    (addOrigin c origin g k).srcNodes = g.srcNodes := by
  unfold addOrigin
  cases origin with
  | none => rfl
  | some o => simp only []; split
              · exact add_srcNodes _ _
              · rfl

/-- `annotateType`, whatever its `canonicalOverride`, only adds triples and type nodes -/
theorem Wfl.annotateType_tstep (G : GLang) (c : GCfg) (g : GState) (root : Node) (cur : Nat) (ty : Term)
    (mf : Bool) (co : Option Bool) (g' : GState) (h : annotateType G c g root cur ty mf co = .ok g') :
    TStep (fun _ => True) (fun _ => True) g g' := by
  unfold annotateType at h
  split at h
  · cases h
  · rename_i g1 tn h1
    have s1 : TStep (fun _ => True) (fun _ => True) g g1 :=
      (addType_step G c _ _ _ _ _ h1).mono (fun _ _ => trivial) (fun _ _ => trivial)
    simp only [] at h
    have sadd : ∀ (ga : GState) (t : Triple), TStep (fun _ => True) (fun _ => True) ga (ga.add t) :=
      fun ga t => .add ga t trivial
    have site : ∀ (b : Bool) (ga : GState) (t : Triple),
        TStep (fun _ => True) (fun _ => True) ga (if b = true then ga.add t else ga) := by
      intro b ga t; split
      · exact sadd _ _
      · exact .refl _
    have s234 := TStep.trans (sadd g1 (.b cur, .tf "type", tn))
      (.trans (site (c.withSupertypes && co.getD (inCanon G ty)) _ (.b cur, .tf "subtypeOf", tn))
        (site c.withMembership _ (root, .tf "containsType", tn)))
    split at h
    · simp only [Except.ok.injEq] at h; subst h
      exact .trans s1 s234
    · split at h
      · refine .trans s1 (.trans s234 ?_)
        refine foldlM_rel (R := TStep (fun _ => True) (fun _ => True)) .refl (fun _ _ _ => .trans) _ _ ?_ _ _ h
        intro ga s gb _ hs
        split at hs
        · cases hs
        · rename_i gc sn hsn
          simp only [Except.ok.injEq] at hs
          subst hs
          exact .trans ((addType_step G c _ _ _ _ _ hsn).mono (fun _ _ => trivial) (fun _ _ => trivial))
            (.trans (site c.withMembershipSupertypes gc (root, .tf "containsType", sn)) (site c.withSupertypes _ _))
      · simp only [Except.ok.injEq] at h; subst h
        exact .trans s1 s234

/-- a source that has no node yet, attached to node `cur` (the `.src` branch of the model's `addExpr`) -/
def Wfl.srcTail (G : GLang) (c : GCfg) (root : Node) (origin : Option Node) (g0 : GState) (cur id : Nat) (ty : Term) :
    Except GErr (GState × Nat) :=
  let g := { g0 with srcNodes := g0.srcNodes ++ [(id, cur)] }
  let r : Except GErr GState :=
    if c.withTypes && (inCanon G (normT G.store ty) || c.withNoncanonicalTypes) then
      annotateType G c g root cur (normT G.store ty) false (some (inCanon G (normT G.store ty))) else .ok g
  match r with
  | .error e => .error e
  | .ok g => .ok (addOrigin c origin g cur, cur)

/-- an operator leaf attached to node `cur` (the `.op` branch of the model's `addExpr`) -/
def Wfl.opTail (G : GLang) (c : GCfg) (root : Node) (origin : Option Node) (g0 : GState) (cur : Nat) (name : String)
    (ty : Term) (intermediate : Bool) : Except GErr (GState × Nat) :=
  let out := normT G.store (outputType 1000 ty)
  let g := opTriples c root g0 cur name
  let r : Except GErr GState :=
    if c.withTypes && (c.withNoncanonicalTypes || inCanon G out) && (c.withIntermediateTypes || !intermediate) then
      annotateType G c g root cur out true else .ok g
  match r with
  | .error e => .error e
  | .ok g => .ok (addOrigin c origin g cur, cur)

theorem Wfl.addExpr_src (G : GLang) (c : GCfg) (root : Node) (origin : Option Node) (g : GState) (id : Nat)
    (l : Option String) (ty : Term) (cur : Option Nat) (inter : Bool) :
    addExpr G c root origin g (.src id l ty) cur inter =
      match g.srcNodes.find? (fun p => p.1 == id) with
      | some p => .ok (g, p.2)
      | none => Wfl.srcTail G c root origin (curOrFresh g cur).1 (curOrFresh g cur).2 id ty := by
  cases cur <;> rw [addExpr] <;> rfl

theorem Wfl.addExpr_op (G : GLang) (c : GCfg) (root : Node) (origin : Option Node) (g : GState) (name : String)
    (ty : Term) (cur : Option Nat) (inter : Bool) :
    addExpr G c root origin g (.op name ty) cur inter =
      Wfl.opTail G c root origin (curOrFresh g cur).1 (curOrFresh g cur).2 name ty inter := by
  cases cur <;> rw [addExpr] <;> rfl

theorem Wfl.srcTail_nodes {G : GLang} {c : GCfg} {root : Node} {origin : Option Node} {g0 : GState} {cur id : Nat}
    {ty : Term} {g' : GState} {n : Nat} (h : Wfl.srcTail G c root origin g0 cur id ty = .ok (g', n)) :
    g'.sharedNodes = g0.sharedNodes ∧ g'.srcNodes = g0.srcNodes ++ [(id, cur)] ∧ n = cur := by
  unfold Wfl.srcTail at h
  simp only [] at h
  split at h
  · cases h
  · rename_i g2 hr
    simp only [Except.ok.injEq, Prod.mk.injEq] at h
    rw [← h.1, addOrigin_sharedNodes, addOrigin_srcNodes]
    refine ⟨?_, ?_, h.2.symm⟩
    · split at hr
      · rw [(Wfl.annotateType_tstep G c _ root cur _ false _ g2 hr).sharedNodes_eq]
      · simp only [Except.ok.injEq] at hr
        rw [← hr]
    · split at hr
      · rw [(Wfl.annotateType_tstep G c _ root cur _ false _ g2 hr).srcNodes_eq]
      · simp only [Except.ok.injEq] at hr
        rw [← hr]

theorem opTriples_sharedNodes (c : GCfg) (root : Node) (g : GState) (cur : Nat) (name : String) :
    (opTriples c root g cur name).sharedNodes = g.sharedNodes := by
  unfold opTriples
  split
  · simp only []
    split
    · rw [add_sharedNodes, add_sharedNodes]
    · rw [add_sharedNodes]
  · rfl

theorem Wfl.opTail_sharedNodes {G : GLang} {c : GCfg} {root : Node} {origin : Option Node} {g0 : GState} {cur : Nat}
    {name : String} {ty : Term} {inter : Bool} {g' : GState} {n : Nat}
    (h : Wfl.opTail G c root origin g0 cur name ty inter = .ok (g', n)) : g'.sharedNodes = g0.sharedNodes := by
  unfold Wfl.opTail at h
  simp only [] at h
  split at h
  · cases h
  · rename_i g2 hr
    simp only [Except.ok.injEq, Prod.mk.injEq] at h
    rw [← h.1, addOrigin_sharedNodes]
    split at hr
    · rw [(Wfl.annotateType_tstep G c _ root cur _ true _ g2 hr).sharedNodes_eq, opTriples_sharedNodes]
    · simp only [Except.ok.injEq] at hr
      rw [← hr, opTriples_sharedNodes]

theorem appPre_sharedNodes (g : GState) (fnode : Nat) (isFun : Bool) :
    (appPre g fnode isFun).1.sharedNodes = g.sharedNodes := by
  unfold appPre
  cases isFun with
  | false => rfl
  | true => simp only [if_true]; rw [add_sharedNodes]; rfl

theorem appWire_sharedNodes (c : GCfg) (origin : Option Node) (g : GState) (fnode xnode : Nat) (ci : Option Nat)
    (cur : Nat) : (appWire c origin g fnode xnode ci cur).sharedNodes = g.sharedNodes := by
  have w1 : ∀ g, (wire1 c g xnode ci).sharedNodes = g.sharedNodes := by
    intro g; unfold wire1; cases ci with
    | none => rfl
    | some i => exact gAddFrom_sharedNodes _ _ _ _ _
  have w3 : ∀ g, (wire3 c g xnode ci).sharedNodes = g.sharedNodes := by
    intro g; unfold wire3; cases ci with
    | none => rfl
    | some i => exact foldl_sharedNodes _ (fun g j => gAddFrom_sharedNodes _ _ _ _ _) _ _
  have w4 : ∀ g, (wire4 c g fnode xnode ci).sharedNodes = g.sharedNodes := by
    intro g; unfold wire4
    refine foldl_sharedNodes _ (fun g j => ?_) _ _
    split
    · exact gAddFrom_sharedNodes _ _ _ _ _
    · rfl
  have w5 : ∀ g rep, (wire5 c origin g fnode xnode ci rep).sharedNodes = g.sharedNodes := by
    intro g rep; unfold wire5; cases ci with
    | none => rfl
    | some i =>
      simp only []
      have hf := foldl_sharedNodes (fun g fin => if xnode != fin || rep then gAddFrom c g i fin else g) (fun g fin => by
        split
        · exact gAddFrom_sharedNodes _ _ _ _ _
        · rfl) (objectsOf g.fd.frm fnode).eraseDups g
      have := addOrigin_sharedNodes c origin
        ((objectsOf g.fd.frm fnode).eraseDups.foldl (fun g fin => if xnode != fin || rep then gAddFrom c g i fin else g) g) i
      unfold addOrigin at this
      rw [this, hf]
  unfold appWire
  rw [addOrigin_sharedNodes, w5, w4, w3, gAddFrom_sharedNodes, w1]

/-- every newly registered tag occurs in the expression -/
theorem addExpr_sharedKeys (G : GLang) (c : GCfg) (root : Node) (origin : Option Node) :
    ∀ (e : TExpr) (g : GState) (cur : Option Nat) (inter : Bool) (g' : GState) (n : Nat),
      addExpr G c root origin g e cur inter = .ok (g', n) →
      ∀ k ∈ g'.sharedNodes.map (·.1), k ∈ g.sharedNodes.map (·.1) ∨ k ∈ e.sharedKeys := by
  intro e
  induction e with
  | src id label ty =>
    intro g cur inter g' n h k hk
    rw [Wfl.addExpr_src] at h
    split at h
    · simp only [Except.ok.injEq, Prod.mk.injEq] at h
      rw [← h.1] at hk; exact .inl hk
    · rw [(Wfl.srcTail_nodes h).1, curOrFresh_sharedNodes] at hk; exact .inl hk
  | op name ty =>
    intro g cur inter g' n h k hk
    rw [Wfl.addExpr_op] at h
    rw [Wfl.opTail_sharedNodes h, curOrFresh_sharedNodes] at hk; exact .inl hk
  | app f x ty ihf ihx =>
    intro g cur inter g' n h k hk
    rw [addExpr_app] at h
    split at h
    · cases h
    · rename_i g1 fnode hf
      split at h
      · cases h
      · rename_i g2 xnode hx
        simp only [Except.ok.injEq, Prod.mk.injEq] at h
        rw [← h.1, appWire_sharedNodes] at hk
        rcases ihx _ _ _ _ _ hx k hk with hk | hk
        · rw [appPre_sharedNodes] at hk
          have hk' : k ∈ g1.sharedNodes.map (·.1) := hk
          rcases ihf _ _ _ _ _ hf k hk' with hk | hk
          · rw [curOrFresh_sharedNodes] at hk; exact .inl hk
          · exact .inr (List.mem_append_left _ hk)
        · exact .inr (List.mem_append_right _ hk)
  | shared key e ih =>
    intro g cur inter g' n h k hk
    rw [addExpr_shared] at h
    split at h
    · simp only [Except.ok.injEq, Prod.mk.injEq] at h
      rw [← h.1] at hk; exact .inl hk
    · split at h
      · cases h
      · rename_i g1 m he
        simp only [Except.ok.injEq, Prod.mk.injEq] at h
        rw [← h.1] at hk
        simp only [List.map_append, List.map_cons, List.map_nil, List.mem_append, List.mem_singleton] at hk
        rcases hk with hk | rfl
        · rcases ih _ _ _ _ _ he k hk with hk | hk
          · exact .inl hk
          · exact .inr (List.mem_cons_of_mem _ hk)
        · exact .inr List.mem_cons_self

/-! ## tagged expressions: one node per tag -/

/-- a tag that has a node: `addExpr` returns it and changes nothing -/
theorem addExpr_shared_hit (G : GLang) (c : GCfg) (root : Node) (origin : Option Node) (g : GState) (k : Nat)
    (e : TExpr) (cur : Option Nat) (inter : Bool) (n : Nat) (h : alook g.sharedNodes k = some n) :
    addExpr G c root origin g (.shared k e) cur inter = .ok (g, n) := by
  rw [addExpr_shared]
  unfold alook at h
  cases hf : g.sharedNodes.find? (fun p => p.1 == k) with
  | none => rw [hf] at h; cases h
  | some p =>
    rw [hf] at h
    simp only [Option.map_some, Option.some.injEq] at h
    simp only [h]

/-- a tag without a node: the graph of the expression, plus the registration of its node under the tag -/
theorem addExpr_shared_miss (G : GLang) (c : GCfg) (root : Node) (origin : Option Node) (g : GState) (k : Nat)
    (e : TExpr) (cur : Option Nat) (inter : Bool) (h : alook g.sharedNodes k = none) :
    addExpr G c root origin g (.shared k e) cur inter =
      match addExpr G c root origin g e cur inter with
      | .error err => .error err
      | .ok (g1, n) => .ok ({ g1 with sharedNodes := g1.sharedNodes ++ [(k, n)] }, n) := by
  rw [addExpr_shared]
  unfold alook at h
  cases hf : g.sharedNodes.find? (fun p => p.1 == k) with
  | none => rfl
  | some p => rw [hf] at h; cases h

/-- after `addExpr` on a source, the source has the returned node -/
theorem addExpr_src_registers (G : GLang) (c : GCfg) (root : Node) (origin : Option Node) (g : GState) (id : Nat)
    (l : Option String) (ty : Term) (cur : Option Nat) (inter : Bool) (g' : GState) (n : Nat)
    (h : addExpr G c root origin g (.src id l ty) cur inter = .ok (g', n)) : alook g'.srcNodes id = some n := by
  rw [Wfl.addExpr_src] at h
  cases hf : g.srcNodes.find? (fun p => p.1 == id) with
  | some p =>
    rw [hf] at h
    simp only [Except.ok.injEq, Prod.mk.injEq] at h
    rw [← h.1, ← h.2]; unfold alook; rw [hf]; rfl
  | none =>
    rw [hf] at h
    simp only [] at h
    have hnone : alook (curOrFresh g cur).1.srcNodes id = none := by
      have : (curOrFresh g cur).1.srcNodes = g.srcNodes := by cases cur <;> rfl
      rw [this]; unfold alook; rw [hf]; rfl
    obtain ⟨_, h2, h3⟩ := Wfl.srcTail_nodes h
    rw [h2, h3, alook_append_none hnone, alook_singleton]

/-- after `addExpr` on a tagged expression that does not contain its own tag, the tag has the returned node -/
theorem addExpr_shared_registers (G : GLang) (c : GCfg) (root : Node) (origin : Option Node) (g : GState) (k : Nat)
    (e : TExpr) (cur : Option Nat) (inter : Bool) (g' : GState) (n : Nat) (hk : k ∉ e.sharedKeys)
    (h : addExpr G c root origin g (.shared k e) cur inter = .ok (g', n)) : alook g'.sharedNodes k = some n := by
  cases hl : alook g.sharedNodes k with
  | some m =>
    rw [addExpr_shared_hit G c root origin g k e cur inter m hl] at h
    simp only [Except.ok.injEq, Prod.mk.injEq] at h
    rw [← h.1, ← h.2]; exact hl
  | none =>
    rw [addExpr_shared_miss G c root origin g k e cur inter hl] at h
    split at h
    · cases h
    · rename_i g1 m he
      simp only [Except.ok.injEq, Prod.mk.injEq] at h
      rw [← h.1, ← h.2]
      show alook (g1.sharedNodes ++ [(k, m)]) k = some m
      have : alook g1.sharedNodes k = none := by
        rw [alook_none_iff]
        intro hmem
        rcases addExpr_sharedKeys G c root origin e g cur inter g1 m he k hmem with h1 | h1
        · exact (alook_none_iff.1 hl) h1
        · exact hk h1
      rw [alook_append_none this, alook_singleton]

/-! ## `wfNode` -/

def wfNodeInputsStep (G : GLang) (c : GCfg) (w : Wf) (root : Node) (exprs : List (Nat × TExpr)) (n : Nat)
    (g : GState) (i : Nat) : Except WErr GState :=
  match wfNode G c w root exprs n g i with
  | .error e => Except.error e
  | .ok (g', _) => .ok g'

/-- the graph after the nodes of the inputs of resource `r` have been made -/
def wfNodeInputs (G : GLang) (c : GCfg) (w : Wf) (root : Node) (exprs : List (Nat × TExpr)) (n : Nat)
    (g : GState) (r : Nat) : Except WErr GState :=
  if w.sources.contains r then .ok g else
  match w.app? r with
  | none => .ok g
  | some a => a.inputs.foldlM (wfNodeInputsStep G c w root exprs n) g

theorem wfNode_zero (G : GLang) (c : GCfg) (w : Wf) (root : Node) (exprs : List (Nat × TExpr)) (g : GState) (r : Nat) :
    wfNode G c w root exprs 0 g r = .error (.internal "fuel") := by
  rw [wfNode]

theorem wfNode_succ (G : GLang) (c : GCfg) (w : Wf) (root : Node) (exprs : List (Nat × TExpr)) (n : Nat)
    (g : GState) (r : Nat) :
    wfNode G c w root exprs (n+1) g r =
      match alook exprs r with
      | none => .error (.internal "unknown resource")
      | some e =>
        match nodeOf g e with
        | some k => .ok (g, k)
        | none =>
          match wfNodeInputs G c w root exprs n g r with
          | .error e => .error e
          | .ok g1 =>
            match addExpr G c root (some (.res (w.resName r))) g1 e none false with
            | .error ge => .error (.graph ge)
            | .ok (g2, node) => .ok (g2, node) := by
  rw [wfNode]
  unfold alook
  cases (exprs.find? (fun p => p.1 == r)).map (·.2) with
  | none => rfl
  | some e => cases e <;> rfl

end Tfv
