import Tfv.Proofs.WildConstrStrict
import Tfv.Proofs.ResolvedConstrReach
/-!
# Stability of the strict matcher (`match3 … = some true` without wildcards) under later bindings

* `loop_true_transfer`: the argument loop transfers `some true` between two stores / fuels if `match3` does.
* `match3_true_fuel_le`: `some true` is kept by more fuel (any store, any flags).
* `match3_true_ext`: on a wildcard-free store, `some true` with fuel `n` is kept in every extension `σ'` (`Ext`, `Chains`)
  with fuel `n + d`, provided every variable of `σ'` matches itself with every fuel above `d` (`ReflD`: the bindings of
  `σ'` resolve within depth `d`; without such a bound the model's matcher runs out of fuel, see WildReachDeep.lean).
* `strict_stable`: the same for the strict matcher on arbitrary stores (through `dewild`).
-/
namespace Tfv.C03X
open Tfv Tfv.C03P Tfv.C03C Tfv.C03R Tfv.C16P Tfv.C17E

theorem loop_true_transfer {L : Lang} {σ σ' : Store} {n m : Nat} {st aw : Bool}
    (ih : ∀ a b, match3 L σ n st aw a b = some true → match3 L σ' m st aw a b = some true) :
    ∀ (vs : List Bool) (ss ts : List Term) (acc : Option Bool),
      match3.loop L σ n st aw vs ss ts acc = some true →
      match3.loop L σ' m st aw vs ss ts acc = some true := by
  intro vs
  induction vs with
  | nil =>
    intro ss ts acc h
    rw [loop_not_cons _ _ _ _ _ _ _ _ _ (by rintro ⟨_, _, _, _, _, _, h, _, _⟩; cases h)] at h ⊢
    exact h
  | cons v vs ihv =>
    intro ss ts acc h
    cases ss with
    | nil =>
      rw [loop_not_cons _ _ _ _ _ _ _ _ _ (by rintro ⟨_, _, _, _, _, _, _, h, _⟩; cases h)] at h ⊢
      exact h
    | cons s ss =>
      cases ts with
      | nil =>
        rw [loop_not_cons _ _ _ _ _ _ _ _ _ (by rintro ⟨_, _, _, _, _, _, _, _, h⟩; cases h)] at h ⊢
        exact h
      | cons t ts =>
        rw [match3.loop.eq_1] at h
        split at h
        · cases h
        · exact absurd h (loop_none_ne_true L σ n st aw vs ss ts)
        · next hm =>
          have hl : (if v = true then match3 L σ' m st aw s t else match3 L σ' m st aw t s) = some true := by
            cases v with
            | true => simpa using ih s t (by simpa using hm)
            | false => simpa using ih t s (by simpa using hm)
          rw [match3.loop.eq_1, hl]
          exact ihv ss ts acc h

/-- `match3` reads its arguments through `followT` only -/
theorem match3_follow_congr (L : Lang) (σ : Store) (n : Nat) (st aw : Bool) {a b a' b' : Term}
    (ha : followT σ a = followT σ a') (hb : followT σ b = followT σ b') :
    match3 L σ (n+1) st aw a b = match3 L σ (n+1) st aw a' b' := by
  rw [match3.eq_2, match3.eq_2, ha, hb]

/-- more fuel keeps `some true` -/
theorem match3_true_fuel_succ (L : Lang) (σ : Store) (st aw : Bool) : ∀ (n : Nat) (a b : Term),
    match3 L σ n st aw a b = some true → match3 L σ (n+1) st aw a b = some true
  | 0, a, b, h => by rw [match3_zero] at h; cases h
  | n+1, a, b, h => by
    rw [match3.eq_2] at h ⊢
    cases ea : followT σ a with
    | var av =>
      cases eb : followT σ b with
      | var bv => rw [ea, eb] at h; exact h
      | app bo bs => rw [ea, eb] at h; exact h
    | app ao as =>
      cases eb : followT σ b with
      | var bv => rw [ea, eb] at h; exact h
      | app bo bs =>
        rw [ea, eb] at h
        simp only [] at h ⊢
        split at h
        · next e => rw [if_pos e]
        · next e =>
          rw [if_neg e]
          split at h
          · next e2 => rw [if_pos e2]; exact h
          · next e2 =>
            rw [if_neg e2]
            split at h
            · cases h
            · next e3 =>
              rw [if_neg e3]
              exact loop_true_transfer (match3_true_fuel_succ L σ st aw n) _ _ _ _ h

theorem match3_true_fuel_add (L : Lang) (σ : Store) (st aw : Bool) (n : Nat) (a b : Term)
    (h : match3 L σ n st aw a b = some true) : ∀ k, match3 L σ (n+k) st aw a b = some true
  | 0 => h
  | k+1 => match3_true_fuel_succ L σ st aw (n+k) a b (match3_true_fuel_add L σ st aw n a b h k)

theorem match3_true_fuel_le (L : Lang) (σ : Store) (st aw : Bool) {n m : Nat} (hnm : n ≤ m) (a b : Term)
    (h : match3 L σ n st aw a b = some true) : match3 L σ m st aw a b = some true := by
  obtain ⟨k, rfl⟩ := Nat.exists_eq_add_of_le hnm
  exact match3_true_fuel_add L σ st aw n a b h k

/-- every variable of the store matches itself with every fuel above `d`: the bindings resolve within depth `d` -/
def ReflD (L : Lang) (σ : Store) (st : Bool) (d : Nat) : Prop :=
  ∀ k v, d < k → match3 L σ k st false (.var v) (.var v) = some true

/-- executable form of `ReflD` -/
def reflDB (L : Lang) (σ : Store) (st : Bool) (d : Nat) : Bool :=
  (List.range σ.vars.length).all (fun v => match3 L σ (d+1) st false (.var v) (.var v) == some true)

theorem getVar_ge {σ : Store} {v : Nat} (h : σ.vars.length ≤ v) : getVar σ v = {} := by
  unfold getVar
  rw [List.getD_eq_getElem?_getD, List.getElem?_eq_none h]
  rfl

theorem reflDB_sound {L : Lang} {σ : Store} {st : Bool} {d : Nat} (h : reflDB L σ st d = true) : ReflD L σ st d := by
  intro k v hk
  apply match3_true_fuel_le L σ st false (Nat.succ_le_of_lt hk)
  by_cases hv : v < σ.vars.length
  · have := List.all_eq_true.mp h v (List.mem_range.mpr hv)
    simpa using this
  · have hg : getVar σ v = {} := getVar_ge (Nat.le_of_not_lt hv)
    have hf : followT σ (.var v) = .var v := by
      unfold followT
      rw [follow_succ_var, hg]
    rw [match3.eq_2, hf]
    simp

/-- stability on wildcard-free stores -/
theorem match3_true_ext {L : Lang} {σ σ' : Store} {st : Bool} {d : Nat} (nw : NoWild σ) (e : Ext σ σ')
    (hc' : Chains σ') (hr : ReflD L σ' st d) : ∀ (n : Nat) (a b : Term),
    match3 L σ n st false a b = some true → match3 L σ' (n+d) st false a b = some true
  | 0, a, b, h => by rw [match3_zero] at h; cases h
  | n+1, a, b, h => by
    have hfuel : n + 1 + d = (n + d) + 1 := by omega
    rw [hfuel]
    rw [match3.eq_2] at h
    cases ea : followT σ a with
    | var av =>
      cases eb : followT σ b with
      | var bv =>
        rw [ea, eb] at h
        simp only [nw av, nw bv, Bool.and_self, Bool.or_false, Bool.false_eq_true, if_false] at h
        split at h
        · next e1 =>
          have e1' : av = bv := by simpa using e1
          subst e1'
          have h1 : followT σ' a = followT σ' (.var av) := by rw [e.followT_comp hc' a, ea]
          have h2 : followT σ' b = followT σ' (.var av) := by rw [e.followT_comp hc' b, eb]
          rw [match3_follow_congr L σ' (n+d) st false h1 h2]
          exact hr _ av (by omega)
        · split at h
          · split at h <;> cases h
          · cases h
      | app bo bs =>
        rw [ea, eb] at h
        simp only [nw av, Bool.and_false, Bool.false_eq_true, if_false] at h
        have eb' := e.followT_app eb
        rw [match3.eq_2, eb']
        split at h
        · next e1 =>
          cases ea' : followT σ' a with
          | var av' => simp only [e1, if_true]
          | app ao as =>
            simp only []
            have : (st && (ao == BOT || bo == TOP)) = true := by
              simp only [Bool.and_eq_true, Bool.or_eq_true] at e1 ⊢
              exact ⟨e1.1, Or.inr e1.2⟩
            rw [if_pos this]
        · split at h
          · cases h
          · split at h
            · cases h
            · split at h <;> cases h
    | app ao as =>
      have ea' := e.followT_app ea
      cases eb : followT σ b with
      | var bv =>
        rw [ea, eb] at h
        simp only [nw bv, Bool.and_false, Bool.false_eq_true, if_false] at h
        rw [match3.eq_2, ea']
        split at h
        · next e1 =>
          cases eb' : followT σ' b with
          | var bv' => simp only [e1, if_true]
          | app bo bs =>
            simp only []
            have : (st && (ao == BOT || bo == TOP)) = true := by
              simp only [Bool.and_eq_true, Bool.or_eq_true] at e1 ⊢
              exact ⟨e1.1, Or.inl e1.2⟩
            rw [if_pos this]
        · split at h
          · cases h
          · split at h
            · cases h
            · split at h <;> cases h
      | app bo bs =>
        have eb' := e.followT_app eb
        rw [ea, eb] at h
        rw [match3.eq_2, ea', eb']
        simp only [] at h ⊢
        split at h
        · next e1 => rw [if_pos e1]
        · next e1 =>
          rw [if_neg e1]
          split at h
          · next e2 => rw [if_pos e2]; exact h
          · next e2 =>
            rw [if_neg e2]
            split at h
            · cases h
            · next e3 =>
              rw [if_neg e3]
              exact loop_true_transfer (match3_true_ext nw e hc' hr n) _ _ _ _ h

end Tfv.C03X
