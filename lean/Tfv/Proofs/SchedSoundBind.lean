import Tfv.Proofs.SchedSoundEq
/-!
# C18 (soundness under every schedule): `aboveS`, `belowS`, `bindS`

Port of `InferConstrBind.lean` to the scheduled engine: the statements of the induction on the fuel and
the steps for `aboveS`, `belowS`, `bindS`. The schedule does not matter here: the re-check of the
constraints enters through the hypothesis `CheckCO` only.
-/
namespace Tfv.C18S
open Tfv Tfv.C03P Tfv.C03C

variable {ord : List Nat → List Nat}

/-! ## 1. the statements -/

def BindCO (L : Lang) (ord : List Nat → List Nat) (n : Nat) : Prop :=
  ∀ σ v t σ', OkStoreC L σ → v < σ.vars.length → okTerm L σ t = true →
    BindPre L σ v t → bindS L ord n σ v t = .ok σ' →
    StepC L σ σ' ∧ ∀ ρ, Sat L ρ σ' → ρ v = den ρ t

def AboveCO (L : Lang) (ord : List Nat → List Nat) (n : Nat) : Prop :=
  ∀ σ v new σ', OkStoreC L σ → v < σ.vars.length → new < L.length →
    arityOf L new = 0 → aboveS L ord n σ v new = .ok σ' →
    StepC L σ σ' ∧ ∀ ρ, Sat L ρ σ' → Sub L (.app new []) (ρ v)

def BelowCO (L : Lang) (ord : List Nat → List Nat) (n : Nat) : Prop :=
  ∀ σ v new σ', OkStoreC L σ → v < σ.vars.length → new < L.length →
    arityOf L new = 0 → belowS L ord n σ v new = .ok σ' →
    StepC L σ σ' ∧ ∀ ρ, Sat L ρ σ' → Sub L (ρ v) (.app new [])

/-- `unify` in subtype mode with arbitrary `skip_basic` / `skip_wildcard`: always a sound successor;
the subtype relation is established when nothing is skipped -/
def UnifyCO (L : Lang) (ord : List Nat → List Nat) (n : Nat) : Prop :=
  ∀ σ a b sb sw σ', OkStoreC L σ → okTerm L σ a = true → okTerm L σ b = true →
    unifyS L ord n σ a b true sb sw = .ok σ' →
    StepC L σ σ' ∧ (sb = false → sw = false → ∀ ρ, Sat L ρ σ' → Sub L (den ρ a) (den ρ b))

def CheckCO (L : Lang) (ord : List Nat → List Nat) (n : Nat) : Prop :=
  ∀ σ v σ', OkStoreC L σ → checkConstraintsS L ord n σ v = .ok σ' → StepC L σ σ'

/-! ## 2. `above` -/

theorem above_stepCO {L : Lang} (wf : WF L) {n : Nat} (hbind : BindCO L ord n) (hcheck : CheckCO L ord n) :
    AboveCO L ord (n+1) := by
  intro σ v new σ' okc hv hnew hnew0 h
  have ok := okc.ok
  unfold aboveS at h
  split at h
  · next htop =>
    have htop : new = TOP := by simpa using htop
    subst htop
    obtain ⟨s, hs⟩ := hbind σ v _ σ' okc hv (okTerm_base hnew hnew0)
      (by
        intro o args e _
        injection e with e1 _
        subst e1
        refine ⟨fun l _ => Or.inl ?_, fun u _ => Or.inr ?_⟩
        · unfold opSub; simp
        · unfold opSub; simp) h
    refine ⟨s, fun ρ hρ => ?_⟩
    rw [hs ρ hρ, den_app, denL_nil]
    exact Sub.top _
  · simp only [] at h
    split at h
    · cases h
    · next hnb =>
      have hnb : (getVar σ v).bound = none := by simpa using hnb
      split at h
      · cases h
      · next σr hr =>
        -- the intermediate store `σr`
        have key : StepC L σ σr ∧ ∀ ρ, Sat L ρ σr → Sub L (.app new []) (ρ v) := by
          have c1 : SameCore σ (setVar σ v { (getVar σ v) with wildcard := false }) :=
            sameCore_setVar rfl rfl rfl
          split at hr
          · cases hr
          · split at hr
            · cases hr
            · next hu1 hu2 =>
              split at hr
              · next hl1 =>
                injection hr with hr
                subst hr
                refine ⟨StepC.of_sameCore okc c1 rfl okc.crange (wildMono_setVar (fun h => Bool.noConfusion h)), fun ρ hρ => ?_⟩
                have hρ0 := c1.sat hρ
                cases hl : (getVar σ v).lower with
                | none => rw [hl] at hl1; simp at hl1
                | some l =>
                  rw [hl] at hl1
                  simp only [Option.any_some] at hl1
                  have hl0 := ok.lower v l hl
                  exact sub_trans wf _ _ _
                    (sub_base_of_opSub wf hnew0 hl0.2 (opSub_strict_imp hl1)) (hρ0.lower v l hnb hl)
              · next hl1 =>
                split at hr
                · next hl2 =>
                  have U : Upd σ _ v _ _ _ :=
                    Upd.sameCore_left c1 (upd_setVar (by rw [length_setVar]; exact hv)
                      { bound := (getVar σ v).bound, lower := some new, upper := (getVar σ v).upper,
                        cset := (getVar σ v).cset })
                  have ok' : OkStore L _ := U.okStore ok
                    (fun t ht => by rw [hnb] at ht; cases ht)
                    (fun o ho => by injection ho with ho; subst ho; exact ⟨hnew, hnew0⟩)
                    (ok.upper v)
                    (fun x y hx hy => by
                      injection hx with hx; subst hx
                      rw [hy] at hu2
                      simpa using hu2)
                    (fun o args ht => by rw [hnb] at ht; cases ht)
                  have okc' : OkStoreC L _ :=
                    okc.transfer ok' (Nat.le_of_eq U.len.symm) rfl okc.crange
                  have sm : StepC L σ _ := StepC.of_frame okc' (Nat.le_of_eq U.len.symm) rfl (wildMono_setVar2 rfl rfl) (fun ρ hρ => by
                    refine U.sat_back hρ (fun t ht => by rw [hnb] at ht; cases ht) ?_ ?_
                    · intro x _ hx
                      rw [hx] at hl2
                      simp only [Option.all_some] at hl2
                      exact sub_trans wf _ _ _ (sub_base_of_opSub wf (ok.lower v x hx).2 hnew0 hl2)
                        (hρ.lower v new (U.b_eq.trans hnb) U.l_eq)
                    · intro x _ hx
                      exact hρ.upper v x (U.b_eq.trans hnb) (U.u_eq.trans hx))
                  have s2 := hcheck _ v σr okc' hr
                  exact ⟨sm.trans s2, fun ρ hρ => (s2.sat ρ hρ).lower v new (U.b_eq.trans hnb) U.l_eq⟩
                · cases hr
        obtain ⟨s1, hsub⟩ := key
        split at h
        · next hc =>
          split at h
          · next l hl =>
            have hl0 := s1.ok.ok.lower v l hl
            obtain ⟨s2, _⟩ := hbind σr v _ σ' s1.ok (Nat.lt_of_lt_of_le hv s1.len)
              (okTerm_base hl0.1 hl0.2)
              (by
                intro o args e _
                injection e with e1 _
                subst e1
                simp only [Bool.and_eq_true, beq_iff_eq] at hc
                refine ⟨fun l' hl' => Or.inl ?_, fun u hu => Or.inl ?_⟩
                · rw [hl] at hl'; injection hl' with hl'; subst hl'; exact opSub_self L _
                · rw [← hc.2, hl] at hu; injection hu with hu; subst hu; exact opSub_self L _) h
            exact ⟨s1.trans s2, fun ρ hρ => hsub ρ (s2.sat ρ hρ)⟩
          · injection h with h; subst h
            exact ⟨s1, hsub⟩
        · injection h with h; subst h
          exact ⟨s1, hsub⟩

/-! ## 3. `below` -/

theorem below_stepCO {L : Lang} (wf : WF L) {n : Nat} (hbind : BindCO L ord n) (hcheck : CheckCO L ord n) :
    BelowCO L ord (n+1) := by
  intro σ v new σ' okc hv hnew hnew0 h
  have ok := okc.ok
  unfold belowS at h
  split at h
  · next hbot =>
    have hbot : new = BOT := by simpa using hbot
    subst hbot
    obtain ⟨s, hs⟩ := hbind σ v _ σ' okc hv (okTerm_base hnew hnew0)
      (by
        intro o args e _
        injection e with e1 _
        subst e1
        refine ⟨fun l _ => Or.inr ?_, fun u _ => Or.inl ?_⟩
        · unfold opSub; simp
        · unfold opSub; simp) h
    refine ⟨s, fun ρ hρ => ?_⟩
    rw [hs ρ hρ, den_app, denL_nil]
    exact Sub.bot _
  · simp only [] at h
    split at h
    · cases h
    · next hnb =>
      have hnb : (getVar σ v).bound = none := by simpa using hnb
      split at h
      · cases h
      · next σr hr =>
        have key : StepC L σ σr ∧ ∀ ρ, Sat L ρ σr → Sub L (ρ v) (.app new []) := by
          have c1 : SameCore σ (setVar σ v { (getVar σ v) with wildcard := false }) :=
            sameCore_setVar rfl rfl rfl
          split at hr
          · cases hr
          · split at hr
            · cases hr
            · next hl1 hl2 =>
              split at hr
              · next hu1 =>
                injection hr with hr
                subst hr
                refine ⟨StepC.of_sameCore okc c1 rfl okc.crange (wildMono_setVar (fun h => Bool.noConfusion h)), fun ρ hρ => ?_⟩
                have hρ0 := c1.sat hρ
                cases hu : (getVar σ v).upper with
                | none => rw [hu] at hu1; simp at hu1
                | some u =>
                  rw [hu] at hu1
                  simp only [Option.any_some] at hu1
                  have hu0 := ok.upper v u hu
                  exact sub_trans wf _ _ _ (hρ0.upper v u hnb hu)
                    (sub_base_of_opSub wf hu0.2 hnew0 (opSub_strict_imp hu1))
              · next hu1 =>
                split at hr
                · next hu2 =>
                  have U : Upd σ _ v _ _ _ :=
                    Upd.sameCore_left c1 (upd_setVar (by rw [length_setVar]; exact hv)
                      { bound := (getVar σ v).bound, lower := (getVar σ v).lower, upper := some new,
                        cset := (getVar σ v).cset })
                  have ok' : OkStore L _ := U.okStore ok
                    (fun t ht => by rw [hnb] at ht; cases ht)
                    (ok.lower v)
                    (fun o ho => by injection ho with ho; subst ho; exact ⟨hnew, hnew0⟩)
                    (fun x y hx hy => by
                      injection hy with hy; subst hy
                      rw [hx] at hl2
                      simpa using hl2)
                    (fun o args ht => by rw [hnb] at ht; cases ht)
                  have okc' : OkStoreC L _ :=
                    okc.transfer ok' (Nat.le_of_eq U.len.symm) rfl okc.crange
                  have sm : StepC L σ _ := StepC.of_frame okc' (Nat.le_of_eq U.len.symm) rfl (wildMono_setVar2 rfl rfl) (fun ρ hρ => by
                    refine U.sat_back hρ (fun t ht => by rw [hnb] at ht; cases ht) ?_ ?_
                    · intro x _ hx
                      exact hρ.lower v x (U.b_eq.trans hnb) (U.l_eq.trans hx)
                    · intro x _ hx
                      rw [hx] at hu2
                      simp only [Option.all_some] at hu2
                      exact sub_trans wf _ _ _ (hρ.upper v new (U.b_eq.trans hnb) U.u_eq)
                        (sub_base_of_opSub wf hnew0 (ok.upper v x hx).2 hu2))
                  have s2 := hcheck _ v σr okc' hr
                  exact ⟨sm.trans s2, fun ρ hρ => (s2.sat ρ hρ).upper v new (U.b_eq.trans hnb) U.u_eq⟩
                · cases hr
        obtain ⟨s1, hsub⟩ := key
        split at h
        · next hc =>
          split at h
          · next u hu =>
            have hu0 := s1.ok.ok.upper v u hu
            obtain ⟨s2, _⟩ := hbind σr v _ σ' s1.ok (Nat.lt_of_lt_of_le hv s1.len)
              (okTerm_base hu0.1 hu0.2)
              (by
                intro o args e _
                injection e with e1 _
                subst e1
                simp only [Bool.and_eq_true, beq_iff_eq] at hc
                refine ⟨fun l hl => Or.inl ?_, fun u' hu' => Or.inl ?_⟩
                · rw [← hc.2, hu] at hl; injection hl with hl; subst hl; exact opSub_self L _
                · rw [hu] at hu'; injection hu' with hu'; subst hu'; exact opSub_self L _) h
            exact ⟨s1.trans s2, fun ρ hρ => hsub ρ (s2.sat ρ hρ)⟩
          · injection h with h; subst h
            exact ⟨s1, hsub⟩
        · injection h with h; subst h
          exact ⟨s1, hsub⟩


theorem bind_stepCO {L : Lang} (wf : WF L) {n : Nat} (hunify : UnifyCO L ord n) (hcheck : CheckCO L ord n) :
    BindCO L ord (n+1) := by
  intro σ v t σ' okc hv ht hpre h
  have ok := okc.ok
  cases t with
  | var tv =>
    rw [bindS_var_eq] at h
    split at h
    · cases h
    · next hnb =>
      have hnb : (getVar σ v).bound = none := by simpa using hnb
      split at h
      · next htv =>
        have htv : tv = v := by simpa using htv
        injection h with h
        subst h
        subst htv
        exact ⟨StepC.of_sameCore okc (sameCore_clearW σ tv) rfl okc.crange
          (wildMono_setVar (fun h => Bool.noConfusion h)), fun ρ _ => (den_var ρ tv).symm⟩
      · have U := upd_bindVarStore hv tv
        have okB : OkStore L (bindVarStore σ v tv) := U.okStore ok
          (fun t' e => by injection e with e; subst e; exact ht)
          (ok.lower v) (ok.upper v) (ok.ordered v) (fun o args e => by cases e)
        have okcB : OkStoreC L (bindVarStore σ v tv) :=
          okc.transfer okB (Nat.le_of_eq U.len.symm) rfl (csR_bindVarStore okc.crange v tv)
        have htv : tv < (bindVarStore σ v tv).vars.length := by
          rw [U.len]; exact okTerm_var.mp ht
        split at h
        · cases h
        · next σ1 h1 =>
          have k1 : StepC L (bindVarStore σ v tv) σ1 ∧
              ∀ ρ, Sat L ρ σ1 → ∀ l, (getVar σ v).lower = some l → Sub L (.app l []) (ρ tv) := by
            split at h1
            · next l hl =>
              obtain ⟨s, hs⟩ := hunify _ (.app l []) (.var tv) false false σ1 okcB
                (okTerm_base (ok.lower v l hl).1 (ok.lower v l hl).2) (okTerm_var.mpr htv) h1
              refine ⟨s, fun ρ hρ l' hl' => ?_⟩
              rw [hl] at hl'; injection hl' with hl'; subst hl'
              have := hs rfl rfl ρ hρ
              rw [den_app, denL_nil, den_var] at this
              exact this
            · next hl =>
              injection h1 with h1; subst h1
              exact ⟨StepC.refl okcB, fun ρ _ l' hl' => by rw [hl] at hl'; cases hl'⟩
          split at h
          · cases h
          · next σ2 h2 =>
            have k2 : StepC L σ1 σ2 ∧
                ∀ ρ, Sat L ρ σ2 → ∀ u, (getVar σ v).upper = some u → Sub L (ρ tv) (.app u []) := by
              split at h2
              · next u hu =>
                obtain ⟨s, hs⟩ := hunify _ (.var tv) (.app u []) false false σ2 k1.1.ok
                  (okTerm_var.mpr (Nat.lt_of_lt_of_le htv k1.1.len))
                  (okTerm_base (ok.upper v u hu).1 (ok.upper v u hu).2) h2
                refine ⟨s, fun ρ hρ u' hu' => ?_⟩
                rw [hu] at hu'; injection hu' with hu'; subst hu'
                have := hs rfl rfl ρ hρ
                rw [den_app, denL_nil, den_var] at this
                exact this
              · next hu =>
                injection h2 with h2; subst h2
                exact ⟨StepC.refl k1.1.ok, fun ρ _ u' hu' => by rw [hu] at hu'; cases hu'⟩
            have s3 := hcheck σ2 v σ' k2.1.ok h
            have sB := k1.1.trans (k2.1.trans s3)
            have heq : ∀ ρ, Sat L ρ σ' → ρ v = ρ tv := fun ρ hρ => by
              have := (sB.sat ρ hρ).bound v (.var tv) U.b_eq
              rw [den_var] at this; exact this
            refine ⟨StepC.of_pre sB rfl (wildMono_bindVarStore σ v tv) ?_ (fun ρ hρ => ?_),
              fun ρ hρ => by rw [den_var]; exact heq ρ hρ⟩
            · have := sB.len; rw [U.len] at this; exact this
            · refine U.sat_back (sB.sat ρ hρ) (fun t' e => by rw [hnb] at e; cases e) ?_ ?_
              · intro x _ hx
                rw [heq ρ hρ]
                exact k1.2 ρ (k2.1.sat ρ (s3.sat ρ hρ)) x hx
              · intro x _ hx
                rw [heq ρ hρ]
                exact k2.2 ρ (s3.sat ρ hρ) x hx
  | app o args =>
    obtain ⟨ho, hlen, hargs⟩ := okTerm_app.mp ht
    rw [bindS_app_eq] at h
    split at h
    · cases h
    · next hnb =>
      have hnb : (getVar σ v).bound = none := by simpa using hnb
      split at h
      · next h0 =>
        have h0 : arityOf L o = 0 := by simpa using h0
        have hnil : args = [] := List.eq_nil_of_length_eq_zero (hlen.trans h0)
        subst hnil
        split at h
        · cases h
        · next hl1 =>
          split at h
          · cases h
          · next hu1 =>
            have U := upd_bindBaseStore hv (.app o [])
            have ok' : OkStore L (bindBaseStore σ v (.app o [])) := U.okStore ok
              (fun t' e => by injection e with e; subst e; exact ht)
              (ok.lower v) (ok.upper v) (ok.ordered v)
              (fun o' args' e _ => by injection e with e; injection e with e1 e2; subst e1; exact h0)
            have okc' : OkStoreC L (bindBaseStore σ v (.app o [])) :=
              okc.transfer ok' (Nat.le_of_eq U.len.symm) rfl (csR_bindBaseStore okc.crange v _)
            have heq : ∀ ρ, Sat L ρ (bindBaseStore σ v (.app o [])) → ρ v = .app o [] := fun ρ hρ => by
              have := hρ.bound v _ U.b_eq
              rw [den_app, denL_nil] at this; exact this
            have sm : StepC L σ (bindBaseStore σ v (.app o [])) :=
              StepC.of_frame okc' (Nat.le_of_eq U.len.symm) rfl (wildMono_bindBaseStore σ v _) (fun ρ hρ => by
                refine U.sat_back hρ (fun t' e => by rw [hnb] at e; cases e) ?_ ?_
                · intro x _ hx
                  rw [heq ρ hρ]
                  rcases (hpre o [] rfl h0).1 x hx with hh | hh
                  · exact sub_base_of_opSub wf (ok.lower v x hx).2 h0 hh
                  · rw [hx] at hl1; simp only [Option.any_some] at hl1; exact absurd hh hl1
                · intro x _ hx
                  rw [heq ρ hρ]
                  rcases (hpre o [] rfl h0).2 x hx with hh | hh
                  · exact sub_base_of_opSub wf h0 (ok.upper v x hx).2 hh
                  · rw [hx] at hu1; simp only [Option.any_some] at hu1; exact absurd hh hu1)
            have s2 := hcheck _ v σ' okc' h
            exact ⟨sm.trans s2, fun ρ hρ => (s2.sat ρ hρ).bound v _ U.b_eq⟩
      · next h0 =>
        split at h
        · cases h
        · next hb =>
          simp only [Bool.or_eq_true, not_or, Bool.not_eq_true, Option.isSome_eq_false_iff,
            Option.isNone_iff_eq_none] at hb
          have U := upd_bindAppStore hv (.app o args)
          have ok' : OkStore L (bindAppStore σ v (.app o args)) := U.okStore ok
            (fun t' e => by injection e with e; subst e; exact ht)
            (ok.lower v) (ok.upper v) (ok.ordered v)
            (fun o' args' _ hx => by rw [hb.1, hb.2] at hx; simp at hx)
          have okc' : OkStoreC L (bindAppStore σ v (.app o args)) :=
            okc.transfer ok' (Nat.le_of_eq U.len.symm) (constrs_bindAppStore σ v _)
              (csR_bindAppStore okc.crange v _)
          have sm : StepC L σ (bindAppStore σ v (.app o args)) :=
            StepC.of_frame okc' (Nat.le_of_eq U.len.symm) (constrs_bindAppStore σ v _)
              (wildMono_bindAppStore σ v _) (fun ρ hρ => by
              refine U.sat_back hρ (fun t' e => by rw [hnb] at e; cases e) ?_ ?_
              · intro x _ hx; rw [hb.1] at hx; cases hx
              · intro x _ hx; rw [hb.2] at hx; cases hx)
          have s2 := hcheck _ v σ' okc' h
          exact ⟨sm.trans s2, fun ρ hρ => (s2.sat ρ hρ).bound v _ U.b_eq⟩

end Tfv.C18S
