import Tfv.Proofs.WorkflowMemo
import Tfv.Proofs.ExprTyped
/-!
# The shared sub-expressions of a workflow expression

`TExpr.sharedKeys e`: the resources whose (tagged) expressions occur in `e`; `TExpr.subs e`: the tagged
sub-expressions themselves (tag, tags inside). The parser only combines its inputs, so the expression of a tool
contains no tagged expression that is not in the expression of one of its inputs. `TableInv`: the structure of the
memo table of `wfExpr` that the graph construction relies on; `TableCoh`: every tagged sub-expression in the table
looks like the table's entry for its tag.
-/
namespace Tfv
open Tfv.ParseInv Tfv.C04P

theorem subs_setTy (t : Term) : ∀ e : TExpr, (e.setTy t).subs = e.subs ∧ (e.setTy t).sharedKeys = e.sharedKeys := by
  intro e
  induction e with
  | src i l t0 => exact ⟨rfl, rfl⟩
  | op n t0 => exact ⟨rfl, rfl⟩
  | app f x t0 _ _ => exact ⟨rfl, rfl⟩
  | shared k e ih => simp only [TExpr.setTy, TExpr.subs, TExpr.sharedKeys, ih.1, ih.2, and_self]

theorem sharedKeys_setTy (t : Term) (e : TExpr) : (e.setTy t).sharedKeys = e.sharedKeys := (subs_setTy t e).2

theorem subs_annotated (previous : TExpr) (t : Term) (dash : Bool) :
    (annotated previous t dash).subs = previous.subs := by
  unfold annotated
  split
  · exact (subs_setTy t previous).1
  · rfl

theorem sharedKeys_annotated (previous : TExpr) (t : Term) (dash : Bool) :
    (annotated previous t dash).sharedKeys = previous.sharedKeys := by
  rw [← subs_keys, ← subs_keys, subs_annotated]

/-- the typed builder only combines: every tagged expression in a result is in one of the arguments -/
theorem typedBuilder_subs (P : PLang) (ops : List OperatorDecl) (K : Nat × List Nat → Prop) :
    BuilderInv P (typedBuilder P.types ops true) (fun _ => True) (fun _ e => ∀ x ∈ e.subs, K x)
      (fun _ _ => True) where
  mono := fun _ _ _ _ hq => hq
  mkSource := fun s _ => ⟨trivial, trivial, by
    show ∀ x ∈ (mkSourceT s).2.subs, K x
    rw [mkSourceT_eq]; intro j hj; cases hj⟩
  mkOp := fun s name s' e _ h => ⟨trivial, trivial, by
    obtain ⟨d, σ, t, _, _, _, _, he⟩ := mkOpT_decl h
    rcases he with rfl | rfl <;> (intro _ hj; cases hj)⟩
  mkApp := fun s f x s' e _ hf hx h => ⟨trivial, trivial, by
    have h' : mkAppT P.types true s f x = .ok (s', e) := h
    unfold mkAppT at h'
    split at h'
    · cases h'
    · cases h'
      intro j hj
      rcases List.mem_append.1 hj with hj | hj
      · exact hf j hj
      · exact hx j hj⟩
  annotate := fun s prev t nfresh dash s' e toks toks' _ hp _ h => ⟨trivial, trivial, by
    have h' : annotateT P.types s prev t nfresh dash = .ok (s', e) := h
    rw [annotateT_eq] at h'
    split at h'
    · cases h'
    · cases h'
      rw [subs_annotated]; exact hp⟩

theorem parse_subs (P : PLang) (ops : List OperatorDecl) (inputs : List TExpr) (st0 st : XState) (toks : List String)
    (e : TExpr) (h : parseExprToks P (typedBuilder P.types ops true) inputs st0 toks = .ok (st, e)) :
    ∀ y ∈ e.subs, ∃ x ∈ inputs, y ∈ x.subs :=
  (parseExprToks_inv (typedBuilder_subs P ops (fun y => ∃ x ∈ inputs, y ∈ x.subs)) trivial
    (fun x hx _ hj => ⟨x, hx, hj⟩) h).2.2

theorem parse_keys (P : PLang) (ops : List OperatorDecl) (inputs : List TExpr) (st0 st : XState) (toks : List String)
    (e : TExpr) (h : parseExprToks P (typedBuilder P.types ops true) inputs st0 toks = .ok (st, e)) :
    ∀ j ∈ e.sharedKeys, ∃ x ∈ inputs, j ∈ x.sharedKeys := by
  intro j hj
  rw [← subs_keys] at hj
  obtain ⟨y, hy, rfl⟩ := List.mem_map.1 hj
  obtain ⟨x, hx, hyx⟩ := parse_subs P ops inputs st0 st toks e h y hy
  exact ⟨x, hx, by rw [← subs_keys]; exact List.mem_map_of_mem hyx⟩

/-! ## the stand-in fold: every expression handed to the parser is an input's expression or a fresh source -/

theorem Wfl.exists_zip_of_mem_right {α β : Type} : ∀ (as : List α) (bs : List β), bs.length = as.length → ∀ x ∈ bs,
    ∃ i, (i, x) ∈ as.zip bs
  | _, [], _, x, hx => by cases hx
  | [], _ :: _, hl, _, _ => by simp at hl
  | a :: as, b :: bs, hl, x, hx => by
    rw [List.zip_cons_cons]
    rcases List.mem_cons.1 hx with rfl | hx
    · exact ⟨a, List.mem_cons_self⟩
    · obtain ⟨i, hi⟩ := Wfl.exists_zip_of_mem_right as bs (by simpa using hl) x hx
      exact ⟨i, List.mem_cons_of_mem _ hi⟩

theorem wfStandIns_inputs (P : PLang) (w : Wf) (pt : Bool) (a : WfApp) (s1 : WState) (ies : List TExpr) (s2 : WState)
    (inputs : List TExpr) (hlen : ies.length = a.inputs.length)
    (h : wfStandIns P w pt a s1 ies = .ok (s2, inputs)) :
    ∀ x ∈ inputs, x.IsSrc ∨ ∃ i, (i, x) ∈ a.inputs.zip ies := by
  unfold wfStandIns at h
  split at h
  · rename_i hpt
    simp only [Except.ok.injEq, Prod.mk.injEq] at h
    rw [← h.2]
    intro x hx
    exact .inr (Wfl.exists_zip_of_mem_right _ _ hlen x hx)
  · refine Wfl.foldlM_inv (wfStandInStep P w) (fun acc => ∀ x ∈ acc.2, x.IsSrc ∨ ∃ i, (i, x) ∈ a.inputs.zip ies)
      _ _ _ ?_ (by simp) h
    intro b p b' hp hb hf
    rcases wfStandInStep_ok hf with ⟨_, rfl⟩ | ⟨_, _, _, _, _, _, _, y, hy, hb'⟩
    · intro x hx
      rcases List.mem_append.1 hx with hx | hx
      · exact hb x hx
      · rw [List.mem_singleton] at hx
        subst hx
        exact .inr ⟨p.1, hp⟩
    · rw [hb']
      intro x hx
      rcases List.mem_append.1 hx with hx | hx
      · exact hb x hx
      · rw [List.mem_singleton] at hx
        subst hx
        exact .inl hy

/-! ## the structure of the memo table -/

structure TableInv (w : Wf) (T : List (Nat × TExpr)) : Prop where
  /-- an entry is a source or a tool's expression tagged with its own resource -/
  shape : ∀ p ∈ T, p.2.IsSrc ∨ IsSharedOwn p
  /-- one entry per resource -/
  nodup : (T.map (·.1)).Nodup
  /-- every tagged expression inside an entry is itself in the table -/
  closed : ∀ p ∈ T, ∀ j ∈ p.2.sharedKeys, j ∈ T.map (·.1)
  /-- the expression of a resource does not contain itself -/
  noself : ∀ r e0, (r, TExpr.shared r e0) ∈ T → r ∉ e0.sharedKeys
  /-- a tagged expression inside a tool's expression is inside the expression of one of the tool's inputs -/
  struct : ∀ r e0, (r, TExpr.shared r e0) ∈ T → ∀ j ∈ e0.sharedKeys,
    ∃ a i ei, w.app? r = some a ∧ i ∈ a.inputs ∧ alook T i = some ei ∧ j ∈ ei.sharedKeys

/-- every tagged sub-expression of an entry carries the tags of the table's entry for its tag -/
def TableCoh (T : List (Nat × TExpr)) : Prop :=
  ∀ p ∈ T, ∀ x ∈ p.2.subs, ∃ e0, alook T x.1 = some (TExpr.shared x.1 e0) ∧ e0.sharedKeys = x.2

theorem IsSrc.sharedKeys {e : TExpr} (h : e.IsSrc) : e.sharedKeys = [] := by
  obtain ⟨id, l, t, rfl⟩ := h; rfl

theorem IsSrc.subs {e : TExpr} (h : e.IsSrc) : e.subs = [] := by
  obtain ⟨id, l, t, rfl⟩ := h; rfl

/-! ## tables that agree up to types -/

/-- `T'` has the keys of `T`, and under every key an expression with the same identity and the same tags -/
def KSim (T T' : List (Nat × TExpr)) : Prop :=
  T'.map (·.1) = T.map (·.1) ∧
    ∀ k v, alook T k = some v → ∃ v', alook T' k = some v' ∧ v'.head = v.head ∧ v'.sharedKeys = v.sharedKeys

theorem head_isSrc {e e' : TExpr} (h : e'.head = e.head) (hs : e.IsSrc) : e'.IsSrc := by
  obtain ⟨id, l, t, rfl⟩ := hs
  cases e' with
  | src i l' t' => exact ⟨_, _, _, rfl⟩
  | op n t' => cases h
  | app f x t' => cases h
  | shared k e0 => simp [TExpr.head] at h

theorem head_shared {e' : TExpr} {k : Nat} {e0 : TExpr} (h : e'.head = (TExpr.shared k e0).head)
    (hk : e'.sharedKeys = (TExpr.shared k e0).sharedKeys) : ∃ e0', e' = .shared k e0' ∧ e0'.sharedKeys = e0.sharedKeys := by
  cases e' with
  | src i l' t' => simp [TExpr.head] at h
  | op n t' => cases h
  | app f x t' => cases h
  | shared k' e1 =>
    simp only [TExpr.head, Option.some.injEq, Prod.mk.injEq, true_and] at h
    subst h
    simp only [TExpr.sharedKeys, List.cons.injEq, true_and] at hk
    exact ⟨e1, rfl, hk⟩

/-- an entry of `T'` comes from an entry of `T` -/
theorem KSim.back {T T' : List (Nat × TExpr)} (h : KSim T T') (hn : (T.map (·.1)).Nodup) {p' : Nat × TExpr} (hp : p' ∈ T') :
    ∃ v, (p'.1, v) ∈ T ∧ p'.2.head = v.head ∧ p'.2.sharedKeys = v.sharedKeys := by
  have hn' : (T'.map (·.1)).Nodup := by rw [h.1]; exact hn
  have hl : alook T' p'.1 = some p'.2 := alook_of_mem_nodup hn' hp
  have hk : p'.1 ∈ T.map (·.1) := by rw [← h.1]; exact List.mem_map_of_mem (f := (·.1)) hp
  obtain ⟨v, hv⟩ := alook_isSome_of_key hk
  obtain ⟨v', hv', hh, hks⟩ := h.2 _ _ hv
  rw [hl] at hv'
  cases hv'
  exact ⟨v, alook_some_mem hv, hh, hks⟩

theorem tableInv_ksim {w : Wf} {T T' : List (Nat × TExpr)} (hT : TableInv w T) (h : KSim T T') : TableInv w T' := by
  refine ⟨?_, by rw [h.1]; exact hT.nodup, ?_, ?_, ?_⟩
  · intro p hp
    obtain ⟨v, hv, hh, hks⟩ := h.back hT.nodup hp
    rcases hT.shape _ hv with hs | ⟨e0, he0⟩
    · exact .inl (head_isSrc hh hs)
    · simp only at he0
      subst he0
      obtain ⟨e0', he0', _⟩ := head_shared hh hks
      exact .inr ⟨e0', he0'⟩
  · intro p hp j hj
    obtain ⟨v, hv, _, hks⟩ := h.back hT.nodup hp
    rw [h.1]
    exact hT.closed _ hv j (by rw [← hks]; exact hj)
  · intro r e0' hp
    obtain ⟨v, hv, hh, hks⟩ := h.back hT.nodup hp
    obtain ⟨e0, rfl, hk0⟩ := head_shared hh.symm hks.symm
    rw [← hk0]
    exact hT.noself r e0 hv
  · intro r e0' hp j hj
    obtain ⟨v, hv, hh, hks⟩ := h.back hT.nodup hp
    obtain ⟨e0, rfl, hk0⟩ := head_shared hh.symm hks.symm
    obtain ⟨a, i, ei, ha, hi, hei, hjei⟩ := hT.struct r e0 hv j (by rw [hk0]; exact hj)
    obtain ⟨ei', hei', _, hks'⟩ := h.2 _ _ hei
    exact ⟨a, i, ei', ha, hi, hei', by rw [hks']; exact hjei⟩

/-- tables that agree up to `TExpr.sig` -/
theorem ksim_of_sig {T T' : List (Nat × TExpr)} (hk : T'.map (·.1) = T.map (·.1))
    (hs : ∀ k v, alook T k = some v → ∃ v', alook T' k = some v' ∧ v'.sig = v.sig) : KSim T T' :=
  ⟨hk, fun k v hv => by
    obtain ⟨v', hv', h⟩ := hs k v hv
    exact ⟨v', hv', congrArg Prod.fst h, sig_sharedKeys h⟩⟩

theorem tableCoh_sim {T T' : List (Nat × TExpr)} (hn : (T.map (·.1)).Nodup) (hk : T'.map (·.1) = T.map (·.1))
    (hs : ∀ k v, alook T k = some v → ∃ v', alook T' k = some v' ∧ v'.sig = v.sig) (hc : TableCoh T) : TableCoh T' := by
  intro p' hp x hx
  have hn' : (T'.map (·.1)).Nodup := by rw [hk]; exact hn
  have hl : alook T' p'.1 = some p'.2 := alook_of_mem_nodup hn' hp
  have hkey : p'.1 ∈ T.map (·.1) := by rw [← hk]; exact List.mem_map_of_mem (f := (·.1)) hp
  obtain ⟨v, hv⟩ := alook_isSome_of_key hkey
  obtain ⟨v', hv', hsig⟩ := hs _ _ hv
  rw [hl] at hv'
  cases hv'
  have hsubs : p'.2.subs = v.subs := congrArg Prod.snd hsig
  rw [hsubs] at hx
  obtain ⟨e0, he0, hk0⟩ := hc _ (alook_some_mem hv) x hx
  obtain ⟨v2, hv2, hsig2⟩ := hs _ _ he0
  obtain ⟨e0', rfl, hk0', _⟩ := sig_shared hsig2
  exact ⟨e0', hv2, hk0'.trans hk0⟩

/-! ## `wfExpr` keeps the structure of the memo table -/

def TableOk (w : Wf) (T : List (Nat × TExpr)) : Prop := TableInv w T ∧ TableCoh T

theorem foldRun_table {w : Wf} {s s1 : WState} {is : List Nat} {es : List TExpr}
    (hr : FoldRun (fun s _ s' _ => TableOk w s.exprs → TableOk w s'.exprs) s is s1 es)
    (hT : TableOk w s.exprs) : TableOk w s1.exprs := by
  induction hr with
  | nil s => exact hT
  | cons h1 _ ih => exact ih (h1 hT)

theorem wfExpr_table (P : PLang) (ops : List OperatorDecl) (w : Wf) (pt : Bool) :
    ∀ n s r s' e, wfExpr P ops w pt n s r = .ok (s', e) → TableOk w s.exprs → TableOk w s'.exprs := by
  apply wfExpr_induction2 P ops w pt (fun s _ s' _ => TableOk w s.exprs → TableOk w s'.exprs)
  · intro s r e _ h; exact h
  · intro s r a s1 ies s2 inputs xs3 e0 l1 hst hr hs1 _ hes hlen hT
    -- the table after the inputs, and after the stand-in fold
    obtain ⟨hT1, hC1⟩ := foldRun_table hr hT
    have hsim : ∀ k v, alook s1.exprs k = some v → ∃ v', alook s2.exprs k = some v' ∧ v'.sig = v.sig :=
      fun k v hv => hst.sim hes k v hv
    have hT2 : TableInv w s2.exprs := tableInv_ksim hT1 (ksim_of_sig hst.keys hsim)
    have hC2 : TableCoh s2.exprs := tableCoh_sim hT1.nodup hst.keys hsim hC1
    -- the input expressions are, up to shape, entries of that table
    have hin : ∀ x ∈ inputs, x.IsSrc ∨ ∃ i v, i ∈ a.inputs ∧ alook s2.exprs i = some v ∧ v.sig = x.sig := by
      intro x hx
      rcases wfStandIns_inputs P w pt a s1 ies s2 inputs hlen hst.stand x hx with hsrc | ⟨i, hi⟩
      · exact .inl hsrc
      · obtain ⟨v, hv, hvs⟩ := hes _ hi
        obtain ⟨v', hv', hvs'⟩ := hsim i v hv
        exact .inr ⟨i, v', (List.of_mem_zip hi).1, hv', hvs'.trans hvs⟩
    have hsubs : ∀ y ∈ e0.subs, ∃ i v, i ∈ a.inputs ∧ alook s2.exprs i = some v ∧ y ∈ v.subs := by
      intro y hy
      obtain ⟨x, hx, hyx⟩ := parse_subs P ops inputs _ _ _ _ hst.parse y hy
      rcases hin x hx with hsrc | ⟨i, v, hi, hv, hvs⟩
      · rw [IsSrc.subs hsrc] at hyx; cases hyx
      · have : v.subs = x.subs := congrArg Prod.snd hvs
        exact ⟨i, v, hi, hv, by rw [this]; exact hyx⟩
    have hkeys : ∀ j ∈ e0.sharedKeys, ∃ i ei, i ∈ a.inputs ∧ alook s2.exprs i = some ei ∧ j ∈ ei.sharedKeys := by
      intro j hj
      rw [← subs_keys] at hj
      obtain ⟨y, hy, rfl⟩ := List.mem_map.1 hj
      obtain ⟨i, v, hi, hv, hyv⟩ := hsubs y hy
      exact ⟨i, v, hi, hv, by rw [← subs_keys]; exact List.mem_map_of_mem hyv⟩
    have hr2 : alook s2.exprs r = none := hst.absent_stays hs1
    have hr1 : r ∉ s2.exprs.map (·.1) := alook_none_iff.1 hr2
    have hinT : ∀ j ∈ e0.sharedKeys, j ∈ s2.exprs.map (·.1) := by
      intro j hj
      obtain ⟨i, ei, _, hei, hjei⟩ := hkeys j hj
      exact hT2.closed (i, ei) (alook_some_mem hei) j hjei
    show TableOk w (s2.exprs ++ [(r, TExpr.shared r e0)])
    refine ⟨⟨?_, ?_, ?_, ?_, ?_⟩, ?_⟩
    · intro p hp
      rcases List.mem_append.1 hp with hp | hp
      · exact hT2.shape p hp
      · rw [List.mem_singleton] at hp; subst hp; exact .inr ⟨e0, rfl⟩
    · rw [List.map_append, List.nodup_append]
      refine ⟨hT2.nodup, by simp, ?_⟩
      intro x hx y hy hxy
      simp only [List.map_cons, List.map_nil, List.mem_singleton] at hy
      subst hxy; subst hy
      exact hr1 hx
    · intro p hp j hj
      rw [List.map_append]
      rcases List.mem_append.1 hp with hp | hp
      · exact List.mem_append_left _ (hT2.closed p hp j hj)
      · rw [List.mem_singleton] at hp; subst hp
        rcases List.mem_cons.1 hj with rfl | hj
        · exact List.mem_append_right _ (by simp)
        · exact List.mem_append_left _ (hinT j hj)
    · intro r' e' hp
      rcases List.mem_append.1 hp with hp | hp
      · exact hT2.noself r' e' hp
      · rw [List.mem_singleton] at hp
        simp only [Prod.mk.injEq, TExpr.shared.injEq] at hp
        obtain ⟨rfl, _, rfl⟩ := hp
        exact fun hself => hr1 (hinT _ hself)
    · intro r' e' hp j hj
      rcases List.mem_append.1 hp with hp | hp
      · obtain ⟨a', i, ei, ha', hi, hei, hjei⟩ := hT2.struct r' e' hp j hj
        exact ⟨a', i, ei, ha', hi, alook_append_some hei, hjei⟩
      · rw [List.mem_singleton] at hp
        simp only [Prod.mk.injEq, TExpr.shared.injEq] at hp
        obtain ⟨rfl, _, rfl⟩ := hp
        obtain ⟨i, ei, hi, hei, hjei⟩ := hkeys j hj
        exact ⟨a, i, ei, hst.app, hi, alook_append_some hei, hjei⟩
    · intro p hp x hx
      rcases List.mem_append.1 hp with hp | hp
      · obtain ⟨e1, he1, hk1⟩ := hC2 p hp x hx
        exact ⟨e1, alook_append_some he1, hk1⟩
      · rw [List.mem_singleton] at hp; subst hp
        rcases List.mem_cons.1 hx with rfl | hx
        · exact ⟨e0, by rw [alook_append_none hr2, alook_singleton], rfl⟩
        · obtain ⟨i, v, _, hv, hxv⟩ := hsubs x hx
          obtain ⟨e1, he1, hk1⟩ := hC2 _ (alook_some_mem hv) x hxv
          exact ⟨e1, alook_append_some he1, hk1⟩

end Tfv
